/-
The linear world: a repository that holds ONE branch — the chain `c` from genesis, of which the first `k`
headers have been pruned from memory and the first `m` are in storage — through every operation:
submissions that extend the tip (including the automatic clean every 10000 heights), Clean, Save, Load
with any depth, and a crash at any write of a Save or Clean.  No bound on the length of the chain, the
number of generations or the order of the operations.
-/
import BRV.Proofs.RepoCrash
import BRV.Proofs.RepoExample
import BRV.Proofs.LoadSound

namespace BRV.Repo

/-! ### chunks of a chain -/

theorem chunk_take_stable {α : Type} (c : List α) (f k m : Nat) (hk : (f + 1) * H ≤ k) (hkm : k ≤ m) :
    ((c.take m).drop (f * H)).take H = ((c.take k).drop (f * H)).take H := by
  have e : (f + 1) * H = f * H + H := by rw [Nat.add_mul]; omega
  rw [List.drop_take, List.drop_take, List.take_take, List.take_take]
  congr 1
  omega

theorem chunk_take_full {α : Type} (c : List α) (f k : Nat) (hk : (f + 1) * H ≤ k) :
    ((c.take k).drop (f * H)).take H = (c.drop (f * H)).take H := by
  have e : (f + 1) * H = f * H + H := by rw [Nat.add_mul]; omega
  rw [List.drop_take, List.take_take]
  congr 1
  omega

/-- what storage holds of the chain: nothing (`m = 0`), or the first `m` headers — exact main-chain
    files, the root branch file, possibly the index. -/
structure StoreLin (st : Store) (c : List HData) (m : Nat) : Prop where
  v0 : st.mainV0 = []
  empty : m = 0 → st.branches = [] ∧ st.index = none
  main : 0 < m → FilesExact st.main (c.take m) (m / H + 1)
  br : 0 < m → ∃ d, c[0]? = some d ∧
    st.branches = [(d.hdr.id, { first := d.hdr, parentHeight := -1, offset := 1, headers := c.take m })] ∧
    (st.index = none ∨ st.index = some [d.hdr.id])

/-- the linear world invariant. -/
structure PLin (r : Repo) (c : List HData) (k m : Nat) : Prop where
  ne : c ≠ []
  nodup : (c.map (·.hdr.id)).Nodup
  linked : InternallyLinked c
  kn : k < c.length
  mle : m ≤ c.length
  km : (m = 0 ∧ k = 0) ∨ k < m
  arena : r.arena.length = 1
  branches : r.branches = [0]
  longest : r.longest = 0
  par : (r.br 0).parent = none
  ph : (r.br 0).parentHeight = -1
  off : (r.br 0).offset = (k : Int) + 1
  hdrs : (r.br 0).headers = c.drop k
  first : ∀ d, c[0]? = some d → (r.br 0).first = d.hdr
  hmap : ∀ id, (r.br 0).hmap.get? id =
    match posOf c id with
    | some i => if k ≤ i then some (i : Int) else none
    | none => none
  heights : ∀ id, r.heights.get? id = (posOf c id).map Int.ofNat
  gen : ∀ d, c[0]? = some d → r.cfg.genesisId = d.hdr.id
  store : StoreLin r.store c m

/-! ### the write sequence of the main-chain files, event by event -/

/-- a main-chain event that is consistent with the chain `c`: file `f` rewritten with chunk `f` of `c`, or
    the file after the last one removed. -/
def MainEvOf (c : List HData) : StoreEv → Prop
  | .mainWrite f recs => recs = (c.drop (f * H)).take H
  | .mainRemove f => f = c.length / H + 1
  | _ => False

theorem saveMainGo_evs : ∀ (hs : List HData) (r : Repo) (fn : Nat) (buf done : List HData),
    done.length = fn * H + buf.length → buf.length < H → buf = done.drop (fn * H) →
    ∃ M : List StoreEv,
      (saveMainBranch.go hs r (fn : Int) (done.length : Int) buf).1.events = r.events ++ M ∧
      ∀ e ∈ M, ∃ f, (f + 1) * H ≤ (done ++ hs).length ∧ e = .mainWrite f (((done ++ hs).drop (f * H)).take H) := by
  intro hs
  induction hs with
  | nil => intro r fn buf done _ _ _; exact ⟨[], by simp [saveMainBranch.go], by simp⟩
  | cons d rest ih =>
    intro r fn buf done hlen hbuf hdrop
    simp only [saveMainBranch.go]
    have hdone' : (done ++ [d]).length = done.length + 1 := by simp
    have hcast : ((done.length : Int) + 1) = ((done ++ [d]).length : Int) := by rw [hdone']; omega
    have happ : done ++ d :: rest = (done ++ [d]) ++ rest := by simp
    by_cases hfull : (done.length : Int) + 1 = ((fn : Int) + 1) * hpf
    · rw [if_pos hfull]
      have hfullN : done.length + 1 = (fn + 1) * H := by
        rw [hpf_eq] at hfull
        have : ((done.length + 1 : Nat) : Int) = (((fn + 1) * H : Nat) : Int) := by push_cast; omega
        exact_mod_cast this
      obtain ⟨M, hev, hM⟩ := ih (r.emit (.mainWrite (fn : Int).toNat (buf ++ [d]))) (fn + 1) [] (done ++ [d])
        (by simp [hfullN]) H_pos (by rw [List.drop_eq_nil_of_le]; simp; omega)
      have hcast2 : ((fn : Int) + 1) = ((fn + 1 : Nat) : Int) := by push_cast; rfl
      rw [hcast, hcast2]
      refine ⟨.mainWrite fn (buf ++ [d]) :: M, ?_, ?_⟩
      · rw [hev]; simp [Repo.emit]
      · intro e he
        rcases List.mem_cons.mp he with rfl | he
        · refine ⟨fn, by rw [happ, List.length_append, hdone']; omega, ?_⟩
          congr 1
          have e1 : (fn + 1) * H = fn * H + H := by rw [Nat.add_mul]; omega
          have h1 : fn * H ≤ done.length := by omega
          have hbl : (buf ++ [d]).length = H := by simp; omega
          have hd2 : (done ++ d :: rest).drop (fn * H) = (buf ++ [d]) ++ rest := by
            rw [List.drop_append_of_le_length h1, ← hdrop]; simp
          rw [hd2, List.take_append_of_le_length (by omega), List.take_of_length_le (by omega)]
        · obtain ⟨f, hf, hef⟩ := hM e he
          exact ⟨f, by rw [happ]; exact hf, by rw [happ]; exact hef⟩
    · rw [if_neg hfull]
      obtain ⟨M, hev, hM⟩ := ih r fn (buf ++ [d]) (done ++ [d])
        (by simp; omega)
        (by
          simp
          have hnotfull : done.length + 1 ≠ (fn + 1) * H := by
            intro he
            apply hfull
            rw [hpf_eq]
            have : ((done.length + 1 : Nat) : Int) = (((fn + 1) * H : Nat) : Int) := by rw [he]
            push_cast at this; omega
          have : (fn + 1) * H = fn * H + H := by rw [Nat.add_mul]; omega
          omega)
        (by rw [hdrop, List.drop_append_of_le_length (by omega)])
      rw [hcast]
      refine ⟨M, hev, ?_⟩
      intro e he
      obtain ⟨f, hf, hef⟩ := hM e he
      exact ⟨f, by rw [happ]; exact hf, by rw [happ]; exact hef⟩


/-! ### `saveMainBranch` in the linear world -/

theorem saveMain_lin (r : Repo) (c : List HData) (k m : Nat) (hp : PLin r c k m) :
    ∃ (r2 : Repo) (M : List StoreEv), saveMainBranch r = .ok r2 ∧
      FilesExact r2.store.main c (c.length / H + 1) ∧
      (∀ e ∈ M, e.isMain = true) ∧ (∀ e ∈ M, MainEvOf c e) ∧
      r2.events = r.events ++ M ∧ r2.store = M.foldl Store.apply r.store ∧
      r2.arena = r.arena ∧ r2.branches = r.branches ∧ r2.longest = r.longest ∧ r2.heights = r.heights ∧
      r2.invalid = r.invalid ∧ r2.cfg = r.cfg ∧ r2.disableDifficulty = r.disableDifficulty ∧
      r2.disableSplit = r.disableSplit := by
  have hH : H = 1000 := rfl
  have hkn := hp.kn
  -- the start buffer
  have hpl : (r.br r.longest).prunedLowest = (k : Int) := by
    rw [hp.longest]; unfold Branch.prunedLowest; rw [hp.ph, hp.off]; omega
  have hfile : Int.tdiv (k : Int) hpf = ((k / H : Nat) : Int) := by rw [hpf_eq]; rfl
  have hkeep : (k : Int) - ((k / H : Nat) : Int) * hpf = ((k % H : Nat) : Int) := by
    rw [hpf_eq, hH]; omega
  have hbuf0 : ∃ buf0 : List HData, saveMainStart r = .ok buf0 ∧ buf0 = (c.take k).drop (k / H * H) := by
    unfold saveMainStart
    simp only
    rw [hpl, hfile]
    by_cases hcond : (r.br r.longest).offset ≠ 1 ∧ (k : Int) - ((k / H : Nat) : Int) * hpf > 0
    · rw [if_pos hcond]
      have hkpos : 0 < k % H := by rw [hkeep] at hcond; omega
      have hk0 : 0 < k := by
        rcases Nat.eq_zero_or_pos k with h0 | h0
        · rw [h0] at hkpos; simp at hkpos
        · exact h0
      have hkm : k < m := by
        rcases hp.km with ⟨_, h0⟩ | h
        · omega
        · exact h
      have hm0 : 0 < m := by omega
      have hfe := hp.store.main hm0 (k / H) (by
        have : k / H ≤ m / H := Nat.div_le_div_right (by omega)
        omega)
      have htn : ((k / H : Nat) : Int).toNat = k / H := Int.toNat_natCast _
      rw [htn, hfe]
      simp only
      have hlen : (((c.take m).drop (k / H * H)).take H).length = min H (m - k / H * H) := by
        rw [List.length_take, List.length_drop, List.length_take]
        have := hp.mle
        omega
      have hnot : ¬ (((((c.take m).drop (k / H * H)).take H).length : Int) < (k : Int) - ((k / H : Nat) : Int) * hpf) := by
        rw [hlen, hkeep, hH]
        omega
      rw [if_neg hnot]
      refine ⟨_, rfl, ?_⟩
      rw [hkeep, Int.toNat_natCast]
      rw [List.drop_take, List.take_take, List.take_take, List.drop_take]
      congr 1
      have := hp.mle
      rw [hH]
      omega
    · rw [if_neg hcond]
      refine ⟨[], rfl, ?_⟩
      have hz : k % H = 0 ∨ k = 0 := by
        by_cases ho : (r.br r.longest).offset = 1
        · right
          rw [hp.longest, hp.off] at ho
          omega
        · left
          have : ¬ ((k : Int) - ((k / H : Nat) : Int) * hpf > 0) := fun h => hcond ⟨ho, h⟩
          rw [hkeep] at this
          omega
      symm
      rw [List.drop_eq_nil_iff, List.length_take]
      rcases hz with hz | hz
      · have : k = k / H * H + k % H := by rw [hH]; omega
        omega
      · subst hz; simp
  obtain ⟨buf0, hstart, hbuf0eq⟩ := hbuf0
  -- the loop
  have hdone_len : (c.take k).length = k := by rw [List.length_take]; omega
  have hmod : k % H < H := Nat.mod_lt _ H_pos
  have hkdecomp : k = k / H * H + k % H := by rw [hH]; omega
  have hbuflen : buf0.length = k % H := by
    rw [hbuf0eq, List.length_drop, hdone_len]; omega
  have hfiles0 : FilesExact r.store.main (c.take k) (k / H) := by
    intro f hf
    have hfk : (f + 1) * H ≤ k := by
      have : (f + 1) * H ≤ k / H * H := Nat.mul_le_mul_right H (by omega)
      omega
    have hkm : k < m := by
      rcases hp.km with ⟨_, h0⟩ | h
      · subst h0; simp at hf
      · exact h
    have := hp.store.main (by omega) f (by
      have : k / H ≤ m / H := Nat.div_le_div_right (by omega)
      omega)
    rw [this, chunk_take_stable c f k m hfk (by omega)]
  obtain ⟨fn1, hf1, hlen1, hbuf1, hdrop1, hfiles1⟩ := saveMainGo_exact (c.drop k) r (k / H) buf0 (c.take k)
    (by rw [hdone_len, hbuflen]; exact hkdecomp) (by rw [hbuflen]; exact hmod) hbuf0eq hfiles0
  obtain ⟨g1, g2, g3, g4, g5⟩ := saveMainGo_store_frame (c.drop k) r ((k / H : Nat) : Int) ((c.take k).length : Int) buf0
  obtain ⟨f1, f2, f3, f4, f5, f6⟩ := saveMainGo_frame (c.drop k) r ((k / H : Nat) : Int) ((c.take k).length : Int) buf0
  obtain ⟨M0, hM0, hev0, hst0⟩ := saveMainGo_events (c.drop k) r ((k / H : Nat) : Int) ((c.take k).length : Int) buf0
  obtain ⟨M1, hev1, hM1⟩ := saveMainGo_evs (c.drop k) r (k / H) buf0 (c.take k)
    (by rw [hdone_len, hbuflen]; exact hkdecomp) (by rw [hbuflen]; exact hmod) hbuf0eq
  have hM01 : M0 = M1 := by
    rw [hev0] at hev1
    exact List.append_cancel_left hev1
  subst hM01
  rw [List.take_append_drop] at hlen1 hdrop1 hfiles1 hM1
  unfold saveMainBranch
  simp only
  rw [hpl, hfile, hstart]
  simp only
  have hhdrs : (r.br r.longest).headers = c.drop k := by rw [hp.longest]; exact hp.hdrs
  rw [hhdrs]
  have hkcast : (k : Int) = ((c.take k).length : Int) := by rw [hdone_len]
  rw [hkcast]
  generalize hgo : saveMainBranch.go (c.drop k) r ((k / H : Nat) : Int) ((c.take k).length : Int) buf0 = res
    at hf1 hlen1 hbuf1 hdrop1 hfiles1 g1 g2 g3 g4 g5 f1 f2 f3 f4 f5 f6 hev0 hst0
  obtain ⟨r1, file1, buf⟩ := res
  simp only at hf1 hlen1 hbuf1 hdrop1 hfiles1 g1 g2 g3 g4 g5 f1 f2 f3 f4 f5 f6 hev0 hst0 ⊢
  subst hf1
  have hfn : ((fn1 : Int)).toNat = fn1 := by omega
  have hfn2 : ((fn1 : Int) + 1).toNat = fn1 + 1 := by omega
  have hnf : c.length / H + 1 = fn1 + 1 := by
    rw [hlen1]; rw [hH] at hbuf1 ⊢; omega
  refine ⟨_, M0 ++ [.mainWrite fn1 buf, .mainRemove (fn1 + 1)], rfl, ?_, ?_, ?_, ?_, ?_, f1, f2, f3, f4, f5, f6, g4, g5⟩
  · rw [hnf]
    intro f hf
    simp only [Repo.emit, Store.apply, hfn, hfn2]
    rw [lookup_filter_ne' _ _ _ (by omega), lookup_assocSet]
    by_cases hff : f = fn1
    · subst hff
      simp only [↓reduceIte, Option.some.injEq]
      rw [hdrop1, List.take_of_length_le]
      rw [← hdrop1]; omega
    · simp only [hff, ↓reduceIte]
      exact hfiles1 f (by omega)
  · intro e he
    simp only [List.mem_append, List.mem_cons, List.mem_nil_iff, or_false] at he
    rcases he with he | rfl | rfl
    · exact hM0 e he
    · rfl
    · rfl
  · intro e he
    simp only [List.mem_append, List.mem_cons, List.mem_nil_iff, or_false] at he
    rcases he with he | rfl | rfl
    · obtain ⟨f, _, hef⟩ := hM1 e he
      rw [hef]; rfl
    · show buf = (c.drop (fn1 * H)).take H
      rw [hdrop1, List.take_of_length_le]
      rw [← hdrop1]; omega
    · show fn1 + 1 = c.length / H + 1
      exact hnf.symm
  · simp only [Repo.emit, hfn, hfn2]
    rw [hev0]; simp
  · simp only [Repo.emit, hfn, hfn2]
    rw [hst0]; simp [List.foldl_append]

/-! ### what a linear-world repository reports -/

theorem PLin.arena_eq {r : Repo} {c : List HData} {k m : Nat} (hp : PLin r c k m) : r.arena = [r.br 0] := by
  have h1 := hp.arena
  cases ha : r.arena with
  | nil => rw [ha] at h1; simp at h1
  | cons b rest =>
    rw [ha] at h1
    cases rest with
    | nil => unfold Repo.br; rw [ha]; rfl
    | cons x xs => simp at h1

theorem PLin.at {r : Repo} {c : List HData} {k m : Nat} (hp : PLin r c k m) (h : Int) :
    r.at 0 h = if (k : Int) ≤ h then getI c h else none := by
  rw [at_single r (r.br 0) hp.arena_eq hp.par h, hp.ph, hp.off, hp.hdrs]
  by_cases hk : (k : Int) ≤ h
  · have : h > -1 := by omega
    rw [if_pos this, if_pos hk]
    unfold getI
    have h1 : ¬ (h - -1 - ((k : Int) + 1) < 0) := by omega
    have h2 : ¬ (h < 0) := by omega
    simp only [h1, h2, ↓reduceIte, List.getElem?_drop]
    congr 1
    omega
  · rw [if_neg hk]
    split
    · unfold getI
      have : h - -1 - ((k : Int) + 1) < 0 := by omega
      simp only [this, ↓reduceIte]
    · rfl

theorem getLast?_drop_of_lt {α : Type} (c : List α) (k : Nat) (hk : k < c.length) : (c.drop k).getLast? = c.getLast? := by
  rw [List.getLast?_drop]
  have : ¬ (c.length ≤ k) := by omega
  simp only [this, ↓reduceIte]

/-- **everything the read API reports is a function of the chain `c` alone** — not of how much of it is
    pruned from memory or held in storage. -/
theorem plin_obs {r : Repo} {c : List HData} {k m : Nat} (hp : PLin r c k m) :
    tipHeight r = (c.length : Int) - 1 ∧
    (∀ l, c.getLast? = some l → tipId r = l.hdr.id ∧ tipWork r = l.work) ∧
    (∀ (h : Nat) (d : HData), c[h]? = some d → headerAt r h = .ok d.hdr) ∧
    (∀ h : Int, (c.length : Int) ≤ h → headerAt r h = .error .beyondTip) ∧
    (∀ id, hashHeight r id = (posOf c id).map Int.ofNat) := by
  have hH : H = 1000 := rfl
  have hheight : (r.br r.longest).height = (c.length : Int) - 1 := by
    rw [hp.longest]
    unfold Branch.height
    rw [hp.ph, hp.off, hp.hdrs, List.length_drop]
    have := hp.kn
    omega
  refine ⟨hheight, ?_, ?_, ?_, ?_⟩
  · intro l hl
    unfold tipId tipWork Repo.lastOf Branch.last?
    rw [hp.longest, hp.hdrs, getLast?_drop_of_lt c k hp.kn, hl]
    exact ⟨rfl, rfl⟩
  · intro h d hd
    have hlt : h < c.length := getElem?_lt _ _ _ hd
    unfold headerAt
    rw [hheight]
    have hnb : ¬ ((h : Int) > (c.length : Int) - 1) := by omega
    rw [if_neg hnb, hp.longest, hp.at]
    by_cases hk : (k : Int) ≤ (h : Int)
    · rw [if_pos hk]
      unfold getI
      have : ¬ ((h : Int) < 0) := by omega
      simp only [this, ↓reduceIte, Int.toNat_natCast, hd]
    · rw [if_neg hk]
      simp only
      -- served from the main-chain files
      have hkm : k < m := by
        rcases hp.km with ⟨_, h0⟩ | hh
        · omega
        · exact hh
      have hfile : Int.tdiv (h : Int) hpf = ((h / H : Nat) : Int) := by rw [hpf_eq]; rfl
      rw [hfile]
      unfold getData
      rw [Int.toNat_natCast]
      have hfe := hp.store.main (by omega) (h / H) (by
        have : h / H ≤ m / H := Nat.div_le_div_right (by omega)
        omega)
      rw [hfe]
      simp only
      have hidx : (h : Int) - ((h / H : Nat) : Int) * hpf = ((h % H : Nat) : Int) := by
        rw [hpf_eq, hH]; omega
      rw [hidx]
      unfold getI
      have : ¬ (((h % H : Nat) : Int) < 0) := by omega
      simp only [this, ↓reduceIte, Int.toNat_natCast]
      rw [slice_getElem? _ _ _ (Nat.mod_lt _ H_pos)]
      have hre : h / H * H + h % H = h := by rw [hH]; omega
      rw [hre, List.getElem?_take]
      have : h < m := by omega
      simp only [this, ↓reduceIte, hd]
  · intro h hh
    unfold headerAt
    rw [hheight]
    have : h > (c.length : Int) - 1 := by omega
    rw [if_pos this]
  · intro id
    unfold hashHeight
    rw [branchesFind_single r (r.br 0) hp.arena_eq hp.branches hp.par id, hp.hmap id, hp.heights id]
    cases hpos : posOf c id with
    | none => rfl
    | some i =>
      simp only
      by_cases hk : k ≤ i
      · simp only [hk, ↓reduceIte, Option.map_some]; rfl
      · simp only [hk, ↓reduceIte, Option.map_none, Option.map_some]

/-! ### Clean in the linear world -/

theorem PLin.reframe {r r' : Repo} {c : List HData} {k m m' : Nat} (hp : PLin r c k m)
    (ha : r'.arena = r.arena) (hb : r'.branches = r.branches) (hl : r'.longest = r.longest) (hh : r'.heights = r.heights)
    (hc : r'.cfg = r.cfg) (hm : m' ≤ c.length) (hkm : (m' = 0 ∧ k = 0) ∨ k < m') (hs : StoreLin r'.store c m') :
    PLin r' c k m' := by
  have hbr : r'.br 0 = r.br 0 := by unfold Repo.br; rw [ha]
  exact ⟨hp.ne, hp.nodup, hp.linked, hp.kn, hm, hkm, by rw [ha]; exact hp.arena, by rw [hb]; exact hp.branches,
    by rw [hl]; exact hp.longest, by rw [hbr]; exact hp.par, by rw [hbr]; exact hp.ph, by rw [hbr]; exact hp.off,
    by rw [hbr]; exact hp.hdrs, by rw [hbr]; exact hp.first, by rw [hbr]; exact hp.hmap, by rw [hh]; exact hp.heights,
    by rw [hc]; exact hp.gen, hs⟩

theorem PLin.head {r : Repo} {c : List HData} {k m : Nat} (hp : PLin r c k m) : ∃ d, c[0]? = some d := by
  cases hc : c with
  | nil => exact absurd hc hp.ne
  | cons a rest => exact ⟨a, rfl⟩

/-- the root branch file after `Branch.Save`: the whole chain. -/
theorem branchSave_lin {r : Repo} {c : List HData} {k m : Nat} (hp : PLin r c k m) (d0 : HData) (hd0 : c[0]? = some d0)
    (r2 : Repo) (ha : r2.arena = r.arena) (hsb : r2.store.branches = r.store.branches) :
    ∃ r1, branchSave r2 (r2.br 0) = .ok r1 ∧
      r1 = r2.emit (.branchWrite d0.hdr.id { first := d0.hdr, parentHeight := -1, offset := 1, headers := c }) ∧
      r1.store.branches = [(d0.hdr.id, { first := d0.hdr, parentHeight := -1, offset := 1, headers := c })] := by
  have hbr : r2.br 0 = r.br 0 := by unfold Repo.br; rw [ha]
  have hfirst := hp.first d0 hd0
  unfold branchSave
  rw [hbr, hfirst, hsb]
  rcases Nat.eq_zero_or_pos m with hm0 | hmpos
  · obtain ⟨hbe, _⟩ := hp.store.empty hm0
    have hk0 : k = 0 := by
      rcases hp.km with ⟨_, h0⟩ | h
      · exact h0
      · omega
    rw [hbe]
    simp only [List.lookup]
    have hfile : ({ first := d0.hdr, parentHeight := (r.br 0).parentHeight, offset := (r.br 0).offset, headers := (r.br 0).headers } : BranchFile)
        = { first := d0.hdr, parentHeight := -1, offset := 1, headers := c } := by
      rw [hp.ph, hp.off, hp.hdrs, hk0]; simp
    rw [hfile]
    refine ⟨_, rfl, rfl, ?_⟩
    simp [Repo.emit, Store.apply, assocSet, hsb, hbe]
  · obtain ⟨d, hd, hbrs, _⟩ := hp.store.br hmpos
    rw [hd0] at hd; cases hd
    have hkm : k < m := by
      rcases hp.km with ⟨h0, _⟩ | h
      · omega
      · exact h
    rw [hbrs]
    simp only [List.lookup, BEq.rfl]
    unfold sliceTo
    rw [hp.off]
    have hnot : ¬ ((k : Int) + 1 - 1 < 0 ∨ (k : Int) + 1 - 1 > ((c.take m).length : Int)) := by
      rw [List.length_take]; have := hp.mle; omega
    rw [if_neg hnot]
    simp only
    have hfile : ((c.take m).take ((k : Int) + 1 - 1).toNat ++ (r.br 0).headers) = c := by
      have : ((k : Int) + 1 - 1).toNat = k := by omega
      rw [this, hp.hdrs, List.take_take]
      have : min k m = k := by omega
      rw [this, List.take_append_drop]
    rw [hfile]
    refine ⟨_, rfl, rfl, ?_⟩
    simp [Repo.emit, Store.apply, assocSet, hsb, hbrs]

/-- a root branch holding `c.drop k` with an exact height map. -/
structure BrLin (b : Branch) (c : List HData) (k : Nat) : Prop where
  par : b.parent = none
  ph : b.parentHeight = -1
  off : b.offset = (k : Int) + 1
  hdrs : b.headers = c.drop k
  hmap : ∀ id, b.hmap.get? id =
    match posOf c id with
    | some i => if k ≤ i then some (i : Int) else none
    | none => none

theorem PLin.brLin {r : Repo} {c : List HData} {k m : Nat} (hp : PLin r c k m) : BrLin (r.br 0) c k :=
  ⟨hp.par, hp.ph, hp.off, hp.hdrs, hp.hmap⟩

/-- the in-memory branch after `Prune`: `count` more headers gone. -/
theorem pruneBranch_brLin {b : Branch} {c : List HData} {k : Nat} (hp : BrLin b c k) (hnd : (c.map (·.hdr.id)).Nodup)
    (count : Nat) (hc : k + count < c.length) :
    BrLin (pruneBranch b count) c (k + count) ∧ (pruneBranch b count).first = b.first := by
  unfold pruneBranch
  have hlen : b.headers.length = c.length - k := by rw [hp.hdrs, List.length_drop]
  have hnot : ¬ ((count : Int) < 0 ∨ (count : Int) ≥ (b.headers.length : Int)) := by rw [hlen]; omega
  rw [if_neg hnot]
  simp only [Int.toNat_natCast]
  refine ⟨⟨hp.par, hp.ph, by simp only; rw [hp.off]; push_cast; omega, by simp only; rw [hp.hdrs, List.drop_drop], ?_⟩, trivial⟩
  intro id
  simp only
  rw [get?_foldl_del, hp.hmap id, hp.hdrs]
  cases hpos : posOf c id with
  | none =>
    simp only
    split <;> rfl
  | some i =>
    simp only
    obtain ⟨di, hdi, hdid⟩ := (posOf_some_iff c hnd id i).mp hpos
    by_cases hin : ∃ d ∈ (c.drop k).take count, d.hdr.id = id
    · rw [if_pos hin]
      obtain ⟨d, hdm, hdd⟩ := hin
      obtain ⟨j, hj⟩ := List.getElem?_of_mem hdm
      rw [List.getElem?_take] at hj
      split at hj
      · rename_i hjc
        rw [List.getElem?_drop] at hj
        have : posOf c id = some (k + j) := (posOf_some_iff c hnd id (k + j)).mpr ⟨d, hj, hdd⟩
        rw [hpos] at this
        have : i = k + j := Option.some.inj this
        have : ¬ (k + count ≤ i) := by omega
        simp only [this, ↓reduceIte]
      · cases hj
    · rw [if_neg hin]
      by_cases hk : k ≤ i
      · simp only [hk, ↓reduceIte]
        by_cases hkc : k + count ≤ i
        · simp only [hkc, ↓reduceIte]
        · exfalso
          apply hin
          refine ⟨di, ?_, hdid⟩
          rw [List.mem_take_iff_getElem]
          have hil : i < c.length := getElem?_lt _ _ _ hdi
          refine ⟨i - k, by rw [List.length_drop]; omega, ?_⟩
          rw [List.getElem_drop]
          have : k + (i - k) = i := by omega
          simp only [this]
          rw [List.getElem?_eq_getElem hil] at hdi
          exact Option.some.inj hdi
      · have : ¬ (k + count ≤ i) := by omega
        simp only [hk, this, ↓reduceIte]

theorem pruneBranch_lin {r : Repo} {c : List HData} {k m : Nat} (hp : PLin r c k m) (count : Nat) (hc : k + count < c.length) :
    (pruneBranch (r.br 0) count).parent = none ∧ (pruneBranch (r.br 0) count).parentHeight = -1 ∧
    (pruneBranch (r.br 0) count).offset = ((k + count : Nat) : Int) + 1 ∧
    (pruneBranch (r.br 0) count).headers = c.drop (k + count) ∧
    (pruneBranch (r.br 0) count).first = (r.br 0).first ∧
    (∀ id, (pruneBranch (r.br 0) count).hmap.get? id =
      match posOf c id with
      | some i => if k + count ≤ i then some (i : Int) else none
      | none => none) := by
  obtain ⟨h, hf⟩ := pruneBranch_brLin hp.brLin hp.nodup count hc
  exact ⟨h.par, h.ph, h.off, h.hdrs, hf, h.hmap⟩

/-- the store after the whole chain has been written. -/
theorem storeLin_full (st : Store) (c : List HData) (d0 : HData) (hd0 : c[0]? = some d0) (hv0 : st.mainV0 = [])
    (hmain : FilesExact st.main c (c.length / H + 1))
    (hbr : st.branches = [(d0.hdr.id, { first := d0.hdr, parentHeight := -1, offset := 1, headers := c })])
    (hidx : st.index = none ∨ st.index = some [d0.hdr.id]) : StoreLin st c c.length := by
  have hpos : 0 < c.length := by
    cases c with
    | nil => simp at hd0
    | cons a rest => simp
  refine ⟨hv0, fun h0 => by omega, fun _ => by rw [List.take_length]; exact hmain, fun _ => ⟨d0, hd0, ?_, hidx⟩⟩
  rw [List.take_length]; exact hbr

/-- **Clean in the linear world**: succeeds, the chain is unchanged, everything is in storage, memory keeps
    the last `depth + 1` headers (or what it had, if that is less). -/
theorem clean_lin {r : Repo} {c : List HData} {k m : Nat} (hp : PLin r c k m) (depth : Int) (hd : 0 ≤ depth) :
    ∃ (r' : Repo) (k' : Nat), cleanWith r depth = (r', none) ∧ PLin r' c k' c.length ∧ k ≤ k' ∧
      r'.store.index = r.store.index ∧ r'.invalid = r.invalid ∧ r'.cfg = r.cfg ∧
      r'.disableDifficulty = r.disableDifficulty ∧ r'.disableSplit = r.disableSplit ∧
      ∃ (M : List StoreEv) (d0 : HData), c[0]? = some d0 ∧ (∀ e ∈ M, e.isMain = true ∧ MainEvOf c e) ∧
        FilesExact (M.foldl Store.apply r.store).main c (c.length / H + 1) ∧
        r'.events = r.events ++ (M ++ [.branchWrite d0.hdr.id { first := d0.hdr, parentHeight := -1, offset := 1, headers := c },
          .invalidWrite r.invalid]) := by
  obtain ⟨d0, hd0⟩ := hp.head
  have hcons : consolidate r = .ok r := by
    apply C10_consolidate_noop_aux
    rw [hp.branches, hp.longest]
    simp [hp.ph]
  obtain ⟨r2, M, hsave, hfiles, hM, hMc, hev, hst, f1, f2, f3, f4, f5, f6, f7, f8⟩ := saveMain_lin r c k m hp
  obtain ⟨q1, q2, q3, q4⟩ := foldl_main_frame M hM r.store
  rw [← hst] at q1 q2 q3 q4
  obtain ⟨r3, hbs, hr3, hr3b⟩ := branchSave_lin hp d0 hd0 r2 f1 q2
  have hbr2 : r2.br 0 = r.br 0 := by unfold Repo.br; rw [f1]
  have hbr3 : r3.br 0 = r.br 0 := by rw [hr3]; unfold Repo.br Repo.emit; simp only; rw [f1]
  have hheight : (r.br 0).height = (c.length : Int) - 1 := by
    unfold Branch.height; rw [hp.ph, hp.off, hp.hdrs, List.length_drop]; have := hp.kn; omega
  have hlow : (r.br 0).prunedLowest = (k : Int) := by unfold Branch.prunedLowest; rw [hp.ph, hp.off]; omega
  unfold cleanWith
  rw [hcons]
  simp only
  rw [hsave]
  simp only
  unfold prune
  rw [f2, hp.branches]
  simp only [List.foldl_nil, prune.go, hbs]
  rw [f3, hp.longest, hbr2, hbr3, hheight, hlow]
  have hnlt : ¬ ((c.length : Int) - 1 < (c.length : Int) - 1 - depth) := by omega
  simp only [hnlt, ↓reduceIte]
  -- the common part of the result
  have hstore3 : r3.store = r2.store.apply (.branchWrite d0.hdr.id { first := d0.hdr, parentHeight := -1, offset := 1, headers := c }) := by
    rw [hr3]; rfl
  have hmain3 : r3.store.main = r2.store.main := by rw [hstore3]; rfl
  have hidx3 : r3.store.index = r.store.index := by rw [hstore3]; exact q1
  have hv03 : r3.store.mainV0 = [] := by rw [hstore3]; exact q4 hp.store.v0
  have hidx : r.store.index = none ∨ r.store.index = some [d0.hdr.id] := by
    rcases Nat.eq_zero_or_pos m with hm0 | hmpos
    · exact Or.inl (hp.store.empty hm0).2
    · obtain ⟨d, hd', _, hi⟩ := hp.store.br hmpos
      rw [hd0] at hd'; cases hd'; exact hi
  have hsl : ∀ rr : Repo, rr.store = (r3.store.apply (.invalidWrite rr.invalid)) → StoreLin rr.store c c.length := by
    intro rr hrr
    apply storeLin_full rr.store c d0 hd0
    · rw [hrr]; exact hv03
    · rw [hrr]; show FilesExact r3.store.main c _; rw [hmain3]; exact hfiles
    · rw [hrr]; exact hr3b
    · rw [hrr]; show r3.store.index = none ∨ r3.store.index = some [d0.hdr.id]; rw [hidx3]; exact hidx
  have hr3f : r3.arena = r.arena ∧ r3.branches = r.branches ∧ r3.longest = r.longest ∧ r3.heights = r.heights ∧
      r3.cfg = r.cfg ∧ r3.invalid = r.invalid ∧ r3.disableDifficulty = r.disableDifficulty ∧ r3.disableSplit = r.disableSplit := by
    rw [hr3]; exact ⟨f1, f2, f3, f4, f6, f5, f7, f8⟩
  obtain ⟨a1, a2, a3, a4, a5, a6, a7, a8⟩ := hr3f
  have hMboth : ∀ e ∈ M, e.isMain = true ∧ MainEvOf c e := fun e he => ⟨hM e he, hMc e he⟩
  have hfilesM : FilesExact (M.foldl Store.apply r.store).main c (c.length / H + 1) := by rw [← hst]; exact hfiles
  have hev3 : r3.events = r.events ++ (M ++ [.branchWrite d0.hdr.id { first := d0.hdr, parentHeight := -1, offset := 1, headers := c }]) := by
    rw [hr3]; show r2.events ++ [_] = _; rw [hev]; simp
  by_cases hpr : (k : Int) < (c.length : Int) - 1 - depth
  · simp only [hpr, ↓reduceIte]
    -- memory is pruned
    obtain ⟨cnt, hcnt⟩ : ∃ cnt : Nat, (c.length : Int) - 1 - depth - (k : Int) = (cnt : Int) :=
      ⟨((c.length : Int) - 1 - depth - (k : Int)).toNat, by omega⟩
    rw [hcnt]
    have hkc : k + cnt < c.length := by omega
    obtain ⟨p1, p2, p3, p4, p5, p6⟩ := pruneBranch_lin hp cnt hkc
    refine ⟨_, k + cnt, rfl, ?_, by omega, ?_, ?_, ?_, ?_, ?_, M, d0, hd0, hMboth, hfilesM, ?_⟩
    rotate_left 6
    · show r3.events ++ [StoreEv.invalidWrite r3.invalid] = _
      rw [hev3, a6]; simp
    · have hbr' : ∀ (x : Repo), x.arena = (r3.arena.set 0 (pruneBranch (r.br 0) cnt)) → x.br 0 = pruneBranch (r.br 0) cnt := by
        intro x hx
        unfold Repo.br
        rw [hx, List.getElem?_set_self (by rw [a1, hp.arena]; omega)]; rfl
      refine ⟨hp.ne, hp.nodup, hp.linked, hkc, Nat.le_refl _, Or.inr hkc, ?_, ?_, ?_, ?_, ?_, ?_, ?_, ?_, ?_, ?_, ?_, ?_⟩
      · show (r3.arena.set 0 _).length = 1
        rw [List.length_set, a1]; exact hp.arena
      · show [0] = [0]; rfl
      · show r3.longest = 0; rw [a3]; exact hp.longest
      · rw [hbr' _ rfl]; exact p1
      · rw [hbr' _ rfl]; exact p2
      · rw [hbr' _ rfl]; exact p3
      · rw [hbr' _ rfl]; exact p4
      · rw [hbr' _ rfl, p5]; exact hp.first
      · rw [hbr' _ rfl]; exact p6
      · show ∀ id, r3.heights.get? id = _; rw [a4]; exact hp.heights
      · show ∀ d, c[0]? = some d → r3.cfg.genesisId = d.hdr.id; rw [a5]; exact hp.gen
      · exact hsl _ rfl
    · show r3.store.index = r.store.index; exact hidx3
    · show r3.invalid = r.invalid; exact a6
    · show r3.cfg = r.cfg; exact a5
    · show r3.disableDifficulty = r.disableDifficulty; exact a7
    · show r3.disableSplit = r.disableSplit; exact a8
  · simp only [hpr, ↓reduceIte]
    refine ⟨_, k, rfl, ?_, Nat.le_refl _, ?_, ?_, ?_, ?_, ?_, M, d0, hd0, hMboth, hfilesM, ?_⟩
    rotate_left 6
    · show r3.events ++ [StoreEv.invalidWrite r3.invalid] = _
      rw [hev3, a6]; simp
    · exact hp.reframe (r' := saveInvalid { r3 with branches := [] ++ [0] }) a1 (by show [] ++ [0] = r.branches; rw [hp.branches]; rfl)
        a3 a4 a5 (Nat.le_refl _) (Or.inr hp.kn) (hsl _ rfl)
    · show r3.store.index = r.store.index; exact hidx3
    · show r3.invalid = r.invalid; exact a6
    · show r3.cfg = r.cfg; exact a5
    · show r3.disableDifficulty = r.disableDifficulty; exact a7
    · show r3.disableSplit = r.disableSplit; exact a8

/-- **Save in the linear world**: succeeds, memory is untouched, storage holds the whole chain and the
    index. -/
theorem save_lin {r : Repo} {c : List HData} {k m : Nat} (hp : PLin r c k m) :
    ∃ (r' : Repo) (d0 : HData), save r = (r', none) ∧ PLin r' c k c.length ∧ c[0]? = some d0 ∧
      r'.store.index = some [d0.hdr.id] ∧ r'.store.invalid = some r.invalid ∧ r'.invalid = r.invalid ∧ r'.cfg = r.cfg ∧
      r'.disableDifficulty = r.disableDifficulty ∧ r'.disableSplit = r.disableSplit ∧
      ∃ (M : List StoreEv), (∀ e ∈ M, e.isMain = true ∧ MainEvOf c e) ∧
        FilesExact (M.foldl Store.apply r.store).main c (c.length / H + 1) ∧
        r'.events = r.events ++ (M ++ [.branchWrite d0.hdr.id { first := d0.hdr, parentHeight := -1, offset := 1, headers := c },
          .indexWrite [d0.hdr.id], .invalidWrite r.invalid]) := by
  obtain ⟨d0, hd0⟩ := hp.head
  have hcons : consolidate r = .ok r := by
    apply C10_consolidate_noop_aux
    rw [hp.branches, hp.longest]
    simp [hp.ph]
  obtain ⟨r2, M, hsave, hfiles, hM, hMc, hev, hst, f1, f2, f3, f4, f5, f6, f7, f8⟩ := saveMain_lin r c k m hp
  obtain ⟨q1, q2, q3, q4⟩ := foldl_main_frame M hM r.store
  rw [← hst] at q1 q2 q3 q4
  obtain ⟨r3, hbs, hr3, hr3b⟩ := branchSave_lin hp d0 hd0 r2 f1 q2
  have hbr2 : r2.br 0 = r.br 0 := by unfold Repo.br; rw [f1]
  unfold save
  rw [hcons]
  simp only
  rw [hsave]
  simp only
  unfold saveBranches
  rw [f2, hp.branches]
  simp only [saveBranches.go, hbs, List.map_cons, List.map_nil]
  rw [hbr2, hp.first d0 hd0]
  have hstore3 : r3.store = r2.store.apply (.branchWrite d0.hdr.id { first := d0.hdr, parentHeight := -1, offset := 1, headers := c }) := by
    rw [hr3]; rfl
  have hmain3 : r3.store.main = r2.store.main := by rw [hstore3]; rfl
  have hv03 : r3.store.mainV0 = [] := by rw [hstore3]; exact q4 hp.store.v0
  have hr3f : r3.arena = r.arena ∧ r3.branches = r.branches ∧ r3.longest = r.longest ∧ r3.heights = r.heights ∧
      r3.cfg = r.cfg ∧ r3.invalid = r.invalid ∧ r3.disableDifficulty = r.disableDifficulty ∧ r3.disableSplit = r.disableSplit := by
    rw [hr3]; exact ⟨f1, f2, f3, f4, f6, f5, f7, f8⟩
  obtain ⟨a1, a2, a3, a4, a5, a6, a7, a8⟩ := hr3f
  refine ⟨_, d0, rfl, ?_, hd0, rfl, ?_, ?_, ?_, ?_, ?_, M, fun e he => ⟨hM e he, hMc e he⟩, by rw [← hst]; exact hfiles, ?_⟩
  rotate_left 6
  · show (r3.events ++ [StoreEv.indexWrite [d0.hdr.id]]) ++ [StoreEv.invalidWrite r3.invalid] = _
    rw [a6, hr3]; show ((r2.events ++ [_]) ++ [_]) ++ [_] = _; rw [hev]; simp
  · apply hp.reframe (r' := saveInvalid (r3.emit (.indexWrite [d0.hdr.id]))) a1 a2 a3 a4 a5 (Nat.le_refl _) (Or.inr hp.kn)
    apply storeLin_full _ c d0 hd0
    · show r3.store.mainV0 = []; exact hv03
    · show FilesExact r3.store.main c _; rw [hmain3]; exact hfiles
    · show r3.store.branches = _; exact hr3b
    · right; rfl
  · show some r3.invalid = some r.invalid; rw [a6]
  · show r3.invalid = r.invalid; exact a6
  · show r3.cfg = r.cfg; exact a5
  · show r3.disableDifficulty = r.disableDifficulty; exact a7
  · show r3.disableSplit = r.disableSplit; exact a8

/-! ### Load in the linear world -/

/-- the branch description of the stored root file. -/
def fileBranch (c' : List HData) (f : Hdr) : Branch :=
  { parent := none, parentHeight := -1, first := f, offset := 1, headers := c', hmap := [] }

theorem loadedRoot_brLin (c' : List HData) (f : Hdr) (depth : Int) (hd : 0 ≤ depth) (hne : c' ≠ [])
    (hnd : (c'.map (·.hdr.id)).Nodup) :
    ∃ k' : Nat, k' < c'.length ∧ BrLin (loadedRoot (fileBranch c' f) depth) c' k' ∧
      (loadedRoot (fileBranch c' f) depth).first = f := by
  have hL : 0 < c'.length := List.length_pos_iff.mpr hne
  rw [loadedRoot_eq (fileBranch c' f) depth rfl rfl hd hne]
  have hb0 : BrLin (branchOfFile (rootFile (fileBranch c' f))) c' 0 := by
    refine ⟨rfl, rfl, rfl, by simp [branchOfFile, rootFile, fileBranch], ?_⟩
    intro id
    rw [bof_hmap (fileBranch c' f) rfl rfl hnd id]
    show (posOf c' id).map Int.ofNat = _
    cases posOf c' id with
    | none => rfl
    | some i => simp
  have hlow : (branchOfFile (rootFile (fileBranch c' f))).prunedLowest = 0 := by
    unfold Branch.prunedLowest branchOfFile rootFile fileBranch; simp
  unfold prunedBranch
  rw [hlow]
  have e : ((fileBranch c' f).headers.length : Int) = (c'.length : Int) := rfl
  rw [e]
  by_cases hP : (0 : Int) < (c'.length : Int) - 1 - depth
  · simp only [hP, ↓reduceIte]
    obtain ⟨cnt, hcnt⟩ : ∃ cnt : Nat, (c'.length : Int) - 1 - depth - 0 = (cnt : Int) :=
      ⟨((c'.length : Int) - 1 - depth).toNat, by omega⟩
    rw [hcnt]
    obtain ⟨h1, h2⟩ := pruneBranch_brLin hb0 hnd cnt (by omega)
    exact ⟨0 + cnt, by omega, h1, by rw [h2]; rfl⟩
  · simp only [hP, ↓reduceIte]
    exact ⟨0, hL, hb0, rfl⟩

/-- **Load in the linear world**: from a store that holds `m` headers and the index, Load succeeds and
    rebuilds the linear world of those `m` headers (whatever was in memory before). -/
theorem load_lin {r : Repo} {c : List HData} {k m : Nat} (hp : PLin r c k m) (hm : 0 < m)
    (hidx : r.store.index.isSome = true) (depth : Int) (hd : 0 ≤ depth) (g : Hdr) :
    ∃ (rl : Repo) (k' : Nat), load r depth g = (rl, none) ∧ PLin rl (c.take m) k' m ∧
      rl.invalid = mergedInvalid r.store r.cfg ∧ rl.cfg = r.cfg ∧
      rl.disableDifficulty = r.disableDifficulty ∧ rl.disableSplit = r.disableSplit := by
  obtain ⟨d0, hd0, hbrs, hix⟩ := hp.store.br hm
  have hix' : r.store.index = some [d0.hdr.id] := by
    rcases hix with h | h
    · rw [h] at hidx; cases hidx
    · exact h
  have hmle := hp.mle
  have hlen : (c.take m).length = m := by rw [List.length_take]; omega
  have hne : c.take m ≠ [] := by
    intro h; have := congrArg List.length h; rw [hlen] at this; simp at this; omega
  have hnd : ((c.take m).map (·.hdr.id)).Nodup := by
    rw [List.map_take]; exact hp.nodup.sublist (List.take_sublist _ _)
  have hhead : (c.take m)[0]? = some d0 := by
    rw [List.getElem?_take]; simp only [hm, ↓reduceIte]; exact hd0
  obtain ⟨rl, hload, hla, hlb, hll, hls, hli, hlc, hl1, hl2, hlh⟩ := load_linear_result r (fileBranch (c.take m) d0.hdr) depth g
    hix' hbrs rfl rfl hne hd hnd (by
      show FilesExact r.store.main (c.take m) ((c.take m).length / H + 1)
      rw [hlen]; exact hp.store.main hm)
    (by
      intro d hd'
      have : (c.take m)[0]? = some d := hd'
      rw [hhead] at this; cases this
      exact hp.gen d0 hd0)
  obtain ⟨k', hk', hbl, hfirst⟩ := loadedRoot_brLin (c.take m) d0.hdr depth hd hne hnd
  have hbr : rl.br 0 = loadedRoot (fileBranch (c.take m) d0.hdr) depth := by unfold Repo.br; rw [hla]; rfl
  have htt : (c.take m).take m = c.take m := by rw [List.take_take]; simp
  refine ⟨rl, k', hload, ?_, hli, hlc, hl1, hl2⟩
  refine ⟨hne, hnd, ?_, hk', by rw [hlen]; exact Nat.le_refl _, Or.inr (by rw [hlen] at hk'; exact hk'),
    by rw [hla]; rfl, hlb, hll, ?_, ?_, ?_, ?_, ?_, ?_, hlh, ?_, ?_⟩
  · have hpre : ∀ (l : List HData) (n : Nat), InternallyLinked l → InternallyLinked (l.take n) := by
      intro l
      induction l with
      | nil => intro n _; simp; trivial
      | cons a rest ih =>
        intro n hl
        cases n with
        | zero => simp; trivial
        | succ n =>
          cases rest with
          | nil => simp; trivial
          | cons b rest' =>
            cases n with
            | zero => simp; trivial
            | succ n =>
              simp only [List.take_succ_cons]
              exact ⟨hl.1, by have := ih (n + 1) hl.2; simpa [List.take_succ_cons] using this⟩
    exact hpre c m hp.linked
  · rw [hbr]; exact hbl.par
  · rw [hbr]; exact hbl.ph
  · rw [hbr]; exact hbl.off
  · rw [hbr]; exact hbl.hdrs
  · intro d hd'
    rw [hhead] at hd'; cases hd'
    rw [hbr]; exact hfirst
  · rw [hbr]; exact hbl.hmap
  · intro d hd'
    rw [hhead] at hd'; cases hd'
    rw [hlc]; exact hp.gen d0 hd0
  · rw [hls]
    refine ⟨hp.store.v0, fun h0 => by omega, fun _ => by rw [htt]; exact hp.store.main hm, fun _ => ⟨d0, hhead, ?_, Or.inr hix'⟩⟩
    rw [htt]; exact hbrs

/-! ### submissions in the linear world -/

/-- the submission, if it passes every check, extends the tip and its hash has never been recorded. -/
def LinStep (r : Repo) (h : Hdr) (ok : Bool) : Prop :=
  ∀ pb ph lst, precheck r h ok = .inr (pb, ph, lst) → lst.hdr.id = h.prev ∧ r.heights.get? h.id = none

theorem posOf_append_single (c : List HData) (d : HData) (id : Nat) :
    posOf (c ++ [d]) id = match posOf c id with
      | some i => some i
      | none => if d.hdr.id = id then some c.length else none := by
  unfold posOf
  rw [List.findIdx?_append]
  cases hc : c.findIdx? (fun d => d.hdr.id == id) with
  | some i => rfl
  | none =>
    simp only [Option.none_or, List.findIdx?_cons, List.findIdx?_nil]
    by_cases he : d.hdr.id = id
    · simp [he]
    · simp [he]

/-- the state right after the new tip was appended. -/
theorem addToBranch_lin {r : Repo} {c : List HData} {k m : Nat} (hp : PLin r c k m) (h : Hdr) (lst : HData) (w : Nat)
    (hlast : c.getLast? = some lst) (hprev : lst.hdr.id = h.prev) (hnew : posOf c h.id = none) :
    PLin (addToBranch r h 0 ((c.length : Int) - 1) lst w) (c ++ [{ hdr := h, work := lst.work + w }]) k m := by
  have hkn := hp.kn
  have hlen1 : 0 < r.arena.length := by rw [hp.arena]; omega
  have hheight : (r.br 0).height = (c.length : Int) - 1 := by
    unfold Branch.height; rw [hp.ph, hp.off, hp.hdrs, List.length_drop]; omega
  have hbr : (addToBranch r h 0 ((c.length : Int) - 1) lst w).br 0 =
      { (r.br 0) with headers := (r.br 0).headers ++ [{ hdr := h, work := lst.work + w }],
                      hmap := (r.br 0).hmap.set h.id ((r.br 0).height + 1) } := by
    have e : ({ (r.br 0) with headers := (r.br 0).headers ++ [{ hdr := h, work := lst.work + w }] } : Branch).height
        = (r.br 0).height + 1 := by
      unfold Branch.height
      simp only [List.length_append, List.length_cons, List.length_nil]
      omega
    unfold addToBranch Repo.setBranch
    simp only [e]
    unfold Repo.br
    simp only [List.getElem?_set_self hlen1, Option.getD_some]
  have hc0 : ∀ d, (c ++ [{ hdr := h, work := lst.work + w }])[0]? = some d → c[0]? = some d := by
    intro d hd
    obtain ⟨d0, hd0⟩ := hp.head
    rw [List.getElem?_append_left (by have := getElem?_lt _ _ _ hd0; omega)] at hd
    exact hd
  refine ⟨by simp, ?_, ?_, by simp; omega, by simp; have := hp.mle; omega, hp.km, ?_, hp.branches, hp.longest, ?_, ?_, ?_, ?_, ?_, ?_, ?_, ?_, ?_⟩
  · rw [List.map_append, List.nodup_append]
    refine ⟨hp.nodup, by simp, ?_⟩
    intro a ha b hb
    simp only [List.map_cons, List.map_nil, List.mem_singleton] at hb
    subst hb
    intro heq
    subst heq
    obtain ⟨x, hx, hxid⟩ := List.mem_map.mp ha
    obtain ⟨i, hi⟩ := List.getElem?_of_mem hx
    have := (posOf_some_iff c hp.nodup h.id i).mpr ⟨x, hi, hxid⟩
    rw [hnew] at this; cases this
  · exact internallyLinked_append c _ lst hp.linked hlast hprev.symm
  · show (r.arena.set 0 _).length = 1
    rw [List.length_set]; exact hp.arena
  · rw [hbr]; exact hp.par
  · rw [hbr]; exact hp.ph
  · rw [hbr]; exact hp.off
  · rw [hbr]; simp only; rw [hp.hdrs, List.drop_append_of_le_length (by omega)]
  · intro d hd; rw [hbr]; exact hp.first d (hc0 d hd)
  · intro id
    rw [hbr]
    simp only
    rw [HMap.get?_set, posOf_append_single, hp.hmap id, hheight]
    by_cases he : id = h.id
    · subst he
      rw [hnew]
      simp only [↓reduceIte]
      have : k ≤ c.length := by omega
      simp only [this, ↓reduceIte]
      congr 1; omega
    · simp only [he, ↓reduceIte]
      cases hpos : posOf c id with
      | some i => rfl
      | none =>
        have : ¬ (h.id = id) := fun e => he e.symm
        simp only [this, ↓reduceIte]
  · intro id
    show (r.heights.set h.id ((c.length : Int) - 1 + 1)).get? id = _
    rw [HMap.get?_set, posOf_append_single, hp.heights id]
    by_cases he : id = h.id
    · subst he
      rw [hnew]
      simp only [↓reduceIte, Option.map_some]
      congr 1
      show (c.length : Int) - 1 + 1 = Int.ofNat c.length
      simp
    · simp only [he, ↓reduceIte]
      cases hpos : posOf c id with
      | some i => rfl
      | none =>
        have : ¬ (h.id = id) := fun e => he e.symm
        simp only [this, ↓reduceIte, Option.map_none]
  · intro d hd; exact hp.gen d (hc0 d hd)
  · have hst : (addToBranch r h 0 ((c.length : Int) - 1) lst w).store = r.store := rfl
    rw [hst]
    have hmle := hp.mle
    have htake : (c ++ [({ hdr := h, work := lst.work + w } : HData)]).take m = c.take m := List.take_append_of_le_length hmle
    refine ⟨hp.store.v0, hp.store.empty, fun hm => by rw [htake]; exact hp.store.main hm, fun hm => ?_⟩
    obtain ⟨d0, hd0, hb, hi⟩ := hp.store.br hm
    refine ⟨d0, ?_, by rw [htake]; exact hb, hi⟩
    rw [List.getElem?_append_left (by have := getElem?_lt _ _ _ hd0; omega)]; exact hd0

theorem getLast?_getElem_lin {α : Type} (c : List α) (l : α) (h : c.getLast? = some l) : c[c.length - 1]? = some l := by
  rw [List.getLast?_eq_getElem?] at h; exact h

/-- **one submission in the linear world** — including the automatic clean when the new height is a
    multiple of the period: the chain is unchanged or one header longer, and the invariant holds again. -/
theorem step_lin {r : Repo} {c : List HData} {k m : Nat} (hp : PLin r c k m) (h : Hdr) (ok : Bool)
    (hlin : LinStep r h ok) :
    ∃ (c' : List HData) (k' m' : Nat), PLin (processHeader r h ok).1 c' k' m' ∧
      ((c' = c ∧ (processHeader r h ok).2.events = [] ∧ (processHeader r h ok).2.verdict ≠ .ok) ∨
       (∃ d : HData, d.hdr = h ∧ c' = c ++ [d] ∧ (processHeader r h ok).2.events = [h] ∧
          (processHeader r h ok).2.verdict = .ok)) ∧
      (processHeader r h ok).1.store.index = r.store.index ∧ (processHeader r h ok).1.cfg = r.cfg := by
  cases hpc : precheck r h ok with
  | inl v =>
    rw [processHeader_of_inl r h ok v hpc]
    exact ⟨c, k, m, hp, Or.inl ⟨rfl, rfl, precheck_inl_ne_ok r h ok v hpc⟩, rfl, rfl⟩
  | inr x =>
    obtain ⟨pb, ph, lst⟩ := x
    have hpass := precheck_inr r h ok pb ph lst hpc
    obtain ⟨hprev, hnone⟩ := hlin pb ph lst hpc
    have hkn := hp.kn
    -- the parent is the tip of the only branch
    have hfind := hpass.parent
    rw [branchesFind_single r (r.br 0) hp.arena_eq hp.branches hp.par h.prev] at hfind
    cases hg : (r.br 0).hmap.get? h.prev with
    | none => rw [hg] at hfind; cases hfind
    | some ph' =>
      rw [hg] at hfind
      simp only [Option.map_some, Option.some.injEq, Prod.mk.injEq] at hfind
      obtain ⟨hpb, hph⟩ := hfind
      subst hpb
      subst hph
      have hlast : c.getLast? = some lst := by
        have := hpass.lastIs
        unfold Repo.lastOf Branch.last? at this
        rw [hp.hdrs, getLast?_drop_of_lt c k hkn] at this
        exact this
      have hposl : posOf c h.prev = some (c.length - 1) :=
        (posOf_some_iff c hp.nodup h.prev (c.length - 1)).mpr ⟨lst, getLast?_getElem_lin c lst hlast, hprev⟩
      have hph : ph' = (c.length : Int) - 1 := by
        rw [hp.hmap h.prev, hposl] at hg
        simp only at hg
        split at hg
        · simp only [Option.some.injEq] at hg
          rw [← hg]
          have : 0 < c.length := by omega
          omega
        · cases hg
      subst hph
      have hnew : posOf c h.id = none := by
        have := hp.heights h.id
        rw [hnone] at this
        cases hq : posOf c h.id with
        | none => rfl
        | some i => rw [hq] at this; cases this
      rw [processHeader_of_inr r h ok 0 _ lst hpc]
      unfold applyHeader
      have hnf : ¬ (lst.hdr.id ≠ h.prev) := fun hne => hne hprev
      rw [if_neg hnf]
      unfold extendHeader
      cases hw : Work.blockWork h.bits with
      | none => exact ⟨c, k, m, hp, Or.inl ⟨rfl, rfl, by simp⟩, rfl, rfl⟩
      | some w =>
        simp only
        have hp1 := addToBranch_lin hp h lst w hlast hprev hnew
        have hl1 : (addToBranch r h 0 ((c.length : Int) - 1) lst w).longest = 0 := hp.longest
        have hnn : ¬ (0 ≠ (addToBranch r h 0 ((c.length : Int) - 1) lst w).longest) := by rw [hl1]; simp
        rw [if_neg hnn]
        simp only [hl1, ↓reduceIte]
        have hidx1 : (addToBranch r h 0 ((c.length : Int) - 1) lst w).store.index = r.store.index := rfl
        have hcfg1 : (addToBranch r h 0 ((c.length : Int) - 1) lst w).cfg = r.cfg := rfl
        split
        · obtain ⟨r', k', hcl, hp', _, hi', _, hc', _, _, _⟩ := clean_lin hp1 (Facts.pruneDepth : Int) (by decide)
          rw [hcl]
          exact ⟨_, k', _, hp', Or.inr ⟨_, rfl, rfl, by simp, trivial⟩, by rw [hi', hidx1], by rw [hc', hcfg1]⟩
        · exact ⟨_, k, m, hp1, Or.inr ⟨_, rfl, rfl, by simp, trivial⟩, hidx1, hcfg1⟩

/-! ### histories of operations -/

inductive LinOp
  | submit (h : Hdr) (ok : Bool)
  | clean (depth : Int)
  | save
  | load (depth : Int) (g : Hdr)

def applyOp (r : Repo) : LinOp → Repo
  | .submit h ok => (processHeader r h ok).1
  | .clean d => (cleanWith r d).1
  | .save => (save r).1
  | .load d g => (load r d g).1

/-- what a history must satisfy to stay in the linear world: accepted headers extend the tip and are
    new; depths are not negative; Load only after some Save wrote the index. -/
def LinHist : Repo → List LinOp → Prop
  | _, [] => True
  | r, op :: rest =>
    (match op with
     | .submit h ok => LinStep r h ok
     | .clean d => 0 ≤ d
     | .save => True
     | .load d _ => 0 ≤ d ∧ r.store.index.isSome = true) ∧
    LinHist (applyOp r op) rest

def runOps (r : Repo) (ops : List LinOp) : Repo := ops.foldl applyOp r

theorem take_length_self {α : Type} (c : List α) : c.take c.length = c := List.take_length

/-- **the linear world is closed under every operation**: after ANY history of submissions (with the
    automatic clean), Cleans, Saves and Loads the repository is again a linear world of some chain. -/
theorem plin_history (ops : List LinOp) : ∀ (r : Repo) (c : List HData) (k m : Nat), PLin r c k m → LinHist r ops →
    ∃ (c' : List HData) (k' m' : Nat), PLin (runOps r ops) c' k' m' := by
  induction ops with
  | nil => intro r c k m hp _; exact ⟨c, k, m, hp⟩
  | cons op rest ih =>
    intro r c k m hp hh
    obtain ⟨hop, hrest⟩ := hh
    simp only [runOps, List.foldl_cons]
    cases op with
    | submit h ok =>
      obtain ⟨c', k', m', hp', _, _, _⟩ := step_lin hp h ok hop
      exact ih _ c' k' m' hp' hrest
    | clean d =>
      obtain ⟨r', k', hcl, hp', _⟩ := clean_lin hp d hop
      have : applyOp r (.clean d) = r' := by simp only [applyOp, hcl]
      rw [this] at hrest ⊢
      exact ih _ c k' _ hp' hrest
    | save =>
      obtain ⟨r', d0, hs, hp', _⟩ := save_lin hp
      have : applyOp r .save = r' := by simp only [applyOp, hs]
      rw [this] at hrest ⊢
      exact ih _ c k _ hp' hrest
    | load d g =>
      obtain ⟨hd, hidx⟩ := hop
      have hm : 0 < m := by
        rcases Nat.eq_zero_or_pos m with h0 | h0
        · have := (hp.store.empty h0).2
          rw [this] at hidx; cases hidx
        · exact h0
      obtain ⟨rl, k', hl, hp', _⟩ := load_lin hp hm hidx d hd g
      have : applyOp r (.load d g) = rl := by simp only [applyOp, hl]
      rw [this] at hrest ⊢
      exact ih _ _ k' m hp' hrest

/-- the genesis-only repository is a linear world. -/
theorem plin_genesis : PLin genesisRepo genesisRepo.arena[0].headers 0 0 := by
  refine ⟨by simp [genesisRepo], by simp [genesisRepo], trivial, by simp [genesisRepo], by simp, Or.inl ⟨rfl, rfl⟩,
    rfl, rfl, rfl, rfl, rfl, rfl, rfl, ?_, ?_, ?_, ?_, ⟨rfl, fun _ => ⟨rfl, rfl⟩, fun h => by omega, fun h => by omega⟩⟩
  · intro d hd
    simp only [genesisRepo, List.getElem_cons_zero, List.getElem?_cons_zero, Option.some.injEq] at hd
    subst hd; rfl
  · intro id
    by_cases h0 : id = 0
    · subst h0; decide
    · have : posOf genesisRepo.arena[0].headers id = none := by
        simp [posOf, genesisRepo, List.findIdx?_cons]; omega
      rw [this]
      show HMap.get? [(0, 0)] id = none
      simp only [HMap.get?, List.lookup]
      split
      · rename_i heq; simp at heq; omega
      · rfl
  · intro id
    by_cases h0 : id = 0
    · subst h0; decide
    · have : posOf genesisRepo.arena[0].headers id = none := by
        simp [posOf, genesisRepo, List.findIdx?_cons]; omega
      rw [this]
      show HMap.get? [(0, 0)] id = none
      simp only [HMap.get?, List.lookup]
      split
      · rename_i heq; simp at heq; omega
      · rfl
  · intro d hd
    simp only [genesisRepo, List.getElem_cons_zero, List.getElem?_cons_zero, Option.some.injEq] at hd
    subst hd; rfl

/-! ### storage images in the middle of a Save or Clean -/

/-- the main-chain files serve every header of `c'` at its height (they may hold more). -/
def MainAgrees (main : List (Nat × List HData)) (c' : List HData) : Prop :=
  ∀ h d, c'[h]? = some d → ∃ recs, List.lookup (h / H) main = some recs ∧ recs[h % H]? = some d

theorem mainAgrees_of_exact (main : List (Nat × List HData)) (c' : List HData)
    (hf : FilesExact main c' (c'.length / H + 1)) : MainAgrees main c' := by
  intro h d hd
  have hlt : h < c'.length := getElem?_lt _ _ _ hd
  have hH : H = 1000 := rfl
  refine ⟨_, hf (h / H) (by have : h / H ≤ c'.length / H := Nat.div_le_div_right (by omega); omega), ?_⟩
  rw [slice_getElem? _ _ _ (Nat.mod_lt _ H_pos)]
  have : h / H * H + h % H = h := by rw [hH]; omega
  rw [this]; exact hd

theorem mainAgrees_apply (st : Store) (c : List HData) (m : Nat) (hm : m ≤ c.length) (e : StoreEv) (he : MainEvOf c e)
    (ha : MainAgrees st.main (c.take m)) : MainAgrees (st.apply e).main (c.take m) := by
  have hH : H = 1000 := rfl
  intro h d hd
  have hlt : h < m := by
    have := getElem?_lt _ _ _ hd
    rw [List.length_take] at this; omega
  have hcd : c[h]? = some d := by
    rw [List.getElem?_take] at hd
    simp only [hlt, ↓reduceIte] at hd; exact hd
  obtain ⟨recs, hl, hr⟩ := ha h d hd
  cases e with
  | mainWrite f recs' =>
    simp only [MainEvOf] at he
    simp only [Store.apply, lookup_assocSet]
    by_cases hf : h / H = f
    · simp only [hf, ↓reduceIte]
      refine ⟨recs', rfl, ?_⟩
      rw [he, slice_getElem? _ _ _ (Nat.mod_lt _ H_pos)]
      have : f * H + h % H = h := by rw [← hf, hH]; omega
      rw [this]; exact hcd
    · simp only [hf, ↓reduceIte]
      exact ⟨recs, hl, hr⟩
  | mainRemove f =>
    simp only [MainEvOf] at he
    simp only [Store.apply]
    have hne : h / H ≠ f := by
      rw [he]
      have : h / H ≤ c.length / H := Nat.div_le_div_right (by omega)
      omega
    rw [lookup_filter_ne' _ _ _ hne]
    exact ⟨recs, hl, hr⟩
  | branchWrite k bf => exact ⟨recs, hl, hr⟩
  | indexWrite l => exact ⟨recs, hl, hr⟩
  | invalidWrite l => exact ⟨recs, hl, hr⟩

theorem mainAgrees_foldl (c : List HData) (m : Nat) (hm : m ≤ c.length) (E : List StoreEv) (hE : ∀ e ∈ E, MainEvOf c e)
    (st : Store) (ha : MainAgrees st.main (c.take m)) : MainAgrees (E.foldl Store.apply st).main (c.take m) := by
  induction E generalizing st with
  | nil => exact ha
  | cons e rest ih =>
    simp only [List.foldl_cons]
    exact ih (fun x hx => hE x (List.mem_cons_of_mem _ hx)) _
      (mainAgrees_apply st c m hm e (hE e (List.mem_cons_self ..)) ha)

/-- what a repository reports when it is the chain `c'`. -/
structure ObsChain (rl : Repo) (c' : List HData) : Prop where
  height : tipHeight rl = (c'.length : Int) - 1
  tip : ∀ l, c'.getLast? = some l → tipId rl = l.hdr.id ∧ tipWork rl = l.work
  hdr : ∀ (h : Nat) (d : HData), c'[h]? = some d → headerAt rl h = .ok d.hdr

theorem PLin.obsChain {r : Repo} {c : List HData} {k m : Nat} (hp : PLin r c k m) : ObsChain r c := by
  obtain ⟨h1, h2, h3, _, _⟩ := plin_obs hp
  exact ⟨h1, h2, h3⟩

/-- the weak form of the linear world that a crash image loads into: the branch in memory and main files
    that serve the pruned heights (the height map may know more hashes than the chain holds). -/
theorem obs_of_parts (rl : Repo) (c' : List HData) (k' : Nat) (hk : k' < c'.length) (ha : rl.arena = [rl.br 0])
    (hl : rl.longest = 0) (hb : BrLin (rl.br 0) c' k') (hm : MainAgrees rl.store.main c') : ObsChain rl c' := by
  have hH : H = 1000 := rfl
  have hheight : (rl.br rl.longest).height = (c'.length : Int) - 1 := by
    rw [hl]; unfold Branch.height
    rw [hb.ph, hb.off, hb.hdrs, List.length_drop]; omega
  have hat : ∀ h : Int, rl.at 0 h = if (k' : Int) ≤ h then getI c' h else none := by
    intro h
    rw [at_single rl (rl.br 0) ha hb.par h, hb.ph, hb.off, hb.hdrs]
    by_cases hk2 : (k' : Int) ≤ h
    · have : h > -1 := by omega
      rw [if_pos this, if_pos hk2]
      unfold getI
      have h1 : ¬ (h - -1 - ((k' : Int) + 1) < 0) := by omega
      have h2 : ¬ (h < 0) := by omega
      simp only [h1, h2, ↓reduceIte, List.getElem?_drop]
      congr 1
      omega
    · rw [if_neg hk2]
      split
      · unfold getI
        have : h - -1 - ((k' : Int) + 1) < 0 := by omega
        simp only [this, ↓reduceIte]
      · rfl
  refine ⟨hheight, ?_, ?_⟩
  · intro l hll
    unfold tipId tipWork Repo.lastOf Branch.last?
    rw [hl, hb.hdrs, getLast?_drop_of_lt c' k' hk, hll]
    exact ⟨rfl, rfl⟩
  · intro h d hd
    have hlt : h < c'.length := getElem?_lt _ _ _ hd
    unfold headerAt
    rw [hheight]
    have hnb : ¬ ((h : Int) > (c'.length : Int) - 1) := by omega
    rw [if_neg hnb, hl, hat]
    by_cases hk2 : (k' : Int) ≤ (h : Int)
    · rw [if_pos hk2]
      unfold getI
      have : ¬ ((h : Int) < 0) := by omega
      simp only [this, ↓reduceIte, Int.toNat_natCast, hd]
    · rw [if_neg hk2]
      simp only
      have hfile : Int.tdiv (h : Int) hpf = ((h / H : Nat) : Int) := by rw [hpf_eq]; rfl
      rw [hfile]
      unfold getData
      rw [Int.toNat_natCast]
      obtain ⟨recs, hlk, hr⟩ := hm h d hd
      rw [hlk]
      simp only
      have hidx : (h : Int) - ((h / H : Nat) : Int) * hpf = ((h % H : Nat) : Int) := by
        rw [hpf_eq, hH]; omega
      rw [hidx]
      unfold getI
      have : ¬ (((h % H : Nat) : Int) < 0) := by omega
      simp only [this, ↓reduceIte, Int.toNat_natCast, hr]

/-- **Load of an image whose index names the root file of `c'` and whose main files serve `c'`** (they
    may already hold later headers): succeeds and reports `c'`. -/
theorem load_weak (rs : Repo) (c' : List HData) (f : Hdr) (depth : Int) (hd : 0 ≤ depth) (g : Hdr)
    (hidx : rs.store.index = some [f.id])
    (hbrs : rs.store.branches = [(f.id, { first := f, parentHeight := -1, offset := 1, headers := c' })])
    (hne : c' ≠ []) (hnd : (c'.map (·.hdr.id)).Nodup) (hm : MainAgrees rs.store.main c') :
    ∃ rl, load rs depth g = (rl, none) ∧ ObsChain rl c' := by
  have hH : H = 1000 := rfl
  rw [load_linear_shape rs (fileBranch c' f) depth g hidx hbrs rfl rfl hne hd]
  obtain ⟨k', hk', hbl, _⟩ := loadedRoot_brLin c' f depth hd hne hnd
  have hbr : (loadedBase rs (fileBranch c' f) depth).br 0 = loadedRoot (fileBranch c' f) depth := rfl
  have hlow : ((loadedBase rs (fileBranch c' f) depth).br (loadedBase rs (fileBranch c' f) depth).longest).prunedLowest = (k' : Int) := by
    show (loadedRoot (fileBranch c' f) depth).prunedLowest = _
    unfold Branch.prunedLowest; rw [hbl.ph, hbl.off]; omega
  obtain ⟨hmp, hhist⟩ := loadHistorical_ok (loadedBase rs (fileBranch c' f) depth) k' hlow (by
    intro gf hgf
    show (List.lookup gf rs.store.main).isSome = true
    have hlt : gf * H < c'.length := by omega
    obtain ⟨d, hdd⟩ : ∃ d, c'[gf * H]? = some d := ⟨c'[gf * H], List.getElem?_eq_getElem hlt⟩
    obtain ⟨recs, hlk, _⟩ := hm (gf * H) d hdd
    have : gf * H / H = gf := Nat.mul_div_cancel _ H_pos
    rw [this] at hlk
    rw [hlk]; rfl)
  rw [hhist]
  refine ⟨_, rfl, ?_⟩
  exact obs_of_parts _ c' k' hk' rfl rfl (by rw [show (withHeights (loadedBase rs (fileBranch c' f) depth) hmp).br 0 = loadedRoot (fileBranch c' f) depth from rfl]; exact hbl) hm

/-- what Load makes of a repository whose storage has no branch index: the genesis header only. -/
def GenesisOnly (rl : Repo) (g : Hdr) (w : Nat) : Prop :=
  tipHeight rl = 0 ∧ tipId rl = g.id ∧ tipWork rl = w

/-- the outcome of loading a storage image of the linear world. -/
inductive CrashOutcome (rl : Repo) (g : Hdr) (w : Nat) (cOld c : List HData) (hadIndex : Bool) : Prop
  | genesis (h : hadIndex = false) (hg : GenesisOnly rl g w)
  | old (ho : ObsChain rl cOld)
  | new (hn : ObsChain rl c)

/-- an image that still holds the OLD root branch file. -/
theorem crash_image_old {r : Repo} {c : List HData} {k m : Nat} (hp : PLin r c k m) (S : Store) (depth : Int)
    (hd : 0 ≤ depth) (g : Hdr) (w : Nat) (hg : Work.blockWork g.bits = some w)
    (hv0 : S.mainV0 = []) (hbr : S.branches = r.store.branches) (hix : S.index = r.store.index)
    (hma : 0 < m → MainAgrees S.main (c.take m)) :
    ∃ rl, load { r with store := S } depth g = (rl, none) ∧
      CrashOutcome rl g w (c.take m) c r.store.index.isSome := by
  cases hi : r.store.index with
  | none =>
    obtain ⟨rl, hl, _, _, h1, h2, h3⟩ := load_noindex { r with store := S } depth g w (by show S.index = none; rw [hix, hi]) hv0 hg
    exact ⟨rl, hl, .genesis rfl ⟨h1, h2, h3⟩⟩
  | some idx =>
    have hm : 0 < m := by
      rcases Nat.eq_zero_or_pos m with h0 | h0
      · have := (hp.store.empty h0).2
        rw [hi] at this; cases this
      · exact h0
    obtain ⟨d0, hd0, hbrs, hidx⟩ := hp.store.br hm
    have hidx' : r.store.index = some [d0.hdr.id] := by
      rcases hidx with h | h
      · rw [hi] at h; cases h
      · exact h
    have hmle := hp.mle
    have hlen : (c.take m).length = m := by rw [List.length_take]; omega
    have hne : c.take m ≠ [] := by
      intro h; have := congrArg List.length h; rw [hlen] at this; simp at this; omega
    have hnd : ((c.take m).map (·.hdr.id)).Nodup := by
      rw [List.map_take]; exact hp.nodup.sublist (List.take_sublist _ _)
    obtain ⟨rl, hl, ho⟩ := load_weak { r with store := S } (c.take m) d0.hdr depth hd g
      (by show S.index = _; rw [hix, hidx']) (by show S.branches = _; rw [hbr, hbrs]) hne hnd (hma hm)
    exact ⟨rl, hl, .old ho⟩

/-- an image that already holds the NEW root branch file. -/
theorem crash_image_new {r : Repo} {c : List HData} {k m : Nat} (hp : PLin r c k m) (S : Store) (depth : Int)
    (hd : 0 ≤ depth) (g : Hdr) (w : Nat) (hg : Work.blockWork g.bits = some w) (d0 : HData) (hd0 : c[0]? = some d0)
    (hv0 : S.mainV0 = [])
    (hbr : S.branches = [(d0.hdr.id, { first := d0.hdr, parentHeight := -1, offset := 1, headers := c })])
    (hix : S.index = r.store.index ∨ S.index = some [d0.hdr.id])
    (hma : MainAgrees S.main c) :
    ∃ rl, load { r with store := S } depth g = (rl, none) ∧
      CrashOutcome rl g w (c.take m) c r.store.index.isSome := by
  have hidxS : S.index = none ∧ r.store.index = none ∨ S.index = some [d0.hdr.id] := by
    rcases hix with h | h
    · cases hi : r.store.index with
      | none => left; exact ⟨by rw [h, hi], rfl⟩
      | some idx =>
        right
        have hm : 0 < m := by
          rcases Nat.eq_zero_or_pos m with h0 | h0
          · have := (hp.store.empty h0).2
            rw [hi] at this; cases this
          · exact h0
        obtain ⟨d, hdd, _, hidx⟩ := hp.store.br hm
        rw [hd0] at hdd; cases hdd
        rcases hidx with h2 | h2
        · rw [hi] at h2; cases h2
        · rw [h, h2]
    · right; exact h
  rcases hidxS with ⟨h1, h2⟩ | h1
  · obtain ⟨rl, hl, _, _, q1, q2, q3⟩ := load_noindex { r with store := S } depth g w h1 hv0 hg
    exact ⟨rl, hl, .genesis (by rw [h2]; rfl) ⟨q1, q2, q3⟩⟩
  · obtain ⟨rl, hl, ho⟩ := load_weak { r with store := S } c d0.hdr depth hd g h1 hbr hp.ne hp.nodup hma
    exact ⟨rl, hl, .new ho⟩

/-- the root branch file holding the whole chain. -/
abbrev fullFile (d0 : HData) (c : List HData) : BranchFile :=
  { first := d0.hdr, parentHeight := -1, offset := 1, headers := c }

/-- the events that follow the root branch file in a Save or Clean. -/
def TailEv (key : Nat) : StoreEv → Prop
  | .indexWrite l => l = [key]
  | .invalidWrite _ => True
  | _ => False

theorem tail_fold_frame (key : Nat) (T : List StoreEv) (hT : ∀ e ∈ T, TailEv key e) (st : Store) :
    (T.foldl Store.apply st).main = st.main ∧ (T.foldl Store.apply st).branches = st.branches ∧
    (T.foldl Store.apply st).mainV0 = st.mainV0 ∧
    ((T.foldl Store.apply st).index = st.index ∨ (T.foldl Store.apply st).index = some [key]) := by
  induction T generalizing st with
  | nil => exact ⟨rfl, rfl, rfl, Or.inl rfl⟩
  | cons e rest ih =>
    simp only [List.foldl_cons]
    obtain ⟨h1, h2, h3, h4⟩ := ih (fun x hx => hT x (List.mem_cons_of_mem _ hx)) (st.apply e)
    have he := hT e (List.mem_cons_self ..)
    cases e with
    | indexWrite l =>
      simp only [TailEv] at he
      subst he
      refine ⟨h1, h2, h3, ?_⟩
      rcases h4 with h4 | h4
      · right; rw [h4]; rfl
      · right; exact h4
    | invalidWrite l => exact ⟨h1, h2, h3, h4⟩
    | mainWrite f recs => cases he
    | mainRemove f => cases he
    | branchWrite k bf => cases he

/-- **a crash at any write of a Save or a Clean in the linear world.** The write sequence is: main-chain
    file events `M`, the root branch file, then index and/or invalid list.  For EVERY prefix, Load of the
    image succeeds and reports the genesis-only chain (only if no index was ever written), the chain as it
    was stored before (`c.take m`), or the chain being stored (`c`). -/
theorem crash_lin {r : Repo} {c : List HData} {k m : Nat} (hp : PLin r c k m) (depth : Int) (hd : 0 ≤ depth)
    (g : Hdr) (w : Nat) (hg : Work.blockWork g.bits = some w) (d0 : HData) (hd0 : c[0]? = some d0)
    (M T : List StoreEv) (hM : ∀ e ∈ M, e.isMain = true ∧ MainEvOf c e)
    (hfiles : FilesExact (M.foldl Store.apply r.store).main c (c.length / H + 1))
    (hT : ∀ e ∈ T, TailEv d0.hdr.id e) :
    ∀ n, ∃ rl,
      load { r with store := ((M ++ .branchWrite d0.hdr.id (fullFile d0 c) :: T).take n).foldl Store.apply r.store } depth g
        = (rl, none) ∧
      CrashOutcome rl g w (c.take m) c r.store.index.isSome := by
  intro n
  have hmle := hp.mle
  by_cases hn : n ≤ M.length
  · -- inside the main-file writes
    rw [List.take_append_of_le_length hn]
    have hsub : ∀ e ∈ M.take n, e.isMain = true ∧ MainEvOf c e := fun e he => hM e (List.mem_of_mem_take he)
    obtain ⟨q1, q2, _, q4⟩ := foldl_main_frame (M.take n) (fun e he => (hsub e he).1) r.store
    apply crash_image_old hp _ depth hd g w hg (q4 hp.store.v0) q2 q1
    intro hm
    apply mainAgrees_foldl c m hmle (M.take n) (fun e he => (hsub e he).2)
    apply mainAgrees_of_exact
    have : (c.take m).length = m := by rw [List.length_take]; omega
    rw [this]; exact hp.store.main hm
  · -- the root branch file has been written
    have hn' : M.length < n := by omega
    obtain ⟨j, hj⟩ : ∃ j, n = M.length + (j + 1) := ⟨n - M.length - 1, by omega⟩
    rw [hj, List.take_append, List.take_of_length_le (by omega)]
    have : M.length + (j + 1) - M.length = j + 1 := by omega
    rw [this, List.take_succ_cons, List.foldl_append, List.foldl_cons]
    obtain ⟨q1, q2, _, q4⟩ := foldl_main_frame M (fun e he => (hM e he).1) r.store
    obtain ⟨t1, t2, t3, t4⟩ := tail_fold_frame d0.hdr.id (T.take j) (fun e he => hT e (List.mem_of_mem_take he))
      ((M.foldl Store.apply r.store).apply (.branchWrite d0.hdr.id (fullFile d0 c)))
    have hbr0 : r.store.branches = [] ∨ ∃ bf, r.store.branches = [(d0.hdr.id, bf)] := by
      rcases Nat.eq_zero_or_pos m with h0 | h0
      · left; exact (hp.store.empty h0).1
      · obtain ⟨d, hdd, hb, _⟩ := hp.store.br h0
        rw [hd0] at hdd; cases hdd
        exact Or.inr ⟨_, hb⟩
    apply crash_image_new hp _ depth hd g w hg d0 hd0
    · rw [t3]; exact q4 hp.store.v0
    · rw [t2]
      show assocSet (M.foldl Store.apply r.store).branches _ _ = _
      rw [q2]
      rcases hbr0 with h | ⟨bf, h⟩
      · rw [h]; rfl
      · rw [h]; simp [assocSet]
    · rcases t4 with h | h
      · left; rw [h]; exact q1
      · right; exact h
    · rw [t1]
      apply mainAgrees_of_exact
      exact hfiles

/-! ### the property-level statements -/

/-- two repositories that are linear worlds of the same chain report the same. -/
theorem plin_same_obs {r r' : Repo} {c : List HData} {k m k' m' : Nat} (hp : PLin r c k m) (hp' : PLin r' c k' m') :
    tipHeight r' = tipHeight r ∧ tipId r' = tipId r ∧ tipWork r' = tipWork r ∧
    (∀ h : Nat, headerAt r' h = headerAt r h) ∧ (∀ id, hashHeight r' id = hashHeight r id) := by
  obtain ⟨a1, a2, a3, a4, a5⟩ := plin_obs hp
  obtain ⟨b1, b2, b3, b4, b5⟩ := plin_obs hp'
  obtain ⟨l, hl⟩ : ∃ l, c.getLast? = some l := by
    cases hc : c.getLast? with
    | none => rw [List.getLast?_eq_none_iff] at hc; exact absurd hc hp.ne
    | some l => exact ⟨l, rfl⟩
  refine ⟨by rw [a1, b1], by rw [(a2 l hl).1, (b2 l hl).1], by rw [(a2 l hl).2, (b2 l hl).2], ?_, fun id => by rw [a5, b5]⟩
  intro h
  by_cases hlt : h < c.length
  · have hd : c[h]? = some c[h] := List.getElem?_eq_getElem hlt
    rw [a3 h _ hd, b3 h _ hd]
  · rw [a4 h (by omega), b4 h (by omega)]

/-- **Clean at any point of any linear history, any number of times, never changes what is reported.** -/
theorem clean_obs_lin {r : Repo} {c : List HData} {k m : Nat} (hp : PLin r c k m) (depth : Int) (hd : 0 ≤ depth) :
    ∃ (r' : Repo) (k' : Nat), cleanWith r depth = (r', none) ∧ PLin r' c k' c.length ∧
      tipHeight r' = tipHeight r ∧ tipId r' = tipId r ∧ tipWork r' = tipWork r ∧
      (∀ h : Nat, headerAt r' h = headerAt r h) ∧ (∀ id, hashHeight r' id = hashHeight r id) := by
  obtain ⟨r', k', hcl, hp', _⟩ := clean_lin hp depth hd
  exact ⟨r', k', hcl, hp', plin_same_obs hp hp'⟩

/-- **Save then Load in the linear world, at any generation, with any load depth, restores what was
    reported** (and the loaded repository is again a linear world of the same chain). -/
theorem save_load_obs_lin {r : Repo} {c : List HData} {k m : Nat} (hp : PLin r c k m) (depth : Int) (hd : 0 ≤ depth) (g : Hdr) :
    ∃ (rs rl : Repo) (k' : Nat), save r = (rs, none) ∧ load rs depth g = (rl, none) ∧ PLin rl c k' c.length ∧
      tipHeight rl = tipHeight r ∧ tipId rl = tipId r ∧ tipWork rl = tipWork r ∧
      (∀ h : Nat, headerAt rl h = headerAt r h) ∧ (∀ id, hashHeight rl id = hashHeight r id) ∧
      rl.invalid = mergedInvalid rs.store rs.cfg ∧ rs.store.invalid = some r.invalid := by
  obtain ⟨rs, d0, hs, hps, hd0, hidx, hinv, _⟩ := save_lin hp
  have hpos : 0 < c.length := List.length_pos_iff.mpr hp.ne
  obtain ⟨rl, k', hl, hpl, hli, _⟩ := load_lin hps hpos (by rw [hidx]; rfl) depth hd g
  rw [take_length_self] at hpl
  exact ⟨rs, rl, k', hs, hl, hpl, (plin_same_obs hp hpl).1, (plin_same_obs hp hpl).2.1, (plin_same_obs hp hpl).2.2.1,
    (plin_same_obs hp hpl).2.2.2.1, (plin_same_obs hp hpl).2.2.2.2, hli, hinv⟩

/-- **a crash at any write of ANY Save in the linear world.** -/
theorem save_crash_lin {r : Repo} {c : List HData} {k m : Nat} (hp : PLin r c k m) (depth : Int) (hd : 0 ≤ depth)
    (g : Hdr) (w : Nat) (hg : Work.blockWork g.bits = some w) :
    ∃ (rs : Repo) (E : List StoreEv), save r = (rs, none) ∧ rs.events = r.events ++ E ∧
      ∀ n, ∃ rl, load { r with store := (E.take n).foldl Store.apply r.store } depth g = (rl, none) ∧
        CrashOutcome rl g w (c.take m) c r.store.index.isSome := by
  obtain ⟨rs, d0, hs, _, hd0, _, _, _, _, _, _, M, hM, hfiles, hev⟩ := save_lin hp
  refine ⟨rs, _, hs, hev, ?_⟩
  exact crash_lin hp depth hd g w hg d0 hd0 M [.indexWrite [d0.hdr.id], .invalidWrite r.invalid] hM hfiles
    (by intro e he; simp only [List.mem_cons, List.mem_nil_iff, or_false] at he; rcases he with rfl | rfl <;> simp [TailEv])

/-- **a crash at any write of ANY Clean in the linear world** (the automatic one included). -/
theorem clean_crash_lin {r : Repo} {c : List HData} {k m : Nat} (hp : PLin r c k m) (cdepth : Int) (hcd : 0 ≤ cdepth)
    (depth : Int) (hd : 0 ≤ depth) (g : Hdr) (w : Nat) (hg : Work.blockWork g.bits = some w) :
    ∃ (r' : Repo) (E : List StoreEv), cleanWith r cdepth = (r', none) ∧ r'.events = r.events ++ E ∧
      ∀ n, ∃ rl, load { r with store := (E.take n).foldl Store.apply r.store } depth g = (rl, none) ∧
        CrashOutcome rl g w (c.take m) c r.store.index.isSome := by
  obtain ⟨r', k', hcl, _, _, _, _, _, _, _, M, d0, hd0, hM, hfiles, hev⟩ := clean_lin hp cdepth hcd
  refine ⟨r', _, hcl, hev, ?_⟩
  exact crash_lin hp depth hd g w hg d0 hd0 M [.invalidWrite r.invalid] hM hfiles
    (by intro e he; simp only [List.mem_cons, List.mem_nil_iff, or_false] at he; subst he; simp [TailEv])

/-! ### the history condition as a computation (for concrete examples) -/

def linStepB (r : Repo) (h : Hdr) (ok : Bool) : Bool :=
  match precheck r h ok with
  | .inr (_, _, lst) => lst.hdr.id == h.prev && (r.heights.get? h.id).isNone
  | .inl _ => true

theorem linStep_of_B (r : Repo) (h : Hdr) (ok : Bool) (hb : linStepB r h ok = true) : LinStep r h ok := by
  intro pb ph lst hpc
  unfold linStepB at hb
  rw [hpc] at hb
  simp only [Bool.and_eq_true, beq_iff_eq] at hb
  refine ⟨hb.1, ?_⟩
  cases hg : r.heights.get? h.id with
  | none => rfl
  | some v => rw [hg] at hb; simp at hb

def linHistB : Repo → List LinOp → Bool
  | _, [] => true
  | r, op :: rest =>
    (match op with
     | .submit h ok => linStepB r h ok
     | .clean d => decide (0 ≤ d)
     | .save => true
     | .load d _ => decide (0 ≤ d) && r.store.index.isSome) &&
    linHistB (applyOp r op) rest

theorem linHist_of_B (ops : List LinOp) : ∀ r, linHistB r ops = true → LinHist r ops := by
  induction ops with
  | nil => intro r _; trivial
  | cons op rest ih =>
    intro r hb
    simp only [linHistB, Bool.and_eq_true] at hb
    refine ⟨?_, ih _ hb.2⟩
    cases op with
    | submit h ok => exact linStep_of_B r h ok hb.1
    | clean d => simpa using hb.1
    | save => trivial
    | load d g =>
      have := hb.1
      simp only [Bool.and_eq_true, decide_eq_true_eq] at this
      exact this

/-! ### the subscriber stream in the linear world -/

def opEvents (r : Repo) : LinOp → List Hdr
  | .submit h ok => (processHeader r h ok).2.events
  | _ => []

/-- everything announced to subscribers over a history, in order. -/
def streamOps : Repo → List LinOp → List Hdr
  | _, [] => []
  | r, op :: rest => opEvents r op ++ streamOps (applyOp r op) rest

def NoLoad : List LinOp → Prop
  | [] => True
  | .load _ _ :: _ => False
  | _ :: rest => NoLoad rest

/-- **the announcements of a fork-free history are exactly the accepted headers, in order**: appended to
    the chain the history started from they give the chain it ends with (any length, across automatic and
    explicit Cleans and Saves). -/
theorem stream_lin (ops : List LinOp) : ∀ (r : Repo) (c : List HData) (k m : Nat), PLin r c k m → LinHist r ops → NoLoad ops →
    ∃ (c' : List HData) (k' m' : Nat), PLin (runOps r ops) c' k' m' ∧
      c'.map (·.hdr) = c.map (·.hdr) ++ streamOps r ops := by
  induction ops with
  | nil => intro r c k m hp _ _; exact ⟨c, k, m, hp, by simp [streamOps]⟩
  | cons op rest ih =>
    intro r c k m hp hh hnl
    obtain ⟨hop, hrest⟩ := hh
    simp only [runOps, List.foldl_cons, streamOps]
    cases op with
    | submit h ok =>
      obtain ⟨c1, k1, m1, hp1, hcase, _, _⟩ := step_lin hp h ok hop
      obtain ⟨c', k', m', hp', hmap⟩ := ih _ c1 k1 m1 hp1 hrest hnl
      refine ⟨c', k', m', hp', ?_⟩
      rw [hmap]
      rcases hcase with ⟨rfl, hev, _⟩ | ⟨d, hd, rfl, hev, _⟩
      · simp only [opEvents, hev, List.nil_append]; rfl
      · simp only [opEvents, hev, List.map_append, List.map_cons, List.map_nil, hd, List.append_assoc]; rfl
    | clean d =>
      obtain ⟨r', k1, hcl, hp1, _⟩ := clean_lin hp d hop
      have : applyOp r (.clean d) = r' := by simp only [applyOp, hcl]
      rw [this] at hrest ⊢
      obtain ⟨c', k', m', hp', hmap⟩ := ih _ c k1 _ hp1 hrest hnl
      exact ⟨c', k', m', hp', by rw [hmap]; simp [opEvents]⟩
    | save =>
      obtain ⟨r', d0, hs, hp1, _⟩ := save_lin hp
      have : applyOp r .save = r' := by simp only [applyOp, hs]
      rw [this] at hrest ⊢
      obtain ⟨c', k', m', hp', hmap⟩ := ih _ c k _ hp1 hrest hnl
      exact ⟨c', k', m', hp', by rw [hmap]; simp [opEvents]⟩
    | load d g => exact absurd hnl (by simp [NoLoad])

end BRV.Repo
