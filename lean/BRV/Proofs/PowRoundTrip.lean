/-
Lemmas for C02 about `ConvertToBits`: it is the network's `GetCompact` with the proof-of-work
limit cap, and decoding its result gives the target truncated to its significant bytes.
-/
import BRV.Proofs.PowLemmas

namespace BRV.Pow

theorem pow256 (k : Nat) : 256 ^ k = 2 ^ (8 * k) := by
  rw [Nat.pow_mul]

/-- a non-zero `t` of byte length `n` lies in `[256^(n-1), 256^n)`. -/
theorem byteLen_bounds (t : Nat) (h : t ≠ 0) : 256 ^ (byteLen t - 1) ≤ t ∧ t < 256 ^ byteLen t := by
  unfold byteLen
  simp only [h, ↓reduceIte, Nat.add_sub_cancel]
  have h1 := Nat.log2_self_le h
  have h2 := @Nat.lt_log2_self t
  constructor
  · rw [pow256]
    exact Nat.le_trans (Nat.pow_le_pow_right (by decide) (by omega)) h1
  · rw [pow256]
    exact Nat.lt_of_lt_of_le h2 (Nat.pow_le_pow_right (by decide) (by omega))

theorem byteLen_le_of_lt (t k : Nat) (h : t < 256 ^ k) : byteLen t ≤ k := by
  by_cases h0 : t = 0
  · subst h0; simp [byteLen]
  · have hb := (byteLen_bounds t h0).1
    rcases Nat.lt_or_ge k (byteLen t) with hk | hk
    · have : 256 ^ k ≤ 256 ^ (byteLen t - 1) := Nat.pow_le_pow_right (by decide) (by omega)
      omega
    · exact hk

theorem lt_byteLen_of_le (t k : Nat) (h : 256 ^ k ≤ t) : k < byteLen t := by
  have h0 : t ≠ 0 := by
    have : 0 < 256 ^ k := Nat.pow_pos (by decide)
    omega
  have hb := (byteLen_bounds t h0).2
  rcases Nat.lt_or_ge k (byteLen t) with hk | hk
  · exact hk
  · have : 256 ^ byteLen t ≤ 256 ^ k := Nat.pow_le_pow_right (by decide) hk
    omega

/-- the three most significant bytes (left aligned) as `ConvertToBits` / `GetCompact` read them. -/
def top3 (t : Nat) : Nat :=
  if 3 ≤ byteLen t then t / 256 ^ (byteLen t - 3) else t * 256 ^ (3 - byteLen t)

theorem top3_lt (t : Nat) : top3 t < 2 ^ 24 := by
  unfold top3
  by_cases h0 : t = 0
  · subst h0; simp [byteLen]
  · have hb := (byteLen_bounds t h0).2
    split
    · rename_i h3
      have : 256 ^ byteLen t = 256 ^ 3 * 256 ^ (byteLen t - 3) := by
        rw [← Nat.pow_add]; congr 1; omega
      rw [this] at hb
      have hpos : 0 < 256 ^ (byteLen t - 3) := Nat.pow_pos (by decide)
      have := (Nat.div_lt_iff_lt_mul hpos).mpr hb
      omega
    · rename_i h3
      have hn : byteLen t = 1 ∨ byteLen t = 2 := by
        have : byteLen t ≠ 0 := by unfold byteLen; simp [h0]
        omega
      rcases hn with hn | hn <;> rw [hn] at hb ⊢ <;> omega

theorem top3_ge (t : Nat) (h : 3 ≤ byteLen t) : 2 ^ 16 ≤ top3 t := by
  unfold top3
  simp only [h, ↓reduceIte]
  have h0 : t ≠ 0 := by intro hc; subst hc; simp [byteLen] at h
  have hb := (byteLen_bounds t h0).1
  have : 256 ^ (byteLen t - 1) = 256 ^ 2 * 256 ^ (byteLen t - 3) := by
    rw [← Nat.pow_add]; congr 1; omega
  rw [this] at hb
  have hpos : 0 < 256 ^ (byteLen t - 3) := Nat.pow_pos (by decide)
  have := (Nat.le_div_iff_mul_le hpos).mpr hb
  omega

/-- `ConvertToBits(t, MaxBits)` for targets not above the limit: no cap. -/
theorem convertToBits_small (t : Nat) (h : t ≤ maxWork) :
    convertToBits t maxBits =
      if 2 ^ 23 ≤ top3 t then (byteLen t + 1) * 2 ^ 24 + top3 t / 256 else byteLen t * 2 ^ 24 + top3 t := by
  have hlen : byteLen t ≤ 28 := byteLen_le_of_lt t 28 (by unfold maxWork at h; omega)
  have hv := top3_lt t
  unfold convertToBits
  simp only []
  have hml : maxBits % 2 ^ 32 / 2 ^ 24 = 29 := by decide
  have hmv : maxBits % 2 ^ 24 = 0xffff := by decide
  rw [hml, hmv]
  have hval : (if 3 ≤ byteLen t then t / 256 ^ (byteLen t - 3) else t * 256 ^ (3 - byteLen t)) = top3 t := rfl
  rw [hval]
  have c1 : decide (29 < byteLen t) = false := by simp; omega
  have c2 : (29 == byteLen t) = false := by simp; omega
  simp only [c1, c2, Bool.false_and, Bool.or_self, Bool.false_eq_true, ↓reduceIte]
  by_cases hp : 2 ^ 23 ≤ top3 t
  · have : (top3 t / 2 ^ 23 % 2 == 1) = true := by simp; omega
    simp only [this, ↓reduceIte, hp]
    omega
  · have : (top3 t / 2 ^ 23 % 2 == 1) = false := by simp; omega
    simp only [this, Bool.false_eq_true, ↓reduceIte, hp]
    omega

/-- above the limit the cap applies and yields MaxBits. -/
theorem convertToBits_large (t : Nat) (h : maxWork < t) : convertToBits t maxBits = 0x1d00ffff := by
  have hlen : 28 < byteLen t := lt_byteLen_of_le t 28 (by unfold maxWork at h; omega)
  unfold convertToBits
  simp only []
  have hml : maxBits % 2 ^ 32 / 2 ^ 24 = 29 := by decide
  have hmv : maxBits % 2 ^ 24 = 0xffff := by decide
  rw [hml, hmv]
  have hval : (if 3 ≤ byteLen t then t / 256 ^ (byteLen t - 3) else t * 256 ^ (3 - byteLen t)) = top3 t := rfl
  rw [hval]
  have hcap : (decide (29 < byteLen t) || (29 == byteLen t && decide (0xffff < top3 t))) = true := by
    by_cases h29 : 29 < byteLen t
    · simp [h29]
    · have : byteLen t = 29 := by omega
      have := top3_ge t (by omega)
      simp; omega
  simp only [hcap, ↓reduceIte]
  decide

theorem convertToBits_eq_getCompact (t : Nat) :
    convertToBits t maxBits = Spec.getCompact (min t Spec.powLimit) := by
  by_cases h : t ≤ maxWork
  · have hmin : min t Spec.powLimit = t := by
      unfold Spec.powLimit; unfold maxWork at h; rw [Nat.min_def]; split <;> omega
    rw [hmin, convertToBits_small t h]
    unfold Spec.getCompact
    simp only []
    have hs : Spec.sizeOf t = byteLen t := rfl
    rw [hs]
    have hc : (if byteLen t ≤ 3 then t * 256 ^ (3 - byteLen t) else t / 256 ^ (byteLen t - 3)) = top3 t := by
      unfold top3
      by_cases h3 : byteLen t = 3
      · simp [h3]
      · by_cases hl : byteLen t ≤ 3
        · have : ¬ 3 ≤ byteLen t := by omega
          simp [hl, this]
        · have : 3 ≤ byteLen t := by omega
          simp [hl, this]
    rw [hc]
    have hv := top3_lt t
    by_cases hp : 2 ^ 23 ≤ top3 t
    · have : top3 t / 2 ^ 23 % 2 = 1 := by omega
      simp [hp, this]
    · have : ¬ (top3 t / 2 ^ 23 % 2 = 1) := by omega
      simp [hp, this]
  · have hlt : maxWork < t := by omega
    have hmin : min t Spec.powLimit = Spec.powLimit := by
      unfold Spec.powLimit; unfold maxWork at hlt; rw [Nat.min_def]; split <;> omega
    rw [hmin, convertToBits_large t hlt]
    decide

theorem trunc_bounds (t Q : Nat) (hQ : 0 < Q) : t / Q * Q ≤ t ∧ t < t / Q * Q + Q := by
  constructor
  · exact Nat.div_mul_le_self t Q
  · have := Nat.div_add_mod t Q
    have := Nat.mod_lt t hQ
    rw [Nat.mul_comm]
    omega

set_option maxRecDepth 8000 in
theorem bits_roundtrip (t : Nat) (h1 : 256 ≤ t) (h2 : t ≤ maxWork) :
    ∃ t', convertToDifficulty (convertToBits t maxBits) = some t' ∧ t' ≤ t ∧ t < t' + 256 ^ (byteLen t - 2) := by
  have hn2 : 1 < byteLen t := lt_byteLen_of_le t 1 (by omega)
  have hn28 : byteLen t ≤ 28 := byteLen_le_of_lt t 28 (by unfold maxWork at h2; omega)
  have hv := top3_lt t
  rw [convertToBits_small t h2, convertToDifficulty_closed]
  unfold decodeClosed
  simp only []
  -- the value of top3 in the two shapes
  have hv2 : byteLen t = 2 → top3 t = t * 256 := by
    intro h; unfold top3; simp [h]
  have hv3 : 3 ≤ byteLen t → top3 t = t / 256 ^ (byteLen t - 3) := by
    intro h; unfold top3; simp [h]
  have ht2 : byteLen t = 2 → t < 65536 := by
    intro h
    have := (byteLen_bounds t (by omega)).2
    rw [h] at this; omega
  generalize hn : byteLen t = n at *
  generalize hvv : top3 t = v at *
  by_cases hp : 2 ^ 23 ≤ v
  · -- sign-bit padding: exponent n+1, mantissa v/256
    simp only [hp, ↓reduceIte]
    have hmod : ((n + 1) * 2 ^ 24 + v / 256) % 2 ^ 32 = (n + 1) * 2 ^ 24 + v / 256 := by omega
    rw [hmod]
    have he : ((n + 1) * 2 ^ 24 + v / 256) / 2 ^ 24 = n + 1 := by omega
    have hm : ((n + 1) * 2 ^ 24 + v / 256) % 2 ^ 24 = v / 256 := by omega
    have hz : v / 256 / 2 ^ 16 = 0 := by omega
    have hl : (n + 1 + 255) % 256 = n := by omega
    simp only [he, hm, hz, ↓reduceIte, hl]
    by_cases hn2' : n = 2
    · subst hn2'
      have := hv2 rfl
      have := ht2 rfl
      refine ⟨v / 256, by simp, by omega, by simp; omega⟩
    · have c0 : ¬ n = 0 := by omega
      have c1 : ¬ n = 1 := by omega
      simp only [c0, c1, hn2', ↓reduceIte]
      have hv3' := hv3 (by omega)
      refine ⟨_, rfl, ?_, ?_⟩
      · -- (t / P / 256) * 256 * P ≤ t
        have hQ : 256 ^ (n - 2) = 256 ^ (n - 3) * 256 := by
          have : n - 2 = (n - 3) + 1 := by omega
          rw [this, Nat.pow_succ]
        have hd : v / 256 = t / 256 ^ (n - 2) := by
          rw [hv3', Nat.div_div_eq_div_mul, hQ]
        rw [hd, Nat.mul_assoc, Nat.mul_comm 256, ← hQ]
        exact (trunc_bounds t _ (Nat.pow_pos (by decide))).1
      · have hQ : 256 ^ (n - 2) = 256 ^ (n - 3) * 256 := by
          have : n - 2 = (n - 3) + 1 := by omega
          rw [this, Nat.pow_succ]
        have hd : v / 256 = t / 256 ^ (n - 2) := by
          rw [hv3', Nat.div_div_eq_div_mul, hQ]
        rw [hd, Nat.mul_assoc, Nat.mul_comm 256, ← hQ]
        exact (trunc_bounds t _ (Nat.pow_pos (by decide))).2
  · simp only [hp, ↓reduceIte]
    have hmod : (n * 2 ^ 24 + v) % 2 ^ 32 = n * 2 ^ 24 + v := by omega
    rw [hmod]
    have he : (n * 2 ^ 24 + v) / 2 ^ 24 = n := by omega
    have hm : (n * 2 ^ 24 + v) % 2 ^ 24 = v := by omega
    have hz : ¬ (v / 2 ^ 16 = 0) := by
      by_cases hn2' : n = 2
      · have := hv2 hn2'; omega
      · have := top3_ge t (by omega); omega
    simp only [he, hm, hz, ↓reduceIte]
    by_cases hn2' : n = 2
    · subst hn2'
      have := hv2 rfl
      refine ⟨v / 256, by simp, by omega, by simp; omega⟩
    · have c0 : ¬ n = 0 := by omega
      have c1 : ¬ n = 1 := by omega
      simp only [c0, c1, hn2', ↓reduceIte]
      have hv3' := hv3 (by omega)
      refine ⟨_, rfl, ?_, ?_⟩
      · rw [hv3']; exact (trunc_bounds t _ (Nat.pow_pos (by decide))).1
      · rw [hv3']
        have hb := (trunc_bounds t (256 ^ (n - 3)) (Nat.pow_pos (by decide))).2
        have hQ : 256 ^ (n - 3) ≤ 256 ^ (n - 2) := Nat.pow_le_pow_right (by decide) (by omega)
        omega
