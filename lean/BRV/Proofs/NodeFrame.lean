/-
Frame parsing: `handleMessage` on a well-formed classic frame reads the 24-byte header and hands
exactly (declared length, checksum, payload ++ following bytes) to the handler the table selects.
-/
import BRV.Proofs.NodeWire

namespace BRV.Wire
open BRV BRV.Node BRV.Spec

/-- what the theorems need from the environment: 4 magic bytes, a hash of at least 4 bytes. -/
structure EnvOk (e : Env) : Prop where
  net : e.net.length = 4
  hash : ∀ b, 4 ≤ (e.hash b).length

theorem leVal_leN (k n : Nat) (h : n < 256 ^ k) : leVal (leN k n) = n := by
  induction k generalizing n with
  | zero => simp at h; subst h; rfl
  | succ k ih =>
    have h2 : n / 256 < 256 ^ k := by
      rw [Nat.pow_succ] at h
      exact Nat.div_lt_of_lt_mul (by rw [Nat.mul_comm]; exact h)
    simp only [leN, leVal, ih _ h2]
    omega

theorem dropWhile_zeros (k : Nat) (l : Bytes) :
    (List.replicate k 0 ++ l).dropWhile (· == 0) = l.dropWhile (· == 0) := by
  induction k with
  | zero => rfl
  | succ k ih => simp [List.replicate_succ, List.dropWhile_cons, ih]

theorem dropWhile_nonzero (l : Bytes) (h : ∀ x ∈ l, 0 < x) : l.dropWhile (· == 0) = l := by
  cases l with
  | nil => rfl
  | cons x r =>
    have hx := h x (by simp)
    have : (x == 0) = false := by simp; omega
    simp [List.dropWhile_cons, this]

theorem trimZeros_cmdField (cmd : Bytes) (h : ∀ x ∈ cmd, 0 < x) : trimZeros (cmdField cmd) = cmd := by
  unfold trimZeros cmdField
  rw [List.reverse_append, List.reverse_replicate, dropWhile_zeros,
    dropWhile_nonzero _ (by intro x hx; exact h x (List.mem_reverse.mp hx)), List.reverse_reverse]

theorem validUtf8_ascii (cmd : Bytes) (h : ∀ x ∈ cmd, x < 128) : validUtf8 cmd = true := by
  induction cmd with
  | nil => rfl
  | cons x r ih =>
    have hx := h x (by simp)
    unfold validUtf8
    simp only [show x < 0x80 from hx, ↓reduceIte]
    exact ih (fun y hy => h y (by simp [hy]))

theorem cmdField_length (cmd : Bytes) (h : cmd.length ≤ 12) : (cmdField cmd).length = 12 := by
  unfold cmdField; simp; omega

/-- the five fields of a 24-byte header followed by anything. -/
theorem header_fields (a b c d r : Bytes) (ha : a.length = 4) (hb : b.length = 12) (hc : c.length = 4)
    (hd : d.length = 4) :
    let inp := a ++ b ++ c ++ d ++ r
    inp.take 4 = a ∧ (inp.drop 4).take 12 = b ∧ (inp.drop 16).take 4 = c ∧ (inp.drop 20).take 4 = d ∧
    inp.drop 24 = r ∧ 24 ≤ inp.length := by
  simp only [List.append_assoc]
  refine ⟨?_, ?_, ?_, ?_, ?_, ?_⟩
  · exact List.take_left' ha
  · rw [List.drop_left' ha]; exact List.take_left' hb
  · have : (a ++ (b ++ (c ++ (d ++ r)))).drop 16 = c ++ (d ++ r) := by
      rw [← List.append_assoc]; exact List.drop_left' (by simp [ha, hb])
    rw [this]; exact List.take_left' hc
  · have : (a ++ (b ++ (c ++ (d ++ r)))).drop 20 = d ++ r := by
      rw [← List.append_assoc, ← List.append_assoc]; exact List.drop_left' (by simp [ha, hb, hc])
    rw [this]; exact List.take_left' hd
  · rw [← List.append_assoc, ← List.append_assoc, ← List.append_assoc]
    exact List.drop_left' (by simp [ha, hb, hc, hd])
  · simp only [List.length_append, ha, hb, hc, hd]; omega

/-- **frame parsing, general.** Any 24-byte header with a protocol-conformant command, a declared
    length `L < 2^32`, any 4 checksum bytes, followed by any bytes `body`: unknown command →
    `DiscardInput(L)`; known command → its handler gets `L`, the checksum and `body`. -/
theorem handleMessage_frame (e : Env) (he : EnvOk e) (s : State) (cmd ck body : Bytes) (L : Nat)
    (hc : wfCmd cmd) (hL : L < 2 ^ 32) (hck : ck.length = 4) :
    handleMessage e s (e.net ++ cmdField cmd ++ leN 4 L ++ ck ++ body) =
      match lookupCmd s.table cmd with
      | none => if body.length < L then .need s [] else .ok s (body.drop L) []
      | some h => toOutcome body (dispatch e s h L ck body) := by
  have hf := header_fields e.net (cmdField cmd) (leN 4 L) ck body
    he.net (cmdField_length cmd hc.2.1) (leN_length 4 _) hck
  simp only [] at hf
  obtain ⟨f1, f2, f3, f4, f5, f6⟩ := hf
  unfold handleMessage
  have h4 : ¬ (e.net ++ cmdField cmd ++ leN 4 L ++ ck ++ body).length < 4 := by omega
  have h24 : ¬ (e.net ++ cmdField cmd ++ leN 4 L ++ ck ++ body).length < 24 := by omega
  simp only [h4, h24, ↓reduceIte, f1, f2, f3, f4, f5, ne_eq, not_true_eq_false]
  rw [trimZeros_cmdField cmd (fun x hx => (hc.2.2 x hx).1), validUtf8_ascii cmd (fun x hx => (hc.2.2 x hx).2),
    leVal_leN 4 L (by simpa using hL)]
  simp only [Bool.not_true, Bool.false_eq_true, ↓reduceIte]
  cases lookupCmd s.table cmd <;> rfl

/-- **frame parsing, classic well-formed frame** (`L = |p|`, checksum of `p`), followed by `rest`. -/
theorem handleMessage_classic (e : Env) (he : EnvOk e) (s : State) (cmd p rest : Bytes)
    (hc : wfCmd cmd) (hp : p.length < 2 ^ 32) :
    handleMessage e s (classicFrame e cmd p ++ rest) =
      match lookupCmd s.table cmd with
      | none => .ok s rest []
      | some h => toOutcome (p ++ rest) (dispatch e s h p.length ((e.hash p).take 4) (p ++ rest)) := by
  have hck : ((e.hash p).take 4).length = 4 := by
    rw [List.length_take]; have := he.hash p; omega
  have hinp : classicFrame e cmd p ++ rest =
      e.net ++ cmdField cmd ++ leN 4 p.length ++ (e.hash p).take 4 ++ (p ++ rest) := by
    unfold classicFrame; simp only [List.append_assoc]
  rw [hinp, handleMessage_frame e he s cmd _ (p ++ rest) p.length hc hp hck]
  cases lookupCmd s.table cmd with
  | none =>
    have : ¬ (p ++ rest).length < p.length := by simp
    simp only [this, ↓reduceIte, List.drop_left]
  | some h => rfl

end BRV.Wire
