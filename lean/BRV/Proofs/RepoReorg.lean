/-
The reorganisation announcement: what `reselect` sends when the most-work branch changes, and
that a subscriber applying it to the previous best chain obtains the new best chain.
-/
import BRV.Proofs.RepoChain
import BRV.Proofs.StreamLemmas

namespace BRV.Repo

/-! ### the two extra invariants are preserved by submissions -/

theorem getElem?_lt {α : Type} (l : List α) (i : Nat) (x : α) (h : l[i]? = some x) : i < l.length := by
  by_cases hc : i < l.length
  · exact hc
  · rw [List.getElem?_eq_none (by omega)] at h; cases h

theorem ownsWF_processHeader (r : Repo) (h : Hdr) (ok : Bool) (hr : RepoWF r) (ho : OwnsWF r.arena)
    (hnc : ∀ pb ph lst, precheck r h ok = .inr (pb, ph, lst) →
      Int.tmod ((r.br pb).height + 1) (Facts.autoCleanModulus : Int) ≠ 0) :
    OwnsWF (processHeader r h ok).1.arena := by
  cases processHeader_shape r h ok hnc with
  | same ha hb _ => rw [ha]; exact ho
  | fork pb ph lst nb hp hne hn ha hb _ =>
    rw [ha]
    obtain ⟨l2, w, _, _, hnb⟩ := newBranch_ok_shape r pb ph h nb hn
    intro bi b p hbi hpar
    by_cases hlt : bi < r.arena.length
    · rw [List.getElem?_append_left hlt] at hbi
      obtain ⟨pbr, hp', hlt'⟩ := ho bi b p hbi hpar
      exact ⟨pbr, by rw [List.getElem?_append_left (getElem?_lt _ _ _ hp')]; exact hp', hlt'⟩
    · have hlen := getElem?_lt _ _ _ hbi
      simp only [List.length_append, List.length_cons, List.length_nil] at hlen
      have he : bi = r.arena.length := by omega
      subst he
      simp only [List.getElem?_concat_length, Option.some.injEq] at hbi
      subst hbi
      rw [hnb] at hpar
      simp only [Option.some.injEq] at hpar
      subst hpar
      obtain ⟨pbr, k, d, hpb, _, _, hph⟩ := branchesFind_owner r hr.link hr.ids hr.list h.prev pb ph hp.parent
      refine ⟨pbr, by rw [List.getElem?_append_left (getElem?_lt _ _ _ hpb)]; exact hpb, ?_⟩
      rw [hnb]; simp only; omega
  | extend pb ph lst w hp hprev hlen hbw ha hb _ =>
    rw [ha]
    have hbr : r.arena[pb]? = some (r.br pb) := by
      unfold Repo.br; rw [List.getElem?_eq_getElem hlen]; rfl
    intro bi b p hbi hpar
    -- the branch as it was
    have hold : ∃ b0, r.arena[bi]? = some b0 ∧ b0.parent = b.parent ∧ b0.parentHeight = b.parentHeight := by
      by_cases he : bi = pb
      · subst he
        rw [List.getElem?_set_self hlen] at hbi
        simp only [Option.some.injEq] at hbi
        exact ⟨r.br bi, hbr, by rw [← hbi], by rw [← hbi]⟩
      · rw [List.getElem?_set_ne (Ne.symm he)] at hbi
        exact ⟨b, hbi, rfl, rfl⟩
    obtain ⟨b0, hb0, hp0, hh0⟩ := hold
    obtain ⟨pbr, hp', hlt'⟩ := ho bi b0 p hb0 (by rw [hp0]; exact hpar)
    by_cases he : p = pb
    · subst he
      rw [hbr] at hp'
      simp only [Option.some.injEq] at hp'
      refine ⟨_, List.getElem?_set_self hlen, ?_⟩
      simp only
      rw [hp', ← hh0]; exact hlt'
    · exact ⟨pbr, by rw [List.getElem?_set_ne (Ne.symm he)]; exact hp', by rw [← hh0]; exact hlt'⟩

theorem rootBase_processHeader (r : Repo) (h : Hdr) (ok : Bool) (hb0 : RootBase r.arena)
    (hnc : ∀ pb ph lst, precheck r h ok = .inr (pb, ph, lst) →
      Int.tmod ((r.br pb).height + 1) (Facts.autoCleanModulus : Int) ≠ 0) :
    RootBase (processHeader r h ok).1.arena := by
  cases processHeader_shape r h ok hnc with
  | same ha hb _ => rw [ha]; exact hb0
  | fork pb ph lst nb hp hne hn ha hb _ =>
    rw [ha]
    obtain ⟨l2, w, _, _, hnb⟩ := newBranch_ok_shape r pb ph h nb hn
    intro bi b hbi hpar
    by_cases hlt : bi < r.arena.length
    · rw [List.getElem?_append_left hlt] at hbi
      exact hb0 bi b hbi hpar
    · have hlen := getElem?_lt _ _ _ hbi
      simp only [List.length_append, List.length_cons, List.length_nil] at hlen
      have he : bi = r.arena.length := by omega
      subst he
      simp only [List.getElem?_concat_length, Option.some.injEq] at hbi
      subst hbi
      rw [hnb] at hpar
      cases hpar
  | extend pb ph lst w hp hprev hlen hbw ha hb _ =>
    rw [ha]
    have hbr : r.arena[pb]? = some (r.br pb) := by
      unfold Repo.br; rw [List.getElem?_eq_getElem hlen]; rfl
    intro bi b hbi hpar
    by_cases he : bi = pb
    · subst he
      rw [List.getElem?_set_self hlen] at hbi
      simp only [Option.some.injEq] at hbi
      rw [← hbi] at hpar ⊢
      exact hb0 bi (r.br bi) hbr hpar
    · rw [List.getElem?_set_ne (Ne.symm he)] at hbi
      exact hb0 bi b hbi hpar

/-- all invariants of a repository reached by submissions from genesis. -/
structure ChainWF (r : Repo) : Prop where
  wf : RepoWF r
  owns : OwnsWF r.arena
  root : RootBase r.arena

theorem chainWF_processHeader (r : Repo) (h : Hdr) (ok : Bool) (hc : ChainWF r)
    (hnc : ∀ pb ph lst, precheck r h ok = .inr (pb, ph, lst) →
      Int.tmod ((r.br pb).height + 1) (Facts.autoCleanModulus : Int) ≠ 0) :
    ChainWF (processHeader r h ok).1 :=
  ⟨repoWF_processHeader r h ok hc.wf hnc, ownsWF_processHeader r h ok hc.wf hc.owns hnc,
   rootBase_processHeader r h ok hc.root hnc⟩

theorem chainWF_submitAll (r : Repo) (hs : List (Hdr × Bool)) (hc : ChainWF r) (hq : NoAutoClean r hs) :
    ChainWF (submitAll r hs) := by
  induction hs generalizing r with
  | nil => exact hc
  | cons x xs ih =>
    obtain ⟨h1, h2⟩ := hq
    simp only [submitAll, List.foldl_cons]
    exact ih _ (chainWF_processHeader r x.1 x.2 hc h1) h2

/-! ### what `sendBranchUpdate` collects -/

theorem collect_spec (r : Repo) (branch : Nat) (n : Nat) (from_ : Int) (acc evs : List Hdr)
    (h : sendBranchUpdate.collect r branch n from_ acc = (evs, none)) :
    ∃ l : List Hdr, evs = acc.reverse ++ l ∧ l.length = n ∧
      ∀ j : Nat, j < n → ∃ d, r.at branch (from_ + (j : Int)) = some d ∧ l[j]? = some d.hdr := by
  induction n generalizing from_ acc with
  | zero =>
    simp only [sendBranchUpdate.collect, Prod.mk.injEq, and_true] at h
    exact ⟨[], by rw [← h]; simp, rfl, by intro j hj; omega⟩
  | succ k ih =>
    simp only [sendBranchUpdate.collect] at h
    split at h
    · cases h
    · rename_i d hd
      obtain ⟨l', he, hlen, hidx⟩ := ih _ _ h
      refine ⟨d.hdr :: l', by rw [he]; simp, by simp [hlen], ?_⟩
      intro j hj
      cases j with
      | zero => exact ⟨d, by simpa using hd, rfl⟩
      | succ j =>
        obtain ⟨dj, hdj, hlj⟩ := hidx j (by omega)
        refine ⟨dj, ?_, by simpa using hlj⟩
        have : from_ + ((j + 1 : Nat) : Int) = from_ + 1 + (j : Int) := by omega
        rw [this]; exact hdj

/-! ### list helpers -/

theorem split_at {α : Type} (l : List α) (M : Nat) (x : α) (h : l[M]? = some x) :
    l = l.take M ++ [x] ++ l.drop (M + 1) := by
  apply List.ext_getElem?
  intro i
  have hM : M < l.length := getElem?_lt _ _ _ h
  have hmin : min M l.length = M := Nat.min_eq_left (Nat.le_of_lt hM)
  by_cases h1 : i < M
  · rw [List.append_assoc, List.getElem?_append_left (by simp; omega), List.getElem?_take]; simp [h1]
  · by_cases h2 : i = M
    · subst h2
      rw [List.append_assoc, List.getElem?_append_right (by simp [hmin]), h]
      simp [hmin]
    · rw [List.getElem?_append_right (by simp; omega)]
      simp only [List.length_append, List.length_take, List.length_cons, List.length_nil,
        Nat.min_eq_left (Nat.le_of_lt hM), List.getElem?_drop]
      congr 1; omega

theorem linked_of_idx (p : Hdr) (evs : List Hdr) (h0 : ∀ e, evs[0]? = some e → e.prev = p.id)
    (hs : ∀ (j : Nat) (a b : Hdr), evs[j]? = some a → evs[j + 1]? = some b → b.prev = a.id) :
    Spec.Linked p evs := by
  induction evs generalizing p with
  | nil => trivial
  | cons e es ih =>
    refine ⟨h0 e rfl, ih e ?_ ?_⟩
    · intro e2 he2; exact hs 0 e e2 rfl (by simpa using he2)
    · intro j a b ha hb; exact hs (j + 1) a b (by simpa using ha) (by simpa using hb)

theorem nodup_of_idx_inj {α β : Type} (l : List α) (f : α → β)
    (h : ∀ (i j : Nat) (a b : α), l[i]? = some a → l[j]? = some b → f a = f b → i = j) : (l.map f).Nodup := by
  unfold List.Nodup
  rw [List.pairwise_map, List.pairwise_iff_getElem]
  intro i j hi hj hij heq
  have := h i j l[i] l[j] (List.getElem?_eq_getElem hi) (List.getElem?_eq_getElem hj) heq
  omega

/-! ### the chain of a branch -/

/-- `c` lists the headers of the chain ending in branch `bi`, from genesis (height 0) to its tip. -/
def IsChain (ar : Arena) (bi : Nat) (c : List Hdr) : Prop :=
  ∃ b, ar[bi]? = some b ∧ (c.length : Int) = b.height + 1 ∧
    ∀ k : Nat, k < c.length → ∃ d, atH ar bi (k : Int) = some d ∧ c[k]? = some d.hdr

/-- in a repository reached by submissions from genesis every branch has its chain. -/
theorem isChain_exists (r : Repo) (hc : ChainWF r) (bi : Nat) (b : Branch) (hb : r.arena[bi]? = some b) :
    ∃ c, IsChain r.arena bi c := by
  have hl := hc.wf.link.each bi b hb
  have hge := parentHeight_ge r.arena hc.wf.link hc.root hc.owns bi b hb
  have hh := branch_height_eq b hl.off
  refine ⟨(List.range (b.height + 1).toNat).map (fun (k : Nat) => ((atH r.arena bi (k : Int)).map (·.hdr)).getD default),
    b, hb, by simp; omega, ?_⟩
  intro k hk
  simp only [List.length_map, List.length_range] at hk
  obtain ⟨d, hd⟩ := atH_complete r.arena hc.wf.link hc.root bi b hb (k : Int) (by omega) (by omega)
  refine ⟨d, hd, ?_⟩
  rw [List.getElem?_map, List.getElem?_range hk]
  simp [hd]

end BRV.Repo
