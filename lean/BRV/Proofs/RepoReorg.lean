/-
The reorganisation announcement: what `reselect` sends when the most-work branch changes, and
that a subscriber applying it to the previous best chain obtains the new best chain.
-/
import BRV.Proofs.RepoChain
import BRV.Proofs.StreamLemmas

namespace BRV.Repo

/-! ### the two extra invariants are preserved by submissions -/

theorem getElem?_lt {α : Type} (l : List α) (i : Nat) (x : α) (h : l[i]? = some x) : i < l.length := by
  by_cases hc : i < l.length
  · exact hc
  · rw [List.getElem?_eq_none (by omega)] at h; cases h

theorem ownsWF_processHeader (r : Repo) (h : Hdr) (ok : Bool) (hr : RepoWF r) (ho : OwnsWF r.arena)
    (hnc : ∀ pb ph lst, precheck r h ok = .inr (pb, ph, lst) →
      Int.tmod ((r.br pb).height + 1) (Facts.autoCleanModulus : Int) ≠ 0) :
    OwnsWF (processHeader r h ok).1.arena := by
  cases processHeader_shape r h ok hnc with
  | same ha hb _ => rw [ha]; exact ho
  | fork pb ph lst nb hp hn ha hb _ =>
    rw [ha]
    obtain ⟨l2, w, _, _, hnb⟩ := newBranch_ok_shape r pb ph h nb hn
    intro bi b p hbi hpar
    by_cases hlt : bi < r.arena.length
    · rw [List.getElem?_append_left hlt] at hbi
      obtain ⟨pbr, hp', hlt'⟩ := ho bi b p hbi hpar
      exact ⟨pbr, by rw [List.getElem?_append_left (getElem?_lt _ _ _ hp')]; exact hp', hlt'⟩
    · have hlen := getElem?_lt _ _ _ hbi
      simp only [List.length_append, List.length_cons, List.length_nil] at hlen
      have he : bi = r.arena.length := by omega
      subst he
      simp only [List.getElem?_concat_length, Option.some.injEq] at hbi
      subst hbi
      rw [hnb] at hpar
      simp only [Option.some.injEq] at hpar
      subst hpar
      obtain ⟨pbr, k, d, hpb, _, _, hph⟩ := branchesFind_owner r hr.link hr.ids hr.list h.prev pb ph hp.parent
      refine ⟨pbr, by rw [List.getElem?_append_left (getElem?_lt _ _ _ hpb)]; exact hpb, ?_⟩
      rw [hnb]; simp only; omega
  | extend pb ph lst w hp hprev hlen ha hb _ =>
    rw [ha]
    have hbr : r.arena[pb]? = some (r.br pb) := by
      unfold Repo.br; rw [List.getElem?_eq_getElem hlen]; rfl
    intro bi b p hbi hpar
    -- the branch as it was
    have hold : ∃ b0, r.arena[bi]? = some b0 ∧ b0.parent = b.parent ∧ b0.parentHeight = b.parentHeight := by
      by_cases he : bi = pb
      · subst he
        rw [List.getElem?_set_self hlen] at hbi
        simp only [Option.some.injEq] at hbi
        exact ⟨r.br bi, hbr, by rw [← hbi], by rw [← hbi]⟩
      · rw [List.getElem?_set_ne (Ne.symm he)] at hbi
        exact ⟨b, hbi, rfl, rfl⟩
    obtain ⟨b0, hb0, hp0, hh0⟩ := hold
    obtain ⟨pbr, hp', hlt'⟩ := ho bi b0 p hb0 (by rw [hp0]; exact hpar)
    by_cases he : p = pb
    · subst he
      rw [hbr] at hp'
      simp only [Option.some.injEq] at hp'
      refine ⟨_, List.getElem?_set_self hlen, ?_⟩
      simp only
      rw [hp', ← hh0]; exact hlt'
    · exact ⟨pbr, by rw [List.getElem?_set_ne (Ne.symm he)]; exact hp', by rw [← hh0]; exact hlt'⟩

theorem rootBase_processHeader (r : Repo) (h : Hdr) (ok : Bool) (hb0 : RootBase r.arena)
    (hnc : ∀ pb ph lst, precheck r h ok = .inr (pb, ph, lst) →
      Int.tmod ((r.br pb).height + 1) (Facts.autoCleanModulus : Int) ≠ 0) :
    RootBase (processHeader r h ok).1.arena := by
  cases processHeader_shape r h ok hnc with
  | same ha hb _ => rw [ha]; exact hb0
  | fork pb ph lst nb hp hn ha hb _ =>
    rw [ha]
    obtain ⟨l2, w, _, _, hnb⟩ := newBranch_ok_shape r pb ph h nb hn
    intro bi b hbi hpar
    by_cases hlt : bi < r.arena.length
    · rw [List.getElem?_append_left hlt] at hbi
      exact hb0 bi b hbi hpar
    · have hlen := getElem?_lt _ _ _ hbi
      simp only [List.length_append, List.length_cons, List.length_nil] at hlen
      have he : bi = r.arena.length := by omega
      subst he
      simp only [List.getElem?_concat_length, Option.some.injEq] at hbi
      subst hbi
      rw [hnb] at hpar
      cases hpar
  | extend pb ph lst w hp hprev hlen ha hb _ =>
    rw [ha]
    have hbr : r.arena[pb]? = some (r.br pb) := by
      unfold Repo.br; rw [List.getElem?_eq_getElem hlen]; rfl
    intro bi b hbi hpar
    by_cases he : bi = pb
    · subst he
      rw [List.getElem?_set_self hlen] at hbi
      simp only [Option.some.injEq] at hbi
      rw [← hbi] at hpar ⊢
      exact hb0 bi (r.br bi) hbr hpar
    · rw [List.getElem?_set_ne (Ne.symm he)] at hbi
      exact hb0 bi b hbi hpar

/-- all invariants of a repository reached by submissions from genesis. -/
structure ChainWF (r : Repo) : Prop where
  wf : RepoWF r
  owns : OwnsWF r.arena
  root : RootBase r.arena

theorem chainWF_processHeader (r : Repo) (h : Hdr) (ok : Bool) (hc : ChainWF r)
    (hnc : ∀ pb ph lst, precheck r h ok = .inr (pb, ph, lst) →
      Int.tmod ((r.br pb).height + 1) (Facts.autoCleanModulus : Int) ≠ 0) :
    ChainWF (processHeader r h ok).1 :=
  ⟨repoWF_processHeader r h ok hc.wf hnc, ownsWF_processHeader r h ok hc.wf hc.owns hnc,
   rootBase_processHeader r h ok hc.root hnc⟩

theorem chainWF_submitAll (r : Repo) (hs : List (Hdr × Bool)) (hc : ChainWF r) (hq : NoAutoClean r hs) :
    ChainWF (submitAll r hs) := by
  induction hs generalizing r with
  | nil => exact hc
  | cons x xs ih =>
    obtain ⟨h1, h2⟩ := hq
    simp only [submitAll, List.foldl_cons]
    exact ih _ (chainWF_processHeader r x.1 x.2 hc h1) h2

/-! ### what `sendBranchUpdate` collects -/

theorem collect_spec (r : Repo) (branch : Nat) (n : Nat) (from_ : Int) (acc evs : List Hdr)
    (h : sendBranchUpdate.collect r branch n from_ acc = (evs, none)) :
    ∃ l : List Hdr, evs = acc.reverse ++ l ∧ l.length = n ∧
      ∀ j : Nat, j < n → ∃ d, r.at branch (from_ + (j : Int)) = some d ∧ l[j]? = some d.hdr := by
  induction n generalizing from_ acc with
  | zero =>
    simp only [sendBranchUpdate.collect, Prod.mk.injEq, and_true] at h
    exact ⟨[], by rw [← h]; simp, rfl, by intro j hj; omega⟩
  | succ k ih =>
    simp only [sendBranchUpdate.collect] at h
    split at h
    · cases h
    · rename_i d hd
      obtain ⟨l', he, hlen, hidx⟩ := ih _ _ h
      refine ⟨d.hdr :: l', by rw [he]; simp, by simp [hlen], ?_⟩
      intro j hj
      cases j with
      | zero => exact ⟨d, by simpa using hd, rfl⟩
      | succ j =>
        obtain ⟨dj, hdj, hlj⟩ := hidx j (by omega)
        refine ⟨dj, ?_, by simpa using hlj⟩
        have : from_ + ((j + 1 : Nat) : Int) = from_ + 1 + (j : Int) := by omega
        rw [this]; exact hdj

/-! ### list helpers -/

theorem split_at {α : Type} (l : List α) (M : Nat) (x : α) (h : l[M]? = some x) :
    l = l.take M ++ [x] ++ l.drop (M + 1) := by
  apply List.ext_getElem?
  intro i
  have hM : M < l.length := getElem?_lt _ _ _ h
  have hmin : min M l.length = M := Nat.min_eq_left (Nat.le_of_lt hM)
  by_cases h1 : i < M
  · rw [List.append_assoc, List.getElem?_append_left (by simp; omega), List.getElem?_take]; simp [h1]
  · by_cases h2 : i = M
    · subst h2
      rw [List.append_assoc, List.getElem?_append_right (by simp [hmin]), h]
      simp [hmin]
    · rw [List.getElem?_append_right (by simp; omega)]
      simp only [List.length_append, List.length_take, List.length_cons, List.length_nil,
        Nat.min_eq_left (Nat.le_of_lt hM), List.getElem?_drop]
      congr 1; omega

theorem linked_of_idx (p : Hdr) (evs : List Hdr) (h0 : ∀ e, evs[0]? = some e → e.prev = p.id)
    (hs : ∀ (j : Nat) (a b : Hdr), evs[j]? = some a → evs[j + 1]? = some b → b.prev = a.id) :
    Spec.Linked p evs := by
  induction evs generalizing p with
  | nil => trivial
  | cons e es ih =>
    refine ⟨h0 e rfl, ih e ?_ ?_⟩
    · intro e2 he2; exact hs 0 e e2 rfl (by simpa using he2)
    · intro j a b ha hb; exact hs (j + 1) a b (by simpa using ha) (by simpa using hb)

theorem nodup_of_idx_inj {α β : Type} (l : List α) (f : α → β)
    (h : ∀ (i j : Nat) (a b : α), l[i]? = some a → l[j]? = some b → f a = f b → i = j) : (l.map f).Nodup := by
  unfold List.Nodup
  rw [List.pairwise_map, List.pairwise_iff_getElem]
  intro i j hi hj hij heq
  have := h i j l[i] l[j] (List.getElem?_eq_getElem hi) (List.getElem?_eq_getElem hj) heq
  omega

/-! ### the chain of a branch -/

/-- `c` lists the headers of the chain ending in branch `bi`, from genesis (height 0) to its tip. -/
def IsChain (ar : Arena) (bi : Nat) (c : List Hdr) : Prop :=
  ∃ b, ar[bi]? = some b ∧ (c.length : Int) = b.height + 1 ∧
    ∀ k : Nat, k < c.length → ∃ d, atH ar bi (k : Int) = some d ∧ c[k]? = some d.hdr

/-- in a repository reached by submissions from genesis every branch has its chain. -/
theorem isChain_exists (r : Repo) (hc : ChainWF r) (bi : Nat) (b : Branch) (hb : r.arena[bi]? = some b) :
    ∃ c, IsChain r.arena bi c := by
  have hl := hc.wf.link.each bi b hb
  have hge := parentHeight_ge r.arena hc.wf.link hc.root hc.owns bi b hb
  have hh := branch_height_eq b hl.off
  refine ⟨(List.range (b.height + 1).toNat).map (fun (k : Nat) => ((atH r.arena bi (k : Int)).map (·.hdr)).getD default),
    b, hb, by simp; omega, ?_⟩
  intro k hk
  simp only [List.length_map, List.length_range] at hk
  obtain ⟨d, hd⟩ := atH_complete r.arena hc.wf.link hc.root bi b hb (k : Int) (by omega) (by omega)
  refine ⟨d, hd, ?_⟩
  rw [List.getElem?_map, List.getElem?_range hk]
  simp [hd]

/-! ### the reorganisation theorem -/

/-- **a reorganisation announcement rebuilds the new best chain.** In a repository reached by
    submissions from genesis: when `reselect` switches the most-work branch and announces `evs`
    (at least one header), a subscriber holding the previous best chain `cOld` that applies `evs`
    (attach each header to its previous-block hash, discarding what was above it) holds exactly the
    new best chain `cNew`. -/
theorem reselect_reorg_stream (r : Repo) (hc : ChainWF r) (r2 : Repo) (evs : List Hdr)
    (h : reselect r = .ok (r2, true, evs)) (hne : evs ≠ [])
    (cOld cNew : List Hdr) (hold : IsChain r.arena r.longest cOld) (hnew : IsChain r.arena r2.longest cNew) :
    Spec.applyStream cOld evs = cNew := by
  have hw := hc.wf.link
  -- what reselect did
  unfold reselect at h
  cases hlg : longestOf r.arena r.branches with
  | none => rw [hlg] at h; cases h
  | some lg =>
    rw [hlg] at h
    simp only at h
    by_cases hneq : lg ≠ r.longest
    · simp only [hneq, ne_eq, not_false_eq_true, ↓reduceIte] at h
      cases hsb : sendBranchUpdate r lg r.longest with
      | mk evs' err =>
        rw [hsb] at h
        cases err with
        | some e => cases h
        | none =>
          simp only [Except.ok.injEq, Prod.mk.injEq, true_and] at h
          obtain ⟨hr2, hevs⟩ := h
          subst hevs
          have hl2 : r2.longest = lg := by rw [← hr2]
          rw [hl2] at hnew
          obtain ⟨bb, hbb, hlenN, hidxN⟩ := hnew
          obtain ⟨ob, hob, hlenO, hidxO⟩ := hold
          -- what sendBranchUpdate did
          unfold sendBranchUpdate at hsb
          cases hih : intersectHash r.arena r.fuel lg r.longest with
          | none => rw [hih] at hsb; cases hsb
          | some ih =>
            rw [hih] at hsb
            simp only at hsb
            cases hfind : r.find lg ih with
            | none => rw [hfind] at hsb; cases hsb
            | some bh =>
              rw [hfind] at hsb
              simp only at hsb
              -- the intersect is a common header at height m
              obtain ⟨cur, m, d, hd, hid, hb1, ho1⟩ := intersect_common r.arena hw hc.owns r.fuel lg r.longest ih bb ob hbb hob hih
              have hlgm : atH r.arena lg m = some d := by rw [← hb1 m (Int.le_refl _)]; exact hd
              have holdm : atH r.arena r.longest m = some d := by rw [← ho1 m (Int.le_refl _)]; exact hd
              obtain ⟨bj, _, hheld⟩ := atH_heldAt r.arena hw lg m d hlgm
              rw [hid] at hheld
              -- the height `Find` reports for it is m
              obtain ⟨own, bo, _, hbo, hg⟩ := bfind_owner r.arena hw.dec _ lg ih bh hfind
              obtain ⟨k0, d0, hk0, hid0, hh0⟩ := ((hc.wf.ids.exact own bo hbo) ih bh).mp hg
              have hbm : bh = m := (heldAt_unique r.arena r.branches hc.wf.ids own bj ih bh m ⟨bo, k0, d0, hbo, hk0, hid0, hh0⟩ hheld).2
              subst hbm
              -- 0 ≤ bh ≤ both tips
              have hm0 : 0 ≤ bh := by
                have := parentHeight_ge r.arena hw hc.root hc.owns own bo hbo
                omega
              obtain ⟨bb', hbb', hmN⟩ := atH_some_le_height r.arena hw lg bh d hlgm
              rw [hbb] at hbb'; simp only [Option.some.injEq] at hbb'; subst hbb'
              obtain ⟨ob', hob', hmO⟩ := atH_some_le_height r.arena hw r.longest bh d holdm
              rw [hob] at hob'; simp only [Option.some.injEq] at hob'; subst hob'
              -- the collected headers
              obtain ⟨l, hl, hllen, hlidx⟩ := collect_spec r lg _ _ [] evs' hsb
              simp only [List.reverse_nil, List.nil_append] at hl
              subst hl
              have hbrlg : r.br lg = bb := by unfold Repo.br; rw [hbb]; rfl
              rw [hbrlg] at hllen hlidx
              have hlgl : lg < r.arena.length := getElem?_lt _ _ _ hbb
              have hevidx : ∀ j : Nat, j < evs'.length →
                  ∃ dj, atH r.arena lg (bh + 1 + (j : Int)) = some dj ∧ evs'[j]? = some dj.hdr := by
                intro j hj
                obtain ⟨dj, hdj, hej⟩ := hlidx j (by rw [← hllen]; exact hj)
                rw [Repo.at_eq_atH r hw.dec lg hlgl] at hdj
                exact ⟨dj, hdj, hej⟩
              have hM : ((bh.toNat : Nat) : Int) = bh := by omega
              -- shape of the old chain
              have hMO : bh.toNat < cOld.length := by omega
              obtain ⟨dO, hdO, hcO⟩ := hidxO bh.toNat hMO
              rw [hM, holdm] at hdO
              simp only [Option.some.injEq] at hdO
              subst hdO
              have hsplitO := split_at cOld bh.toNat d.hdr hcO
              -- shape of the new chain
              have hMN : bh.toNat < cNew.length := by omega
              obtain ⟨dN, hdN, hcN⟩ := hidxN bh.toNat hMN
              rw [hM, hlgm] at hdN
              simp only [Option.some.injEq] at hdN
              subst hdN
              have hsplitN := split_at cNew bh.toNat d.hdr hcN
              have htake : cNew.take bh.toNat = cOld.take bh.toNat := by
                apply List.ext_getElem?
                intro i
                rw [List.getElem?_take, List.getElem?_take]
                by_cases hi : i < bh.toNat
                · simp only [hi, ↓reduceIte]
                  obtain ⟨a, ha, hca⟩ := hidxN i (by omega)
                  obtain ⟨b, hb, hcb⟩ := hidxO i (by omega)
                  rw [← hb1 (i : Int) (by omega)] at ha
                  rw [← ho1 (i : Int) (by omega), ha] at hb
                  simp only [Option.some.injEq] at hb
                  rw [hca, hcb, hb]
                · simp only [hi, ↓reduceIte]
              have hlenE : (evs'.length : Int) = bb.height - bh := by rw [hllen]; omega
              have hdrop : cNew.drop (bh.toNat + 1) = evs' := by
                apply List.ext_getElem?
                intro j
                rw [List.getElem?_drop]
                by_cases hj : j < evs'.length
                · obtain ⟨dj, hdj, hej⟩ := hevidx j hj
                  obtain ⟨a, ha, hca⟩ := hidxN (bh.toNat + 1 + j) (by omega)
                  have e1 : (((bh.toNat + 1 + j : Nat)) : Int) = bh + 1 + (j : Int) := by omega
                  rw [e1, hdj] at ha
                  simp only [Option.some.injEq] at ha
                  rw [hca, hej, ha]
                · rw [List.getElem?_eq_none (by omega), List.getElem?_eq_none (by omega)]
              rw [htake, hdrop] at hsplitN
              -- the stream is a linked chain hanging off the common header
              have hlink : Spec.Linked d.hdr evs' := by
                apply linked_of_idx
                · intro e he
                  have hpos : 0 < evs'.length := getElem?_lt _ _ _ he
                  obtain ⟨d1, hd1, he1⟩ := hevidx 0 hpos
                  rw [he] at he1
                  simp only [Option.some.injEq] at he1
                  rw [he1]
                  have e0 : bh + 1 + ((0 : Nat) : Int) - 1 = bh := by omega
                  exact atH_linked r.arena hw lg _ d1 d hd1 (by rw [e0]; exact hlgm)
                · intro j a b ha hb
                  obtain ⟨da, hda, hea⟩ := hevidx j (getElem?_lt _ _ _ ha)
                  obtain ⟨db, hdb, heb⟩ := hevidx (j + 1) (getElem?_lt _ _ _ hb)
                  rw [ha] at hea; rw [hb] at heb
                  simp only [Option.some.injEq] at hea heb
                  rw [hea, heb]
                  have e0 : bh + 1 + ((j + 1 : Nat) : Int) - 1 = bh + 1 + (j : Int) := by omega
                  exact atH_linked r.arena hw lg _ db da hdb (by rw [e0]; exact hda)
              -- no two headers of the new chain share an id
              have hnodup : (cNew.map (·.id)).Nodup := by
                apply nodup_of_idx_inj
                intro i j a b ha hb heq
                obtain ⟨da, hda, hca⟩ := hidxN i (getElem?_lt _ _ _ ha)
                obtain ⟨db, hdb, hcb⟩ := hidxN j (getElem?_lt _ _ _ hb)
                rw [ha] at hca; rw [hb] at hcb
                simp only [Option.some.injEq] at hca hcb
                obtain ⟨b1, _, hh1⟩ := atH_heldAt r.arena hw lg _ da hda
                obtain ⟨b2, _, hh2⟩ := atH_heldAt r.arena hw lg _ db hdb
                have e : da.hdr.id = db.hdr.id := by rw [← hca, ← hcb]; exact heq
                rw [e] at hh1
                have := (heldAt_unique r.arena r.branches hc.wf.ids b1 b2 _ _ _ hh1 hh2).2
                omega
              rw [hsplitN] at hnodup
              rw [hsplitN]
              have key := Spec.applyStream_reorg (cOld.take bh.toNat) d.hdr (cOld.drop (bh.toNat + 1)) evs' hlink hnodup hne
              rw [← hsplitO] at key
              exact key
    · simp only [hneq, ↓reduceIte, Except.ok.injEq, Prod.mk.injEq, Bool.false_eq_true, false_and, and_false] at h

end BRV.Repo
