/-
`IntersectHash` returns the LAST common header: right above it the two chains differ.
-/
import BRV.Proofs.RepoChain

namespace BRV.Repo

/-- the header at the first height of a branch is held by the branch itself. -/
theorem first_heldAt (ar : Arena) (hw : LinkWF ar) (c : Nat) (cb : Branch) (hc : ar[c]? = some cb) (d : HData)
    (h : atH ar c (cb.parentHeight + 1) = some d) : HeldAt ar c d.hdr.id (cb.parentHeight + 1) := by
  have hl := hw.each c cb hc
  rw [atH_unfold ar hw.dec c cb hc] at h
  have : cb.parentHeight + 1 > cb.parentHeight := by omega
  simp only [this, ↓reduceIte] at h
  unfold getI at h
  split at h
  · cases h
  · have hoff := hl.off
    exact ⟨cb, _, d, hc, h, rfl, by omega⟩

/-- a lookup above the branch's parent height is answered by the branch itself. -/
theorem own_heldAt (ar : Arena) (hw : LinkWF ar) (c : Nat) (cb : Branch) (hc : ar[c]? = some cb) (k : Int) (d : HData)
    (hk : cb.parentHeight < k) (h : atH ar c k = some d) : HeldAt ar c d.hdr.id k := by
  have hl := hw.each c cb hc
  rw [atH_unfold ar hw.dec c cb hc] at h
  have : k > cb.parentHeight := by omega
  simp only [this, ↓reduceIte] at h
  unfold getI at h
  split at h
  · cases h
  · have hoff := hl.off
    exact ⟨cb, _, d, hc, h, rfl, by omega⟩

/-- every entry of the ancestry list lies above the parent height of its branch. -/
theorem chainLinks_range (ar : Arena) (hw : LinkWF ar) (ho : OwnsWF ar) :
    ∀ (f start : Nat) (h0 : Int) (hash0 : Nat) (c : Branch), ar[start]? = some c → c.parentHeight < h0 →
      ∀ e ∈ chainLinks ar f start h0 hash0, ∃ cb, ar[e.1]? = some cb ∧ cb.parentHeight < e.2.1 := by
  intro f
  induction f with
  | zero => intro start h0 hash0 c _ _ e he; simp [chainLinks] at he
  | succ f ih =>
    intro start h0 hash0 c hc hlt e he
    unfold chainLinks at he
    rw [hc] at he
    simp only [List.mem_cons] at he
    rcases he with rfl | he
    · exact ⟨c, hc, hlt⟩
    · cases hpar : c.parent with
      | none => rw [hpar] at he; simp at he
      | some p =>
        rw [hpar] at he
        simp only at he
        obtain ⟨pbr, hp, hlt'⟩ := ho start c p hc hpar
        exact ih p c.parentHeight c.first.prev pbr hp hlt' e he

/-- right above an entry of the ancestry list, the chain of `tip` is held by the branch of an
    EARLIER entry (a branch closer to the tip). -/
theorem chainLinks_leave (ar : Arena) (hw : LinkWF ar) (ho : OwnsWF ar) (tip : Nat) :
    ∀ (f start : Nat) (h0 : Int) (hash0 : Nat) (c : Branch), ar[start]? = some c → c.parentHeight < h0 →
      (∀ k, k ≤ h0 → atH ar start k = atH ar tip k) →
      ∀ (l1 : List (Nat × Int × Nat)) (e : Nat × Int × Nat) (l2 : List (Nat × Int × Nat)),
        chainLinks ar f start h0 hash0 = l1 ++ e :: l2 → l1 ≠ [] →
        ∀ d, atH ar tip (e.2.1 + 1) = some d → ∃ e' ∈ l1, HeldAt ar e'.1 d.hdr.id (e.2.1 + 1) := by
  intro f
  induction f with
  | zero => intro start h0 hash0 c _ _ _ l1 e l2 heq; simp [chainLinks] at heq
  | succ f ih =>
    intro start h0 hash0 c hc hlt hsame l1 e l2 heq hne d hd
    unfold chainLinks at heq
    rw [hc] at heq
    cases l1 with
    | nil => exact absurd rfl hne
    | cons x l1' =>
      simp only [List.cons_append, List.cons.injEq] at heq
      obtain ⟨hx, htail⟩ := heq
      cases hpar : c.parent with
      | none => rw [hpar] at htail; simp at htail
      | some p =>
        rw [hpar] at htail
        simp only at htail
        obtain ⟨pbr, hp, hlt'⟩ := ho start c p hc hpar
        have hsame' : ∀ k, k ≤ c.parentHeight → atH ar p k = atH ar tip k := by
          intro k hk
          rw [← hsame k (by omega), atH_unfold ar hw.dec start c hc]
          have : ¬ (k > c.parentHeight) := by omega
          simp only [this, ↓reduceIte, hpar]
        cases l1' with
        | nil =>
          -- `e` is the head of the parent's list: the chain enters `start` right above
          cases f with
          | zero => simp [chainLinks] at htail
          | succ f' =>
            unfold chainLinks at htail
            rw [hp] at htail
            simp only [List.nil_append, List.cons.injEq] at htail
            obtain ⟨he, _⟩ := htail
            subst he
            simp only at hd ⊢
            rw [← hsame (c.parentHeight + 1) (by omega)] at hd
            exact ⟨x, by simp, by rw [← hx]; exact first_heldAt ar hw start c hc d hd⟩
        | cons y l1'' =>
          obtain ⟨e', he', hheld⟩ := ih p c.parentHeight c.first.prev pbr hp hlt' hsame' (y :: l1'') e l2 htail
            (by simp) d hd
          exact ⟨e', List.mem_cons_of_mem _ he', hheld⟩

/-- **the intersect is the LAST common header.** With the common header at height `m` (as in
    `intersect_common`), the headers of the two chains at height `m + 1`, when both exist, differ. -/
theorem intersect_last (ar : Arena) (hw : LinkWF ar) (ho : OwnsWF ar) (bs : List Nat) (hi : IdWF ar bs)
    (f b other ih : Nat) (bb ob : Branch)
    (hb : ar[b]? = some bb) (hob : ar[other]? = some ob) (hne : b ≠ other)
    (h : intersectHash ar f b other = some ih) :
    ∃ (m : Int) (d : HData), atH ar b m = some d ∧ atH ar other m = some d ∧ d.hdr.id = ih ∧
      ∀ (x y : HData), atH ar b (m + 1) = some x → atH ar other (m + 1) = some y → x.hdr.id ≠ y.hdr.id := by
  -- facts about the two ancestry lists, for whatever start values the model computes
  have hspec : ∀ (x : Nat) (xb : Branch), ar[x]? = some xb → ∀ hash0 : Nat,
      (∀ l, xb.last? = some l → hash0 = l.hdr.id) → ∀ (L : List (Nat × Int × Nat)),
      chainLinks ar f x xb.height hash0 = L →
      (∀ e ∈ L,
        (∀ k, k ≤ e.2.1 → atH ar e.1 k = atH ar x k) ∧ (∃ d, atH ar e.1 e.2.1 = some d ∧ d.hdr.id = e.2.2)) ∧
      (∀ e ∈ L, ∃ cb, ar[e.1]? = some cb ∧ cb.parentHeight < e.2.1) ∧
      (∀ l1 e l2, L = l1 ++ e :: l2 →
        ∀ d, atH ar x (e.2.1 + 1) = some d → l1 ≠ [] ∧ ∃ e' ∈ l1, HeldAt ar e'.1 d.hdr.id (e.2.1 + 1)) := by
    intro x xb hx hash0 hh0 L hL
    subst hL
    have hl := hw.each x xb hx
    have hne0 : xb.headers.length ≠ 0 := by
      intro h0; exact hl.nonempty (List.length_eq_zero_iff.mp h0)
    have hht : xb.parentHeight < xb.height := by rw [branch_height_eq xb hl.off]; omega
    cases hlast : xb.last? with
    | none =>
      unfold Branch.last? at hlast
      rw [List.getLast?_eq_none_iff] at hlast
      exact absurd hlast hl.nonempty
    | some l =>
      rw [hh0 l hlast]
      refine ⟨chainLinks_spec ar hw ho x f x xb.height l.hdr.id xb hx (by omega) (fun k _ => rfl)
        ⟨l, atH_tip ar hw x xb hx l hlast, rfl⟩, chainLinks_range ar hw ho f x xb.height l.hdr.id xb hx hht, ?_⟩
      intro l1 e l2 heq d hd
      have hl1 : l1 ≠ [] := by
        intro h0
        subst h0
        -- `e` is the head: height of the tip, nothing above
        cases f with
        | zero => simp [chainLinks] at heq
        | succ f' =>
          unfold chainLinks at heq
          rw [hx] at heq
          simp only [List.nil_append, List.cons.injEq] at heq
          obtain ⟨he, _⟩ := heq
          subst he
          simp only at hd
          obtain ⟨xb', hxb', hle⟩ := atH_some_le_height ar hw x _ d hd
          rw [hx] at hxb'; simp only [Option.some.injEq] at hxb'; subst hxb'
          omega
      exact ⟨hl1, chainLinks_leave ar hw ho x f x xb.height l.hdr.id xb hx hht (fun k _ => rfl) l1 e l2 heq hl1 d hd⟩
  unfold intersectHash at h
  simp only [hb, hob] at h
  rw [List.findSome?_eq_some_iff] at h
  obtain ⟨l1, e, l2, hsplit, hfe, hnone⟩ := h
  obtain ⟨cur, hh, hash⟩ := e
  have hxb := fun hside => hspec b bb hb _ hside _ hsplit
  obtain ⟨hb_spec, hb_range, hb_leave⟩ := hxb (by intro l hl; rw [hl])
  have hmemb : (cur, hh, hash) ∈ l1 ++ (cur, hh, hash) :: l2 := List.mem_append_right _ (List.mem_cons_self ..)
  obtain ⟨hb1, db, hdb, hidb⟩ := hb_spec _ hmemb
  obtain ⟨cb, hcb, hcbr⟩ := hb_range _ hmemb
  simp only at hfe hb1 hdb hidb hcb hcbr
  split at hfe
  · rename_i c2 oh ohash hfind
    simp only [Option.some.injEq] at hfe
    rw [List.find?_eq_some_iff_append] at hfind
    obtain ⟨hc2, o1, o2, hosplit, ho1none⟩ := hfind
    have hc2' : c2 = cur := by simpa using hc2
    subst hc2'
    have hxo := fun hside => hspec other ob hob _ hside _ hosplit
    obtain ⟨ho_spec, ho_range, ho_leave⟩ := hxo (by intro l hl; rw [hl])
    have hmemo : (c2, oh, ohash) ∈ o1 ++ (c2, oh, ohash) :: o2 := List.mem_append_right _ (List.mem_cons_self ..)
    obtain ⟨ho1, dob, hdo, hido⟩ := ho_spec _ hmemo
    obtain ⟨cb2, hcb2, hcbr2⟩ := ho_range _ hmemo
    simp only at ho1 hdo hido hcb2 hcbr2
    rw [hcb] at hcb2; simp only [Option.some.injEq] at hcb2; subst hcb2
    -- entries before `cur` in the first list have no partner in the second
    have hl1none : ∀ e' ∈ l1, ∀ y ∈ (o1 ++ (c2, oh, ohash) :: o2), y.1 ≠ e'.1 := by
      intro e' he' y hy heq
      have := hnone e' he'
      split at this
      · cases this
      · rename_i hfn
        rw [List.find?_eq_none] at hfn
        rw [hosplit] at hfn
        exact hfn y hy (by simp [heq])
    have ho1ne : ∀ y ∈ o1, y.1 ≠ c2 := by
      intro y hy heq
      have := ho1none y hy
      simp [heq] at this
    by_cases hlt : oh < hh
    · simp only [hlt, ↓reduceIte] at hfe
      subst hfe
      refine ⟨oh, dob, by rw [← hb1 oh (by omega)]; exact hdo, by rw [← ho1 oh (Int.le_refl _)]; exact hdo, hido, ?_⟩
      intro x y hx hy heq
      rw [← hb1 (oh + 1) (by omega)] at hx
      have hxheld := own_heldAt ar hw c2 cb hcb (oh + 1) x (by omega) hx
      obtain ⟨_, e'', he'', hyheld⟩ := ho_leave o1 (c2, oh, ohash) o2 rfl y hy
      rw [heq] at hxheld
      have := (heldAt_unique ar bs hi c2 e''.1 _ _ _ hxheld hyheld).1
      exact ho1ne e'' he'' this.symm
    · simp only [hlt, ↓reduceIte] at hfe
      subst hfe
      refine ⟨hh, db, by rw [← hb1 hh (Int.le_refl _)]; exact hdb, by rw [← ho1 hh (by omega)]; exact hdb, hidb, ?_⟩
      intro x y hx hy heq
      obtain ⟨_, e', he', hxheld⟩ := hb_leave l1 (c2, hh, hash) l2 rfl x hx
      by_cases heq2 : hh = oh
      · subst heq2
        obtain ⟨_, e'', he'', hyheld⟩ := ho_leave o1 (c2, hh, ohash) o2 rfl y hy
        rw [heq] at hxheld
        have := (heldAt_unique ar bs hi e'.1 e''.1 _ _ _ hxheld hyheld).1
        exact hl1none e' he' e'' (List.mem_append_left _ he'') this.symm
      · rw [← ho1 (hh + 1) (by omega)] at hy
        have hyheld := own_heldAt ar hw c2 cb hcb (hh + 1) y (by omega) hy
        rw [heq] at hxheld
        have := (heldAt_unique ar bs hi e'.1 c2 _ _ _ hxheld hyheld).1
        exact hl1none e' he' (c2, oh, ohash) (List.mem_append_right _ (List.mem_cons_self ..)) this.symm
  · cases hfe

end BRV.Repo
