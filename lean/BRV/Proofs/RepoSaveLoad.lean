/-
Save followed by Load on a linear chain (a repository reached by submissions that holds a single
branch): what was written, what is read back, and that every observation is preserved — also when
Load prunes and the history comes back from the main-chain files.
-/
import BRV.Proofs.RepoFiles

namespace BRV.Repo

/-- the setting: reached by submissions from genesis, one branch, nothing in storage yet. -/
structure Linear (r : Repo) : Prop where
  wf : StreamWF r
  hc : HeightsComplete r
  one : r.arena.length = 1
  root : r.longest = 0
  store : r.store = {}
  gen : ∀ d, (r.br 0).headers[0]? = some d → r.cfg.genesisId = d.hdr.id

theorem linear_facts (r : Repo) (hl : Linear r) :
    r.arena = [r.br 0] ∧ r.branches = [0] ∧ (r.br 0).parent = none ∧ (r.br 0).parentHeight = -1 ∧
    (r.br 0).offset = 1 ∧ (r.br 0).headers ≠ [] ∧ (∀ d, (r.br 0).headers.head? = some d → d.hdr = (r.br 0).first) := by
  have hw := hl.wf.chain.wf.link
  have hlen : 0 < r.arena.length := by rw [hl.one]; omega
  have hb0 : r.arena[0]? = some (r.br 0) := by
    unfold Repo.br; rw [List.getElem?_eq_getElem hlen]; rfl
  have hl0 := hw.each 0 _ hb0
  have hpar0 : (r.br 0).parent = none := by
    cases hp : (r.br 0).parent with
    | none => rfl
    | some p => have := hw.dec 0 _ hb0 p hp; omega
  refine ⟨?_, ?_, hpar0, hl.wf.chain.root 0 _ hb0 hpar0, hl0.off, hl0.nonempty, hl0.firstIs⟩
  · apply List.ext_getElem?
    intro i
    cases i with
    | zero => simpa using hb0
    | succ n => rw [List.getElem?_eq_none (by rw [hl.one]; omega)]; simp
  · obtain ⟨t, ht⟩ := sorted_head_zero r.branches hl.wf.chain.wf.list.sorted (hl.wf.chain.wf.ids.listed 0 hlen)
    rw [ht]
    cases t with
    | nil => rfl
    | cons x t' =>
      have hx := hl.wf.chain.wf.list.valid x (by rw [ht]; simp)
      have hs := hl.wf.chain.wf.list.sorted
      rw [ht, List.pairwise_cons] at hs
      have := hs.1 x (by simp)
      rw [hl.one] at hx
      omega

/-- the branch file `Save` writes for the root branch. -/
def rootFile (b : Branch) : BranchFile :=
  { first := b.first, parentHeight := b.parentHeight, offset := b.offset, headers := b.headers }

/-- **what `Save` writes for a linear chain**: the exact main-chain files, one branch file, the
    index naming it, the invalid list — and it succeeds. -/
theorem save_linear (r : Repo) (hl : Linear r) :
    ∃ rs : Repo, save r = (rs, none) ∧
      FilesExact rs.store.main (r.br 0).headers ((r.br 0).headers.length / H + 1) ∧
      rs.store.branches = [((r.br 0).first.id, rootFile (r.br 0))] ∧
      rs.store.index = some [(r.br 0).first.id] ∧ rs.store.invalid = some r.invalid ∧
      rs.cfg = r.cfg ∧ rs.disableDifficulty = r.disableDifficulty ∧ rs.disableSplit = r.disableSplit := by
  obtain ⟨har, hbr, hpar, hph, hoff, hne, hfirst⟩ := linear_facts r hl
  have hcons : consolidate r = .ok r := by
    apply C10_consolidate_noop_aux
    rw [hbr, hl.root]
    simp [hph]
  -- saveMainBranch never fails on an unpruned branch
  obtain ⟨r2, hsm⟩ : ∃ r2, saveMainBranch r = .ok r2 := by
    unfold saveMainBranch
    simp only
    have hno : ¬ ((r.br r.longest).offset ≠ 1 ∧
        (r.br r.longest).prunedLowest - Int.tdiv (r.br r.longest).prunedLowest hpf * hpf > 0) := by
      intro hh; rw [hl.root] at hh; exact hh.1 hoff
    simp only [hno, ↓reduceIte]
    exact ⟨_, rfl⟩
  obtain ⟨hex, hsb, hsi, hsv, hdd, hds⟩ := saveMain_exact r r2 (by rw [hl.root]; exact hph) (by rw [hl.root]; exact hoff) hsm
  obtain ⟨h2a, h2b, h2l, h2h, h2i, h2c⟩ := saveMain_frame r r2 hsm
  rw [hl.root] at hex
  have hbr2 : r2.br 0 = r.br 0 := by unfold Repo.br; rw [h2a]
  have hstore : r.store.branches = [] ∧ r.store.index = none ∧ r.store.invalid = none := by
    rw [hl.store]; exact ⟨rfl, rfl, rfl⟩
  unfold save
  rw [hcons]
  simp only [hsm]
  unfold saveBranches
  rw [h2b, hbr]
  simp only [saveBranches.go, hbr2]
  unfold branchSave
  rw [hsb, hstore.1]
  simp only [List.lookup, List.map_cons, List.map_nil]
  refine ⟨_, rfl, ?_, ?_, ?_, ?_, ?_, ?_, ?_⟩
  · simp only [saveInvalid, Repo.emit, Store.apply]; exact hex
  · simp only [saveInvalid, Repo.emit, Store.apply, assocSet, hsb, hstore.1, rootFile, List.filter_nil]
  · simp only [saveInvalid, Repo.emit, Store.apply, hbr2]
  · simp only [saveInvalid, Repo.emit, Store.apply, h2i]
  · simp only [saveInvalid, Repo.emit]; exact h2c
  · simp only [saveInvalid, Repo.emit]; exact hdd
  · simp only [saveInvalid, Repo.emit]; exact hds

/-! ### `Load` of a one-branch store -/

/-- the branch `Load` builds from the root branch file, pruned to the load depth. -/
def loadedRoot (b : Branch) (depth : Int) : Branch :=
  let bof := branchOfFile (rootFile b)
  if bof.prunedLowest ≤ bof.height - depth then pruneBranch bof (bof.height - depth - bof.prunedLowest) else bof

/-- the repository `Load` has built before it reads the historical heights. -/
def loadedBase (rs : Repo) (b : Branch) (depth : Int) : Repo :=
  { arena := [loadedRoot b depth], branches := [0], longest := 0,
    heights := ((loadedRoot b depth).headers.zipIdx).foldl
      (fun m (d, i) => HMap.set m d.hdr.id ((loadedRoot b depth).prunedLowest + (i : Int))) [(rs.cfg.genesisId, 0)],
    invalid := mergedInvalid rs.store rs.cfg, store := rs.store, cfg := rs.cfg,
    disableDifficulty := rs.disableDifficulty, disableSplit := rs.disableSplit, events := [] }

theorem loadedRoot_last (b : Branch) (depth : Int) (hne : b.headers ≠ []) (hph : b.parentHeight = -1)
    (hoff : b.offset = 1) (hd : 0 ≤ depth) : ∃ l, (loadedRoot b depth).last? = some l := by
  unfold loadedRoot
  simp only
  have hL : 0 < b.headers.length := List.length_pos_iff.mpr hne
  split
  · unfold pruneBranch branchOfFile rootFile Branch.height Branch.prunedLowest
    simp only [hph, hoff]
    split
    · unfold Branch.last?
      simp only
      cases hg : b.headers.getLast? with
      | none => rw [List.getLast?_eq_none_iff] at hg; exact absurd hg hne
      | some l => exact ⟨l, rfl⟩
    · rename_i hn
      unfold Branch.last?
      simp only
      rw [List.getLast?_drop]
      have : ¬ (b.headers.length ≤ (-1 + 1 + ↑b.headers.length - 1 - depth - (-1 + 1) : Int).toNat) := by omega
      simp only [this, ↓reduceIte]
      cases hg : b.headers.getLast? with
      | none => rw [List.getLast?_eq_none_iff] at hg; exact absurd hg hne
      | some l => exact ⟨l, rfl⟩
  · unfold branchOfFile rootFile Branch.last?
    simp only
    cases hg : b.headers.getLast? with
    | none => rw [List.getLast?_eq_none_iff] at hg; exact absurd hg hne
    | some l => exact ⟨l, rfl⟩

/-- **what `Load` builds from a one-branch store** (before the historical heights are read). -/
theorem load_linear_shape (rs : Repo) (b : Branch) (depth : Int) (g : Hdr)
    (hidx : rs.store.index = some [b.first.id]) (hbrs : rs.store.branches = [(b.first.id, rootFile b)])
    (hph : b.parentHeight = -1) (hoff : b.offset = 1) (hne : b.headers ≠ []) (hd : 0 ≤ depth) :
    load rs depth g = match loadHistorical (loadedBase rs b depth) with
      | .error e => (loadedBase rs b depth, some e)
      | .ok r3 => (r3, none) := by
  obtain ⟨l, hlast⟩ := loadedRoot_last b depth hne hph hoff hd
  have hbofph : (branchOfFile (rootFile b)).parentHeight = -1 := hph
  unfold load
  simp only [freshRepo, hidx, List.isEmpty_cons, Bool.false_eq_true, ↓reduceIte, loadRead, hbrs, List.lookup, BEq.rfl,
    List.nil_append, List.head?_cons, List.length_cons, List.length_nil, List.map_cons, List.map_nil]
  have hkeep0 : decide ((branchOfFile (rootFile b)).height ≥ (branchOfFile (rootFile b)).height - depth) = true := by
    simp only [decide_eq_true_eq]; omega
  rw [hkeep0]
  have hkf : loadKeepFix (0 + 1) [branchOfFile (rootFile b)] [true] = [true] := by
    simp [loadKeepFix, loadKeepStep]
  rw [hkf]
  have hph' : loadPruneHeight [branchOfFile (rootFile b)] [true] ((branchOfFile (rootFile b)).height - depth)
      = (branchOfFile (rootFile b)).height - depth := by
    simp [loadPruneHeight, hbofph]
  rw [hph']
  simp only [loadPlace, List.zip_cons_cons, List.zip_nil_right, List.foldl_cons, List.foldl_nil, loadPlaceStep,
    Bool.not_true, Bool.false_eq_true, ↓reduceIte, List.nil_append, List.length_nil, List.isEmpty_cons]
  have hroot : (if (branchOfFile (rootFile b)).prunedLowest ≤ (branchOfFile (rootFile b)).height - depth then
      pruneBranch (branchOfFile (rootFile b)) ((branchOfFile (rootFile b)).height - depth - (branchOfFile (rootFile b)).prunedLowest)
      else branchOfFile (rootFile b)) = loadedRoot b depth := rfl
  simp only [hroot]
  have hlong : longestOf [loadedRoot b depth] [0] = some 0 := by
    simp [longestOf, longestOf.go, hlast]
  rw [hlong]
  simp only [sortByPH, List.foldl_cons, List.foldl_nil, insertByPH]
  have hlph : (loadedRoot b depth).parentHeight = -1 := by
    unfold loadedRoot
    simp only
    split
    · unfold pruneBranch; split <;> exact hph
    · exact hph
  unfold loadLinkStep Repo.br
  simp only [List.getElem?_cons_zero, Option.getD_some, hlph, ↓reduceIte, List.nil_append]
  rfl

end BRV.Repo
