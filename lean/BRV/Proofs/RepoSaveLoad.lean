/-
Save followed by Load on a linear chain (a repository reached by submissions that holds a single
branch): what was written, what is read back, and that every observation is preserved — also when
Load prunes and the history comes back from the main-chain files.
-/
import BRV.Proofs.RepoFiles

namespace BRV.Repo

/-- the setting: reached by submissions from genesis, one branch, nothing in storage yet. -/
structure Linear (r : Repo) : Prop where
  wf : StreamWF r
  hc : HeightsComplete r
  one : r.arena.length = 1
  root : r.longest = 0
  store : r.store = {}
  gen : ∀ d, (r.br 0).headers[0]? = some d → r.cfg.genesisId = d.hdr.id

theorem linear_facts (r : Repo) (hl : Linear r) :
    r.arena = [r.br 0] ∧ r.branches = [0] ∧ (r.br 0).parent = none ∧ (r.br 0).parentHeight = -1 ∧
    (r.br 0).offset = 1 ∧ (r.br 0).headers ≠ [] ∧ (∀ d, (r.br 0).headers.head? = some d → d.hdr = (r.br 0).first) := by
  have hw := hl.wf.chain.wf.link
  have hlen : 0 < r.arena.length := by rw [hl.one]; omega
  have hb0 : r.arena[0]? = some (r.br 0) := by
    unfold Repo.br; rw [List.getElem?_eq_getElem hlen]; rfl
  have hl0 := hw.each 0 _ hb0
  have hpar0 : (r.br 0).parent = none := by
    cases hp : (r.br 0).parent with
    | none => rfl
    | some p => have := hw.dec 0 _ hb0 p hp; omega
  refine ⟨?_, ?_, hpar0, hl.wf.chain.root 0 _ hb0 hpar0, hl0.off, hl0.nonempty, hl0.firstIs⟩
  · apply List.ext_getElem?
    intro i
    cases i with
    | zero => simpa using hb0
    | succ n => rw [List.getElem?_eq_none (by rw [hl.one]; omega)]; simp
  · obtain ⟨t, ht⟩ := sorted_head_zero r.branches hl.wf.chain.wf.list.sorted (hl.wf.chain.wf.ids.listed 0 hlen)
    rw [ht]
    cases t with
    | nil => rfl
    | cons x t' =>
      have hx := hl.wf.chain.wf.list.valid x (by rw [ht]; simp)
      have hs := hl.wf.chain.wf.list.sorted
      rw [ht, List.pairwise_cons] at hs
      have := hs.1 x (by simp)
      rw [hl.one] at hx
      omega

/-- the branch file `Save` writes for the root branch. -/
def rootFile (b : Branch) : BranchFile :=
  { first := b.first, parentHeight := b.parentHeight, offset := b.offset, headers := b.headers }

/-- **what `Save` writes for a linear chain**: the exact main-chain files, one branch file, the
    index naming it, the invalid list — and it succeeds. -/
theorem save_linear (r : Repo) (hl : Linear r) :
    ∃ rs : Repo, save r = (rs, none) ∧
      FilesExact rs.store.main (r.br 0).headers ((r.br 0).headers.length / H + 1) ∧
      rs.store.branches = [((r.br 0).first.id, rootFile (r.br 0))] ∧
      rs.store.index = some [(r.br 0).first.id] ∧ rs.store.invalid = some r.invalid ∧
      rs.cfg = r.cfg ∧ rs.disableDifficulty = r.disableDifficulty ∧ rs.disableSplit = r.disableSplit := by
  obtain ⟨har, hbr, hpar, hph, hoff, hne, hfirst⟩ := linear_facts r hl
  have hcons : consolidate r = .ok r := by
    apply C10_consolidate_noop_aux
    rw [hbr, hl.root]
    simp [hph]
  -- saveMainBranch never fails on an unpruned branch
  obtain ⟨r2, hsm⟩ : ∃ r2, saveMainBranch r = .ok r2 := by
    unfold saveMainBranch saveMainStart
    simp only
    have hno : ¬ ((r.br r.longest).offset ≠ 1 ∧
        (r.br r.longest).prunedLowest - Int.tdiv (r.br r.longest).prunedLowest hpf * hpf > 0) := by
      intro hh; rw [hl.root] at hh; exact hh.1 hoff
    simp only [hno, ↓reduceIte]
    exact ⟨_, rfl⟩
  obtain ⟨hex, hsb, hsi, hsv, hdd, hds⟩ := saveMain_exact r r2 (by rw [hl.root]; exact hph) (by rw [hl.root]; exact hoff) hsm
  obtain ⟨h2a, h2b, h2l, h2h, h2i, h2c⟩ := saveMain_frame r r2 hsm
  rw [hl.root] at hex
  have hbr2 : r2.br 0 = r.br 0 := by unfold Repo.br; rw [h2a]
  have hstore : r.store.branches = [] ∧ r.store.index = none ∧ r.store.invalid = none := by
    rw [hl.store]; exact ⟨rfl, rfl, rfl⟩
  unfold save
  rw [hcons]
  simp only [hsm]
  unfold saveBranches
  rw [h2b, hbr]
  simp only [saveBranches.go, hbr2]
  unfold branchSave
  rw [hsb, hstore.1]
  simp only [List.lookup, List.map_cons, List.map_nil]
  refine ⟨_, rfl, ?_, ?_, ?_, ?_, ?_, ?_, ?_⟩
  · simp only [saveInvalid, Repo.emit, Store.apply]; exact hex
  · simp only [saveInvalid, Repo.emit, Store.apply, assocSet, hsb, hstore.1, rootFile, List.filter_nil]
  · simp only [saveInvalid, Repo.emit, Store.apply, hbr2]
  · simp only [saveInvalid, Repo.emit, Store.apply, h2i]
  · simp only [saveInvalid, Repo.emit]; exact h2c
  · simp only [saveInvalid, Repo.emit]; exact hdd
  · simp only [saveInvalid, Repo.emit]; exact hds

/-! ### `Load` of a one-branch store -/

/-- the branch `Load` builds from the root branch file, pruned to the load depth. -/
def loadedRoot (b : Branch) (depth : Int) : Branch :=
  let bof := branchOfFile (rootFile b)
  if bof.prunedLowest ≤ bof.height - depth then pruneBranch bof (bof.height - depth - bof.prunedLowest) else bof

/-- the repository `Load` has built before it reads the historical heights. -/
def loadedBase (rs : Repo) (b : Branch) (depth : Int) : Repo :=
  { arena := [loadedRoot b depth], branches := [0], longest := 0,
    heights := ((loadedRoot b depth).headers.zipIdx).foldl
      (fun m (d, i) => HMap.set m d.hdr.id ((loadedRoot b depth).prunedLowest + (i : Int))) [(rs.cfg.genesisId, 0)],
    invalid := mergedInvalid rs.store rs.cfg, store := rs.store, cfg := rs.cfg,
    disableDifficulty := rs.disableDifficulty, disableSplit := rs.disableSplit, events := [] }

theorem loadedRoot_last (b : Branch) (depth : Int) (hne : b.headers ≠ []) (hph : b.parentHeight = -1)
    (hoff : b.offset = 1) (hd : 0 ≤ depth) : ∃ l, (loadedRoot b depth).last? = some l := by
  unfold loadedRoot
  simp only
  have hL : 0 < b.headers.length := List.length_pos_iff.mpr hne
  split
  · unfold pruneBranch branchOfFile rootFile Branch.height Branch.prunedLowest
    simp only [hph, hoff]
    split
    · unfold Branch.last?
      simp only
      cases hg : b.headers.getLast? with
      | none => rw [List.getLast?_eq_none_iff] at hg; exact absurd hg hne
      | some l => exact ⟨l, rfl⟩
    · rename_i hn
      unfold Branch.last?
      simp only
      rw [List.getLast?_drop]
      have : ¬ (b.headers.length ≤ (-1 + 1 + ↑b.headers.length - 1 - depth - (-1 + 1) : Int).toNat) := by omega
      simp only [this, ↓reduceIte]
      cases hg : b.headers.getLast? with
      | none => rw [List.getLast?_eq_none_iff] at hg; exact absurd hg hne
      | some l => exact ⟨l, rfl⟩
  · unfold branchOfFile rootFile Branch.last?
    simp only
    cases hg : b.headers.getLast? with
    | none => rw [List.getLast?_eq_none_iff] at hg; exact absurd hg hne
    | some l => exact ⟨l, rfl⟩

/-- **what `Load` builds from a one-branch store** (before the historical heights are read). -/
theorem load_linear_shape (rs : Repo) (b : Branch) (depth : Int) (g : Hdr)
    (hidx : rs.store.index = some [b.first.id]) (hbrs : rs.store.branches = [(b.first.id, rootFile b)])
    (hph : b.parentHeight = -1) (hoff : b.offset = 1) (hne : b.headers ≠ []) (hd : 0 ≤ depth) :
    load rs depth g = match loadHistorical (loadedBase rs b depth) with
      | .error e => (loadedBase rs b depth, some e)
      | .ok r3 => (r3, none) := by
  obtain ⟨l, hlast⟩ := loadedRoot_last b depth hne hph hoff hd
  have hbofph : (branchOfFile (rootFile b)).parentHeight = -1 := hph
  unfold load loadFinish
  simp only [freshRepo, hidx, List.isEmpty_cons, Bool.false_eq_true, ↓reduceIte, loadRead, hbrs, List.lookup, BEq.rfl,
    List.nil_append, List.head?_cons, List.length_cons, List.length_nil, List.map_cons, List.map_nil]
  have hkeep0 : decide ((branchOfFile (rootFile b)).height ≥ (branchOfFile (rootFile b)).height - depth) = true := by
    simp only [decide_eq_true_eq]; omega
  rw [hkeep0]
  have hkf : loadKeepFix (0 + 1) [branchOfFile (rootFile b)] [true] = [true] := by
    simp [loadKeepFix, loadKeepStep]
  rw [hkf]
  have hph' : loadPruneHeight [branchOfFile (rootFile b)] [true] ((branchOfFile (rootFile b)).height - depth)
      = (branchOfFile (rootFile b)).height - depth := by
    simp [loadPruneHeight, hbofph]
  rw [hph']
  simp only [loadPlace, List.zip_cons_cons, List.zip_nil_right, List.foldl_cons, List.foldl_nil, loadPlaceStep,
    Bool.not_true, Bool.false_eq_true, ↓reduceIte, List.nil_append, List.length_nil, List.isEmpty_cons]
  have hroot : (if (branchOfFile (rootFile b)).prunedLowest ≤ (branchOfFile (rootFile b)).height - depth then
      pruneBranch (branchOfFile (rootFile b)) ((branchOfFile (rootFile b)).height - depth - (branchOfFile (rootFile b)).prunedLowest)
      else branchOfFile (rootFile b)) = loadedRoot b depth := rfl
  simp only [hroot]
  simp only [sortByPH, List.foldl_cons, List.foldl_nil, insertByPH]
  have hlph : (loadedRoot b depth).parentHeight = -1 := by
    unfold loadedRoot
    simp only
    split
    · unfold pruneBranch; split <;> exact hph
    · exact hph
  unfold loadLinkStep Repo.br
  simp only [List.getElem?_cons_zero, Option.getD_some, hlph, ↓reduceIte, List.nil_append, List.isEmpty_cons,
    Bool.false_eq_true]
  have hlong : longestOf [loadedRoot b depth] [0] = some 0 := by
    simp [longestOf, longestOf.go, hlast]
  rw [hlong]
  rfl

end BRV.Repo

namespace BRV.Repo

/-! ### height maps built by folding `set` over a header list -/

/-- folding `set id ↦ base + index` over headers with pairwise distinct ids: a listed id gets its
    position, an unlisted one keeps what it had. -/
theorem get?_foldl_zipIdx (hs : List HData) (hnd : (hs.map (·.hdr.id)).Nodup) (base : Int) (n : Nat) (m0 : HMap) (id : Nat) :
    ((hs.zipIdx n).foldl (fun m (x : HData × Nat) => HMap.set m x.1.hdr.id (base + (x.2 : Int))) m0).get? id =
      match hs.findIdx? (fun d => d.hdr.id == id) with
      | some k => some (base + ((n + k : Nat) : Int))
      | none => m0.get? id := by
  induction hs generalizing n m0 with
  | nil => simp
  | cons d rest ih =>
    simp only [List.zipIdx_cons, List.foldl_cons, List.findIdx?_cons]
    simp only [List.map_cons, List.nodup_cons] at hnd
    rw [ih hnd.2]
    by_cases hd : d.hdr.id = id
    · have hb : (d.hdr.id == id) = true := by simpa using hd
      simp only [hb, ↓reduceIte]
      -- the id does not occur in the rest
      have hnone : rest.findIdx? (fun d => d.hdr.id == id) = none := by
        rw [List.findIdx?_eq_none_iff]
        intro x hx
        have : x.hdr.id ≠ d.hdr.id := by
          intro he
          exact hnd.1 (List.mem_map.mpr ⟨x, hx, he⟩)
        simpa [hd] using this
      rw [hnone]
      simp only [HMap.get?_set, hd, ↓reduceIte, Nat.add_zero]
    · have hb : (d.hdr.id == id) = false := by simpa using hd
      simp only [hb, Bool.false_eq_true, ↓reduceIte]
      cases hf : rest.findIdx? (fun d => d.hdr.id == id) with
      | none =>
        simp only [Option.map_none, HMap.get?_set]
        have : id ≠ d.hdr.id := fun h => hd h.symm
        simp only [this, ↓reduceIte]
      | some k =>
        simp only [Option.map_some]
        congr 2
        omega

theorem findIdx?_id_some (hs : List HData) (id k : Nat) (d : HData) (hnd : (hs.map (·.hdr.id)).Nodup)
    (hk : hs[k]? = some d) (hid : d.hdr.id = id) : hs.findIdx? (fun d => d.hdr.id == id) = some k := by
  rw [List.findIdx?_eq_some_iff_getElem]
  have hlt : k < hs.length := getElem?_lt _ _ _ hk
  refine ⟨hlt, ?_, ?_⟩
  · have : hs[k] = d := by
      have := List.getElem?_eq_getElem hlt
      rw [hk] at this
      exact (Option.some.inj this).symm
    simp [this, hid]
  · intro j hj
    have hjlt : j < hs.length := by omega
    simp only [Bool.not_eq_true, beq_eq_false_iff_ne, ne_eq]
    intro he
    -- two positions with the same id
    have hj' : j < (hs.map (·.hdr.id)).length := by simpa using hjlt
    have hk' : k < (hs.map (·.hdr.id)).length := by simpa using hlt
    have hkd : hs[k] = d := by
      have := List.getElem?_eq_getElem hlt
      rw [hk] at this
      exact (Option.some.inj this).symm
    have heq : (hs.map (·.hdr.id))[j] = (hs.map (·.hdr.id))[k] := by
      simp only [List.getElem_map, he, hkd, hid]
    have := (List.getElem_inj (h₀ := hj') (h₁ := hk') hnd).mp heq
    omega

theorem findIdx?_id_none (hs : List HData) (id : Nat) (h : ∀ (k : Nat) (d : HData), hs[k]? = some d → d.hdr.id ≠ id) :
    hs.findIdx? (fun d => d.hdr.id == id) = none := by
  rw [List.findIdx?_eq_none_iff]
  intro x hx
  obtain ⟨k, hk⟩ := List.getElem?_of_mem hx
  simpa using h k x hk

/-! ### `loadHistoricalHashHeights` -/

theorem slice_getElem? {α : Type} (l : List α) (f i : Nat) (hi : i < H) :
    ((l.drop (f * H)).take H)[i]? = l[f * H + i]? := by
  rw [List.getElem?_take]
  simp only [hi, ↓reduceIte, List.getElem?_drop]

theorem nodup_slice (hs : List HData) (hnd : (hs.map (·.hdr.id)).Nodup) (f : Nat) :
    ((((hs.drop (f * H)).take H)).map (·.hdr.id)).Nodup := by
  rw [List.map_take, List.map_drop]
  exact (hnd.sublist (List.drop_sublist _ _)).sublist (List.take_sublist _ _)

/-- the heights a header list determines: the position of the id, if it occurs. -/
def posOf (hs : List HData) (id : Nat) : Option Nat := hs.findIdx? (fun d => d.hdr.id == id)

theorem posOf_slice (hs : List HData) (hnd : (hs.map (·.hdr.id)).Nodup) (f : Nat) (id : Nat) :
    posOf ((hs.drop (f * H)).take H) id =
      match posOf hs id with
      | some k => if f * H ≤ k ∧ k < f * H + H then some (k - f * H) else none
      | none => none := by
  unfold posOf
  cases hk : hs.findIdx? (fun d => d.hdr.id == id) with
  | none =>
    simp only
    rw [List.findIdx?_eq_none_iff] at hk
    apply findIdx?_id_none
    intro j d hj
    have hjlt : j < H := by
      have := getElem?_lt _ _ _ hj
      simp only [List.length_take] at this
      omega
    rw [slice_getElem? hs f j hjlt] at hj
    have := hk d (List.mem_of_getElem? hj)
    simpa using this
  | some k =>
    simp only
    rw [List.findIdx?_eq_some_iff_getElem] at hk
    obtain ⟨hklt, hkid, _⟩ := hk
    have hkid' : hs[k].hdr.id = id := by simpa using hkid
    by_cases hin : f * H ≤ k ∧ k < f * H + H
    · simp only [hin, and_self, ↓reduceIte]
      apply findIdx?_id_some _ id (k - f * H) hs[k] (nodup_slice hs hnd f)
      · rw [slice_getElem? hs f (k - f * H) (by omega)]
        have : f * H + (k - f * H) = k := by omega
        rw [this, List.getElem?_eq_getElem hklt]
      · exact hkid'
    · simp only [hin, ↓reduceIte]
      apply findIdx?_id_none
      intro j d hj hdid
      have hjlt : j < H := by
        have := getElem?_lt _ _ _ hj
        simp only [List.length_take] at this
        omega
      rw [slice_getElem? hs f j hjlt] at hj
      have := findIdx?_id_some hs id (f * H + j) d hnd hj hdid
      have hk2 : hs.findIdx? (fun d => d.hdr.id == id) = some k := by
        rw [List.findIdx?_eq_some_iff_getElem]
        exact ⟨hklt, hkid, ‹_›⟩
      rw [hk2] at this
      simp only [Option.some.injEq] at this
      omega

/-- the repository with another long-lived height map. -/
abbrev withHeights (r : Repo) (hm : HMap) : Repo := { r with heights := hm }

theorem loadHistGo_spec (hdrs : List HData) (hnd : (hdrs.map (·.hdr.id)).Nodup) :
    ∀ (f fuel : Nat) (r : Repo), f + 1 ≤ fuel → FilesExact r.store.main hdrs (f + 1) →
      ∃ r3, loadHistorical.go fuel f r = .ok r3 ∧ r3.arena = r.arena ∧ r3.branches = r.branches ∧
        r3.longest = r.longest ∧ r3.store = r.store ∧ r3.invalid = r.invalid ∧ r3.cfg = r.cfg ∧
        r3.disableDifficulty = r.disableDifficulty ∧ r3.disableSplit = r.disableSplit ∧
        ∀ id, r3.heights.get? id = match posOf hdrs id with
          | some k => if k < (f + 1) * H then some (k : Int) else r.heights.get? id
          | none => r.heights.get? id := by
  intro f
  induction f with
  | zero =>
    intro fuel r hfuel hfiles
    obtain ⟨fuel', rfl⟩ : ∃ n, fuel = n + 1 := ⟨fuel - 1, by omega⟩
    simp only [loadHistorical.go, hfiles 0 (by omega), ↓reduceIte]
    refine ⟨_, rfl, rfl, rfl, rfl, rfl, rfl, rfl, rfl, rfl, ?_⟩
    intro id
    simp only
    have := get?_foldl_zipIdx ((hdrs.drop (0 * H)).take H) (nodup_slice hdrs hnd 0) (((0 : Nat) : Int) * hpf) 0 r.heights id
    rw [this]
    have hp := posOf_slice hdrs hnd 0 id
    unfold posOf at hp
    rw [hp]
    unfold posOf
    cases hdrs.findIdx? (fun d => d.hdr.id == id) with
    | none => rfl
    | some k =>
      simp only [Nat.zero_mul, Nat.zero_le, true_and, Nat.zero_add, Nat.sub_zero, Nat.one_mul]
      by_cases hk : k < H
      · simp only [hk, ↓reduceIte]; congr 1; simp
      · simp only [hk, ↓reduceIte]
  | succ f ih =>
    intro fuel r hfuel hfiles
    obtain ⟨fuel', rfl⟩ : ∃ n, fuel = n + 1 := ⟨fuel - 1, by omega⟩
    simp only [loadHistorical.go, hfiles (f + 1) (by omega)]
    have hne : ¬ (f + 1 = 0) := by omega
    simp only [hne, ↓reduceIte, Nat.add_sub_cancel]
    obtain ⟨r3, hgo, h1, h2, h3, h4, h5, h6, h7, h8, hget⟩ := ih fuel'
      (withHeights r (((((hdrs.drop ((f + 1) * H)).take H)).zipIdx).foldl
          (fun m (x : HData × Nat) => HMap.set m x.1.hdr.id ((((f + 1 : Nat) : Int)) * hpf + (x.2 : Int))) r.heights))
      (by omega) (fun g hg => hfiles g (by omega))
    refine ⟨r3, hgo, h1, h2, h3, h4, h5, h6, h7, h8, ?_⟩
    intro id
    rw [hget id]
    have hfold := get?_foldl_zipIdx ((hdrs.drop ((f + 1) * H)).take H) (nodup_slice hdrs hnd (f + 1))
      ((((f + 1 : Nat) : Int)) * hpf) 0 r.heights id
    have hp := posOf_slice hdrs hnd (f + 1) id
    unfold posOf at hp
    unfold posOf
    cases hk : hdrs.findIdx? (fun d => d.hdr.id == id) with
    | none =>
      simp only
      rw [hfold, hp, hk]
    | some k =>
      simp only
      rw [hk] at hp
      simp only at hp
      by_cases hlow : k < (f + 1) * H
      · have : k < (f + 1 + 1) * H := by
          have : (f + 1 + 1) * H = (f + 1) * H + H := by rw [Nat.add_mul]; omega
          omega
        simp only [hlow, this, ↓reduceIte]
      · simp only [hlow, ↓reduceIte]
        rw [hfold, hp]
        by_cases hin : (f + 1) * H ≤ k ∧ k < (f + 1) * H + H
        · have : k < (f + 1 + 1) * H := by
            have : (f + 1 + 1) * H = (f + 1) * H + H := by rw [Nat.add_mul]; omega
            omega
          simp only [hin, and_self, ↓reduceIte, this, Nat.zero_add]
          congr 1
          rw [hpf_eq]
          have : ((k - (f + 1) * H : Nat) : Int) = (k : Int) - (((f + 1) * H : Nat) : Int) := by omega
          rw [this]; push_cast; omega
        · have : ¬ (k < (f + 1 + 1) * H) := by
            have : (f + 1 + 1) * H = (f + 1) * H + H := by rw [Nat.add_mul]; omega
            omega
          simp only [hin, ↓reduceIte, this]

/-! ### the branch read back from the root branch file -/

theorem bof_fields (b : Branch) :
    (branchOfFile (rootFile b)).parent = none ∧ (branchOfFile (rootFile b)).parentHeight = b.parentHeight ∧
    (branchOfFile (rootFile b)).offset = b.offset ∧ (branchOfFile (rootFile b)).headers = b.headers ∧
    (branchOfFile (rootFile b)).first = b.first := ⟨rfl, rfl, rfl, rfl, rfl⟩

theorem bof_hmap (b : Branch) (hph : b.parentHeight = -1) (hoff : b.offset = 1)
    (hnd : (b.headers.map (·.hdr.id)).Nodup) (id : Nat) :
    (branchOfFile (rootFile b)).hmap.get? id = (posOf b.headers id).map Int.ofNat := by
  unfold branchOfFile rootFile
  simp only
  have := get?_foldl_zipIdx b.headers hnd (b.parentHeight + b.offset) 0 [] id
  rw [this]
  unfold posOf
  cases b.headers.findIdx? (fun d => d.hdr.id == id) with
  | none => rfl
  | some k =>
    show some (b.parentHeight + b.offset + ((0 + k : Nat) : Int)) = some (k : Int)
    congr 1; omega

theorem loadedRoot_eq (b : Branch) (depth : Int) (hph : b.parentHeight = -1) (hoff : b.offset = 1)
    (hd : 0 ≤ depth) (hne : b.headers ≠ []) :
    loadedRoot b depth = prunedBranch ((b.headers.length : Int) - 1 - depth) (branchOfFile (rootFile b)) := by
  have hL : 0 < b.headers.length := List.length_pos_iff.mpr hne
  have hbh : (branchOfFile (rootFile b)).height = (b.headers.length : Int) - 1 := by
    unfold Branch.height branchOfFile rootFile; simp only; omega
  have hpl : (branchOfFile (rootFile b)).prunedLowest = 0 := by
    unfold Branch.prunedLowest branchOfFile rootFile; simp only; omega
  unfold loadedRoot prunedBranch
  simp only [hbh, hpl]
  by_cases h0 : (0 : Int) < (b.headers.length : Int) - 1 - depth
  · have : (0 : Int) ≤ (b.headers.length : Int) - 1 - depth := by omega
    simp only [this, h0, ↓reduceIte]
  · simp only [h0, ↓reduceIte]
    by_cases h1 : (0 : Int) ≤ (b.headers.length : Int) - 1 - depth
    · simp only [h1, ↓reduceIte]
      have : (b.headers.length : Int) - 1 - depth - 0 = 0 := by omega
      rw [this]
      unfold pruneBranch
      have hc : ¬ ((0 : Int) < 0 ∨ (0 : Int) ≥ ((branchOfFile (rootFile b)).headers.length : Int)) := by
        have : (branchOfFile (rootFile b)).headers.length = b.headers.length := rfl
        omega
      simp only [hc, ↓reduceIte, Int.toNat_zero, List.drop_zero, List.take_zero, List.foldl_nil, Int.add_zero]
    · simp only [h1, ↓reduceIte]

theorem posOf_drop (hs : List HData) (hnd : (hs.map (·.hdr.id)).Nodup) (n : Nat) (id : Nat) :
    posOf (hs.drop n) id = match posOf hs id with
      | some k => if n ≤ k then some (k - n) else none
      | none => none := by
  unfold posOf
  have hnd' : ((hs.drop n).map (·.hdr.id)).Nodup := by
    rw [List.map_drop]; exact hnd.sublist (List.drop_sublist _ _)
  cases hk : hs.findIdx? (fun d => d.hdr.id == id) with
  | none =>
    simp only
    rw [List.findIdx?_eq_none_iff] at hk
    apply findIdx?_id_none
    intro j d hj
    rw [List.getElem?_drop] at hj
    have := hk d (List.mem_of_getElem? hj)
    simpa using this
  | some k =>
    simp only
    have hk' := hk
    rw [List.findIdx?_eq_some_iff_getElem] at hk
    obtain ⟨hklt, hkid, _⟩ := hk
    have hkid' : hs[k].hdr.id = id := by simpa using hkid
    by_cases hin : n ≤ k
    · simp only [hin, ↓reduceIte]
      apply findIdx?_id_some _ id (k - n) hs[k] hnd'
      · rw [List.getElem?_drop]
        have : n + (k - n) = k := by omega
        rw [this, List.getElem?_eq_getElem hklt]
      · exact hkid'
    · simp only [hin, ↓reduceIte]
      apply findIdx?_id_none
      intro j d hj hdid
      rw [List.getElem?_drop] at hj
      have := findIdx?_id_some hs id (n + j) d hnd hj hdid
      rw [hk'] at this
      simp only [Option.some.injEq] at this
      omega

/-- the ids of the headers a branch of a well-formed repository holds are pairwise distinct. -/
theorem branch_ids_nodup (ar : Arena) (bs : List Nat) (hi : IdWF ar bs) (bi : Nat) (b : Branch)
    (hb : ar[bi]? = some b) : (b.headers.map (·.hdr.id)).Nodup := by
  apply nodup_of_idx_inj
  intro i j x y hx hy heq
  exact (hi.uniq bi bi b b i j x y hb hb hx hy heq).2

/-- **the loaded repository** (linear chain): shape and the complete long-lived height map. -/
theorem load_linear_result (rs : Repo) (b : Branch) (depth : Int) (g : Hdr)
    (hidx : rs.store.index = some [b.first.id]) (hbrs : rs.store.branches = [(b.first.id, rootFile b)])
    (hph : b.parentHeight = -1) (hoff : b.offset = 1) (hne : b.headers ≠ []) (hd : 0 ≤ depth)
    (hnd : (b.headers.map (·.hdr.id)).Nodup)
    (hfiles : FilesExact rs.store.main b.headers (b.headers.length / H + 1))
    (hgen : ∀ d, b.headers[0]? = some d → rs.cfg.genesisId = d.hdr.id) :
    ∃ rl, load rs depth g = (rl, none) ∧ rl.arena = [loadedRoot b depth] ∧ rl.branches = [0] ∧ rl.longest = 0 ∧
      rl.store = rs.store ∧ rl.invalid = mergedInvalid rs.store rs.cfg ∧ rl.cfg = rs.cfg ∧
      rl.disableDifficulty = rs.disableDifficulty ∧ rl.disableSplit = rs.disableSplit ∧
      ∀ id, rl.heights.get? id = (posOf b.headers id).map Int.ofNat := by
  have hL : 0 < b.headers.length := List.length_pos_iff.mpr hne
  have hH : H = 1000 := rfl
  rw [load_linear_shape rs b depth g hidx hbrs hph hoff hne hd]
  -- the in-memory part
  have hlr := loadedRoot_eq b depth hph hoff hd hne
  obtain ⟨q1, q2, q3, q4, q5, q6, q7⟩ := root_pruned (branchOfFile (rootFile b)) hph hoff
    ((b.headers.length : Int) - 1 - depth) (by show _ < ((b.headers.length : Nat) : Int); omega)
  rw [← hlr] at q1 q2 q3 q4 q5 q6 q7
  -- lowest in-memory height
  have hlo : ∃ lo : Nat, (loadedRoot b depth).prunedLowest = (lo : Int) ∧ lo < b.headers.length ∧
      (loadedRoot b depth).headers = b.headers.drop lo := by
    rw [hlr]
    by_cases h0 : (0 : Int) < (b.headers.length : Int) - 1 - depth
    · rw [prunedBranch_root_pos (branchOfFile (rootFile b)) hph hoff _ h0 (by show _ < ((b.headers.length : Nat) : Int); omega)]
      refine ⟨((b.headers.length : Int) - 1 - depth).toNat, ?_, by omega, rfl⟩
      unfold Branch.prunedLowest
      simp only
      have : (branchOfFile (rootFile b)).parentHeight = -1 := hph
      omega
    · rw [prunedBranch_root_nonpos (branchOfFile (rootFile b)) hph hoff _ (by omega)]
      refine ⟨0, ?_, hL, by simp [bof_fields]⟩
      unfold Branch.prunedLowest
      have h1 : (branchOfFile (rootFile b)).parentHeight = -1 := hph
      have h2 : (branchOfFile (rootFile b)).offset = 1 := hoff
      omega
  obtain ⟨lo, hlo1, hlo2, hlo3⟩ := hlo
  -- the base height map
  have hbase : ∀ id, (loadedBase rs b depth).heights.get? id = match posOf b.headers id with
      | some k => if lo ≤ k then some (k : Int) else HMap.get? [(rs.cfg.genesisId, (0 : Int))] id
      | none => HMap.get? [(rs.cfg.genesisId, (0 : Int))] id := by
    intro id
    unfold loadedBase
    simp only
    have hnd' : (((loadedRoot b depth).headers).map (·.hdr.id)).Nodup := by
      rw [hlo3, List.map_drop]; exact hnd.sublist (List.drop_sublist _ _)
    have := get?_foldl_zipIdx (loadedRoot b depth).headers hnd' (loadedRoot b depth).prunedLowest 0 [(rs.cfg.genesisId, 0)] id
    rw [this]
    have hp := posOf_drop b.headers hnd lo id
    unfold posOf at hp ⊢
    rw [hlo3, hp]
    cases b.headers.findIdx? (fun d => d.hdr.id == id) with
    | none => rfl
    | some k =>
      simp only
      by_cases hk : lo ≤ k
      · simp only [hk, ↓reduceIte, Option.some.injEq]
        rw [hlo1]; omega
      · simp only [hk, ↓reduceIte]
  -- the genesis entry agrees with the chain
  have hgid : ∀ id, HMap.get? [(rs.cfg.genesisId, (0 : Int))] id = some 0 → posOf b.headers id = some 0 := by
    intro id hg
    unfold HMap.get? at hg
    simp only [List.lookup] at hg
    by_cases he : id = rs.cfg.genesisId
    · have hd0 : b.headers[0]? = some b.headers[0] := List.getElem?_eq_getElem hL
      have := hgen _ hd0
      unfold posOf
      exact findIdx?_id_some b.headers id 0 _ hnd hd0 (by rw [he, this])
    · have : (id == rs.cfg.genesisId) = false := by simpa using he
      simp only [this] at hg; cases hg
  have hgnone : ∀ id, HMap.get? [(rs.cfg.genesisId, (0 : Int))] id = none ∨
      HMap.get? [(rs.cfg.genesisId, (0 : Int))] id = some 0 := by
    intro id
    unfold HMap.get?
    simp only [List.lookup]
    split <;> simp
  -- read the historical heights
  have hbr : (loadedBase rs b depth).br (loadedBase rs b depth).longest = loadedRoot b depth := rfl
  unfold loadHistorical
  dsimp only
  rw [hbr, hlo1]
  by_cases hz : lo = 0
  · subst hz
    have e1 : Int.tdiv ((0 : Nat) : Int) hpf = 0 := by simp
    simp only [e1, Int.natCast_zero, Int.zero_mul, Int.sub_zero, and_self, ↓reduceIte]
    refine ⟨_, rfl, rfl, rfl, rfl, rfl, rfl, rfl, rfl, rfl, ?_⟩
    intro id
    rw [hbase id]
    cases hp : posOf b.headers id with
    | none =>
      simp only [Option.map_none]
      rcases hgnone id with hn | hs
      · exact hn
      · have := hgid id hs; rw [hp] at this; cases this
    | some k => simp
  · have hpos : 0 < lo := by omega
    have hfile : Int.tdiv (lo : Int) hpf = ((lo / H : Nat) : Int) := by rw [hpf_eq]; rfl
    rw [hfile]
    have hcond : ¬ ((lo : Int) - ((lo / H : Nat) : Int) * hpf = 0 ∧ ((lo / H : Nat) : Int) = 0) := by
      rw [hpf_eq, hH]; omega
    simp only [hcond, ↓reduceIte]
    -- the first file to read
    obtain ⟨sf, hsf, hsfle, hcover⟩ : ∃ sf : Nat,
        (if (lo : Int) - ((lo / H : Nat) : Int) * hpf = 0 then ((lo / H : Nat) : Int) - 1 else ((lo / H : Nat) : Int)) = (sf : Int) ∧
        sf ≤ b.headers.length / H ∧ lo ≤ (sf + 1) * H := by
      by_cases hb0 : (lo : Int) - ((lo / H : Nat) : Int) * hpf = 0
      · simp only [hb0, ↓reduceIte]
        refine ⟨lo / H - 1, ?_, ?_, ?_⟩
        · rw [hpf_eq, hH] at hb0; rw [hH]; omega
        · rw [hH]; omega
        · rw [hpf_eq, hH] at hb0; rw [hH]; omega
      · simp only [hb0, ↓reduceIte]
        refine ⟨lo / H, rfl, ?_, ?_⟩
        · rw [hH]; omega
        · rw [hH]; omega
    rw [hsf]
    simp only [Int.toNat_natCast]
    obtain ⟨r3, hgo, h1, h2, h3, h4, h5, h6, h7, h8, hget⟩ := loadHistGo_spec b.headers hnd sf (sf + 1)
      (loadedBase rs b depth) (Nat.le_refl _) (fun f hf => hfiles f (by omega))
    rw [hgo]
    refine ⟨r3, rfl, h1, h2, h3, h4, h5, h6, h7, h8, ?_⟩
    intro id
    rw [hget id]
    cases hp : posOf b.headers id with
    | none =>
      simp only [Option.map_none]
      rw [hbase id, hp]
      simp only
      rcases hgnone id with hn | hs
      · exact hn
      · have := hgid id hs; rw [hp] at this; cases this
    | some k =>
      simp only [Option.map_some]
      by_cases hk : k < (sf + 1) * H
      · simp only [hk, ↓reduceIte]; rfl
      · simp only [hk, ↓reduceIte]
        rw [hbase id, hp]
        have : lo ≤ k := by omega
        simp only [this, ↓reduceIte]; rfl

/-! ### Save, then Load: nothing observable changes -/

theorem posOf_some_iff (hs : List HData) (hnd : (hs.map (·.hdr.id)).Nodup) (id k : Nat) :
    posOf hs id = some k ↔ ∃ d, hs[k]? = some d ∧ d.hdr.id = id := by
  constructor
  · intro h
    unfold posOf at h
    rw [List.findIdx?_eq_some_iff_getElem] at h
    obtain ⟨hlt, hid, _⟩ := h
    exact ⟨hs[k], List.getElem?_eq_getElem hlt, by simpa using hid⟩
  · rintro ⟨d, hk, hid⟩
    exact findIdx?_id_some hs id k d hnd hk hid

/-- one-branch repositories: `Branches.Find` is the root's own map. -/
theorem branchesFind_single (rr : Repo) (b : Branch) (ha : rr.arena = [b]) (hb : rr.branches = [0]) (hp : b.parent = none)
    (id : Nat) : rr.branchesFind id = (b.hmap.get? id).map (fun h => (0, h)) := by
  unfold Repo.branchesFind Repo.find Repo.fuel
  rw [hb, ha]
  simp only [List.findSome?_cons, List.findSome?_nil, List.length_cons, List.length_nil, bfind, List.getElem?_cons_zero, hp]
  cases b.hmap.get? id <;> rfl

theorem at_single (rr : Repo) (b : Branch) (ha : rr.arena = [b]) (hp : b.parent = none) (k : Int) :
    rr.at 0 k = if k > b.parentHeight then getI b.headers (k - b.parentHeight - b.offset) else none := by
  unfold Repo.at Repo.fuel
  rw [ha]
  simp only [List.length_cons, List.length_nil, atHeight, List.getElem?_cons_zero, hp]

/-- **loading a store that holds what Save writes for a linear chain** gives back every observation
    (whatever the stored invalid list is). -/
theorem load_obs_linear (r : Repo) (hl : Linear r) (depth : Int) (hd : 0 ≤ depth) (g : Hdr) (rs : Repo)
    (hfiles : FilesExact rs.store.main (r.br 0).headers ((r.br 0).headers.length / H + 1))
    (hsb : rs.store.branches = [((r.br 0).first.id, rootFile (r.br 0))])
    (hsi : rs.store.index = some [(r.br 0).first.id]) (hscfg : rs.cfg = r.cfg) :
    ∃ rl, load rs depth g = (rl, none) ∧
      tipHeight rl = tipHeight r ∧ tipId rl = tipId r ∧ tipWork rl = tipWork r ∧
      (∀ k : Int, 0 ≤ k → headerAt rl k = headerAt r k) ∧ (∀ id, hashHeight rl id = hashHeight r id) ∧
      rl.invalid = mergedInvalid rs.store rs.cfg := by
  obtain ⟨har, hbr, hpar, hph, hoff, hne, hfirst⟩ := linear_facts r hl
  have hw := hl.wf.chain.wf.link
  have hids := hl.wf.chain.wf.ids
  have hlen : 0 < r.arena.length := by rw [hl.one]; omega
  have hb0 : r.arena[0]? = some (r.br 0) := by
    unfold Repo.br; rw [List.getElem?_eq_getElem hlen]; rfl
  have hnd := branch_ids_nodup r.arena r.branches hids 0 (r.br 0) hb0
  have hL : 0 < (r.br 0).headers.length := List.length_pos_iff.mpr hne
  obtain ⟨rl, hload, hla, hlb, hll, hls, hli, hlc, _, _, hlh⟩ := load_linear_result rs (r.br 0) depth g hsi hsb hph hoff hne hd hnd hfiles
    (by intro d hd0; rw [hscfg]; exact hl.gen d hd0)
  refine ⟨rl, hload, ?_, ?_, ?_, ?_, ?_, hli⟩
  all_goals
    have hlr := loadedRoot_eq (r.br 0) depth hph hoff hd hne
    obtain ⟨q1, q2, q3, q4, q5, q6, q7⟩ := root_pruned (branchOfFile (rootFile (r.br 0))) hph hoff
      (((r.br 0).headers.length : Int) - 1 - depth) (by show _ < (((r.br 0).headers.length : Nat) : Int); omega)
    rw [← hlr] at q1 q2 q3 q4 q5 q6 q7
    have hbr0l : rl.br 0 = loadedRoot (r.br 0) depth := by unfold Repo.br; rw [hla]; rfl
  · unfold tipHeight; rw [hll, hl.root, hbr0l, q3]; rfl
  · unfold tipId Repo.lastOf; rw [hll, hl.root, hbr0l, q4]; rfl
  · unfold tipWork Repo.lastOf; rw [hll, hl.root, hbr0l, q4]; rfl
  · intro k hk
    have hH : H = 1000 := rfl
    unfold headerAt
    rw [hll, hl.root, hbr0l, q3]
    have hbh : (branchOfFile (rootFile (r.br 0))).height = (r.br 0).height := rfl
    rw [hbh]
    have hhe := branch_height_eq (r.br 0) hoff
    by_cases hbeyond : k > (r.br 0).height
    · simp only [hbeyond, ↓reduceIte]
    · simp only [hbeyond, ↓reduceIte]
      have hklt : k.toNat < (r.br 0).headers.length := by omega
      have hold : r.at 0 k = some ((r.br 0).headers[k.toNat]) := by
        rw [at_single r (r.br 0) har hpar k, hph]
        have : k > -1 := by omega
        simp only [this, ↓reduceIte]
        unfold getI
        have n : ¬ (k - -1 - (r.br 0).offset < 0) := by omega
        simp only [n, ↓reduceIte]
        have e : (k - -1 - (r.br 0).offset).toNat = k.toNat := by omega
        rw [e, List.getElem?_eq_getElem hklt]
      rw [hold]
      have hlpar : (loadedRoot (r.br 0) depth).parent = none := q1
      by_cases hkP : ((r.br 0).headers.length : Int) - 1 - depth ≤ k
      · have hnew : rl.at 0 k = some ((r.br 0).headers[k.toNat]) := by
          rw [at_single rl _ hla hlpar k, q2]
          have : k > -1 := by omega
          simp only [this, ↓reduceIte]
          have h5 := q5 k hkP
          rw [q2] at h5
          rw [h5]
          show getI (r.br 0).headers (k - (r.br 0).parentHeight - (r.br 0).offset) = _
          unfold getI
          have n : ¬ (k - (r.br 0).parentHeight - (r.br 0).offset < 0) := by omega
          simp only [n, ↓reduceIte]
          have e : (k - (r.br 0).parentHeight - (r.br 0).offset).toNat = k.toNat := by omega
          rw [e, List.getElem?_eq_getElem hklt]
        rw [hnew]
      · have hnew : rl.at 0 k = none := by
          rw [at_single rl _ hla hlpar k, q2]
          have : k > -1 := by omega
          simp only [this, ↓reduceIte]
          have h6 := q6 k (by omega)
          rw [q2] at h6
          exact h6
        rw [hnew]
        simp only
        -- served from the files
        have hfn : k.toNat / H < (r.br 0).headers.length / H + 1 := by rw [hH]; omega
        have hrec := hfiles (k.toNat / H) hfn
        have hkn : k = ((k.toNat : Nat) : Int) := by omega
        have hfile : Int.tdiv k hpf = ((k.toNat / H : Nat) : Int) := by
          rw [hpf_eq]
          conv => lhs; rw [hkn]
          rfl
        unfold getData
        rw [hfile, hls, Int.toNat_natCast, hrec]
        simp only
        have hidx : k - ((k.toNat / H : Nat) : Int) * hpf = ((k.toNat % H : Nat) : Int) := by
          rw [hpf_eq, hH]; omega
        rw [hidx]
        unfold getI
        have hnn : ¬ (((k.toNat % H : Nat) : Int) < 0) := by omega
        simp only [hnn, ↓reduceIte, Int.toNat_natCast]
        rw [slice_getElem? _ _ _ (Nat.mod_lt _ H_pos)]
        have : k.toNat / H * H + k.toNat % H = k.toNat := by rw [hH]; omega
        rw [this, List.getElem?_eq_getElem hklt]
  · intro id
    -- before: the root's own map, exact
    have hold : hashHeight r id = (posOf (r.br 0).headers id).map Int.ofNat := by
      unfold hashHeight
      rw [branchesFind_single r (r.br 0) har hbr hpar id]
      cases hg : (r.br 0).hmap.get? id with
      | some h =>
        simp only [Option.map_some]
        obtain ⟨k, d, hk, hid, hh⟩ := ((hids.exact 0 _ hb0) id h).mp hg
        rw [(posOf_some_iff _ hnd id k).mpr ⟨d, hk, hid⟩]
        simp only [Option.map_some, Option.some.injEq]
        rw [hh, hph]
        show (-1 : Int) + 1 + (k : Int) = (k : Int)
        omega
      | none =>
        simp only [Option.map_none]
        cases hp : posOf (r.br 0).headers id with
        | none =>
          simp only [Option.map_none]
          cases hh : r.heights.get? id with
          | none => rfl
          | some x =>
            obtain ⟨bj, b, k, d, hb, hk, hid, _⟩ := hl.wf.chain.wf.heights id x hh
            have hbj : bj = 0 := by have := getElem?_lt _ _ _ hb; rw [hl.one] at this; omega
            subst hbj
            rw [hb0] at hb; simp only [Option.some.injEq] at hb; subst hb
            rw [(posOf_some_iff _ hnd id k).mpr ⟨d, hk, hid⟩] at hp
            cases hp
        | some k =>
          obtain ⟨d, hk, hid⟩ := (posOf_some_iff _ hnd id k).mp hp
          have := ((hids.exact 0 _ hb0) id ((r.br 0).parentHeight + 1 + (k : Int))).mpr ⟨k, d, hk, hid, rfl⟩
          rw [hg] at this; cases this
    rw [hold]
    unfold hashHeight
    have hlpar : (loadedRoot (r.br 0) depth).parent = none := q1
    rw [branchesFind_single rl _ hla hlb hlpar id, q7 id, hlh id]
    have hbm := bof_hmap (r.br 0) hph hoff hnd id
    by_cases hdrop : ∃ d ∈ (branchOfFile (rootFile (r.br 0))).headers.take
        (((r.br 0).headers.length : Int) - 1 - depth).toNat, d.hdr.id = id
    · simp only [hdrop, ↓reduceIte, Option.map_none]
    · simp only [hdrop, ↓reduceIte, hbm]
      cases posOf (r.br 0).headers id <;> rfl


/-- **Save then Load restores the same repository** (linear chain, any load depth ≥ 0, across the
    1000-header file boundaries): both succeed, and the loaded repository reports the same tip
    (height, hash, work), the same header at EVERY height ≥ 0 — from memory above the load depth,
    from the files below —, and the same height for EVERY hash (pruned headers through the
    historical heights read back from the files; unknown hashes stay unknown). -/
theorem save_load_linear (r : Repo) (hl : Linear r) (depth : Int) (hd : 0 ≤ depth) (g : Hdr) :
    ∃ rs rl, save r = (rs, none) ∧ load rs depth g = (rl, none) ∧
      tipHeight rl = tipHeight r ∧ tipId rl = tipId r ∧ tipWork rl = tipWork r ∧
      (∀ k : Int, 0 ≤ k → headerAt rl k = headerAt r k) ∧ (∀ id, hashHeight rl id = hashHeight r id) ∧
      rl.invalid = mergedInvalid rs.store rs.cfg ∧ rs.store.invalid = some r.invalid := by
  obtain ⟨rs, hsave, hfiles, hsb, hsi, hsv, hscfg, _, _⟩ := save_linear r hl
  obtain ⟨rl, h1, h2, h3, h4, h5, h6, h7⟩ := load_obs_linear r hl depth hd g rs hfiles hsb hsi hscfg
  exact ⟨rs, rl, hsave, h1, h2, h3, h4, h5, h6, h7, hsv⟩

end BRV.Repo
