/-
Marking a header invalid (`Branch.Trim` + `Branches.Trim`) in the order-of-acceptance world: the tracked
forest stays well linked (`ForestOK`).  The fold of `Branches.Trim` walks the list in acceptance order, so
when a branch is examined the fate of its parent is already decided.
-/
import BRV.Proofs.ForestClean

namespace BRV.Repo

/-- what the arena after `Branch.Trim` (`ar'`) has in common with the arena before (`ar`): everything but
    branch `bi`, which keeps its identity and every header below the trim height. -/
structure TrimArena (ar ar' : Arena) (bi : Nat) (h : Int) : Prop where
  other : ∀ x, x ≠ bi → ar'[x]? = ar[x]?
  self : ∀ b, ar[bi]? = some b → ∃ b', ar'[bi]? = some b' ∧ b'.parent = b.parent ∧ b'.parentHeight = b.parentHeight ∧
    b'.first = b.first ∧ b'.offset = b.offset ∧
    ∀ (i : Int) (d : HData), getI b.headers i = some d → b.parentHeight + b.offset + i < h → getI b'.headers i = some d

theorem TrimArena.fields {ar ar' : Arena} {bi : Nat} {h : Int} (ht : TrimArena ar ar' bi h) (x : Nat) (xb : Branch)
    (hx : ar[x]? = some xb) :
    ∃ xb', ar'[x]? = some xb' ∧ xb'.parent = xb.parent ∧ xb'.parentHeight = xb.parentHeight ∧ xb'.first = xb.first ∧
      xb'.offset = xb.offset := by
  by_cases he : x = bi
  · subst he
    obtain ⟨b', h1, h2, h3, h4, h5, _⟩ := ht.self xb hx
    exact ⟨b', h1, h2, h3, h4, h5⟩
  · exact ⟨xb, by rw [ht.other x he]; exact hx, rfl, rfl, rfl, rfl⟩

theorem br_of_getElem? (r : Repo) (x : Nat) (b : Branch) (h : r.arena[x]? = some b) : r.br x = b := by
  unfold Repo.br; rw [h]; rfl

/-- the core: the kept list of `Branches.Trim`'s fold over an accepted order (possibly without `bi` itself)
    is an accepted order of the trimmed arena. -/
theorem trimFold_linked (ar : Arena) (r' : Repo) (bi : Nat) (h : Int) (q : Nat → Bool)
    (ht : TrimArena ar r'.arena bi h)
    (hq : ∀ x, q x = false → x = bi)
    (L : List Nat) (hl : Linked ar L)
    (hskip : q bi = false → ∀ x ∈ L, ∀ xb, ar[x]? = some xb → xb.parent = some bi → h ≤ xb.parentHeight) :
    Linked r'.arena ((L.filter q).foldl (trimStep r' bi h) ([], [])).1 ∧
    (∀ x, x ∈ L.filter q ↔ x ∈ ((L.filter q).foldl (trimStep r' bi h) ([], [])).1 ∨
                             x ∈ ((L.filter q).foldl (trimStep r' bi h) ([], [])).2) := by
  induction hl with
  | nil => exact ⟨.nil, by simp⟩
  | root bs x xb _ hn hx hp hr ih =>
    obtain ⟨ih1, ih2⟩ := ih (fun hqb y hy => hskip hqb y (by simp [hy]))
    rw [List.filter_append, List.foldl_append]
    by_cases hqx : q x = true
    · simp only [List.filter_cons, hqx, ↓reduceIte, List.filter_nil, List.foldl_cons, List.foldl_nil]
      obtain ⟨xb', hx', e1, e2, _, _⟩ := ht.fields x xb hx
      have hbr : r'.br x = xb' := br_of_getElem? r' x xb' hx'
      generalize (bs.filter q).foldl (trimStep r' bi h) ([], []) = acc at ih1 ih2 ⊢
      obtain ⟨k, rm⟩ := acc
      simp only at ih1 ih2 ⊢
      have hpr : parentRemoved r' rm x = false := by
        unfold parentRemoved; rw [hbr, e1, hp]
      have hnk : x ∉ k := by
        intro hm
        have := (ih2 x).mpr (Or.inl hm)
        exact hn (List.mem_filter.mp this).1
      simp only [trimStep, hpr, Bool.false_eq_true, ↓reduceIte, hbr, e1, hp]
      have : ¬ ((none : Option Nat) == some bi && decide (xb'.parentHeight ≥ h)) = true := by simp
      rw [if_neg this]
      refine ⟨Linked.root _ x xb' ih1 hnk hx' (by rw [e1]; exact hp) (by rw [e2]; exact hr), ?_⟩
      intro y
      simp only [List.mem_append, List.mem_singleton, List.mem_cons, List.mem_nil_iff, or_false]
      rw [ih2 y]
      constructor
      · rintro ((h1 | h1) | h1)
        · exact Or.inl (Or.inl h1)
        · exact Or.inr h1
        · exact Or.inl (Or.inr h1)
      · rintro ((h1 | h1) | h1)
        · exact Or.inl (Or.inl h1)
        · exact Or.inr h1
        · exact Or.inl (Or.inr h1)
    · have hqx' : q x = false := by cases hq' : q x <;> simp_all
      simp only [List.filter_cons, hqx', Bool.false_eq_true, ↓reduceIte, List.filter_nil, List.foldl_nil, List.append_nil]
      exact ⟨ih1, ih2⟩
  | child bs x xb p pb d _ hn hx hne hp hpm hpb hd hid ih =>
    obtain ⟨ih1, ih2⟩ := ih (fun hqb y hy => hskip hqb y (by simp [hy]))
    rw [List.filter_append, List.foldl_append]
    by_cases hqx : q x = true
    · simp only [List.filter_cons, hqx, ↓reduceIte, List.filter_nil, List.foldl_cons, List.foldl_nil]
      obtain ⟨xb', hx', e1, e2, e3, _⟩ := ht.fields x xb hx
      have hbr : r'.br x = xb' := br_of_getElem? r' x xb' hx'
      generalize (bs.filter q).foldl (trimStep r' bi h) ([], []) = acc at ih1 ih2 ⊢
      obtain ⟨k, rm⟩ := acc
      simp only at ih1 ih2 ⊢
      have hnk : x ∉ k := by
        intro hm
        have := (ih2 x).mpr (Or.inl hm)
        exact hn (List.mem_filter.mp this).1
      have hmem_iff : ∀ (k rm : List Nat) (removedNow : Bool),
          (∀ y, y ∈ bs.filter q ↔ y ∈ k ∨ y ∈ rm) →
          ∀ y, y ∈ bs.filter q ++ [x] ↔ (y ∈ (if removedNow then k else k ++ [x]) ∨ y ∈ (if removedNow then rm ++ [x] else rm)) := by
        intro k rm rn hk y
        simp only [List.mem_append, List.mem_singleton]
        rw [hk y]
        cases rn
        · simp only [Bool.false_eq_true, ↓reduceIte, List.mem_append, List.mem_singleton]
          constructor
          · rintro ((h1 | h1) | h1)
            · exact Or.inl (Or.inl h1)
            · exact Or.inr h1
            · exact Or.inl (Or.inr h1)
          · rintro ((h1 | h1) | h1)
            · exact Or.inl (Or.inl h1)
            · exact Or.inr h1
            · exact Or.inl (Or.inr h1)
        · simp only [↓reduceIte, List.mem_append, List.mem_singleton]
          constructor
          · rintro ((h1 | h1) | h1)
            · exact Or.inl h1
            · exact Or.inr (Or.inl h1)
            · exact Or.inr (Or.inr h1)
          · rintro (h1 | h1 | h1)
            · exact Or.inl (Or.inl h1)
            · exact Or.inl (Or.inr h1)
            · exact Or.inr h1
      simp only [trimStep, hbr]
      by_cases hpr : parentRemoved r' rm x = true
      · rw [if_pos hpr]
        refine ⟨ih1, ?_⟩
        have := hmem_iff _ _ true ih2
        simpa using this
      · rw [if_neg hpr]
        by_cases hr2 : (xb'.parent == some bi && decide (xb'.parentHeight ≥ h)) = true
        · rw [if_pos hr2]
          refine ⟨ih1, ?_⟩
          have := hmem_iff _ _ true ih2
          simpa using this
        · rw [if_neg hr2]
          refine ⟨?_, ?_⟩
          · -- the parent was kept and still holds the fork header
            have hpnr : p ∉ rm := by
              intro hm
              apply hpr
              unfold parentRemoved
              rw [hbr, e1, hp]
              simpa using hm
            have hr2' : ¬ (p = bi ∧ h ≤ xb.parentHeight) := by
              intro ⟨hpe, hle⟩
              apply hr2
              rw [e1, hp, e2, hpe]
              simp [hle]
            have hqp : q p = true := by
              cases hqp : q p with
              | true => rfl
              | false =>
                exfalso
                have hpe := hq p hqp
                apply hr2'
                refine ⟨hpe, ?_⟩
                exact hskip (hpe ▸ hqp) x (by simp) xb hx (by rw [hp, hpe])
            have hpk : p ∈ k := by
              have : p ∈ bs.filter q := List.mem_filter.mpr ⟨hpm, hqp⟩
              rcases (ih2 p).mp this with h1 | h1
              · exact h1
              · exact absurd h1 hpnr
            -- the parent's entry in the trimmed arena
            have hpar : ∃ pb', r'.arena[p]? = some pb' ∧ pb'.parentHeight = pb.parentHeight ∧ pb'.offset = pb.offset ∧
                getI pb'.headers (xb.parentHeight - pb.parentHeight - pb.offset) = some d := by
              by_cases hpe : p = bi
              · obtain ⟨b', h1, _, h3, _, h5, h6⟩ := ht.self pb (hpe ▸ hpb)
                refine ⟨b', hpe ▸ h1, h3, h5, ?_⟩
                apply h6 _ d hd
                have : ¬ (h ≤ xb.parentHeight) := fun hle => hr2' ⟨hpe, hle⟩
                omega
              · exact ⟨pb, by rw [ht.other p hpe]; exact hpb, rfl, rfl, hd⟩
            obtain ⟨pb', hpb', f1, f2, hd'⟩ := hpar
            exact Linked.child _ x xb' p pb' d ih1 hnk hx' (by rw [e2]; exact hne) (by rw [e1]; exact hp) hpk hpb'
              (by rw [e2, f1, f2]; exact hd') (by rw [e3]; exact hid)
          · have := hmem_iff _ _ false ih2
            simpa using this
    · have hqx' : q x = false := by cases hq' : q x <;> simp_all
      simp only [List.filter_cons, hqx', Bool.false_eq_true, ↓reduceIte, List.filter_nil, List.foldl_nil, List.append_nil]
      exact ⟨ih1, ih2⟩

theorem trimFold_length (r' : Repo) (bi : Nat) (h : Int) : ∀ (l : List Nat) (acc : List Nat × List Nat),
    (l.foldl (trimStep r' bi h) acc).1.length + (l.foldl (trimStep r' bi h) acc).2.length =
      acc.1.length + acc.2.length + l.length := by
  intro l
  induction l with
  | nil => intro acc; simp
  | cons x rest ih =>
    intro acc
    simp only [List.foldl_cons]
    rw [ih]
    unfold trimStep
    simp only
    split
    · simp; omega
    · split
      · simp; omega
      · simp; omega

/-- a listed child's fork header is held by its (listed) parent. -/
theorem Linked.child_fork (ar : Arena) (L : List Nat) (hl : Linked ar L) (x : Nat) (hx : x ∈ L) (xb : Branch)
    (hxb : ar[x]? = some xb) (p : Nat) (hp : xb.parent = some p) :
    p ∈ L ∧ ∃ pb d, ar[p]? = some pb ∧ getI pb.headers (xb.parentHeight - pb.parentHeight - pb.offset) = some d := by
  induction hl with
  | nil => cases hx
  | root bs bi b _ _ hb hpar _ ih =>
    simp only [List.mem_append, List.mem_singleton] at hx
    rcases hx with hx | rfl
    · obtain ⟨h1, h2⟩ := ih hx
      exact ⟨by simp [h1], h2⟩
    · rw [hxb] at hb; cases hb; rw [hp] at hpar; cases hpar
  | child bs bi b p' pb d _ _ hb _ hpar hpm hpb hd _ ih =>
    simp only [List.mem_append, List.mem_singleton] at hx
    rcases hx with hx | rfl
    · obtain ⟨h1, h2⟩ := ih hx
      exact ⟨by simp [h1], h2⟩
    · rw [hxb] at hb; cases hb
      rw [hp] at hpar; cases hpar
      exact ⟨by simp [hpm], pb, d, hpb, hd⟩

theorem internallyLinked_take (l : List HData) (hl : InternallyLinked l) : ∀ n, InternallyLinked (l.take n) := by
  induction l with
  | nil => intro n; simp; trivial
  | cons a rest ih =>
    intro n
    cases n with
    | zero => simp; trivial
    | succ n =>
      cases rest with
      | nil => simp; trivial
      | cons b rest' =>
        cases n with
        | zero => simp; trivial
        | succ n =>
          simp only [List.take_succ_cons]
          exact ⟨hl.1, by have := ih hl.2 (n + 1); simpa [List.take_succ_cons] using this⟩

/-- the branch cut below height `h` (`off` headers kept) is sound. -/
theorem brCore_trimmed (b : Branch) (hb : BrCore b) (off : Nat) (h0 : 0 < off) (h1 : off < b.headers.length) :
    BrCore (trimmedBranch b (off : Int) (b.headers.take off)) := by
  unfold trimmedBranch
  refine ⟨?_, internallyLinked_take _ hb.linked off, hb.ph, hb.off, ?_, ?_⟩
  · simp only
    intro hnil
    have := congrArg List.length hnil
    simp only [List.length_take, List.length_nil] at this
    omega
  · intro hne
    obtain ⟨s1, s2⟩ := hb.side hne
    refine ⟨s1, ?_⟩
    intro d hd
    apply s2 d
    simp only at hd
    cases hh : b.headers with
    | nil => rw [hh] at h1; simp at h1
    | cons a rest =>
      rw [hh] at hd
      obtain ⟨o, rfl⟩ : ∃ o, off = o + 1 := ⟨off - 1, by omega⟩
      simpa using hd
  · intro id hh hg
    simp only [Int.toNat_natCast] at hg ⊢
    rw [get?_foldl_del] at hg
    split at hg
    · cases hg
    · rename_i hnot
      obtain ⟨d, hd, hid⟩ := hb.mapSound id hh hg
      refine ⟨d, ?_, hid⟩
      unfold getI at hd ⊢
      split at hd
      · cases hd
      · rename_i hge
        simp only [hge, ↓reduceIte]
        rw [List.getElem?_take]
        have hlt : (hh - b.parentHeight - b.offset).toNat < off := by
          rcases Nat.lt_or_ge (hh - b.parentHeight - b.offset).toNat off with hlt | hge'
          · exact hlt
          · exfalso
            apply hnot
            refine ⟨d, ?_, hid⟩
            have hlen := (List.getElem?_eq_some_iff.mp hd).1
            rw [List.mem_drop_iff_getElem]
            refine ⟨(hh - b.parentHeight - b.offset).toNat - off, by omega, ?_⟩
            have e : off + ((hh - b.parentHeight - b.offset).toNat - off) = (hh - b.parentHeight - b.offset).toNat := by omega
            simp only [e]
            rw [List.getElem?_eq_getElem hlen] at hd
            exact Option.some.inj hd
        simp only [hlt, ↓reduceIte]
        exact hd

/-- **`Trim` at a header a tracked branch holds keeps the forest well linked.** -/
theorem trim_forestOK (r1 : Repo) (hf : ForestOK r1) (id bi : Nat) (h : Int)
    (hfind : r1.branchesFind id = some (bi, h)) (r2 : Repo) (ht : trim r1 bi h = .ok r2) : ForestOK r2 := by
  obtain ⟨hbim, d0, hd0, _⟩ := branchesFind_owner' r1 hf id bi h hfind
  have hbilt := hf.valid bi hbim
  have hb := br_of_lt r1 bi hbilt
  have hcore := hf.ok bi hbim
  obtain ⟨hi0, hi1⟩ := getI_some_range _ _ _ hd0
  unfold trim at ht
  simp only at ht
  by_cases hA : h = (r1.br bi).parentHeight + 1
  · -- the whole branch goes
    rw [if_pos hA] at ht
    simp only [Except.ok.injEq] at ht
    subst ht
    have hoff1 : (r1.br bi).offset = 1 := by have := hcore.off; omega
    obtain ⟨g1, g2⟩ := trimFold_linked r1.arena { r1 with branches := r1.branches.filter (· != bi) } bi h (· != bi)
      ⟨fun x _ => rfl, fun b hbb => ⟨b, hbb, rfl, rfl, rfl, rfl, fun i d hd _ => hd⟩⟩
      (by intro x hx; simpa using hx) r1.branches hf.linked
      (by
        intro _ x hx xb hxb hxp
        obtain ⟨_, pb, d, hpb, hd⟩ := Linked.child_fork r1.arena r1.branches hf.linked x hx xb hxb bi hxp
        rw [hb] at hpb; cases hpb
        obtain ⟨h0, _⟩ := getI_some_range _ _ _ hd
        omega)
    have hlen := trimFold_length { r1 with branches := r1.branches.filter (· != bi) } bi h (r1.branches.filter (· != bi)) ([], [])
    have hsub : ∀ x ∈ ((r1.branches.filter (· != bi)).foldl (trimStep { r1 with branches := r1.branches.filter (· != bi) } bi h) ([], [])).1,
        x ∈ r1.branches := by
      intro x hx
      exact (List.mem_filter.mp ((g2 x).mpr (Or.inl hx))).1
    refine ⟨?_, g1, ?_, ?_⟩
    · intro x hx
      exact hf.ok x (hsub x hx)
    · intro x hx
      exact hf.valid x (hsub x hx)
    · show ((r1.branches.filter (· != bi)).foldl _ ([], [])).1.length ≤ r1.arena.length
      have h1 : (r1.branches.filter (· != bi)).length ≤ r1.branches.length := List.length_filter_le _ _
      have h2 := hf.len
      simp only [List.length_nil, Nat.zero_add] at hlen
      omega
  · rw [if_neg hA] at ht
    by_cases hB : h ≤ (r1.br bi).parentHeight
    · rw [if_pos hB] at ht; cases ht
    · rw [if_neg hB] at ht
      by_cases hC : h - (r1.br bi).parentHeight - (r1.br bi).offset ≥ ((r1.br bi).headers.length : Int)
      · rw [if_pos hC] at ht; cases ht
      · rw [if_neg hC] at ht
        by_cases hD : h - (r1.br bi).parentHeight - (r1.br bi).offset ≤ 0
        · rw [if_pos hD] at ht; cases ht
        · rw [if_neg hD] at ht
          obtain ⟨off, hoff⟩ : ∃ off : Nat, h - (r1.br bi).parentHeight - (r1.br bi).offset = (off : Int) :=
            ⟨(h - (r1.br bi).parentHeight - (r1.br bi).offset).toNat, by omega⟩
          rw [hoff] at ht hC hD
          have hoff0 : 0 < off := by omega
          have hoff1 : off < (r1.br bi).headers.length := by omega
          unfold sliceTo at ht
          have hns : ¬ ((off : Int) < 0 ∨ (off : Int) > ((r1.br bi).headers.length : Int)) := by omega
          rw [if_neg hns] at ht
          simp only [Int.toNat_natCast, Except.ok.injEq] at ht
          subst ht
          have hset : ∀ x, x ≠ bi → (r1.arena.set bi (trimmedBranch (r1.br bi) (off : Int) ((r1.br bi).headers.take off)))[x]? = r1.arena[x]? := by
            intro x hx; rw [List.getElem?_set_ne (Ne.symm hx)]
          have hself : (r1.arena.set bi (trimmedBranch (r1.br bi) (off : Int) ((r1.br bi).headers.take off)))[bi]? =
              some (trimmedBranch (r1.br bi) (off : Int) ((r1.br bi).headers.take off)) := List.getElem?_set_self hbilt
          obtain ⟨g1, g2⟩ := trimFold_linked r1.arena (r1.setBranch bi (trimmedBranch (r1.br bi) (off : Int) ((r1.br bi).headers.take off)))
            bi h (fun _ => true)
            ⟨hset, by
              intro b hbb
              rw [hb] at hbb; cases hbb
              refine ⟨_, hself, rfl, rfl, rfl, rfl, ?_⟩
              intro i d hd hlt
              show getI ((r1.br bi).headers.take off) i = some d
              unfold getI at hd ⊢
              split at hd
              · cases hd
              · rename_i hge
                simp only [hge, ↓reduceIte]
                rw [List.getElem?_take]
                have : i.toNat < off := by omega
                simp only [this, ↓reduceIte]
                exact hd⟩
            (by intro x hx; cases hx) r1.branches hf.linked (by intro hq; cases hq)
          have hft : r1.branches.filter (fun _ => true) = r1.branches := List.filter_eq_self.mpr (fun _ _ => rfl)
          rw [hft] at g1 g2
          have hlen := trimFold_length (r1.setBranch bi (trimmedBranch (r1.br bi) (off : Int) ((r1.br bi).headers.take off))) bi h r1.branches ([], [])
          have hsub : ∀ x ∈ (r1.branches.foldl (trimStep (r1.setBranch bi (trimmedBranch (r1.br bi) (off : Int) ((r1.br bi).headers.take off))) bi h) ([], [])).1,
              x ∈ r1.branches := fun x hx => (g2 x).mpr (Or.inl hx)
          refine ⟨?_, g1, ?_, ?_⟩
          · intro x hx
            have hxm := hsub x hx
            show BrCore (((r1.arena.set bi _)[x]?).getD default)
            by_cases he : x = bi
            · rw [he, hself]
              exact brCore_trimmed _ hcore off hoff0 hoff1
            · rw [hset x he]
              exact hf.ok x hxm
          · intro x hx
            show x < (r1.arena.set bi _).length
            rw [List.length_set]
            exact hf.valid x (hsub x hx)
          · show (r1.branches.foldl _ ([], [])).1.length ≤ (r1.arena.set bi _).length
            rw [List.length_set]
            have h2 := hf.len
            simp only [List.length_nil, Nat.zero_add] at hlen
            omega

/-- **marking a header invalid keeps the forest well linked**, whatever the outcome (already marked, unknown
    hash, trimmed, or an error from `Trim`). -/
theorem markRecord_frame (r : Repo) (id : Nat) :
    (markRecord r id).arena = r.arena ∧ (markRecord r id).branches = r.branches ∧
    (markRecord r id).longest = r.longest := by
  unfold markRecord
  split
  · exact ⟨rfl, rfl, rfl⟩
  · exact ⟨rfl, rfl, rfl⟩

theorem forestOK_markRecord (r : Repo) (hf : ForestOK r) (id : Nat) : ForestOK (markRecord r id) :=
  forestOK_of_frame r _ hf (markRecord_frame r id).1 (markRecord_frame r id).2.1

theorem forestOK_markInvalid (r : Repo) (hf : ForestOK r) (id : Nat) : ForestOK (markInvalid r id).1 := by
  unfold markInvalid
  have hf1 : ForestOK (markRecord r id) := forestOK_markRecord r hf id
  simp only
  cases hfind : (markRecord r id).branchesFind id with
  | none => exact hf1
  | some x =>
    obtain ⟨bi, h⟩ := x
    simp only
    cases ht : trim (markRecord r id) bi h with
    | error e => exact hf1
    | ok r2 =>
      simp only
      have hf2 := trim_forestOK _ hf1 id bi h hfind r2 ht
      cases longestOf r2.arena r2.branches with
      | none => exact hf2
      | some lg => exact forestOK_of_frame r2 _ hf2 rfl rfl

/-- unmarking changes the invalid list only. -/
theorem markNotInvalid_frame (r : Repo) (id : Nat) :
    (markNotInvalid r id).arena = r.arena ∧ (markNotInvalid r id).branches = r.branches ∧
    (markNotInvalid r id).longest = r.longest := by
  unfold markNotInvalid
  split
  · exact ⟨rfl, rfl, rfl⟩
  · exact ⟨rfl, rfl, rfl⟩

end BRV.Repo
