/-
Step-level lemmas for C13: the connection invariant is preserved by every `handleMessage`, and an
unverified connection can only emit quiet effects until `accept`.
-/
import BRV.Proofs.NodeLemmas

namespace BRV.Wire
open BRV BRV.Node

theorem lookupCmd_mem (t : Table) (cmd : Bytes) (h : Handler) (hl : lookupCmd t cmd = some h) :
    ∃ en ∈ t, en.2 = h := by
  unfold lookupCmd at hl
  cases hf : t.find? (fun e => ascii e.1 == cmd) with
  | none => rw [hf] at hl; cases hl
  | some en =>
    rw [hf] at hl
    simp only [Option.map_some, Option.some.injEq] at hl
    exact ⟨en, List.mem_of_find?_eq_some hf, hl⟩

/-- no command of the table `NewBitcoinNode` builds maps to a repository-touching handler. -/
theorem preTable_harmless : preTable.all (fun en => !en.2.touchesRepos) = true := by decide

theorem lookup_pre_harmless (cmd : Bytes) (h : Handler) (hl : lookupCmd preTable cmd = some h) :
    h.touchesRepos = false := by
  obtain ⟨en, hm, he⟩ := lookupCmd_mem _ _ _ hl
  have := List.all_eq_true.mp preTable_harmless en hm
  rw [he] at this
  simpa using this

theorem accept_verified (s : State) : (accept s).1.verified = true ∧ (accept s).1.ready = true := by
  unfold accept; simp only []; split <;> exact ⟨rfl, rfl⟩

theorem accept_fields (s : State) :
    (accept s).1.hsComplete = s.hsComplete ∧ (accept s).1.verifyOnly = s.verifyOnly ∧
    (accept s).1.hasHH = s.hasHH ∧ (s.verifyOnly = true → (accept s).1.stopped = true) := by
  unfold accept; simp only []
  split
  · exact ⟨rfl, rfl, rfl, fun _ => rfl⟩
  · rename_i h; exact ⟨rfl, rfl, rfl, fun hv => absurd hv h⟩

theorem install_keep (es : List (String × String × String)) (b : Bool) (t : Table) (cmd : Bytes)
    (hes : ∀ en ∈ es, ∀ c, cmdString en.1 = some c → ascii c ≠ cmd) :
    lookupCmd (install es b t) cmd = lookupCmd t cmd := by
  unfold install
  induction es generalizing t with
  | nil => rfl
  | cons en r ih =>
    simp only [List.foldl_cons]
    rw [ih _ (fun x hx => hes x (by simp [hx]))]
    split
    · rename_i c h hc _ _
      exact lookupCmd_set_ne _ _ _ _ (hes en (by simp) c hc)
    · rfl

theorem accept_no_ping : ∀ en ∈ Facts.acceptHandlers, ∀ c, cmdString en.1 = some c → ascii c ≠ ascii "ping" := by
  decide

theorem accept_table (s : State) : (accept s).1.table = install Facts.acceptHandlers s.hasTx s.table := by
  unfold accept; simp only []; split <;> rfl

theorem accept_inv (s : State) (hc : s.hsComplete = true) (hp : lookupCmd s.table (ascii "ping") = some .ping) :
    Inv (accept s).1 := by
  have hv := accept_verified s
  have hf := accept_fields s
  refine ⟨?_, ?_, ?_, ?_, by rw [accept_table, install_keep _ _ _ _ accept_no_ping]; exact hp⟩
  · intro h; rw [hv.1] at h; cases h
  · intro _; exact hv.1
  · intro _; rw [hf.1]; exact hc
  · intro h1 _; exact hf.2.2.2 (hf.2.1 ▸ h1)

/-- effects of `accept`: acceptance first; verify-only stops at once. -/
theorem accept_fx (s : State) : ∃ r, (accept s).2.1 = .accepted :: r ∧ (s.verifyOnly = true → .stop ∈ r) := by
  unfold accept; simp only []
  split
  · exact ⟨_, rfl, fun _ => by simp⟩
  · rename_i h; exact ⟨_, rfl, fun hv => absurd hv h⟩

/-- any handler, any state: the state afterwards is a frame of the old one or the result of `accept`. -/
theorem dispatch_frame_or_accept (e : Env) (s : State) (h : Handler) (L : Nat) (ck body : Bytes)
    (hb : s.verified = false → s.blockReq = none) :
    Frame s (dispatch e s h L ck body).st ∨
      (s.hsComplete = true ∧ (dispatch e s h L ck body).st = (accept s).1) := by
  cases h <;> simp only [dispatch]
  · exact Or.inl (hVersion_harmless e s L ck body).1
  · exact Or.inl (hVerack_harmless e s L ck body).1
  · rcases hHeadersVerify_spec e s L body with hh | ⟨h1, h2, _, _⟩
    · exact Or.inl hh.1
    · exact Or.inr ⟨h1, h2⟩
  · exact Or.inl (hHeadersTrack_framed e s L body)
  · exact Or.inl (hProtoconf_harmless e s L ck body).1
  · exact Or.inl (hPing_harmless e s L ck body).1
  · exact Or.inl (hPong_harmless e s L ck body).1
  · exact Or.inl (hReject_harmless e s L ck body).1
  · exact Or.inl (hExtended_framed e s body hb)
  · exact Or.inl (hAddress_framed e s L ck body)
  · exact Or.inl (Frame.refl s)
  · exact Or.inl (hInventory_framed s body)
  · exact Or.inl (hTx_framed e s L true ck body)
  · exact Or.inl (hBlock_framed e s L body hb)

theorem dispatch_inv (e : Env) (s : State) (h : Handler) (L : Nat) (ck body : Bytes) (hI : Inv s) :
    Inv (dispatch e s h L ck body).st := by
  rcases dispatch_frame_or_accept e s h L ck body (fun hv => (hI.pre hv).2.2) with hf | ⟨hc, he⟩
  · exact hI.frame hf
  · rw [he]; exact accept_inv s hc hI.ping

/-- the state carried by an outcome (`none` for a process abort). -/
def Outcome.state : Outcome → Option State
  | .ok s _ _ => some s
  | .need s _ _ => some s
  | .closed s _ => some s
  | .wedged s _ => some s
  | .panic _ => none

def Outcome.effects : Outcome → List Effect
  | .ok _ _ fx => fx
  | .need _ fx _ => fx
  | .closed _ fx => fx
  | .wedged _ fx => fx
  | .panic fx => fx

theorem stopped_frame (s : State) : Frame s { s with stopped := true } :=
  ⟨fun _ => ⟨rfl, rfl⟩, rfl, rfl, rfl, rfl, rfl, id, fun _ => rfl, fun _ _ => rfl, BlkInv.same rfl rfl rfl rfl rfl rfl⟩

theorem toOutcome_state (body : Bytes) (o : HOut) (s' : State) (h : (toOutcome body o).state = some s') :
    s' = o.st ∨ s' = { o.st with stopped := true } := by
  unfold toOutcome at h
  split at h <;> simp only [Outcome.state, Option.some.injEq] at h
  all_goals first
    | exact Or.inl h.symm
    | exact Or.inr h.symm
    | cases h

theorem toOutcome_effects (body : Bytes) (o : HOut) : (toOutcome body o).effects = o.fx := by
  unfold toOutcome; split <;> rfl

/-- **the invariant is inductive**: every state an outcome of `handleMessage` carries satisfies it. -/
theorem handleMessage_inv (e : Env) (s : State) (inp : Bytes) (hI : Inv s) (s' : State)
    (h : (handleMessage e s inp).state = some s') : Inv s' := by
  unfold handleMessage at h
  split at h
  · simp only [Outcome.state, Option.some.injEq] at h; exact h ▸ hI
  · split at h
    · simp only [Outcome.state, Option.some.injEq] at h; exact h ▸ hI.frame (stopped_frame s)
    · split at h
      · simp only [Outcome.state, Option.some.injEq] at h; exact h ▸ hI
      · simp only [] at h
        split at h
        · split at h <;> simp only [Outcome.state, Option.some.injEq] at h
          · exact h ▸ hI
          · exact h ▸ hI.frame (stopped_frame s)
        · split at h
          · split at h <;> (simp only [Outcome.state, Option.some.injEq] at h; exact h ▸ hI)
          · rename_i hd _
            have hd' := fun L ck => dispatch_inv e s hd L ck (inp.drop 24) hI
            rcases toOutcome_state _ _ _ h with rfl | rfl
            · exact hd' _ _
            · exact (hd' _ _).frame (stopped_frame _)

/-! ### until `accept`, effects are quiet -/

/-- scanning a trace: nothing touches a repository before the `accepted` mark. -/
def okBefore : List Effect → Bool
  | [] => true
  | .accepted :: _ => true
  | x :: r => !x.touches && okBefore r

theorem okBefore_quiet {fx : List Effect} (h : quiet fx) : okBefore fx = true ∧ Effect.accepted ∉ fx := by
  induction fx with
  | nil => exact ⟨rfl, by simp⟩
  | cons x r ih =>
    have hx := h x (by simp)
    have hr := ih (fun y hy => h y (by simp [hy]))
    refine ⟨?_, ?_⟩
    · cases x <;> simp_all [okBefore]
    · intro hm
      simp only [List.mem_cons] at hm
      rcases hm with rfl | hm
      · exact hx.2 rfl
      · exact hr.2 hm

theorem okBefore_append {a b : List Effect} (ha : okBefore a = true)
    (hb : Effect.accepted ∈ a ∨ okBefore b = true) : okBefore (a ++ b) = true := by
  induction a with
  | nil =>
    rcases hb with h | h
    · cases h
    · exact h
  | cons x r ih =>
    cases x
    case accepted => rfl
    all_goals
      simp only [okBefore, Bool.and_eq_true] at ha
      simp only [List.cons_append, okBefore, Bool.and_eq_true]
      refine ⟨ha.1, ih ha.2 ?_⟩
      rcases hb with h | h
      · simp only [List.mem_cons] at h
        rcases h with h | h
        · cases h
        · exact Or.inl h
      · exact Or.inr h

/-- what one handler run may do on an unverified connection. -/
def UnverifiedStep (s : State) (o : HOut) : Prop :=
  (Frame s o.st ∧ quiet o.fx) ∨
  (o.st.verified = true ∧ (∃ n r, o.fx = .verifyHeader n :: .accepted :: r ∧ (s.verifyOnly = true → .stop ∈ r)) ∧
    (s.verifyOnly = true → o.res = .stop ∧ o.st.stopped = true))

theorem dispatch_unverified (e : Env) (s : State) (h : Handler) (L : Nat) (ck body : Bytes)
    (hI : Inv s) (hv : s.verified = false) (ht : h.touchesRepos = false) :
    UnverifiedStep s (dispatch e s h L ck body) := by
  have hr : s.ready = false := (hI.pre hv).2.1
  cases h
  case version => exact Or.inl (hVersion_harmless e s L ck body)
  case verack => exact Or.inl (hVerack_harmless e s L ck body)
  case headersVerify =>
    simp only [dispatch]
    rcases hHeadersVerify_spec e s L body with hh | ⟨_, h2, ⟨n, h3⟩, h4⟩
    · exact Or.inl hh
    · obtain ⟨r, hr1, hr2⟩ := accept_fx s
      refine Or.inr ⟨h2 ▸ (accept_verified s).1, ⟨n, r, by rw [h3, hr1], hr2⟩, fun hvo => ⟨h4 hvo, ?_⟩⟩
      rw [h2]; exact (accept_fields s).2.2.2 hvo
  case protoconf => exact Or.inl (hProtoconf_harmless e s L ck body)
  case ping => exact Or.inl (hPing_harmless e s L ck body)
  case pong => exact Or.inl (hPong_harmless e s L ck body)
  case reject => exact Or.inl (hReject_harmless e s L ck body)
  case extended => exact Or.inl (hExtended_notReady e s body hr)
  all_goals simp [Handler.touchesRepos] at ht

end BRV.Wire
