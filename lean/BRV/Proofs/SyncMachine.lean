/-
Helper lemmas for C05: invariants of the request-loop machine (`step`) and of the restart-flag
machine (`tstep`), and the `lastProcBelow` search used to state "most recent processed block".
-/
import BRV.Proofs.SyncLemmas

namespace BRV.Sync

/-! ### requests of a round are a prefix of the plan -/

/-- relation between the requests made so far and the planned list `l`. -/
def ReqInv (l : List (Id × Nat)) (s : S) : Prop :=
  match s.rs with
  | .waiting w => (∃ pre, s.reqs = pre ++ [(w.hash, w.height)]) ∧
      l = s.reqs ++ withHeights w.rest (w.height + 1)
  | .ended _ => s.reqs <+: l

theorem reqInv_prefix (l : List (Id × Nat)) (s : S) (h : ReqInv l s) : s.reqs <+: l := by
  unfold ReqInv at h
  split at h
  · exact ⟨_, h.2.symm⟩
  · exact h

theorem reqInv_addRequest (l : List (Id × Nat)) (s : S) (x : Id) (h : Nat) (rest : List Id)
    (hl : l = s.reqs ++ withHeights (x :: rest) h) : ReqInv l (addRequest s x h rest) := by
  unfold addRequest
  split
  · unfold ReqInv
    simp only
    exact ⟨_, hl.symm⟩
  · unfold ReqInv
    simp only
    refine ⟨⟨s.reqs, rfl⟩, ?_⟩
    rw [hl]; simp [withHeights]

theorem reqInv_step (l : List (Id × Nat)) (s : S) (ev : Ev) (h : ReqInv l s) :
    ReqInv l (step s ev) := by
  have hpre := reqInv_prefix l s h
  cases ev with
  | setView v => exact h
  | poll =>
    unfold step
    cases hrs : s.rs with
    | ended e => simp only; exact h
    | waiting w =>
      simp only
      unfold ReqInv at h; rw [hrs] at h; simp only at h
      split
      · unfold ReqInv; exact hpre
      · split
        · unfold ReqInv; rw [hrs]; exact h
        · split
          · unfold ReqInv; exact hpre
          · split
            · split
              · unfold ReqInv; rw [hrs]; exact h
              · unfold ReqInv; exact hpre
            · unfold ReqInv; exact h
  | complete =>
    unfold step
    cases hrs : s.rs with
    | ended e => simp only; exact h
    | waiting w =>
      simp only
      unfold ReqInv at h; rw [hrs] at h; simp only at h
      split
      · unfold ReqInv; rw [hrs]; exact h
      · split
        · unfold ReqInv; exact hpre
        · rename_i n rest hrest
          apply reqInv_addRequest
          simp only
          rw [h.2, hrest]
  | aborted =>
    unfold step
    cases hrs : s.rs with
    | ended e => simp only; exact h
    | waiting w =>
      simp only
      split
      · unfold ReqInv; exact hpre
      · exact h
  | interrupt =>
    unfold step
    cases hrs : s.rs with
    | ended e => simp only; exact h
    | waiting w => simp only; unfold ReqInv; exact hpre

theorem reqInv_run (l : List (Id × Nat)) (s : S) (evs : List Ev) (h : ReqInv l s) :
    ReqInv l (run s evs) := by
  induction evs generalizing s with
  | nil => exact h
  | cons e es ih => exact ih _ (reqInv_step l s e h)

theorem reqInv_startRound (s : S) :
    ReqInv ((plan s.view s.isProcessed s.start).getD []) (startRound s) := by
  unfold startRound plan
  cases hp : planRes s.view s.isProcessed s.start with
  | plan l h0 =>
    cases l with
    | nil => simp [ReqInv, withHeights, startRoundWith]
    | cons x xs =>
      simp only [Option.getD_some, startRoundWith]
      apply reqInv_addRequest
      simp
  | noTip => simp [ReqInv, startRoundWith]
  | belowStart => simp [ReqInv, startRoundWith]
  | inSync => simp [ReqInv, startRoundWith]
  | lost => simp [ReqInv, startRoundWith]
  | errPrevHash => simp [ReqInv, startRoundWith]
  | fuelOut => simp [ReqInv, startRoundWith]

/-! ### the restart flag -/

theorem trigger_dead (t : T) (h : t.thread = .dead) : (trigger t).thread = .dead ∧ (trigger t).rounds = t.rounds := by
  unfold trigger
  split
  · exact ⟨h, rfl⟩
  · simp [h]

theorem tstep_dead (t : T) (ev : TEv) (h : t.thread = .dead) :
    (tstep t ev).thread = .dead ∧ (tstep t ev).rounds = t.rounds := by
  cases ev with
  | delayComplete =>
    simp only [tstep]
    exact trigger_dead { t with delayDone := true } h
  | trigger => exact trigger_dead t h
  | roundEnd o => simp [tstep, h]
  | markComplete => simp [tstep, h]

/-! ### most recent processed block on the chain -/

/-- greatest height `k < h` whose best-chain block is processed. -/
def lastProcBelow (v : View) (proc : Id → Bool) : Nat → Option Nat
  | 0 => none
  | h + 1 =>
    match v.chain[h]? with
    | some x => if proc x then some h else lastProcBelow v proc h
    | none => lastProcBelow v proc h

theorem lastProcBelow_lt (v : View) (proc : Id → Bool) (h q : Nat)
    (hq : lastProcBelow v proc h = some q) : q < h := by
  induction h with
  | zero => simp [lastProcBelow] at hq
  | succ h ih =>
    simp only [lastProcBelow] at hq
    split at hq
    · split at hq
      · cases hq; omega
      · have := ih hq; omega
    · have := ih hq; omega

theorem lastProcBelow_skip (v : View) (proc : Id → Bool) (f h : Nat) (hfh : f ≤ h)
    (hu : ∀ k, f ≤ k → k < h → ∀ x, v.chain[k]? = some x → proc x = false) :
    lastProcBelow v proc h = lastProcBelow v proc f := by
  induction h with
  | zero => have : f = 0 := by omega
            subst this; rfl
  | succ h ih =>
    by_cases hf : f = h + 1
    · subst hf; rfl
    · simp only [lastProcBelow]
      have ih' := ih (by omega) (fun k h1 h2 => hu k h1 (by omega))
      split
      · rename_i x hx
        have := hu h (by omega) (by omega) x hx
        simp [this, ih']
      · exact ih'

/-! ### further helper lemmas of the C05 theorems -/

/-- on a well-formed view the walk-back always produces a plan: it is never lost, never errs. -/
theorem walkSpec_is_plan (v : View) (proc : Id → Bool) (start T : Nat) (hT : T < v.chain.length) :
    ∀ h, h ≤ T → ∃ l f, walkSpec v proc start T h = .plan l f := by
  intro h
  induction h with
  | zero => intro _; exact ⟨_, _, rfl⟩
  | succ h ih =>
    intro hh
    simp only [walkSpec]
    split
    · exact ⟨_, _, rfl⟩
    · rw [List.getElem?_eq_getElem (by omega : h < v.chain.length)]
      simp only
      split
      · exact ⟨_, _, rfl⟩
      · exact ih (by omega)

/-- the first planned height is never below the start height (given the tip is not). -/
theorem condF_ge_start (v : View) (proc : Id → Bool) (start f T : Nat) (hs : start ≤ T)
    (hc : condF v proc start f T) : start ≤ f := by
  obtain ⟨c1, c2, c3⟩ := hc
  by_cases hlt : f < start
  · have := (c3 f (Nat.le_refl _) (by omega)).1; omega
  · omega

/-- what a round has added to the processed set: the ids of its completed requests, in request
    order — all requests when it finished, all but the outstanding one otherwise. -/
def ProcInv (p0 : List Id) (s : S) : Prop :=
  match s.rs with
  | .waiting w => ∃ pre, s.reqs = pre ++ [(w.hash, w.height)] ∧ s.processed = p0 ++ pre.map (·.1)
  | .ended .finished => s.processed = p0 ++ s.reqs.map (·.1)
  | .ended .mgrStopped => s.processed = p0 ++ s.reqs.map (·.1)
  | .ended _ => s.processed = p0 ++ s.reqs.dropLast.map (·.1)

theorem procInv_addRequest (p0 : List Id) (s : S) (x : Id) (h : Nat) (rest : List Id)
    (hp : s.processed = p0 ++ s.reqs.map (·.1)) : ProcInv p0 (addRequest s x h rest) := by
  unfold addRequest
  split
  · unfold ProcInv; exact hp
  · unfold ProcInv; exact ⟨s.reqs, rfl, hp⟩

theorem procInv_step (p0 : List Id) (s : S) (ev : Ev) (h : ProcInv p0 s) : ProcInv p0 (step s ev) := by
  cases ev with
  | setView v => exact h
  | poll =>
    cases hrs : s.rs with
    | ended e => simp only [step, hrs]; exact h
    | waiting w =>
      unfold ProcInv at h; rw [hrs] at h; simp only at h
      obtain ⟨pre, h1, h2⟩ := h
      simp only [step, hrs]
      split
      · simp [ProcInv, h1, h2]
      · split
        · simp only [ProcInv, hrs]; exact ⟨pre, h1, h2⟩
        · split
          · simp [ProcInv, h1, h2]
          · split
            · split
              · simp only [ProcInv, hrs]; exact ⟨pre, h1, h2⟩
              · simp [ProcInv, h1, h2]
            · simp only [ProcInv]; exact ⟨pre, h1, h2⟩
  | complete =>
    cases hrs : s.rs with
    | ended e => simp only [step, hrs]; exact h
    | waiting w =>
      unfold ProcInv at h; rw [hrs] at h; simp only at h
      obtain ⟨pre, h1, h2⟩ := h
      simp only [step, hrs]
      split
      · simp only [ProcInv, hrs]; exact ⟨pre, h1, h2⟩
      · split
        · simp [ProcInv, h1, h2]
        · apply procInv_addRequest
          simp [h1, h2]
  | aborted =>
    cases hrs : s.rs with
    | ended e => simp only [step, hrs]; exact h
    | waiting w =>
      unfold ProcInv at h; rw [hrs] at h; simp only at h
      obtain ⟨pre, h1, h2⟩ := h
      simp only [step, hrs]
      split
      · simp [ProcInv, h1, h2]
      · simp only [ProcInv, hrs]; exact ⟨pre, h1, h2⟩
  | interrupt =>
    cases hrs : s.rs with
    | ended e => simp only [step, hrs]; exact h
    | waiting w =>
      unfold ProcInv at h; rw [hrs] at h; simp only at h
      obtain ⟨pre, h1, h2⟩ := h
      simp [step, hrs, ProcInv, h1, h2]

theorem procInv_startRound (s : S) : ProcInv s.processed (startRound s) := by
  unfold startRound
  cases planRes s.view s.isProcessed s.start with
  | plan l h0 =>
    cases l with
    | nil => simp [ProcInv, startRoundWith]
    | cons x xs =>
      simp only [startRoundWith]
      apply procInv_addRequest
      simp
  | noTip => simp [ProcInv, startRoundWith]
  | belowStart => simp [ProcInv, startRoundWith]
  | inSync => simp [ProcInv, startRoundWith]
  | lost => simp [ProcInv, startRoundWith]
  | errPrevHash => simp [ProcInv, startRoundWith]
  | fuelOut => simp [ProcInv, startRoundWith]

theorem addRequest_open (s : S) (x : Id) (h : Nat) (rest : List Id) (hm : s.mgrClosed = false) :
    addRequest s x h rest =
      { s with reqs := s.reqs ++ [(x, h)],
               rs := .waiting { hash := x, height := h, rest := rest, nilChans := false } } := by
  simp [addRequest, hm]

theorem withHeights_map_fst (l : List Id) (h : Nat) : (withHeights l h).map (·.1) = l := by
  induction l generalizing h with
  | nil => rfl
  | cons x xs ih => simp [withHeights, ih]

/-- no Go panic is reachable and the round never waits on nil channels. -/
def NoPanic (s : S) : Prop :=
  match s.rs with
  | .waiting w => w.nilChans = false
  | .ended e => e ≠ .panicDoubleClose ∧ e ≠ .panicNilClose

theorem noPanic_addRequest (s : S) (x : Id) (h : Nat) (rest : List Id) :
    NoPanic (addRequest s x h rest) := by
  have hn : nilChecked = true := by decide
  unfold addRequest
  by_cases hm : s.mgrClosed = true
  · simp [hm, hn, NoPanic]
  · simp [hm, NoPanic]

theorem noPanic_step (s : S) (ev : Ev) (h : NoPanic s) : NoPanic (step s ev) := by
  have hg : abortGuarded = true := by decide
  cases ev with
  | setView v => exact h
  | poll =>
    cases hrs : s.rs with
    | ended e => simp only [step, hrs]; exact h
    | waiting w =>
      have hnil : w.nilChans = false := by unfold NoPanic at h; rw [hrs] at h; exact h
      simp only [step, hrs]
      split
      · simp [NoPanic]
      · split
        · exact h
        · simp only [hnil, Bool.false_eq_true, ↓reduceIte, hg]
          split
          · exact h
          · simp [NoPanic, hnil]
  | complete =>
    cases hrs : s.rs with
    | ended e => simp only [step, hrs]; exact h
    | waiting w =>
      simp only [step, hrs]
      split
      · exact h
      · split
        · simp [NoPanic]
        · exact noPanic_addRequest _ _ _ _
  | aborted =>
    cases hrs : s.rs with
    | ended e => simp only [step, hrs]; exact h
    | waiting w =>
      simp only [step, hrs]
      split
      · simp [NoPanic]
      · exact h
  | interrupt =>
    cases hrs : s.rs with
    | ended e => simp only [step, hrs]; exact h
    | waiting w => simp [step, hrs, NoPanic]


end BRV.Sync
