/-
Consequences of the invariant of the block-downloader model: no send blocks, `Run` is never
starved, every schedule is finite, `Run` reports nil only for a handled block.
-/
import BRV.Proofs.BlockDlSteps

namespace BRV.BlockDl

def Label.isRunStep : Label → Bool
  | .rRecvStarted => true | .rSetStarted => true | .rRecvComplete => true | .rSetComplete => true
  | .rIntr => true | .rCancelDecide _ => true | .rCancelSend => true
  | _ => false

/-- the handler is between two of its own statements (or inside the confirmation calls). -/
def HPc.active : HPc → Bool
  | .sendStarted => true | .check1 => true | .afterTx _ => true | .finalCheck => true
  | .confirming => true | .sendComplete _ => true
  | _ => false

/-- the handler waits for the next transaction or the end of the stream. -/
def HPc.waitsStream : HPc → Bool
  | .loop _ => true | .flush _ => true | _ => false

/-! ### no send blocks -/

theorem cnt_get_S (l : List Pend) (i : Nat) (p : Pend) (h : l[i]? = some p) : b2n p.s ≤ cntS l := by
  induction l generalizing i with
  | nil => simp at h
  | cons q qs ih =>
    cases i with
    | zero => simp at h; subst h; simp [cntS]
    | succ i => simp at h; have := ih i h; simp [cntS]; omega

theorem cnt_get_C (l : List Pend) (i : Nat) (p : Pend) (h : l[i]? = some p) : b2n p.c ≤ cntC l := by
  induction l generalizing i with
  | nil => simp at h
  | cons q qs ih =>
    cases i with
    | zero => simp at h; subst h; simp [cntC]
    | succ i => simp at h; have := ih i h; simp [cntC]; omega

theorem sendPend_not_blocked (s : St) (p : Pend) (hS : s.qS.length + b2n p.s ≤ 2)
    (hC : s.qC.length + b2n p.c ≤ 2) : sendPend s p ≠ .blocked := by
  have := cap_started
  have := cap_complete
  rcases sendPend_cases s p with ⟨_, _, hd⟩ | ⟨_, hb⟩ | ⟨_, _, hd⟩ | ⟨_, _, _, hd⟩
  · rw [hd]; simp
  · rcases hb with ⟨h1, h2⟩ | ⟨_, h1, h2⟩
    · simp [b2n, h1] at hS; omega
    · simp [b2n, h1] at hC; omega
  · rw [hd]; simp
  · rw [hd]; simp

theorem no_block_of_inv (s : St) (hi : Inv s) (l : Label) : step s l ≠ .blocked := by
  have c1 := cap_started
  have c2 := cap_complete
  have p1 := hi.potS
  have p2 := hi.potC
  cases l with
  | callerSend i =>
    simp only [step]
    split
    · simp
    · rename_i p hp
      have h1 := cnt_get_S _ _ _ hp
      have h2 := cnt_get_C _ _ _ hp
      have hnb := sendPend_not_blocked s p (by simp only [St.pendS] at p1; omega) (by simp only [St.pendC] at p2; omega)
      split <;> simp_all
  | hSendStarted =>
    simp only [step]
    split
    · rename_i hh
      simp only [hh, HPc.oweS] at p1
      split
      · simp
      · omega
    · simp
  | hSendComplete =>
    simp only [step]
    split
    · rename_i e hh
      simp only [hh, HPc.oweC] at p2
      split
      · simp
      · omega
    · simp
  | rCancelSend =>
    simp only [step]
    split
    · rename_i r p hr
      have hnb := sendPend_not_blocked s p (by simp only [St.pendS, hr, RunPc.pend] at p1; omega)
        (by simp only [St.pendC, hr, RunPc.pend] at p2; omega)
      split <;> simp_all
    · simp
  | run => simp only [step]; split <;> simp
  | intr => simp [step]
  | cancel ans => simp [step]
  | stop => simp [step]
  | hStart w n r => simp only [step]; split <;> simp
  | hTx b => simp only [step]; split <;> simp
  | hEos => simp only [step]; split <;> (try split) <;> (try split) <;> simp
  | hConfirm b => simp only [step]; split <;> simp
  | hCheck1 => simp only [step]; split <;> (try split) <;> (try split) <;> simp
  | hAfterTx => simp only [step]; split <;> (try split) <;> simp
  | hFinalCheck => simp only [step]; split <;> (try split) <;> simp
  | rRecvStarted => simp only [step]; split <;> simp
  | rSetStarted => simp only [step]; split <;> simp
  | rRecvComplete => simp only [step]; split <;> simp
  | rSetComplete => simp only [step]; split <;> simp
  | rIntr => simp only [step]; split <;> (try split) <;> simp
  | rCancelDecide ans => simp only [step]; split <;> simp
  | rTimeout => simp only [step]; split <;> (try split) <;> simp

/-! ### whatever is owed can be delivered -/

theorem sendPend_sent_of (s : St) (p : Pend) (hne : p.isEmpty = false) (hnb : sendPend s p ≠ .blocked) :
    ∃ s' p', sendPend s p = .sent s' p' := by
  rcases sendPend_cases s p with ⟨h1, h2, _⟩ | ⟨hb, _⟩ | ⟨_, _, hd⟩ | ⟨_, _, _, hd⟩
  · simp [Pend.isEmpty, h1, h2] at hne
  · exact absurd hb hnb
  · exact ⟨_, _, hd⟩
  · exact ⟨_, _, hd⟩

theorem callerSend_enabled (s : St) (hi : Inv s) (i : Nat) (p : Pend) (hp : s.callers[i]? = some p)
    (hne : p.isEmpty = false) : ∃ s', step s (.callerSend i) = .next s' := by
  have hnb := no_block_of_inv s hi (.callerSend i)
  simp only [step, hp] at hnb ⊢
  have hnb' : sendPend s p ≠ .blocked := by
    intro hb; rw [hb] at hnb; exact hnb rfl
  obtain ⟨s1, p1, hd⟩ := sendPend_sent_of s p hne hnb'
  rw [hd]
  exact ⟨_, rfl⟩

theorem sends_enabled_of_inv (s : St) (hi : Inv s) :
    (s.hdl = .sendStarted → ∃ s', step s .hSendStarted = .next s') ∧
    (∀ e, s.hdl = .sendComplete e → ∃ s', step s .hSendComplete = .next s') ∧
    (∀ i p, s.callers[i]? = some p → p.isEmpty = false → ∃ s', step s (.callerSend i) = .next s') := by
  refine ⟨?_, ?_, ?_⟩
  · intro hh
    have hnb := no_block_of_inv s hi .hSendStarted
    simp only [step, hh] at hnb ⊢
    split
    · exact ⟨_, rfl⟩
    · rename_i hf; simp [hf] at hnb
  · intro e hh
    have hnb := no_block_of_inv s hi .hSendComplete
    simp only [step, hh] at hnb ⊢
    split
    · exact ⟨_, rfl⟩
    · rename_i hf; simp [hf] at hnb
  · intro i p hp hne
    exact callerSend_enabled s hi i p hp hne

theorem returned_absorbing (s s' : St) (l : Label) (r : Ret) (hr : s.run = .returned r)
    (h : step s l = .next s') : s'.run = .returned r := by
  cases l with
  | cancel ans =>
    simp only [step] at h
    rcases cancelDecide_cases s ans with ⟨_, hd⟩ | ⟨_, _, hd⟩ <;> rw [hd] at h <;>
      simp only [Outcome.next.injEq] at h <;> subst h <;> unfold addCaller <;> split <;> simp [hr]
  | stop =>
    simp only [step] at h
    rcases stopDecide_cases s with ⟨_, hd⟩ | ⟨_, _, hd⟩ <;> rw [hd] at h <;>
      simp only [Outcome.next.injEq] at h <;> subst h <;> unfold addCaller <;> split <;> simp [hr]
  | callerSend i =>
    simp only [step] at h
    split at h
    · exact Outcome.noConfusion h
    · rename_i p hp
      rcases sendPend_cases s p with ⟨_, _, hd⟩ | ⟨hd, _⟩ | ⟨_, _, hd⟩ | ⟨_, _, _, hd⟩ <;> rw [hd] at h
      · exact Outcome.noConfusion h
      · exact Outcome.noConfusion h
      · simp only [Outcome.next.injEq] at h; subst h; simp [hr]
      · simp only [Outcome.next.injEq] at h; subst h; simp [hr]
  | run => simp [step, hr] at h
  | intr => simp only [step, Outcome.next.injEq] at h; subst h; simp [hr]
  | hStart w n r' => simp only [step] at h; split at h <;> first | (exact Outcome.noConfusion h) | (simp only [Outcome.next.injEq] at h; subst h; simp [hr])
  | hTx b => simp only [step] at h; split at h <;> first | (exact Outcome.noConfusion h) | (simp only [Outcome.next.injEq] at h; subst h; simp [hr])
  | hEos =>
    simp only [step] at h
    repeat' (split at h)
    all_goals first | (exact Outcome.noConfusion h) | (simp only [Outcome.next.injEq] at h; subst h; simp [hr])
  | hConfirm b => simp only [step] at h; split at h <;> first | (exact Outcome.noConfusion h) | (simp only [Outcome.next.injEq] at h; subst h; simp [hr])
  | hSendStarted =>
    simp only [step] at h
    repeat' (split at h)
    all_goals first | (exact Outcome.noConfusion h) | (simp only [Outcome.next.injEq] at h; subst h; simp [hr])
  | hCheck1 =>
    simp only [step] at h
    repeat' (split at h)
    all_goals first | (exact Outcome.noConfusion h) | (simp only [Outcome.next.injEq] at h; subst h; simp [hr])
  | hAfterTx =>
    simp only [step] at h
    split at h
    · split at h <;> (simp only [Outcome.next.injEq] at h; subst h; simp [hr])
    · exact Outcome.noConfusion h
  | hFinalCheck =>
    simp only [step] at h
    repeat' (split at h)
    all_goals first | (exact Outcome.noConfusion h) | (simp only [Outcome.next.injEq] at h; subst h; simp [hr])
  | hSendComplete =>
    simp only [step] at h
    repeat' (split at h)
    all_goals first | (exact Outcome.noConfusion h) | (simp only [Outcome.next.injEq] at h; subst h; simp [hr])
  | rRecvStarted => simp only [step, hr] at h; exact Outcome.noConfusion h
  | rSetStarted => simp [step, hr] at h
  | rRecvComplete => simp only [step, hr] at h; exact Outcome.noConfusion h
  | rSetComplete => simp [step, hr] at h
  | rIntr => simp only [step, hr] at h; split at h <;> exact Outcome.noConfusion h
  | rCancelDecide ans => simp [step, hr] at h
  | rCancelSend => simp [step, hr] at h
  | rTimeout => simp [step, hr] at h

/-! ### `Run` is never starved -/

theorem next_of (o : Outcome) (h1 : o ≠ .disabled) (h2 : o ≠ .blocked) : ∃ s', o = .next s' := by
  cases o with
  | disabled => exact absurd rfl h1
  | blocked => exact absurd rfl h2
  | next s' => exact ⟨s', rfl⟩


theorem cntS_pos_get (l : List Pend) (h : 0 < cntS l) : ∃ (i : Nat) (p : Pend), l[i]? = some p ∧ p.s = true := by
  induction l with
  | nil => simp [cntS] at h
  | cons q qs ih =>
    cases hq : q.s
    · simp [cntS, b2n, hq] at h
      obtain ⟨i, p, hp, hs⟩ := ih h
      exact ⟨i + 1, p, by rw [List.getElem?_cons_succ]; exact hp, hs⟩
    · exact ⟨0, q, by simp, hq⟩

theorem cntC_pos_get (l : List Pend) (h : 0 < cntC l) : ∃ (i : Nat) (p : Pend), l[i]? = some p ∧ p.c = true := by
  induction l with
  | nil => simp [cntC] at h
  | cons q qs ih =>
    cases hq : q.c
    · simp [cntC, b2n, hq] at h
      obtain ⟨i, p, hp, hs⟩ := ih h
      exact ⟨i + 1, p, by rw [List.getElem?_cons_succ]; exact hp, hs⟩
    · exact ⟨0, q, by simp, hq⟩

theorem run_progress_of_inv (s : St) (hi : Inv s) (hr : s.run ≠ .idle) (hnr : ∀ r, s.run ≠ .returned r) :
    (∃ l s', l.isRunStep = true ∧ step s l = .next s') ∨
    (∃ i s', step s (.callerSend i) = .next s') ∨
    s.hdl.active = true ∨ s.hdl.waitsStream = true ∨
    (s.hdl = .idle ∧ s.run = .phase1 ∧ s.cancelled = false) ∨
    (s.hdl = .idle ∧ s.cancelled = true ∧ (s.promised = true ∨ s.hasCanceller = false)) := by
  -- a caller with something to send can send it
  by_cases hcs : 0 < cntS s.callers
  · obtain ⟨i, p, hp, hs⟩ := cntS_pos_get _ hcs
    obtain ⟨s', h'⟩ := callerSend_enabled s hi i p hp (by simp [Pend.isEmpty, hs])
    exact Or.inr (Or.inl ⟨i, s', h'⟩)
  by_cases hcc : 0 < cntC s.callers
  · obtain ⟨i, p, hp, hs⟩ := cntC_pos_get _ hcc
    obtain ⟨s', h'⟩ := callerSend_enabled s hi i p hp (by simp [Pend.isEmpty, hs])
    exact Or.inr (Or.inl ⟨i, s', h'⟩)
  have hcs0 : cntS s.callers = 0 := by omega
  have hcc0 : cntC s.callers = 0 := by omega
  have hi0 := hi
  obtain ⟨a1,a2,a3,a4,a5,a6,a7,a8,a9,a10,a11,a12,a13,a14⟩ := hi
  cases hrun : s.run with
  | idle => exact absurd hrun hr
  | returned r => exact absurd hrun (hnr r)
  | gotStarted => exact (by obtain ⟨s', hs'⟩ := next_of (step s .rSetStarted) (by simp [step, hrun]) (no_block_of_inv s hi0 _); exact Or.inl ⟨_, s', rfl, hs'⟩)
  | gotComplete r => exact (by obtain ⟨s', hs'⟩ := next_of (step s .rSetComplete) (by simp [step, hrun]) (no_block_of_inv s hi0 _); exact Or.inl ⟨_, s', rfl, hs'⟩)
  | cancelCall r => exact (by obtain ⟨s', hs'⟩ := next_of (step s (.rCancelDecide true)) (by simp [step, hrun]) (no_block_of_inv s hi0 _); exact Or.inl ⟨_, s', rfl, hs'⟩)
  | cancelSend r p =>
    have hne : step s .rCancelSend ≠ .disabled := by
      simp only [step, hrun]
      split <;> simp
    obtain ⟨s', hs'⟩ := next_of _ hne (no_block_of_inv s hi0 _)
    exact Or.inl ⟨_, s', rfl, hs'⟩
  | phase1 =>
    cases hqs : s.qS with
    | cons t rest => exact (by obtain ⟨s', hs'⟩ := next_of (step s .rRecvStarted) (by simp [step, hrun, hqs]) (no_block_of_inv s hi0 _); exact Or.inl ⟨_, s', rfl, hs'⟩)
    | nil =>
      simp only [hrun, RunPc.early, forall_const] at a5 a12
      simp only [St.pendS, hcs0, hrun, RunPc.pend, b2n] at a9 a12
      simp only [hqs, List.length_nil] at a1
      cases hcan : s.cancelled
      · have := a9 hcan
        cases hh : s.hdl <;> simp_all [HPc.oweS, HPc.active, HPc.waitsStream]
      · have := a12 hcan
        simp at this
        omega
  | phase2 =>
    cases hqc : s.qC with
    | cons t rest => exact (by obtain ⟨s', hs'⟩ := next_of (step s .rRecvComplete) (by simp [step, hrun, hqc]) (no_block_of_inv s hi0 _); exact Or.inl ⟨_, s', rfl, hs'⟩)
    | nil =>
      simp only [hrun, RunPc.noC, RunPc.past1, forall_const] at a6 a7
      simp only [hqc, List.length_nil] at a2
      simp only [St.pendS, St.pendC, hcs0, hcc0, hrun, RunPc.pend, b2n] at a9 a14
      cases hh : s.hdl with
      | idle =>
        cases hcan : s.cancelled
        · have := a9 hcan
          simp [hh, HPc.oweS] at this
          omega
        · have := a14 hcan hh
          simp at this
          rcases this with h1 | h1 | h1
          · omega
          · exact Or.inr (Or.inr (Or.inr (Or.inr (Or.inr ⟨rfl, rfl, Or.inl h1⟩))))
          · exact Or.inr (Or.inr (Or.inr (Or.inr (Or.inr ⟨rfl, rfl, Or.inr h1⟩))))
      | done e => have := a11 (by simp [hh, HPc.oweC]); omega
      | sendStarted => simp [HPc.active]
      | check1 => simp [HPc.active]
      | loop i => simp [HPc.waitsStream]
      | afterTx i => simp [HPc.active]
      | flush e => simp [HPc.waitsStream]
      | finalCheck => simp [HPc.active]
      | confirming => simp [HPc.active]
      | sendComplete e => simp [HPc.active]
  | waitComplete r k =>
    cases hqc : s.qC with
    | cons t rest => exact (by obtain ⟨s', hs'⟩ := next_of (step s .rRecvComplete) (by simp [step, hrun, hqc]) (no_block_of_inv s hi0 _); exact Or.inl ⟨_, s', rfl, hs'⟩)
    | nil =>
      simp only [hrun, RunPc.noC, RunPc.inCancel, forall_const] at a6 a13
      simp only [hqc, List.length_nil] at a2
      simp only [St.pendS, St.pendC, hcs0, hcc0, hrun, RunPc.pend, b2n] at a14
      cases hh : s.hdl with
      | idle =>
        have := a14 a13 hh
        simp at this
        rcases this with h1 | h1 | h1
        · omega
        · exact Or.inr (Or.inr (Or.inr (Or.inr (Or.inr ⟨rfl, a13, Or.inl h1⟩))))
        · exact Or.inr (Or.inr (Or.inr (Or.inr (Or.inr ⟨rfl, a13, Or.inr h1⟩))))
      | done e => have := a11 (by simp [hh, HPc.oweC]); omega
      | sendStarted => simp [HPc.active]
      | check1 => simp [HPc.active]
      | loop i => simp [HPc.waitsStream]
      | afterTx i => simp [HPc.active]
      | flush e => simp [HPc.waitsStream]
      | finalCheck => simp [HPc.active]
      | confirming => simp [HPc.active]
      | sendComplete e => simp [HPc.active]

theorem run_never_stuck_of_inv (s : St) (hi : Inv s) (hr : s.run ≠ .idle) (hnr : ∀ r, s.run ≠ .returned r) :
    ∃ l s', (l.isRunStep = true ∨ l = .rTimeout) ∧ step s l = .next s' := by
  have key : ∀ l : Label, (l.isRunStep = true ∨ l = .rTimeout) → step s l ≠ .disabled →
      ∃ l s', (l.isRunStep = true ∨ l = .rTimeout) ∧ step s l = .next s' := by
    intro l hl hne
    obtain ⟨s', hs'⟩ := next_of _ hne (no_block_of_inv s hi l)
    exact ⟨l, s', hl, hs'⟩
  cases hrun : s.run with
  | idle => exact absurd hrun hr
  | returned r => exact absurd hrun (hnr r)
  | phase1 => exact key .rTimeout (Or.inr rfl) (by simp [step, hrun])
  | phase2 => exact key .rTimeout (Or.inr rfl) (by simp [step, hrun])
  | waitComplete r k => exact key .rTimeout (Or.inr rfl) (by simp only [step, hrun]; split <;> simp)
  | gotStarted => exact key .rSetStarted (Or.inl rfl) (by simp [step, hrun])
  | gotComplete r => exact key .rSetComplete (Or.inl rfl) (by simp [step, hrun])
  | cancelCall r => exact key (.rCancelDecide true) (Or.inl rfl) (by simp [step, hrun])
  | cancelSend r p => exact key .rCancelSend (Or.inl rfl) (by simp only [step, hrun]; split <;> simp)

/-! ### what `Run` reports -/

def RunPc.cancelRet : RunPc → Option Ret
  | .cancelCall r => some r | .cancelSend r _ => some r | .waitComplete r _ => some r | _ => none

/-- what is on `Complete`, and what `Run` took from it, is `cancelled` or the handler's own result. -/
structure Inv2 (s : St) : Prop where
  q : ∀ e ∈ s.qC, e = .cancelled ∨ s.hdl = .done e
  got : ∀ e, (s.run = .gotComplete (.err e) ∨ s.run = .returned (.err e)) → e = .cancelled ∨ s.hdl = .done e
  conf : (s.hdl = .sendComplete .ok ∨ s.hdl = .done .ok ∨ s.hdl = .confirming) → s.confirmed = true
  noErr : ∀ r, s.run.cancelRet = some r → r = .interrupted ∨ r = .timeout
  fl : ∀ e, s.hdl = .flush e → e ≠ .ok

theorem inv2_init (hc : Bool) : Inv2 (init hc) := by
  constructor <;> simp [init, RunPc.cancelRet]

macro "step_inv2" h:ident hi:ident : tactic => `(tactic| (
  simp only [step] at $h:ident
  repeat' (split at $h:ident)
  all_goals (first | (exact Outcome.noConfusion $h:ident) | (simp only [Outcome.next.injEq] at $h:ident; subst $h:ident))
  all_goals (
    obtain ⟨a1,a2,a3,a4,a5⟩ := $hi
    constructor <;> simp_all [RunPc.cancelRet] <;> (try assumption) <;> (try grind))))

theorem inv2_hdl (s : St) (pc : HPc) (hi : Inv2 s) (hnd : ∀ e, s.hdl ≠ .done e)
    (h1 : pc = .sendComplete .ok ∨ pc = .done .ok ∨ pc = .confirming → s.confirmed = true)
    (h2 : ∀ e, pc = .flush e → e ≠ .ok) : Inv2 { s with hdl := pc } := by
  obtain ⟨a1,a2,a3,a4,a5⟩ := hi
  refine ⟨?_, ?_, h1, a4, h2⟩
  · intro e he
    rcases a1 e he with h | h
    · exact Or.inl h
    · exact absurd h (hnd e)
  · intro e he
    rcases a2 e he with h | h
    · exact Or.inl h
    · exact absurd h (hnd e)

/-- a step that only moves `Run` (and touches fields the invariant does not read). -/
theorem inv2_runOnly (s s' : St) (hi : Inv2 s) (hq : s'.qC = s.qC) (hh : s'.hdl = s.hdl) (hc : s'.confirmed = s.confirmed)
    (hgot : ∀ e, (s'.run = .gotComplete (.err e) ∨ s'.run = .returned (.err e)) → e = .cancelled ∨ s.hdl = .done e)
    (hne : ∀ r, s'.run.cancelRet = some r → r = .interrupted ∨ r = .timeout) : Inv2 s' := by
  obtain ⟨a1,a2,a3,a4,a5⟩ := hi
  refine ⟨by rw [hq, hh]; exact a1, by rw [hh]; exact hgot, by rw [hh, hc]; exact a3, hne, by rw [hh]; exact a5⟩

theorem inv2_step (s s' : St) (l : Label) (h : step s l = .next s') (hi : Inv2 s) : Inv2 s' := by
  cases l with
  | cancel ans =>
    simp only [step] at h
    rcases cancelDecide_cases s ans with ⟨_, hd⟩ | ⟨_, _, hd⟩ <;> rw [hd] at h <;>
      simp only [Outcome.next.injEq] at h <;> subst h <;> obtain ⟨a1,a2,a3,a4,a5⟩ := hi <;>
      unfold addCaller <;> split <;> constructor <;> simp_all [RunPc.cancelRet]
  | stop =>
    simp only [step] at h
    rcases stopDecide_cases s with ⟨_, hd⟩ | ⟨_, _, hd⟩ <;> rw [hd] at h <;>
      simp only [Outcome.next.injEq] at h <;> subst h <;> obtain ⟨a1,a2,a3,a4,a5⟩ := hi <;>
      unfold addCaller <;> split <;> constructor <;> simp_all [RunPc.cancelRet]
  | callerSend i =>
    simp only [step] at h
    split at h
    · exact Outcome.noConfusion h
    · rename_i p hp
      rcases sendPend_cases s p with ⟨_, _, hd⟩ | ⟨hd, _⟩ | ⟨_, _, hd⟩ | ⟨_, _, _, hd⟩ <;> rw [hd] at h
      · exact Outcome.noConfusion h
      · exact Outcome.noConfusion h
      · simp only [Outcome.next.injEq] at h; subst h
        obtain ⟨a1,a2,a3,a4,a5⟩ := hi
        constructor <;> simp_all [RunPc.cancelRet]
      · simp only [Outcome.next.injEq] at h; subst h
        obtain ⟨a1,a2,a3,a4,a5⟩ := hi
        constructor <;> simp_all [RunPc.cancelRet]
        intro e he
        rcases he with he | he
        · exact a1 e he
        · exact Or.inl he
  | rCancelDecide ans =>
    simp only [step] at h
    split at h
    · rcases cancelDecide_cases s ans with ⟨_, hd⟩ | ⟨_, _, hd⟩ <;> rw [hd] at h <;>
        simp only [Outcome.next.injEq] at h <;> subst h <;> obtain ⟨a1,a2,a3,a4,a5⟩ := hi <;>
        constructor <;> simp_all [RunPc.cancelRet]
    · exact Outcome.noConfusion h
  | rCancelSend =>
    simp only [step] at h
    split at h
    · rename_i r p hr
      rcases sendPend_cases s p with ⟨_, _, hd⟩ | ⟨hd, _⟩ | ⟨_, _, hd⟩ | ⟨_, _, _, hd⟩ <;> rw [hd] at h
      · simp only [Outcome.next.injEq] at h; subst h
        obtain ⟨a1,a2,a3,a4,a5⟩ := hi
        constructor <;> simp_all [RunPc.cancelRet]
      · exact Outcome.noConfusion h
      · simp only [Outcome.next.injEq] at h; subst h
        obtain ⟨a1,a2,a3,a4,a5⟩ := hi
        constructor <;> simp_all [RunPc.cancelRet]
      · simp only [Outcome.next.injEq] at h; subst h
        obtain ⟨a1,a2,a3,a4,a5⟩ := hi
        constructor <;> simp_all [RunPc.cancelRet]
        intro e he
        rcases he with he | he
        · exact a1 e he
        · exact Or.inl he
    · exact Outcome.noConfusion h
  | run =>
    simp only [step] at h
    split at h
    · simp only [Outcome.next.injEq] at h; subst h
      exact inv2_runOnly s _ hi rfl rfl rfl (by simp) (by simp [RunPc.cancelRet])
    · exact Outcome.noConfusion h
  | intr =>
    simp only [step, Outcome.next.injEq] at h; subst h
    exact inv2_runOnly s _ hi rfl rfl rfl hi.got hi.noErr
  | hStart w n r => step_inv2 h hi
  | hTx b => cases b <;> step_inv2 h hi
  | hEos => step_inv2 h hi
  | hConfirm b => cases b <;> step_inv2 h hi
  | hSendStarted => step_inv2 h hi
  | hCheck1 =>
    simp only [step] at h
    split at h
    · rename_i hh
      split at h
      · simp only [Outcome.next.injEq] at h; subst h
        exact inv2_hdl s _ hi (by simp [hh]) (by simp) (by simp)
      · split at h
        · simp only [Outcome.next.injEq] at h; subst h
          exact inv2_hdl s _ hi (by simp [hh]) (by simp) (by simp)
        · simp only [Outcome.next.injEq] at h; subst h
          exact inv2_hdl s _ hi (by simp [hh]) (by simp) (by simp)
    · exact Outcome.noConfusion h
  | hAfterTx =>
    simp only [step] at h
    split at h
    · rename_i i hh
      split at h
      · simp only [Outcome.next.injEq] at h; subst h
        exact inv2_hdl s _ hi (by simp [hh]) (by simp) (by simp)
      · simp only [Outcome.next.injEq] at h; subst h
        exact inv2_hdl s _ hi (by simp [hh]) (by simp) (by simp)
    · exact Outcome.noConfusion h
  | hFinalCheck => step_inv2 h hi
  | hSendComplete =>
    simp only [step] at h
    split at h
    · rename_i e hh
      split at h
      · simp only [Outcome.next.injEq] at h; subst h
        obtain ⟨a1,a2,a3,a4,a5⟩ := hi
        refine ⟨?_, ?_, ?_, a4, by simp⟩
        · intro x hx
          simp only [List.mem_append, List.mem_singleton] at hx
          rcases hx with hx | rfl
          · rcases a1 x hx with h1 | h1
            · exact Or.inl h1
            · rw [hh] at h1; cases h1
          · exact Or.inr rfl
        · intro x hx
          rcases a2 x hx with h1 | h1
          · exact Or.inl h1
          · rw [hh] at h1; cases h1
        · intro hx
          simp only [HPc.done.injEq, reduceCtorEq, false_or, or_false] at hx
          exact a3 (Or.inl (by rw [hh, hx]))
      · exact Outcome.noConfusion h
    · exact Outcome.noConfusion h
  | rRecvStarted =>
    simp only [step] at h
    split at h
    · simp only [Outcome.next.injEq] at h; subst h
      exact inv2_runOnly s _ hi rfl rfl rfl (by simp) (by simp [RunPc.cancelRet])
    · exact Outcome.noConfusion h
  | rSetStarted =>
    simp only [step] at h
    split at h
    · simp only [Outcome.next.injEq] at h; subst h
      exact inv2_runOnly s _ hi rfl rfl rfl (by simp) (by simp [RunPc.cancelRet])
    · exact Outcome.noConfusion h
  | rRecvComplete => step_inv2 h hi
  | rSetComplete => step_inv2 h hi
  | rIntr => step_inv2 h hi
  | rTimeout =>
    simp only [step] at h
    split at h
    · simp only [Outcome.next.injEq] at h; subst h
      exact inv2_runOnly s _ hi rfl rfl rfl (by simp) (by simp [RunPc.cancelRet])
    · simp only [Outcome.next.injEq] at h; subst h
      exact inv2_runOnly s _ hi rfl rfl rfl (by simp) (by simp [RunPc.cancelRet])
    · rename_i r k hr
      have hne := hi.noErr r (by simp [hr, RunPc.cancelRet])
      split at h
      · simp only [Outcome.next.injEq] at h; subst h
        refine inv2_runOnly s _ hi rfl rfl rfl ?_ (by simp [RunPc.cancelRet])
        intro e he
        simp only [reduceCtorEq, RunPc.returned.injEq, false_or] at he
        rcases hne with h1 | h1 <;> rw [h1] at he <;> cases he
      · simp only [Outcome.next.injEq] at h; subst h
        exact inv2_runOnly s _ hi rfl rfl rfl (by simp) (by simpa [RunPc.cancelRet] using hne)
    · exact Outcome.noConfusion h

theorem inv2_reach (s : St) (h : Reach s) : Inv2 s := by
  induction h with
  | init hc => exact inv2_init hc
  | step l _ hst ih => exact inv2_step _ _ l hst ih

theorem run_ok_sound (s : St) (hi : Inv2 s) (hr : s.run = .returned (.err .ok)) :
    s.hdl = .done .ok ∧ s.confirmed = true := by
  have := hi.got .ok (Or.inr hr)
  rcases this with h | h
  · cases h
  · exact ⟨h, hi.conf (Or.inr (Or.inl h))⟩


/-! ### every schedule is finite -/

def runRank : RunPc → Nat
  | .idle => Facts.cancelWaitLimit + 40
  | .phase1 => Facts.cancelWaitLimit + 38
  | .gotStarted => Facts.cancelWaitLimit + 36
  | .phase2 => Facts.cancelWaitLimit + 34
  | .cancelCall _ => Facts.cancelWaitLimit + 30
  | .cancelSend _ p => Facts.cancelWaitLimit + 24 + 2 * (b2n p.s + b2n p.c)
  | .waitComplete _ k => 10 + (Facts.cancelWaitLimit - k)
  | .gotComplete _ => 5
  | .returned _ => 0

def hdlRank : HPc → Nat
  | .idle => 20 | .sendStarted => 18 | .check1 => 16 | .afterTx _ => 15 | .loop _ => 14 | .flush _ => 12
  | .finalCheck => 10 | .confirming => 8 | .sendComplete _ => 4 | .done _ => 0

/-- a measure that every transition except the arrival of a transaction decreases (or leaves the
    state unchanged). -/
def mu (s : St) : Nat :=
  runRank s.run + hdlRank s.hdl + 2 * (cntS s.callers + cntC s.callers) + s.qS.length + s.qC.length +
    (if s.cancelled then 0 else 5) + (if s.intr then 0 else 1)

theorem intr_eta (s : St) (h : s.intr = true) : { s with intr := true } = s := by
  cases s; simp_all

macro "step_mu" h:ident : tactic => `(tactic| (
  simp only [step] at $h:ident
  repeat' (split at $h:ident)
  all_goals (first | (exact Outcome.noConfusion $h:ident) | (simp only [Outcome.next.injEq] at $h:ident; subst $h:ident))
  all_goals (right; simp_all [mu, runRank, hdlRank, b2n] <;> omega)))

theorem step_decreases (s s' : St) (l : Label) (h : step s l = .next s') (hl : ∀ b, l ≠ .hTx b) :
    s' = s ∨ mu s' < mu s := by
  cases l with
  | hTx b => exact absurd rfl (hl b)
  | intr =>
    simp only [step, Outcome.next.injEq] at h; subst h
    cases hi : s.intr
    · right; simp [mu, hi]
    · left; exact intr_eta s hi
  | cancel ans =>
    simp only [step] at h
    rcases cancelDecide_cases s ans with ⟨_, hd⟩ | ⟨_, hcan, hd⟩ <;> rw [hd] at h <;>
      simp only [Outcome.next.injEq] at h <;> subst h
    · left; exact addCaller_empty s
    · right
      unfold addCaller
      cases hs : s.started <;> cases hc : s.hasCanceller <;> cases ans <;>
        simp [mu, Pend.isEmpty, hcan, cntS_append, cntC_append, cntS, cntC, b2n] <;> omega
  | stop =>
    simp only [step] at h
    rcases stopDecide_cases s with ⟨_, hd⟩ | ⟨_, hcan, hd⟩ <;> rw [hd] at h <;>
      simp only [Outcome.next.injEq] at h <;> subst h
    · left; exact addCaller_empty s
    · right
      unfold addCaller
      cases hs : s.started <;>
        simp [mu, Pend.isEmpty, hcan, cntS_append, cntC_append, cntS, cntC, b2n] <;> omega
  | callerSend i =>
    simp only [step] at h
    split at h
    · exact Outcome.noConfusion h
    · rename_i p hp
      rcases sendPend_cases s p with ⟨_, _, hd⟩ | ⟨hd, _⟩ | ⟨h1, _, hd⟩ | ⟨h1, h2, _, hd⟩ <;> rw [hd] at h
      · exact Outcome.noConfusion h
      · exact Outcome.noConfusion h
      · simp only [Outcome.next.injEq] at h; subst h
        have hS := cntS_set s.callers i p { p with s := false } hp
        have hC := cntC_set s.callers i p { p with s := false } hp
        right
        simp [mu, b2n, h1] at hS hC ⊢
        omega
      · simp only [Outcome.next.injEq] at h; subst h
        have hS := cntS_set s.callers i p { p with c := false } hp
        have hC := cntC_set s.callers i p { p with c := false } hp
        right
        simp [mu, b2n, h1, h2] at hS hC ⊢
        omega
  | rCancelDecide ans =>
    simp only [step] at h
    split at h
    · rename_i r hr
      rcases cancelDecide_cases s ans with ⟨_, hd⟩ | ⟨_, hcan, hd⟩ <;> rw [hd] at h <;>
        simp only [Outcome.next.injEq] at h <;> subst h <;> right
      · simp [mu, runRank, hr, b2n]
      · cases hs : s.started <;> cases hc : s.hasCanceller <;> cases ans <;>
          simp [mu, runRank, hr, hcan, b2n] <;> omega
    · exact Outcome.noConfusion h
  | rCancelSend =>
    simp only [step] at h
    split at h
    · rename_i r p hr
      rcases sendPend_cases s p with ⟨h1, h2, hd⟩ | ⟨hd, _⟩ | ⟨h1, _, hd⟩ | ⟨h1, h2, _, hd⟩ <;> rw [hd] at h
      · simp only [Outcome.next.injEq] at h; subst h
        right; simp [mu, runRank, hr, b2n, h1, h2]; omega
      · exact Outcome.noConfusion h
      · simp only [Outcome.next.injEq] at h; subst h
        right; cases hpc : p.c <;> simp [mu, runRank, hr, b2n, h1, hpc] <;> omega
      · simp only [Outcome.next.injEq] at h; subst h
        right; simp [mu, runRank, hr, b2n, h1, h2]; omega
    · exact Outcome.noConfusion h
  | run => step_mu h
  | hStart w n r => step_mu h
  | hEos => step_mu h
  | hConfirm b => step_mu h
  | hSendStarted => step_mu h
  | hCheck1 => step_mu h
  | hAfterTx => step_mu h
  | hFinalCheck => step_mu h
  | hSendComplete => step_mu h
  | rRecvStarted => step_mu h
  | rSetStarted => step_mu h
  | rRecvComplete => step_mu h
  | rSetComplete => step_mu h
  | rIntr => step_mu h
  | rTimeout => step_mu h


end BRV.BlockDl
