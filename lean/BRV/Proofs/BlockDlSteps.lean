/-
Preservation of `Inv` (Proofs/BlockDlInv.lean) by every transition of the block-downloader model,
one lemma per label, and the resulting invariant of all reachable states.
-/
import BRV.Proofs.BlockDlInv

namespace BRV.BlockDl


theorem cancelDecide_cases (s : St) (ans : Bool) :
((s.complete = true ∨ s.cancelled = true) ∧ cancelDecide s ans = (s, {}) ) ∨
    (s.complete = false ∧ s.cancelled = false ∧
      cancelDecide s ans = ({ s with cancelled := true, promised := s.promised || (s.hasCanceller && ans) },
        { s := !s.started, c := s.hasCanceller && !ans })) := by
  unfold cancelDecide
  cases hc : s.complete <;> cases hx : s.cancelled <;> simp
theorem stopDecide_cases (s : St) :
((s.complete = true ∨ s.cancelled = true) ∧ stopDecide s = (s, {}) ) ∨
    (s.complete = false ∧ s.cancelled = false ∧
      stopDecide s = ({ s with cancelled := true }, { s := !s.started, c := !s.started })) := by
  unfold stopDecide
  cases hc : s.complete <;> cases hx : s.cancelled <;> simp
theorem addCaller_empty (s : St) : addCaller s {} = s := by simp [addCaller, Pend.isEmpty]
theorem sendPend_cases (s : St) (p : Pend) :
    (p.s = false ∧ p.c = false ∧ sendPend s p = .nothing) ∨
    (sendPend s p = .blocked ∧ ((p.s = true ∧ ¬ s.qS.length < Facts.startedCap) ∨ (p.s = false ∧ p.c = true ∧ ¬ s.qC.length < Facts.completeCap))) ∨
    (p.s = true ∧ s.qS.length < Facts.startedCap ∧
      sendPend s p = .sent { s with qS := s.qS ++ [Tok.canceller], sentS := s.sentS + 1 } { p with s := false }) ∨
    (p.s = false ∧ p.c = true ∧ s.qC.length < Facts.completeCap ∧
      sendPend s p = .sent { s with qC := s.qC ++ [Err.cancelled], sentC := s.sentC + 1 } { p with c := false }) := by
  unfold sendPend
  cases hs : p.s <;> cases hc : p.c <;> simp <;> omega

theorem inv_stop (s s' : St) (h : step s .stop = .next s') (hi : Inv s) : Inv s' := by
  simp only [step] at h
  rcases stopDecide_cases s with ⟨hcc, hd⟩ | ⟨h1, h2, hd⟩
  · rw [hd] at h
    simp only [addCaller_empty, Outcome.next.injEq] at h
    exact h ▸ hi
  · rw [hd] at h
    simp only [Outcome.next.injEq] at h
    subst h
    obtain ⟨a1,a2,a3,a4,a5,a6,a7,a8,a9,a10,a11,a12,a13,a14⟩ := hi
    have b9 := a9 h2
    unfold addCaller
    cases hst : s.started <;>
      constructor <;> simp_all [Pend.isEmpty, St.pendS, St.pendC, cntS_append, cntC_append, cntS, cntC, b2n] <;> (try omega) <;>
      (intro hidle; simp_all [HPc.oweS])

theorem inv_rCancelDecide (ans) (s s' : St) (h : step s (.rCancelDecide ans) = .next s') (hi : Inv s) : Inv s' := by
  simp only [step] at h
  split at h
  · rename_i r hr
    rcases cancelDecide_cases s ans with ⟨hcc, hd⟩ | ⟨h1, h2, hd⟩
    · rw [hd] at h
      simp only [Outcome.next.injEq] at h
      subst h
      obtain ⟨a1,a2,a3,a4,a5,a6,a7,a8,a9,a10,a11,a12,a13,a14⟩ := hi
      constructor <;> simp_all [St.pendS, St.pendC, b2n, RunPc.pend, RunPc.early, RunPc.noC, RunPc.past1, RunPc.inCancel] <;> (try omega)
    · rw [hd] at h
      simp only [Outcome.next.injEq] at h
      subst h
      obtain ⟨a1,a2,a3,a4,a5,a6,a7,a8,a9,a10,a11,a12,a13,a14⟩ := hi
      have b9 := a9 h2
      cases hst : s.started <;> cases hcn : s.hasCanceller <;> cases ans <;>
      constructor <;> simp_all [St.pendS, St.pendC, b2n, RunPc.pend, RunPc.early, RunPc.noC, RunPc.past1, RunPc.inCancel] <;> (try omega)
  · cases h

theorem inv_rCancelSend (s s' : St) (h : step s .rCancelSend = .next s') (hi : Inv s) : Inv s' := by
  simp only [step] at h
  split at h
  · rename_i r p hr
    rcases sendPend_cases s p with ⟨h1, h2, hd⟩ | ⟨hd, _⟩ | ⟨h1, h2, hd⟩ | ⟨h1, h2, h3, hd⟩
    · rw [hd] at h
      simp only [Outcome.next.injEq] at h
      subst h
      obtain ⟨a1,a2,a3,a4,a5,a6,a7,a8,a9,a10,a11,a12,a13,a14⟩ := hi
      constructor <;> simp_all [St.pendS, St.pendC, b2n, RunPc.pend, RunPc.early, RunPc.noC, RunPc.past1, RunPc.inCancel] <;> (try omega)
    · rw [hd] at h; cases h
    · rw [hd] at h
      simp only [Outcome.next.injEq] at h
      subst h
      obtain ⟨a1,a2,a3,a4,a5,a6,a7,a8,a9,a10,a11,a12,a13,a14⟩ := hi
      cases hpc : p.c <;>
      constructor <;> simp_all [St.pendS, St.pendC, b2n, RunPc.pend, RunPc.early, RunPc.noC, RunPc.past1, RunPc.inCancel] <;> (try omega)
    · rw [hd] at h
      simp only [Outcome.next.injEq] at h
      subst h
      obtain ⟨a1,a2,a3,a4,a5,a6,a7,a8,a9,a10,a11,a12,a13,a14⟩ := hi
      constructor <;> simp_all [St.pendS, St.pendC, b2n, RunPc.pend, RunPc.early, RunPc.noC, RunPc.past1, RunPc.inCancel] <;> (try omega)
  · cases h

theorem inv_cancel (ans) (s s' : St) (h : step s (.cancel ans) = .next s') (hi : Inv s) : Inv s' := by
  simp only [step] at h
  rcases cancelDecide_cases s ans with ⟨hcc, hd⟩ | ⟨h1, h2, hd⟩
  · rw [hd] at h
    simp only [addCaller_empty, Outcome.next.injEq] at h
    exact h ▸ hi
  · rw [hd] at h
    simp only [Outcome.next.injEq] at h
    subst h
    obtain ⟨a1,a2,a3,a4,a5,a6,a7,a8,a9,a10,a11,a12,a13,a14⟩ := hi
    have b9 := a9 h2
    unfold addCaller
    cases hst : s.started <;> cases hcn : s.hasCanceller <;> cases ans <;>
      constructor <;> simp_all [Pend.isEmpty, St.pendS, St.pendC, cntS_append, cntC_append, cntS, cntC, b2n] <;> (try omega)

theorem inv_callerSend (i) (s s' : St) (h : step s (.callerSend i) = .next s') (hi : Inv s) : Inv s' := by
  simp only [step] at h
  split at h
  · cases h
  · rename_i p hp
    rcases sendPend_cases s p with ⟨_, _, hd⟩ | ⟨hd, _⟩ | ⟨h1, h2, hd⟩ | ⟨h1, h2, h3, hd⟩
    · rw [hd] at h; cases h
    · rw [hd] at h; cases h
    · rw [hd] at h
      simp only [Outcome.next.injEq] at h
      subst h
      have hS' := cntS_set s.callers i p { p with s := false } hp
      have hC' := cntC_set s.callers i p { p with s := false } hp
      obtain ⟨a1,a2,a3,a4,a5,a6,a7,a8,a9,a10,a11,a12,a13,a14⟩ := hi
      have hcan : s.cancelled = true := by
        cases hx : s.cancelled
        · have := a9 hx
          simp [St.pendS, St.pendC, b2n, h1] at this hS' hC'
          omega
        · rfl
      constructor <;> simp_all [St.pendS, St.pendC, b2n] <;> (try omega)
    · rw [hd] at h
      simp only [Outcome.next.injEq] at h
      subst h
      have hS' := cntS_set s.callers i p { p with c := false } hp
      have hC' := cntC_set s.callers i p { p with c := false } hp
      obtain ⟨a1,a2,a3,a4,a5,a6,a7,a8,a9,a10,a11,a12,a13,a14⟩ := hi
      have hcan : s.cancelled = true := by
        cases hx : s.cancelled
        · have := a9 hx
          simp [St.pendS, St.pendC, b2n, h1, h2] at this hS' hC'
          omega
        · rfl
      constructor <;> simp_all [St.pendS, St.pendC, b2n] <;> (try omega)

section simple
attribute [local simp] St.pendS St.pendC cntS cntC RunPc.pend b2n HPc.oweS HPc.oweC RunPc.early RunPc.noC RunPc.past1 RunPc.inCancel

macro "step_inv" h:ident hi:ident : tactic => `(tactic| (
  simp only [step] at $h:ident
  repeat' (split at $h:ident)
  all_goals (first | (exact Outcome.noConfusion $h:ident) | (simp only [Outcome.next.injEq] at $h:ident; subst $h:ident))
  all_goals (
    obtain ⟨a1,a2,a3,a4,a5,a6,a7,a8,a9,a10,a11,a12,a13,a14⟩ := $hi
    constructor <;> simp_all <;> (try omega))))

theorem inv_run (s s' : St) (h : step s .run = .next s') (hi : Inv s) : Inv s' := by step_inv h hi
theorem inv_intr (s s' : St) (h : step s .intr = .next s') (hi : Inv s) : Inv s' := by step_inv h hi
theorem inv_hStart (w n r) (s s' : St) (h : step s (.hStart w n r) = .next s') (hi : Inv s) : Inv s' := by step_inv h hi
theorem inv_hSendStarted (s s' : St) (h : step s .hSendStarted = .next s') (hi : Inv s) : Inv s' := by step_inv h hi
theorem inv_hCheck1 (s s' : St) (h : step s .hCheck1 = .next s') (hi : Inv s) : Inv s' := by step_inv h hi
theorem inv_hAfterTx (s s' : St) (h : step s .hAfterTx = .next s') (hi : Inv s) : Inv s' := by step_inv h hi
theorem inv_hFinalCheck (s s' : St) (h : step s .hFinalCheck = .next s') (hi : Inv s) : Inv s' := by step_inv h hi
theorem inv_hConfirm (b) (s s' : St) (h : step s (.hConfirm b) = .next s') (hi : Inv s) : Inv s' := by step_inv h hi
theorem inv_hSendComplete (s s' : St) (h : step s .hSendComplete = .next s') (hi : Inv s) : Inv s' := by step_inv h hi
theorem inv_rRecvStarted (s s' : St) (h : step s .rRecvStarted = .next s') (hi : Inv s) : Inv s' := by step_inv h hi
theorem inv_rSetStarted (s s' : St) (h : step s .rSetStarted = .next s') (hi : Inv s) : Inv s' := by step_inv h hi
theorem inv_rRecvComplete (s s' : St) (h : step s .rRecvComplete = .next s') (hi : Inv s) : Inv s' := by step_inv h hi
theorem inv_rSetComplete (s s' : St) (h : step s .rSetComplete = .next s') (hi : Inv s) : Inv s' := by step_inv h hi
theorem inv_rIntr (s s' : St) (h : step s .rIntr = .next s') (hi : Inv s) : Inv s' := by step_inv h hi
theorem inv_rTimeout (s s' : St) (h : step s .rTimeout = .next s') (hi : Inv s) : Inv s' := by step_inv h hi

/-- changing the handler's program counter between two states that owe the same sends keeps `Inv`. -/
theorem inv_hdl_same (s : St) (pc : HPc) (hi : Inv s) (h1 : pc.oweS = s.hdl.oweS) (h2 : pc.oweC = s.hdl.oweC)
    (h3 : pc ≠ .idle) : Inv { s with hdl := pc } := by
  obtain ⟨a1,a2,a3,a4,a5,a6,a7,a8,a9,a10,a11,a12,a13,a14⟩ := hi
  constructor <;> simp_all

theorem inv_hTx (b) (s s' : St) (h : step s (.hTx b) = .next s') (hi : Inv s) : Inv s' := by
  simp only [step] at h
  split at h
  · rename_i i hl
    simp only [Outcome.next.injEq] at h
    subst h
    apply inv_hdl_same s _ hi <;> cases b <;> simp [hl]
  · rename_i e hl
    simp only [Outcome.next.injEq] at h
    subst h
    apply inv_hdl_same s _ hi <;> simp [hl]
  · exact Outcome.noConfusion h

theorem inv_hEos (s s' : St) (h : step s .hEos = .next s') (hi : Inv s) : Inv s' := by
  simp only [step] at h
  split at h
  · rename_i i hl
    split at h
    · simp only [Outcome.next.injEq] at h
      subst h
      apply inv_hdl_same s _ hi <;> simp [hl]
    · split at h
      · simp only [Outcome.next.injEq] at h
        subst h
        apply inv_hdl_same s _ hi <;> simp [hl]
      · simp only [Outcome.next.injEq] at h
        subst h
        apply inv_hdl_same s _ hi <;> simp [hl]
  · rename_i e hl
    simp only [Outcome.next.injEq] at h
    subst h
    apply inv_hdl_same s _ hi <;> simp [hl]
  · exact Outcome.noConfusion h

end simple

/-- every transition preserves the invariant. -/
theorem inv_step (s s' : St) (l : Label) (h : step s l = .next s') (hi : Inv s) : Inv s' := by
  cases l with
  | run => exact inv_run s s' h hi
  | intr => exact inv_intr s s' h hi
  | cancel ans => exact inv_cancel ans s s' h hi
  | stop => exact inv_stop s s' h hi
  | hStart w n r => exact inv_hStart w n r s s' h hi
  | hTx b => exact inv_hTx b s s' h hi
  | hEos => exact inv_hEos s s' h hi
  | hConfirm b => exact inv_hConfirm b s s' h hi
  | callerSend i => exact inv_callerSend i s s' h hi
  | hSendStarted => exact inv_hSendStarted s s' h hi
  | hCheck1 => exact inv_hCheck1 s s' h hi
  | hAfterTx => exact inv_hAfterTx s s' h hi
  | hFinalCheck => exact inv_hFinalCheck s s' h hi
  | hSendComplete => exact inv_hSendComplete s s' h hi
  | rRecvStarted => exact inv_rRecvStarted s s' h hi
  | rSetStarted => exact inv_rSetStarted s s' h hi
  | rRecvComplete => exact inv_rRecvComplete s s' h hi
  | rSetComplete => exact inv_rSetComplete s s' h hi
  | rIntr => exact inv_rIntr s s' h hi
  | rCancelDecide ans => exact inv_rCancelDecide ans s s' h hi
  | rCancelSend => exact inv_rCancelSend s s' h hi
  | rTimeout => exact inv_rTimeout s s' h hi

/-- the invariant holds in every reachable state (any schedule, any length). -/
theorem inv_reach (s : St) (h : Reach s) : Inv s := by
  induction h with
  | init hc => exact inv_init hc
  | step l _ hst ih => exact inv_step _ _ l hst ih

end BRV.BlockDl
