/- Basic lemmas about the header repository model shared by several property files. -/
import BRV.Model.RepoOps
import BRV.Model.Locator
import BRV.Model.MainNet

namespace BRV.Repo

/-- a refusal verdict of `precheck` is returned with the repository untouched and no events. -/
theorem processHeader_of_inl (r : Repo) (h : Hdr) (ok : Bool) (v : Verdict)
    (hp : precheck r h ok = .inl v) : processHeader r h ok = (r, { verdict := v, events := [] }) := by
  unfold processHeader; rw [hp]

theorem processHeader_of_inr (r : Repo) (h : Hdr) (ok : Bool) (pb : Nat) (ph : Int) (last : HData)
    (hp : precheck r h ok = .inr (pb, ph, last)) : processHeader r h ok = applyHeader r h pb ph last := by
  unfold processHeader; rw [hp]

/-- everything `precheck` established when it lets a header through. -/
structure Passed (r : Repo) (h : Hdr) (ok : Bool) (pb : Nat) (ph : Int) (lst : HData) : Prop where
  bitsOk : Work.malformedBits h.bits = false
  workOk : r.disableDifficulty = true ∨ ok = true
  parent : r.branchesFind h.prev = some (pb, ph)
  fresh : r.branchesFind h.id = none
  noForeignSplit : r.disableSplit = true ∨ r.cfg.splits.any (fun s => s.height == ph + 1 && s.after == h.id) = false
  required : r.disableSplit = true ∨ requiredViolated r (ph + 1) h.id = false
  daa : daaVerdict r pb (ph + 1) h.bits = none
  notInvalid : r.invalid.contains h.id = false
  lastIs : r.lastOf pb = some lst
  depth : lst.hdr.id ≠ h.prev → (r.br r.longest).height - ph ≤ r.cfg.maxBranchDepth

theorem precheck_inr (r : Repo) (h : Hdr) (ok : Bool) (pb : Nat) (ph : Int) (lst : HData)
    (hp : precheck r h ok = .inr (pb, ph, lst)) : Passed r h ok pb ph lst := by
  unfold precheck at hp
  split at hp
  · cases hp
  rename_i hbits
  split at hp
  · cases hp
  rename_i hwork
  split at hp
  · split at hp
    · cases hp
    · split at hp <;> cases hp
  rename_i pb' ph' hparent
  simp only at hp
  split at hp
  · cases hp
  rename_i hfresh
  split at hp
  · cases hp
  rename_i hsplit
  split at hp
  · cases hp
  rename_i hreq
  split at hp
  · cases hp
  rename_i hdaa
  split at hp
  · cases hp
  rename_i hinv
  split at hp
  · cases hp
  rename_i last' hlast
  split at hp
  · cases hp
  rename_i hdepth
  simp only [Sum.inr.injEq, Prod.mk.injEq] at hp
  obtain ⟨rfl, rfl, rfl⟩ := hp
  refine ⟨by simpa using hbits, ?_, hparent, by simpa using hfresh, ?_, ?_, hdaa, by simpa using hinv, hlast, ?_⟩
  · cases hd : r.disableDifficulty <;> cases ok <;> simp_all
  · cases hs : r.disableSplit <;> simp_all
  · cases hs : r.disableSplit <;> simp_all
  · intro hne
    simp only [not_and, Int.not_lt] at hdepth
    exact hdepth hne

/-- a refusing verdict is never "accepted". -/
theorem daaVerdict_ne_ok (r : Repo) (pb : Nat) (ht : Int) (b : Nat) : daaVerdict r pb ht b ≠ some .ok := by
  unfold daaVerdict
  split
  · split
    · intro hc; cases hc
    · split <;> (intro hc; cases hc)
  · intro hc; cases hc

theorem precheck_inl_ne_ok (r : Repo) (h : Hdr) (ok : Bool) (v : Verdict)
    (hp : precheck r h ok = .inl v) : v ≠ .ok := by
  intro hv; subst hv
  unfold precheck at hp
  split at hp
  · cases hp
  split at hp
  · cases hp
  split at hp
  · split at hp
    · cases hp
    · split at hp <;> cases hp
  simp only at hp
  split at hp
  · cases hp
  split at hp
  · cases hp
  split at hp
  · cases hp
  split at hp
  · rename_i v' hd
    simp only [Sum.inl.injEq] at hp
    subst hp
    exact daaVerdict_ne_ok _ _ _ _ hd
  split at hp
  · cases hp
  split at hp
  · cases hp
  split at hp <;> cases hp

/-- the required-split rule, spelled out. -/
theorem requiredViolated_false_iff (r : Repo) (height : Int) (id : Nat) :
    requiredViolated r height id = false ↔ ∀ rq, r.cfg.required = some rq → height = rq.height → rq.after = id := by
  unfold requiredViolated
  cases hr : r.cfg.required with
  | none => simp
  | some rq =>
    simp only [Bool.and_eq_false_iff, beq_eq_false_iff_ne, ne_eq, bne_eq_false_iff_eq, Option.some.injEq, forall_eq']
    constructor
    · intro h hh
      rcases h with h | h
      · exact absurd hh h
      · exact h
    · intro h
      by_cases hh : height = rq.height
      · right; exact h hh
      · left; exact hh

end BRV.Repo
