/-
What the merkle root commits to, over the ideal hash:
* lists of the SAME length with the same root are equal (`merkleRoot_inj_length`): altering or
  reordering transactions always changes the root;
* the classical exception for different lengths (`merkleRoot_dup_tail`): a level of odd length
  duplicates its last node, so repeating the last transaction of an odd block keeps the root;
* that exception is the only one: two duplicate-free lists of transaction ids with the same root
  are equal (`merkleRoot_inj_nodup`), i.e. a different block with the right root must repeat a txid.
-/
import BRV.Proofs.MerkleRoot

namespace BRV.Merkle

theorem pairUp_inj_length (l1 l2 : List H) (hlen : l1.length = l2.length) (h : pairUp l1 = pairUp l2) :
    l1 = l2 := by
  induction l1 using pairUp.induct generalizing l2 with
  | case1 => exact (List.eq_nil_of_length_eq_zero hlen.symm).symm
  | case2 a =>
    match l2, hlen with
    | [b], _ => simp only [pairUp, List.cons.injEq, H.node.injEq, and_self, and_true] at h; rw [h]
  | case3 a b rest ih =>
    match l2, hlen with
    | c :: d :: rest2, hlen =>
      simp only [pairUp, List.cons.injEq, H.node.injEq] at h
      simp only [List.length_cons, Nat.add_right_cancel_iff] at hlen
      rw [h.1.1, h.1.2, ih rest2 hlen h.2]

/-- same length and same root: same list. -/
theorem merkleRoot_inj_length (l1 l2 : List H) (hlen : l1.length = l2.length)
    (h : merkleRoot l1 = merkleRoot l2) : l1 = l2 := by
  generalize hn : l1.length = n
  induction n using Nat.strongRecOn generalizing l1 l2 with
  | ind n ih =>
    match l1, l2, hlen with
    | [], [], _ => rfl
    | [a], [b], _ =>
      rw [merkleRoot, merkleRoot] at h
      simp only [Option.some.injEq] at h; rw [h]
    | a :: b :: r1, c :: d :: r2, hlen =>
      rw [merkleRoot_step _ (by simp), merkleRoot_step (c :: d :: r2) (by simp)] at h
      apply pairUp_inj_length _ _ hlen
      apply ih (pairUp (a :: b :: r1)).length _ _ _ _ h rfl
      · rw [← hn]; simp only [pairUp_length, List.length_cons]; omega
      · simp only [pairUp_length]; rw [hlen]

/-- **the classical ambiguity**: repeating the last element of an odd level keeps the root. -/
theorem merkleRoot_dup_tail (l : List H) (c : H) (hne : l ≠ []) (heven : l.length % 2 = 0) :
    merkleRoot (l ++ [c]) = merkleRoot (l ++ [c, c]) := by
  have hpos : 0 < l.length := List.length_pos_iff.mpr hne
  rw [merkleRoot_step (l ++ [c]) (by simp; omega), merkleRoot_step (l ++ [c, c]) (by simp)]
  congr 1
  rw [pairUp_odd (l ++ [c]) c (by simp; omega) (by simp), pairs_append_even l c heven]
  have h2 : l ++ [c, c] = (l ++ [c]) ++ [c] := by simp
  rw [h2, pairUp_even _ (by simp; omega),
    pairs_append_odd (l ++ [c]) c c (by simp; omega) (by simp), pairs_append_even l c heven]

theorem merkleRoot_ne_none (m : List H) (hm : m ≠ []) : merkleRoot m ≠ none := by
  generalize hk : m.length = k
  induction k using Nat.strongRecOn generalizing m with
  | ind k ihk =>
    match m, hm with
    | [x], _ => rw [merkleRoot]; simp
    | x :: y :: rest, _ =>
      rw [merkleRoot]
      apply ihk (pairUp (x :: y :: rest)).length _ _ _ rfl
      · rw [← hk]; simp only [pairUp_length, List.length_cons]; omega
      · simp [pairUp]

theorem merkleRoot_nil : merkleRoot [] = none := by rw [merkleRoot]
theorem merkleRoot_single (a : H) : merkleRoot [a] = some a := by rw [merkleRoot]

theorem nodup_map_leaf (ids : List Nat) (h : ids.Nodup) : (ids.map H.leaf).Nodup := by
  induction ids with
  | nil => simp
  | cons a rest ih =>
    simp only [List.nodup_cons] at h
    simp only [List.map_cons, List.nodup_cons, List.mem_map, H.leaf.injEq, exists_eq_right]
    exact ⟨h.1, ih h.2⟩

theorem map_leaf_inj (l1 l2 : List Nat) (h : l1.map H.leaf = l2.map H.leaf) : l1 = l2 := by
  induction l1 generalizing l2 with
  | nil => cases l2 with
    | nil => rfl
    | cons _ _ => simp at h
  | cons a r ih => cases l2 with
    | nil => simp at h
    | cons b r2 =>
      simp only [List.map_cons, List.cons.injEq, H.leaf.injEq] at h
      rw [h.1, ih r2 h.2]

/-! ### duplicate-free lists of transaction ids -/

/-- height along the left spine (all complete or right-duplicated trees are uniform anyway). -/
def ht : H → Nat
  | .leaf _ => 0
  | .node l _ => ht l + 1

theorem mem_pairUp (l : List H) (z : H) (hz : z ∈ pairUp l) : ∃ x y, z = H.node x y ∧ x ∈ l ∧ y ∈ l := by
  induction l using pairUp.induct with
  | case1 => simp [pairUp] at hz
  | case2 a =>
    simp only [pairUp, List.mem_singleton] at hz
    exact ⟨a, a, hz, by simp, by simp⟩
  | case3 a b rest ih =>
    simp only [pairUp, List.mem_cons] at hz
    rcases hz with hz | hz
    · exact ⟨a, b, hz, by simp, by simp⟩
    · obtain ⟨x, y, h1, h2, h3⟩ := ih hz
      exact ⟨x, y, h1, by simp [h2], by simp [h3]⟩

theorem pairUp_nodup (l : List H) (h : l.Nodup) : (pairUp l).Nodup := by
  induction l using pairUp.induct with
  | case1 => simp [pairUp]
  | case2 a => simp [pairUp]
  | case3 a b rest ih =>
    simp only [List.nodup_cons, List.mem_cons, not_or] at h
    simp only [pairUp, List.nodup_cons]
    refine ⟨?_, ih h.2.2⟩
    intro hm
    obtain ⟨x, y, h1, h2, _⟩ := mem_pairUp rest _ hm
    simp only [H.node.injEq] at h1
    exact h.1.2 (h1.1 ▸ h2)

theorem pairUp_inj_nodup (l1 l2 : List H) (h1 : l1.Nodup) (h2 : l2.Nodup) (h : pairUp l1 = pairUp l2) :
    l1 = l2 := by
  induction l1 using pairUp.induct generalizing l2 with
  | case1 =>
    match l2 with
    | [] => rfl
    | [_] => simp [pairUp] at h
    | _ :: _ :: _ => simp [pairUp] at h
  | case2 a =>
    match l2 with
    | [] => simp [pairUp] at h
    | [b] => simp only [pairUp, List.cons.injEq, H.node.injEq, and_self, and_true] at h; rw [h]
    | c :: d :: rest =>
      simp only [pairUp, List.cons.injEq, H.node.injEq] at h
      simp only [List.nodup_cons, List.mem_cons, not_or] at h2
      exact absurd (h.1.1.symm.trans h.1.2) h2.1.1
  | case3 a b rest ih =>
    simp only [List.nodup_cons, List.mem_cons, not_or] at h1
    match l2 with
    | [] => simp [pairUp] at h
    | [c] =>
      simp only [pairUp, List.cons.injEq, H.node.injEq] at h
      exact absurd (h.1.1.trans h.1.2.symm) h1.1.1
    | c :: d :: rest2 =>
      simp only [pairUp, List.cons.injEq, H.node.injEq] at h
      simp only [List.nodup_cons, List.mem_cons, not_or] at h2
      rw [h.1.1, h.1.2, ih rest2 h1.2.2 h2.2.2 h.2]

theorem pairUp_ht (l : List H) (d : Nat) (h : ∀ x ∈ l, ht x = d) : ∀ z ∈ pairUp l, ht z = d + 1 := by
  intro z hz
  obtain ⟨x, y, h1, h2, _⟩ := mem_pairUp l z hz
  rw [h1]; simp [ht, h x h2]

/-- the root of a non-empty level of height-`d` nodes has height at least `d` … -/
theorem merkleRoot_ht (l : List H) (d : Nat) (h : ∀ x ∈ l, ht x = d) (r : H) (hr : merkleRoot l = some r) :
    d ≤ ht r ∧ (2 ≤ l.length → d + 1 ≤ ht r) := by
  generalize hn : l.length = n
  induction n using Nat.strongRecOn generalizing l d with
  | ind n ih =>
    match l with
    | [] => rw [merkleRoot] at hr; cases hr
    | [a] =>
      rw [merkleRoot] at hr
      simp only [Option.some.injEq] at hr
      subst hr
      exact ⟨by rw [h a (by simp)]; exact Nat.le_refl _, fun h2 => by simp only [List.length_singleton] at hn; omega⟩
    | a :: b :: rest =>
      rw [merkleRoot_step _ (by simp)] at hr
      have := ih (pairUp (a :: b :: rest)).length
        (by rw [← hn]; simp only [pairUp_length, List.length_cons]; omega)
        _ (d + 1) (pairUp_ht _ d h) hr rfl
      exact ⟨by omega, fun _ => this.1⟩

/-- **no other ambiguity**: duplicate-free levels of uniform height with the same root are equal. -/
theorem merkleRoot_inj_nodup_ht (l1 l2 : List H) (d : Nat) (hd1 : ∀ x ∈ l1, ht x = d)
    (hd2 : ∀ x ∈ l2, ht x = d) (h1 : l1.Nodup) (h2 : l2.Nodup) (h : merkleRoot l1 = merkleRoot l2) :
    l1 = l2 := by
  generalize hn : l1.length + l2.length = n
  induction n using Nat.strongRecOn generalizing l1 l2 d with
  | ind n ih =>
    match l1, l2 with
    | [], [] => rfl
    | [], b :: r2 =>
      rw [merkleRoot_nil] at h
      exact absurd h.symm (merkleRoot_ne_none _ (by simp))
    | a :: r1, [] =>
      rw [merkleRoot_nil] at h
      exact absurd h (merkleRoot_ne_none _ (by simp))
    | [a], [b] =>
      rw [merkleRoot, merkleRoot] at h
      simp only [Option.some.injEq] at h; rw [h]
    | [a], c :: e :: r2 =>
      exfalso
      rw [merkleRoot_single] at h
      have := (merkleRoot_ht (c :: e :: r2) d hd2 a h.symm).2 (by simp)
      rw [hd1 a (by simp)] at this
      omega
    | a :: b :: r1, [c] =>
      exfalso
      rw [merkleRoot_single] at h
      have := (merkleRoot_ht (a :: b :: r1) d hd1 c h).2 (by simp)
      rw [hd2 c (by simp)] at this
      omega
    | a :: b :: r1, c :: e :: r2 =>
      rw [merkleRoot_step _ (by simp), merkleRoot_step (c :: e :: r2) (by simp)] at h
      apply pairUp_inj_nodup _ _ h1 h2
      apply ih ((pairUp (a :: b :: r1)).length + (pairUp (c :: e :: r2)).length) _ _ _ (d + 1)
        (pairUp_ht _ d hd1) (pairUp_ht _ d hd2) (pairUp_nodup _ h1) (pairUp_nodup _ h2) h rfl
      rw [← hn]; simp only [pairUp_length, List.length_cons]; omega

theorem merkleRoot_inj_nodup (ids1 ids2 : List Nat) (h1 : ids1.Nodup) (h2 : ids2.Nodup)
    (h : merkleRoot (ids1.map H.leaf) = merkleRoot (ids2.map H.leaf)) : ids1 = ids2 := by
  have := merkleRoot_inj_nodup_ht (ids1.map H.leaf) (ids2.map H.leaf) 0
    (by intro x hx; obtain ⟨n, _, rfl⟩ := List.mem_map.mp hx; rfl)
    (by intro x hx; obtain ⟨n, _, rfl⟩ := List.mem_map.mp hx; rfl)
    (nodup_map_leaf _ h1) (nodup_map_leaf _ h2) h
  exact map_leaf_inj _ _ this

/-! ### the textbook path (specification sanity) -/

theorem pairUp_sibling (l : List H) (i : Nat) (x : H) (hx : l[i]? = some x) :
    ∃ s, sibling l i = some s ∧
      (pairUp l)[i / 2]? = some (if i % 2 = 0 then H.node x s else H.node s x) := by
  induction l using pairUp.induct generalizing i with
  | case1 => simp at hx
  | case2 a =>
    cases i with
    | zero => simp at hx; subst hx; exact ⟨a, rfl, by simp [pairUp]⟩
    | succ j => simp at hx
  | case3 a b rest ih =>
    match i with
    | 0 => simp at hx; subst hx; exact ⟨b, rfl, by simp [pairUp]⟩
    | 1 => simp at hx; subst hx; exact ⟨a, rfl, by simp [pairUp]⟩
    | j + 2 =>
      have hx' : rest[j]? = some x := by simpa using hx
      obtain ⟨s, hs1, hs2⟩ := ih j hx'
      refine ⟨s, by simp [sibling, hs1], ?_⟩
      have h1 : (j + 2) / 2 = j / 2 + 1 := by omega
      have h2 : (j + 2) % 2 = j % 2 := by omega
      simp only [pairUp, h1, h2, List.getElem?_cons_succ]
      exact hs2

/-- **the textbook path is a merkle path**: climbing from leaf `i` along `merklePath l i` with the
    bits of `i` gives `merkleRoot l`. -/
theorem climb_merklePath (l : List H) (i : Nat) (x : H) (hx : l[i]? = some x) :
    some (climb i x (merklePath l i)) = merkleRoot l := by
  generalize hn : l.length = n
  induction n using Nat.strongRecOn generalizing l i x with
  | ind n ih =>
    match l with
    | [] => simp at hx
    | [a] =>
      cases i with
      | zero => simp at hx; subst hx; rw [merklePath, merkleRoot]; rfl
      | succ j => simp at hx
    | a :: b :: rest =>
      obtain ⟨s, hs1, hs2⟩ := pairUp_sibling (a :: b :: rest) i x hx
      rw [merklePath, hs1, merkleRoot_step _ (by simp)]
      simp only [climb]
      exact ih (pairUp (a :: b :: rest)).length
        (by rw [← hn]; simp only [pairUp_length, List.length_cons]; omega) _ _ _ hs2 rfl

end BRV.Merkle
