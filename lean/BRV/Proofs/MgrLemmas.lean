/- Lemmas about the routing model (Model/Mgr.lean) used by Props/C13.lean. Core Lean only. -/
import BRV.Model.Mgr

namespace BRV.Mgr

/-! ## the scan of `nextNode` -/

theorem selectable_not_stopped {fl : View} {has : HasData} {id : Nat} (h : (fl id).stopped = true) :
    selectable fl has id = false := by simp [selectable, h]

/-- one iteration inside the list: remove a stopped node, return a selectable one, else advance. -/
theorem scan_step (fl : View) (has : HasData) (fuel : Nat) (nodes : List Nat) (off : Nat) (looped : Bool)
    (hlt : off < nodes.length) :
    scan fl has (fuel + 1) nodes off looped =
      if (fl nodes[off]).stopped = true then scan fl has fuel (nodes.eraseIdx off) off looped
      else if selectable fl has nodes[off] = true then (nodes, off + 1, some nodes[off])
      else scan fl has fuel nodes (off + 1) looped := by
  have h1 : ¬ off ≥ nodes.length := by omega
  have hnd : nodes[off]? = some nodes[off] := List.getElem?_eq_getElem hlt
  rw [scan]
  simp only [h1, if_false, hnd, selectable]
  by_cases hs : (fl nodes[off]).stopped = true
  · simp [hs]
  · have hs' := Bool.eq_false_iff.mpr hs
    by_cases hr : (fl nodes[off]).ready = true
    · by_cases hb : (fl nodes[off]).busy = true
      · simp [hs', hr, hb]
      · have hb' := Bool.eq_false_iff.mpr hb
        by_cases hd : has nodes[off] = true
        · simp [hs', hr, hb', hd]
        · have hd' := Bool.eq_false_iff.mpr hd
          simp [hs', hr, hb', hd']
    · have hr' := Bool.eq_false_iff.mpr hr
      simp [hs', hr']

/-- one iteration at or beyond the end of the list: the one wrap, or "No nodes available". -/
theorem scan_wrap (fl : View) (has : HasData) (fuel : Nat) (nodes : List Nat) (off : Nat) (looped : Bool)
    (h : off ≥ nodes.length) :
    scan fl has (fuel + 1) nodes off looped =
      if (looped || decide (nodes.length = 0)) = true then (nodes, off, none) else scan fl has fuel nodes 0 true := by
  rw [scan]
  simp only [h, if_true]

theorem length_eraseIdx_lt {nodes : List Nat} {off : Nat} (hlt : off < nodes.length) :
    (nodes.eraseIdx off).length = nodes.length - 1 := by
  rw [List.length_eraseIdx]; simp [hlt]

theorem drop_eraseIdx_self {nodes : List Nat} {off : Nat} (hlt : off < nodes.length) :
    (nodes.eraseIdx off).drop off = nodes.drop (off + 1) := by
  rw [List.eraseIdx_eq_take_drop_succ, List.drop_append, List.drop_take]
  simp [List.length_take, Nat.min_eq_left (Nat.le_of_lt hlt)]

theorem take_eraseIdx_self {nodes : List Nat} {off : Nat} (hlt : off < nodes.length) :
    (nodes.eraseIdx off).take off = nodes.take off := by
  rw [List.eraseIdx_eq_take_drop_succ, List.take_append]
  simp [List.length_take, List.take_take, Nat.min_eq_left (Nat.le_of_lt hlt)]

theorem drop_eq_cons {nodes : List Nat} {off : Nat} (hlt : off < nodes.length) :
    nodes.drop off = nodes[off] :: nodes.drop (off + 1) := (List.getElem_cons_drop hlt).symm

theorem filter_split (p : Nat → Bool) {nodes : List Nat} {off : Nat} (hlt : off < nodes.length) :
    nodes.filter p = (nodes.take off).filter p ++ (nodes[off] :: nodes.drop (off + 1)).filter p := by
  rw [← List.filter_append, ← drop_eq_cons hlt, List.take_append_drop]

theorem take_succ_eq {nodes : List Nat} {off : Nat} (hlt : off < nodes.length) :
    nodes.take (off + 1) = nodes.take off ++ [nodes[off]] := by
  rw [List.take_add_one, List.getElem?_eq_getElem hlt]; rfl

/-- whatever `scan` returns passed the four tests, is in the list it was given and in the list that remains. -/
theorem scan_selected (fl : View) (has : HasData) (fuel : Nat) (nodes : List Nat) (off : Nat) (looped : Bool)
    (id : Nat) (h : (scan fl has fuel nodes off looped).2.2 = some id) :
    selectable fl has id = true ∧ id ∈ nodes ∧ id ∈ (scan fl has fuel nodes off looped).1 := by
  induction fuel generalizing nodes off looped with
  | zero => simp [scan] at h
  | succ fuel ih =>
    by_cases h1 : off ≥ nodes.length
    · rw [scan_wrap _ _ _ _ _ _ h1] at h ⊢
      split at h
      · simp at h
      · rename_i h2
        rw [if_neg h2]
        exact ih _ _ _ h
    · have hlt : off < nodes.length := by omega
      rw [scan_step _ _ _ _ _ _ hlt] at h ⊢
      split at h
      · rename_i hs
        rw [if_pos hs]
        have := ih _ _ _ h
        exact ⟨this.1, List.mem_of_mem_eraseIdx this.2.1, this.2.2⟩
      · rename_i hs
        rw [if_neg hs]
        split at h
        · rename_i hsel
          rw [if_pos hsel]
          simp only [Option.some.injEq] at h
          subst h
          exact ⟨hsel, List.getElem_mem hlt, List.getElem_mem hlt⟩
        · rename_i hsel
          rw [if_neg hsel]
          exact ih _ _ _ h

/-- `scan` only ever removes nodes. -/
theorem scan_sublist (fl : View) (has : HasData) (fuel : Nat) (nodes : List Nat) (off : Nat) (looped : Bool) :
    (scan fl has fuel nodes off looped).1.Sublist nodes := by
  induction fuel generalizing nodes off looped with
  | zero => simp [scan]
  | succ fuel ih =>
    by_cases h1 : off ≥ nodes.length
    · rw [scan_wrap _ _ _ _ _ _ h1]
      split
      · exact List.Sublist.refl _
      · exact ih _ _ _
    · have hlt : off < nodes.length := by omega
      rw [scan_step _ _ _ _ _ _ hlt]
      split
      · exact (ih _ _ _).trans (List.eraseIdx_sublist _ _)
      · split
        · exact List.Sublist.refl _
        · exact ih _ _ _

/-- what `scan` removes is stopped. -/
theorem scan_removed_stopped (fl : View) (has : HasData) (fuel : Nat) (nodes : List Nat) (off : Nat) (looped : Bool)
    (id : Nat) (hin : id ∈ nodes) :
    id ∈ (scan fl has fuel nodes off looped).1 ∨ (fl id).stopped = true := by
  induction fuel generalizing nodes off looped with
  | zero => simp [scan, hin]
  | succ fuel ih =>
    by_cases h1 : off ≥ nodes.length
    · rw [scan_wrap _ _ _ _ _ _ h1]
      split
      · exact Or.inl hin
      · exact ih _ _ _ hin
    · have hlt : off < nodes.length := by omega
      rw [scan_step _ _ _ _ _ _ hlt]
      split
      · rename_i hs
        by_cases hid : id ∈ nodes.eraseIdx off
        · exact ih _ _ _ hid
        · right
          have : id = nodes[off] := by
            rcases List.mem_iff_getElem.mp hin with ⟨i, hi, hget⟩
            by_cases hio : i = off
            · subst hio; exact hget.symm
            · exfalso
              apply hid
              rw [List.mem_eraseIdx_iff_getElem]
              exact ⟨i, hi, hio, hget⟩
          rw [this]; exact hs
      · split
        · exact Or.inl hin
        · exact ih _ _ _ hin

theorem scanMeasure_pos (nodes : List Nat) (off : Nat) (looped : Bool) : 0 < scanMeasure nodes off looped := by
  unfold scanMeasure; omega

theorem scanMeasure_adv {nodes : List Nat} {off : Nat} {looped : Bool} {n : Nat} (hlt : off < nodes.length)
    (h : scanMeasure nodes off looped ≤ n + 1) : scanMeasure nodes (off + 1) looped ≤ n := by
  unfold scanMeasure at h ⊢; omega

theorem scanMeasure_erase {nodes : List Nat} {off : Nat} {looped : Bool} {n : Nat} (hlt : off < nodes.length)
    (h : scanMeasure nodes off looped ≤ n + 1) : scanMeasure (nodes.eraseIdx off) off looped ≤ n := by
  unfold scanMeasure at h ⊢; rw [length_eraseIdx_lt hlt]
  cases looped <;> simp at h ⊢ <;> omega

theorem scanMeasure_wrap {nodes : List Nat} {off : Nat} {n : Nat}
    (h : scanMeasure nodes off false ≤ n + 1) : nodes.length - 0 + 1 ≤ n := by
  unfold scanMeasure at h; simp at h; omega

/-- **fuel.** With at least `scanMeasure` units of fuel the result of `scan` does not depend on the fuel:
    the `(nodes, off, none)` of the fuel-exhausted equation is never reached. -/
theorem scan_fuel_stable (fl : View) (has : HasData) (f g : Nat) (nodes : List Nat) (off : Nat) (looped : Bool)
    (hf : scanMeasure nodes off looped ≤ f) (hg : scanMeasure nodes off looped ≤ g) :
    scan fl has f nodes off looped = scan fl has g nodes off looped := by
  induction f generalizing g nodes off looped with
  | zero => have := scanMeasure_pos nodes off looped; omega
  | succ f ih =>
    cases g with
    | zero => have := scanMeasure_pos nodes off looped; omega
    | succ g =>
      by_cases h1 : off ≥ nodes.length
      · rw [scan_wrap _ _ _ _ _ _ h1, scan_wrap _ _ _ _ _ _ h1]
        split
        · rfl
        · rename_i h2
          have hl : looped = false := by cases looped <;> simp_all
          subst hl
          apply ih
          · have := scanMeasure_wrap hf; unfold scanMeasure; simp; omega
          · have := scanMeasure_wrap hg; unfold scanMeasure; simp; omega
      · have hlt : off < nodes.length := by omega
        rw [scan_step _ _ _ _ _ _ hlt, scan_step _ _ _ _ _ _ hlt]
        split
        · exact ih _ _ _ _ (scanMeasure_erase hlt hf) (scanMeasure_erase hlt hg)
        · split
          · rfl
          · exact ih _ _ _ _ (scanMeasure_adv hlt hf) (scanMeasure_adv hlt hg)

/-- the fuel `nextNode` gives is enough. -/
theorem nextNode_measure (nodes : List Nat) (off : Nat) : scanMeasure nodes off false ≤ 2 * nodes.length + 2 := by
  unfold scanMeasure; simp; omega

theorem nextNode_selected (fl : View) (has : HasData) (nodes : List Nat) (off : Nat) (id : Nat)
    (h : (nextNode fl has nodes off).2.2 = some id) :
    selectable fl has id = true ∧ id ∈ nodes ∧ id ∈ (nextNode fl has nodes off).1 := by
  unfold nextNode at h ⊢
  split at h
  · simp at h
  · rename_i hn
    rw [if_neg hn]
    exact scan_selected _ _ _ _ _ _ _ h

theorem nextNode_sublist (fl : View) (has : HasData) (nodes : List Nat) (off : Nat) :
    (nextNode fl has nodes off).1.Sublist nodes := by
  unfold nextNode
  split
  · exact List.Sublist.refl _
  · exact scan_sublist _ _ _ _ _ _

theorem nextNode_removed_stopped (fl : View) (has : HasData) (nodes : List Nat) (off : Nat) (id : Nat) (hin : id ∈ nodes) :
    id ∈ (nextNode fl has nodes off).1 ∨ (fl id).stopped = true := by
  unfold nextNode
  split
  · exact Or.inl hin
  · exact scan_removed_stopped _ _ _ _ _ _ _ hin

/-! ## first-fit specification of the scan -/

/-- after the wrap the scan is a plain search of the rest of the list. -/
theorem scan_looped_find (fl : View) (has : HasData) (fuel : Nat) (nodes : List Nat) (off : Nat)
    (hf : nodes.length - off + 1 ≤ fuel) :
    (scan fl has fuel nodes off true).2.2 = (nodes.drop off).find? (selectable fl has) := by
  induction fuel generalizing nodes off with
  | zero => omega
  | succ fuel ih =>
    by_cases h1 : off ≥ nodes.length
    · rw [scan_wrap _ _ _ _ _ _ h1]
      simp [List.drop_eq_nil_of_le h1]
    · have hlt : off < nodes.length := by omega
      rw [scan_step _ _ _ _ _ _ hlt, drop_eq_cons hlt, List.find?_cons]
      split
      · rename_i hs
        rw [ih _ _ (by rw [length_eraseIdx_lt hlt]; omega), drop_eraseIdx_self hlt, selectable_not_stopped hs]
      · split
        · rename_i hsel
          rw [hsel]
        · rename_i hsel
          have : selectable fl has nodes[off] = false := by simpa using hsel
          rw [ih _ _ (by omega), this]

/-- **first fit.** Before the wrap: the first selectable node at or after the offset, else the first
    selectable node before it. -/
theorem scan_find (fl : View) (has : HasData) (fuel : Nat) (nodes : List Nat) (off : Nat)
    (hf : scanMeasure nodes off false ≤ fuel) :
    (scan fl has fuel nodes off false).2.2 =
      ((nodes.drop off).find? (selectable fl has)).or ((nodes.take off).find? (selectable fl has)) := by
  induction fuel generalizing nodes off with
  | zero => have := scanMeasure_pos nodes off false; omega
  | succ fuel ih =>
    by_cases h1 : off ≥ nodes.length
    · rw [scan_wrap _ _ _ _ _ _ h1]
      by_cases h2 : nodes.length = 0
      · have : nodes = [] := List.length_eq_zero_iff.mp h2
        subst this
        simp
      · simp only [h2, Bool.false_or, decide_false, Bool.false_eq_true, if_false]
        rw [scan_looped_find _ _ _ _ _ (scanMeasure_wrap hf)]
        simp [List.drop_eq_nil_of_le h1, List.take_of_length_le h1]
    · have hlt : off < nodes.length := by omega
      rw [scan_step _ _ _ _ _ _ hlt, drop_eq_cons hlt, List.find?_cons]
      split
      · rename_i hs
        rw [ih _ _ (scanMeasure_erase hlt hf), drop_eraseIdx_self hlt, take_eraseIdx_self hlt,
          selectable_not_stopped hs]
      · split
        · rename_i hsel
          rw [hsel]; rfl
        · rename_i hsel
          have hsel' : selectable fl has nodes[off] = false := by simpa using hsel
          rw [ih _ _ (scanMeasure_adv hlt hf), hsel', take_succ_eq hlt, List.find?_append, List.find?_cons, hsel']
          simp

/-! ## a full scan removes every stopped node -/

theorem scan_looped_none_filter (fl : View) (has : HasData) (fuel : Nat) (nodes : List Nat) (off : Nat)
    (hf : nodes.length - off + 1 ≤ fuel) (hnone : (scan fl has fuel nodes off true).2.2 = none) :
    (scan fl has fuel nodes off true).1 = nodes.take off ++ (nodes.drop off).filter (fun id => !(fl id).stopped) := by
  induction fuel generalizing nodes off with
  | zero => omega
  | succ fuel ih =>
    by_cases h1 : off ≥ nodes.length
    · rw [scan_wrap _ _ _ _ _ _ h1]
      simp [List.drop_eq_nil_of_le h1, List.take_of_length_le h1]
    · have hlt : off < nodes.length := by omega
      rw [scan_step _ _ _ _ _ _ hlt] at hnone ⊢
      rw [drop_eq_cons hlt, List.filter_cons]
      split
      · rename_i hs
        rw [if_pos hs] at hnone
        rw [ih _ _ (by rw [length_eraseIdx_lt hlt]; omega) hnone, drop_eraseIdx_self hlt, take_eraseIdx_self hlt]
        simp [hs]
      · rename_i hs
        rw [if_neg hs] at hnone
        split
        · rename_i hsel
          rw [if_pos hsel] at hnone
          simp at hnone
        · rename_i hsel
          rw [if_neg hsel] at hnone
          have hns : (fl nodes[off]).stopped = false := by simpa using hs
          rw [ih _ _ (by omega) hnone, take_succ_eq hlt, List.append_assoc]
          simp [hns]

/-- a scan that finds nothing has removed every stopped node of the list and kept the others in order. -/
theorem scan_none_filter (fl : View) (has : HasData) (fuel : Nat) (nodes : List Nat) (off : Nat)
    (hf : scanMeasure nodes off false ≤ fuel) (hnone : (scan fl has fuel nodes off false).2.2 = none) :
    (scan fl has fuel nodes off false).1 = nodes.filter (fun id => !(fl id).stopped) := by
  induction fuel generalizing nodes off with
  | zero => have := scanMeasure_pos nodes off false; omega
  | succ fuel ih =>
    by_cases h1 : off ≥ nodes.length
    · rw [scan_wrap _ _ _ _ _ _ h1] at hnone ⊢
      by_cases h2 : nodes.length = 0
      · have : nodes = [] := List.length_eq_zero_iff.mp h2
        subst this
        simp
      · simp only [h2, Bool.false_or, decide_false, Bool.false_eq_true, if_false] at hnone ⊢
        rw [scan_looped_none_filter _ _ _ _ _ (scanMeasure_wrap hf) hnone]
        simp
    · have hlt : off < nodes.length := by omega
      rw [scan_step _ _ _ _ _ _ hlt] at hnone ⊢
      split
      · rename_i hs
        rw [if_pos hs] at hnone
        rw [ih _ _ (scanMeasure_erase hlt hf) hnone, filter_split _ hlt, List.filter_cons,
          List.eraseIdx_eq_take_drop_succ, List.filter_append]
        simp [hs]
      · rename_i hs
        rw [if_neg hs] at hnone
        split
        · rename_i hsel
          rw [if_pos hsel] at hnone
          simp at hnone
        · rename_i hsel
          rw [if_neg hsel] at hnone
          exact ih _ _ (scanMeasure_adv hlt hf) hnone

/-! ## the request loops -/

theorem selectable_flags {fl : View} {has : HasData} {id : Nat} (h : selectable fl has id = true) :
    (fl id).stopped = false ∧ (fl id).ready = true ∧ (fl id).busy = false ∧ has id = true := by
  simp only [selectable, Bool.and_eq_true, Bool.not_eq_true'] at h
  exact ⟨h.1.1.1, h.1.1.2, h.1.2, h.2⟩

theorem nodeRequestHeaders_ok {f : Flags} {locOk : Bool} (h : nodeRequestHeaders f locOk = .ok) :
    f.busy = false ∧ f.sendOk = true := by
  unfold nodeRequestHeaders at h
  split at h
  · simp at h
  · split at h
    · simp at h
    · split at h
      · rename_i hb _ hs; exact ⟨by simpa using hb, hs⟩
      · simp at h

theorem nodeRequestBlock_ok {f : Flags} (h : nodeRequestBlock f = .ok) : f.busy = false ∧ f.sendOk = true := by
  unfold nodeRequestBlock at h
  split at h
  · simp at h
  · split at h
    · rename_i hb hs; exact ⟨by simpa using hb, hs⟩
    · simp at h

theorem nodeRequestBlock_closed {f : Flags} (h : nodeRequestBlock f = .chanClosed) : f.busy = false := by
  unfold nodeRequestBlock at h
  split at h
  · simp at h
  · rename_i hb; simpa using hb

theorem nodeRequestBlock_not_other (f : Flags) : nodeRequestBlock f ≠ .other := by
  unfold nodeRequestBlock
  split
  · simp
  · split <;> simp

/-- a node that just passed `nextNode`'s tests cannot answer `ErrBusy`: the view is constant under the manager's mutex. -/
theorem nodeRequestBlock_not_busy {fl : View} {has : HasData} {id : Nat} (h : selectable fl has id = true) :
    nodeRequestBlock (fl id) ≠ .busy := by
  have := (selectable_flags h).2.2.1
  unfold nodeRequestBlock; rw [this]; simp; split <;> simp

/-- `RequestHeaders`: whoever gets the `getheaders` passed the four tests of `nextNode`. -/
theorem reqHeadersLoop_sends (fl : View) (locOk : Bool) (k : Nat) (nodes : List Nat) (off : Nat) :
    ∀ p ∈ (reqHeadersLoop fl locOk k nodes off).sends,
      p.2 = Msg.getheaders ∧ selectable fl allData p.1 = true ∧ (fl p.1).sendOk = true ∧ p.1 ∈ nodes := by
  induction k generalizing nodes off with
  | zero => simp [reqHeadersLoop]
  | succ k ih =>
    intro p hp
    rw [reqHeadersLoop] at hp
    rcases hnx : nextNode fl allData nodes off with ⟨nodes', off', sel⟩
    have hsub := nextNode_sublist fl allData nodes off
    rw [hnx] at hp hsub
    cases sel with
    | none => simp at hp
    | some id =>
      have hsel := nextNode_selected fl allData nodes off id (by rw [hnx])
      simp only [] at hp
      cases hq : nodeRequestHeaders (fl id) locOk with
      | ok =>
        rw [hq] at hp
        simp only [List.mem_singleton] at hp
        subst hp
        exact ⟨rfl, hsel.1, (nodeRequestHeaders_ok hq).2, hsel.2.1⟩
      | busy =>
        rw [hq] at hp
        have := ih _ _ p hp
        exact ⟨this.1, this.2.1, this.2.2.1, hsub.subset this.2.2.2⟩
      | chanClosed =>
        rw [hq] at hp
        have := ih _ _ p hp
        exact ⟨this.1, this.2.1, this.2.2.1, hsub.subset this.2.2.2⟩
      | other => rw [hq] at hp; simp at hp

/-- `RequestTxs`: whoever gets the `getdata` passed the four tests of `nextNode`. -/
theorem reqTxsLoop_sends (fl : View) (k : Nat) (nodes : List Nat) (off : Nat) (pend : List TxEntry) :
    ∀ p ∈ (reqTxsLoop fl k nodes off pend).r.sends,
      selectable fl allData p.1 = true ∧ (fl p.1).sendOk = true ∧ p.1 ∈ nodes := by
  induction k generalizing nodes off pend with
  | zero => simp [reqTxsLoop]
  | succ k ih =>
    intro p hp
    rw [reqTxsLoop] at hp
    rcases hnx : nextNode fl allData nodes off with ⟨nodes', off', sel⟩
    have hsub := nextNode_sublist fl allData nodes off
    rw [hnx] at hp hsub
    cases sel with
    | none => simp at hp
    | some id =>
      have hsel := nextNode_selected fl allData nodes off id (by rw [hnx])
      simp only [] at hp
      split at hp
      · simp at hp
      · cases hq : nodeRequestTxs (fl id) with
        | ok =>
          rw [hq] at hp
          simp only [List.mem_singleton] at hp
          subst hp
          refine ⟨hsel.1, ?_, hsel.2.1⟩
          unfold nodeRequestTxs at hq
          split at hq
          · assumption
          · simp at hq
        | busy =>
          rw [hq] at hp
          have := ih _ _ _ p hp
          exact ⟨this.1, this.2.1, hsub.subset this.2.2⟩
        | chanClosed =>
          rw [hq] at hp
          have := ih _ _ _ p hp
          exact ⟨this.1, this.2.1, hsub.subset this.2.2⟩
        | other => rw [hq] at hp; simp at hp

theorem setBusy_ready (fl : View) (id j : Nat) : (setBusy fl id j).ready = (fl j).ready := by
  unfold setBusy; split <;> simp_all

theorem setBusy_stopped (fl : View) (id j : Nat) : (setBusy fl id j).stopped = (fl j).stopped := by
  unfold setBusy; split <;> simp_all

theorem setBusy_sendOk (fl : View) (id j : Nat) : (setBusy fl id j).sendOk = (fl j).sendOk := by
  unfold setBusy; split <;> simp_all

theorem setBusy_busy_of (fl : View) (id j : Nat) (h : (setBusy fl id j).busy = false) : (fl j).busy = false := by
  unfold setBusy at h; split at h <;> simp_all

theorem setBusy_self (fl : View) (id : Nat) : (setBusy fl id id).busy = true := by
  unfold setBusy; simp

theorem selectable_of_setBusy {fl : View} {has : HasData} {id j : Nat} (h : selectable (setBusy fl id) has j = true) :
    selectable fl has j = true := by
  have := selectable_flags h
  simp only [selectable, Bool.and_eq_true, Bool.not_eq_true']
  rw [setBusy_stopped, setBusy_ready] at this
  exact ⟨⟨⟨this.1, this.2.1⟩, setBusy_busy_of _ _ _ this.2.2.1⟩, this.2.2.2⟩

/-- `RequestBlock`: whoever gets the `getdata` passed the four tests (for the view the call started
    with) including `hasData`, and its channel was open. -/
theorem reqBlockLoop_sends (has : HasData) (b : Nat) (k : Nat) (fl : View) (nodes : List Nat) (off : Nat) (tried : List Nat) :
    ∀ p ∈ (reqBlockLoop has b k fl nodes off tried).sends,
      p.2 = Msg.getdataBlock b ∧ selectable fl has p.1 = true ∧ (fl p.1).sendOk = true ∧ p.1 ∈ nodes := by
  induction k generalizing fl nodes off tried with
  | zero => simp [reqBlockLoop]
  | succ k ih =>
    intro p hp
    rw [reqBlockLoop] at hp
    rcases hnx : nextNode fl has nodes off with ⟨nodes', off', sel⟩
    have hsub := nextNode_sublist fl has nodes off
    rw [hnx] at hp hsub
    cases sel with
    | none => simp at hp
    | some id =>
      have hsel := nextNode_selected fl has nodes off id (by rw [hnx])
      simp only [] at hp
      cases hq : nodeRequestBlock (fl id) with
      | ok =>
        rw [hq] at hp
        simp only [List.mem_singleton] at hp
        subst hp
        exact ⟨rfl, hsel.1, (nodeRequestBlock_ok hq).2, hsel.2.1⟩
      | busy =>
        rw [hq] at hp
        have := ih _ _ _ _ p hp
        exact ⟨this.1, this.2.1, this.2.2.1, hsub.subset this.2.2.2⟩
      | chanClosed =>
        rw [hq] at hp
        have := ih _ _ _ _ p hp
        refine ⟨this.1, selectable_of_setBusy this.2.1, ?_, hsub.subset this.2.2.2⟩
        rw [← setBusy_sendOk fl id]; exact this.2.2.1
      | other => rw [hq] at hp; simp at hp

/-- idle nodes of the list: the measure of the `RequestBlock` loop. -/
def idleCount (fl : View) (nodes : List Nat) : Nat := nodes.countP fun id => !(fl id).busy

theorem idleCount_le_length (fl : View) (nodes : List Nat) : idleCount fl nodes ≤ nodes.length :=
  List.countP_le_length

theorem idleCount_sublist (fl : View) {l₁ l₂ : List Nat} (h : l₁.Sublist l₂) : idleCount fl l₁ ≤ idleCount fl l₂ :=
  h.countP_le

theorem idleCount_setBusy_le (fl : View) (id : Nat) (nodes : List Nat) :
    idleCount (setBusy fl id) nodes ≤ idleCount fl nodes := by
  induction nodes with
  | nil => simp [idleCount]
  | cons a l ih =>
    unfold idleCount at ih ⊢
    rw [List.countP_cons, List.countP_cons]
    have : (!(setBusy fl id a).busy) = true → (!(fl a).busy) = true := by
      intro h
      have h' : (setBusy fl id a).busy = false := by simpa using h
      simp [setBusy_busy_of _ _ _ h']
    by_cases h : (!(setBusy fl id a).busy) = true
    · rw [if_pos h, if_pos (this h)]; omega
    · rw [if_neg h]; split <;> omega

theorem idleCount_setBusy_lt (fl : View) (id : Nat) (nodes : List Nat) (hin : id ∈ nodes) (hidle : (fl id).busy = false) :
    idleCount (setBusy fl id) nodes < idleCount fl nodes := by
  induction nodes with
  | nil => simp at hin
  | cons a l ih =>
    have hle := idleCount_setBusy_le fl id l
    unfold idleCount at ih hle ⊢
    rw [List.countP_cons, List.countP_cons]
    by_cases ha : a = id
    · subst ha
      simp only [setBusy_self, hidle, Bool.not_true, Bool.not_false, Bool.false_eq_true, if_false, if_true]
      omega
    · have hin' : id ∈ l := by
        rcases List.mem_cons.mp hin with h | h
        · exact absurd h.symm ha
        · exact h
      have := ih hin'
      have hsame : (setBusy fl id a).busy = (fl a).busy := by unfold setBusy; simp [ha]
      rw [hsame]
      split <;> omega

/-- **fuel of `RequestBlock`.** Every retry stamps a request on a node that was idle, so with more
    fuel than idle nodes the loop's result does not depend on the fuel: `Err.spin` is not reached. -/
theorem reqBlockLoop_fuel_stable (has : HasData) (b : Nat) (f g : Nat) (fl : View) (nodes : List Nat) (off : Nat) (tried : List Nat)
    (hf : idleCount fl nodes < f) (hg : idleCount fl nodes < g) :
    reqBlockLoop has b f fl nodes off tried = reqBlockLoop has b g fl nodes off tried := by
  induction f generalizing g fl nodes off tried with
  | zero => omega
  | succ f ih =>
    cases g with
    | zero => omega
    | succ g =>
      rw [reqBlockLoop, reqBlockLoop]
      rcases hnx : nextNode fl has nodes off with ⟨nodes', off', sel⟩
      have hsub := nextNode_sublist fl has nodes off
      rw [hnx] at hsub
      simp only [] at hsub
      cases sel with
      | none => rfl
      | some id =>
        have hsel := nextNode_selected fl has nodes off id (by rw [hnx])
        rw [hnx] at hsel
        simp only []
        cases hq : nodeRequestBlock (fl id) with
        | ok => rfl
        | busy => exact absurd hq (nodeRequestBlock_not_busy hsel.1)
        | chanClosed =>
          simp only []
          have h1 := idleCount_setBusy_lt fl id nodes' hsel.2.2 (nodeRequestBlock_closed hq)
          have h2 := idleCount_sublist fl hsub
          exact ih _ _ _ _ _ (by omega) (by omega)
        | other => rfl

theorem reqBlockLoop_no_spin (has : HasData) (b : Nat) (f : Nat) (fl : View) (nodes : List Nat) (off : Nat) (tried : List Nat)
    (hf : idleCount fl nodes < f) : (reqBlockLoop has b f fl nodes off tried).err ≠ .spin := by
  induction f generalizing fl nodes off tried with
  | zero => omega
  | succ f ih =>
    rw [reqBlockLoop]
    rcases hnx : nextNode fl has nodes off with ⟨nodes', off', sel⟩
    have hsub := nextNode_sublist fl has nodes off
    rw [hnx] at hsub
    simp only [] at hsub
    cases sel with
    | none => simp
    | some id =>
      have hsel := nextNode_selected fl has nodes off id (by rw [hnx])
      rw [hnx] at hsel
      simp only []
      cases hq : nodeRequestBlock (fl id) with
      | ok => simp
      | busy => exact absurd hq (nodeRequestBlock_not_busy hsel.1)
      | chanClosed =>
        simp only []
        have h1 := idleCount_setBusy_lt fl id nodes' hsel.2.2 (nodeRequestBlock_closed hq)
        have h2 := idleCount_sublist fl hsub
        exact ih _ _ _ _ (by omega)
      | other => simp

end BRV.Mgr
