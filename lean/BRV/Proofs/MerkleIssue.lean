/-
The decision logic of `handleBlock` (model): a dichotomy between the SILENT outcomes (only ProcessTx
calls were made, the result is an error) and the VERIFIED outcome, in which the rest of the function
is `issuePhase` applied to the canonical data (all received txs processed, relevant txids in block
order, one verified proof per relevant transaction).
-/
import BRV.Proofs.MerkleBlock

namespace BRV.Merkle

/-- everything after the last guard of `handleBlock`. -/
def issuePhase (env : Env) (header : Header) (calls0 : List Call) (coinbase : Option H)
    (ids : List H) (proofs : List Proof) : List Call × Result :=
  let calls := calls0 ++ [Call.processCoinbase env.requested coinbase]
  if env.coinbaseErr then (calls, .coinbaseErr)
  else
    let (calls, okc) := confirmLoop env header ids proofs 0 calls
    if ¬ okc then (calls, .confirmErr)
    else
      let calls := calls ++ [Call.appendTxIDs env.requested ids]
      if env.storeErr then (calls, .storeErr) else (calls, .ok)

/-- the ConfirmTx call for one relevant transaction. -/
def mkConfirm (env : Env) (header : Header) (txid : H) (p : Proof) : Call :=
  Call.confirm txid env.height p header env.requested

/-- the ConfirmTx loop issues a prefix of the per-transaction calls, all of them unless a call fails. -/
theorem confirmLoop_spec (env : Env) (header : Header) (ids : List H) (ps : List Proof) (k : Nat)
    (calls0 : List Call) :
    (∃ n, (confirmLoop env header ids ps k calls0).1 =
        calls0 ++ (List.zipWith (mkConfirm env header) ids ps).take n) ∧
    ((confirmLoop env header ids ps k calls0).2 = true →
      (confirmLoop env header ids ps k calls0).1 = calls0 ++ List.zipWith (mkConfirm env header) ids ps) ∧
    ((confirmLoop env header ids ps k calls0).2 = false →
      ∃ j, env.confirmErr = some j ∧ k ≤ j ∧ j < k + min ids.length ps.length) ∧
    ((∀ j, k ≤ j → j < k + min ids.length ps.length → env.confirmErr ≠ some j) →
      (confirmLoop env header ids ps k calls0).2 = true) ∧
    ((confirmLoop env header ids ps k calls0).2 = true →
      ∀ j, k ≤ j → j < k + min ids.length ps.length → env.confirmErr ≠ some j) := by
  induction ids generalizing ps k calls0 with
  | nil => simp [confirmLoop]; intro j h1 h2; omega
  | cons txid ids ih =>
    cases ps with
    | nil => simp [confirmLoop]; intro j h1 h2; omega
    | cons p ps =>
      simp only [confirmLoop, List.zipWith_cons_cons]
      by_cases hf : env.confirmErr = some k
      · simp only [hf, ↓reduceIte]
        refine ⟨⟨1, by simp [mkConfirm]⟩, ?_, ?_, ?_, ?_⟩
        · intro h; simp at h
        · intro _
          exact ⟨k, rfl, Nat.le_refl k, by simp only [List.length_cons]; omega⟩
        · intro hall
          exact absurd rfl (hall k (Nat.le_refl k) (by simp only [List.length_cons]; omega))
        · intro h; simp at h
      · simp only [hf, ↓reduceIte]
        obtain ⟨⟨n, hn⟩, h2, h3, h4, h5⟩ := ih ps (k + 1) (calls0 ++ [mkConfirm env header txid p])
        simp only [mkConfirm] at hn h2 h3 h4 h5
        refine ⟨⟨n + 1, ?_⟩, ?_, ?_, ?_, ?_⟩
        · rw [hn]; simp [mkConfirm]
        · intro h; rw [h2 h]; simp [mkConfirm]
        · intro h
          obtain ⟨j, hj1, hj2, hj3⟩ := h3 h
          exact ⟨j, hj1, by omega, by simp only [List.length_cons]; omega⟩
        · intro hall
          apply h4
          intro j hj1 hj2
          exact hall j (by omega) (by simp only [List.length_cons]; omega)
        · intro h j hj1 hj2
          by_cases hjk : j = k
          · subst hjk; exact hf
          · exact h5 h j (by omega) (by simp only [List.length_cons] at hj2; omega)

/-- the conditions under which `handleBlock` reaches the issue phase, apart from proof validity. -/
structure AllGood (env : Env) (header : Header) (txCount : Nat) (recv : List H) : Prop where
  noProcErr : ∀ k, k < recv.length → env.proc k ≠ .error
  noCancel : ∀ k, k < recv.length → env.cancelDuring ≠ some k
  count : recv.length = txCount
  root : merkleRoot recv = header.root
  noLateCancel : env.cancelAfterLast = false

/-- **decision logic of handleBlock.** Either nothing was issued and the result is an error, or the
    block passed every guard and what follows is `issuePhase` on canonical data. -/
theorem inner_cases (env : Env) (header : Header) (txCount : Nat) (recv : List H) :
    ((∀ c ∈ (handleBlockInner env header txCount recv).1, c.isIssue = false) ∧
      ((handleBlockInner env header txCount recv).2 = .processErr ∨
        (handleBlockInner env header txCount recv).2 = .cancelled ∨
        (handleBlockInner env header txCount recv).2 = .wrongRoot ∨
        (handleBlockInner env header txCount recv).2 = .proofInvalid) ∧
      (AllGood env header txCount recv →
        (handleBlockInner env header txCount recv).2 = .proofInvalid ∧
        ∃ st ps, txLoop env recv {} = .inl st ∧ LoopInv st recv (relPos env 0 recv) ∧
          st.tree.finalize = some (merkleRoot recv, ps) ∧
          ∃ p ∈ ps, p.verify header.root ≠ .ok)) ∨
    (AllGood env header txCount recv ∧
      ∃ ps : List Proof,
        ps.map Proof.key = (relPos env 0 recv).map keyOf ∧
        (∀ p ∈ ps, p.verify header.root = .ok) ∧
        (∃ st, txLoop env recv {} = .inl st ∧ LoopInv st recv (relPos env 0 recv) ∧
          st.tree.finalize = some (merkleRoot recv, ps)) ∧
        handleBlockInner env header txCount recv =
          issuePhase env header (recv.map Call.processTx) recv.head?
            ((relPos env 0 recv).map (·.1)) ps) := by
  have hspec := txLoop_spec env recv {} [] [] loopInv_init
  unfold handleBlockInner
  split
  · -- returned from inside the loop
    rename_i r hr
    rw [hr] at hspec
    obtain ⟨calls, res⟩ := r
    simp only at hspec
    obtain ⟨h1, h2, k, _, hk2, hk3⟩ := hspec
    left
    simp only [List.length_nil, Nat.zero_add] at hk2
    refine ⟨h1, ?_, ?_⟩
    · rcases h2 with h2 | h2 <;> simp [h2]
    · intro hg
      rcases hk3 with hk3 | hk3
      · exact absurd hk3 (hg.noProcErr k hk2)
      · exact absurd hk3 (hg.noCancel k hk2)
  · rename_i st hst
    rw [hst] at hspec
    simp only [List.nil_append, List.length_nil, Nat.zero_add, Nat.zero_le, true_implies] at hspec
    obtain ⟨hinv, hrange⟩ := hspec
    have hnoissue : ∀ c ∈ st.calls, c.isIssue = false := by
      intro c hc
      rw [hinv.calls] at hc
      obtain ⟨_, _, rfl⟩ := List.mem_map.mp hc
      rfl
    by_cases hcount : st.i = txCount
    · simp only [hcount, ne_eq, not_true_eq_false, ↓reduceIte]
      obtain ⟨ps, hfin, hkeys⟩ := finalize_ok st.tree recv hinv.tree
      rw [hfin]
      simp only
      by_cases hroot : merkleRoot recv = header.root
      · simp only [hroot, ne_eq, not_true_eq_false, ↓reduceIte]
        have hpk : ps.map Proof.key = (relPos env 0 recv).map keyOf := by
          rcases hkeys with hk | ⟨hr, hp⟩
          · rw [hk, hinv.keys]
          · subst hr; subst hp; simp [relPos]
        have hlen : ps.length = st.blockTxIDs.length := by
          have := congrArg List.length hpk
          simp only [List.length_map] at this
          rw [this, hinv.ids, List.length_map]
        simp only [hlen, not_true_eq_false, ↓reduceIte]
        by_cases hver : ps.any (fun p => p.verify header.root != .ok) = true
        · left
          simp only [hver, ↓reduceIte]
          refine ⟨hnoissue, by simp, fun _ => ⟨by simp, st, ps, hst, hinv, by rw [hfin, hroot], ?_⟩⟩
          rw [List.any_eq_true] at hver
          obtain ⟨p, hp, hpv⟩ := hver
          exact ⟨p, hp, by simpa using hpv⟩
        · have hver' : ∀ p ∈ ps, p.verify header.root = .ok := by
            intro p hp
            by_cases hpv : p.verify header.root = .ok
            · exact hpv
            · exfalso; apply hver
              rw [List.any_eq_true]
              exact ⟨p, hp, by simpa using hpv⟩
          simp only [hver, Bool.false_eq_true, ↓reduceIte, hinv.notCancelled, Bool.false_or]
          by_cases hlate : env.cancelAfterLast = true
          · left
            simp only [hlate, ↓reduceIte]
            refine ⟨hnoissue, by simp, ?_⟩
            intro hg; rw [hg.noLateCancel] at hlate; cases hlate
          · right
            have hlate' : env.cancelAfterLast = false := by simpa using hlate
            refine ⟨⟨fun k hk => (hrange k hk).1, fun k hk => (hrange k hk).2, ?_, hroot, hlate'⟩,
              ps, hpk, hver', ⟨st, hst, hinv, by rw [hfin, hroot]⟩, ?_⟩
            · rw [← hcount, hinv.i]
            · simp only [hlate', Bool.false_eq_true, ↓reduceIte, issuePhase, hinv.calls,
                hinv.coinbase, hinv.ids, List.nil_append]
      · left
        have hroot' : ¬ (merkleRoot recv = header.root) := hroot
        simp only [ne_eq, hroot', not_false_eq_true, ↓reduceIte]
        exact ⟨hnoissue, by simp, fun hg => absurd hg.root hroot⟩
    · left
      simp only [ne_eq, hcount, not_false_eq_true, ↓reduceIte]
      refine ⟨hnoissue, by simp, ?_⟩
      intro hg
      exact absurd (by rw [hinv.i]; exact hg.count) hcount

/-- the ConfirmTx calls written per proof (each proof carries its own txid). -/
theorem zipWith_txid (f : H → Proof → Call) (ids : List H) (ps : List Proof)
    (h : ps.map (·.txid) = ids) : List.zipWith f ids ps = ps.map (fun p => f p.txid p) := by
  induction ps generalizing ids with
  | nil => subst h; rfl
  | cons p ps ih =>
    subst h
    simp only [List.map_cons, List.zipWith_cons_cons]
    rw [ih _ rfl]

theorem keys_txids (ps : List Proof) (K : List (H × Nat)) (h : ps.map Proof.key = K.map keyOf) :
    ps.map (·.txid) = K.map (·.1) := by
  have := congrArg (List.map Prod.fst) h
  simpa [List.map_map, Function.comp_def, Proof.key, keyOf] using this

/-- shape of everything the issue phase can emit. -/
theorem issuePhase_spec (env : Env) (header : Header) (calls0 : List Call) (cb : Option H)
    (ps : List Proof) (ids : List H) (hids : ps.map (·.txid) = ids) :
    let all := ps.map (fun p => mkConfirm env header p.txid p)
    let out := issuePhase env header calls0 cb ids ps
    (∃ n tail, out.1 = calls0 ++ [Call.processCoinbase env.requested cb] ++ all.take n ++ tail ∧
        (tail = [] ∨ (tail = [Call.appendTxIDs env.requested ids] ∧ all.length ≤ n))) ∧
    (out.2 = .ok →
      out.1 = calls0 ++ [Call.processCoinbase env.requested cb] ++ all ++ [Call.appendTxIDs env.requested ids]) ∧
    (out.2 = .storeErr →
      out.1 = calls0 ++ [Call.processCoinbase env.requested cb] ++ all ++ [Call.appendTxIDs env.requested ids]) ∧
    (out.2 = .ok ∨ out.2 = .coinbaseErr ∨ out.2 = .confirmErr ∨ out.2 = .storeErr) ∧
    (out.2 = .ok ↔ (env.coinbaseErr = false ∧ (∀ j, j < ps.length → env.confirmErr ≠ some j) ∧ env.storeErr = false)) := by
  intro all out
  have hz : List.zipWith (mkConfirm env header) ids ps = all := zipWith_txid _ _ _ hids
  have hlen : min ids.length ps.length = ps.length := by
    rw [← hids]; simp
  obtain ⟨⟨n, hn⟩, h2, h3, h4, h5⟩ :=
    confirmLoop_spec env header ids ps 0 (calls0 ++ [Call.processCoinbase env.requested cb])
  rw [hz] at hn h2
  simp only [Nat.zero_add, Nat.zero_le, true_implies, hlen] at h3 h4 h5
  show _ ∧ _ ∧ _ ∧ _ ∧ _
  simp only [out, issuePhase]
  by_cases hcb : env.coinbaseErr = true
  · simp only [hcb, ↓reduceIte]
    refine ⟨⟨0, [], by simp, Or.inl rfl⟩, by simp, by simp, by simp, by simp⟩
  · have hcb' : env.coinbaseErr = false := by simpa using hcb
    simp only [hcb', Bool.false_eq_true, ↓reduceIte]
    cases hc : confirmLoop env header ids ps 0 (calls0 ++ [Call.processCoinbase env.requested cb]) with
    | mk calls okc =>
      rw [hc] at hn h2 h3 h4 h5
      simp only at hn h2 h3 h4 h5
      cases okc with
      | false =>
        simp only [Bool.false_eq_true, not_false_eq_true, ↓reduceIte]
        refine ⟨⟨n, [], by rw [hn]; simp, Or.inl rfl⟩, by simp, by simp, by simp, ?_⟩
        obtain ⟨j, hj1, hj2⟩ := h3 rfl
        simp only [reduceCtorEq, true_and, false_iff, not_and]
        intro hall
        exact absurd hj1 (hall j hj2.2)
      | true =>
        have hall := h2 rfl
        simp only [not_true_eq_false, ↓reduceIte]
        by_cases hst : env.storeErr = true
        · simp only [hst, ↓reduceIte]
          refine ⟨⟨all.length, [Call.appendTxIDs env.requested ids], by rw [hall]; simp,
            Or.inr ⟨rfl, Nat.le_refl _⟩⟩, by simp, by intro _; rw [hall], by simp, by simp⟩
        · have hst' : env.storeErr = false := by simpa using hst
          simp only [hst', Bool.false_eq_true, ↓reduceIte]
          refine ⟨⟨all.length, [Call.appendTxIDs env.requested ids], by rw [hall]; simp,
            Or.inr ⟨rfl, Nat.le_refl _⟩⟩, by intro _; rw [hall], by simp, by simp, ?_⟩
          simp only [true_and, and_true, true_iff]
          exact h5 rfl

end BRV.Merkle
