/-
Soundness and completeness of the merkle proofs the streaming tree builds (for duplicate-free
blocks of transaction ids).

Part 1 (this section): `MerkleProof.CalculateRoot` as a fold over a list of STEPS (`some sibling` or
`none` = "paired with itself"), of which `Path` and `DuplicatedIndexes` are the two projections; how
`AddHash`/`AddDuplicate` extend the steps.
-/
import BRV.Proofs.MerkleBlock
import BRV.Proofs.MerkleInj

namespace BRV.Merkle

/-- the walk `CalculateRoot` makes, one step per level. -/
def climbSteps : Nat → H → List (Option H) → Option H
  | _, h, [] => some h
  | i, h, none :: rest => if i % 2 = 0 then climbSteps (i / 2) (H.node h h) rest else none
  | i, h, some o :: rest =>
    if i % 2 = 0 then climbSteps (i / 2) (H.node h o) rest
    else if o = h then none
    else climbSteps (i / 2) (H.node o h) rest

def pathOf : List (Option H) → List H
  | [] => []
  | none :: rest => pathOf rest
  | some o :: rest => o :: pathOf rest

def dupsOf : Nat → List (Option H) → List Nat
  | _, [] => []
  | layer, none :: rest => layer :: dupsOf (layer + 1) rest
  | layer, some _ :: rest => dupsOf (layer + 1) rest

theorem dupsOf_ge (layer : Nat) (steps : List (Option H)) : ∀ d ∈ dupsOf layer steps, layer ≤ d := by
  induction steps generalizing layer with
  | nil => simp [dupsOf]
  | cons s rest ih =>
    cases s with
    | none =>
      simp only [dupsOf, List.mem_cons]
      rintro d (rfl | hd)
      · exact Nat.le_refl _
      · exact Nat.le_of_succ_le (ih _ d hd)
    | some o =>
      simp only [dupsOf]
      intro d hd
      exact Nat.le_of_succ_le (ih _ d hd)

theorem steps_length (layer : Nat) (steps : List (Option H)) :
    (pathOf steps).length + (dupsOf layer steps).length = steps.length := by
  induction steps generalizing layer with
  | nil => rfl
  | cons s rest ih =>
    cases s with
    | none => simp only [pathOf, dupsOf, List.length_cons]; have := ih (layer + 1); omega
    | some o => simp only [pathOf, dupsOf, List.length_cons]; have := ih (layer + 1); omega

/-- with enough fuel, `CalculateRoot`'s loop on the two projections of a step list is the fold over
    the steps. -/
theorem calcGo_steps (fuel i layer : Nat) (h : H) (steps : List (Option H)) (hf : steps.length < fuel) :
    calcGo fuel (some i) layer h (pathOf steps) (dupsOf layer steps) = climbSteps i h steps := by
  induction steps generalizing fuel i layer h with
  | nil =>
    cases fuel with
    | zero => omega
    | succ f => simp [calcGo, pathOf, dupsOf, climbSteps]
  | cons s rest ih =>
    cases fuel with
    | zero => omega
    | succ f =>
      simp only [List.length_cons] at hf
      have hf' : rest.length < f := by omega
      cases s with
      | none =>
        simp only [calcGo, dupsOf, pathOf, ↓reduceIte, climbSteps, beq_iff_eq]
        by_cases hl : i % 2 = 0
        · simp [hl, ih _ _ _ _ hf']
        · simp [hl]
      | some o =>
        simp only [calcGo, dupsOf, pathOf, climbSteps, beq_iff_eq]
        have hge := dupsOf_ge (layer + 1) rest
        cases hd : dupsOf (layer + 1) rest with
        | nil =>
          simp only
          rw [← hd]
          by_cases hl : i % 2 = 0
          · simp [hl, ih _ _ _ _ hf']
          · by_cases ho : o = h
            · simp [hl, ho]
            · simp [hl, ho, ih _ _ _ _ hf']
        | cons d drest =>
          have hne : layer ≠ d := by
            have := hge d (by rw [hd]; simp)
            omega
          simp only [hne, ↓reduceIte]
          rw [← hd]
          by_cases hl : i % 2 = 0
          · simp [hl, ih _ _ _ _ hf']
          · by_cases ho : o = h
            · simp [hl, ho]
            · simp [hl, ho, ih _ _ _ _ hf']

theorem calcLoop_steps (i layer : Nat) (h : H) (steps : List (Option H)) :
    calcLoop (some i) layer h (pathOf steps) (dupsOf layer steps) = climbSteps i h steps := by
  unfold calcLoop
  apply calcGo_steps
  rw [steps_length]; omega

/-- the fuel `calcLoop` passes is never exhausted: more fuel changes nothing. -/
theorem calcGo_fuel (f g : Nat) (index : Option Nat) (layer : Nat) (hash : H) (path : List H) (dups : List Nat)
    (hf : path.length + dups.length < f) (hg : path.length + dups.length < g) :
    calcGo f index layer hash path dups = calcGo g index layer hash path dups := by
  induction f generalizing g index layer hash path dups with
  | zero => omega
  | succ f ih =>
    cases g with
    | zero => omega
    | succ g =>
      simp only [calcGo]
      cases dups with
      | nil =>
        cases path with
        | nil => rfl
        | cons o prest =>
          simp only [List.length_cons, List.length_nil] at hf hg
          simp only
          rw [ih g _ _ _ prest [] (by simp; omega) (by simp; omega)]
      | cons d drest =>
        simp only [List.length_cons] at hf hg
        simp only
        rw [ih g _ _ _ path drest (by omega) (by omega)]
        cases path with
        | nil => rfl
        | cons o prest =>
          simp only [List.length_cons] at hf hg
          simp only
          rw [ih g _ _ _ prest (d :: drest) (by simp; omega) (by simp; omega)]

theorem pathOf_append (a b : List (Option H)) : pathOf (a ++ b) = pathOf a ++ pathOf b := by
  induction a with
  | nil => rfl
  | cons s rest ih => cases s <;> simp [pathOf, ih]

theorem dupsOf_append (layer : Nat) (a b : List (Option H)) :
    dupsOf layer (a ++ b) = dupsOf layer a ++ dupsOf (layer + a.length) b := by
  induction a generalizing layer with
  | nil => simp [dupsOf]
  | cons s rest ih =>
    cases s <;> simp [dupsOf, ih, Nat.add_assoc, Nat.add_comm 1]

theorem climbSteps_append (i : Nat) (h : H) (a b : List (Option H)) :
    climbSteps i h (a ++ b) =
      (climbSteps i h a).bind (fun r => climbSteps (i / 2 ^ a.length) r b) := by
  induction a generalizing i h with
  | nil => simp [climbSteps]
  | cons s rest ih =>
    have hdiv : ∀ i : Nat, i / 2 / 2 ^ rest.length = i / 2 ^ (rest.length + 1) := by
      intro i; rw [Nat.div_div_eq_div_mul, Nat.pow_succ, Nat.mul_comm]
    cases s with
    | none =>
      simp only [List.cons_append, climbSteps, List.length_cons]
      split
      · rw [ih, hdiv]
      · rfl
    | some o =>
      simp only [List.cons_append, climbSteps, List.length_cons]
      split
      · rw [ih, hdiv]
      · split
        · rfl
        · rw [ih, hdiv]

/-- a proof whose fields are the projections of a step list that climbs from its txid to its
    running root; `i` is its index. -/
structure Sound (mp : Proof) (i : Nat) : Prop where
  index : mp.index = some i
  ex : ∃ steps : List (Option H), mp.path = pathOf steps ∧ mp.dups = dupsOf 1 steps ∧
    mp.depth = steps.length + 1 ∧ climbSteps i mp.txid steps = some mp.root
  height : ht mp.root + 1 = mp.depth

/-- a sound proof verifies against its running root. -/
theorem Sound.calculateRoot {mp : Proof} {i : Nat} (h : Sound mp i) : mp.calculateRoot = some mp.root := by
  obtain ⟨steps, h1, h2, _, h4⟩ := h.ex
  unfold Proof.calculateRoot
  rw [h.index, h1, h2, calcLoop_steps, h4]

theorem sound_new (x : Nat) (i : Nat) : Sound { newProof (H.leaf x) with index := some i } i :=
  ⟨rfl, ⟨[], rfl, rfl, rfl, rfl⟩, rfl⟩

/-- matched as the LEFT node of a pair at an even position. -/
theorem Sound.addLeft {mp : Proof} {i : Nat} (h : Sound mp i) (r : H) (d : Nat)
    (hd : mp.depth = d + 1) (hpar : (i / 2 ^ d) % 2 = 0) :
    Sound (mp.addHash r (H.node mp.root r)) i := by
  obtain ⟨steps, h1, h2, h3, h4⟩ := h.ex
  have hlen : steps.length = d := by omega
  refine ⟨h.index, ⟨steps ++ [some r], ?_, ?_, ?_, ?_⟩, ?_⟩
  · simp [Proof.addHash, h1, pathOf_append, pathOf]
  · simp [Proof.addHash, h2, dupsOf_append, dupsOf]
  · simp [Proof.addHash, h3]
  · simp only [Proof.addHash]
    rw [climbSteps_append, h4, hlen]
    simp [climbSteps, hpar]
  · simp only [Proof.addHash, ht]; have := h.height; omega

/-- matched as the RIGHT node of a pair at an odd position, the left node being different. -/
theorem Sound.addRight {mp : Proof} {i : Nat} (h : Sound mp i) (l : H) (d : Nat)
    (hd : mp.depth = d + 1) (hpar : (i / 2 ^ d) % 2 = 1) (hne : l ≠ mp.root) (hht : ht l = ht mp.root) :
    Sound (mp.addHash l (H.node l mp.root)) i := by
  obtain ⟨steps, h1, h2, h3, h4⟩ := h.ex
  have hlen : steps.length = d := by omega
  refine ⟨h.index, ⟨steps ++ [some l], ?_, ?_, ?_, ?_⟩, ?_⟩
  · simp [Proof.addHash, h1, pathOf_append, pathOf]
  · simp [Proof.addHash, h2, dupsOf_append, dupsOf]
  · simp [Proof.addHash, h3]
  · simp only [Proof.addHash]
    rw [climbSteps_append, h4, hlen]
    have : ¬ ((i / 2 ^ d) % 2 = 0) := by omega
    simp [climbSteps, this, hne]
  · simp only [Proof.addHash, ht]; have := h.height; omega

/-- paired with itself at an even position. -/
theorem Sound.addDup {mp : Proof} {i : Nat} (h : Sound mp i) (d : Nat)
    (hd : mp.depth = d + 1) (hpar : (i / 2 ^ d) % 2 = 0) :
    Sound (mp.addDuplicate (H.node mp.root mp.root)) i := by
  obtain ⟨steps, h1, h2, h3, h4⟩ := h.ex
  have hlen : steps.length = d := by omega
  refine ⟨h.index, ⟨steps ++ [none], ?_, ?_, ?_, ?_⟩, ?_⟩
  · simp [Proof.addDuplicate, h1, pathOf_append, pathOf]
  · simp [Proof.addDuplicate, h2, dupsOf_append, dupsOf, h3, Nat.add_comm]
  · simp [Proof.addDuplicate, h3]
  · simp only [Proof.addDuplicate]
    rw [climbSteps_append, h4, hlen]
    simp [climbSteps, hpar]
  · simp only [Proof.addDuplicate, ht]; have := h.height; omega

/-! ### Part 2: every proof evolves on its own -/

/-- what `AddHash`'s loop does to ONE proof. -/
def addEvolve (prune : Bool) : List Layer → H → Proof → Proof
  | [], _, mp => mp
  | L :: rest, next, mp =>
    let L1 := L.addHash next
    if L1.count % 2 ≠ 0 then mp
    else
      match L1.nextLastHash with
      | none => mp
      | some nl => addEvolve prune rest (H.node nl next) (stepProof nl next (H.node nl next) false mp)

theorem addLoop_proofs (prune : Bool) (ls : List Layer) (v : H) (ps : List Proof) (ls' : List Layer)
    (ps' : List Proof) (h : addLoop prune ls v ps = some (ls', ps')) :
    ps' = ps.map (addEvolve prune ls v) := by
  induction ls generalizing v ps ls' ps' with
  | nil =>
    simp only [addLoop, Option.some.injEq, Prod.mk.injEq] at h
    simp [addEvolve, ← h.2]
  | cons L rest ih =>
    simp only [addLoop] at h
    split at h
    · rename_i hodd
      simp only [Option.some.injEq, Prod.mk.injEq] at h
      rw [← h.2]
      simp [addEvolve, hodd]
    · rename_i hev
      split at h
      · cases h
      · rename_i nl hnl
        split at h
        · cases h
        · rename_i rest' ps2 hrec
          simp only [Option.some.injEq, Prod.mk.injEq] at h
          rw [← h.2, ih _ _ _ _ hrec]
          simp only [processProofsLayer, List.map_map]
          apply List.map_congr_left
          intro mp _
          simp [addEvolve, hev, hnl]

/-- what `FinalizeMerkleProofs`' loop does to ONE proof. -/
def finEvolve : List Layer → Option H → Proof → Proof
  | [], _, mp => mp
  | L :: rest, some v, mp =>
    if L.count % 2 = 0 then finEvolve rest (some (H.node v v)) (stepProof v v (H.node v v) true mp)
    else
      match L.lastHash with
      | none => mp
      | some lh => finEvolve rest (some (H.node lh v)) (stepProof lh v (H.node lh v) false mp)
  | L :: rest, none, mp =>
    if L.count % 2 ≠ 0 then
      match L.lastHash with
      | none => mp
      | some lh =>
        if L.count = 1 ∧ rest = [] then mp
        else finEvolve rest (some (H.node lh lh)) (stepProof lh lh (H.node lh lh) true mp)
    else finEvolve rest none mp

theorem finLoop_proofs (ls : List Layer) (carry : Option H) (ps : List Proof) (r : Option H)
    (ps' : List Proof) (h : finLoop ls carry ps = some (r, ps')) :
    ps' = ps.map (finEvolve ls carry) ∨ (r = none ∧ ps' = []) := by
  induction ls generalizing carry ps with
  | nil =>
    cases carry with
    | none =>
      simp only [finLoop, Option.some.injEq, Prod.mk.injEq] at h
      exact Or.inr ⟨h.1.symm, h.2.symm⟩
    | some v =>
      simp only [finLoop, Option.some.injEq, Prod.mk.injEq] at h
      left; simp [finEvolve, ← h.2]
  | cons L rest ih =>
    cases carry with
    | some v =>
      simp only [finLoop] at h
      split at h
      · rename_i hev
        rcases ih _ _ h with h1 | h1
        · left; rw [h1]
          simp only [processProofsLayer, List.map_map]
          apply List.map_congr_left
          intro mp _
          simp [finEvolve, hev]
        · exact Or.inr h1
      · rename_i hodd
        split at h
        · cases h
        · rename_i lh hlh
          rcases ih _ _ h with h1 | h1
          · left; rw [h1]
            simp only [processProofsLayer, List.map_map]
            apply List.map_congr_left
            intro mp _
            simp [finEvolve, hodd, hlh]
          · exact Or.inr h1
    | none =>
      simp only [finLoop] at h
      split at h
      · rename_i hodd
        split at h
        · cases h
        · rename_i lh hlh
          split at h
          · rename_i htop
            simp only [Option.some.injEq, Prod.mk.injEq] at h
            left; rw [← h.2]
            simp [finEvolve, hodd, hlh, htop]
          · rename_i htop
            rcases ih _ _ h with h1 | h1
            · left; rw [h1]
              simp only [processProofsLayer, List.map_map]
              apply List.map_congr_left
              intro mp _
              simp [finEvolve, hodd, hlh, htop]
            · exact Or.inr h1
      · rename_i hev
        rcases ih _ _ h with h1 | h1
        · left; rw [h1]
          apply List.map_congr_left
          intro mp _
          simp [finEvolve, hev]
        · exact Or.inr h1

/-! ### Part 3: where a proof sits in the binary counter -/

def leaves : H → List Nat
  | .leaf n => [n]
  | .node l r => leaves l ++ leaves r

theorem leaves_ne_nil (h : H) : leaves h ≠ [] := by
  induction h with
  | leaf n => simp [leaves]
  | node l r ihl _ => simp [leaves, ihl]

/-- disjoint sets of transaction ids below two nodes. -/
def Disj (a b : H) : Prop := ∀ n, n ∈ leaves a → n ∈ leaves b → False

theorem Disj.ne {a b : H} (h : Disj a b) : a ≠ b := by
  intro hab; subst hab
  cases hl : leaves a with
  | nil => exact leaves_ne_nil a hl
  | cons n _ => exact h n (by rw [hl]; simp) (by rw [hl]; simp)

/-- the nodes of a level cover pairwise disjoint sets of transaction ids. -/
def DJ (l : List H) : Prop := l.Pairwise Disj

theorem DJ_pairUp (l : List H) (h : DJ l) : DJ (pairUp l) := by
  unfold DJ at *
  induction l using pairUp.induct with
  | case1 => simp [pairUp]
  | case2 a => simp [pairUp]
  | case3 a b rest ih =>
    simp only [List.pairwise_cons, List.mem_cons, forall_eq_or_imp] at h
    obtain ⟨⟨_, ha⟩, hb, hrest⟩ := h
    simp only [pairUp, List.pairwise_cons]
    refine ⟨?_, ih hrest⟩
    intro z hz n hn1 hn2
    obtain ⟨x, y, rfl, hx, hy⟩ := mem_pairUp rest z hz
    simp only [leaves, List.mem_append] at hn1 hn2
    rcases hn1 with hn1 | hn1 <;> rcases hn2 with hn2 | hn2
    · exact ha x hx n hn1 hn2
    · exact ha y hy n hn1 hn2
    · exact hb x hx n hn1 hn2
    · exact hb y hy n hn1 hn2

theorem DJ_leaves (ids : List Nat) (h : ids.Nodup) : DJ (ids.map H.leaf) := by
  unfold DJ
  induction ids with
  | nil => simp
  | cons a rest ih =>
    simp only [List.nodup_cons] at h
    simp only [List.map_cons, List.pairwise_cons, List.mem_map, forall_exists_index, and_imp,
      forall_apply_eq_imp_iff₂]
    refine ⟨?_, ih h.2⟩
    intro b hb n hn1 hn2
    simp only [leaves, List.mem_singleton] at hn1 hn2
    exact h.1 (by rw [← hn1, hn2]; exact hb)

/-- all nodes of a level have the same height. -/
def UH (d : Nat) (l : List H) : Prop := ∀ x ∈ l, ht x = d

theorem UH_pairUp (d : Nat) (l : List H) (h : UH d l) : UH (d + 1) (pairUp l) := pairUp_ht l d h

/-- the next level of `m ++ [v]` when `m` has odd length: all pairs are complete. -/
theorem pairUp_snoc_odd (m : List H) (x v : H) (h1 : m.length % 2 = 1) (hx : m.getLast? = some x) :
    pairUp (m ++ [v]) = pairs m ++ [H.node x v] := by
  rw [pairUp_even (m ++ [v]) (by simp; omega), pairs_append_odd m x v h1 hx]

theorem pairUp_snoc_even (m : List H) (v : H) (h0 : m.length % 2 = 0) :
    pairUp (m ++ [v]) = pairs m ++ [H.node v v] := by
  rw [pairUp_odd (m ++ [v]) v (by simp; omega) (by simp), pairs_append_even m v h0]

/-- `Loc i mp d m`: the proof with index `i` currently has as running root the pending hash of some
    layer `d' ≥ d` of the tree whose level-`d` list is `m`, at the position its index says. -/
inductive Loc (i : Nat) (mp : Proof) : Nat → List H → Prop
  | here (d : Nat) (m : List H) : mp.depth = d + 1 → m.length % 2 = 1 → m.getLast? = some mp.root →
      m.length - 1 = i / 2 ^ d → Loc i mp d m
  | up (d : Nat) (m : List H) : m ≠ [] → Loc i mp (d + 1) (pairs m) → Loc i mp d m

theorem Loc.not_nil {i : Nat} {mp : Proof} {d : Nat} (h : Loc i mp d []) : False := by
  cases h with
  | here _ _ _ h2 _ _ => simp at h2
  | up _ _ h1 _ => exact h1 rfl

theorem Loc.depth {i : Nat} {mp : Proof} {d : Nat} {m : List H} (h : Loc i mp d m) : d + 1 ≤ mp.depth := by
  induction h with
  | here d m h1 _ _ _ => omega
  | up d m _ _ ih => omega

theorem div_pow_succ (i d : Nat) : i / 2 ^ (d + 1) = i / 2 ^ d / 2 := by
  rw [Nat.div_div_eq_div_mul, Nat.pow_succ]

/-- `stepProof` leaves a proof of another height alone. -/
theorem stepProof_other (l r n : H) (dup : Bool) (mp : Proof) (hl : mp.root ≠ l) (hr : mp.root ≠ r) :
    stepProof l r n dup mp = mp := by
  unfold stepProof
  simp [hl, hr]

/-- **AddHash, one proof.** `m` is the level-`d` list held by the layers from `d` upward, `v` the hash
    carried into layer `d`. A sound proof that sits below level `d`, or in one of these layers, or is
    the carried hash itself, stays sound, and ends up in a layer of the new state. -/
theorem addEvolve_good (m : List H) (d : Nat) (v : H) (mp : Proof) (i : Nat)
    (huh : UH d (m ++ [v])) (hdj : DJ (m ++ [v])) (hs : Sound mp i)
    (hpos : mp.depth ≤ d ∨ Loc i mp d m ∨ (mp.depth = d + 1 ∧ mp.root = v ∧ m.length = i / 2 ^ d)) :
    Sound (addEvolve true (canon m) v mp) i ∧
    (mp.depth ≤ d → addEvolve true (canon m) v mp = mp) ∧
    (d < mp.depth → Loc i (addEvolve true (canon m) v mp) d (m ++ [v])) := by
  generalize hn : m.length = n
  induction n using Nat.strongRecOn generalizing m d v mp with
  | ind n ih =>
    have hv : ht v = d := huh v (by simp)
    by_cases hm : m = []
    · subst hm
      simp only [canon_nil, addEvolve]
      refine ⟨hs, by simp, fun hlt => ?_⟩
      rcases hpos with h | h | ⟨h1, h2, h3⟩
      · omega
      · exact absurd h Loc.not_nil
      · exact Loc.here d _ h1 (by simp) (by simp [h2]) (by simpa using h3)
    · obtain ⟨x, hx⟩ := getLast?_ne m hm
      have hxm : x ∈ m := List.mem_of_getLast? hx
      have hxd : ht x = d := huh x (by simp [hxm])
      have hmv : m ++ [v] ≠ [] := by simp
      rw [canon_ne m hm]
      by_cases hpar : m.length % 2 = 0
      · -- the carried hash stays pending in this layer; no proof changes
        have h1 : ¬ (m.length % 2 = 1) := by omega
        have h2 : (m.length + 1) % 2 ≠ 0 := by omega
        simp only [addEvolve, Layer.addHash, h2, ne_eq, not_false_eq_true, ↓reduceIte]
        refine ⟨hs, by simp, fun hlt => ?_⟩
        rcases hpos with h | h | ⟨h1', h2', h3'⟩
        · omega
        · cases h with
          | here _ _ _ hodd _ _ => omega
          | up _ _ _ hup =>
            apply Loc.up d _ hmv
            rw [pairs_append_even m v hpar]; exact hup
        · exact Loc.here d _ h1' (by simp; omega) (by simp [h2']) (by simpa using h3')
      · -- the pending hash `x` is paired with `v`; the pair is carried upward
        have h1 : m.length % 2 = 1 := by omega
        have h3 : ¬ ((m.length + 1) % 2 ≠ 0) := by omega
        have hxv : Disj x v := by
          have := hdj
          unfold DJ at this
          rw [List.pairwise_append] at this
          exact this.2.2 x hxm v (by simp)
        have hup : pairUp (m ++ [v]) = pairs m ++ [H.node x v] := pairUp_snoc_odd m x v h1 hx
        have huh' : UH (d + 1) (pairs m ++ [H.node x v]) := by rw [← hup]; exact UH_pairUp d _ huh
        have hdj' : DJ (pairs m ++ [H.node x v]) := by rw [← hup]; exact DJ_pairUp _ hdj
        have hlt : (pairs m).length < n := by
          rw [pairs_length]
          have : 0 < m.length := List.length_pos_iff.mpr hm
          omega
        have hpl : (pairs m).length = m.length / 2 := pairs_length m
        simp only [addEvolve, Layer.addHash, h1, ↓reduceIte, hx, Option.toList_some, h3,
          Layer.nextLastHash, List.tail_cons, List.head?_cons]
        have hpairs : pairs (m ++ [v]) = pairs m ++ [H.node x v] := pairs_append_odd m x v h1 hx
        rcases hpos with hlow | hloc | ⟨hc1, hc2, hc3⟩
        · -- below this level: untouched
          have hne1 : mp.root ≠ x := by
            intro hc; have := hs.height; rw [hc, hxd] at this; omega
          have hne2 : mp.root ≠ v := by
            intro hc; have := hs.height; rw [hc, hv] at this; omega
          rw [stepProof_other _ _ _ _ _ hne1 hne2]
          obtain ⟨r1, r2, _⟩ := ih _ hlt (pairs m) (d + 1) (H.node x v) mp huh' hdj' hs
            (Or.inl (by omega)) rfl
          exact ⟨r1, fun _ => r2 (by omega), fun hlt' => by omega⟩
        · cases hloc with
          | here _ _ hd1 _ hroot hidx =>
            -- the proof's root is the pending hash: matched as the left node
            have hroot' : mp.root = x := by rw [hx] at hroot; exact (Option.some.inj hroot).symm
            have hpar' : (i / 2 ^ d) % 2 = 0 := by omega
            have hstep : stepProof x v (H.node x v) false mp = mp.addHash v (H.node mp.root v) := by
              unfold stepProof; simp [hs.index, hroot']
            rw [hstep]
            have hs1 := hs.addLeft v d hd1 hpar'
            obtain ⟨r1, _, r3⟩ := ih _ hlt (pairs m) (d + 1) (H.node x v) _ huh' hdj' hs1
              (Or.inr (Or.inr ⟨by simp [Proof.addHash, hd1], by simp [Proof.addHash, hroot'],
                by rw [div_pow_succ, hpl]; omega⟩)) rfl
            refine ⟨r1, fun h => by omega, fun _ => ?_⟩
            apply Loc.up d _ hmv
            rw [hpairs]
            exact r3 (by simp [Proof.addHash, hd1])
          | up _ _ _ hup' =>
            have hdep := hup'.depth
            have hne1 : mp.root ≠ x := by
              intro hc; have := hs.height; rw [hc, hxd] at this; omega
            have hne2 : mp.root ≠ v := by
              intro hc; have := hs.height; rw [hc, hv] at this; omega
            rw [stepProof_other _ _ _ _ _ hne1 hne2]
            obtain ⟨r1, _, r3⟩ := ih _ hlt (pairs m) (d + 1) (H.node x v) mp huh' hdj' hs
              (Or.inr (Or.inl hup')) rfl
            refine ⟨r1, fun h => by omega, fun _ => ?_⟩
            apply Loc.up d _ hmv
            rw [hpairs]
            exact r3 (by omega)
        · -- the proof's root is the carried hash: matched as the right node
          have hne : mp.root ≠ x := by rw [hc2]; exact fun hc => hxv.ne hc.symm
          have hpar' : (i / 2 ^ d) % 2 = 1 := by omega
          have hne' : ¬ (v = x) := by rw [← hc2]; exact hne
          have hstep : stepProof x v (H.node x v) false mp = mp.addHash x (H.node x mp.root) := by
            unfold stepProof; simp [hs.index, hc2, hne']
          rw [hstep]
          have hs1 := hs.addRight x d hc1 hpar' (fun hc => hne hc.symm) (by rw [hxd, hc2, hv])
          obtain ⟨r1, _, r3⟩ := ih _ hlt (pairs m) (d + 1) (H.node x v) _ huh' hdj' hs1
            (Or.inr (Or.inr ⟨by simp [Proof.addHash, hc1], by simp [Proof.addHash, hc2],
              by rw [div_pow_succ, hpl]; omega⟩)) rfl
          refine ⟨r1, fun h => by omega, fun _ => ?_⟩
          apply Loc.up d _ hmv
          rw [hpairs]
          exact r3 (by simp [Proof.addHash, hc1])

theorem Sound.root_ne {mp : Proof} {i : Nat} (hs : Sound mp i) (y : H) (d : Nat) (hy : ht y = d)
    (hdep : mp.depth ≠ d + 1) : mp.root ≠ y := by
  intro hc; have := hs.height; rw [hc, hy] at this; omega

/-- **FinalizeMerkleProofs, one proof.** `m` is the level-`d` list held by the layers from `d` upward,
    `carry` the running hash. A sound proof that sits in one of these layers, or is the running hash,
    stays sound and ends with the merkle root as its running root. -/
theorem finEvolve_good (m : List H) (d : Nat) (carry : Option H) (mp : Proof) (i : Nat)
    (hne : m ++ carry.toList ≠ [])
    (huh : UH d (m ++ carry.toList)) (hdj : DJ (m ++ carry.toList)) (hs : Sound mp i)
    (hpos : mp.depth ≤ d ∨ Loc i mp d m ∨
      (∃ v, carry = some v ∧ mp.depth = d + 1 ∧ mp.root = v ∧ m.length = i / 2 ^ d)) :
    Sound (finEvolve (canon m) carry mp) i ∧
    (d < mp.depth → some (finEvolve (canon m) carry mp).root = merkleRoot (m ++ carry.toList)) := by
  generalize hn : m.length = n
  induction n using Nat.strongRecOn generalizing m d carry mp with
  | ind n ih =>
    by_cases hm : m = []
    · subst hm
      simp only [canon_nil, finEvolve]
      refine ⟨hs, fun hlt => ?_⟩
      rcases hpos with h | h | ⟨v, h1, h2, h3, _⟩
      · omega
      · exact absurd h Loc.not_nil
      · subst h1; simp [h3, merkleRoot_single]
    · obtain ⟨x, hx⟩ := getLast?_ne m hm
      have hxm : x ∈ m := List.mem_of_getLast? hx
      have hxd : ht x = d := huh x (by simp [hxm])
      have hpos' : 0 < m.length := List.length_pos_iff.mpr hm
      have hlt : (pairs m).length < n := by rw [pairs_length]; omega
      have hpl : (pairs m).length = m.length / 2 := pairs_length m
      rw [canon_ne m hm]
      cases carry with
      | some v =>
        have hv : ht v = d := huh v (by simp)
        have hlen : 2 ≤ (m ++ [v]).length := by simp; omega
        simp only [Option.toList_some] at huh hdj ⊢
        rw [merkleRoot_step _ hlen]
        by_cases hpar : m.length % 2 = 0
        · -- even layer: the running hash is paired with itself
          have hup : pairUp (m ++ [v]) = pairs m ++ [H.node v v] := pairUp_snoc_even m v hpar
          have huh' : UH (d + 1) (pairs m ++ (some (H.node v v)).toList) := by
            simp only [Option.toList_some]; rw [← hup]; exact UH_pairUp d _ huh
          have hdj' : DJ (pairs m ++ (some (H.node v v)).toList) := by
            simp only [Option.toList_some]; rw [← hup]; exact DJ_pairUp _ hdj
          simp only [finEvolve, hpar, ↓reduceIte, hup]
          rcases hpos with hlow | hloc | ⟨v', hc0, hc1, hc2, hc3⟩
          · have hne1 := hs.root_ne v d hv (by omega)
            rw [stepProof_other _ _ _ _ _ hne1 hne1]
            obtain ⟨r1, _⟩ := ih _ hlt (pairs m) (d + 1) (some (H.node v v)) mp (by simp) huh' hdj' hs
              (Or.inl (by omega)) rfl
            exact ⟨r1, fun h => by omega⟩
          · cases hloc with
            | here _ _ _ hodd _ _ => omega
            | up _ _ _ hup' =>
              have hdep := hup'.depth
              have hne1 := hs.root_ne v d hv (by omega)
              rw [stepProof_other _ _ _ _ _ hne1 hne1]
              obtain ⟨r1, r2⟩ := ih _ hlt (pairs m) (d + 1) (some (H.node v v)) mp (by simp) huh' hdj' hs
                (Or.inr (Or.inl hup')) rfl
              exact ⟨r1, fun _ => by simpa using r2 (by omega)⟩
          · simp only [Option.some.injEq] at hc0; subst hc0
            have hpar' : (i / 2 ^ d) % 2 = 0 := by omega
            have hstep : stepProof v v (H.node v v) true mp = mp.addDuplicate (H.node mp.root mp.root) := by
              unfold stepProof; simp [hs.index, hc2]
            rw [hstep]
            have hs1 := hs.addDup d hc1 hpar'
            obtain ⟨r1, r2⟩ := ih _ hlt (pairs m) (d + 1) (some (H.node v v)) _ (by simp) huh' hdj' hs1
              (Or.inr (Or.inr ⟨_, rfl, by simp [Proof.addDuplicate, hc1],
                by simp [Proof.addDuplicate, hc2], by rw [div_pow_succ, hpl]; omega⟩)) rfl
            exact ⟨r1, fun _ => by simpa using r2 (by simp [Proof.addDuplicate, hc1])⟩
        · -- odd layer: the pending hash `x` is paired with the running hash
          have h1 : m.length % 2 = 1 := by omega
          have hxv : Disj x v := by
            have := hdj
            unfold DJ at this
            rw [List.pairwise_append] at this
            exact this.2.2 x hxm v (by simp)
          have hup : pairUp (m ++ [v]) = pairs m ++ [H.node x v] := pairUp_snoc_odd m x v h1 hx
          have huh' : UH (d + 1) (pairs m ++ (some (H.node x v)).toList) := by
            simp only [Option.toList_some]; rw [← hup]; exact UH_pairUp d _ huh
          have hdj' : DJ (pairs m ++ (some (H.node x v)).toList) := by
            simp only [Option.toList_some]; rw [← hup]; exact DJ_pairUp _ hdj
          simp only [finEvolve, hpar, ↓reduceIte, h1, hx, Option.toList_some, Layer.lastHash,
            List.head?_cons, hup]
          rcases hpos with hlow | hloc | ⟨v', hc0, hc1, hc2, hc3⟩
          · have hne1 := hs.root_ne x d hxd (by omega)
            have hne2 := hs.root_ne v d hv (by omega)
            rw [stepProof_other _ _ _ _ _ hne1 hne2]
            obtain ⟨r1, _⟩ := ih _ hlt (pairs m) (d + 1) (some (H.node x v)) mp (by simp) huh' hdj' hs
              (Or.inl (by omega)) rfl
            exact ⟨r1, fun h => by omega⟩
          · cases hloc with
            | here _ _ hd1 _ hroot hidx =>
              have hroot' : mp.root = x := by rw [hx] at hroot; exact (Option.some.inj hroot).symm
              have hpar' : (i / 2 ^ d) % 2 = 0 := by omega
              have hstep : stepProof x v (H.node x v) false mp = mp.addHash v (H.node mp.root v) := by
                unfold stepProof; simp [hs.index, hroot']
              rw [hstep]
              have hs1 := hs.addLeft v d hd1 hpar'
              obtain ⟨r1, r2⟩ := ih _ hlt (pairs m) (d + 1) (some (H.node x v)) _ (by simp) huh' hdj' hs1
                (Or.inr (Or.inr ⟨_, rfl, by simp [Proof.addHash, hd1], by simp [Proof.addHash, hroot'],
                  by rw [div_pow_succ, hpl]; omega⟩)) rfl
              exact ⟨r1, fun _ => by simpa using r2 (by simp [Proof.addHash, hd1])⟩
            | up _ _ _ hup' =>
              have hdep := hup'.depth
              have hne1 := hs.root_ne x d hxd (by omega)
              have hne2 := hs.root_ne v d hv (by omega)
              rw [stepProof_other _ _ _ _ _ hne1 hne2]
              obtain ⟨r1, r2⟩ := ih _ hlt (pairs m) (d + 1) (some (H.node x v)) mp (by simp) huh' hdj' hs
                (Or.inr (Or.inl hup')) rfl
              exact ⟨r1, fun _ => by simpa using r2 (by omega)⟩
          · simp only [Option.some.injEq] at hc0; subst hc0
            have hne : mp.root ≠ x := by rw [hc2]; exact fun hc => hxv.ne hc.symm
            have hne' : ¬ (v = x) := by rw [← hc2]; exact hne
            have hpar' : (i / 2 ^ d) % 2 = 1 := by omega
            have hstep : stepProof x v (H.node x v) false mp = mp.addHash x (H.node x mp.root) := by
              unfold stepProof; simp [hs.index, hc2, hne']
            rw [hstep]
            have hs1 := hs.addRight x d hc1 hpar' (fun hc => hne hc.symm) (by rw [hxd, hc2, hv])
            obtain ⟨r1, r2⟩ := ih _ hlt (pairs m) (d + 1) (some (H.node x v)) _ (by simp) huh' hdj' hs1
              (Or.inr (Or.inr ⟨_, rfl, by simp [Proof.addHash, hc1], by simp [Proof.addHash, hc2],
                by rw [div_pow_succ, hpl]; omega⟩)) rfl
            exact ⟨r1, fun _ => by simpa using r2 (by simp [Proof.addHash, hc1])⟩
      | none =>
        simp only [Option.toList_none, List.append_nil] at huh hdj ⊢
        have hposn : mp.depth ≤ d ∨ Loc i mp d m := by
          rcases hpos with h | h | ⟨v, h, _⟩
          · exact Or.inl h
          · exact Or.inr h
          · cases h
        by_cases hpar : m.length % 2 = 0
        · -- even layer, nothing running: skip
          have hlen : 2 ≤ m.length := by omega
          have hpne : pairs m ≠ [] := by
            intro hc
            have := congrArg List.length hc
            rw [pairs_length] at this; simp at this; omega
          have hup : pairUp m = pairs m := pairUp_even m hpar
          have huh' : UH (d + 1) (pairs m ++ (none : Option H).toList) := by
            simp only [Option.toList_none, List.append_nil]; rw [← hup]; exact UH_pairUp d _ huh
          have hdj' : DJ (pairs m ++ (none : Option H).toList) := by
            simp only [Option.toList_none, List.append_nil]; rw [← hup]; exact DJ_pairUp _ hdj
          have h0 : ¬ (m.length % 2 ≠ 0) := by omega
          simp only [finEvolve, h0, ↓reduceIte]
          rw [merkleRoot_step _ hlen, hup]
          rcases hposn with hlow | hloc
          · obtain ⟨r1, _⟩ := ih _ hlt (pairs m) (d + 1) none mp (by simpa using hpne) huh' hdj' hs
              (Or.inl (by omega)) rfl
            exact ⟨r1, fun h => by omega⟩
          · cases hloc with
            | here _ _ _ hodd _ _ => omega
            | up _ _ _ hup' =>
              have hdep := hup'.depth
              obtain ⟨r1, r2⟩ := ih _ hlt (pairs m) (d + 1) none mp (by simpa using hpne) huh' hdj' hs
                (Or.inr (Or.inl hup')) rfl
              exact ⟨r1, fun _ => by simpa using r2 (by omega)⟩
        · have h1 : m.length % 2 = 1 := by omega
          have h1' : m.length % 2 ≠ 0 := by omega
          by_cases hone : m.length = 1
          · -- the top layer holds the root
            have hp : pairs m = [] := by
              apply List.eq_nil_of_length_eq_zero; rw [pairs_length]; omega
            have hmx : m = [x] := by
              match m, hone with
              | [a], _ => simp at hx; rw [hx]
            simp only [finEvolve, h1', ne_eq, not_false_eq_true, ↓reduceIte, h1, hx,
              Option.toList_some, Layer.lastHash, List.head?_cons, hone, hp, canon_nil, and_self]
            refine ⟨hs, fun hlt' => ?_⟩
            rcases hposn with hlow | hloc
            · omega
            · cases hloc with
              | here _ _ _ _ hroot _ =>
                rw [hx] at hroot
                rw [hmx, merkleRoot_single]; exact hroot.symm
              | up _ _ _ hup' => rw [hp] at hup'; exact absurd hup' Loc.not_nil
          · -- odd layer with more above: the pending hash is paired with itself
            have hlen : 2 ≤ m.length := by omega
            have hup : pairUp m = pairs m ++ [H.node x x] := pairUp_odd m x h1 hx
            have huh' : UH (d + 1) (pairs m ++ (some (H.node x x)).toList) := by
              simp only [Option.toList_some]; rw [← hup]; exact UH_pairUp d _ huh
            have hdj' : DJ (pairs m ++ (some (H.node x x)).toList) := by
              simp only [Option.toList_some]; rw [← hup]; exact DJ_pairUp _ hdj
            simp only [finEvolve, h1', ne_eq, not_false_eq_true, ↓reduceIte, h1, hx,
              Option.toList_some, Layer.lastHash, List.head?_cons, hone, false_and]
            rw [merkleRoot_step _ hlen, hup]
            rcases hposn with hlow | hloc
            · have hne1 := hs.root_ne x d hxd (by omega)
              rw [stepProof_other _ _ _ _ _ hne1 hne1]
              obtain ⟨r1, _⟩ := ih _ hlt (pairs m) (d + 1) (some (H.node x x)) mp (by simp) huh' hdj' hs
                (Or.inl (by omega)) rfl
              exact ⟨r1, fun h => by omega⟩
            · cases hloc with
              | here _ _ hd1 _ hroot hidx =>
                have hroot' : mp.root = x := by rw [hx] at hroot; exact (Option.some.inj hroot).symm
                have hpar' : (i / 2 ^ d) % 2 = 0 := by omega
                have hstep : stepProof x x (H.node x x) true mp = mp.addDuplicate (H.node mp.root mp.root) := by
                  unfold stepProof; simp [hs.index, hroot']
                rw [hstep]
                have hs1 := hs.addDup d hd1 hpar'
                obtain ⟨r1, r2⟩ := ih _ hlt (pairs m) (d + 1) (some (H.node x x)) _ (by simp) huh' hdj' hs1
                  (Or.inr (Or.inr ⟨_, rfl, by simp [Proof.addDuplicate, hd1],
                    by simp [Proof.addDuplicate, hroot'], by rw [div_pow_succ, hpl]; omega⟩)) rfl
                exact ⟨r1, fun _ => by simpa using r2 (by simp [Proof.addDuplicate, hd1])⟩
              | up _ _ _ hup' =>
                have hdep := hup'.depth
                have hne1 := hs.root_ne x d hxd (by omega)
                rw [stepProof_other _ _ _ _ _ hne1 hne1]
                obtain ⟨r1, r2⟩ := ih _ hlt (pairs m) (d + 1) (some (H.node x x)) mp (by simp) huh' hdj' hs
                  (Or.inr (Or.inl hup')) rfl
                exact ⟨r1, fun _ => by simpa using r2 (by omega)⟩

/-! ### Part 5: the proofs of a duplicate-free block, through handleBlock's loop -/

/-- every proof attached to the tree is sound and sits in a layer (state between two AddHash calls,
    `pre` = leaf level fed so far). -/
def PG (pre : List H) (ps : List Proof) : Prop := ∀ mp ∈ ps, ∃ i, Sound mp i ∧ Loc i mp 0 pre

theorem assignIndex_new' (ps : List Proof) (x : H) (c : Nat) (h : ∀ p ∈ ps, p.index ≠ none) :
    assignIndex (ps ++ [newProof x]) x c = ps ++ [{ newProof x with index := some c }] := by
  induction ps with
  | nil => simp [assignIndex, newProof]
  | cons p rest ih =>
    have hp : p.index ≠ none := h p (by simp)
    simp only [List.cons_append, assignIndex, hp, false_and, ↓reduceIte]
    rw [ih (fun q hq => h q (by simp [hq]))]

theorem addHash_proofs (t t' : Tree) (pre : List H) (x : H) (h : TreeOK t pre) (ht' : t.addHash x = some t') :
    t'.proofs = (assignIndex t.proofs x t.count).map (addEvolve true (canon pre) x) := by
  unfold Tree.addHash at ht'
  cases hl : t.layers with
  | nil =>
    have hpre : pre = [] := canon_eq_nil pre (by rw [← h.layers, hl])
    subst hpre
    rw [hl] at ht'
    simp only [Option.some.injEq] at ht'
    rw [← ht']
    simp [canon_nil, addEvolve]
  | cons L rest =>
    rw [hl] at ht'
    simp only at ht'
    rw [← hl, h.prune, h.layers] at ht'
    split at ht'
    · cases ht'
    · rename_i ls ps' hloop
      simp only [Option.some.injEq] at ht'
      rw [← ht']
      exact addLoop_proofs _ _ _ _ _ _ hloop

theorem UH_leaves (ids : List Nat) : UH 0 (ids.map H.leaf) := by
  intro x hx; obtain ⟨n, _, rfl⟩ := List.mem_map.mp hx; rfl

/-- one AddHash (after an optional AddMerkleProof) keeps every proof good. -/
theorem pg_addTx (t t' : Tree) (preIds : List Nat) (xid : Nat) (rel : Bool)
    (hnd : (preIds ++ [xid]).Nodup) (hok : TreeOK t (preIds.map H.leaf))
    (hidx : ∀ p ∈ t.proofs, p.index ≠ none) (hpg : PG (preIds.map H.leaf) t.proofs)
    (ht' : (if rel then t.addMerkleProof (H.leaf xid) else t).addHash (H.leaf xid) = some t') :
    PG ((preIds ++ [xid]).map H.leaf) t'.proofs := by
  have huh : UH 0 (preIds.map H.leaf ++ [H.leaf xid]) := by
    have := UH_leaves (preIds ++ [xid]); simpa using this
  have hdj : DJ (preIds.map H.leaf ++ [H.leaf xid]) := by
    have := DJ_leaves (preIds ++ [xid]) hnd; simpa using this
  have hold : ∀ mp ∈ t.proofs, ∃ i, Sound (addEvolve true (canon (preIds.map H.leaf)) (H.leaf xid) mp) i ∧
      Loc i (addEvolve true (canon (preIds.map H.leaf)) (H.leaf xid) mp) 0 (preIds.map H.leaf ++ [H.leaf xid]) := by
    intro mp hmp
    obtain ⟨i, hs, hloc⟩ := hpg mp hmp
    obtain ⟨r1, _, r3⟩ := addEvolve_good _ 0 (H.leaf xid) mp i huh hdj hs (Or.inr (Or.inl hloc))
    have hdep : 0 < mp.depth := by obtain ⟨steps, _, _, h3, _⟩ := hs.ex; omega
    exact ⟨i, r1, r3 hdep⟩
  intro mp' hmp'
  simp only [List.map_append, List.map_cons, List.map_nil]
  cases rel with
  | false =>
    simp only [Bool.false_eq_true, ↓reduceIte] at ht'
    rw [addHash_proofs t t' _ _ hok ht', assignIndex_none _ _ _ hidx] at hmp'
    obtain ⟨mp, hmp, rfl⟩ := List.mem_map.mp hmp'
    exact hold mp hmp
  | true =>
    simp only [↓reduceIte] at ht'
    rw [addHash_proofs _ t' _ _ (treeOK_addMerkleProof _ _ _ hok) ht'] at hmp'
    simp only [Tree.addMerkleProof] at hmp'
    rw [assignIndex_new' _ _ _ hidx] at hmp'
    obtain ⟨mp, hmp, rfl⟩ := List.mem_map.mp hmp'
    simp only [List.mem_append, List.mem_singleton] at hmp
    rcases hmp with hmp | rfl
    · exact hold mp hmp
    · have hs := sound_new xid t.count
      obtain ⟨r1, _, r3⟩ := addEvolve_good _ 0 (H.leaf xid) _ t.count huh hdj hs
        (Or.inr (Or.inr ⟨rfl, rfl, by simp [hok.count]⟩))
      exact ⟨t.count, r1, r3 (by simp [newProof])⟩

/-- the finalized proofs in terms of the per-proof evolution. -/
theorem finalize_proofs (t : Tree) (pre : List H) (h : TreeOK t pre) (hne : pre ≠ []) (r : Option H)
    (ps : List Proof) (hfin : t.finalize = some (r, ps)) :
    ps = t.proofs.map (finEvolve (canon pre) none) := by
  have hpos : 0 < pre.length := List.length_pos_iff.mpr hne
  unfold Tree.finalize at hfin
  have h0 : t.count ≠ 0 := by rw [h.count]; omega
  simp only [h0, ↓reduceIte] at hfin
  by_cases h1 : t.count = 1
  · have hlen : pre.length = 1 := by rw [← h.count]; exact h1
    match pre, hlen with
    | [a], _ =>
      simp only [h1, ↓reduceIte, h.layers] at hfin
      rw [canon_cons] at hfin ⊢
      simp [Layer.lastHash, pairs, canon_nil] at hfin
      rw [← hfin.2]
      simp [finEvolve, Layer.lastHash, pairs, canon_nil]
  · simp only [h1, ↓reduceIte, h.layers] at hfin
    rcases finLoop_proofs _ _ _ _ _ hfin with hp | ⟨hr, _⟩
    · exact hp
    · exfalso
      obtain ⟨ps2, hps2, _⟩ := finalize_ok t pre h
      have : t.finalize = some (r, ps) := by
        unfold Tree.finalize; simp only [h0, ↓reduceIte, h1, h.layers]; exact hfin
      rw [hps2] at this
      simp only [Option.some.injEq, Prod.mk.injEq] at this
      exact merkleRoot_ne_none pre hne (by rw [this.1, hr])

/-- every finalized proof of a duplicate-free block is sound and has the merkle root as running root. -/
theorem pg_finalize_sound (t : Tree) (ids : List Nat) (hnd : ids.Nodup) (hne : ids ≠ [])
    (hok : TreeOK t (ids.map H.leaf)) (hpg : PG (ids.map H.leaf) t.proofs)
    (r : Option H) (ps : List Proof) (hfin : t.finalize = some (r, ps)) :
    ∀ p ∈ ps, ∃ i, Sound p i ∧ some p.root = merkleRoot (ids.map H.leaf) := by
  have hne' : ids.map H.leaf ≠ [] := by simpa using hne
  rw [finalize_proofs t _ hok hne' r ps hfin]
  intro p hp
  obtain ⟨mp, hmp, rfl⟩ := List.mem_map.mp hp
  obtain ⟨i, hs, hloc⟩ := hpg mp hmp
  obtain ⟨r1, r2⟩ := finEvolve_good (ids.map H.leaf) 0 none mp i (by simpa using hne')
    (by simpa using UH_leaves ids) (by simpa using DJ_leaves ids hnd) hs (Or.inr (Or.inl hloc))
  have hdep : 0 < mp.depth := by obtain ⟨steps, _, _, h3, _⟩ := hs.ex; omega
  exact ⟨i, r1, by simpa using r2 hdep⟩

/-- **every finalized proof of a duplicate-free block recomputes the root.** -/
theorem pg_finalize (t : Tree) (ids : List Nat) (hnd : ids.Nodup) (hne : ids ≠ [])
    (hok : TreeOK t (ids.map H.leaf)) (hpg : PG (ids.map H.leaf) t.proofs)
    (r : Option H) (ps : List Proof) (hfin : t.finalize = some (r, ps)) :
    ∀ p ∈ ps, p.calculateRoot = merkleRoot (ids.map H.leaf) := by
  intro p hp
  obtain ⟨i, hs, hr⟩ := pg_finalize_sound t ids hnd hne hok hpg r ps hfin p hp
  rw [hs.calculateRoot, hr]

theorem txLoop_cons (env : Env) (tx : H) (rest : List H) (st : LoopState) :
    txLoop env (tx :: rest) st =
      match txLoop env [tx] st with
      | .inl st1 => txLoop env rest st1
      | .inr r => .inr r := by
  rw [txLoop.eq_2, txLoop.eq_2]
  simp only [txLoop.eq_1]
  cases env.proc st.i <;> simp only
  all_goals
    split
    · rfl
    · split <;> rfl

/-- the receive loop keeps every proof good when the received transaction ids are duplicate-free. -/
theorem txLoop_pg (env : Env) (recvIds : List Nat) (st st' : LoopState) (preIds : List Nat)
    (K : List (H × Nat)) (hnd : (preIds ++ recvIds).Nodup)
    (hinv : LoopInv st (preIds.map H.leaf) K) (hpg : PG (preIds.map H.leaf) st.tree.proofs)
    (hrun : txLoop env (recvIds.map H.leaf) st = .inl st') :
    PG ((preIds ++ recvIds).map H.leaf) st'.tree.proofs := by
  induction recvIds generalizing st preIds K with
  | nil =>
    simp only [List.map_nil, txLoop, Sum.inl.injEq] at hrun
    subst hrun; simpa using hpg
  | cons xid rest ih =>
    simp only [List.map_cons] at hrun
    rw [txLoop_cons] at hrun
    have hspec := txLoop_spec env [H.leaf xid] st _ K hinv
    cases h1 : txLoop env [H.leaf xid] st with
    | inr r => rw [h1] at hrun; cases hrun
    | inl st1 =>
      rw [h1] at hrun hspec
      simp only at hrun hspec
      obtain ⟨hinv1, _⟩ := hspec
      have hnd1 : (preIds ++ [xid]).Nodup := by
        have : (preIds ++ [xid] ++ rest).Nodup := by simpa using hnd
        exact (List.nodup_append.mp this).1
      have hidx := keys_indexed _ _ hinv.keys
      -- what the single step did to the tree
      have hpg1 : PG ((preIds ++ [xid]).map H.leaf) st1.tree.proofs := by
        unfold txLoop at h1
        simp only at h1
        cases hproc : env.proc st.i with
        | error => rw [hproc] at h1; cases h1
        | relevant =>
          rw [hproc] at h1
          simp only [↓reduceIte] at h1
          split at h1
          · cases h1
          · rename_i t2 ht2
            split at h1
            · cases h1
            · simp only [txLoop, Sum.inl.injEq] at h1
              rw [← h1]
              exact pg_addTx st.tree t2 preIds xid true hnd1 hinv.tree hidx hpg (by simpa using ht2)
        | notRelevant =>
          rw [hproc] at h1
          simp only [reduceCtorEq, ↓reduceIte] at h1
          split at h1
          · cases h1
          · rename_i t2 ht2
            split at h1
            · cases h1
            · simp only [txLoop, Sum.inl.injEq] at h1
              rw [← h1]
              exact pg_addTx st.tree t2 preIds xid false hnd1 hinv.tree hidx hpg (by simpa using ht2)
      have hinv1' : LoopInv st1 ((preIds ++ [xid]).map H.leaf) (K ++ relPos env (preIds.map H.leaf).length [H.leaf xid]) := by
        simpa using hinv1
      have := ih st1 (preIds ++ [xid]) _ (by simpa using hnd) hinv1' hpg1 hrun
      simpa using this

/-! ### Part 6: the tree fed as `handleBlock` feeds it; the relevant positions -/

/-- what `handleBlock` does to the tree per received transaction. -/
def Tree.addTx (t : Tree) (txid : H) (relevant : Bool) : Option Tree :=
  (if relevant then t.addMerkleProof txid else t).addHash txid

def feedTxs : Tree → List (H × Bool) → Option Tree
  | t, [] => some t
  | t, (txid, rel) :: rest =>
    match t.addTx txid rel with
    | none => none
    | some t' => feedTxs t' rest

theorem feedTxs_ok (t : Tree) (pre : List H) (txs : List (H × Bool)) (h : TreeOK t pre) :
    ∃ t', feedTxs t txs = some t' ∧ TreeOK t' (pre ++ txs.map (·.1)) := by
  induction txs generalizing t pre with
  | nil => exact ⟨t, rfl, by simpa using h⟩
  | cons q rest ih =>
    obtain ⟨txid, rel⟩ := q
    have h1 : TreeOK (if rel = true then t.addMerkleProof txid else t) pre := by
      split
      · exact treeOK_addMerkleProof _ _ _ h
      · exact h
    obtain ⟨t1, ht1, hok1, _⟩ := addHash_ok _ pre txid h1
    obtain ⟨t2, ht2, hok2⟩ := ih t1 (pre ++ [txid]) hok1
    refine ⟨t2, ?_, by simpa using hok2⟩
    simp only [feedTxs, Tree.addTx, ht1, ht2]

theorem feedTxs_pg (t : Tree) (preIds : List Nat) (txs : List (Nat × Bool))
    (hnd : (preIds ++ txs.map (·.1)).Nodup) (hok : TreeOK t (preIds.map H.leaf))
    (hpg : PG (preIds.map H.leaf) t.proofs) :
    ∃ t', feedTxs t (txs.map fun q => (H.leaf q.1, q.2)) = some t' ∧
      TreeOK t' ((preIds ++ txs.map (·.1)).map H.leaf) ∧
      PG ((preIds ++ txs.map (·.1)).map H.leaf) t'.proofs := by
  induction txs generalizing t preIds with
  | nil => exact ⟨t, rfl, by simpa using hok, by simpa using hpg⟩
  | cons q rest ih =>
    obtain ⟨xid, rel⟩ := q
    have hnd1 : (preIds ++ [xid]).Nodup := by
      have : (preIds ++ [xid] ++ rest.map (·.1)).Nodup := by simpa using hnd
      exact (List.nodup_append.mp this).1
    have hidx : ∀ p ∈ t.proofs, p.index ≠ none := by
      intro p hp
      obtain ⟨i, hs, _⟩ := hpg p hp
      rw [hs.index]; simp
    have h1 : TreeOK (if rel = true then t.addMerkleProof (H.leaf xid) else t) (preIds.map H.leaf) := by
      split
      · exact treeOK_addMerkleProof _ _ _ hok
      · exact hok
    obtain ⟨t1, ht1, hok1, _⟩ := addHash_ok _ _ (H.leaf xid) h1
    have hpg1 := pg_addTx t t1 preIds xid rel hnd1 hok hidx hpg ht1
    have hok1' : TreeOK t1 ((preIds ++ [xid]).map H.leaf) := by simpa using hok1
    obtain ⟨t2, ht2, hok2, hpg2⟩ := ih t1 (preIds ++ [xid]) (by simpa using hnd) hok1' hpg1
    refine ⟨t2, ?_, by simpa using hok2, by simpa using hpg2⟩
    simp only [List.map_cons, feedTxs, Tree.addTx, ht1, ht2]

/-- `relPos` is the enumeration of the received transactions filtered by the processor's verdict:
    exactly the relevant ones, once each, in block order, each with its position. -/
theorem relPos_eq_filter (env : Env) (i : Nat) (recv : List H) :
    relPos env i recv = (recv.zipIdx i).filter (fun q => env.proc q.2 == .relevant) := by
  induction recv generalizing i with
  | nil => rfl
  | cons tx rest ih =>
    simp only [relPos, List.zipIdx_cons, List.filter_cons, beq_iff_eq]
    split <;> rw [ih]

theorem relPos_mem (env : Env) (recv : List H) (q : H × Nat) (hq : q ∈ relPos env 0 recv) :
    recv[q.2]? = some q.1 ∧ env.proc q.2 = .relevant := by
  rw [relPos_eq_filter, List.mem_filter] at hq
  obtain ⟨h1, h2⟩ := hq
  have := List.mem_zipIdx h1
  simp only [Nat.zero_le, Nat.sub_zero, Nat.zero_add, true_and] at this
  obtain ⟨hlt, hget⟩ := this
  refine ⟨?_, by simpa using h2⟩
  rw [List.getElem?_eq_getElem hlt, hget]


/-! ### Part 7: the proofs are the textbook paths -/

theorem stepsGo_steps (fuel layer : Nat) (steps : List (Option H)) (hf : steps.length < fuel) :
    stepsGo fuel layer (pathOf steps) (dupsOf layer steps) = steps := by
  induction steps generalizing fuel layer with
  | nil =>
    cases fuel with
    | zero => omega
    | succ f => simp [stepsGo, pathOf, dupsOf]
  | cons s rest ih =>
    cases fuel with
    | zero => omega
    | succ f =>
      simp only [List.length_cons] at hf
      have hf' : rest.length < f := by omega
      cases s with
      | none => simp [stepsGo, dupsOf, pathOf, ih _ _ hf']
      | some o =>
        simp only [stepsGo, dupsOf, pathOf]
        have hge := dupsOf_ge (layer + 1) rest
        cases hd : dupsOf (layer + 1) rest with
        | nil => simp only; rw [← hd, ih _ _ hf']
        | cons d drest =>
          have hne : layer ≠ d := by
            have := hge d (by rw [hd]; simp)
            omega
          simp only [hne, ↓reduceIte]
          rw [← hd, ih _ _ hf']

theorem expandSteps_length (i : Nat) (h : H) (steps : List (Option H)) :
    (expandSteps i h steps).length = steps.length := by
  induction steps generalizing i h with
  | nil => rfl
  | cons s rest ih => cases s <;> simp [expandSteps, ih]

/-- the expansion climbs exactly like the steps. -/
theorem climb_expandSteps (i : Nat) (h : H) (steps : List (Option H)) (r : H)
    (hc : climbSteps i h steps = some r) : climb i h (expandSteps i h steps) = r := by
  induction steps generalizing i h with
  | nil => simp only [climbSteps, Option.some.injEq] at hc; simp [expandSteps, climb, hc]
  | cons s rest ih =>
    cases s with
    | none =>
      simp only [climbSteps] at hc
      split at hc
      · rename_i hl
        simp only [expandSteps, climb, hl, ↓reduceIte]
        exact ih _ _ hc
      · cases hc
    | some o =>
      simp only [climbSteps] at hc
      split at hc
      · rename_i hl
        simp only [expandSteps, climb, hl, ↓reduceIte]
        exact ih _ _ hc
      · rename_i hl
        split at hc
        · cases hc
        · simp only [expandSteps, climb, hl, ↓reduceIte]
          exact ih _ _ hc

theorem climb_append (i : Nat) (h : H) (a b : List H) :
    climb i h (a ++ b) = climb (i / 2 ^ a.length) (climb i h a) b := by
  induction a generalizing i h with
  | nil => simp [climb]
  | cons s rest ih =>
    simp only [List.cons_append, climb, List.length_cons]
    rw [ih, Nat.div_div_eq_div_mul, Nat.pow_succ, Nat.mul_comm]

theorem snoc_cases (l : List H) : l = [] ∨ ∃ init last, l = init ++ [last] := by
  induction l with
  | nil => exact Or.inl rfl
  | cons a rest ih =>
    right
    rcases ih with h | ⟨init, last, h⟩
    · exact ⟨[], a, by rw [h]; rfl⟩
    · exact ⟨a :: init, last, by rw [h]; rfl⟩

/-- over the ideal hash a root, a leaf and an index determine the path (of a given length). -/
theorem climb_unique (i : Nat) (h : H) (p1 p2 : List H) (hlen : p1.length = p2.length)
    (heq : climb i h p1 = climb i h p2) : p1 = p2 := by
  generalize hn : p1.length = n
  induction n generalizing p1 p2 with
  | zero =>
    have h1 : p1 = [] := List.eq_nil_of_length_eq_zero hn
    have h2 : p2 = [] := List.eq_nil_of_length_eq_zero (by rw [← hlen, hn])
    rw [h1, h2]
  | succ n ih =>
    rcases snoc_cases p1 with h1 | ⟨init1, last1, h1⟩
    · rw [h1] at hn; simp at hn
    rcases snoc_cases p2 with h2 | ⟨init2, last2, h2⟩
    · rw [h2] at hlen; rw [hlen] at hn; simp at hn
    subst h1; subst h2
    simp only [List.length_append, List.length_singleton, Nat.add_right_cancel_iff] at hlen hn
    rw [climb_append, climb_append, hlen] at heq
    simp only [climb] at heq
    split at heq
    · simp only [H.node.injEq] at heq
      rw [ih init1 init2 hlen heq.1 hn, heq.2]
    · simp only [H.node.injEq] at heq
      rw [ih init1 init2 hlen heq.2 hn, heq.1]

/-- the number of levels above a leaf of a uniform level list. -/
theorem merklePath_length (l : List H) (d i : Nat) (x r : H) (huh : UH d l) (hx : l[i]? = some x)
    (hr : merkleRoot l = some r) : ht r = d + (merklePath l i).length := by
  generalize hn : l.length = n
  induction n using Nat.strongRecOn generalizing l d i x with
  | ind n ih =>
    match l with
    | [] => simp at hx
    | [a] =>
      rw [merkleRoot_single] at hr
      simp only [Option.some.injEq] at hr
      rw [merklePath, ← hr, huh a (by simp)]; simp
    | a :: b :: rest =>
      obtain ⟨s, hs1, hs2⟩ := pairUp_sibling (a :: b :: rest) i x hx
      rw [merkleRoot_step _ (by simp)] at hr
      rw [merklePath, hs1]
      simp only [List.length_cons]
      have := ih (pairUp (a :: b :: rest)).length
        (by rw [← hn]; simp only [pairUp_length, List.length_cons]; omega)
        _ (d + 1) (i / 2) _ (UH_pairUp d _ huh) hs2 hr rfl
      omega

/-- a sound proof whose running root is the merkle root of a level list of transaction ids, and whose
    txid sits at its index, denotes exactly the textbook path. -/
theorem sound_siblings (mp : Proof) (i : Nat) (ids : List Nat) (r : H) (hs : Sound mp i)
    (hroot : mp.root = r) (hr : merkleRoot (ids.map H.leaf) = some r)
    (htx : (ids.map H.leaf)[i]? = some mp.txid) :
    mp.siblings = merklePath (ids.map H.leaf) i := by
  obtain ⟨steps, h1, h2, h3, h4⟩ := hs.ex
  have hsteps : stepsGo (mp.path.length + mp.dups.length + 1) 1 mp.path mp.dups = steps := by
    rw [h1, h2, steps_length]; exact stepsGo_steps _ _ _ (by omega)
  unfold Proof.siblings
  rw [hs.index]
  simp only [hsteps]
  have hc1 := climb_expandSteps i mp.txid steps mp.root h4
  have hc2 := climb_merklePath (ids.map H.leaf) i mp.txid htx
  rw [hr] at hc2
  simp only [Option.some.injEq] at hc2
  apply climb_unique i mp.txid
  · rw [expandSteps_length]
    have hl := merklePath_length (ids.map H.leaf) 0 i mp.txid r (UH_leaves ids) htx hr
    have := hs.height
    rw [hroot] at this
    omega
  · rw [hc1, hc2, hroot]

end BRV.Merkle
