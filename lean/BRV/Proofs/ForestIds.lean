/-
Identity of headers in the order-of-acceptance world: the hashes the tracked branches hold are pairwise
different and every held header is in its branch's height map (`IdOK`).  Preserved by `ProcessHeader`
(the "already have" test makes an accepted header new), by Clean of a root-best forest and by marks.
With it the lookups are exact for every held header and a marked header is held by no tracked branch.
-/
import BRV.Proofs.ForestTrim

namespace BRV.Repo

structure IdOK (r : Repo) : Prop where
  complete : ∀ bi ∈ r.branches, ∀ (i : Nat) (d : HData), (r.br bi).headers[i]? = some d →
    (r.br bi).hmap.get? d.hdr.id = some ((r.br bi).parentHeight + (r.br bi).offset + (i : Int))
  uniq : ∀ bi ∈ r.branches, ∀ bj ∈ r.branches, ∀ (i j : Nat) (d e : HData), (r.br bi).headers[i]? = some d →
    (r.br bj).headers[j]? = some e → d.hdr.id = e.hdr.id → bi = bj ∧ i = j

/-- a held header is found by `Branches.Find`. -/
theorem held_found (r : Repo) (hf : ForestOK r) (hi : IdOK r) (bi : Nat) (hbi : bi ∈ r.branches) (i : Nat) (d : HData)
    (hd : (r.br bi).headers[i]? = some d) : r.branchesFind d.hdr.id ≠ none := by
  intro hnone
  unfold Repo.branchesFind at hnone
  rw [List.findSome?_eq_none_iff] at hnone
  have h1 := hnone bi hbi
  have hown := hi.complete bi hbi i d hd
  have hlt := hf.valid bi hbi
  have : r.find bi d.hdr.id = some ((r.br bi).parentHeight + (r.br bi).offset + (i : Int)) := by
    unfold Repo.find Repo.fuel
    simp only [bfind, br_of_lt r bi hlt, hown]
  rw [this] at h1
  cases h1

/-- what `Branches.Find` answers for a held header: the branch and height that hold it. -/
theorem found_holder (r : Repo) (hf : ForestOK r) (id bi : Nat) (h : Int) (hfind : r.branchesFind id = some (bi, h)) :
    bi ∈ r.branches ∧ ∃ d, getI (r.br bi).headers (h - (r.br bi).parentHeight - (r.br bi).offset) = some d ∧ d.hdr.id = id :=
  branchesFind_owner' r hf id bi h hfind

/-- a state of one of the three shapes a submission can produce keeps the identities. -/
theorem idOK_of_shape (r : Repo) (h : Hdr) (ok : Bool) (hf : ForestOK r) (hi : IdOK r) (r' : Repo)
    (hshape : Shape r h ok r') : IdOK r' := by
  cases hshape with
  | same ha hb hh =>
    have hbr : ∀ x, r'.br x = r.br x := by intro x; unfold Repo.br; rw [ha]
    refine ⟨?_, ?_⟩
    · intro bi hbi i d hd; rw [hbr] at hd ⊢; exact hi.complete bi (hb ▸ hbi) i d hd
    · intro bi hbi bj hbj i j d e hd he; rw [hbr] at hd he; exact hi.uniq bi (hb ▸ hbi) bj (hb ▸ hbj) i j d e hd he
  | fork pb ph lst nb hp hne hn ha hb hh =>
    obtain ⟨lst', w, hat, hlid, hnb⟩ := newBranch_ok_shape r pb ph h nb hn
    have hold : ∀ x, x < r.arena.length → r'.br x = r.br x := by
      intro x hx; unfold Repo.br; rw [ha, List.getElem?_append_left hx]
    have hnew : r'.br r.arena.length = nb := by unfold Repo.br; rw [ha]; simp
    have hfresh : ∀ bj ∈ r.branches, ∀ (j : Nat) (e : HData), (r.br bj).headers[j]? = some e → e.hdr.id ≠ h.id := by
      intro bj hbj j e he heq
      have := held_found r hf hi bj hbj j e he
      rw [heq, hp.fresh] at this
      exact this rfl
    have hmemcases : ∀ x, x ∈ r'.branches → (x ∈ r.branches ∧ x < r.arena.length) ∨ x = r.arena.length := by
      intro x hx
      rw [hb] at hx
      simp only [List.mem_append, List.mem_singleton] at hx
      rcases hx with hx | hx
      · exact Or.inl ⟨hx, hf.valid x hx⟩
      · exact Or.inr hx
    have hnbh : ∀ (i : Nat) (d : HData), nb.headers[i]? = some d → i = 0 ∧ d.hdr = h := by
      intro i d hd
      rw [hnb] at hd
      cases i with
      | zero => simp at hd; exact ⟨rfl, by rw [← hd]⟩
      | succ n => simp at hd
    refine ⟨?_, ?_⟩
    · intro bi hbi i d hd
      rcases hmemcases bi hbi with ⟨hm, hlt⟩ | rfl
      · rw [hold bi hlt] at hd ⊢; exact hi.complete bi hm i d hd
      · rw [hnew] at hd ⊢
        obtain ⟨rfl, hdh⟩ := hnbh i d hd
        rw [hdh, hnb]
        simp [HMap.get?, List.lookup]
    · intro bi hbi bj hbj i j d e hd he heq
      rcases hmemcases bi hbi with ⟨hm, hlt⟩ | rfl
      · rcases hmemcases bj hbj with ⟨hm2, hlt2⟩ | rfl
        · rw [hold bi hlt] at hd; rw [hold bj hlt2] at he
          exact hi.uniq bi hm bj hm2 i j d e hd he heq
        · rw [hold bi hlt] at hd; rw [hnew] at he
          obtain ⟨_, heh⟩ := hnbh j e he
          exact absurd (by rw [heq, heh]) (hfresh bi hm i d hd)
      · rcases hmemcases bj hbj with ⟨hm2, hlt2⟩ | rfl
        · rw [hnew] at hd; rw [hold bj hlt2] at he
          obtain ⟨_, hdh⟩ := hnbh i d hd
          exact absurd (by rw [← heq, hdh]) (hfresh bj hm2 j e he)
        · rw [hnew] at hd he
          obtain ⟨rfl, _⟩ := hnbh i d hd
          obtain ⟨rfl, _⟩ := hnbh j e he
          exact ⟨rfl, rfl⟩
  | extend pb ph lst w hp hprev hlen hbw ha hb hh =>
    have hbr_old : ∀ x, x ≠ pb → r'.br x = r.br x := by
      intro x hx; unfold Repo.br; rw [ha, List.getElem?_set_ne (Ne.symm hx)]
    have hbr_new : r'.br pb = (r.br pb).pushed { hdr := h, work := lst.work + w } := by
      unfold Repo.br; rw [ha, List.getElem?_set_self hlen]; rfl
    have hfresh : ∀ bj ∈ r.branches, ∀ (j : Nat) (e : HData), (r.br bj).headers[j]? = some e → e.hdr.id ≠ h.id := by
      intro bj hbj j e he heq
      have := held_found r hf hi bj hbj j e he
      rw [heq, hp.fresh] at this
      exact this rfl
    -- the headers of the pushed branch
    have hpushed : ∀ (i : Nat) (d : HData), ((r.br pb).pushed { hdr := h, work := lst.work + w }).headers[i]? = some d →
        ((r.br pb).headers[i]? = some d) ∨ (i = (r.br pb).headers.length ∧ d.hdr = h) := by
      intro i d hd
      simp only [Branch.pushed] at hd
      by_cases hlt : i < (r.br pb).headers.length
      · left; rw [List.getElem?_append_left hlt] at hd; exact hd
      · right
        rw [List.getElem?_append_right (by omega)] at hd
        have : i - (r.br pb).headers.length = 0 := by
          rcases Nat.eq_zero_or_pos (i - (r.br pb).headers.length) with h0 | h0
          · exact h0
          · rw [List.getElem?_eq_none (by simp; omega)] at hd; cases hd
        rw [this] at hd
        simp at hd
        exact ⟨by omega, by rw [← hd]⟩
    refine ⟨?_, ?_⟩
    · intro bi hbi i d hd
      rw [hb] at hbi
      by_cases he : bi = pb
      · subst he
        rw [hbr_new] at hd ⊢
        simp only [Branch.pushed]
        rw [HMap.get?_set]
        rcases hpushed i d hd with hold | ⟨hi', hdh⟩
        · have hne : d.hdr.id ≠ h.id := hfresh bi hbi i d hold
          simp only [hne, ↓reduceIte]
          exact hi.complete bi hbi i d hold
        · rw [hdh]
          simp only [↓reduceIte]
          unfold Branch.height
          rw [hi']; congr 1; omega
      · rw [hbr_old bi he] at hd ⊢; exact hi.complete bi hbi i d hd
    · intro bi hbi bj hbj i j d e hd he heq
      rw [hb] at hbi hbj
      -- reduce both to old holdings or the new header
      have key : ∀ x ∈ r.branches, ∀ (k : Nat) (y : HData), (r'.br x).headers[k]? = some y →
          ((r.br x).headers[k]? = some y) ∨ (x = pb ∧ k = (r.br pb).headers.length ∧ y.hdr = h) := by
        intro x hx k y hy
        by_cases hxe : x = pb
        · subst hxe
          rw [hbr_new] at hy
          rcases hpushed k y hy with h1 | ⟨h1, h2⟩
          · exact Or.inl h1
          · exact Or.inr ⟨rfl, h1, h2⟩
        · rw [hbr_old x hxe] at hy; exact Or.inl hy
      rcases key bi hbi i d hd with h1 | ⟨rfl, hi1, hd1⟩
      · rcases key bj hbj j e he with h2 | ⟨rfl, hj2, he2⟩
        · exact hi.uniq bi hbi bj hbj i j d e h1 h2 heq
        · exact absurd (by rw [heq, he2]) (hfresh bi hbi i d h1)
      · rcases key bj hbj j e he with h2 | ⟨rfl, hj2, he2⟩
        · exact absurd (by rw [← heq, hd1]) (hfresh bj hbj j e h2)
        · exact ⟨rfl, by omega⟩

/-! ### Trim -/

theorem trimFold_subset (r' : Repo) (bi : Nat) (h : Int) : ∀ (l : List Nat) (acc : List Nat × List Nat),
    ∀ x ∈ (l.foldl (trimStep r' bi h) acc).1, x ∈ acc.1 ∨ x ∈ l := by
  intro l
  induction l with
  | nil => intro acc x hx; exact Or.inl hx
  | cons a rest ih =>
    intro acc x hx
    simp only [List.foldl_cons] at hx
    rcases ih _ x hx with h1 | h1
    · unfold trimStep at h1
      simp only at h1
      split at h1
      · exact Or.inl h1
      · split at h1
        · exact Or.inl h1
        · simp only [List.mem_append, List.mem_singleton] at h1
          rcases h1 with h1 | rfl
          · exact Or.inl h1
          · exact Or.inr (List.mem_cons_self ..)
    · exact Or.inr (List.mem_cons_of_mem _ h1)

/-- what `Trim` does to the arena and the tracked list. -/
theorem trim_cases (r1 : Repo) (bi : Nat) (h : Int) (r2 : Repo) (ht : trim r1 bi h = .ok r2) :
    (∀ x ∈ r2.branches, x ∈ r1.branches) ∧
    ((r2.arena = r1.arena ∧ bi ∉ r2.branches) ∨
     ∃ off : Nat, 0 < off ∧ off < (r1.br bi).headers.length ∧
       (off : Int) = h - (r1.br bi).parentHeight - (r1.br bi).offset ∧
       r2.arena = r1.arena.set bi (trimmedBranch (r1.br bi) (off : Int) ((r1.br bi).headers.take off))) := by
  unfold trim at ht
  simp only at ht
  by_cases hA : h = (r1.br bi).parentHeight + 1
  · rw [if_pos hA] at ht
    simp only [Except.ok.injEq] at ht
    subst ht
    have hsub : ∀ x ∈ ((r1.branches.filter (· != bi)).foldl
        (trimStep { r1 with branches := r1.branches.filter (· != bi) } bi h) ([], [])).1, x ∈ r1.branches.filter (· != bi) := by
      intro x hx
      rcases trimFold_subset _ bi h _ ([], []) x hx with h1 | h1
      · cases h1
      · exact h1
    refine ⟨fun x hx => (List.mem_filter.mp (hsub x hx)).1, Or.inl ⟨rfl, ?_⟩⟩
    intro hm
    have := (List.mem_filter.mp (hsub bi hm)).2
    simp at this
  · rw [if_neg hA] at ht
    by_cases hB : h ≤ (r1.br bi).parentHeight
    · rw [if_pos hB] at ht; cases ht
    · rw [if_neg hB] at ht
      by_cases hC : h - (r1.br bi).parentHeight - (r1.br bi).offset ≥ ((r1.br bi).headers.length : Int)
      · rw [if_pos hC] at ht; cases ht
      · rw [if_neg hC] at ht
        by_cases hD : h - (r1.br bi).parentHeight - (r1.br bi).offset ≤ 0
        · rw [if_pos hD] at ht; cases ht
        · rw [if_neg hD] at ht
          obtain ⟨off, hoff⟩ : ∃ off : Nat, h - (r1.br bi).parentHeight - (r1.br bi).offset = (off : Int) :=
            ⟨(h - (r1.br bi).parentHeight - (r1.br bi).offset).toNat, by omega⟩
          rw [hoff] at ht hC hD
          unfold sliceTo at ht
          have hns : ¬ ((off : Int) < 0 ∨ (off : Int) > ((r1.br bi).headers.length : Int)) := by omega
          rw [if_neg hns] at ht
          simp only [Int.toNat_natCast, Except.ok.injEq] at ht
          subst ht
          refine ⟨?_, Or.inr ⟨off, by omega, by omega, hoff.symm, rfl⟩⟩
          intro x hx
          rcases trimFold_subset _ bi h _ ([], []) x hx with h1 | h1
          · cases h1
          · exact h1

/-- `Trim` keeps the identities. -/
theorem trim_idOK (r1 : Repo) (hf : ForestOK r1) (hi : IdOK r1) (bi : Nat) (hbim : bi ∈ r1.branches) (h : Int) (r2 : Repo)
    (ht : trim r1 bi h = .ok r2) : IdOK r2 := by
  obtain ⟨hsub, hcase⟩ := trim_cases r1 bi h r2 ht
  have hbilt := hf.valid bi hbim
  rcases hcase with ⟨ha, _⟩ | ⟨off, h0, h1, _, ha⟩
  · have hbr : ∀ x, r2.br x = r1.br x := by intro x; unfold Repo.br; rw [ha]
    refine ⟨?_, ?_⟩
    · intro x hx i d hd; rw [hbr] at hd ⊢; exact hi.complete x (hsub x hx) i d hd
    · intro x hx y hy i j d e hd he; rw [hbr] at hd he; exact hi.uniq x (hsub x hx) y (hsub y hy) i j d e hd he
  · have hbr_old : ∀ x, x ≠ bi → r2.br x = r1.br x := by
      intro x hx; unfold Repo.br; rw [ha, List.getElem?_set_ne (Ne.symm hx)]
    have hbr_new : r2.br bi = trimmedBranch (r1.br bi) (off : Int) ((r1.br bi).headers.take off) := by
      unfold Repo.br; rw [ha, List.getElem?_set_self hbilt]; rfl
    -- holdings of the trimmed branch are old holdings at the same index
    have hheld : ∀ x ∈ r2.branches, ∀ (k : Nat) (y : HData), (r2.br x).headers[k]? = some y →
        (r1.br x).headers[k]? = some y ∧ (x = bi → k < off) := by
      intro x hx k y hy
      by_cases hxe : x = bi
      · subst hxe
        rw [hbr_new] at hy
        simp only [trimmedBranch] at hy
        rw [List.getElem?_take] at hy
        split at hy
        · rename_i hk; exact ⟨hy, fun _ => hk⟩
        · cases hy
      · rw [hbr_old x hxe] at hy; exact ⟨hy, fun e => absurd e hxe⟩
    refine ⟨?_, ?_⟩
    · intro x hx i d hd
      obtain ⟨hold, hk⟩ := hheld x hx i d hd
      by_cases hxe : x = bi
      · subst hxe
        rw [hbr_new]
        simp only [trimmedBranch, Int.toNat_natCast]
        rw [get?_foldl_del]
        have hnot : ¬ ∃ e ∈ (r1.br x).headers.drop off, e.hdr.id = d.hdr.id := by
          rintro ⟨e, hem, heid⟩
          obtain ⟨j, hj⟩ := List.getElem?_of_mem hem
          rw [List.getElem?_drop] at hj
          have := hi.uniq x hbim x hbim (off + j) i e d hj hold heid
          have := hk rfl
          omega
        rw [if_neg hnot]
        exact hi.complete x hbim i d hold
      · rw [hbr_old x hxe]; exact hi.complete x (hsub x hx) i d hold
    · intro x hx y hy i j d e hd he heq
      obtain ⟨h1', _⟩ := hheld x hx i d hd
      obtain ⟨h2', _⟩ := hheld y hy j e he
      exact hi.uniq x (hsub x hx) y (hsub y hy) i j d e h1' h2' heq

/-- **after `Trim` at the place `Branches.Find` gave for a hash, no tracked branch holds that hash.** -/
theorem trim_excludes_id (r1 : Repo) (hf : ForestOK r1) (hi : IdOK r1) (id bi : Nat) (h : Int)
    (hfind : r1.branchesFind id = some (bi, h)) (r2 : Repo) (ht : trim r1 bi h = .ok r2) :
    ∀ x ∈ r2.branches, ∀ (k : Nat) (y : HData), (r2.br x).headers[k]? = some y → y.hdr.id ≠ id := by
  obtain ⟨hbim, d0, hd0, hid0⟩ := found_holder r1 hf id bi h hfind
  obtain ⟨hi0, hi1⟩ := getI_some_range _ _ _ hd0
  have hd0' : (r1.br bi).headers[(h - (r1.br bi).parentHeight - (r1.br bi).offset).toNat]? = some d0 := by
    unfold getI at hd0
    have : ¬ (h - (r1.br bi).parentHeight - (r1.br bi).offset < 0) := by omega
    simpa [this] using hd0
  obtain ⟨hsub, hcase⟩ := trim_cases r1 bi h r2 ht
  have hbilt := hf.valid bi hbim
  intro x hx k y hy heq
  rcases hcase with ⟨ha, hnot⟩ | ⟨off, h0, h1, hoff, ha⟩
  · have hbr : r2.br x = r1.br x := by unfold Repo.br; rw [ha]
    rw [hbr] at hy
    obtain ⟨hxe, _⟩ := hi.uniq x (hsub x hx) bi hbim k _ y d0 hy hd0' (by rw [heq, hid0])
    exact hnot (hxe ▸ hx)
  · by_cases hxe : x = bi
    · subst hxe
      have hbr : r2.br x = trimmedBranch (r1.br x) (off : Int) ((r1.br x).headers.take off) := by
        unfold Repo.br; rw [ha, List.getElem?_set_self hbilt]; rfl
      rw [hbr] at hy
      simp only [trimmedBranch] at hy
      rw [List.getElem?_take] at hy
      split at hy
      · rename_i hk
        obtain ⟨_, hke⟩ := hi.uniq x hbim x hbim k _ y d0 hy hd0' (by rw [heq, hid0])
        omega
      · cases hy
    · have hbr : r2.br x = r1.br x := by unfold Repo.br; rw [ha, List.getElem?_set_ne (Ne.symm hxe)]
      rw [hbr] at hy
      obtain ⟨hxe', _⟩ := hi.uniq x (hsub x hx) bi hbim k _ y d0 hy hd0' (by rw [heq, hid0])
      exact hxe hxe'

theorem idOK_of_frame' (r r' : Repo) (hi : IdOK r) (ha : r'.arena = r.arena) (hb : r'.branches = r.branches) : IdOK r' := by
  have hbr : ∀ x, r'.br x = r.br x := by intro x; unfold Repo.br; rw [ha]
  refine ⟨?_, ?_⟩
  · intro bi hbi i d hd; rw [hbr] at hd ⊢; exact hi.complete bi (hb ▸ hbi) i d hd
  · intro bi hbi bj hbj i j d e hd he; rw [hbr] at hd he; exact hi.uniq bi (hb ▸ hbi) bj (hb ▸ hbj) i j d e hd he

/-- marking keeps the identities, whatever the outcome. -/
theorem idOK_markInvalid (r : Repo) (hf : ForestOK r) (hi : IdOK r) (id : Nat) : IdOK (markInvalid r id).1 := by
  have hframe : ∀ r' : Repo, r'.arena = r.arena → r'.branches = r.branches → IdOK r' := by
    intro r' ha hb
    have hbr : ∀ x, r'.br x = r.br x := by intro x; unfold Repo.br; rw [ha]
    refine ⟨?_, ?_⟩
    · intro bi hbi i d hd; rw [hbr] at hd ⊢; exact hi.complete bi (hb ▸ hbi) i d hd
    · intro bi hbi bj hbj i j d e hd he; rw [hbr] at hd he; exact hi.uniq bi (hb ▸ hbi) bj (hb ▸ hbj) i j d e hd he
  unfold markInvalid
  have hf1 : ForestOK (markRecord r id) := forestOK_markRecord r hf id
  have hi1 : IdOK (markRecord r id) := hframe _ (markRecord_frame r id).1 (markRecord_frame r id).2.1
  simp only
  cases hfind : (markRecord r id).branchesFind id with
  | none => exact hi1
  | some x =>
    obtain ⟨bi, h⟩ := x
    simp only
    cases ht : trim (markRecord r id) bi h with
    | error e => exact hi1
    | ok r2 =>
      simp only
      obtain ⟨hbim, _⟩ := found_holder _ hf1 id bi h hfind
      have hi2 := trim_idOK _ hf1 hi1 bi hbim h r2 ht
      cases longestOf r2.arena r2.branches with
      | none => exact hi2
      | some lg =>
        have hbr : ∀ x, ({ r2 with longest := lg } : Repo).br x = r2.br x := fun x => rfl
        exact ⟨fun bi' hb' i d hd => hi2.complete bi' hb' i d hd, fun a ha b hb i j d e hd he => hi2.uniq a ha b hb i j d e hd he⟩

/-- **a successful mark: afterwards no tracked branch holds the header** — whether or not the hash was in the
    invalid list before (the configured hashes get there on Load without a look at the branches). -/
theorem markInvalid_excludes (r : Repo) (hf : ForestOK r) (hi : IdOK r) (id : Nat)
    (hs : (markInvalid r id).2 = none) :
    ∀ x ∈ (markInvalid r id).1.branches, ∀ (k : Nat) (y : HData), ((markInvalid r id).1.br x).headers[k]? = some y → y.hdr.id ≠ id := by
  have hf1 : ForestOK (markRecord r id) := forestOK_markRecord r hf id
  have hi1 : IdOK (markRecord r id) :=
    idOK_of_frame' r _ hi (markRecord_frame r id).1 (markRecord_frame r id).2.1
  unfold markInvalid at hs ⊢
  dsimp only at hs ⊢
  cases hfind : (markRecord r id).branchesFind id with
  | none =>
    -- not held by any tracked branch
    intro x hx k y hy heq
    have := held_found _ hf1 hi1 x hx k y hy
    rw [heq, hfind] at this
    exact this rfl
  | some xx =>
    obtain ⟨bi, h⟩ := xx
    rw [hfind] at hs
    dsimp only at hs ⊢
    cases ht : trim (markRecord r id) bi h with
    | error e => rw [ht] at hs; cases hs
    | ok r2 =>
      rw [ht] at hs
      dsimp only at hs ⊢
      have hex := trim_excludes_id _ hf1 hi1 id bi h hfind r2 ht
      cases hl : longestOf r2.arena r2.branches with
      | none => rw [hl] at hs; cases hs
      | some lg => exact hex

/-- whatever `AtHeight` serves along a tracked branch is a header some tracked branch holds itself. -/
theorem atHeight_mem_own (ar : Arena) (bs : List Nat) (hl : Linked ar bs) :
    ∀ bi ∈ bs, ∀ (fuel : Nat) (h : Int) (d : HData), atHeight ar fuel bi h = some d →
      ∃ x ∈ bs, ∃ xb, ar[x]? = some xb ∧ d ∈ xb.headers := by
  induction hl with
  | nil => intro bi hbi; cases hbi
  | root bs bi b _ _ hb hp _ ih =>
    intro x hx fuel h d hd
    simp only [List.mem_append, List.mem_singleton] at hx
    rcases hx with hx | rfl
    · obtain ⟨y, hy, yb, hyb, hm⟩ := ih x hx fuel h d hd
      exact ⟨y, by simp [hy], yb, hyb, hm⟩
    · cases fuel with
      | zero => simp [atHeight] at hd
      | succ g =>
        simp only [atHeight, hb, hp] at hd
        split at hd
        · unfold getI at hd
          split at hd
          · cases hd
          · exact ⟨x, by simp, b, hb, List.mem_of_getElem? hd⟩
        · cases hd
  | child bs bi b p pb d0 _ _ hb _ hp hpm _ _ _ ih =>
    intro x hx fuel h d hd
    simp only [List.mem_append, List.mem_singleton] at hx
    rcases hx with hx | rfl
    · obtain ⟨y, hy, yb, hyb, hm⟩ := ih x hx fuel h d hd
      exact ⟨y, by simp [hy], yb, hyb, hm⟩
    · cases fuel with
      | zero => simp [atHeight] at hd
      | succ g =>
        simp only [atHeight, hb, hp] at hd
        split at hd
        · unfold getI at hd
          split at hd
          · cases hd
          · exact ⟨x, by simp, b, hb, List.mem_of_getElem? hd⟩
        · obtain ⟨y, hy, yb, hyb, hm⟩ := ih p hpm g h d hd
          exact ⟨y, by simp [hy], yb, hyb, hm⟩

/-- **after a successful mark the chain of no tracked branch passes through the marked header** — in
    particular not the reported best chain. -/
theorem markInvalid_chain_excludes (r : Repo) (hf : ForestOK r) (hi : IdOK r) (id : Nat)
    (hs : (markInvalid r id).2 = none) :
    ∀ bi ∈ (markInvalid r id).1.branches, ∀ (h : Int) (d : HData), (markInvalid r id).1.at bi h = some d → d.hdr.id ≠ id := by
  have hf' := forestOK_markInvalid r hf id
  have hex := markInvalid_excludes r hf hi id hs
  intro bi hbi h d hd
  obtain ⟨x, hx, xb, hxb, hm⟩ := atHeight_mem_own _ _ hf'.linked bi hbi _ h d hd
  obtain ⟨k, hk⟩ := List.getElem?_of_mem hm
  have hbr : (markInvalid r id).1.br x = xb := br_of_getElem? _ x xb hxb
  exact hex x hx k d (by rw [hbr]; exact hk)

/-! ### Clean, Save, submissions with the automatic clean -/

theorem idOK_of_frame (r r' : Repo) (hi : IdOK r) (ha : r'.arena = r.arena) (hb : r'.branches = r.branches) : IdOK r' := by
  have hbr : ∀ x, r'.br x = r.br x := by intro x; unfold Repo.br; rw [ha]
  refine ⟨?_, ?_⟩
  · intro bi hbi i d hd; rw [hbr] at hd ⊢; exact hi.complete bi (hb ▸ hbi) i d hd
  · intro bi hbi bj hbj i j d e hd he; rw [hbr] at hd he; exact hi.uniq bi (hb ▸ hbi) bj (hb ▸ hbj) i j d e hd he

/-- Clean of a root-best forest keeps the identities (only the root loses headers, from the front). -/
theorem idOK_cleanWith (r : Repo) (hf : ForestOK r) (hi : IdOK r) (hrf : RootFirst r) (depth : Int) (hd : 0 ≤ depth) :
    IdOK (cleanWith r depth).1 := by
  obtain ⟨_, hb, _, _, hoth, c, b', hc, hlg, p1, p2, p4, p6⟩ := forestOK_cleanWith r hf hrf depth hd
  obtain ⟨others, hbl, _⟩ := hrf
  have hlgm : r.longest ∈ r.branches := by rw [hbl]; simp
  have hbr_old : ∀ x, x ≠ r.longest → (cleanWith r depth).1.br x = r.br x := by
    intro x hx; unfold Repo.br; rw [hoth x hx]
  have hbr_new : (cleanWith r depth).1.br r.longest = b' := br_of_getElem? _ _ _ hlg
  have hheld : ∀ x ∈ r.branches, ∀ (k : Nat) (y : HData), ((cleanWith r depth).1.br x).headers[k]? = some y →
      ∃ k', (r.br x).headers[k']? = some y ∧ (x = r.longest → k' = c + k) ∧ (x ≠ r.longest → k' = k) := by
    intro x hx k y hy
    by_cases hxe : x = r.longest
    · rw [hxe, hbr_new, p1, List.getElem?_drop] at hy
      exact ⟨c + k, by rw [hxe]; exact hy, fun _ => rfl, fun hne => absurd hxe hne⟩
    · rw [hbr_old x hxe] at hy
      exact ⟨k, hy, fun e => absurd e hxe, fun _ => rfl⟩
  refine ⟨?_, ?_⟩
  · intro x hx i d hdd
    rw [hb] at hx
    obtain ⟨k', hold, h1, h2⟩ := hheld x hx i d hdd
    by_cases hxe : x = r.longest
    · have hk := h1 hxe
      rw [hxe] at hold ⊢
      rw [hbr_new, p6, p2, p4, get?_foldl_del]
      have hnot : ¬ ∃ e ∈ (r.br r.longest).headers.take c, e.hdr.id = d.hdr.id := by
        rintro ⟨e, hem, heid⟩
        obtain ⟨j, hj⟩ := List.getElem?_of_mem hem
        rw [List.getElem?_take] at hj
        split at hj
        · rename_i hjc
          have := hi.uniq _ hlgm _ hlgm j k' e d hj hold heid
          omega
        · cases hj
      rw [if_neg hnot, hi.complete _ hlgm k' d hold, hk]
      congr 1; push_cast; omega
    · rw [hbr_old x hxe]
      have := h2 hxe
      rw [this] at hold
      exact hi.complete x hx i d hold
  · intro x hx y hy i j d e hdd hee heq
    rw [hb] at hx hy
    obtain ⟨i', h1', a1, a2⟩ := hheld x hx i d hdd
    obtain ⟨j', h2', b1, b2⟩ := hheld y hy j e hee
    obtain ⟨hxy, hij⟩ := hi.uniq x hx y hy i' j' d e h1' h2' heq
    refine ⟨hxy, ?_⟩
    by_cases hxe : x = r.longest
    · have := a1 hxe; have := b1 (hxy ▸ hxe); omega
    · have := a2 hxe; have := b2 (hxy ▸ hxe); omega

/-- one submission, automatic clean included, keeps the identities. -/
theorem idOK_processHeader_clean (r : Repo) (h : Hdr) (ok : Bool) (hf : ForestOK r) (hi : IdOK r)
    (hc : CleanRootFirst r h ok) : IdOK (processHeader r h ok).1 := by
  have hfm := forestOK_midState r h ok hf
  have him := idOK_of_shape r h ok hf hi _ (midState_shape r h ok)
  rcases processHeader_mid r h ok with he | he
  · rw [he]; exact him
  · by_cases hne : (processHeader r h ok).1 = midState r h ok
    · rw [hne]; exact him
    · rw [he]
      exact idOK_cleanWith _ hfm him (hc hne) _ (by decide)

/-! ### exact lookups -/

/-- `Branches.Find` of a held header answers with the branch that holds it and its true height. -/
theorem branchesFind_held (r : Repo) (hf : ForestOK r) (hi : IdOK r) (bi : Nat) (hbi : bi ∈ r.branches) (i : Nat) (d : HData)
    (hd : (r.br bi).headers[i]? = some d) :
    r.branchesFind d.hdr.id = some (bi, (r.br bi).parentHeight + (r.br bi).offset + (i : Int)) := by
  cases hfind : r.branchesFind d.hdr.id with
  | none => exact absurd hfind (held_found r hf hi bi hbi i d hd)
  | some x =>
    obtain ⟨bj, h⟩ := x
    obtain ⟨hbj, e, he, heid⟩ := found_holder r hf d.hdr.id bj h hfind
    obtain ⟨h0, h1⟩ := getI_some_range _ _ _ he
    have he' : (r.br bj).headers[(h - (r.br bj).parentHeight - (r.br bj).offset).toNat]? = some e := by
      unfold getI at he
      have : ¬ (h - (r.br bj).parentHeight - (r.br bj).offset < 0) := by omega
      simpa [this] using he
    obtain ⟨hbb, hii⟩ := hi.uniq bj hbj bi hbi _ i e d he' hd heid
    subst hbb
    congr 2
    omega

/-- `HashHeight` of a held header is its position. -/
theorem hashHeight_held (r : Repo) (hf : ForestOK r) (hi : IdOK r) (bi : Nat) (hbi : bi ∈ r.branches) (i : Nat) (d : HData)
    (hd : (r.br bi).headers[i]? = some d) :
    hashHeight r d.hdr.id = some ((r.br bi).parentHeight + (r.br bi).offset + (i : Int)) := by
  unfold hashHeight
  rw [branchesFind_held r hf hi bi hbi i d hd]

end BRV.Repo
