/- `Branches.Longest()`: the first branch with maximal last accumulated work. -/
import BRV.Proofs.RepoBasics

namespace BRV.Repo

def lastWork (ar : Arena) (bi : Nat) : Option Nat := (ar[bi]?.bind Branch.last?).map (·.work)

theorem longestGo_spec (ar : Arena) (bs : List Nat) (acc : Option (Nat × Nat)) (res : Nat × Nat)
    (hacc : ∀ a, acc = some a → lastWork ar a.1 = some a.2)
    (h : longestOf.go ar bs acc = some res) :
    lastWork ar res.1 = some res.2 ∧ (res.1 ∈ bs ∨ acc = some res) ∧
    (∀ a, acc = some a → a.2 ≤ res.2) ∧ (∀ b ∈ bs, ∃ w, lastWork ar b = some w ∧ w ≤ res.2) := by
  induction bs generalizing acc with
  | nil =>
    simp only [longestOf.go] at h
    subst h
    exact ⟨hacc res rfl, Or.inr rfl, (by intro a ha; cases ha; exact Nat.le_refl _), (by intro b hb; simp at hb)⟩
  | cons bi rest ih =>
    simp only [longestOf.go] at h
    cases hl : (ar[bi]?.bind Branch.last?) with
    | none => rw [hl] at h; cases h
    | some l =>
      rw [hl] at h
      simp only at h
      have hlw : lastWork ar bi = some l.work := by unfold lastWork; rw [hl]; rfl
      cases acc with
      | none =>
        simp only at h
        have := ih (some (bi, l.work)) (by intro a ha; cases ha; exact hlw) h
        obtain ⟨h1, h2, h3, h4⟩ := this
        refine ⟨h1, ?_, (by intro a ha; cases ha), ?_⟩
        · rcases h2 with h2 | h2
          · exact Or.inl (List.mem_cons_of_mem _ h2)
          · cases h2; exact Or.inl (List.mem_cons_self)
        · intro b hb
          simp only [List.mem_cons] at hb
          rcases hb with rfl | hb
          · exact ⟨l.work, hlw, h3 _ rfl⟩
          · exact h4 b hb
      | some a =>
        obtain ⟨rb, rw⟩ := a
        simp only at h
        by_cases hgt : l.work > rw
        · simp only [hgt, ↓reduceIte] at h
          have := ih (some (bi, l.work)) (by intro a ha; cases ha; exact hlw) h
          obtain ⟨h1, h2, h3, h4⟩ := this
          refine ⟨h1, ?_, ?_, ?_⟩
          · rcases h2 with h2 | h2
            · exact Or.inl (List.mem_cons_of_mem _ h2)
            · cases h2; exact Or.inl (List.mem_cons_self)
          · intro a ha; cases ha
            have := h3 _ rfl
            simp only at this ⊢
            omega
          · intro b hb
            simp only [List.mem_cons] at hb
            rcases hb with rfl | hb
            · exact ⟨l.work, hlw, h3 _ rfl⟩
            · exact h4 b hb
        · simp only [hgt, ↓reduceIte] at h
          have := ih (some (rb, rw)) hacc h
          obtain ⟨h1, h2, h3, h4⟩ := this
          refine ⟨h1, ?_, h3, ?_⟩
          · rcases h2 with h2 | h2
            · exact Or.inl (List.mem_cons_of_mem _ h2)
            · exact Or.inr h2
          · intro b hb
            simp only [List.mem_cons] at hb
            rcases hb with rfl | hb
            · refine ⟨l.work, hlw, ?_⟩
              have := h3 _ rfl
              simp only at this
              omega
            · exact h4 b hb

/-- `Longest()` returns a listed branch whose last accumulated work is maximal among the listed
    branches (each of which is non-empty). -/
theorem longestOf_spec (ar : Arena) (bs : List Nat) (lg : Nat) (h : longestOf ar bs = some lg) :
    lg ∈ bs ∧ ∃ wl, lastWork ar lg = some wl ∧ ∀ b ∈ bs, ∃ w, lastWork ar b = some w ∧ w ≤ wl := by
  unfold longestOf at h
  cases hg : longestOf.go ar bs none with
  | none => rw [hg] at h; cases h
  | some res =>
    rw [hg] at h
    simp only [Option.map_some, Option.some.injEq] at h
    subst h
    obtain ⟨h1, h2, _, h4⟩ := longestGo_spec ar bs none res (by intro a ha; cases ha) hg
    refine ⟨?_, res.2, h1, h4⟩
    rcases h2 with h2 | h2
    · exact h2
    · cases h2

end BRV.Repo
