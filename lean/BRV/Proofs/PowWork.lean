/-
The conversions of Model/Pow.lean are the ones of Model/Work.lean (used by the header repository
model), so theorems about either transfer.
-/
import BRV.Proofs.PowLemmas
import BRV.Model.Work

namespace BRV.Pow

set_option linter.unusedSimpArgs false

set_option maxRecDepth 8000 in
theorem convertToDifficulty_eq_work (bits : Nat) (hb : bits < 2 ^ 32) :
    convertToDifficulty bits = Work.convertToDifficulty bits := by
  rw [convertToDifficulty_closed]
  unfold decodeClosed Work.convertToDifficulty
  simp only []
  rw [Nat.mod_eq_of_lt hb]
  have he : bits / 2 ^ 24 % 256 = bits / 2 ^ 24 := by omega
  rw [he]
  by_cases hz : bits / 2 ^ 16 % 256 = 0
  · have hm : bits % 2 ^ 24 / 2 ^ 16 = 0 := by omega
    simp only [hz, hm, beq_self_eq_true, ↓reduceIte]
    have e1 : bits * 256 % 2 ^ 32 / 2 ^ 16 % 256 * 256 + bits * 256 % 2 ^ 32 / 2 ^ 8 % 256 = bits % 2 ^ 24 := by omega
    have e2 : bits * 256 % 2 ^ 32 / 2 ^ 16 % 256 * 65536 + bits * 256 % 2 ^ 32 / 2 ^ 8 % 256 * 256
        + bits * 256 % 2 ^ 32 % 256 = bits % 2 ^ 24 * 256 := by omega
    rw [e1, e2]
    by_cases h1 : (bits / 2 ^ 24 + 255) % 256 = 1
    · have : ¬ ((bits / 2 ^ 24 + 255) % 256 = 0) := by omega
      simp [h1]
    · by_cases h0 : (bits / 2 ^ 24 + 255) % 256 = 0 <;> simp [h0, h1]
  · have hm : ¬ (bits % 2 ^ 24 / 2 ^ 16 = 0) := by omega
    have hzb : (bits / 2 ^ 16 % 256 == 0) = false := by simpa using hz
    simp only [hzb, hm, Bool.false_eq_true, ↓reduceIte]
    have e1 : bits / 2 ^ 16 % 256 * 256 + bits / 2 ^ 8 % 256 = bits % 2 ^ 24 / 256 := by omega
    have e2 : bits / 2 ^ 16 % 256 * 65536 + bits / 2 ^ 8 % 256 * 256 + bits % 256 = bits % 2 ^ 24 := by omega
    rw [e1, e2]
    by_cases h1 : bits / 2 ^ 24 = 1
    · simp [h1]
    · by_cases h0 : bits / 2 ^ 24 = 0 <;> simp [h0, h1]

theorem convertToWork_eq_work : convertToWork = Work.convertToWork := rfl

theorem blockWork_eq_work (bits : Nat) (hb : bits < 2 ^ 32) : blockWork bits = Work.blockWork bits := by
  unfold blockWork Work.blockWork
  rw [convertToDifficulty_eq_work bits hb, convertToWork_eq_work]

/-- `Work.malformedBits` (the repository model's guard) is the complement of `bitsAreValid`. -/
theorem malformedBits_eq (bits : Nat) (hb : bits < 2 ^ 32) : Work.malformedBits bits = !bitsAreValid bits := by
  unfold Work.malformedBits bitsAreValid
  simp only []
  rw [Nat.mod_eq_of_lt hb]
  have he : bits / 2 ^ 24 % 256 = bits / 2 ^ 24 := by omega
  rw [he]
  by_cases hs : bits / 2 ^ 23 % 2 = 0
  · have hs1 : ¬ (bits / 2 ^ 23 % 2 = 1) := by omega
    by_cases hm : bits % 2 ^ 23 = 0
    · simp [hs, hm]
    · by_cases h0 : bits / 2 ^ 24 = 0
      · simp [hs, hm, h0]
      · by_cases h32 : bits / 2 ^ 24 > 32
        · simp [hs, hm, h0, h32]
        · have h32' : ¬ (32 < bits / 2 ^ 24) := by omega
          have hm' : ¬ (bits % 8388608 = 0) := hm
          have h0' : ¬ (bits / 16777216 = 0) := h0
          have b1 : (bits % 8388608 == 0) = false := by simpa using hm'
          have b2 : (bits / 16777216 == 0) = false := by simpa using h0'
          by_cases hz : bits / 2 ^ 16 % 256 = 0
          · by_cases hc : (bits / 16777216 + 255) % 256 = 1
            · simp [hs, hs1, h32', hz, hc]
            · have b3 : ((bits / 16777216 + 255) % 256 == 1) = false := by simpa using hc
              have b4 : ((bits / 16777216 + 255) % 256 != 1) = true := by simpa using hc
              simp [hs, hs1, h32', hz, b1, b2, b3, b4]
          · by_cases hc : bits / 16777216 = 1
            · simp [hs, hs1, h32', hz, hc]
            · have b3 : (bits / 16777216 == 1) = false := by simpa using hc
              have b4 : (bits / 16777216 != 1) = true := by simpa using hc
              simp [hs, hs1, h32', hz, b1, b2, b3, b4]
  · have hs1 : bits / 2 ^ 23 % 2 = 1 := by omega
    simp [hs1]

end BRV.Pow
