/-
The streaming transaction parser of the requested block (`sTx`, `blockLoop` in Model/Wire.lean) on
well-formed transactions: it consumes exactly the transaction and nothing else.
-/
import BRV.Proofs.NodeLists

namespace BRV.Wire
open BRV BRV.Node BRV.Spec

/-- sizes the theorems allow a transaction to ask for: at most `M`, and `M` is something the host
    grants and the runtime does not reject. -/
structure SizeOk (mem M : Nat) : Prop where
  mem : M ≤ mem
  cap : M ≤ 2 ^ 40

theorem sN_append (k : Nat) (a b : Bytes) (h : a.length = k) : sN k (a ++ b) = .ok a b := by
  unfold sN
  have : ¬ (a ++ b).length < k := by simp [h]
  simp only [this, ↓reduceIte, List.take_left' h, List.drop_left' h]

theorem sVarInt_enc (k : Nat) (x : Bytes) (hk : k < 2 ^ 64) : sVarInt (varIntEnc k ++ x) = .ok k x := by
  unfold sVarInt; rw [readVarInt_enc k x hk]

theorem sAlloc_ok (mem M n : Nat) (hs : SizeOk mem M) (hn : n ≤ M) : sAlloc mem n = .ok () [] := by
  unfold sAlloc maxAlloc
  have h1 : ¬ n > 281474976710656 := by have := hs.cap; omega
  have h2 : ¬ n > mem := by have := hs.mem; omega
  simp only [h1, h2, ↓reduceIte]

theorem sScript_ok (mem M : Nat) (hs : SizeOk mem M) (sc x : Bytes) (hsc : sc.length ≤ M) :
    sScript mem (varIntEnc sc.length ++ sc ++ x) = .ok () x := by
  unfold sScript
  have hk : sc.length < 2 ^ 64 := by have := hs.cap; omega
  rw [List.append_assoc, sVarInt_enc _ _ hk]
  simp only []
  have h1 : ¬ sc.length > maxMessagePayload := by unfold maxMessagePayload; have := hs.cap; omega
  simp only [h1, ↓reduceIte]
  by_cases h5 : sc.length > 512
  · simp only [h5, ↓reduceIte, sAlloc_ok mem M _ hs hsc]
    rw [sN_append _ sc x rfl]
  · simp only [h5, ↓reduceIte]
    rw [sN_append _ sc x rfl]

theorem scriptItems_le (pre post M n : Nat) (l : List Bytes) (h : scriptItems pre post M n l) :
    n ≤ l.flatten.length := by
  induction n generalizing l with
  | zero => omega
  | succ n ih =>
    simp only [scriptItems] at h
    obtain ⟨x, r, rfl, ⟨a, sc, z, _, _, _, rfl⟩, hr⟩ := h
    have := ih r hr
    have hv : 1 ≤ (varIntEnc sc.length).length := by
      unfold varIntEnc; split
      · simp
      · split
        · simp
        · split <;> simp
    simp only [List.flatten_cons, List.length_append]
    omega

theorem sTxIns_ok (mem M : Nat) (hs : SizeOk mem M) (n : Nat) (ins : List Bytes)
    (hi : scriptItems 36 4 M n ins) (x : Bytes) :
    ∀ fuel, n ≤ fuel → sTxIns mem fuel n (ins.flatten ++ x) = .ok () x := by
  induction n generalizing ins with
  | zero =>
    intro fuel _
    simp only [scriptItems] at hi
    subst hi
    cases fuel <;> rfl
  | succ n ih =>
    intro fuel hf
    cases fuel with
    | zero => omega
    | succ fuel =>
      simp only [scriptItems] at hi
      obtain ⟨it, r, rfl, ⟨a, sc, z, ha, hz, hsc, rfl⟩, hr⟩ := hi
      unfold sTxIns
      have e1 : ((a ++ varIntEnc sc.length ++ sc ++ z) :: r).flatten ++ x =
          a ++ (varIntEnc sc.length ++ sc ++ (z ++ (r.flatten ++ x))) := by
        simp only [List.flatten_cons, List.append_assoc]
      rw [e1, sN_append 36 a _ ha]
      simp only []
      rw [sScript_ok mem M hs sc _ hsc]
      simp only []
      rw [sN_append 4 z _ hz]
      simp only []
      exact ih r hr fuel (by omega)

theorem sTxOuts_ok (mem M : Nat) (hs : SizeOk mem M) (n : Nat) (outs : List Bytes)
    (hi : scriptItems 8 0 M n outs) (x : Bytes) :
    ∀ fuel, n ≤ fuel → sTxOuts mem fuel n (outs.flatten ++ x) = .ok () x := by
  induction n generalizing outs with
  | zero =>
    intro fuel _
    simp only [scriptItems] at hi
    subst hi
    cases fuel <;> rfl
  | succ n ih =>
    intro fuel hf
    cases fuel with
    | zero => omega
    | succ fuel =>
      simp only [scriptItems] at hi
      obtain ⟨it, r, rfl, ⟨a, sc, z, ha, hz, hsc, rfl⟩, hr⟩ := hi
      have hz' : z = [] := List.eq_nil_of_length_eq_zero hz
      subst hz'
      unfold sTxOuts
      have e1 : ((a ++ varIntEnc sc.length ++ sc ++ []) :: r).flatten ++ x =
          a ++ (varIntEnc sc.length ++ sc ++ (r.flatten ++ x)) := by
        simp only [List.flatten_cons, List.append_assoc, List.append_nil, List.nil_append]
      rw [e1, sN_append 8 a _ ha]
      simp only []
      rw [sScript_ok mem M hs sc _ hsc]
      simp only []
      exact ih r hr fuel (by omega)

/-- **the streaming decoder takes exactly a well-formed transaction.** -/
theorem sTx_ok (mem M : Nat) (hs : SizeOk mem M) (t x : Bytes) (ht : wfTx M t) : sTx mem (t ++ x) = .ok () x := by
  obtain ⟨ver, lock, ins, outs, nIn, nOut, hv, hl, hnI, hnO, hins, houts, rfl⟩ := ht
  have hcap := hs.cap
  unfold sTx
  have e1 : ver ++ varIntEnc nIn ++ ins.flatten ++ varIntEnc nOut ++ outs.flatten ++ lock ++ x =
      ver ++ (varIntEnc nIn ++ (ins.flatten ++ (varIntEnc nOut ++ (outs.flatten ++ (lock ++ x))))) := by
    simp only [List.append_assoc]
  rw [e1, sN_append 4 ver _ hv]
  simp only []
  rw [sVarInt_enc nIn _ (by omega)]
  simp only []
  have h1 : ¬ nIn > maxTxInPerMessage := by unfold maxTxInPerMessage maxMessagePayload; omega
  simp only [h1, ↓reduceIte]
  rw [sAlloc_ok mem M _ hs (by unfold txInSize; exact hnI)]
  simp only []
  rw [sTxIns_ok mem M hs nIn ins hins _ _ (by
    have := scriptItems_le _ _ _ _ _ hins
    simp only [List.length_append]; omega)]
  simp only []
  rw [sVarInt_enc nOut _ (by omega)]
  simp only []
  have h2 : ¬ nOut > maxTxOutPerMessage := by unfold maxTxOutPerMessage maxMessagePayload; omega
  simp only [h2, ↓reduceIte]
  rw [sAlloc_ok mem M _ hs (by unfold txOutSize; exact hnO)]
  simp only []
  rw [sTxOuts_ok mem M hs nOut outs houts _ _ (by
    have := scriptItems_le _ _ _ _ _ houts
    simp only [List.length_append]; omega)]
  simp only []
  rw [sN_append 4 lock x hl]

theorem wfTx_len (M : Nat) (t : Bytes) (ht : wfTx M t) : 1 ≤ t.length := by
  obtain ⟨ver, lock, ins, outs, nIn, nOut, hv, hl, _, _, _, _, rfl⟩ := ht
  simp only [List.length_append, hv]; omega

theorem wfTxs_le (M n : Nat) (l : List Bytes) (h : wfTxs M n l) : n ≤ l.flatten.length := by
  induction n generalizing l with
  | zero => omega
  | succ n ih =>
    simp only [wfTxs] at h
    obtain ⟨x, r, rfl, hx, hr⟩ := h
    have := ih r hr
    have := wfTx_len M x hx
    simp only [List.flatten_cons, List.length_append]
    omega

/-- the transaction loop over `k` well-formed transactions hands all `k` to the handler and stops
    right behind the last one. -/
theorem blockLoop_ok (mem M : Nat) (hs : SizeOk mem M) (k : Nat) (txs : List Bytes) (ht : wfTxs M k txs)
    (x : Bytes) : ∀ fuel got, k ≤ fuel → blockLoop mem fuel k (txs.flatten ++ x) got = (.ok () x, got + k) := by
  induction k generalizing txs with
  | zero =>
    intro fuel got _
    simp only [wfTxs] at ht
    subst ht
    cases fuel <;> rfl
  | succ k ih =>
    intro fuel got hf
    cases fuel with
    | zero => omega
    | succ fuel =>
      simp only [wfTxs] at ht
      obtain ⟨t, r, rfl, htx, hr⟩ := ht
      unfold blockLoop
      simp only [List.flatten_cons, List.append_assoc]
      rw [sTx_ok mem M hs t _ htx]
      simp only []
      rw [ih r hr fuel (got + 1) (by omega)]
      congr 1
      omega

end BRV.Wire
