/-
C06 helper lemmas, part 4: properties of histories. `SStep` is one atomic change of the store
(an entry transition, a channel send, an interrupt drop, a Run iteration, a clock tick); both the
sequential API functions and the interleaving semantics are chains of `SStep`s, so a property proved
for chains (`SSteps`) holds for every sequential history and for every schedule.
-/
import BRV.Proofs.TxMgrSeq
import BRV.Proofs.TxMgrSteps

namespace BRV.TxMgr

inductive SStep (env : Env) (st : Store) : Store → Prop
  | trans (tx : TxId) (st' : Store) : Trans env st tx st' → SStep env st st'
  | send (tx : TxId) (st' : Store) : sendSec st tx = some st' → SStep env st st'
  | drop (tx : TxId) : SStep env st (dropSec st tx)
  | run (st' : Store) : runSec env st = some st' → SStep env st st'
  | tick (c : Nat) : SStep env st { st with clock := c }

inductive SSteps (env : Env) : Store → Store → Prop
  | refl (st : Store) : SSteps env st st
  | tail (st st1 st2 : Store) : SSteps env st st1 → SStep env st1 st2 → SSteps env st st2

theorem SSteps.trans' {env : Env} {a b c : Store} (h1 : SSteps env a b) (h2 : SSteps env b c) : SSteps env a c := by
  induction h2 with
  | refl => exact h1
  | tail st1 st2 _ hs ih => exact .tail _ _ _ ih hs

theorem SSteps.one {env : Env} {a b : Store} (h : SStep env a b) : SSteps env a b := .tail _ _ _ (.refl a) h

theorem SSteps.ofTrans {env : Env} {a b : Store} {tx : TxId} (h : Trans env a tx b) : SSteps env a b :=
  .one (.trans tx b h)

/-! ### the API functions are chains -/

theorem setClock_steps (env : Env) (st : Store) (c : Nat) : SSteps env st { st with clock := c } :=
  .one (.tick c)

theorem addTxID_steps (env : Env) (st : Store) (node : NodeId) (tx : TxId) (now : Nat) :
    SSteps env st (addTxID env st node tx now).1 := by
  unfold addTxID
  have h0 := setClock_steps env st now
  have h1 := h0.trans' (.ofTrans (annBucketSec_trans env { st with clock := now } node tx))
  simp only
  split
  · exact h1
  · exact h1.trans' (.ofTrans (annEntrySec_trans env _ node tx))

theorem runAll_steps (env : Env) (n : Nat) (st : Store) : SSteps env st (runAll env n st) := by
  induction n generalizing st with
  | zero => exact .refl st
  | succ n ih =>
    simp only [runAll]
    split
    · exact .refl st
    · rename_i st' h
      exact (SSteps.one (.run st' h)).trans' (ih st')

theorem sendOrDrop_steps (env : Env) (st : Store) (tx : TxId) : SSteps env st (sendOrDrop st tx) := by
  unfold sendOrDrop
  split
  · rename_i st' h; exact .one (.send tx st' h)
  · exact .one (.drop tx)

theorem addTx_steps (env : Env) (st : Store) (node : NodeId) (tx : TxId) (now : Nat) :
    SSteps env st (addTx env st node tx now) := by
  unfold addTx
  have h0 := setClock_steps env st now
  have h1 := h0.trans' (.ofTrans (dlvBucketSec_trans env { st with clock := now } tx now))
  simp only
  split
  · split
    · exact (h1.trans' (sendOrDrop_steps env _ tx)).trans' (runAll_steps env _ _)
    · exact h1
  · have h2 := h1.trans' (.ofTrans (dlvEntrySec_trans env _ tx now))
    split
    · exact (h2.trans' (sendOrDrop_steps env _ tx)).trans' (runAll_steps env _ _)
    · exact h2

theorem pollKeys_steps (env : Env) (node : NodeId) (ks : List TxId) (st : Store) (acc : List TxId) : SSteps env st (pollKeys env node st ks acc).1 := by
  induction ks generalizing st acc with
  | nil => exact .refl st
  | cons k ks ih =>
    simp only [pollKeys]
    exact (SSteps.ofTrans (pollEntrySec_trans env st node k)).trans'
      (ih _ _)

theorem pollBuckets_steps (env : Env) (node : NodeId) (max : Int) (order : List Nat) (st : Store)
    (acc : List TxId) : SSteps env st (pollBuckets env node max st order acc).1 := by
  induction order generalizing st acc with
  | nil => exact .refl st
  | cons b bs ih =>
    simp only [pollBuckets]
    split
    · exact pollKeys_steps env node _ st acc
    · exact (pollKeys_steps env node _ st acc).trans' (ih _ _)

theorem getTxRequests_steps (env : Env) (st : Store) (node : NodeId) (max : Int) (now : Nat) (order : List Nat)
    : SSteps env st (getTxRequests env st node max now order).1 :=
  (setClock_steps env st now).trans' (pollBuckets_steps env node max order _ [])

theorem seqStep_steps (env : Env) (st : Store) (op : Op) (hop : op.isClean = false) :
    SSteps env st (seqStep env st op) := by
  cases op with
  | ann node tx now => exact addTxID_steps env st node tx now
  | dlv node tx now => exact addTx_steps env st node tx now
  | poll node max now order => exact getTxRequests_steps env st node max now order
  | clean o => simp [Op.isClean] at hop

theorem seqRun_steps (env : Env) (ops : List Op) (st : Store) (hops : noClean ops) :
    SSteps env st (seqRun env st ops) := by
  induction ops generalizing st with
  | nil => exact .refl st
  | cons op ops ih =>
    simp only [seqRun, List.foldl_cons]
    exact (seqStep_steps env st op (hops op (List.mem_cons_self ..))).trans'
      (ih _ (fun o ho => hops o (List.mem_cons_of_mem _ ho)))

/-! ### a step of the interleaving semantics is at most one store step -/

theorem stepThread_sstep {env : Env} {c c' : Config} {i choice : Nat} (_hi : InvC env c)
    (h : stepThread env c i choice = some c') : SStep env c.st c'.st := by
  unfold BRV.TxMgr.stepThread at h
  split at h
  · cases h
  · rename_i t ht
    have htm := mem_of_getElem? _ _ _ ht
    split at h
    · rename_i node tx
      split at h
      · cases h
      · simp only [Option.some.injEq] at h; subst h
        exact .trans tx _ (annBucketSec_trans env c.st node tx)
    · rename_i node tx
      simp only [Option.some.injEq] at h; subst h
      exact .trans tx _ (annEntrySec_trans env c.st node tx)
    · cases h
    · rename_i node tx now intr
      split at h
      · cases h
      · simp only [Option.some.injEq] at h; subst h
        exact .trans tx _ (dlvBucketSec_trans env c.st tx now)
    · rename_i node tx now intr
      simp only [Option.some.injEq] at h; subst h
      exact .trans tx _ (dlvEntrySec_trans env c.st tx now)
    · rename_i tx intr
      split at h
      · split at h
        · rename_i st' hs
          simp only [Option.some.injEq] at h; subst h
          exact .send tx st' hs
        · cases h
      · split at h
        · simp only [Option.some.injEq] at h; subst h
          exact .drop tx
        · cases h
    · cases h
    · rename_i node max order acc
      split at h <;>
      · simp only [Option.some.injEq] at h; subst h
        exact .trans 0 _ .same
    · rename_i node max b order todo acc
      split at h
      · simp only [Option.some.injEq] at h; subst h
        exact .trans 0 _ .same
      · split at h
        · cases h
        · rename_i k hk
          simp only [Option.some.injEq] at h; subst h
          exact .trans k _ (pollEntrySec_trans env c.st node k)
    · cases h

theorem step_sstep {env : Env} {c c' : Config} {a : Action} (hi : InvC env c)
    (h : step env c a = some c') : SStep env c.st c'.st := by
  cases a with
  | tick d =>
    simp only [BRV.TxMgr.step, Option.some.injEq] at h; subst h
    exact .tick _
  | callAnn node tx =>
    simp only [BRV.TxMgr.step, Option.some.injEq] at h; subst h; exact .trans 0 _ .same
  | callDlv node tx intr =>
    simp only [BRV.TxMgr.step, Option.some.injEq] at h; subst h; exact .trans 0 _ .same
  | callPoll node max order =>
    simp only [BRV.TxMgr.step, Option.some.injEq] at h; subst h; exact .trans 0 _ .same
  | thread i choice => exact stepThread_sstep hi h
  | run =>
    simp only [BRV.TxMgr.step] at h
    split at h
    · cases h
    · rename_i st' hr
      simp only [Option.some.injEq] at h; subst h
      exact .run st' hr

/-- `c'` is reachable from `c` by enabled steps. -/
inductive Steps (env : Env) : Config → Config → Prop
  | refl (c : Config) : Steps env c c
  | tail (c c1 c2 : Config) (a : Action) : Steps env c c1 → step env c1 a = some c2 → Steps env c c2

theorem Steps.invC {env : Env} {c c' : Config} (h : Steps env c c') (hi : InvC env c) : InvC env c' := by
  induction h with
  | refl => exact hi
  | tail c1 c2 a _ hs ih => exact ih.step hs

theorem Steps.ssteps {env : Env} {c c' : Config} (h : Steps env c c') (hi : InvC env c) :
    SSteps env c.st c'.st := by
  induction h with
  | refl => exact .refl _
  | tail c1 c2 a h1 hs ih => exact .tail _ _ _ ih (step_sstep (h1.invC hi) hs)

theorem Reach.steps {env : Env} {c : Config} (h : Reach env c) : Steps env {} c := by
  induction h with
  | init => exact .refl _
  | step c c' a _ hs ih => exact .tail _ _ _ a ih hs

theorem Steps.reach {env : Env} {c c' : Config} (h : Steps env c c') (hr : Reach env c) : Reach env c' := by
  induction h with
  | refl => exact hr
  | tail c1 c2 a _ hs ih => exact .step _ _ a ih hs

/-! ### history properties of store steps -/

def grantsOf (st : Store) (tx : TxId) : List Grant := st.grants.filter (fun g => g.tx == tx)

/-- number of times `tx` has been granted to `node`. -/
def grantCount (st : Store) (tx : TxId) (node : NodeId) : Nat :=
  (st.grants.filter (fun g => g.tx == tx && g.node == node)).length

theorem Trans.grants_cases {env : Env} {st st' : Store} {tx : TxId} (h : Trans env st tx st') :
    st'.grants = st.grants ∨
    ∃ node stamp, st'.grants = ⟨tx, node, st.clock, stamp⟩ :: st.grants ∧ recvdB st tx = false := by
  cases h with
  | same => exact Or.inl rfl
  | create node hn => exact Or.inr ⟨node, st.clock, rfl, by simp [recvdB, hn]⟩
  | regrant e node stamp he hr _ _ => exact Or.inr ⟨node, stamp, rfl, by simp [recvdB, he, hr]⟩
  | defer e node he hr _ => exact Or.inl rfl
  | createRecv now hn => exact Or.inl rfl
  | markRecv e now he hr => exact Or.inl rfl

/-- what a store step does to the grant history: nothing, or one new grant for a tx that is not received. -/
theorem SStep.grants_cases {env : Env} {st st' : Store} (h : SStep env st st') :
    st'.grants = st.grants ∨
    ∃ tx node stamp, st'.grants = ⟨tx, node, st.clock, stamp⟩ :: st.grants ∧ recvdB st tx = false := by
  cases h with
  | trans tx st' ht =>
    rcases ht.grants_cases with h | ⟨n, s, h1, h2⟩
    · exact Or.inl h
    · exact Or.inr ⟨tx, n, s, h1, h2⟩
  | send tx st' hs =>
    unfold sendSec at hs; split at hs
    · simp only [Option.some.injEq] at hs; subst hs; exact Or.inl rfl
    · cases hs
  | drop tx => exact Or.inl rfl
  | run st' hr => exact Or.inl (runSec_ent hr).2.1
  | tick c => exact Or.inl rfl

theorem SStep.recvd_mono {env : Env} {st st' : Store} (h : SStep env st st') (k : TxId)
    (hr : recvdB st k = true) : recvdB st' k = true := by
  cases h with
  | trans tx st' ht => exact ht.recvd_mono k hr
  | send tx st' hs => rw [recvdB_congr (sendSec_ent hs)]; exact hr
  | drop tx => exact hr
  | run st' h => rw [recvdB_congr (runSec_ent h).1]; exact hr
  | tick c => exact hr

/-- **no grant after delivery**, one step. -/
theorem SStep.keeps {env : Env} {st st' : Store} (h : SStep env st st') (k : TxId)
    (hr : recvdB st k = true) : recvdB st' k = true ∧ grantsOf st' k = grantsOf st k := by
  refine ⟨h.recvd_mono k hr, ?_⟩
  rcases h.grants_cases with hg | ⟨tx, n, s, hg, hnr⟩
  · unfold grantsOf; rw [hg]
  · unfold grantsOf; rw [hg]
    have hne : tx ≠ k := by intro hh; subst hh; rw [hr] at hnr; cases hnr
    simp [hne]

theorem SSteps.keeps {env : Env} {st st' : Store} (h : SSteps env st st') (k : TxId)
    (hr : recvdB st k = true) : recvdB st' k = true ∧ grantsOf st' k = grantsOf st k := by
  induction h with
  | refl => exact ⟨hr, rfl⟩
  | tail st1 st2 _ hs ih =>
    obtain ⟨h1, h2⟩ := hs.keeps k ih.1
    exact ⟨h1, h2.trans ih.2⟩

/-- `node` is recorded as an announcer of `tx` still to be asked. -/
def waitingP (st : Store) (node : NodeId) (tx : TxId) : Prop :=
  ∃ e, st.ent tx = some e ∧ node ∈ e.nodeIDs

theorem mem_appendID (ids : List NodeId) (n m : NodeId) (h : m ∈ ids) : m ∈ appendID ids n := by
  unfold appendID; split
  · exact h
  · exact List.mem_append_left _ h

theorem mem_appendID_self (ids : List NodeId) (n : NodeId) : n ∈ appendID ids n := by
  unfold appendID; split
  · assumption
  · simp

theorem Trans.waiting {env : Env} {st st' : Store} {tx : TxId} (h : Trans env st tx st') (n : NodeId) (k : TxId)
    (hw : waitingP st n k) :
    waitingP st' n k ∨ ∃ stamp, st'.grants = ⟨k, n, st.clock, stamp⟩ :: st.grants := by
  obtain ⟨e0, he0, hn0⟩ := hw
  by_cases hk : k = tx
  · subst hk
    cases h with
    | same => exact Or.inl ⟨e0, he0, hn0⟩
    | create node hn => rw [hn] at he0; cases he0
    | regrant e node stamp he hr _ _ =>
      rw [he] at he0; simp only [Option.some.injEq] at he0; subst he0
      by_cases hnn : n = node
      · subst hnn; exact Or.inr ⟨stamp, rfl⟩
      · refine Or.inl ⟨{ e with lastRequested := stamp, nodeIDs := removeID e.nodeIDs node }, by simp, ?_⟩
        simp only [removeID]
        exact (List.mem_erase_of_ne hnn).mpr hn0
    | defer e node he hr _ =>
      rw [he] at he0; simp only [Option.some.injEq] at he0; subst he0
      exact Or.inl ⟨{ e with nodeIDs := appendID e.nodeIDs node }, by simp, mem_appendID _ _ _ hn0⟩
    | createRecv now hn => rw [hn] at he0; cases he0
    | markRecv e now he hr =>
      rw [he] at he0; simp only [Option.some.injEq] at he0; subst he0
      exact Or.inl ⟨{ e with received := some now }, by simp, hn0⟩
  · refine Or.inl ⟨e0, ?_, hn0⟩
    cases h <;> simp [hk, he0]

theorem SStep.waiting {env : Env} {st st' : Store} (h : SStep env st st') (n : NodeId) (k : TxId)
    (hw : waitingP st n k) :
    waitingP st' n k ∨ ∃ stamp, st'.grants = ⟨k, n, st.clock, stamp⟩ :: st.grants := by
  cases h with
  | trans tx st' ht => exact ht.waiting n k hw
  | send tx st' hs =>
    obtain ⟨e, he, hn⟩ := hw
    exact Or.inl ⟨e, by rw [sendSec_ent hs]; exact he, hn⟩
  | drop tx => exact Or.inl hw
  | run st' hr =>
    obtain ⟨e, he, hn⟩ := hw
    exact Or.inl ⟨e, by rw [(runSec_ent hr).1]; exact he, hn⟩
  | tick c => exact Or.inl hw

theorem SStep.grantCount_mono {env : Env} {st st' : Store} (h : SStep env st st') (k : TxId) (n : NodeId) :
    grantCount st k n ≤ grantCount st' k n := by
  rcases h.grants_cases with hg | ⟨tx, n', s, hg, _⟩
  · unfold grantCount; rw [hg]; exact Nat.le_refl _
  · unfold grantCount; rw [hg, List.filter_cons]
    split
    · simp
    · exact Nat.le_refl _

theorem SSteps.grantCount_mono {env : Env} {st st' : Store} (h : SSteps env st st') (k : TxId) (n : NodeId) :
    grantCount st k n ≤ grantCount st' k n := by
  induction h with
  | refl => exact Nat.le_refl _
  | tail st1 st2 _ hs ih => exact Nat.le_trans ih (hs.grantCount_mono k n)

/-- **a recorded announcer stays recorded until it is granted the tx**, over any chain. -/
theorem SSteps.waiting {env : Env} {st st' : Store} (h : SSteps env st st') (n : NodeId) (k : TxId)
    (hw : waitingP st n k) : waitingP st' n k ∨ grantCount st k n < grantCount st' k n := by
  induction h with
  | refl => exact Or.inl hw
  | tail st1 st2 _ hs ih =>
    rcases ih with hw1 | hlt
    · rcases hs.waiting n k hw1 with hw2 | ⟨s, hg⟩
      · exact Or.inl hw2
      · refine Or.inr (Nat.lt_of_le_of_lt (SSteps.grantCount_mono ‹_› k n) ?_)
        unfold grantCount; rw [hg]; simp
    · exact Or.inr (Nat.lt_of_lt_of_le hlt (hs.grantCount_mono k n))

/-! ### SaveTx calls are exactly the relevant ProcessTx calls (needs no clock assumption) -/

def SavedOK (env : Env) (st : Store) : Prop := st.saved = st.processed.filter (relevantB env)

theorem SStep.savedOK {env : Env} {st st' : Store} (h : SStep env st st') (hs : SavedOK env st) : SavedOK env st' := by
  cases h with
  | trans tx st' ht => cases ht <;> exact hs
  | send tx st' h =>
    unfold sendSec at h; split at h
    · simp only [Option.some.injEq] at h; subst h; exact hs
    · cases h
  | drop tx => exact hs
  | tick c => exact hs
  | run st' h =>
    unfold runSec at h
    split at h
    · cases h
    · split at h
      · cases h
      · rename_i tx rest hch
        split at h <;>
        · rename_i hp
          simp only [Option.some.injEq] at h; subst h
          simp only [SavedOK, List.filter_append, List.filter_cons, List.filter_nil, relevantB, hp]
          simpa [SavedOK, relevantB] using hs

theorem SSteps.savedOK {env : Env} {st st' : Store} (h : SSteps env st st') (hs : SavedOK env st) : SavedOK env st' := by
  induction h with
  | refl => exact hs
  | tail st1 st2 _ hstep ih => exact hstep.savedOK ih

end BRV.TxMgr
