/- Pure list facts about a subscriber applying the new-header stream. -/
import BRV.Spec.Stream

namespace BRV.Spec
open BRV.Repo

/-- `evs` is a chain hanging off `p`: each header names its predecessor. -/
def Linked : Hdr → List Hdr → Prop
  | _, [] => True
  | p, e :: es => e.prev = p.id ∧ Linked e es

theorem findIdx?_at (pre : List Hdr) (p : Hdr) (rest : List Hdr) (id : Nat) (hp : p.id = id)
    (hpre : ∀ x ∈ pre, x.id ≠ id) :
    (pre ++ [p] ++ rest).findIdx? (fun x => x.id == id) = some pre.length := by
  induction pre with
  | nil => simp [List.findIdx?_cons, hp]
  | cons a as ih =>
    have ha : (a.id == id) = false := by simpa using hpre a (List.mem_cons_self ..)
    have := ih (fun x hx => hpre x (List.mem_cons_of_mem _ hx))
    simp only [List.cons_append, List.findIdx?_cons, ha, List.length_cons, this]
    rfl

theorem applyOne_at (pre : List Hdr) (p : Hdr) (rest : List Hdr) (e : Hdr) (he : e.prev = p.id)
    (hpre : ∀ x ∈ pre, x.id ≠ p.id) :
    applyOne (pre ++ [p] ++ rest) e = pre ++ [p] ++ [e] := by
  unfold applyOne
  rw [findIdx?_at pre p rest e.prev he.symm (by rw [he]; exact hpre)]
  simp only
  rw [List.take_left' (by simp)]

/-- **a reorganisation stream rebuilds the new chain**: the subscriber's chain contains the fork
    point `p` after the common part `pre`; the stream is a non-empty linked chain hanging off `p`;
    no two headers of the new chain share an id. Then applying the stream yields `pre ++ [p] ++ evs`,
    whatever was above `p` before. -/
theorem applyStream_reorg (pre : List Hdr) (p : Hdr) (rest evs : List Hdr) (hlink : Linked p evs)
    (hdist : ((pre ++ [p] ++ evs).map (·.id)).Nodup) (hne : evs ≠ []) :
    applyStream (pre ++ [p] ++ rest) evs = pre ++ [p] ++ evs := by
  induction evs generalizing pre p rest with
  | nil => exact absurd rfl hne
  | cons e es ih =>
    have hpre : ∀ x ∈ pre, x.id ≠ p.id := by
      intro x hx heq
      simp only [List.map_append, List.map_cons, List.map_nil, List.append_assoc] at hdist
      rw [List.nodup_append] at hdist
      exact hdist.2.2 x.id (List.mem_map.mpr ⟨x, hx, rfl⟩) p.id (by simp) heq
    unfold applyStream
    simp only [List.foldl_cons]
    rw [applyOne_at pre p rest e hlink.1 hpre]
    cases es with
    | nil => simp
    | cons e2 es' =>
      have := ih (pre ++ [p]) e [] hlink.2 (by simpa [List.append_assoc] using hdist) (by simp)
      unfold applyStream at this
      simp only [List.append_nil] at this
      rw [this]
      simp [List.append_assoc]

end BRV.Spec
