/-
C06 helper lemmas, part 5: exact characterisation of what GetTxRequests returns (sequential call).
-/
import BRV.Proofs.TxMgrSeq

namespace BRV.TxMgr

/-- `tx` may be requested from `node` now: announced by it and not asked since, not received, and the
    last request is at least the time-out old. -/
def eligibleP (env : Env) (st : Store) (node : NodeId) (tx : TxId) : Prop :=
  ∃ e, st.ent tx = some e ∧ e.received = none ∧ node ∈ e.nodeIDs ∧ e.lastRequested + env.timeout ≤ st.clock

/-- the entry section either changes nothing (txid not eligible) or grants. -/
theorem pollEntrySec_cases (env : Env) (st : Store) (node : NodeId) (k : TxId) :
    (¬ eligibleP env st node k ∧ pollEntrySec env st node k = (st, false)) ∨
    (∃ e, st.ent k = some e ∧ e.received = none ∧ node ∈ e.nodeIDs ∧ e.lastRequested + env.timeout ≤ st.clock ∧
      pollEntrySec env st node k =
        ((st.setEnt k { e with lastRequested := st.clock, nodeIDs := removeID e.nodeIDs node }).grant k node st.clock, true)) := by
  unfold pollEntrySec eligibleP
  split
  · rename_i hn
    left; refine ⟨?_, rfl⟩
    rintro ⟨e', he', _⟩; rw [hn] at he'; cases he'
  · rename_i e he
    split
    · rename_i hr
      left; refine ⟨?_, rfl⟩
      rintro ⟨e', he', hr', _⟩
      rw [he] at he'; simp only [Option.some.injEq] at he'; subst he'
      rw [hr'] at hr; cases hr
    · rename_i hr
      have hr' : e.received = none := by cases hx : e.received <;> simp_all
      split
      · rename_i hc
        left; refine ⟨?_, rfl⟩
        rintro ⟨e', he', _, hm, _⟩
        rw [he] at he'; simp only [Option.some.injEq] at he'; subst he'
        simp [hm] at hc
      · rename_i hc
        have hm : node ∈ e.nodeIDs := by simpa using hc
        split
        · rename_i hlt
          left; refine ⟨?_, rfl⟩
          rintro ⟨e', he', _, _, hge⟩
          rw [he] at he'; simp only [Option.some.injEq] at he'; subst he'
          omega
        · rename_i hge
          right
          exact ⟨e, he, hr', hm, by omega, rfl⟩

theorem pollEntrySec_granted_iff (env : Env) (st : Store) (node : NodeId) (k : TxId) :
    (pollEntrySec env st node k).2 = true ↔ eligibleP env st node k := by
  rcases pollEntrySec_cases env st node k with ⟨hne, heq⟩ | ⟨e, he, hr, hm, hge, heq⟩
  · rw [heq]; simp [hne]
  · rw [heq]; simp only [true_iff]; exact ⟨e, he, hr, hm, hge⟩

theorem pollEntrySec_other (env : Env) (st : Store) (node : NodeId) (k k' : TxId) (h : k' ≠ k) :
    (pollEntrySec env st node k).1.ent k' = st.ent k' := by
  unfold pollEntrySec
  split
  · rfl
  · split
    · rfl
    · split
      · rfl
      · split
        · rfl
        · simp [h]

theorem eligibleP_other (env : Env) (st : Store) (node : NodeId) (k k' : TxId) (h : k' ≠ k) :
    eligibleP env (pollEntrySec env st node k).1 node k' ↔ eligibleP env st node k' := by
  unfold eligibleP
  rw [pollEntrySec_other env st node k k' h, pollEntrySec_clock]

/-- after its entry section a txid is not eligible for this node any more (granted: the node id was
    removed; not granted: it was not eligible). Needs duplicate-free NodeIDs. -/
theorem not_eligible_after (env : Env) (st : Store) (node : NodeId) (k : TxId)
    (hids : ∀ e, st.ent k = some e → e.nodeIDs.Nodup) :
    ¬ eligibleP env (pollEntrySec env st node k).1 node k := by
  rcases pollEntrySec_cases env st node k with ⟨hne, heq⟩ | ⟨e, he, hr, hm, hge, heq⟩
  · rw [heq]; exact hne
  · rw [heq]
    rintro ⟨e', he', _, hm', _⟩
    simp only [grant_ent, setEnt_ent, if_true, Option.some.injEq] at he'
    subst he'
    simp only [removeID] at hm'
    exact ((List.Nodup.mem_erase_iff (hids e he)).mp hm').1 rfl

/-- a txid that is not eligible is left alone by its own entry section. -/
theorem not_eligible_same (env : Env) (st : Store) (node : NodeId) (k : TxId)
    (h : ¬ eligibleP env st node k) : (pollEntrySec env st node k).1 = st := by
  rcases pollEntrySec_cases env st node k with ⟨_, heq⟩ | ⟨e, he, hr, hm, hge, _⟩
  · rw [heq]
  · exact absurd ⟨e, he, hr, hm, hge⟩ h

theorem pollKeys_mem {env : Env} (node : NodeId) (ks : List TxId) {st : Store} (acc : List TxId)
    (hi : InvS env st) (tx : TxId) :
    tx ∈ (pollKeys env node st ks acc).2 ↔ tx ∈ acc ∨ (tx ∈ ks ∧ eligibleP env st node tx) := by
  induction ks generalizing st acc with
  | nil => simp [pollKeys]
  | cons k ks ih =>
    simp only [pollKeys]
    have hi' := (pollEntrySec_trans env st node k).inv hi
    rw [ih _ hi']
    by_cases hk : tx = k
    · subst hk
      have hne := not_eligible_after env st node tx (fun e he => hi.ids tx e he)
      have hiff := pollEntrySec_granted_iff env st node tx
      cases hg : (pollEntrySec env st node tx).2
      · have : ¬ eligibleP env st node tx := by rw [← hiff, hg]; simp
        simp [hne, this]
      · have : eligibleP env st node tx := by rw [← hiff, hg]
        simp [this]
    · rw [eligibleP_other env st node k tx hk]
      have hacc : tx ∈ (if (pollEntrySec env st node k).2 = true then acc ++ [k] else acc) ↔ tx ∈ acc := by
        split <;> simp [hk]
      rw [hacc]
      simp [hk]

theorem pollKeys_ent_other (env : Env) (node : NodeId) (ks : List TxId) (st : Store) (acc : List TxId)
    (tx : TxId) (h : tx ∉ ks) : (pollKeys env node st ks acc).1.ent tx = st.ent tx := by
  induction ks generalizing st acc with
  | nil => rfl
  | cons k ks ih =>
    simp only [pollKeys]
    simp only [List.mem_cons, not_or] at h
    rw [ih _ _ h.2, pollEntrySec_other env st node k tx h.1]

theorem mem_bucketKeys (st : Store) (b : Nat) (tx : TxId) : tx ∈ bucketKeys st b ↔ tx ∈ st.keys ∧ bucketOf tx = b := by
  simp [bucketKeys]

theorem pollBuckets_acc_subset (env : Env) (node : NodeId) (max : Int) (order : List Nat) (st : Store)
    (acc : List TxId) (hi : InvS env st) (tx : TxId) (h : tx ∈ acc) :
    tx ∈ (pollBuckets env node max st order acc).2 := by
  induction order generalizing st acc with
  | nil => exact h
  | cons b bs ih =>
    simp only [pollBuckets]
    have h1 : tx ∈ (pollKeys env node st (bucketKeys st b) acc).2 :=
      (pollKeys_mem node _ acc hi tx).mpr (Or.inl h)
    split
    · exact h1
    · exact ih _ _ (pollKeys_invS node _ acc hi) h1

/-- soundness: everything returned was eligible when the call started (or was already in `acc`). -/
theorem pollBuckets_sound (env : Env) (node : NodeId) (max : Int) (order : List Nat) (st : Store)
    (acc : List TxId) (hi : InvS env st) (tx : TxId)
    (h : tx ∈ (pollBuckets env node max st order acc).2) : tx ∈ acc ∨ eligibleP env st node tx := by
  induction order generalizing st acc with
  | nil => exact Or.inl h
  | cons b bs ih =>
    simp only [pollBuckets] at h
    have hk := pollKeys_mem node (bucketKeys st b) acc hi
    split at h
    · rcases (hk tx).mp h with h1 | ⟨_, h2⟩
      · exact Or.inl h1
      · exact Or.inr h2
    · have hi' := pollKeys_invS node (bucketKeys st b) acc hi
      rcases ih _ _ hi' h with h1 | h1
      · rcases (hk tx).mp h1 with h2 | ⟨_, h2⟩
        · exact Or.inl h2
        · exact Or.inr h2
      · -- eligible in the intermediate store ⇒ eligible at the start (its entry was not touched, or tx was visited)
        by_cases hin : tx ∈ bucketKeys st b
        · -- visited in this bucket: either granted (then eligible at the start) or not eligible afterwards
          by_cases hel : eligibleP env st node tx
          · exact Or.inr hel
          · exfalso
            -- not eligible at the start; its entry can only have been changed by its own section, which needs eligibility
            have hsame : ∀ (ks : List TxId) (s : Store) (a : List TxId), ¬ eligibleP env s node tx →
                ¬ eligibleP env (pollKeys env node s ks a).1 node tx := by
              intro ks
              induction ks with
              | nil => intro s a hs; exact hs
              | cons k ks ihk =>
                intro s a hs
                simp only [pollKeys]
                apply ihk
                by_cases hkt : tx = k
                · subst hkt
                  rw [not_eligible_same env s node tx hs]; exact hs
                · rw [eligibleP_other env s node k tx hkt]; exact hs
            exact hsame _ _ _ hel h1
        · right
          obtain ⟨e, he, hr, hm, hge⟩ := h1
          rw [pollKeys_ent_other env node _ st acc tx hin] at he
          rw [pollKeys_clock] at hge
          exact ⟨e, he, hr, hm, hge⟩

/-- completeness: if the call returns fewer than `max` txids it visited every bucket of `order`,
    so every eligible txid whose bucket is in `order` is returned. -/
theorem pollBuckets_complete (env : Env) (node : NodeId) (max : Int) (order : List Nat) (st : Store)
    (acc : List TxId) (hi : InvS env st) (tx : TxId)
    (hlen : ((pollBuckets env node max st order acc).2.length : Int) < max)
    (hel : eligibleP env st node tx) (hb : bucketOf tx ∈ order) :
    tx ∈ (pollBuckets env node max st order acc).2 := by
  induction order generalizing st acc with
  | nil => cases hb
  | cons b bs ih =>
    simp only [pollBuckets] at hlen ⊢
    have hk := pollKeys_mem node (bucketKeys st b) acc hi
    have hi' := pollKeys_invS node (bucketKeys st b) acc hi
    split
    · rename_i hmax
      rw [if_pos hmax] at hlen
      omega
    · rename_i hmax
      rw [if_neg hmax] at hlen
      by_cases hbb : bucketOf tx = b
      · obtain ⟨e, he, _⟩ := hel
        have hin : tx ∈ bucketKeys st b := (mem_bucketKeys st b tx).mpr ⟨hi.keys tx e he, hbb⟩
        have h1 : tx ∈ (pollKeys env node st (bucketKeys st b) acc).2 :=
          (hk tx).mpr (Or.inr ⟨hin, ⟨e, he, ‹_›⟩⟩)
        exact pollBuckets_acc_subset env node max bs _ _ hi' tx h1
      · have hb' : bucketOf tx ∈ bs := by
          simp only [List.mem_cons] at hb
          rcases hb with h | h
          · exact absurd h hbb
          · exact h
        have hnin : tx ∉ bucketKeys st b := fun h => hbb ((mem_bucketKeys st b tx).mp h).2
        have hel' : eligibleP env (pollKeys env node st (bucketKeys st b) acc).1 node tx := by
          obtain ⟨e, he, hr, hm, hge⟩ := hel
          refine ⟨e, ?_, hr, hm, ?_⟩
          · rw [pollKeys_ent_other env node _ st acc tx hnin]; exact he
          · rw [pollKeys_clock]; exact hge
        exact ih _ _ hi' hlen hel' hb'

end BRV.TxMgr
