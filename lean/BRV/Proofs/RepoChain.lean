/-
Chains through the branch forest: completeness of `AtHeight` below the tip, the position of every
header `AtHeight` returns, and what `IntersectHash` (via `chainLinks`) computes.
-/
import BRV.Proofs.RepoLookup

namespace BRV.Repo

theorem branch_height_eq (b : Branch) (hoff : b.offset = 1) : b.height = b.parentHeight + (b.headers.length : Int) := by
  unfold Branch.height; omega

/-- a successful lookup is at or below the tip of the branch. -/
theorem atH_some_le_height (ar : Arena) (hw : LinkWF ar) (bi : Nat) (m : Int) (d : HData)
    (h : atH ar bi m = some d) : ∃ b, ar[bi]? = some b ∧ m ≤ b.height := by
  cases hb : ar[bi]? with
  | none => unfold atH at h; simp [atHeight, hb] at h
  | some b =>
    refine ⟨b, rfl, ?_⟩
    have hl := hw.each bi b hb
    rw [branch_height_eq b hl.off]
    rw [atH_unfold ar hw.dec bi b hb] at h
    by_cases h1 : m > b.parentHeight
    · simp only [h1, ↓reduceIte] at h
      unfold getI at h
      split at h
      · cases h
      · have := (List.getElem?_eq_some_iff.mp h).1
        have := hl.off
        omega
    · have : b.headers.length ≠ 0 := by
        intro h0; exact hl.nonempty (List.length_eq_zero_iff.mp h0)
      omega

/-- every header `AtHeight` returns is held, at that height, by the branch or one of its ancestors. -/
theorem atH_heldAt (ar : Arena) (hw : LinkWF ar) (bi : Nat) (m : Int) (d : HData)
    (h : atH ar bi m = some d) : ∃ bj, bj ≤ bi ∧ HeldAt ar bj d.hdr.id m := by
  induction bi using Nat.strongRecOn with
  | _ bi ih =>
    cases hb : ar[bi]? with
    | none => unfold atH at h; simp [atHeight, hb] at h
    | some b =>
      have hl := hw.each bi b hb
      rw [atH_unfold ar hw.dec bi b hb] at h
      by_cases h1 : m > b.parentHeight
      · simp only [h1, ↓reduceIte] at h
        unfold getI at h
        split at h
        · cases h
        · rename_i hn
          have hoff := hl.off
          exact ⟨bi, Nat.le_refl _, b, (m - b.parentHeight - b.offset).toNat, d, hb, h, rfl, by omega⟩
      · simp only [h1, ↓reduceIte] at h
        cases hpar : b.parent with
        | none => rw [hpar] at h; cases h
        | some p =>
          rw [hpar] at h
          simp only at h
          have hlt := hw.dec bi b hb p hpar
          obtain ⟨bj, hle, hheld⟩ := ih p hlt h
          exact ⟨bj, by omega, hheld⟩

/-- the very record `AtHeight` returns sits in some branch at the position of that height. -/
theorem atH_data (ar : Arena) (hw : LinkWF ar) (bi : Nat) (m : Int) (d : HData)
    (h : atH ar bi m = some d) : ∃ (bj : Nat) (b : Branch) (k : Nat), ar[bj]? = some b ∧ b.headers[k]? = some d ∧
      m = b.parentHeight + 1 + (k : Int) := by
  induction bi using Nat.strongRecOn with
  | _ bi ih =>
    cases hb : ar[bi]? with
    | none => unfold atH at h; simp [atHeight, hb] at h
    | some b =>
      have hl := hw.each bi b hb
      rw [atH_unfold ar hw.dec bi b hb] at h
      by_cases h1 : m > b.parentHeight
      · simp only [h1, ↓reduceIte] at h
        unfold getI at h
        split at h
        · cases h
        · have hoff := hl.off
          exact ⟨bi, b, (m - b.parentHeight - b.offset).toNat, hb, h, by omega⟩
      · simp only [h1, ↓reduceIte] at h
        cases hpar : b.parent with
        | none => rw [hpar] at h; cases h
        | some p =>
          rw [hpar] at h
          simp only at h
          exact ih p (hw.dec bi b hb p hpar) h

/-- two lookups that return headers with the same id return the same record. -/
theorem atH_same_id (ar : Arena) (hw : LinkWF ar) (bs : List Nat) (hi : IdWF ar bs) (b1 b2 : Nat) (k1 k2 : Int)
    (x y : HData) (hx : atH ar b1 k1 = some x) (hy : atH ar b2 k2 = some y) (hid : x.hdr.id = y.hdr.id) :
    x = y ∧ k1 = k2 := by
  obtain ⟨j1, c1, n1, hc1, hn1, hk1⟩ := atH_data ar hw b1 k1 x hx
  obtain ⟨j2, c2, n2, hc2, hn2, hk2⟩ := atH_data ar hw b2 k2 y hy
  obtain ⟨rfl, rfl⟩ := hi.uniq j1 j2 c1 c2 n1 n2 x y hc1 hc2 hn1 hn2 hid
  rw [hc1] at hc2
  simp only [Option.some.injEq] at hc2
  subst hc2
  rw [hn1] at hn2
  simp only [Option.some.injEq] at hn2
  exact ⟨hn2, by rw [hk1, hk2]⟩

/-- the tip of a branch is what `AtHeight` returns at its height. -/
theorem atH_tip (ar : Arena) (hw : LinkWF ar) (bi : Nat) (b : Branch) (hb : ar[bi]? = some b) (l : HData)
    (hl : b.last? = some l) : atH ar bi b.height = some l := by
  have hbl := hw.each bi b hb
  rw [atH_unfold ar hw.dec bi b hb, branch_height_eq b hbl.off]
  have hne : b.headers.length ≠ 0 := by
    intro h0; exact hbl.nonempty (List.length_eq_zero_iff.mp h0)
  have : b.parentHeight + (b.headers.length : Int) > b.parentHeight := by omega
  simp only [this, ↓reduceIte]
  unfold getI
  have h2 : ¬ (b.parentHeight + (b.headers.length : Int) - b.parentHeight - b.offset < 0) := by
    have := hbl.off; omega
  simp only [h2, ↓reduceIte]
  have h3 : (b.parentHeight + (b.headers.length : Int) - b.parentHeight - b.offset).toNat = b.headers.length - 1 := by
    have := hbl.off; omega
  rw [h3]
  unfold Branch.last? at hl
  rw [List.getLast?_eq_getElem?] at hl
  exact hl

/-! ### root base and fork ownership -/

/-- root branches start at genesis (nothing pruned). -/
def RootBase (ar : Arena) : Prop :=
  ∀ (bi : Nat) (b : Branch), ar[bi]? = some b → b.parent = none → b.parentHeight = -1

/-- a fork hangs off a header its parent branch holds itself. -/
def OwnsWF (ar : Arena) : Prop :=
  ∀ (bi : Nat) (b : Branch) (p : Nat), ar[bi]? = some b → b.parent = some p →
    ∃ pbr, ar[p]? = some pbr ∧ pbr.parentHeight < b.parentHeight

theorem parentHeight_ge (ar : Arena) (hw : LinkWF ar) (hr : RootBase ar) (ho : OwnsWF ar) (bi : Nat) (b : Branch)
    (hb : ar[bi]? = some b) : -1 ≤ b.parentHeight := by
  induction bi using Nat.strongRecOn generalizing b with
  | _ bi ih =>
    cases hpar : b.parent with
    | none => rw [hr bi b hb hpar]; omega
    | some p =>
      obtain ⟨pbr, hp, hlt⟩ := ho bi b p hb hpar
      have := ih p (hw.dec bi b hb p hpar) pbr hp
      omega

/-- **every height from genesis to the tip of a branch is readable** (nothing pruned). -/
theorem atH_complete (ar : Arena) (hw : LinkWF ar) (hr : RootBase ar) (bi : Nat) (b : Branch)
    (hb : ar[bi]? = some b) (k : Int) (h0 : 0 ≤ k) (hk : k ≤ b.height) : ∃ d, atH ar bi k = some d := by
  induction bi using Nat.strongRecOn generalizing b with
  | _ bi ih =>
    have hl := hw.each bi b hb
    rw [atH_unfold ar hw.dec bi b hb]
    rw [branch_height_eq b hl.off] at hk
    by_cases h1 : k > b.parentHeight
    · simp only [h1, ↓reduceIte]
      unfold getI
      have hoff := hl.off
      have h2 : ¬ (k - b.parentHeight - b.offset < 0) := by omega
      simp only [h2, ↓reduceIte]
      have hlt : (k - b.parentHeight - b.offset).toNat < b.headers.length := by omega
      exact ⟨b.headers[(k - b.parentHeight - b.offset).toNat], List.getElem?_eq_getElem hlt⟩
    · simp only [h1, ↓reduceIte]
      cases hpar : b.parent with
      | none => have := hr bi b hb hpar; omega
      | some p =>
        simp only
        obtain ⟨d', hd', _⟩ := hl.parentLink p hpar
        obtain ⟨pbr, hp, hle⟩ := atH_some_le_height ar hw p _ d' hd'
        exact ih p (hw.dec bi b hb p hpar) pbr hp (by omega)

/-! ### `chainLinks` and `IntersectHash` -/

/-- every entry `(cur, h, hash)` of the ancestry list of `tip`: below `h` the chain of `tip` is the
    chain of `cur`, and `hash` is the header at `h`. -/
theorem chainLinks_spec (ar : Arena) (hw : LinkWF ar) (ho : OwnsWF ar) (tip : Nat) :
    ∀ (f start : Nat) (h0 : Int) (hash0 : Nat) (c : Branch), ar[start]? = some c → c.parentHeight ≤ h0 →
      (∀ k, k ≤ h0 → atH ar start k = atH ar tip k) →
      (∃ d, atH ar start h0 = some d ∧ d.hdr.id = hash0) →
      ∀ e ∈ chainLinks ar f start h0 hash0,
        (∀ k, k ≤ e.2.1 → atH ar e.1 k = atH ar tip k) ∧ (∃ d, atH ar e.1 e.2.1 = some d ∧ d.hdr.id = e.2.2) := by
  intro f
  induction f with
  | zero => intro start h0 hash0 c _ _ _ _ e he; simp [chainLinks] at he
  | succ f ih =>
    intro start h0 hash0 c hc hle hsame hat e he
    unfold chainLinks at he
    rw [hc] at he
    simp only [List.mem_cons] at he
    rcases he with rfl | he
    · exact ⟨hsame, hat⟩
    · cases hpar : c.parent with
      | none => rw [hpar] at he; simp at he
      | some p =>
        rw [hpar] at he
        simp only at he
        obtain ⟨pbr, hp, hlt⟩ := ho start c p hc hpar
        obtain ⟨d', hd', hid'⟩ := (hw.each start c hc).parentLink p hpar
        refine ih p c.parentHeight c.first.prev pbr hp (by omega) ?_ ⟨d', hd', hid'⟩ e he
        intro k hk
        rw [← hsame k (by omega), atH_unfold ar hw.dec start c hc]
        have : ¬ (k > c.parentHeight) := by omega
        simp only [this, ↓reduceIte, hpar]

/-- **`IntersectHash` returns a header common to both chains**: some branch `cur` carries both
    chains up to the height `m` of that header. -/
theorem intersect_common (ar : Arena) (hw : LinkWF ar) (ho : OwnsWF ar) (f b other ih : Nat) (bb ob : Branch)
    (hb : ar[b]? = some bb) (hob : ar[other]? = some ob)
    (h : intersectHash ar f b other = some ih) :
    ∃ (cur : Nat) (m : Int) (d : HData), atH ar cur m = some d ∧ d.hdr.id = ih ∧
      (∀ k, k ≤ m → atH ar cur k = atH ar b k) ∧ (∀ k, k ≤ m → atH ar cur k = atH ar other k) := by
  have hstart : ∀ (x : Nat) (xb : Branch), ar[x]? = some xb → ∀ hash0 : Nat,
      (∀ l, xb.last? = some l → hash0 = l.hdr.id) →
      ∀ e ∈ chainLinks ar f x xb.height hash0,
        (∀ k, k ≤ e.2.1 → atH ar e.1 k = atH ar x k) ∧ (∃ d, atH ar e.1 e.2.1 = some d ∧ d.hdr.id = e.2.2) := by
    intro x xb hx hash0 hh0
    have hl := hw.each x xb hx
    have hne : xb.headers.length ≠ 0 := by
      intro h0; exact hl.nonempty (List.length_eq_zero_iff.mp h0)
    cases hlast : xb.last? with
    | none =>
      unfold Branch.last? at hlast
      rw [List.getLast?_eq_none_iff] at hlast
      exact absurd hlast hl.nonempty
    | some l =>
      rw [hh0 l hlast]
      refine chainLinks_spec ar hw ho x f x xb.height l.hdr.id xb hx ?_ (fun k _ => rfl)
        ⟨l, atH_tip ar hw x xb hx l hlast, rfl⟩
      rw [branch_height_eq xb hl.off]; omega
  unfold intersectHash at h
  simp only [hb, hob] at h
  rw [List.findSome?_eq_some_iff] at h
  obtain ⟨l1, e, l2, hsplit, hfe, _⟩ := h
  obtain ⟨cur, hh, hash⟩ := e
  have hmemb : (cur, hh, hash) ∈ l1 ++ (cur, hh, hash) :: l2 := List.mem_append_right _ (List.mem_cons_self ..)
  rw [← hsplit] at hmemb
  have hx := fun hside => hstart b bb hb _ hside _ hmemb
  obtain ⟨hb1, db, hdb, hidb⟩ := hx (by intro l hl; rw [hl])
  simp only at hfe
  split at hfe
  · rename_i c2 oh ohash hfind
    simp only [Option.some.injEq] at hfe
    have hmemo := List.mem_of_find?_eq_some hfind
    have hc2 : c2 = cur := by
      have := List.find?_some hfind
      simpa using this
    subst hc2
    have hy := fun hside => hstart other ob hob _ hside _ hmemo
    obtain ⟨ho1, dob, hdo, hido⟩ := hy (by intro l hl; rw [hl])
    simp only at hb1 hdb hidb ho1 hdo hido
    by_cases hlt : oh < hh
    · simp only [hlt, ↓reduceIte] at hfe
      subst hfe
      exact ⟨c2, oh, dob, hdo, hido, fun k hk => hb1 k (by omega), fun k hk => ho1 k hk⟩
    · simp only [hlt, ↓reduceIte] at hfe
      subst hfe
      exact ⟨c2, hh, db, hdb, hidb, fun k hk => hb1 k hk, fun k hk => ho1 k (by omega)⟩
  · cases hfe

end BRV.Repo
