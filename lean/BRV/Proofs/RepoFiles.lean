/-
Exact contents of the main-chain files written by `saveMainBranch` (unpruned root branch).
-/
import BRV.Proofs.RepoClean

namespace BRV.Repo

/-- file `f` holds exactly the headers `f·H … f·H + H − 1` (fewer in the last file). -/
def FilesExact (main : List (Nat × List HData)) (hdrs : List HData) (nfiles : Nat) : Prop :=
  ∀ f < nfiles, List.lookup f main = some ((hdrs.drop (f * H)).take H)

theorem take_drop_append_stable {α : Type} (l x : List α) (f : Nat) (h : (f + 1) * H ≤ l.length) :
    ((l ++ x).drop (f * H)).take H = (l.drop (f * H)).take H := by
  have h1 : f * H ≤ l.length := by
    have : (f + 1) * H = f * H + H := by rw [Nat.add_mul]; omega
    omega
  rw [List.drop_append_of_le_length h1, List.take_append_of_le_length]
  rw [List.length_drop]
  have : (f + 1) * H = f * H + H := by rw [Nat.add_mul]; omega
  omega

theorem saveMainGo_exact : ∀ (hs : List HData) (r : Repo) (fn : Nat) (buf done : List HData),
    done.length = fn * H + buf.length → buf.length < H → buf = done.drop (fn * H) →
    FilesExact r.store.main done fn →
    ∃ fn1 : Nat, (saveMainBranch.go hs r (fn : Int) (done.length : Int) buf).2.1 = (fn1 : Int) ∧
      (done ++ hs).length = fn1 * H + (saveMainBranch.go hs r (fn : Int) (done.length : Int) buf).2.2.length ∧
      (saveMainBranch.go hs r (fn : Int) (done.length : Int) buf).2.2.length < H ∧
      (saveMainBranch.go hs r (fn : Int) (done.length : Int) buf).2.2 = (done ++ hs).drop (fn1 * H) ∧
      FilesExact (saveMainBranch.go hs r (fn : Int) (done.length : Int) buf).1.store.main (done ++ hs) fn1 := by
  intro hs
  induction hs with
  | nil =>
    intro r fn buf done hlen hbuf hdrop hfiles
    simp only [saveMainBranch.go, List.append_nil]
    exact ⟨fn, rfl, hlen, hbuf, hdrop, hfiles⟩
  | cons d rest ih =>
    intro r fn buf done hlen hbuf hdrop hfiles
    simp only [saveMainBranch.go]
    have hdone' : (done ++ [d]).length = done.length + 1 := by simp
    have hcast : ((done.length : Int) + 1) = ((done ++ [d]).length : Int) := by rw [hdone']; omega
    have hstable : FilesExact r.store.main (done ++ [d]) fn := by
      intro f hf
      rw [hfiles f hf, take_drop_append_stable done [d] f (by
        have : (f + 1) * H ≤ fn * H := Nat.mul_le_mul_right H (by omega)
        omega)]
    by_cases hfull : (done.length : Int) + 1 = ((fn : Int) + 1) * hpf
    · rw [if_pos hfull]
      have hfullN : done.length + 1 = (fn + 1) * H := by
        rw [hpf_eq] at hfull
        have : ((done.length + 1 : Nat) : Int) = (((fn + 1) * H : Nat) : Int) := by push_cast; omega
        exact_mod_cast this
      have hres := ih (r.emit (.mainWrite (fn : Int).toNat (buf ++ [d]))) (fn + 1) [] (done ++ [d])
        (by simp [hfullN]) H_pos
        (by rw [List.drop_eq_nil_of_le]; simp; omega)
        (by
          intro f hf
          have hfn : (fn : Int).toNat = fn := by omega
          simp only [Repo.emit, Store.apply, hfn, lookup_assocSet]
          by_cases hff : f = fn
          · subst hff
            simp only [↓reduceIte, Option.some.injEq]
            rw [hdrop, ← List.drop_append_of_le_length (by omega)]
            rw [List.take_of_length_le]
            rw [List.length_drop, hdone']
            have : (f + 1) * H = f * H + H := by rw [Nat.add_mul]; omega
            omega
          · simp only [hff, ↓reduceIte]
            exact hstable f (by omega))
      have hcast2 : ((fn : Int) + 1) = ((fn + 1 : Nat) : Int) := by push_cast; rfl
      rw [hcast, hcast2]
      simpa [List.append_assoc] using hres
    · rw [if_neg hfull]
      have hres := ih r fn (buf ++ [d]) (done ++ [d])
        (by simp; omega)
        (by
          simp
          have hnotfull : done.length + 1 ≠ (fn + 1) * H := by
            intro he
            apply hfull
            rw [hpf_eq]
            have : ((done.length + 1 : Nat) : Int) = (((fn + 1) * H : Nat) : Int) := by rw [he]
            push_cast at this; omega
          have : (fn + 1) * H = fn * H + H := by rw [Nat.add_mul]; omega
          omega)
        (by rw [hdrop, List.drop_append_of_le_length (by omega)])
        hstable
      rw [hcast]
      simpa [List.append_assoc] using hres

theorem saveMainGo_store_frame : ∀ (hs : List HData) (r : Repo) (file height : Int) (buf : List HData),
    (saveMainBranch.go hs r file height buf).1.store.branches = r.store.branches ∧
    (saveMainBranch.go hs r file height buf).1.store.index = r.store.index ∧
    (saveMainBranch.go hs r file height buf).1.store.invalid = r.store.invalid ∧
    (saveMainBranch.go hs r file height buf).1.disableDifficulty = r.disableDifficulty ∧
    (saveMainBranch.go hs r file height buf).1.disableSplit = r.disableSplit := by
  intro hs
  induction hs with
  | nil => intro r file height buf; exact ⟨rfl, rfl, rfl, rfl, rfl⟩
  | cons d rest ih =>
    intro r file height buf
    simp only [saveMainBranch.go]
    split
    · exact ih _ _ _ _
    · exact ih _ _ _ _

/-- **exact main-chain files after `saveMainBranch`** of an unpruned root branch with `L` headers:
    files `0 … L / H` exist and file `f` holds exactly the headers `f·H … min(f·H + H, L) − 1`. -/
theorem saveMain_exact (r r2 : Repo) (hph : (r.br r.longest).parentHeight = -1) (hoff : (r.br r.longest).offset = 1)
    (h : saveMainBranch r = .ok r2) :
    FilesExact r2.store.main (r.br r.longest).headers ((r.br r.longest).headers.length / H + 1) ∧
    r2.store.branches = r.store.branches ∧ r2.store.index = r.store.index ∧ r2.store.invalid = r.store.invalid ∧
    r2.disableDifficulty = r.disableDifficulty ∧ r2.disableSplit = r.disableSplit := by
  unfold saveMainBranch saveMainStart at h
  simp only at h
  have hpl : (r.br r.longest).prunedLowest = 0 := by unfold Branch.prunedLowest; omega
  have hno : ¬ ((r.br r.longest).offset ≠ 1 ∧
      (r.br r.longest).prunedLowest - Int.tdiv (r.br r.longest).prunedLowest hpf * hpf > 0) := by
    intro hh; exact hh.1 hoff
  simp only [hno, ↓reduceIte, Except.ok.injEq] at h
  subst h
  rw [hpl]
  have ht0 : Int.tdiv 0 hpf = ((0 : Nat) : Int) := by simp
  rw [ht0]
  obtain ⟨fn1, hf1, hlen1, hbuf1, hdrop1, hfiles1⟩ := saveMainGo_exact (r.br r.longest).headers r 0 [] []
    (by simp) H_pos (by simp) (by intro k hk; omega)
  obtain ⟨g1, g2, g3, g4, g5⟩ := saveMainGo_store_frame (r.br r.longest).headers r ((0 : Nat) : Int) 0 []
  simp only [List.length_nil, Int.natCast_zero, List.nil_append] at hf1 hlen1 hbuf1 hdrop1 hfiles1
  generalize hgo : saveMainBranch.go (r.br r.longest).headers r ((0 : Nat) : Int) 0 [] = res at hf1 hlen1 hbuf1 hdrop1 hfiles1 g1 g2 g3 g4 g5
  obtain ⟨r1, file1, buf⟩ := res
  simp only at hf1 hlen1 hbuf1 hdrop1 hfiles1 g1 g2 g3 g4 g5 ⊢
  subst hf1
  have hfn : ((fn1 : Int)).toNat = fn1 := by omega
  have hfn2 : ((fn1 : Int) + 1).toNat = fn1 + 1 := by omega
  refine ⟨?_, by simp only [Repo.emit, Store.apply]; exact g1, by simp only [Repo.emit, Store.apply]; exact g2,
    by simp only [Repo.emit, Store.apply]; exact g3, g4, g5⟩
  have hH : H = 1000 := rfl
  have hnf : (r.br r.longest).headers.length / H + 1 = fn1 + 1 := by
    rw [hlen1]; rw [hH] at hbuf1 ⊢; omega
  rw [hnf]
  intro f hf
  simp only [Repo.emit, Store.apply, hfn, hfn2]
  rw [lookup_filter_ne' _ _ _ (by omega), lookup_assocSet]
  by_cases hff : f = fn1
  · subst hff
    simp only [↓reduceIte, Option.some.injEq]
    rw [hdrop1, List.take_of_length_le]
    rw [← hdrop1]; omega
  · simp only [hff, ↓reduceIte]
    exact hfiles1 f (by omega)

end BRV.Repo
