/-
Inductive invariant of the block-downloader signalling model (Model/BlockDl.lean), proved per
transition: a proof for schedules of any length and any interleaving.
-/
import BRV.Model.BlockDl

namespace BRV.BlockDl

def b2n (b : Bool) : Nat := if b then 1 else 0

/-- 1 while the handler may still send on `Started` (it is called at most once). -/
def HPc.oweS : HPc → Nat
  | .idle => 1 | .sendStarted => 1 | _ => 0

/-- 1 while the handler may still send on `Complete`. -/
def HPc.oweC : HPc → Nat
  | .done _ => 0 | _ => 1

def RunPc.pend : RunPc → Pend
  | .cancelSend _ p => p | _ => {}

def cntS : List Pend → Nat
  | [] => 0
  | p :: ps => b2n p.s + cntS ps

def cntC : List Pend → Nat
  | [] => 0
  | p :: ps => b2n p.c + cntC ps

/-- sends on `Started` that some `Cancel`/`Stop` call (or `Run`'s own `Cancel`) still has to do. -/
def St.pendS (s : St) : Nat := cntS s.callers + b2n s.run.pend.s
def St.pendC (s : St) : Nat := cntC s.callers + b2n s.run.pend.c

def RunPc.early : RunPc → Bool
  | .idle => true | .phase1 => true | _ => false

/-- `Run` has not received from `Complete` yet. -/
def RunPc.noC : RunPc → Bool
  | .gotComplete _ => false | .returned _ => false | _ => true

def RunPc.past1 : RunPc → Bool
  | .gotStarted => true | .phase2 => true | _ => false

def RunPc.inCancel : RunPc → Bool
  | .cancelSend _ _ => true | .waitComplete _ _ => true | _ => false

structure Inv (s : St) : Prop where
  accS : s.sentS = s.recvS + s.qS.length
  accC : s.sentC = s.recvC + s.qC.length
  /-- whoever may still send on `Started` fits into the buffer: the handler (once), the first
      canceller (once); 2 = the two potential senders. -/
  potS : s.qS.length + s.hdl.oweS + s.pendS + b2n (!s.cancelled) ≤ 2
  potC : s.qC.length + s.hdl.oweC + s.pendC + b2n (!s.cancelled) ≤ 2
  early : s.run.early = true → s.recvS = 0 ∧ s.started = false
  noC : s.run.noC = true → s.recvC = 0 ∧ s.complete = false
  past1 : s.run.past1 = true → 1 ≤ s.recvS
  st : s.started = true → 1 ≤ s.recvS
  /-- before any cancellation only the handler has sent. -/
  pre : s.cancelled = false → s.pendS = 0 ∧ s.pendC = 0 ∧ s.sentS + s.hdl.oweS = 1 ∧ s.sentC + s.hdl.oweC = 1
  hs : s.hdl.oweS = 0 → 1 ≤ s.sentS
  hc : s.hdl.oweC = 0 → 1 ≤ s.sentC
  /-- a cancellation while `Run` has not left its first select always provides a `Started`. -/
  f : s.run.early = true → s.cancelled = true → 1 ≤ s.sentS + s.pendS
  cs : s.run.inCancel = true → s.cancelled = true
  /-- a cancellation with the handler never called provides a `Complete`, unless the canceller
      claimed the handler had started, or there is no canceller. -/
  g : s.cancelled = true → s.hdl = .idle → 1 ≤ s.sentC + s.pendC ∨ s.promised = true ∨ s.hasCanceller = false

theorem cntS_append (a b : List Pend) : cntS (a ++ b) = cntS a + cntS b := by
  induction a with
  | nil => simp [cntS]
  | cons p ps ih => simp [cntS, ih]; omega

theorem cntC_append (a b : List Pend) : cntC (a ++ b) = cntC a + cntC b := by
  induction a with
  | nil => simp [cntC]
  | cons p ps ih => simp [cntC, ih]; omega

theorem cntS_set (l : List Pend) (i : Nat) (p p' : Pend) (h : l[i]? = some p) :
    cntS (l.set i p') + b2n p.s = cntS l + b2n p'.s := by
  induction l generalizing i with
  | nil => simp at h
  | cons q qs ih =>
    cases i with
    | zero => simp at h; subst h; simp [cntS]; omega
    | succ i => simp at h; have := ih i h; simp [cntS]; omega

theorem cntC_set (l : List Pend) (i : Nat) (p p' : Pend) (h : l[i]? = some p) :
    cntC (l.set i p') + b2n p.c = cntC l + b2n p'.c := by
  induction l generalizing i with
  | nil => simp at h
  | cons q qs ih =>
    cases i with
    | zero => simp at h; subst h; simp [cntC]; omega
    | succ i => simp at h; have := ih i h; simp [cntC]; omega

theorem inv_init (hc : Bool) : Inv (init hc) := by
  constructor <;> simp [init, St.pendS, St.pendC, cntS, cntC, RunPc.pend, b2n, HPc.oweS, HPc.oweC,
    RunPc.early, RunPc.noC, RunPc.past1, RunPc.inCancel]

theorem cap_started : 2 ≤ Facts.startedCap := by decide
theorem cap_complete : 2 ≤ Facts.completeCap := by decide

end BRV.BlockDl
