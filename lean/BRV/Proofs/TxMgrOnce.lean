/-
C06 helper lemmas, part 8 (sequential histories): a node id is put on an entry's NodeIDs only by that
node's own denied announcement, and a grant takes it off; so a grant is never repeated for the same
announcement.
-/
import BRV.Proofs.TxMgrDeliver

namespace BRV.TxMgr

/-- the step records no new announcer. -/
def NotAdds (st st' : Store) : Prop := ∀ n k, waitingP st' n k → waitingP st n k

theorem NotAdds.rfl' (st : Store) : NotAdds st st := fun _ _ h => h

theorem NotAdds.trans' {a b c : Store} (h1 : NotAdds a b) (h2 : NotAdds b c) : NotAdds a c :=
  fun n k h => h1 n k (h2 n k h)

theorem notAdds_of_ent {st st' : Store} (h : st'.ent = st.ent) : NotAdds st st' := by
  intro n k ⟨e, he, hn⟩; exact ⟨e, by rw [← h]; exact he, hn⟩

theorem annBucketSec_notAdds (st : Store) (node : NodeId) (tx : TxId) : NotAdds st (annBucketSec st node tx).1 := by
  intro n k ⟨e, he, hn⟩
  unfold annBucketSec at he
  split at he
  · exact ⟨e, he, hn⟩
  · simp only [grant_ent, setEnt_ent] at he
    by_cases hk : k = tx
    · simp only [hk, if_true, Option.some.injEq] at he; subst he; simp at hn
    · simp only [hk, if_false] at he; exact ⟨e, he, hn⟩

theorem dlvBucketSec_notAdds (st : Store) (tx : TxId) (now : Nat) : NotAdds st (dlvBucketSec st tx now).1 := by
  intro n k ⟨e, he, hn⟩
  unfold dlvBucketSec at he
  split at he
  · exact ⟨e, he, hn⟩
  · simp only [setEnt_ent] at he
    by_cases hk : k = tx
    · simp only [hk, if_true, Option.some.injEq] at he; subst he; simp at hn
    · simp only [hk, if_false] at he; exact ⟨e, he, hn⟩

theorem dlvEntrySec_notAdds (st : Store) (tx : TxId) (now : Nat) : NotAdds st (dlvEntrySec st tx now).1 := by
  intro n k ⟨e, he, hn⟩
  unfold dlvEntrySec at he
  split at he
  · exact ⟨e, he, hn⟩
  · rename_i e0 he0
    split at he
    · exact ⟨e, he, hn⟩
    · simp only [setEnt_ent] at he
      by_cases hk : k = tx
      · simp only [hk, if_true, Option.some.injEq] at he; subst he
        exact ⟨e0, hk ▸ he0, hn⟩
      · simp only [hk, if_false] at he; exact ⟨e, he, hn⟩

theorem pollEntrySec_notAdds (env : Env) (st : Store) (node : NodeId) (k' : TxId) :
    NotAdds st (pollEntrySec env st node k').1 := by
  intro n k ⟨e, he, hn⟩
  rcases pollEntrySec_cases env st node k' with ⟨_, heq⟩ | ⟨e0, he0, _, _, _, heq⟩
  · rw [heq] at he; exact ⟨e, he, hn⟩
  · rw [heq] at he
    simp only [grant_ent, setEnt_ent] at he
    by_cases hk : k = k'
    · simp only [hk, if_true, Option.some.injEq] at he; subst he
      exact ⟨e0, hk ▸ he0, List.mem_of_mem_erase hn⟩
    · simp only [hk, if_false] at he; exact ⟨e, he, hn⟩

theorem mem_appendID_cases (ids : List NodeId) (n m : NodeId) (h : m ∈ appendID ids n) : m ∈ ids ∨ m = n := by
  unfold appendID at h
  split at h
  · exact Or.inl h
  · simp only [List.mem_append, List.mem_singleton] at h; exact h

/-- AddTxID's entry section records at most the announcing node itself. -/
theorem annEntrySec_adds_only (env : Env) (st : Store) (node : NodeId) (tx : TxId) (n : NodeId) (k : TxId)
    (h : waitingP (annEntrySec env st node tx).1 n k) : waitingP st n k ∨ (n = node ∧ k = tx) := by
  obtain ⟨e, he, hn⟩ := h
  unfold annEntrySec at he
  split at he
  · exact Or.inl ⟨e, he, hn⟩
  · rename_i e0 he0
    split at he
    · exact Or.inl ⟨e, he, hn⟩
    · split at he
      · simp only [setEnt_ent] at he
        by_cases hk : k = tx
        · simp only [hk, if_true, Option.some.injEq] at he; subst he
          rcases mem_appendID_cases _ _ _ hn with h1 | h1
          · exact Or.inl ⟨e0, hk ▸ he0, h1⟩
          · exact Or.inr ⟨h1, hk⟩
        · simp only [hk, if_false] at he; exact Or.inl ⟨e, he, hn⟩
      · simp only [grant_ent, setEnt_ent] at he
        by_cases hk : k = tx
        · simp only [hk, if_true, Option.some.injEq] at he; subst he
          exact Or.inl ⟨e0, hk ▸ he0, List.mem_of_mem_erase hn⟩
        · simp only [hk, if_false] at he; exact Or.inl ⟨e, he, hn⟩

theorem addTxID_adds_only (env : Env) (st : Store) (node : NodeId) (tx : TxId) (now : Nat) (n : NodeId) (k : TxId)
    (h : waitingP (addTxID env st node tx now).1 n k) : waitingP st n k ∨ (n = node ∧ k = tx) := by
  unfold addTxID at h
  simp only at h
  split at h
  · obtain ⟨e, he, hn⟩ := annBucketSec_notAdds _ node tx n k h
    exact Or.inl ⟨e, he, hn⟩
  · rcases annEntrySec_adds_only env _ node tx n k h with h1 | h1
    · obtain ⟨e, he, hn⟩ := annBucketSec_notAdds _ node tx n k h1
      exact Or.inl ⟨e, he, hn⟩
    · exact Or.inr h1

theorem addTx_notAdds (env : Env) (st : Store) (node : NodeId) (tx : TxId) (now : Nat) :
    NotAdds st (addTx env st node tx now) := by
  unfold addTx
  have h1 : NotAdds st (dlvBucketSec { st with clock := now } tx now).1 :=
    (notAdds_of_ent (st := st) (st' := { st with clock := now }) rfl).trans' (dlvBucketSec_notAdds _ tx now)
  simp only
  split
  · split
    · exact (h1.trans' (notAdds_of_ent (sendOrDrop_frame _ tx).1)).trans' (notAdds_of_ent (runAll_frame _ _).1)
    · exact h1
  · have h2 := h1.trans' (dlvEntrySec_notAdds _ tx now)
    split
    · exact (h2.trans' (notAdds_of_ent (sendOrDrop_frame _ tx).1)).trans' (notAdds_of_ent (runAll_frame _ _).1)
    · exact h2

theorem pollKeys_notAdds (env : Env) (node : NodeId) (ks : List TxId) (st : Store) (acc : List TxId) :
    NotAdds st (pollKeys env node st ks acc).1 := by
  induction ks generalizing st acc with
  | nil => exact NotAdds.rfl' st
  | cons k ks ih =>
    simp only [pollKeys]
    exact (pollEntrySec_notAdds env st node k).trans' (ih _ _)

theorem pollBuckets_notAdds (env : Env) (node : NodeId) (max : Int) (order : List Nat) (st : Store)
    (acc : List TxId) : NotAdds st (pollBuckets env node max st order acc).1 := by
  induction order generalizing st acc with
  | nil => exact NotAdds.rfl' st
  | cons b bs ih =>
    simp only [pollBuckets]
    split
    · exact pollKeys_notAdds env node _ st acc
    · exact (pollKeys_notAdds env node _ st acc).trans' (ih _ _)

theorem getTxRequests_notAdds (env : Env) (st : Store) (node : NodeId) (max : Int) (now : Nat) (order : List Nat) :
    NotAdds st (getTxRequests env st node max now order).1 :=
  (notAdds_of_ent (st := st) (st' := { st with clock := now }) rfl).trans'
    (pollBuckets_notAdds env node max order _ [])

/-- the op is an announcement of `tx` by `n`. -/
def Op.isAnnOf (n : NodeId) (tx : TxId) : Op → Prop
  | .ann node t _ => node = n ∧ t = tx
  | _ => False

theorem seqStep_not_waiting (env : Env) (st : Store) (op : Op) (hop : op.isClean = false) (n : NodeId) (tx : TxId)
    (hann : ¬ op.isAnnOf n tx) (h : ¬ waitingP st n tx) : ¬ waitingP (seqStep env st op) n tx := by
  intro hw
  cases op with
  | ann node t now =>
    rcases addTxID_adds_only env st node t now n tx hw with h1 | h1
    · exact h h1
    · exact hann ⟨h1.1.symm, h1.2.symm⟩
  | dlv node t now => exact h (addTx_notAdds env st node t now n tx hw)
  | poll node max now order => exact h (getTxRequests_notAdds env st node max now order n tx hw)
  | clean o => simp [Op.isClean] at hop

theorem seqRun_not_waiting (env : Env) (ops : List Op) (st : Store) (hops : noClean ops) (n : NodeId) (tx : TxId)
    (hann : ∀ op ∈ ops, ¬ op.isAnnOf n tx) (h : ¬ waitingP st n tx) : ¬ waitingP (seqRun env st ops) n tx := by
  induction ops generalizing st with
  | nil => exact h
  | cons op ops ih =>
    simp only [seqRun, List.foldl_cons]
    exact ih _ (fun o ho => hops o (List.mem_cons_of_mem _ ho)) (fun o ho => hann o (List.mem_cons_of_mem _ ho))
      (seqStep_not_waiting env st op (hops op (List.mem_cons_self ..)) n tx (hann op (List.mem_cons_self ..)) h)

/-! ### a grant takes the node off the list -/

theorem annBucketSec_true_not_waiting (st : Store) (node : NodeId) (tx : TxId) (n : NodeId)
    (h : (annBucketSec st node tx).2 = true) : ¬ waitingP (annBucketSec st node tx).1 n tx := by
  unfold annBucketSec at h ⊢
  split
  · rename_i e he; simp [he] at h
  · rintro ⟨e, he, hn⟩
    simp only [grant_ent, setEnt_ent, if_true, Option.some.injEq] at he
    subst he; simp at hn

theorem annBucketSec_false (st : Store) (node : NodeId) (tx : TxId) (h : (annBucketSec st node tx).2 = false) :
    (annBucketSec st node tx).1 = st := by
  unfold annBucketSec at h ⊢
  split
  · rfl
  · rename_i hn; simp [hn] at h

theorem annEntrySec_true_not_waiting (env : Env) (st : Store) (node : NodeId) (tx : TxId)
    (hids : ∀ e, st.ent tx = some e → e.nodeIDs.Nodup) (h : (annEntrySec env st node tx).2 = true) :
    ¬ waitingP (annEntrySec env st node tx).1 node tx := by
  unfold annEntrySec at h ⊢
  split
  · rename_i hn; simp [hn] at h
  · rename_i e he
    split
    · rename_i hr; simp [he, hr] at h
    · split
      · rename_i hr hlt; simp [he, hr, hlt] at h
      · rintro ⟨e', he', hn⟩
        simp only [grant_ent, setEnt_ent, if_true, Option.some.injEq] at he'
        subst he'
        simp only [removeID] at hn
        exact ((List.Nodup.mem_erase_iff (hids e he)).mp hn).1 rfl

theorem addTxID_true_not_waiting {env : Env} {st : Store} (node : NodeId) (tx : TxId) (now : Nat)
    (hi : InvS env st) (h : (addTxID env st node tx now).2 = true) :
    ¬ waitingP (addTxID env st node tx now).1 node tx := by
  unfold addTxID at h ⊢
  simp only at h ⊢
  cases hcr : (annBucketSec { st with clock := now } node tx).2
  · rw [hcr] at h
    simp only [Bool.false_eq_true, if_false] at h ⊢
    rw [annBucketSec_false _ _ _ hcr] at h ⊢
    exact annEntrySec_true_not_waiting env _ node tx (fun e he => hi.ids tx e he) h
  · simp only [if_true]
    exact annBucketSec_true_not_waiting _ node tx node hcr

theorem pollEntrySec_granted_not_waiting {env : Env} {st : Store} (node : NodeId) (k : TxId)
    (hi : InvS env st) (h : (pollEntrySec env st node k).2 = true) :
    ¬ waitingP (pollEntrySec env st node k).1 node k := by
  rcases pollEntrySec_cases env st node k with ⟨_, heq⟩ | ⟨e, he, _, _, _, heq⟩
  · rw [heq] at h; simp at h
  · rw [heq]
    rintro ⟨e', he', hn⟩
    simp only [grant_ent, setEnt_ent, if_true, Option.some.injEq] at he'
    subst he'
    simp only [removeID] at hn
    exact ((List.Nodup.mem_erase_iff (hi.ids k e he)).mp hn).1 rfl

theorem pollKeys_granted_not_waiting {env : Env} (node : NodeId) (ks : List TxId) {st : Store}
    (acc : List TxId) (hi : InvS env st) (tx : TxId)
    (h : tx ∈ (pollKeys env node st ks acc).2) :
    tx ∈ acc ∨ ¬ waitingP (pollKeys env node st ks acc).1 node tx := by
  induction ks generalizing st acc with
  | nil => exact Or.inl h
  | cons k ks ih =>
    simp only [pollKeys] at h ⊢
    have hi' := (pollEntrySec_trans env st node k).inv hi
    rcases ih _ hi' h with h1 | h1
    · cases hg : (pollEntrySec env st node k).2
      · rw [hg] at h1; exact Or.inl (by simpa using h1)
      · rw [hg] at h1
        simp only [if_true, List.mem_append, List.mem_singleton] at h1
        rcases h1 with h2 | h2
        · exact Or.inl h2
        · subst h2
          right
          intro hw
          exact pollEntrySec_granted_not_waiting node tx hi hg (pollKeys_notAdds env node ks _ _ node tx hw)
    · exact Or.inr h1

theorem pollBuckets_granted_not_waiting {env : Env} (node : NodeId) (max : Int) (order : List Nat)
    {st : Store} (acc : List TxId) (hi : InvS env st) (tx : TxId)
    (h : tx ∈ (pollBuckets env node max st order acc).2) :
    tx ∈ acc ∨ ¬ waitingP (pollBuckets env node max st order acc).1 node tx := by
  induction order generalizing st acc with
  | nil => exact Or.inl h
  | cons b bs ih =>
    simp only [pollBuckets] at h ⊢
    split
    · rename_i hmax
      rw [if_pos hmax] at h
      exact pollKeys_granted_not_waiting node _ acc hi tx h
    · rename_i hmax
      rw [if_neg hmax] at h
      have hi' := pollKeys_invS node (bucketKeys st b) acc hi
      rcases ih _ hi' h with h1 | h1
      · rcases pollKeys_granted_not_waiting node _ acc hi tx h1 with h2 | h2
        · exact Or.inl h2
        · right
          intro hw
          exact h2 (pollBuckets_notAdds env node max bs _ _ node tx hw)
      · exact Or.inr h1

/-! ### results of AddTxID versus the grant history -/

theorem addTxID_eq (env : Env) (st : Store) (node : NodeId) (tx : TxId) (now : Nat) :
    addTxID env st node tx now =
      if (annBucketSec { st with clock := now } node tx).2 = true
      then ((annBucketSec { st with clock := now } node tx).1, true)
      else annEntrySec env (annBucketSec { st with clock := now } node tx).1 node tx := rfl

theorem annBucketSec_true_grants (st : Store) (node : NodeId) (tx : TxId) (h : (annBucketSec st node tx).2 = true) :
    (annBucketSec st node tx).1.grants = ⟨tx, node, st.clock, st.clock⟩ :: st.grants := by
  unfold annBucketSec at h ⊢
  split
  · rename_i e he; simp [he] at h
  · rfl

theorem annBucketSec_false_some (st : Store) (node : NodeId) (tx : TxId) (h : (annBucketSec st node tx).2 = false) :
    ∃ e, st.ent tx = some e := by
  unfold annBucketSec at h
  split at h
  · rename_i e he; exact ⟨e, he⟩
  · simp at h

theorem annEntrySec_grants (env : Env) (st : Store) (node : NodeId) (tx : TxId) :
    ((annEntrySec env st node tx).2 = true →
      (annEntrySec env st node tx).1.grants = ⟨tx, node, st.clock, st.clock⟩ :: st.grants) ∧
    ((annEntrySec env st node tx).2 = false → (annEntrySec env st node tx).1.grants = st.grants) := by
  unfold annEntrySec
  split
  · simp
  · split
    · simp
    · split
      · simp
      · simp

/-- AddTxID's entry section answering `false` for an existing, undelivered entry records the node. -/
theorem annEntrySec_false_waiting (env : Env) (st : Store) (node : NodeId) (tx : TxId) (e : Entry)
    (he : st.ent tx = some e) (h : (annEntrySec env st node tx).2 = false)
    (hnr : recvdB (annEntrySec env st node tx).1 tx = false) : waitingP (annEntrySec env st node tx).1 node tx := by
  unfold annEntrySec at h hnr ⊢
  simp only [he] at h hnr ⊢
  split
  · rename_i hr
    rw [if_pos hr] at hnr
    simp [recvdB, he, hr] at hnr
  · rename_i hr
    split
    · exact ⟨{ e with nodeIDs := appendID e.nodeIDs node }, by simp, mem_appendID_self _ _⟩
    · rename_i hlt
      rw [if_neg hr, if_neg hlt] at h
      simp at h

/-! ### the result of a poll versus the grant history -/

def pollGrant (node : NodeId) (clock : Nat) (k : TxId) : Grant := ⟨k, node, clock, clock⟩

theorem pollKeys_grants (env : Env) (node : NodeId) (ks : List TxId) (st : Store) (acc : List TxId) :
    ∃ new, (pollKeys env node st ks acc).2 = acc ++ new ∧
      (pollKeys env node st ks acc).1.grants = (new.reverse.map (pollGrant node st.clock)) ++ st.grants := by
  induction ks generalizing st acc with
  | nil => exact ⟨[], by simp [pollKeys], by simp [pollKeys]⟩
  | cons k ks ih =>
    simp only [pollKeys]
    rcases pollEntrySec_cases env st node k with ⟨_, heq⟩ | ⟨e, _, _, _, _, heq⟩
    · rw [heq]
      simp only [Bool.false_eq_true, if_false]
      exact ih st acc
    · rw [heq]
      simp only [if_true]
      obtain ⟨new, h1, h2⟩ := ih ((st.setEnt k { e with lastRequested := st.clock, nodeIDs := removeID e.nodeIDs node }).grant k node st.clock) (acc ++ [k])
      refine ⟨k :: new, by rw [h1]; simp, ?_⟩
      rw [h2]
      simp [pollGrant]

theorem pollBuckets_grants (env : Env) (node : NodeId) (max : Int) (order : List Nat) (st : Store)
    (acc : List TxId) :
    ∃ new, (pollBuckets env node max st order acc).2 = acc ++ new ∧
      (pollBuckets env node max st order acc).1.grants = (new.reverse.map (pollGrant node st.clock)) ++ st.grants := by
  induction order generalizing st acc with
  | nil => exact ⟨[], by simp [pollBuckets], by simp [pollBuckets]⟩
  | cons b bs ih =>
    simp only [pollBuckets]
    obtain ⟨new1, h1, h2⟩ := pollKeys_grants env node (bucketKeys st b) st acc
    split
    · exact ⟨new1, h1, h2⟩
    · obtain ⟨new2, h3, h4⟩ := ih (pollKeys env node st (bucketKeys st b) acc).1 (pollKeys env node st (bucketKeys st b) acc).2
      refine ⟨new1 ++ new2, by rw [h3, h1]; simp, ?_⟩
      rw [h4, h2, pollKeys_clock]
      simp

end BRV.TxMgr
