/-
The formulas of /repo/headers/proof_of_work.go BEFORE repository fix 04c364b, kept as definitions
of their own (they are no longer part of the model) so that the reasons for the fix stay
kernel-checked: where exactly they differ from the network's algorithm, with witnesses.
-/
import BRV.Proofs.PowLemmas

namespace BRV.Pow

/-! ### the OLD median: `sort.Sort` (stable insertion sort) then `list[1]` -/

/-- `MedianTimeAndWork` before fix 04c364b, for count = 3. -/
def oldMedian3 (a b c : Sample) : Sample := (sortGo [a, b, c]).getD 1 a

/-- Go's insertion sort of `[a, b, c]` followed by `list[1]`, as a decision tree. -/
theorem oldMedian3_closed (a b c : Sample) :
    oldMedian3 a b c =
      if b.time < a.time then
        (if c.time < a.time then (if c.time < b.time then b else c) else a)
      else
        (if c.time < b.time then (if c.time < a.time then a else c) else b) := by
  unfold oldMedian3 sortGo
  simp only [List.foldl_cons, List.foldl_nil, sink]
  by_cases h1 : b.time < a.time <;> by_cases h2 : c.time < a.time <;> by_cases h3 : c.time < b.time <;>
    simp [h1, h2, h3, sink]

/-- `GetSuitableBlock` as a decision tree. -/
theorem suitableBlock_closed (b0 b1 b2 : Spec.Block) :
    Spec.suitableBlock b0 b1 b2 =
      if b0.time > b2.time then
        (if b2.time > b1.time then (if b2.time > b0.time then b0 else b2)
         else (if b1.time > b0.time then b0 else b1))
      else
        (if b0.time > b1.time then (if b0.time > b2.time then b2 else b0)
         else (if b1.time > b2.time then b2 else b1)) := by
  unfold Spec.suitableBlock
  by_cases h1 : b0.time > b2.time <;> by_cases h2 : b2.time > b1.time <;> by_cases h3 : b0.time > b1.time <;>
    by_cases h4 : b1.time > b2.time <;> by_cases h5 : b1.time > b0.time <;> by_cases h6 : b2.time > b0.time <;>
    simp [h1, h2, h3, h4, h5, h6] <;> omega

/-- off the two tie patterns the code's median is the network's suitable block. -/
theorem oldMedian3_eq_suitable (a b c : Sample)
    (h1 : ¬ (a.time = b.time ∧ c.time < a.time)) (h2 : ¬ (b.time = c.time ∧ b.time < a.time)) :
    toBlock (oldMedian3 a b c) = Spec.suitableBlock (toBlock a) (toBlock b) (toBlock c) := by
  rw [oldMedian3_closed, suitableBlock_closed]
  simp only [toBlock]
  by_cases g1 : b.time < a.time <;> by_cases g2 : c.time < a.time <;> by_cases g3 : c.time < b.time <;>
    by_cases g4 : b.time < c.time <;> by_cases g5 : a.time < c.time <;> by_cases g6 : a.time < b.time <;>
    simp [g1, g2, g3, g4, g5, g6] <;> omega

/-- tie pattern 1 (`t0 = t1 > t2`): the code takes the oldest of the three, the network the middle one. -/
theorem oldMedian3_tie1 (a b c : Sample) (h : a.time = b.time) (hc : c.time < a.time) :
    oldMedian3 a b c = a ∧ Spec.suitableBlock (toBlock a) (toBlock b) (toBlock c) = toBlock b := by
  rw [oldMedian3_closed, suitableBlock_closed]
  simp only [toBlock]
  have g1 : ¬ b.time < a.time := by omega
  have g2 : c.time < b.time := by omega
  have g3 : ¬ b.time > a.time := by omega
  simp [g1, g2, g3, hc]
  omega

/-- tie pattern 2 (`t0 > t1 = t2`): the code takes the newest of the three, the network the middle one. -/
theorem oldMedian3_tie2 (a b c : Sample) (h : b.time = c.time) (hb : b.time < a.time) :
    oldMedian3 a b c = c ∧ Spec.suitableBlock (toBlock a) (toBlock b) (toBlock c) = toBlock b := by
  rw [oldMedian3_closed, suitableBlock_closed]
  simp only [toBlock]
  have g1 : c.time < a.time := by omega
  have g2 : ¬ c.time < b.time := by omega
  have g3 : ¬ c.time > b.time := by omega
  simp [g1, g2, g3, hb]
  omega

/-! ### the OLD time span: `lastTime - firstTime` in uint32 -/

/-- `timeSpan := lastTime - firstTime` on uint32 operands (before fix 04c364b). -/
def oldTimeSpan (lastTime firstTime : Nat) : Int := (((lastTime + 2 ^ 32 - firstTime) % 2 ^ 32 : Nat) : Int)

theorem oldTimeSpan_of_le (l f : Nat) (h : f ≤ l) (hl : l < 2 ^ 32) : oldTimeSpan l f = ((l - f : Nat) : Int) := by
  unfold oldTimeSpan
  congr 1
  omega

theorem oldTimeSpan_of_lt (l f : Nat) (h : l < f) (hf : f < 2 ^ 32) :
    oldTimeSpan l f = ((2 ^ 32 - (f - l) : Nat) : Int) := by
  unfold oldTimeSpan
  congr 1
  omega

/-- with `lastTime ≥ firstTime` the clamped span is the network's. -/
theorem oldSpan_eq_spec (l f : Nat) (h : f ≤ l) (hl : l < 2 ^ 32) :
    clampSpan (oldTimeSpan l f) = Spec.clampedSpan l f := by
  rw [oldTimeSpan_of_le l f h hl]
  unfold clampSpan Spec.clampedSpan Spec.minSpan Spec.maxSpan Facts.daaMinSpan Facts.daaMaxSpan
  simp only []
  split <;> split <;> split <;> (try split) <;> omega

/-- with `lastTime < firstTime` the unsigned difference wraps: the code clamps to the MAXIMUM span
    where the network (signed difference, negative) clamps to the MINIMUM. -/
theorem oldSpan_wrap (l f : Nat) (h : l < f) (hf : f < 2 ^ 32) (hd : f - l ≤ 2 ^ 32 - 172800) :
    clampSpan (oldTimeSpan l f) = 172800 ∧ Spec.clampedSpan l f = 43200 := by
  rw [oldTimeSpan_of_lt l f h hf]
  unfold clampSpan Spec.clampedSpan Spec.minSpan Spec.maxSpan Facts.daaMinSpan Facts.daaMaxSpan
  simp only []
  constructor
  · split <;> split <;> omega
  · split <;> (try split) <;> omega


/-! ### the OLD work → target inversion: `bitcoin.ConvertToWork(projected)` -/

/-- `Branch.Target` before fix 04c364b on the two median samples (ℕ suffices: work grows). -/
def oldTargetOfSamples (oldSpan : Bool) (last first : Sample) : Nat :=
  let span := (clampSpan (if oldSpan then oldTimeSpan last.time first.time else timeSpan last.time first.time)).toNat
  let projected := (last.work - first.work) * Facts.daaTargetSpacing / span
  let t := convertToWork projected
  if t > maxWork then maxWork else t

end BRV.Pow
