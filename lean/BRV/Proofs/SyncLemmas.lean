/-
Helper lemmas for C05: the walk-back of `synchronizeBlocks` (`walk`, lookup based, fuelled) equals a
positional specification (`walkSpec`, structural on the height, independent of the memory window),
and `walkSpec` is characterised exactly by one stop condition (`condF`: the first planned height is
at or below the start height, or sits directly above a processed block, and everything above it up
to the tip is unprocessed and not below the start height).
-/
import BRV.Model.Sync

namespace BRV.Sync

/-- height of the tip. -/
def View.tip (v : View) : Nat := v.chain.length - 1

/-- a header view: block ids on the best chain are distinct and there is at least the genesis. -/
structure View.WF (v : View) : Prop where
  nodup : v.chain.Nodup
  nonempty : v.chain ≠ []

/-- `chain[a..T]` (inclusive). -/
def slice (v : View) (a T : Nat) : List Id := (v.chain.take (T + 1)).drop a

/-- positional form of the walk-back: `h` is the height of the lowest block already in `hashes`.
    The memory window plays no role: pruned predecessors are read by height. -/
def walkSpec (v : View) (proc : Id → Bool) (start T : Nat) : Nat → PlanRes
  | 0 => .plan (slice v 0 T) 0
  | h + 1 =>
    if h + 1 ≤ start then .plan (slice v (h + 1) T) (h + 1)
    else
      match v.chain[h]? with
      | none => .errPrevHash
      | some prev =>
        if proc prev then .plan (slice v (h + 1) T) (h + 1)
        else walkSpec v proc start T h

def planSpec (v : View) (proc : Id → Bool) (start : Nat) : PlanRes :=
  match v.chain.getLast? with
  | none => .noTip
  | some last =>
    if v.tip < start then .belowStart
    else if proc last then .inSync
    else walkSpec v proc start v.tip v.tip

theorem cmpOp_stop (a b : Nat) : cmpOp Facts.syncWalkStopOp a b = decide (a ≤ b) := by
  have : Facts.syncWalkStopOp = "<=" := rfl
  rw [this]; simp [cmpOp]

theorem cmpOp_guard (a b : Nat) : cmpOp Facts.syncStartGuardOp a b = decide (a < b) := by
  have : Facts.syncStartGuardOp = "<" := rfl
  rw [this]; simp [cmpOp]

theorem hashHeight_of_getElem? (v : View) (hn : v.chain.Nodup) (h : Nat) (x : Id)
    (hx : v.chain[h]? = some x) : v.hashHeight x = some h := by
  obtain ⟨hlt, rfl⟩ := List.getElem?_eq_some_iff.mp hx
  unfold View.hashHeight
  rw [List.Nodup.idxOf_getElem hn h hlt]
  simp [hlt]

theorem idxOf_of_getElem? (v : View) (hn : v.chain.Nodup) (h : Nat) (x : Id)
    (hx : v.chain[h]? = some x) : v.chain.idxOf x = h ∧ h < v.chain.length := by
  obtain ⟨hlt, rfl⟩ := List.getElem?_eq_some_iff.mp hx
  exact ⟨List.Nodup.idxOf_getElem hn h hlt, hlt⟩

theorem previousHash_of_getElem? (v : View) (hn : v.chain.Nodup) (h : Nat) (x : Id)
    (hx : v.chain[h]? = some x) :
    v.previousHash x = (match h with
      | 0 => none
      | h' + 1 => if h' < v.window then none else v.chain[h']?) := by
  obtain ⟨hi, hlt⟩ := idxOf_of_getElem? v hn h x hx
  unfold View.previousHash
  rw [hi]
  simp only [hlt, ↓reduceIte]
  cases h <;> rfl

theorem slice_cons (v : View) (h T : Nat) (x : Id) (hT : T < v.chain.length) (hh : h ≤ T)
    (hx : v.chain[h]? = some x) : slice v h T = x :: slice v (h + 1) T := by
  unfold slice
  have hlen : h < (v.chain.take (T + 1)).length := by
    rw [List.length_take]; omega
  rw [List.drop_eq_getElem_cons hlen]
  congr 1
  have : (v.chain.take (T + 1))[h]? = some x := by
    rw [List.getElem?_take]; simp [show h < T + 1 by omega, hx]
  obtain ⟨_, h2⟩ := List.getElem?_eq_some_iff.mp this
  exact h2

theorem slice_above (v : View) (T : Nat) : slice v (T + 1) T = [] := by
  unfold slice
  apply List.drop_eq_nil_of_le
  rw [List.length_take]; omega

theorem slice_length (v : View) (a T : Nat) (hT : T < v.chain.length) :
    (slice v a T).length = T + 1 - a := by
  unfold slice
  rw [List.length_drop, List.length_take]; omega

theorem slice_getElem? (v : View) (a T i : Nat) (hi : a + i ≤ T) :
    (slice v a T)[i]? = v.chain[a + i]? := by
  unfold slice
  rw [List.getElem?_drop, List.getElem?_take]
  simp [show a + i < T + 1 by omega]

/-- the predecessor lookup on a consistent view: memory or storage, the result is `chain[h]`. -/
theorem prevOf_of_getElem? (v : View) (hn : v.chain.Nodup) (h : Nat) (x : Id)
    (hx : v.chain[h + 1]? = some x) (hlt : h < v.chain.length) :
    prevOf v x (h + 1) = .found v.chain[h] := by
  unfold prevOf
  rw [previousHash_of_getElem? v hn (h + 1) x hx]
  simp only
  have hp : v.chain[h]? = some v.chain[h] := List.getElem?_eq_getElem hlt
  by_cases hw : h < v.window
  · simp [hw, View.hashAt, hx, hp]
  · simp [hw, hp]

/-- the lookup-based, fuelled walk equals the positional specification. -/
theorem walk_eq_spec (v : View) (proc : Id → Bool) (start T : Nat) (hn : v.chain.Nodup)
    (hT : T < v.chain.length) :
    ∀ (fuel h : Nat) (x : Id), h ≤ T → h + 1 ≤ fuel → v.chain[h]? = some x →
      walk v proc start fuel x h (slice v h T) = walkSpec v proc start T h := by
  intro fuel
  induction fuel with
  | zero => intro h x _ hf; omega
  | succ fuel ih =>
    intro h x hh hf hx
    unfold walk
    simp only [cmpOp_stop, decide_eq_true_eq]
    cases h with
    | zero => simp [walkSpec]
    | succ h' =>
      simp only [walkSpec]
      by_cases hst : h' + 1 ≤ start
      · simp [hst]
      · simp only [hst, ↓reduceIte]
        have hlt : h' < v.chain.length := by omega
        have hp : v.chain[h']? = some v.chain[h'] := List.getElem?_eq_getElem hlt
        rw [prevOf_of_getElem? v hn h' x hx hlt, hp]
        simp only [Nat.add_sub_cancel]
        have hs : v.chain[h'] :: slice v (h' + 1) T = slice v h' T :=
          (slice_cons v h' T _ hT (by omega) hp).symm
        by_cases hpr : proc v.chain[h'] = true
        · simp [hpr]
        · simp only [hpr, Bool.false_eq_true, ↓reduceIte]
          rw [hs]
          exact ih h' _ (by omega) (by omega) hp

theorem getLast?_eq_tip (v : View) : v.chain.getLast? = v.chain[v.tip]? := by
  rw [List.getLast?_eq_getElem?]; rfl

theorem planRes_eq_spec (v : View) (proc : Id → Bool) (start : Nat) (hn : v.chain.Nodup) :
    planRes v proc start = planSpec v proc start := by
  unfold planRes planSpec View.lastHash
  cases hl : v.chain.getLast? with
  | none => rfl
  | some last =>
    simp only
    have hx : v.chain[v.tip]? = some last := by rw [← getLast?_eq_tip]; exact hl
    have hT : v.tip < v.chain.length := (List.getElem?_eq_some_iff.mp hx).1
    rw [hashHeight_of_getElem? v hn v.tip last hx]
    simp only [cmpOp_guard, decide_eq_true_eq]
    by_cases h1 : v.tip < start
    · simp [h1]
    · simp only [h1, ↓reduceIte]
      by_cases h2 : proc last = true
      · simp [h2]
      · simp only [h2, Bool.false_eq_true, ↓reduceIte]
        have hs : [last] = slice v v.tip v.tip := by
          rw [slice_cons v v.tip v.tip last hT (Nat.le_refl _) hx, slice_above]
        rw [hs]
        exact walk_eq_spec v proc start v.tip hn hT (v.tip + 1) v.tip last (Nat.le_refl _) (Nat.le_refl _) hx

/-! ### exact characterisation of `walkSpec` -/

/-- every block at heights `lo ≤ k < hi` is unprocessed and not below the start height. -/
def passed (v : View) (proc : Id → Bool) (start lo hi : Nat) : Prop :=
  ∀ k, lo ≤ k → k < hi → start ≤ k ∧ ∀ x, v.chain[k]? = some x → proc x = false

/-- `f` is where the walk-back from height `hi` stops: `f` is at or below the start height or
    block `f−1` is processed, and everything in `[f, hi)` was passed. -/
def condF (v : View) (proc : Id → Bool) (start f hi : Nat) : Prop :=
  f ≤ hi ∧ (f ≤ start ∨ (1 ≤ f ∧ ∃ x, v.chain[f - 1]? = some x ∧ proc x = true)) ∧
    passed v proc start f hi

theorem walkSpec_sound (v : View) (proc : Id → Bool) (start T : Nat) :
    ∀ (h : Nat) (l : List Id) (f : Nat), h ≤ T → T < v.chain.length →
      walkSpec v proc start T h = .plan l f →
      l = slice v f T ∧ condF v proc start f h := by
  intro h
  induction h with
  | zero =>
    intro l f _ _ hw
    simp only [walkSpec, PlanRes.plan.injEq] at hw
    obtain ⟨rfl, rfl⟩ := hw
    exact ⟨rfl, Nat.le_refl _, Or.inl (Nat.zero_le _), by intro k h1 h2; omega⟩
  | succ h ih =>
    intro l f hh hT hw
    simp only [walkSpec] at hw
    by_cases hst : h + 1 ≤ start
    · simp only [hst, ↓reduceIte, PlanRes.plan.injEq] at hw
      obtain ⟨rfl, rfl⟩ := hw
      exact ⟨rfl, Nat.le_refl _, Or.inl hst, by intro k h1 h2; omega⟩
    · simp only [hst, ↓reduceIte] at hw
      have hlt : h < v.chain.length := by omega
      have hp : v.chain[h]? = some v.chain[h] := List.getElem?_eq_getElem hlt
      rw [hp] at hw
      simp only at hw
      by_cases hpr : proc v.chain[h] = true
      · simp only [hpr, ↓reduceIte, PlanRes.plan.injEq] at hw
        obtain ⟨rfl, rfl⟩ := hw
        refine ⟨rfl, Nat.le_refl _, Or.inr ⟨by omega, v.chain[h], by simp [hp], hpr⟩, ?_⟩
        intro k h1 h2; omega
      · have hpr' : proc v.chain[h] = false := by simpa using hpr
        simp only [hpr', Bool.false_eq_true, ↓reduceIte] at hw
        obtain ⟨hl, c1, c2, c3⟩ := ih l f (by omega) hT hw
        refine ⟨hl, by omega, c2, ?_⟩
        intro k h1 h2
        by_cases hk : k < h
        · exact c3 k h1 hk
        · have : k = h := by omega
          subst this
          refine ⟨by omega, ?_⟩
          intro x hx
          rw [hp] at hx
          cases hx
          exact hpr'

theorem walkSpec_complete (v : View) (proc : Id → Bool) (start T : Nat) :
    ∀ (h f : Nat), h ≤ T → T < v.chain.length → condF v proc start f h →
      walkSpec v proc start T h = .plan (slice v f T) f := by
  intro h
  induction h with
  | zero =>
    intro f _ _ hc
    have : f = 0 := by have := hc.1; omega
    subst this
    simp [walkSpec]
  | succ h ih =>
    intro f hh hT ⟨c1, c2, c3⟩
    have hlt : h < v.chain.length := by omega
    have hp : v.chain[h]? = some v.chain[h] := List.getElem?_eq_getElem hlt
    simp only [walkSpec]
    by_cases hf : f = h + 1
    · subst hf
      by_cases hst : h + 1 ≤ start
      · simp [hst]
      · simp only [hst, ↓reduceIte, hp]
        rcases c2 with c2 | ⟨_, x, hx, hxp⟩
        · omega
        · simp only [Nat.add_sub_cancel] at hx
          rw [hp] at hx; cases hx
          simp [hxp]
    · have hfl : f ≤ h := by omega
      obtain ⟨hs, hu⟩ := c3 h hfl (by omega)
      have hu' := hu _ hp
      have hst : ¬ h + 1 ≤ start := by omega
      simp only [hst, ↓reduceIte, hp, hu', Bool.false_eq_true]
      exact ih f (by omega) hT ⟨hfl, c2, fun k h1 h2 => c3 k h1 (by omega)⟩

/-! ### `withHeights` -/

theorem withHeights_length (l : List Id) (h : Nat) : (withHeights l h).length = l.length := by
  induction l generalizing h with
  | nil => rfl
  | cons x xs ih => simp [withHeights, ih]

theorem withHeights_getElem? (l : List Id) (h i : Nat) :
    (withHeights l h)[i]? = (l[i]?).map (fun x => (x, h + i)) := by
  induction l generalizing h i with
  | nil => simp [withHeights]
  | cons x xs ih =>
    cases i with
    | zero => simp [withHeights]
    | succ i =>
      simp only [withHeights, List.getElem?_cons_succ, ih]
      congr 1; funext y; congr 1; omega

theorem withHeights_append (a b : List Id) (h : Nat) :
    withHeights (a ++ b) h = withHeights a h ++ withHeights b (h + a.length) := by
  induction a generalizing h with
  | nil => simp [withHeights]
  | cons x xs ih =>
    simp only [List.cons_append, withHeights, ih, List.length_cons]
    congr 2; congr 1; omega

theorem withHeights_snd_lt (l : List Id) (h : Nat) : ∀ p ∈ withHeights l h, h ≤ p.2 := by
  induction l generalizing h with
  | nil => intro p hp; simp [withHeights] at hp
  | cons x xs ih =>
    intro p hp
    simp only [withHeights, List.mem_cons] at hp
    rcases hp with rfl | hp
    · exact Nat.le_refl _
    · have := ih (h + 1) p hp; omega

theorem withHeights_nodup (l : List Id) (h : Nat) : (withHeights l h).Nodup := by
  induction l generalizing h with
  | nil => simp [withHeights]
  | cons x xs ih =>
    simp only [withHeights, List.nodup_cons]
    refine ⟨?_, ih (h + 1)⟩
    intro hm
    have := withHeights_snd_lt xs (h + 1) _ hm
    simp only at this
    omega

end BRV.Sync
