/- Association-list lemmas for the height maps. -/
import BRV.Model.Repo

namespace BRV.Repo

theorem lookup_filter_ne (m : HMap) (k k' : Nat) (h : k' ≠ k) :
    List.lookup k' (m.filter (fun e => e.1 != k)) = List.lookup k' m := by
  induction m with
  | nil => rfl
  | cons e rest ih =>
    obtain ⟨a, b⟩ := e
    by_cases hak : a = k
    · subst hak
      have : (k' == a) = false := by simpa using h
      simp [List.filter, List.lookup, this, ih]
    · have hf : ((a, b).1 != k) = true := by simpa using hak
      simp only [List.filter, hf, List.lookup]
      by_cases hk : k' = a
      · subst hk; simp
      · have : (k' == a) = false := by simpa using hk
        simp only [this]; exact ih

theorem HMap.get?_set (m : HMap) (k k' : Nat) (v : Int) :
    (m.set k v).get? k' = if k' = k then some v else m.get? k' := by
  unfold HMap.set HMap.get?
  by_cases h : k' = k
  · subst h; simp [List.lookup]
  · have : (k' == k) = false := by simpa using h
    simp only [List.lookup, this, h, ↓reduceIte]
    exact lookup_filter_ne m k k' h

end BRV.Repo
