/-
`Branches.Trim` (invalid marks): which branches are dropped, and that no kept branch's chain
passes through the trimmed header.
-/
import BRV.Proofs.RepoStreamStep

namespace BRV.Repo

/-- branch `x` hangs, directly or through other branches, off branch `bi0` at or above height `h`. -/
inductive Doomed (ar : Arena) (bi0 : Nat) (h : Int) : Nat → Prop
  | direct (x : Nat) (b : Branch) : ar[x]? = some b → b.parent = some bi0 → b.parentHeight ≥ h → Doomed ar bi0 h x
  | via (x : Nat) (b : Branch) (p : Nat) : ar[x]? = some b → b.parent = some p → Doomed ar bi0 h p → Doomed ar bi0 h x

theorem doomed_gt (ar : Arena) (hp : ParentsDecrease ar) (bi0 : Nat) (h : Int) (x : Nat) (hd : Doomed ar bi0 h x) :
    bi0 < x := by
  induction hd with
  | direct x b hb hpar _ => exact hp x b hb bi0 hpar
  | via x b p hb hpar _ ih => have := hp x b hb p hpar; omega

/-- the fold of `Branches.Trim` over a prefix `seen` of the branch list. -/
def TrimInv (ar : Arena) (bi0 : Nat) (h : Int) (seen : List Nat) (acc : List Nat × List Nat) : Prop :=
  (∀ x, x ∈ acc.2 ↔ (x ∈ seen ∧ Doomed ar bi0 h x)) ∧ (∀ x, x ∈ acc.1 ↔ (x ∈ seen ∧ ¬ Doomed ar bi0 h x))

theorem mem_seen_of_lt (seen rest : List Nat) (x p : Nat) (hs : (seen ++ x :: rest).Pairwise (· < ·))
    (hm : p ∈ seen ++ x :: rest) (hlt : p < x) : p ∈ seen := by
  rw [List.pairwise_append] at hs
  obtain ⟨_, hs2, _⟩ := hs
  rw [List.pairwise_cons] at hs2
  rcases List.mem_append.mp hm with hm | hm
  · exact hm
  · rcases List.mem_cons.mp hm with he | hm2
    · omega
    · have := hs2.1 p hm2; omega

theorem trimFold_spec (r1 : Repo) (hp : ParentsDecrease r1.arena) (bi0 : Nat) (h : Int) (all : List Nat)
    (hsorted : all.Pairwise (· < ·)) (hvalid : ∀ x ∈ all, x < r1.arena.length)
    (hparents : ∀ x ∈ all, ∀ (b : Branch) (p : Nat), r1.arena[x]? = some b → b.parent = some p → p = bi0 ∨ p ∈ all) :
    ∀ (rest seen : List Nat) (acc : List Nat × List Nat), all = seen ++ rest → TrimInv r1.arena bi0 h seen acc →
      TrimInv r1.arena bi0 h all (rest.foldl (trimStep r1 bi0 h) acc) := by
  intro rest
  induction rest with
  | nil => intro seen acc hall hinv; simp only [List.append_nil] at hall; subst hall; exact hinv
  | cons x rest ih =>
    intro seen acc hall hinv
    simp only [List.foldl_cons]
    have hxall : x ∈ all := by rw [hall]; simp
    have hxlt := hvalid x hxall
    have hbx : r1.arena[x]? = some (r1.br x) := by
      unfold Repo.br; rw [List.getElem?_eq_getElem hxlt]; rfl
    have hxnotseen : x ∉ seen := by
      intro hm
      rw [hall, List.pairwise_append] at hsorted
      have := hsorted.2.2 x hm x (by simp)
      omega
    -- removal at this step ⇔ Doomed
    have hkey : ((parentRemoved r1 acc.2 x) = true ∨
        (((r1.br x).parent == some bi0 && decide ((r1.br x).parentHeight ≥ h)) = true)) ↔ Doomed r1.arena bi0 h x := by
      constructor
      · rintro (hpr | hdir)
        · unfold parentRemoved at hpr
          cases hpar : (r1.br x).parent with
          | none => rw [hpar] at hpr; cases hpr
          | some p =>
            rw [hpar] at hpr
            simp only [List.contains_eq_mem, decide_eq_true_eq] at hpr
            exact .via x _ p hbx hpar ((hinv.1 p).mp hpr).2
        · simp only [Bool.and_eq_true, beq_iff_eq, decide_eq_true_eq] at hdir
          exact .direct x _ hbx hdir.1 hdir.2
      · intro hd
        cases hd with
        | direct _ b hb hpar hge =>
          rw [hbx] at hb; simp only [Option.some.injEq] at hb; subst hb
          right; simp [hpar, hge]
        | via _ b p hb hpar hdp =>
          rw [hbx] at hb; simp only [Option.some.injEq] at hb; subst hb
          left
          unfold parentRemoved
          rw [hpar]
          simp only [List.contains_eq_mem, decide_eq_true_eq]
          have hplt := hp x _ hbx p hpar
          have hne : p ≠ bi0 := by have := doomed_gt r1.arena hp bi0 h p hdp; omega
          have hpall : p ∈ all := by
            rcases hparents x hxall _ p hbx hpar with he | hm
            · exact absurd he hne
            · exact hm
          have hpseen : p ∈ seen := mem_seen_of_lt seen rest x p (by rw [← hall]; exact hsorted) (by rw [← hall]; exact hpall) hplt
          exact (hinv.1 p).mpr ⟨hpseen, hdp⟩
    apply ih (seen ++ [x]) _ (by rw [hall]; simp)
    unfold trimStep
    by_cases hd : Doomed r1.arena bi0 h x
    · have hrem := hkey.mpr hd
      have hres : (if (parentRemoved r1 acc.2 x) = true then (acc.1, acc.2 ++ [x])
          else if ((r1.br x).parent == some bi0 && decide ((r1.br x).parentHeight ≥ h)) = true then (acc.1, acc.2 ++ [x])
          else (acc.1 ++ [x], acc.2)) = (acc.1, acc.2 ++ [x]) := by
        rcases hrem with h1 | h2
        · simp only [h1, ↓reduceIte]
        · by_cases h1 : (parentRemoved r1 acc.2 x) = true
          · simp only [h1, ↓reduceIte]
          · simp only [h1, h2, ↓reduceIte, Bool.false_eq_true]
      simp only at hres ⊢
      rw [hres]
      constructor
      · intro y
        simp only [List.mem_append, List.mem_cons, List.not_mem_nil, or_false]
        constructor
        · rintro (hy | rfl)
          · exact ⟨Or.inl ((hinv.1 y).mp hy).1, ((hinv.1 y).mp hy).2⟩
          · exact ⟨Or.inr rfl, hd⟩
        · rintro ⟨hy | rfl, hdy⟩
          · exact Or.inl ((hinv.1 y).mpr ⟨hy, hdy⟩)
          · exact Or.inr rfl
      · intro y
        simp only [List.mem_append, List.mem_cons, List.not_mem_nil, or_false]
        constructor
        · intro hy
          exact ⟨Or.inl ((hinv.2 y).mp hy).1, ((hinv.2 y).mp hy).2⟩
        · rintro ⟨hy | rfl, hdy⟩
          · exact (hinv.2 y).mpr ⟨hy, hdy⟩
          · exact absurd hd hdy
    · have h1 : ¬ ((parentRemoved r1 acc.2 x) = true) :=
        fun hh => hd (hkey.mp (Or.inl hh))
      have h2 : ¬ (((r1.br x).parent == some bi0 && decide ((r1.br x).parentHeight ≥ h)) = true) :=
        fun hh => hd (hkey.mp (Or.inr hh))
      have hres : (if (parentRemoved r1 acc.2 x) = true then (acc.1, acc.2 ++ [x])
          else if ((r1.br x).parent == some bi0 && decide ((r1.br x).parentHeight ≥ h)) = true then (acc.1, acc.2 ++ [x])
          else (acc.1 ++ [x], acc.2)) = (acc.1 ++ [x], acc.2) := by
        simp only [h1, h2, ↓reduceIte, Bool.false_eq_true]
      simp only at hres ⊢
      rw [hres]
      constructor
      · intro y
        simp only [List.mem_append, List.mem_cons, List.not_mem_nil, or_false]
        constructor
        · intro hy
          exact ⟨Or.inl ((hinv.1 y).mp hy).1, ((hinv.1 y).mp hy).2⟩
        · rintro ⟨hy | rfl, hdy⟩
          · exact (hinv.1 y).mpr ⟨hy, hdy⟩
          · exact absurd hdy hd
      · intro y
        simp only [List.mem_append, List.mem_cons, List.not_mem_nil, or_false]
        constructor
        · rintro (hy | rfl)
          · exact ⟨Or.inl ((hinv.2 y).mp hy).1, ((hinv.2 y).mp hy).2⟩
          · exact ⟨Or.inr rfl, hd⟩
        · rintro ⟨hy | rfl, hdy⟩
          · exact Or.inl ((hinv.2 y).mpr ⟨hy, hdy⟩)
          · exact Or.inr rfl

/-! ### a chain through the trimmed header belongs to a doomed branch -/

theorem tainted_doomed (ar : Arena) (hw : LinkWF ar) (bs : List Nat) (hi : IdWF ar bs) (bi0 id : Nat) (h : Int)
    (hheld : HeldAt ar bi0 id h) (x : Nat) (d : HData) (hx : atH ar x h = some d) (hid : d.hdr.id = id)
    (hne : x ≠ bi0) : Doomed ar bi0 h x := by
  induction x using Nat.strongRecOn with
  | _ x ih =>
    cases hb : ar[x]? with
    | none => unfold atH at hx; simp [atHeight, hb] at hx
    | some b =>
      have hl := hw.each x b hb
      rw [atH_unfold ar hw.dec x b hb] at hx
      by_cases h1 : h > b.parentHeight
      · simp only [h1, ↓reduceIte] at hx
        unfold getI at hx
        split at hx
        · cases hx
        · have hoff := hl.off
          have hheld2 : HeldAt ar x id h := ⟨b, _, d, hb, hx, hid, by omega⟩
          exact absurd (heldAt_unique ar bs hi x bi0 id h h hheld2 hheld).1 hne
      · simp only [h1, ↓reduceIte] at hx
        cases hpar : b.parent with
        | none => rw [hpar] at hx; cases hx
        | some p =>
          rw [hpar] at hx
          simp only at hx
          by_cases hp0 : p = bi0
          · subst hp0
            exact .direct x b hb hpar (by omega)
          · exact .via x b p hb hpar (ih p (hw.dec x b hb p hpar) hx hp0)

theorem doomed_set (ar : Arena) (bi0 : Nat) (b b' : Branch) (hb : ar[bi0]? = some b)
    (hpar : b'.parent = b.parent) (hph : b'.parentHeight = b.parentHeight) (h : Int) (x : Nat)
    (hd : Doomed ar bi0 h x) : Doomed (ar.set bi0 b') bi0 h x := by
  have hlt : bi0 < ar.length := getElem?_lt _ _ _ hb
  have hget : ∀ (y : Nat) (c : Branch), ar[y]? = some c →
      ∃ c', (ar.set bi0 b')[y]? = some c' ∧ c'.parent = c.parent ∧ c'.parentHeight = c.parentHeight := by
    intro y c hc
    by_cases he : y = bi0
    · subst he
      rw [hb] at hc; simp only [Option.some.injEq] at hc; subst hc
      exact ⟨b', List.getElem?_set_self hlt, hpar, hph⟩
    · exact ⟨c, by rw [List.getElem?_set_ne (Ne.symm he)]; exact hc, rfl, rfl⟩
  induction hd with
  | direct x c hc hp hge =>
    obtain ⟨c', hc', h1, h2⟩ := hget x c hc
    exact .direct x c' hc' (by rw [h1]; exact hp) (by rw [h2]; exact hge)
  | via x c p hc hp _ ih =>
    obtain ⟨c', hc', h1, _⟩ := hget x c hc
    exact .via x c' p hc' (by rw [h1]; exact hp) ih

/-! ### lookups after truncating a branch -/

theorem atH_truncate (ar : Arena) (hp : ParentsDecrease ar) (bi0 : Nat) (b b' : Branch) (n : Nat)
    (hb : ar[bi0]? = some b) (hpar : b'.parent = b.parent) (hph : b'.parentHeight = b.parentHeight)
    (hoff : b'.offset = b.offset) (hh : b'.headers = b.headers.take n)
    (x : Nat) (k : Int) (d : HData) (hs : atH (ar.set bi0 b') x k = some d) : atH ar x k = some d := by
  have hlt : bi0 < ar.length := getElem?_lt _ _ _ hb
  have hp' : ParentsDecrease (ar.set bi0 b') := by
    intro i br hbr p hpp
    by_cases hi : i = bi0
    · subst hi
      rw [List.getElem?_set_self hlt] at hbr
      simp only [Option.some.injEq] at hbr
      subst hbr
      rw [hpar] at hpp
      exact hp i b hb p hpp
    · rw [List.getElem?_set_ne (Ne.symm hi)] at hbr
      exact hp i br hbr p hpp
  induction x using Nat.strongRecOn generalizing k d with
  | _ x ih =>
    by_cases hx : x = bi0
    · subst hx
      rw [atH_unfold _ hp' x b' (List.getElem?_set_self hlt)] at hs
      rw [atH_unfold ar hp x b hb]
      rw [hph, hoff, hh] at hs
      by_cases h1 : k > b.parentHeight
      · simp only [h1, ↓reduceIte] at hs ⊢
        unfold getI at hs ⊢
        split at hs
        · cases hs
        · rename_i hn
          simp only [hn, ↓reduceIte]
          rw [List.getElem?_take] at hs
          split at hs
          · exact hs
          · cases hs
      · simp only [h1, ↓reduceIte] at hs ⊢
        rw [hpar] at hs
        cases hpp : b.parent with
        | none => rw [hpp] at hs; cases hs
        | some p =>
          rw [hpp] at hs
          simp only at hs ⊢
          exact ih p (hp x b hb p hpp) k d hs
    · cases hbx : ar[x]? with
      | none =>
        have : (ar.set bi0 b')[x]? = none := by rw [List.getElem?_set_ne (Ne.symm hx)]; exact hbx
        unfold atH at hs; simp [atHeight, this] at hs
      | some bx =>
        have hbx' : (ar.set bi0 b')[x]? = some bx := by rw [List.getElem?_set_ne (Ne.symm hx)]; exact hbx
        rw [atH_unfold _ hp' x bx hbx'] at hs
        rw [atH_unfold ar hp x bx hbx]
        by_cases h1 : k > bx.parentHeight
        · simp only [h1, ↓reduceIte] at hs ⊢; exact hs
        · simp only [h1, ↓reduceIte] at hs ⊢
          cases hpp : bx.parent with
          | none => rw [hpp] at hs; cases hs
          | some p =>
            rw [hpp] at hs
            simp only at hs ⊢
            exact ih p (hp x bx hbx p hpp) k d hs

/-! ### the trim as a whole -/

theorem parentsDecrease_set (ar : Arena) (hp : ParentsDecrease ar) (bi0 : Nat) (b b' : Branch)
    (hb : ar[bi0]? = some b) (hpar : b'.parent = b.parent) : ParentsDecrease (ar.set bi0 b') := by
  have hlt : bi0 < ar.length := getElem?_lt _ _ _ hb
  intro i br hbr p hpp
  by_cases hi : i = bi0
  · subst hi
    rw [List.getElem?_set_self hlt] at hbr
    simp only [Option.some.injEq] at hbr
    subst hbr
    rw [hpar] at hpp
    exact hp i b hb p hpp
  · rw [List.getElem?_set_ne (Ne.symm hi)] at hbr
    exact hp i br hbr p hpp

theorem trimFold_keep (r1 : Repo) (hp : ParentsDecrease r1.arena) (bi0 : Nat) (h : Int)
    (hsorted : r1.branches.Pairwise (· < ·)) (hvalid : ∀ x ∈ r1.branches, x < r1.arena.length)
    (hparents : ∀ x ∈ r1.branches, ∀ (b : Branch) (p : Nat), r1.arena[x]? = some b → b.parent = some p →
      p = bi0 ∨ p ∈ r1.branches) (x : Nat) :
    x ∈ (r1.branches.foldl (trimStep r1 bi0 h) ([], [])).1 ↔ (x ∈ r1.branches ∧ ¬ Doomed r1.arena bi0 h x) := by
  have := trimFold_spec r1 hp bi0 h r1.branches hsorted hvalid hparents r1.branches [] ([], []) rfl
    ⟨by intro y; simp, by intro y; simp⟩
  exact this.2 x

/-- **after trimming at a held header, no tracked branch's chain passes through it.** -/
theorem trim_excludes (r : Repo) (hs : StreamWF r) (bi0 id : Nat) (h : Int) (hheld : HeldAt r.arena bi0 id h)
    (r2 : Repo) (ht : trim r bi0 h = .ok r2) :
    ∀ x ∈ r2.branches, ∀ (k : Int) (d : HData), atH r2.arena x k = some d → d.hdr.id ≠ id := by
  have hw := hs.chain.wf.link
  have hids := hs.chain.wf.ids
  have hlist := hs.chain.wf.list
  obtain ⟨b0, k0, d0, hb0, hk0, hid0, hh0⟩ := hheld
  have hheld : HeldAt r.arena bi0 id h := ⟨b0, k0, d0, hb0, hk0, hid0, hh0⟩
  have hbr : r.br bi0 = b0 := by unfold Repo.br; rw [hb0]; rfl
  have hoff := (hw.each bi0 b0 hb0).off
  have hk0lt : k0 < b0.headers.length := getElem?_lt _ _ _ hk0
  have hparents : ∀ x ∈ r.branches, ∀ (b : Branch) (p : Nat), r.arena[x]? = some b → b.parent = some p →
      p < r.arena.length := by
    intro x _ b p hb hpar
    obtain ⟨d, hd, _⟩ := (hw.each x b hb).parentLink p hpar
    exact atHeight_some_lt _ _ _ _ _ hd
  -- the position of `id` is unique: a chain containing it contains it at height h
  have hat_h : ∀ (x : Nat) (k : Int) (d : HData), atH r.arena x k = some d → d.hdr.id = id → k = h := by
    intro x k d hd hid
    obtain ⟨bj, _, hh⟩ := atH_heldAt r.arena hw x k d hd
    rw [hid] at hh
    exact (heldAt_unique r.arena r.branches hids bj bi0 id k h hh hheld).2
  unfold trim at ht
  rw [hbr] at ht
  by_cases hA : h = b0.parentHeight + 1
  · -- the whole branch goes
    subst hA
    simp only [↓reduceIte] at ht
    simp only [Except.ok.injEq] at ht
    subst ht
    intro x hx k d hd hid
    simp only at hx hd
    have hkeep := (trimFold_keep { r with branches := r.branches.filter (· != bi0) } hw.dec bi0 (b0.parentHeight + 1)
      (hlist.sorted.sublist List.filter_sublist)
      (by intro y hy; exact hlist.valid y (List.mem_filter.mp hy).1)
      (by intro y hy b p hb hpar
          by_cases hp0 : p = bi0
          · exact Or.inl hp0
          · right
            have hy' := (List.mem_filter.mp hy).1
            exact List.mem_filter.mpr ⟨hids.listed p (hparents y hy' b p hb hpar), by simpa using hp0⟩) x).mp hx
    obtain ⟨hxm, hnd⟩ := hkeep
    have hxne : x ≠ bi0 := by simpa using (List.mem_filter.mp hxm).2
    have hkh := hat_h x k d hd hid
    rw [hkh] at hd
    exact hnd (tainted_doomed r.arena hw r.branches hids bi0 id _ hheld x d hd hid hxne)
  · -- the branch is cut below the header
    have hk0pos : k0 ≠ 0 := by intro h0; subst h0; apply hA; omega
    simp only [hA, ↓reduceIte] at ht
    have h1 : ¬ (h ≤ b0.parentHeight) := by omega
    have h2 : ¬ (h - b0.parentHeight - b0.offset ≥ (b0.headers.length : Int)) := by omega
    have h3 : ¬ (h - b0.parentHeight - b0.offset ≤ 0) := by omega
    simp only [h1, h2, h3, ↓reduceIte] at ht
    have hslice : sliceTo b0.headers (h - b0.parentHeight - b0.offset) "Trim" = .ok (b0.headers.take k0) := by
      unfold sliceTo
      have : ¬ (h - b0.parentHeight - b0.offset < 0 ∨ h - b0.parentHeight - b0.offset > (b0.headers.length : Int)) := by omega
      simp only [this, ↓reduceIte]
      congr 2
      omega
    rw [hslice] at ht
    simp only [Except.ok.injEq] at ht
    subst ht
    intro x hx k d hd hid
    simp only at hx hd
    generalize hb' : trimmedBranch b0 (h - b0.parentHeight - b0.offset) (b0.headers.take k0) = b' at hx hd
    have hb'1 : b'.parent = b0.parent := by rw [← hb']; rfl
    have hb'2 : b'.parentHeight = b0.parentHeight := by rw [← hb']; rfl
    have hb'3 : b'.offset = b0.offset := by rw [← hb']; rfl
    have hb'4 : b'.headers = b0.headers.take k0 := by rw [← hb']; rfl
    have harena : (r.setBranch bi0 b').arena = r.arena.set bi0 b' := rfl
    rw [harena] at hd
    have hp' := parentsDecrease_set r.arena hw.dec bi0 b0 b' hb0 hb'1
    have hkeep := (trimFold_keep (r.setBranch bi0 b') (by rw [harena]; exact hp') bi0 h
      hlist.sorted
      (by intro y hy; rw [harena, List.length_set]; exact hlist.valid y hy)
      (by intro y hy b p hb hpar
          right
          rw [harena] at hb
          by_cases hy0 : y = bi0
          · subst hy0
            rw [List.getElem?_set_self (getElem?_lt _ _ _ hb0)] at hb
            simp only [Option.some.injEq] at hb
            subst hb
            rw [hb'1] at hpar
            exact hids.listed p (hparents y hy b0 p hb0 hpar)
          · rw [List.getElem?_set_ne (Ne.symm hy0)] at hb
            exact hids.listed p (hparents y hy b p hb hpar)) x).mp hx
    obtain ⟨hxm, hnd⟩ := hkeep
    have hold := atH_truncate r.arena hw.dec bi0 b0 b' k0 hb0 hb'1 hb'2 hb'3 hb'4 x k d hd
    have hkh := hat_h x k d hold hid
    rw [hkh] at hd hold
    rw [hh0] at hd
    by_cases hx0 : x = bi0
    · subst hx0
      rw [atH_unfold _ hp' x b' (List.getElem?_set_self (getElem?_lt _ _ _ hb0))] at hd
      rw [hb'2, hb'3, hb'4] at hd
      have : b0.parentHeight + 1 + (k0 : Int) > b0.parentHeight := by omega
      simp only [this, ↓reduceIte] at hd
      unfold getI at hd
      have hn : ¬ (b0.parentHeight + 1 + (k0 : Int) - b0.parentHeight - b0.offset < 0) := by omega
      simp only [hn, ↓reduceIte] at hd
      rw [List.getElem?_take] at hd
      have : ¬ ((b0.parentHeight + 1 + (k0 : Int) - b0.parentHeight - b0.offset).toNat < k0) := by omega
      simp only [this, ↓reduceIte] at hd
      cases hd
    · have hdm := tainted_doomed r.arena hw r.branches hids bi0 id _ hheld x d hold hid hx0
      exact hnd (by rw [harena]; exact doomed_set r.arena bi0 b0 b' hb0 hb'1 hb'2 _ x hdm)

end BRV.Repo
