/-
The identity invariant of the branch forest: every header id is held at exactly one place, and
each branch's height map records exactly the positions of the headers it holds. Preserved by
`ProcessHeader`; consequences: the height any lookup reports for a hash is the height at which
that very header sits in the tree, and all lookups agree.
-/
import BRV.Proofs.RepoShape
import BRV.Proofs.HMapLemmas

namespace BRV.Repo

/-- the branch's own map holds exactly its headers, each at its position. -/
def MapExact (b : Branch) : Prop :=
  ∀ id h, b.hmap.get? id = some h ↔
    ∃ (k : Nat) (d : HData), b.headers[k]? = some d ∧ d.hdr.id = id ∧ h = b.parentHeight + 1 + (k : Int)

structure IdWF (ar : Arena) (bs : List Nat) : Prop where
  listed : ∀ bi : Nat, bi < ar.length → bi ∈ bs
  exact : ∀ (bi : Nat) (b : Branch), ar[bi]? = some b → MapExact b
  uniq : ∀ (bi bj : Nat) (b c : Branch) (k l : Nat) (d e : HData), ar[bi]? = some b → ar[bj]? = some c →
    b.headers[k]? = some d → c.headers[l]? = some e → d.hdr.id = e.hdr.id → bi = bj ∧ k = l

theorem bfind_own_none (ar : Arena) (f bi id : Nat) (b : Branch) (hb : ar[bi]? = some b)
    (h : bfind ar (f + 1) bi id = none) : b.hmap.get? id = none := by
  unfold bfind at h
  rw [hb] at h
  simp only at h
  cases hg : b.hmap.get? id with
  | none => rfl
  | some x => rw [hg] at h; cases h

/-- a hash `Branches.Find` does not know is held nowhere. -/
theorem fresh_not_held (r : Repo) (hi : IdWF r.arena r.branches) (id : Nat) (hf : r.branchesFind id = none)
    (bi : Nat) (b : Branch) (k : Nat) (d : HData) (hb : r.arena[bi]? = some b) (hk : b.headers[k]? = some d) :
    d.hdr.id ≠ id := by
  intro heq
  have hlt : bi < r.arena.length := by
    by_cases hc : bi < r.arena.length
    · exact hc
    · rw [List.getElem?_eq_none (by omega)] at hb; cases hb
  have hmem := hi.listed bi hlt
  unfold Repo.branchesFind at hf
  rw [List.findSome?_eq_none_iff] at hf
  have := hf bi hmem
  simp only [Option.map_eq_none_iff] at this
  unfold Repo.find Repo.fuel at this
  have hnone := bfind_own_none r.arena _ bi id b hb this
  have hsome := ((hi.exact bi b hb) id (b.parentHeight + 1 + (k : Int))).mpr ⟨k, d, hk, heq, rfl⟩
  rw [hnone] at hsome; cases hsome

/-! ### preservation -/

theorem idWF_fork (ar : Arena) (bs : List Nat) (hi : IdWF ar bs) (pb : Nat) (ph : Int) (h : Hdr) (w : Nat) (nb : Branch)
    (hnb : nb = { parent := some pb, parentHeight := ph, first := h, offset := 1,
                   headers := [{ hdr := h, work := w }], hmap := [(h.id, ph + 1)] })
    (hfresh : ∀ (bi : Nat) (b : Branch) (k : Nat) (d : HData), ar[bi]? = some b → b.headers[k]? = some d → d.hdr.id ≠ h.id) :
    IdWF (ar ++ [nb]) (bs ++ [ar.length]) := by
  have hnb1 : nb.headers = [{ hdr := h, work := w }] := by rw [hnb]
  have hnb2 : nb.hmap = [(h.id, ph + 1)] := by rw [hnb]
  have hnb3 : nb.parentHeight = ph := by rw [hnb]
  clear hnb
  have hget : ∀ bi b, (ar ++ [nb])[bi]? = some b → (bi < ar.length ∧ ar[bi]? = some b) ∨ (bi = ar.length ∧ b = nb) := by
    intro bi b hb
    by_cases hlt : bi < ar.length
    · left; rw [List.getElem?_append_left hlt] at hb; exact ⟨hlt, hb⟩
    · right
      by_cases he : bi = ar.length
      · subst he; simp at hb; exact ⟨rfl, hb.symm⟩
      · rw [List.getElem?_eq_none (by simp; omega)] at hb; cases hb
  have hnbk : ∀ (k : Nat) d, nb.headers[k]? = some d → k = 0 ∧ d = { hdr := h, work := w } := by
    intro k d hk
    cases k with
    | zero => simp [hnb1] at hk; exact ⟨rfl, hk.symm⟩
    | succ k => simp [hnb1] at hk
  constructor
  · intro bi hlt
    simp only [List.length_append, List.length_cons, List.length_nil] at hlt
    by_cases hc : bi < ar.length
    · exact List.mem_append_left _ (hi.listed bi hc)
    · have : bi = ar.length := by omega
      subst this; simp
  · intro bi b hb
    rcases hget bi b hb with ⟨_, hb'⟩ | ⟨_, hbnb⟩
    · exact hi.exact bi b hb'
    · subst hbnb
      intro id x
      constructor
      · intro hg
        unfold HMap.get? at hg
        simp only [hnb2, List.lookup] at hg
        by_cases hid : id = h.id
        · subst hid
          simp only [BEq.rfl, Option.some.injEq] at hg
          exact ⟨0, { hdr := h, work := w }, by rw [hnb1]; rfl, rfl, by rw [hnb3, ← hg]; simp⟩
        · have : (id == h.id) = false := by simpa using hid
          simp only [this] at hg; cases hg
      · rintro ⟨k, d, hk, hid, hx⟩
        obtain ⟨rfl, rfl⟩ := hnbk k d hk
        simp only at hid
        subst hid; subst hx
        simp [hnb2, hnb3, HMap.get?, List.lookup]
  · intro bi bj b c k l d e hb hc hk hl heq
    rcases hget bi b hb with ⟨_, hb'⟩ | ⟨hbi, hbn⟩
    · rcases hget bj c hc with ⟨_, hc'⟩ | ⟨hbj, hcn⟩
      · exact hi.uniq bi bj b c k l d e hb' hc' hk hl heq
      · rw [hcn] at hl
        obtain ⟨_, he⟩ := hnbk l e hl
        rw [he] at heq
        exact absurd heq (hfresh bi b k d hb' hk)
    · rcases hget bj c hc with ⟨_, hc'⟩ | ⟨hbj, hcn⟩
      · rw [hbn] at hk
        obtain ⟨_, hd⟩ := hnbk k d hk
        rw [hd] at heq
        exact absurd heq.symm (hfresh bj c l e hc' hl)
      · rw [hbn] at hk; rw [hcn] at hl
        obtain ⟨hk0, _⟩ := hnbk k d hk
        obtain ⟨hl0, _⟩ := hnbk l e hl
        exact ⟨by rw [hbi, hbj], by rw [hk0, hl0]⟩

theorem idWF_extend (ar : Arena) (bs : List Nat) (hi : IdWF ar bs) (pb : Nat) (b b2 : Branch) (h : Hdr) (w : Nat)
    (hb2 : b2 = { b with headers := b.headers ++ [{ hdr := h, work := w }],
                         hmap := b.hmap.set h.id (b.height + 1) })
    (hb : ar[pb]? = some b) (hoff : b.offset = 1)
    (hfresh : ∀ (bi : Nat) (b : Branch) (k : Nat) (d : HData), ar[bi]? = some b → b.headers[k]? = some d → d.hdr.id ≠ h.id) :
    IdWF (ar.set pb b2) bs := by
  have hb21 : b2.headers = b.headers ++ [{ hdr := h, work := w }] := by rw [hb2]
  have hb22 : b2.hmap = b.hmap.set h.id (b.height + 1) := by rw [hb2]
  have hb23 : b2.parentHeight = b.parentHeight := by rw [hb2]
  clear hb2
  have hlt : pb < ar.length := by
    by_cases hc : pb < ar.length
    · exact hc
    · rw [List.getElem?_eq_none (by omega)] at hb; cases hb
  have hget : ∀ bi c, (ar.set pb b2)[bi]? = some c → (bi ≠ pb ∧ ar[bi]? = some c) ∨ (bi = pb ∧ c = b2) := by
    intro bi c hc
    by_cases he : bi = pb
    · subst he; rw [List.getElem?_set_self hlt] at hc; right; exact ⟨rfl, by simpa using hc.symm⟩
    · left; rw [List.getElem?_set_ne (Ne.symm he)] at hc; exact ⟨he, hc⟩
  have hb2k : ∀ (k : Nat) d, b2.headers[k]? = some d →
      (b.headers[k]? = some d) ∨ (k = b.headers.length ∧ d = { hdr := h, work := w }) := by
    intro k d hk
    rw [hb21] at hk
    by_cases hc : k < b.headers.length
    · left; rw [List.getElem?_append_left hc] at hk; exact hk
    · right
      by_cases he : k = b.headers.length
      · subst he; simp at hk; exact ⟨rfl, hk.symm⟩
      · rw [List.getElem?_eq_none (by simp; omega)] at hk; cases hk
  have hheight : b.height + 1 = b.parentHeight + 1 + (b.headers.length : Int) := by
    unfold Branch.height; omega
  constructor
  · intro bi hl; rw [List.length_set] at hl; exact hi.listed bi hl
  · intro bi c hc
    rcases hget bi c hc with ⟨_, hc'⟩ | ⟨_, hcb⟩
    · exact hi.exact bi c hc'
    · subst hcb
      intro id x
      have hold := hi.exact pb b hb id x
      rw [hb23, hb22, hb21]
      simp only [HMap.get?_set]
      by_cases hid : id = h.id
      · subst hid
        simp only [↓reduceIte, Option.some.injEq]
        constructor
        · intro hx
          exact ⟨b.headers.length, { hdr := h, work := w }, by simp, rfl, by rw [← hx, hheight]⟩
        · rintro ⟨k, d, hk, hdid, hx⟩
          rcases hb2k k d (by rw [hb21]; exact hk) with hk' | ⟨rfl, _⟩
          · exact absurd hdid (hfresh pb b k d hb hk')
          · rw [hx, hheight]
      · simp only [hid, ↓reduceIte]
        rw [hold]
        constructor
        · rintro ⟨k, d, hk, hdid, hx⟩
          have hklt : k < b.headers.length := (List.getElem?_eq_some_iff.mp hk).1
          exact ⟨k, d, by rw [List.getElem?_append_left hklt]; exact hk, hdid, hx⟩
        · rintro ⟨k, d, hk, hdid, hx⟩
          rcases hb2k k d (by rw [hb21]; exact hk) with hk' | ⟨_, rfl⟩
          · exact ⟨k, d, hk', hdid, hx⟩
          · exact absurd hdid.symm hid
  · intro bi bj c c' k l d e hc hc' hk hl heq
    rcases hget bi c hc with ⟨hne, hc1⟩ | ⟨hbi, hcb⟩
    · rcases hget bj c' hc' with ⟨hne', hc1'⟩ | ⟨hbj, hcb'⟩
      · exact hi.uniq bi bj c c' k l d e hc1 hc1' hk hl heq
      · rw [hcb'] at hl
        rcases hb2k l e hl with hl' | ⟨_, he⟩
        · rw [hbj]; exact hi.uniq bi pb c b k l d e hc1 hb hk hl' heq
        · rw [he] at heq; exact absurd heq (hfresh bi c k d hc1 hk)
    · rw [hcb] at hk
      rcases hget bj c' hc' with ⟨hne', hc1'⟩ | ⟨hbj, hcb'⟩
      · rcases hb2k k d hk with hk' | ⟨_, hd⟩
        · rw [hbi]; exact hi.uniq pb bj b c' k l d e hb hc1' hk' hl heq
        · rw [hd] at heq; exact absurd heq.symm (hfresh bj c' l e hc1' hl)
      · rw [hcb'] at hl
        rcases hb2k k d hk with hk' | ⟨hkl, hd⟩
        · rcases hb2k l e hl with hl' | ⟨_, he⟩
          · exact ⟨by rw [hbi, hbj], (hi.uniq pb pb b b k l d e hb hb hk' hl' heq).2⟩
          · rw [he] at heq; exact absurd heq (hfresh pb b k d hb hk')
        · rcases hb2k l e hl with hl' | ⟨hll, _⟩
          · rw [hd] at heq; exact absurd heq.symm (hfresh pb b l e hb hl')
          · exact ⟨by rw [hbi, hbj], by rw [hkl, hll]⟩

/-- **`ProcessHeader` keeps the identity invariant** (automatic clean not due). -/
theorem idWF_processHeader (r : Repo) (h : Hdr) (ok : Bool) (hw : LinkWF r.arena) (hi : IdWF r.arena r.branches)
    (hnc : ∀ pb ph lst, precheck r h ok = .inr (pb, ph, lst) →
      Int.tmod ((r.br pb).height + 1) (Facts.autoCleanModulus : Int) ≠ 0) :
    IdWF (processHeader r h ok).1.arena (processHeader r h ok).1.branches := by
  cases processHeader_shape r h ok hnc with
  | same ha hb _ => rw [ha, hb]; exact hi
  | fork pb ph lst nb hp hne hn ha hb _ =>
    rw [ha, hb]
    obtain ⟨l2, w, _, _, rfl⟩ := newBranch_ok_shape r pb ph h nb hn
    exact idWF_fork r.arena r.branches hi pb ph h _ _ rfl (fun bi b k d hb hk => fresh_not_held r hi h.id hp.fresh bi b k d hb hk)
  | extend pb ph lst w hp hprev hlen hbw ha hb _ =>
    rw [ha, hb]
    have hbr : r.arena[pb]? = some (r.br pb) := by
      unfold Repo.br; rw [List.getElem?_eq_getElem hlen]; rfl
    exact idWF_extend r.arena r.branches hi pb (r.br pb) _ h _ rfl hbr (hw.each pb _ hbr).off
      (fun bi b k d hb hk => fresh_not_held r hi h.id hp.fresh bi b k d hb hk)

theorem idWF_submitAll (r : Repo) (hs : List (Hdr × Bool)) (hw : LinkWF r.arena) (hi : IdWF r.arena r.branches)
    (hq : NoAutoClean r hs) : IdWF (submitAll r hs).arena (submitAll r hs).branches := by
  induction hs generalizing r with
  | nil => exact hi
  | cons x xs ih =>
    obtain ⟨h1, h2⟩ := hq
    simp only [submitAll, List.foldl_cons]
    exact ih _ (linkWF_processHeader r x.1 x.2 hw h1) (idWF_processHeader r x.1 x.2 hw hi h1) h2

end BRV.Repo
