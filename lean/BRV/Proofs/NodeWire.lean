/-
Byte-accounting lemmas for C14 / C15: the deferred discard, `readMessage`, frame parsing, and the
"how did the handler end" facts (never blocked on a channel).
-/
import BRV.Proofs.NodeStep
import BRV.Spec.Wire

namespace BRV.Wire
open BRV BRV.Node BRV.Spec

/-! ### uint64 discard arithmetic -/

theorem discardLen_le (L used : Nat) (h : used ≤ L) (hL : L < two64) : discardLen L used = L - used := by
  unfold discardLen
  rw [Nat.mod_eq_of_lt hL, Nat.mod_eq_of_lt (Nat.lt_of_le_of_lt h hL)]
  have h1 : L + two64 - used = (L - used) + two64 := by omega
  rw [h1, Nat.add_mod_right]
  exact Nat.mod_eq_of_lt (Nat.lt_of_le_of_lt (Nat.sub_le _ _) hL)

/-- when the handler read MORE than the declared length the subtraction wraps: the discard asks
    for almost 2^64 bytes (it swallows whatever follows until the connection ends). -/
theorem discardLen_wrap (L used : Nat) (h : L < used) (hu : used < two64) :
    discardLen L used = two64 - (used - L) := by
  unfold discardLen
  rw [Nat.mod_eq_of_lt (Nat.lt_trans h hu), Nat.mod_eq_of_lt hu]
  have h1 : L + two64 - used = two64 - (used - L) := by omega
  rw [h1]
  exact Nat.mod_eq_of_lt (by omega)

theorem finish_exact (L avail : Nat) (o : HOut) (hu : o.used ≤ L) (hL : L < two64) (ha : L ≤ avail)
    (hr : o.res = .ok ∨ o.res = .err) : (finish L avail o).used = L ∧ (finish L avail o).res = o.res := by
  have hd := discardLen_le L o.used hu hL
  have hlt : ¬ (avail - o.used < L - o.used) := by omega
  rcases hr with h | h
  · constructor
    · show (match o.res with
        | .ok => if avail - o.used < discardLen L o.used then o.used else o.used + discardLen L o.used
        | .err => if avail - o.used < discardLen L o.used then o.used else o.used + discardLen L o.used
        | _ => o.used) = L
      rw [h]; simp only [hd, hlt, ↓reduceIte]; omega
    · show (match o.res with
        | .ok => if avail - o.used < discardLen L o.used then Res.need else Res.ok
        | .err => if avail - o.used < discardLen L o.used then Res.need else Res.err
        | r => r) = o.res
      rw [h]; simp only [hd, hlt, ↓reduceIte]
  · constructor
    · show (match o.res with
        | .ok => if avail - o.used < discardLen L o.used then o.used else o.used + discardLen L o.used
        | .err => if avail - o.used < discardLen L o.used then o.used else o.used + discardLen L o.used
        | _ => o.used) = L
      rw [h]; simp only [hd, hlt, ↓reduceIte]; omega
    · show (match o.res with
        | .ok => if avail - o.used < discardLen L o.used then Res.need else Res.ok
        | .err => if avail - o.used < discardLen L o.used then Res.need else Res.err
        | r => r) = o.res
      rw [h]; simp only [hd, hlt, ↓reduceIte]

theorem finish_other (L avail : Nat) (o : HOut) (h1 : o.res ≠ .ok) (h2 : o.res ≠ .err) :
    (finish L avail o).res = o.res ∧ (finish L avail o).used = o.used := by
  constructor
  · show (match o.res with
      | .ok => if avail - o.used < discardLen L o.used then Res.need else Res.ok
      | .err => if avail - o.used < discardLen L o.used then Res.need else Res.err
      | r => r) = o.res
    cases hr : o.res <;> simp_all
  · show (match o.res with
      | .ok => if avail - o.used < discardLen L o.used then o.used else o.used + discardLen L o.used
      | .err => if avail - o.used < discardLen L o.used then o.used else o.used + discardLen L o.used
      | _ => o.used) = o.used
    cases hr : o.res <;> simp_all

theorem finish_res_cases (L avail : Nat) (o : HOut) :
    (finish L avail o).res = o.res ∨ (finish L avail o).res = .need := by
  show (match o.res with
      | .ok => if avail - o.used < discardLen L o.used then Res.need else Res.ok
      | .err => if avail - o.used < discardLen L o.used then Res.need else Res.err
      | r => r) = o.res ∨ _ = Res.need
  cases hr : o.res <;> simp only [] <;> (try split) <;> simp_all [finish]

/-! ### "the handler consumed exactly the declared length and did not wait" -/

/-- `L` declared, all `L` bytes available: the handler ended (ok / error / stop / abort) and, when
    it ended normally, took exactly `L` bytes. -/
def Sound (L : Nat) (o : HOut) : Prop :=
  (o.res = .ok → o.used = L) ∧ o.res ≠ .need ∧ o.res ≠ .wedge

theorem readMessage_no_need (e : Env) (maxLen L : Nat) (c : Bool) (ck inp : Bytes) (h : L ≤ inp.length) :
    ∀ x, readMessage e maxLen L c ck inp = x → x ≠ .need := by
  intro x hx
  unfold readMessage at hx
  have hn : ¬ inp.length < L := by omega
  simp only [hn, ↓reduceIte] at hx
  intro hc
  rw [hc] at hx
  split at hx
  · cases hx
  · split at hx
    · cases hx
    · split at hx <;> cases hx

theorem readMessage_payload (e : Env) (maxLen L : Nat) (c : Bool) (ck inp p : Bytes)
    (h : readMessage e maxLen L c ck inp = .payload p) : p = inp.take L := by
  unfold readMessage at h
  split at h
  · split at h <;> cases h
  · split at h
    · cases h
    · split at h
      · cases h
      · simp only [] at h
        split at h
        · cases h
        · simp only [RM.payload.injEq] at h; exact h.symm

theorem sound_abort (L : Nat) (o : HOut) (h : o.res = .err ∨ o.res = .panic ∨ o.res = .stop) : Sound L o := by
  refine ⟨fun hc => ?_, fun hc => ?_, fun hc => ?_⟩ <;> rw [hc] at h <;> simp at h

theorem sound_mk (L : Nat) (o : HOut) (hu : o.used = L) (h1 : o.res ≠ .need) (h2 : o.res ≠ .wedge) : Sound L o :=
  ⟨fun _ => hu, h1, h2⟩

theorem viaReadMessage_sound (s : State) (rm : RM) (L : Nat) (k : Bytes → HOut) (hrm : rm ≠ .need)
    (hk : ∀ p, Sound L (k p)) : Sound L (viaReadMessage s rm L k) := by
  unfold viaReadMessage
  split
  · exact hk _
  · exact sound_abort _ _ (by simp)
  · exact sound_abort _ _ (by simp)
  · exact sound_abort _ _ (by simp)
  · exact absurd rfl hrm

theorem hVersion_sound (e : Env) (s : State) (L : Nat) (ck inp : Bytes) (h : L ≤ inp.length) :
    Sound L (hVersion e s L ck inp) := by
  unfold hVersion
  apply viaReadMessage_sound _ _ _ _ (readMessage_no_need e _ L _ ck inp h _ rfl)
  intro p
  split
  · exact sound_mk _ _ rfl (by simp) (by simp)
  · exact sound_abort _ _ (by simp)
  · exact sound_mk _ _ rfl (by simp) (by simp)

theorem hVerack_sound (e : Env) (s : State) (L : Nat) (ck inp : Bytes) (h : L ≤ inp.length) :
    Sound L (hVerack e s L ck inp) := by
  unfold hVerack
  apply viaReadMessage_sound _ _ _ _ (readMessage_no_need e _ L _ ck inp h _ rfl)
  intro p
  exact sound_mk _ _ rfl (by simp) (by simp)

theorem hPing_sound (e : Env) (s : State) (L : Nat) (ck inp : Bytes) (h : L ≤ inp.length) :
    Sound L (hPing e s L ck inp) := by
  unfold hPing
  apply viaReadMessage_sound _ _ _ _ (readMessage_no_need e _ L _ ck inp h _ rfl)
  intro p
  split <;> exact sound_mk _ _ rfl (by simp) (by simp)

theorem hPong_sound (e : Env) (s : State) (L : Nat) (ck inp : Bytes) (h : L ≤ inp.length) :
    Sound L (hPong e s L ck inp) := by
  unfold hPong
  apply viaReadMessage_sound _ _ _ _ (readMessage_no_need e _ L _ ck inp h _ rfl)
  intro p
  split
  · exact sound_mk _ _ rfl (by simp) (by simp)
  · split <;> exact sound_mk _ _ rfl (by simp) (by simp)

theorem hReject_sound (e : Env) (s : State) (L : Nat) (ck inp : Bytes) (h : L ≤ inp.length) :
    Sound L (hReject e s L ck inp) := by
  unfold hReject
  apply viaReadMessage_sound _ _ _ _ (readMessage_no_need e _ L _ ck inp h _ rfl)
  intro p
  split
  · exact sound_mk _ _ rfl (by simp) (by simp)
  · exact sound_abort _ _ (by simp)
  · exact sound_mk _ _ rfl (by simp) (by simp)

theorem hAddress_sound (e : Env) (s : State) (L : Nat) (ck inp : Bytes) (h : L ≤ inp.length) :
    Sound L (hAddress e s L ck inp) := by
  unfold hAddress
  apply viaReadMessage_sound _ _ _ _ (readMessage_no_need e _ L _ ck inp h _ rfl)
  intro p
  split
  · exact sound_mk _ _ rfl (by simp) (by simp)
  · exact sound_abort _ _ (by simp)
  · exact sound_mk _ _ rfl (by simp) (by simp)

theorem hTx_sound (e : Env) (s : State) (L : Nat) (c : Bool) (ck inp : Bytes) (h : L ≤ inp.length) :
    Sound L (hTx e s L c ck inp) := by
  unfold hTx
  split
  · unfold discard
    have hn : ¬ inp.length < L := by omega
    simp only [hn, ↓reduceIte]
    exact sound_mk _ _ rfl (by simp) (by simp)
  · apply viaReadMessage_sound _ _ _ _ (readMessage_no_need e _ L _ ck inp h _ rfl)
    intro p
    split
    · exact sound_mk _ _ rfl (by simp) (by simp)
    · exact sound_abort _ _ (by simp)
    · exact sound_mk _ _ rfl (by simp) (by simp)

/-- a sound body whose own reads stay within `L` stays sound (and exact) after the deferred discard. -/
theorem finish_sound (L avail : Nat) (o : HOut) (hL : L < two64) (ha : L ≤ avail)
    (hu : o.used ≤ L) (h1 : o.res ≠ .need) (h2 : o.res ≠ .wedge) : Sound L (finish L avail o) := by
  by_cases hr : o.res = .ok ∨ o.res = .err
  · have := finish_exact L avail o hu hL ha hr
    refine ⟨fun _ => this.1, ?_, ?_⟩ <;> rw [this.2]
    · exact h1
    · exact h2
  · have hh : o.res ≠ .ok ∧ o.res ≠ .err := by
      constructor <;> intro hc <;> exact hr (by simp [hc])
    have := finish_other L avail o hh.1 hh.2
    refine ⟨fun hc => ?_, ?_, ?_⟩
    · rw [this.1] at hc; exact absurd hc hh.1
    · rw [this.1]; exact h1
    · rw [this.1]; exact h2

theorem viaReadMessage_used_le (s : State) (rm : RM) (L : Nat) (k : Bytes → HOut)
    (hk : ∀ p, (k p).used ≤ L) : (viaReadMessage s rm L k).used ≤ L := by
  unfold viaReadMessage
  split
  · exact hk _
  all_goals simp

theorem finish_sound' (L avail : Nat) (o : HOut) (hL : L < two64) (ha : L ≤ avail)
    (hs : Sound L o) (hu : o.used ≤ L) : Sound L (finish L avail o) :=
  finish_sound L avail o hL ha hu hs.2.1 hs.2.2

theorem hProtoconf_sound (e : Env) (s : State) (L : Nat) (ck inp : Bytes) (h : L ≤ inp.length)
    (hL : L < two64) : Sound L (hProtoconf e s L ck inp) := by
  unfold hProtoconf
  apply finish_sound' L _ _ hL h
  · apply viaReadMessage_sound _ _ _ _ (readMessage_no_need e _ L _ ck inp h _ rfl)
    intro p
    split
    · exact sound_mk _ _ rfl (by simp) (by simp)
    · exact sound_abort _ _ (by simp)
    · simp only []
      split <;> exact sound_mk _ _ rfl (by simp) (by simp)
  · apply viaReadMessage_used_le
    intro p
    split
    · exact Nat.le_refl _
    · exact Nat.zero_le _
    · simp only []
      split <;> exact Nat.le_refl _

/-! ### nobody blocks on the handshake channel any more -/

def NoWedge (o : HOut) : Prop := o.res ≠ .wedge

theorem viaReadMessage_nowedge (s : State) (rm : RM) (L : Nat) (k : Bytes → HOut)
    (hk : ∀ p, NoWedge (k p)) : NoWedge (viaReadMessage s rm L k) := by
  unfold viaReadMessage
  split
  · exact hk _
  all_goals (unfold NoWedge; simp)

theorem finish_nowedge (L a : Nat) (o : HOut) (h : NoWedge o) : NoWedge (finish L a o) := by
  unfold NoWedge at *
  rcases finish_res_cases L a o with hr | hr <;> rw [hr]
  · exact h
  · simp

theorem withAlt_res (e : Env) (s : State) (inp : Bytes) (o : HOut) : (withAlt e s inp o).res = o.res := by
  unfold withAlt
  split
  · split <;> rfl
  · rfl

theorem trackLoop_nowedge (e : Env) (s : State) (k : Nat) (b : Bytes) (used : Nat) (fx : List Effect) :
    NoWedge (trackLoop e s k b used fx) := by
  induction k generalizing b used fx with
  | zero => unfold trackLoop NoWedge; simp
  | succ k ih =>
    unfold trackLoop
    split
    · unfold NoWedge; simp
    · unfold NoWedge; simp
    · simp only []
      split
      · unfold NoWedge; simp
      · split
        · exact ih _ _ _
        · unfold NoWedge; simp

theorem invLoop_nowedge (s : State) (k : Nat) (b : Bytes) (used : Nat) (fx : List Effect) (pending : Nat) :
    NoWedge (invLoop s k b used fx pending) := by
  induction k generalizing s b used fx pending with
  | zero => unfold invLoop NoWedge; simp
  | succ k ih =>
    unfold invLoop
    split
    · unfold NoWedge; simp
    · unfold NoWedge; simp
    · simp only []
      split
      · exact ih _ _ _ _ _
      · split
        · exact ih _ _ _ _ _
        · split <;> exact ih _ _ _ _ _

theorem hTx_nowedge (e : Env) (s : State) (L : Nat) (c : Bool) (ck inp : Bytes) :
    NoWedge (hTx e s L c ck inp) := by
  unfold hTx
  split
  · split <;> (unfold NoWedge; simp)
  · apply viaReadMessage_nowedge
    intro p
    split <;> (unfold NoWedge; simp)

theorem hBlock_nowedge (e : Env) (s : State) (L : Nat) (inp : Bytes) : NoWedge (hBlock e s L inp) := by
  unfold hBlock
  apply finish_nowedge
  split
  · unfold NoWedge; simp
  · unfold NoWedge; simp
  · simp only []
    split
    · unfold NoWedge; simp
    · split
      · unfold NoWedge; simp
      · split
        · unfold NoWedge; simp
        · split
          · unfold NoWedge; simp
          · unfold NoWedge; simp
          · split <;> (unfold NoWedge; simp)

theorem dispatch_nowedge (e : Env) (s : State) (h : Handler) (L : Nat) (ck body : Bytes) :
    NoWedge (dispatch e s h L ck body) := by
  cases h <;> simp only [dispatch]
  · unfold hVersion; apply viaReadMessage_nowedge; intro p; split <;> (unfold NoWedge; simp)
  · unfold hVerack; apply viaReadMessage_nowedge; intro p; unfold NoWedge; simp
  · unfold hHeadersVerify
    split
    · unfold NoWedge; simp
    · apply finish_nowedge
      unfold hHeadersVerifyBody
      split
      · unfold NoWedge; simp
      · unfold NoWedge; simp
      · simp only []
        split
        · unfold NoWedge; simp
        · split
          · unfold NoWedge; simp
          · unfold NoWedge; simp
          · split
            · unfold NoWedge; simp
            · split
              · unfold NoWedge; simp only []; split <;> simp
              · unfold NoWedge; simp
  · unfold hHeadersTrack
    split
    · unfold NoWedge; simp
    · unfold NoWedge
      rw [withAlt_res]
      apply finish_nowedge
      unfold hHeadersTrackBody
      split
      · unfold NoWedge; simp
      · unfold NoWedge; simp
      · exact trackLoop_nowedge _ _ _ _ _ _
  · unfold hProtoconf
    apply finish_nowedge
    apply viaReadMessage_nowedge
    intro p
    split
    · unfold NoWedge; simp
    · unfold NoWedge; simp
    · simp only []; split <;> (unfold NoWedge; simp)
  · unfold hPing; apply viaReadMessage_nowedge; intro p; split <;> (unfold NoWedge; simp)
  · unfold hPong; apply viaReadMessage_nowedge; intro p
    split
    · unfold NoWedge; simp
    · split <;> (unfold NoWedge; simp)
  · unfold hReject; apply viaReadMessage_nowedge; intro p; split <;> (unfold NoWedge; simp)
  · unfold hExtended
    split
    · unfold NoWedge; simp
    · unfold NoWedge; simp
    · split
      · unfold NoWedge; simp
      · unfold NoWedge; simp
      · show NoWedge _
        unfold NoWedge
        simp only []
        apply finish_nowedge
        split
        · unfold NoWedge; simp
        · split
          · split
            · exact hBlock_nowedge _ _ _ _
            · unfold NoWedge; simp
          · split
            · split
              · exact hTx_nowedge _ _ _ _ _ _
              · unfold NoWedge; simp
            · unfold NoWedge; simp
  · unfold hAddress; apply viaReadMessage_nowedge; intro p; split <;> (unfold NoWedge; simp)
  · unfold hGetAddresses NoWedge; simp
  · unfold hInventory
    split
    · unfold NoWedge; simp
    · unfold NoWedge; simp
    · exact invLoop_nowedge _ _ _ _ _ _
  · exact hTx_nowedge _ _ _ _ _ _
  · exact hBlock_nowedge _ _ _ _

end BRV.Wire
