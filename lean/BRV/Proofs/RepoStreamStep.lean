/-
One submission: the announcement applied to the previous best chain gives the new best chain.
-/
import BRV.Proofs.RepoNoError

namespace BRV.Repo

/-- the state right after the new branch was appended (before the most-work branch is reselected). -/
def forked (r : Repo) (h : Hdr) (ph : Int) (nb : Branch) : Repo :=
  { r with arena := r.arena ++ [nb], branches := r.branches ++ [r.arena.length], heights := r.heights.set h.id (ph + 1) }

inductive Outcome (r1 : Repo) (single : List Hdr) : Repo × StepOut → Prop
  | crash (m : String) (hr : reselect r1 = .error (r1, { verdict := .panic m })) :
      Outcome r1 single (r1, { verdict := .panic m })
  | sendErr (evs : List Hdr) (e : String) (hr : reselect r1 = .error (r1, { verdict := .err e, events := evs })) :
      Outcome r1 single (r1, { verdict := .err e, events := evs })
  | stay : Outcome r1 single (r1, { verdict := .ok, events := single })
  | switch (lg : Nat) (evs : List Hdr) (hne : lg ≠ r1.longest) (hmem : lg ∈ r1.branches)
      (hr : reselect r1 = .ok ({ r1 with longest := lg }, true, evs)) :
      Outcome r1 single ({ r1 with longest := lg }, { verdict := .ok, events := evs })

theorem fork_outcome (r : Repo) (h : Hdr) (pb : Nat) (ph : Int) (nb : Branch)
    (hn : newBranch r (some pb) ph h = .ok nb) : Outcome (forked r h ph nb) [] (forkHeader r h pb ph) := by
  unfold forkHeader
  rw [hn]
  simp only
  have hc := reselect_cases (forked r h ph nb)
  unfold forked at hc ⊢
  generalize hres : reselect _ = res at hc ⊢
  cases hc with
  | crash m => exact .crash m hres
  | sendErr evs e => exact .sendErr evs e hres
  | stay => exact .stay
  | switch lg evs hne hlg => exact .switch lg evs hne (longestOf_spec _ _ _ hlg).1 hres

theorem extend_outcome_longest (r : Repo) (h : Hdr) (ph : Int) (lst : HData) (w : Nat)
    (hbw : Work.blockWork h.bits = some w) (hlast : r.lastOf r.longest = some lst)
    (hnc : Int.tmod ((r.br r.longest).height + 1) (Facts.autoCleanModulus : Int) ≠ 0) :
    extendHeader r h r.longest ph lst = (addToBranch r h r.longest ph lst w, { verdict := .ok, events := [h] }) := by
  unfold extendHeader
  rw [hbw]
  have e : (addToBranch r h r.longest ph lst w).longest = r.longest := rfl
  have hh := addToBranch_height r h r.longest ph lst w hlast
  simp only [e, ne_eq, not_true_eq_false, ↓reduceIte, hh, hnc, Bool.false_eq_true]

theorem extend_outcome_side (r : Repo) (h : Hdr) (pb : Nat) (ph : Int) (lst : HData) (w : Nat)
    (hbw : Work.blockWork h.bits = some w) (hlast : r.lastOf pb = some lst) (hpl : pb ≠ r.longest)
    (hnc : Int.tmod ((r.br pb).height + 1) (Facts.autoCleanModulus : Int) ≠ 0) :
    Outcome (addToBranch r h pb ph lst w) [] (extendHeader r h pb ph lst) := by
  unfold extendHeader
  rw [hbw]
  have hl : (addToBranch r h pb ph lst w).longest = r.longest := rfl
  simp only [hl, hpl, ne_eq, not_false_eq_true, ↓reduceIte]
  have hc := reselect_cases (addToBranch r h pb ph lst w)
  generalize hres : reselect _ = res at hc ⊢
  cases hc with
  | crash m => exact .crash m hres
  | sendErr evs e => exact .sendErr evs e hres
  | stay =>
    simp only [hl, hpl, ↓reduceIte]
    exact .stay
  | switch lg evs hne hlg =>
    have hmem := (longestOf_spec _ _ _ hlg).1
    by_cases hpg : pb = lg
    · subst hpg
      have hh := addToBranch_height r h pb ph lst w hlast
      simp only [Repo.br] at hh hnc ⊢
      simp only [↓reduceIte, hh, hnc]
      exact .switch pb evs hne hmem hres
    · simp only [hpg, ↓reduceIte]
      exact .switch lg evs hne hmem hres

/-- extending the best branch appends the header to its chain. -/
theorem isChain_extend (r : Repo) (hs : StreamWF r) (h : Hdr) (ph : Int) (lst : HData) (w : Nat)
    (hlast : r.lastOf r.longest = some lst)
    (hw' : LinkWF (addToBranch r h r.longest ph lst w).arena)
    (cOld : List Hdr) (hold : IsChain r.arena r.longest cOld) :
    IsChain (addToBranch r h r.longest ph lst w).arena r.longest (cOld ++ [h]) := by
  have hw := hs.chain.wf.link
  obtain ⟨b, hb, hlen, hidx⟩ := hold
  have hlt : r.longest < r.arena.length := getElem?_lt _ _ _ hb
  have hbr : r.br r.longest = b := by unfold Repo.br; rw [hb]; rfl
  obtain ⟨b2, harena, h21, h22, h23, h24⟩ : ∃ b2 : Branch,
      (addToBranch r h r.longest ph lst w).arena = r.arena.set r.longest b2 ∧
      b2.headers = b.headers ++ [{ hdr := h, work := lst.work + w }] ∧ b2.parentHeight = b.parentHeight ∧
      b2.offset = b.offset ∧ b2.parent = b.parent := by
    unfold addToBranch Repo.setBranch
    simp only [hbr]
    exact ⟨_, rfl, rfl, rfl, rfl, rfl⟩
  rw [harena] at hw' ⊢
  have hget : (r.arena.set r.longest b2)[r.longest]? = some b2 := List.getElem?_set_self hlt
  have hheight : b2.height = b.height + 1 := by
    unfold Branch.height
    rw [h21, h22, h23]
    simp only [List.length_append, List.length_cons, List.length_nil]
    omega
  refine ⟨b2, hget, by rw [hheight]; simp only [List.length_append, List.length_cons, List.length_nil]; omega, ?_⟩
  intro k hk
  simp only [List.length_append, List.length_cons, List.length_nil] at hk
  by_cases hk1 : k < cOld.length
  · obtain ⟨d, hd, hc⟩ := hidx k hk1
    exact ⟨d, atH_set_extend r.arena hw.dec r.longest b b2 _ hb h24 h22 h23 h21 r.longest _ d hd,
      by rw [List.getElem?_append_left hk1]; exact hc⟩
  · have hke : k = cOld.length := by omega
    subst hke
    have hlast2 : b2.last? = some { hdr := h, work := lst.work + w } := by
      unfold Branch.last?; rw [h21]; simp
    have := atH_tip _ hw' r.longest b2 hget _ hlast2
    refine ⟨{ hdr := h, work := lst.work + w }, ?_, by simp⟩
    have e : ((cOld.length : Nat) : Int) = b2.height := by omega
    rw [e]; exact this

/-- **one submission: the announcement rebuilds the best chain.** In a repository reached by
    submissions from genesis, for ANY submitted header and ANY outcome: applying the headers announced by `ProcessHeader` to the best chain before
    the submission gives exactly the best chain after it (nothing announced ⇒ unchanged; one header
    on extension; the new chain above the fork point on a reorganisation). -/
theorem stream_step (r : Repo) (h : Hdr) (ok : Bool) (hs : StreamWF r)
    (hnc : ∀ pb ph lst, precheck r h ok = .inr (pb, ph, lst) →
      Int.tmod ((r.br pb).height + 1) (Facts.autoCleanModulus : Int) ≠ 0)
    (cOld cNew : List Hdr) (hold : IsChain r.arena r.longest cOld)
    (hnew : IsChain (processHeader r h ok).1.arena (processHeader r h ok).1.longest cNew) :
    Spec.applyStream cOld (processHeader r h ok).2.events = cNew := by
  have hF := streamWF_processHeader r h ok hs hnc
  have hw := hs.chain.wf.link
  have holdlt : r.longest < r.arena.length := by
    obtain ⟨b, hb, _, _⟩ := hold
    exact getElem?_lt _ _ _ hb
  cases hpc : precheck r h ok with
  | inl v =>
    rw [processHeader_of_inl r h ok v hpc] at hnew ⊢
    exact isChain_unique _ _ _ _ hold hnew
  | inr x =>
    obtain ⟨pb, ph, lst⟩ := x
    have hpass := precheck_inr r h ok pb ph lst hpc
    have hnc' := hnc pb ph lst hpc
    rw [processHeader_of_inr r h ok pb ph lst hpc] at hnew hF ⊢
    unfold applyHeader at hnew hF ⊢
    by_cases hf : lst.hdr.id ≠ h.prev
    · simp only [hf, ne_eq, not_false_eq_true, ↓reduceIte] at hnew hF ⊢
      cases hn : newBranch r (some pb) ph h with
      | error v =>
        have e : forkHeader r h pb ph = (r, { verdict := v }) := by unfold forkHeader; rw [hn]
        rw [e] at hnew ⊢
        exact isChain_unique _ _ _ _ hold hnew
      | ok nb =>
        have hout := fork_outcome r h pb ph nb hn
        have hold1 : IsChain (forked r h ph nb).arena r.longest cOld :=
          isChain_transfer _ _ _ _ hold
            (by intro b hb
                exact ⟨b, by show (r.arena ++ [nb])[r.longest]? = some b
                             rw [List.getElem?_append_left holdlt]; exact hb, rfl⟩)
            (by intro k d hd
                show atH (r.arena ++ [nb]) r.longest k = some d
                rw [atH_append r.arena hw.dec nb r.longest holdlt]; exact hd)
        have hlv1 : (forked r h ph nb).longest < (forked r h ph nb).arena.length := by
          show r.longest < (r.arena ++ [nb]).length
          simp only [List.length_append, List.length_cons, List.length_nil]; omega
        generalize forkHeader r h pb ph = res at hout hnew hF
        cases hout with
        | crash m hr => exact absurd hr (reselect_never_fails _ hF hlv1 _)
        | sendErr evs e hr => exact absurd hr (reselect_never_fails _ hF hlv1 _)
        | stay => exact isChain_unique _ _ _ _ hold1 hnew
        | switch lg evs hne hmem hr =>
          have hs1 : StreamWF (forked r h ph nb) := by refine streamWF_congr _ _ ?_ ?_ ?_ hF <;> rfl
          exact reselect_reorg_stream (forked r h ph nb) hs1.chain _ evs hs1.below hr cOld cNew hold1 hnew
    · simp only [hf, ↓reduceIte] at hnew hF ⊢
      have hprev : lst.hdr.id = h.prev := by simpa using hf
      cases hbw : Work.blockWork h.bits with
      | none =>
        have e : extendHeader r h pb ph lst = (r, { verdict := .panic "Add: ConvertToDifficulty" }) := by
          unfold extendHeader; rw [hbw]
        rw [e] at hnew ⊢
        exact isChain_unique _ _ _ _ hold hnew
      | some w =>
        by_cases hpl : pb = r.longest
        · subst hpl
          rw [extend_outcome_longest r h ph lst w hbw hpass.lastIs hnc'] at hnew hF ⊢
          simp only at hnew hF ⊢
          have hnew2 := isChain_extend r hs h ph lst w hpass.lastIs hF.chain.wf.link cOld hold
          have hcn : cNew = cOld ++ [h] := isChain_unique _ _ _ _ hnew hnew2
          rw [hcn]
          -- the old chain ends in the parent of `h`
          obtain ⟨b, hb, hlen, hidx⟩ := hold
          have hl := hw.each r.longest b hb
          have hge := parentHeight_ge r.arena hw hs.chain.root hs.chain.owns r.longest b hb
          have hhe := branch_height_eq b hl.off
          have hne0 : b.headers.length ≠ 0 := by
            intro h0; exact hl.nonempty (List.length_eq_zero_iff.mp h0)
          have hpos : 0 < cOld.length := by omega
          obtain ⟨dl, hdl, hcl⟩ := hidx (cOld.length - 1) (by omega)
          have hbr : r.br r.longest = b := by unfold Repo.br; rw [hb]; rfl
          have hlast : b.last? = some lst := by rw [← hbr]; exact hpass.lastIs
          have htip := atH_tip r.arena hw r.longest b hb lst hlast
          have e1 : ((cOld.length - 1 : Nat) : Int) = b.height := by omega
          rw [e1, htip] at hdl
          simp only [Option.some.injEq] at hdl
          subst hdl
          have hsplit := split_at cOld (cOld.length - 1) lst.hdr hcl
          have hdrop : cOld.drop (cOld.length - 1 + 1) = [] := List.drop_eq_nil_of_le (by omega)
          rw [hdrop] at hsplit
          have hnd := isChain_nodup _ hF.chain.wf.link _ hF.chain.wf.ids _ _ hnew2
          rw [hsplit] at hnd ⊢
          simp only [List.append_nil] at hnd ⊢
          have key := Spec.applyStream_reorg (cOld.take (cOld.length - 1)) lst.hdr [] [h] ⟨hprev.symm, trivial⟩ hnd (by simp)
          simpa using key
        · have hout := extend_outcome_side r h pb ph lst w hbw hpass.lastIs hpl hnc'
          have hlenpb : pb < r.arena.length := by
            have hlast := hpass.lastIs
            unfold Repo.lastOf Repo.br Branch.last? at hlast
            by_cases hc : pb < r.arena.length
            · exact hc
            · rw [List.getElem?_eq_none (by omega)] at hlast
              simp only [Option.getD_none] at hlast
              cases hlast
          have hbr : r.arena[pb]? = some (r.br pb) := by
            unfold Repo.br; rw [List.getElem?_eq_getElem hlenpb]; rfl
          have hold1 : IsChain (addToBranch r h pb ph lst w).arena r.longest cOld :=
            isChain_transfer _ _ _ _ hold
              (by intro b hb
                  exact ⟨b, by unfold addToBranch Repo.setBranch
                               simp only
                               rw [List.getElem?_set_ne hpl]; exact hb, rfl⟩)
              (by intro k d hd
                  unfold addToBranch Repo.setBranch
                  simp only
                  refine atH_set_extend r.arena hw.dec pb (r.br pb) _ { hdr := h, work := lst.work + w } hbr
                    ?_ ?_ ?_ ?_ r.longest k d hd <;> rfl)
          have hlv1 : (addToBranch r h pb ph lst w).longest < (addToBranch r h pb ph lst w).arena.length := by
            unfold addToBranch Repo.setBranch
            simp only [List.length_set]; exact holdlt
          generalize extendHeader r h pb ph lst = res at hout hnew hF
          cases hout with
          | crash m hr => exact absurd hr (reselect_never_fails _ hF hlv1 _)
          | sendErr evs e hr => exact absurd hr (reselect_never_fails _ hF hlv1 _)
          | stay => exact isChain_unique _ _ _ _ hold1 hnew
          | switch lg evs hne hmem hr =>
            have hs1 : StreamWF (addToBranch r h pb ph lst w) := by refine streamWF_congr _ _ ?_ ?_ ?_ hF <;> rfl
            exact reselect_reorg_stream (addToBranch r h pb ph lst w) hs1.chain _ evs hs1.below hr cOld cNew hold1 hnew

/-! ### a header that passes every check is accepted -/

/-- **no internal failure after the checks.** In a repository reached by submissions from genesis,
    a header that passes `precheck` is added and the answer is `ok`: the new branch finds its parent
    header, the work conversion succeeds, and the reselection of the most-work branch cannot fail. -/
theorem passed_verdict_ok (r : Repo) (h : Hdr) (ok : Bool) (hs : StreamWF r) (hlv : r.longest < r.arena.length)
    (hnc : ∀ pb ph lst, precheck r h ok = .inr (pb, ph, lst) →
      Int.tmod ((r.br pb).height + 1) (Facts.autoCleanModulus : Int) ≠ 0)
    (pb : Nat) (ph : Int) (lst : HData) (hpc : precheck r h ok = .inr (pb, ph, lst)) :
    (processHeader r h ok).2.verdict = .ok := by
  have hF := streamWF_processHeader r h ok hs hnc
  have hw := hs.chain.wf.link
  have hpass := precheck_inr r h ok pb ph lst hpc
  have hnc' := hnc pb ph lst hpc
  obtain ⟨w, hbw⟩ : ∃ w, Work.blockWork h.bits = some w := by
    have := Work.convertToDifficulty_some_of_valid h.bits hpass.bitsOk
    obtain ⟨d, hd⟩ := Option.isSome_iff_exists.mp this
    exact ⟨_, by unfold Work.blockWork; rw [hd]; rfl⟩
  rw [processHeader_of_inr r h ok pb ph lst hpc] at hF ⊢
  unfold applyHeader at hF ⊢
  by_cases hf : lst.hdr.id ≠ h.prev
  · simp only [hf, ne_eq, not_false_eq_true, ↓reduceIte] at hF ⊢
    -- the new branch is created
    have hown := branchesFind_owner r hw hs.chain.wf.ids hs.chain.wf.list h.prev pb ph hpass.parent
    obtain ⟨d, hd, hid⟩ := heldAt_atH r.arena hw pb h.prev ph hown
    have hpb : pb < r.arena.length := atHeight_some_lt _ _ _ _ _ hd
    have hat : r.at pb ph = some d := by rw [Repo.at_eq_atH r hw.dec pb hpb]; exact hd
    obtain ⟨nb, hn⟩ : ∃ nb, newBranch r (some pb) ph h = .ok nb := by
      unfold newBranch
      simp only [hat, hid, ne_eq, not_true_eq_false, ↓reduceIte, hbw]
      exact ⟨_, rfl⟩
    have hout := fork_outcome r h pb ph nb hn
    have hlv1 : (forked r h ph nb).longest < (forked r h ph nb).arena.length := by
      show r.longest < (r.arena ++ [nb]).length
      simp only [List.length_append, List.length_cons, List.length_nil]; omega
    generalize forkHeader r h pb ph = res at hout hF
    cases hout with
    | crash m hr => exact absurd hr (reselect_never_fails _ hF hlv1 _)
    | sendErr evs e hr => exact absurd hr (reselect_never_fails _ hF hlv1 _)
    | stay => rfl
    | switch lg evs hne hmem hr => rfl
  · simp only [hf, ↓reduceIte] at hF ⊢
    by_cases hpl : pb = r.longest
    · subst hpl
      rw [extend_outcome_longest r h ph lst w hbw hpass.lastIs hnc']
    · have hout := extend_outcome_side r h pb ph lst w hbw hpass.lastIs hpl hnc'
      have hlv1 : (addToBranch r h pb ph lst w).longest < (addToBranch r h pb ph lst w).arena.length := by
        unfold addToBranch Repo.setBranch
        simp only [List.length_set]; exact hlv
      generalize extendHeader r h pb ph lst = res at hout hF
      cases hout with
      | crash m hr => exact absurd hr (reselect_never_fails _ hF hlv1 _)
      | sendErr evs e hr => exact absurd hr (reselect_never_fails _ hF hlv1 _)
      | stay => rfl
      | switch lg evs hne hmem hr => rfl

/-- what the state looks like after a header passed the checks: the forest, the branch list and the
    heights map are those of `forked` (new branch) or of `addToBranch` (extension). -/
theorem passed_state (r : Repo) (h : Hdr) (ok : Bool) (hs : StreamWF r) (hlv : r.longest < r.arena.length)
    (hnc : ∀ pb ph lst, precheck r h ok = .inr (pb, ph, lst) →
      Int.tmod ((r.br pb).height + 1) (Facts.autoCleanModulus : Int) ≠ 0)
    (pb : Nat) (ph : Int) (lst : HData) (hpc : precheck r h ok = .inr (pb, ph, lst)) :
    ∃ r1 : Repo, ((∃ nb, newBranch r (some pb) ph h = .ok nb ∧ r1 = forked r h ph nb) ∨
        (∃ w, Work.blockWork h.bits = some w ∧ lst.hdr.id = h.prev ∧ r1 = addToBranch r h pb ph lst w)) ∧
      (processHeader r h ok).1.arena = r1.arena ∧ (processHeader r h ok).1.branches = r1.branches ∧
      (processHeader r h ok).1.heights = r1.heights ∧
      (processHeader r h ok).1.disableDifficulty = r.disableDifficulty := by
  have hF := streamWF_processHeader r h ok hs hnc
  have hw := hs.chain.wf.link
  have hpass := precheck_inr r h ok pb ph lst hpc
  have hnc' := hnc pb ph lst hpc
  obtain ⟨w, hbw⟩ : ∃ w, Work.blockWork h.bits = some w := by
    have := Work.convertToDifficulty_some_of_valid h.bits hpass.bitsOk
    obtain ⟨d, hd⟩ := Option.isSome_iff_exists.mp this
    exact ⟨_, by unfold Work.blockWork; rw [hd]; rfl⟩
  rw [processHeader_of_inr r h ok pb ph lst hpc] at hF ⊢
  unfold applyHeader at hF ⊢
  by_cases hf : lst.hdr.id ≠ h.prev
  · simp only [hf, ne_eq, not_false_eq_true, ↓reduceIte] at hF ⊢
    have hown := branchesFind_owner r hw hs.chain.wf.ids hs.chain.wf.list h.prev pb ph hpass.parent
    obtain ⟨d, hd, hid⟩ := heldAt_atH r.arena hw pb h.prev ph hown
    have hpb : pb < r.arena.length := atHeight_some_lt _ _ _ _ _ hd
    have hat : r.at pb ph = some d := by rw [Repo.at_eq_atH r hw.dec pb hpb]; exact hd
    obtain ⟨nb, hn⟩ : ∃ nb, newBranch r (some pb) ph h = .ok nb := by
      unfold newBranch
      simp only [hat, hid, ne_eq, not_true_eq_false, ↓reduceIte, hbw]
      exact ⟨_, rfl⟩
    have hout := fork_outcome r h pb ph nb hn
    have hlv1 : (forked r h ph nb).longest < (forked r h ph nb).arena.length := by
      show r.longest < (r.arena ++ [nb]).length
      simp only [List.length_append, List.length_cons, List.length_nil]; omega
    refine ⟨forked r h ph nb, Or.inl ⟨nb, hn, rfl⟩, ?_⟩
    generalize forkHeader r h pb ph = res at hout hF
    cases hout with
    | crash m hr => exact absurd hr (reselect_never_fails _ hF hlv1 _)
    | sendErr evs e hr => exact absurd hr (reselect_never_fails _ hF hlv1 _)
    | stay => exact ⟨rfl, rfl, rfl, rfl⟩
    | switch lg evs hne hmem hr => exact ⟨rfl, rfl, rfl, rfl⟩
  · simp only [hf, ↓reduceIte] at hF ⊢
    have hprev : lst.hdr.id = h.prev := by simpa using hf
    refine ⟨addToBranch r h pb ph lst w, Or.inr ⟨w, hbw, hprev, rfl⟩, ?_⟩
    by_cases hpl : pb = r.longest
    · subst hpl
      rw [extend_outcome_longest r h ph lst w hbw hpass.lastIs hnc']
      exact ⟨rfl, rfl, rfl, rfl⟩
    · have hout := extend_outcome_side r h pb ph lst w hbw hpass.lastIs hpl hnc'
      have hlv1 : (addToBranch r h pb ph lst w).longest < (addToBranch r h pb ph lst w).arena.length := by
        unfold addToBranch Repo.setBranch
        simp only [List.length_set]; exact hlv
      generalize extendHeader r h pb ph lst = res at hout hF
      cases hout with
      | crash m hr => exact absurd hr (reselect_never_fails _ hF hlv1 _)
      | sendErr evs e hr => exact absurd hr (reselect_never_fails _ hF hlv1 _)
      | stay => exact ⟨rfl, rfl, rfl, rfl⟩
      | switch lg evs hne hmem hr => exact ⟨rfl, rfl, rfl, rfl⟩

/-- a header held by a listed branch is found by `Branches.Find`. -/
theorem branchesFind_of_held (r : Repo) (hi : IdWF r.arena r.branches) (bj id : Nat) (x : Int)
    (hh : HeldAt r.arena bj id x) : (r.branchesFind id).isSome = true := by
  obtain ⟨b, k, d, hb, hk, hid, hx⟩ := hh
  have hlt : bj < r.arena.length := getElem?_lt _ _ _ hb
  unfold Repo.branchesFind
  rw [List.findSome?_isSome_iff]
  refine ⟨bj, hi.listed bj hlt, ?_⟩
  have hg := ((hi.exact bj b hb) id x).mpr ⟨k, d, hk, hid, hx⟩
  unfold Repo.find Repo.fuel bfind
  simp only [hb, hg]
  rfl

/-- **an accepted header is held afterwards** (at one above its parent's height), and so is its parent. -/
theorem passed_then_held (r : Repo) (h : Hdr) (ok : Bool) (hs : StreamWF r) (hlv : r.longest < r.arena.length)
    (hnc : ∀ pb ph lst, precheck r h ok = .inr (pb, ph, lst) →
      Int.tmod ((r.br pb).height + 1) (Facts.autoCleanModulus : Int) ≠ 0)
    (pb : Nat) (ph : Int) (lst : HData) (hpc : precheck r h ok = .inr (pb, ph, lst)) :
    (∃ bj, HeldAt (processHeader r h ok).1.arena bj h.id (ph + 1)) ∧
    (∃ bj, HeldAt (processHeader r h ok).1.arena bj h.prev ph) := by
  have hF := streamWF_processHeader r h ok hs hnc
  have hw := hs.chain.wf.link
  have hpass := precheck_inr r h ok pb ph lst hpc
  have hown := branchesFind_owner r hw hs.chain.wf.ids hs.chain.wf.list h.prev pb ph hpass.parent
  obtain ⟨r1, hcase, ha, hb, hh, _⟩ := passed_state r h ok hs hlv hnc pb ph lst hpc
  rw [ha]
  rcases hcase with ⟨nb, hn, rfl⟩ | ⟨w, hbw, hprev, rfl⟩
  · obtain ⟨l2, w, _, _, hnb⟩ := newBranch_ok_shape r pb ph h nb hn
    constructor
    · refine ⟨r.arena.length, ?_⟩
      have := heldAt_new r.arena nb { hdr := h, work := l2.work + w } (by rw [hnb]; rfl)
      rw [hnb] at this ⊢
      exact this
    · exact ⟨pb, heldAt_append r.arena nb pb h.prev ph hown⟩
  · have hlen : pb < r.arena.length := by obtain ⟨b, _, _, hb', _⟩ := hown; exact getElem?_lt _ _ _ hb'
    have hbr : r.arena[pb]? = some (r.br pb) := by
      unfold Repo.br; rw [List.getElem?_eq_getElem hlen]; rfl
    -- `ph` is the height of the branch
    have hlast : (r.br pb).headers[(r.br pb).headers.length - 1]? = some lst := getLast?_getElem? _ _ hpass.lastIs
    have hne0 : (r.br pb).headers.length ≠ 0 := by
      intro h0; rw [List.getElem?_eq_none (by omega)] at hlast; cases hlast
    have hheld2 : HeldAt r.arena pb h.prev ((r.br pb).parentHeight + 1 + (((r.br pb).headers.length - 1 : Nat) : Int)) :=
      ⟨r.br pb, _, lst, hbr, hlast, hprev, rfl⟩
    obtain ⟨_, hph⟩ := heldAt_unique r.arena r.branches hs.chain.wf.ids pb pb h.prev _ _ hown hheld2
    constructor
    · refine ⟨pb, ((r.br pb).pushed { hdr := h, work := lst.work + w }), (r.br pb).headers.length,
        { hdr := h, work := lst.work + w }, ?_, by simp, rfl, ?_⟩
      · rw [addToBranch_arena, List.getElem?_set_self hlen]
      · simp only; rw [hph]; omega
    · refine ⟨pb, ?_⟩
      rw [addToBranch_arena]
      refine heldAt_set r.arena pb (r.br pb) _ { hdr := h, work := lst.work + w } hbr ?_ ?_ pb h.prev ph hown <;> rfl

/-! ### what is held stays held -/

theorem heldAt_processHeader (r : Repo) (h : Hdr) (ok : Bool)
    (hnc : ∀ pb ph lst, precheck r h ok = .inr (pb, ph, lst) →
      Int.tmod ((r.br pb).height + 1) (Facts.autoCleanModulus : Int) ≠ 0)
    (bj id : Nat) (x : Int) (hh : HeldAt r.arena bj id x) : HeldAt (processHeader r h ok).1.arena bj id x := by
  cases processHeader_shape r h ok hnc with
  | same ha hb _ => rw [ha]; exact hh
  | fork pb ph lst nb hp hne hn ha hb _ => rw [ha]; exact heldAt_append r.arena nb bj id x hh
  | extend pb ph lst w hp hprev hlen hbw ha hb _ =>
    rw [ha]
    have hbr : r.arena[pb]? = some (r.br pb) := by
      unfold Repo.br; rw [List.getElem?_eq_getElem hlen]; rfl
    refine heldAt_set r.arena pb (r.br pb) _ { hdr := h, work := lst.work + w } hbr ?_ ?_ bj id x hh <;> rfl

theorem heldAt_submitAll (r : Repo) (hs : List (Hdr × Bool)) (hq : NoAutoClean r hs)
    (bj id : Nat) (x : Int) (hh : HeldAt r.arena bj id x) : HeldAt (submitAll r hs).arena bj id x := by
  induction hs generalizing r with
  | nil => exact hh
  | cons y ys ih =>
    obtain ⟨h1, h2⟩ := hq
    simp only [submitAll, List.foldl_cons]
    exact ih _ h2 (heldAt_processHeader r y.1 y.2 h1 bj id x hh)

/-! ### the reported tip is a tracked branch -/

theorem longestValid_processHeader (r : Repo) (h : Hdr) (ok : Bool) (hs : StreamWF r) (hlv : r.longest < r.arena.length)
    (hnc : ∀ pb ph lst, precheck r h ok = .inr (pb, ph, lst) →
      Int.tmod ((r.br pb).height + 1) (Facts.autoCleanModulus : Int) ≠ 0) :
    (processHeader r h ok).1.longest < (processHeader r h ok).1.arena.length := by
  have hF := (streamWF_processHeader r h ok hs hnc).chain.wf.list
  cases hpc : precheck r h ok with
  | inl v => rw [processHeader_of_inl r h ok v hpc]; exact hlv
  | inr x =>
    obtain ⟨pb, ph, lst⟩ := x
    have hpass := precheck_inr r h ok pb ph lst hpc
    have hnc' := hnc pb ph lst hpc
    rw [processHeader_of_inr r h ok pb ph lst hpc] at hF ⊢
    unfold applyHeader at hF ⊢
    by_cases hf : lst.hdr.id ≠ h.prev
    · simp only [hf, ne_eq, not_false_eq_true, ↓reduceIte] at hF ⊢
      cases hn : newBranch r (some pb) ph h with
      | error v =>
        have e : forkHeader r h pb ph = (r, { verdict := v }) := by unfold forkHeader; rw [hn]
        rw [e]; exact hlv
      | ok nb =>
        have hout := fork_outcome r h pb ph nb hn
        have hlv1 : (forked r h ph nb).longest < (forked r h ph nb).arena.length := by
          show r.longest < (r.arena ++ [nb]).length
          simp only [List.length_append, List.length_cons, List.length_nil]; omega
        generalize forkHeader r h pb ph = res at hout hF
        cases hout with
        | crash m _ => exact hlv1
        | sendErr evs e _ => exact hlv1
        | stay => exact hlv1
        | switch lg evs hne hmem hr => exact hF.valid lg hmem
    · simp only [hf, ↓reduceIte] at hF ⊢
      cases hbw : Work.blockWork h.bits with
      | none =>
        have e : extendHeader r h pb ph lst = (r, { verdict := .panic "Add: ConvertToDifficulty" }) := by
          unfold extendHeader; rw [hbw]
        rw [e]; exact hlv
      | some w =>
        have hlv1 : (addToBranch r h pb ph lst w).longest < (addToBranch r h pb ph lst w).arena.length := by
          unfold addToBranch Repo.setBranch
          simp only [List.length_set]; exact hlv
        by_cases hpl : pb = r.longest
        · subst hpl
          rw [extend_outcome_longest r h ph lst w hbw hpass.lastIs hnc']
          exact hlv1
        · have hout := extend_outcome_side r h pb ph lst w hbw hpass.lastIs hpl hnc'
          generalize extendHeader r h pb ph lst = res at hout hF
          cases hout with
          | crash m _ => exact hlv1
          | sendErr evs e _ => exact hlv1
          | stay => exact hlv1
          | switch lg evs hne hmem hr => exact hF.valid lg hmem

/-! ### whole histories -/

/-- everything announced to a subscriber during a history of submissions, in order. -/
def streamOf : Repo → List (Hdr × Bool) → List Hdr
  | _, [] => []
  | r, x :: xs => (processHeader r x.1 x.2).2.events ++ streamOf (processHeader r x.1 x.2).1 xs

/-- **the stream reconstructs the best chain over any history.** A subscriber that starts with
    the best chain and applies everything announced during ANY finite history of submissions holds
    exactly the chain the repository reports afterwards. -/
theorem stream_history (r : Repo) (hs : List (Hdr × Bool)) (hwf : StreamWF r) (hlv : r.longest < r.arena.length)
    (hq : NoAutoClean r hs) (c0 : List Hdr) (h0 : IsChain r.arena r.longest c0) :
    IsChain (submitAll r hs).arena (submitAll r hs).longest (Spec.applyStream c0 (streamOf r hs)) := by
  induction hs generalizing r c0 with
  | nil => exact h0
  | cons x xs ih =>
    obtain ⟨hnc, hq'⟩ := hq
    have hwf' := streamWF_processHeader r x.1 x.2 hwf hnc
    have hlv' := longestValid_processHeader r x.1 x.2 hwf hlv hnc
    obtain ⟨c1, hc1⟩ := isChain_exists _ hwf'.chain _ _ (List.getElem?_eq_getElem hlv')
    have hstep := stream_step r x.1 x.2 hwf hnc c0 c1 h0 hc1
    simp only [submitAll, List.foldl_cons, streamOf]
    unfold Spec.applyStream
    rw [List.foldl_append]
    have := ih _ hwf' hlv' hq' c1 hc1
    unfold Spec.applyStream at hstep this
    rw [hstep]
    exact this

end BRV.Repo
