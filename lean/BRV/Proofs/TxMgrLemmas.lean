/-
Helper lemmas for C06 (TxManager). Structure:

* every entry-touching critical section (`annBucketSec`, `annEntrySec`, `dlvBucketSec`, `dlvEntrySec`,
  `pollEntrySec`) is an instance of one of six entry transitions, `Trans`;
* every invariant is proved once against `Trans` (and against the channel/clock steps);
* the API functions and the small-step `step` are then compositions.
-/
import BRV.Model.TxMgr

namespace BRV.TxMgr

/-! ### projections of the store updates -/

@[simp] theorem setEnt_ent (st : Store) (tx k : TxId) (e : Entry) :
    (st.setEnt tx e).ent k = if k = tx then some e else st.ent k := rfl
@[simp] theorem setEnt_keys (st : Store) (tx : TxId) (e : Entry) : (st.setEnt tx e).keys = st.keys := rfl
@[simp] theorem setEnt_chan (st : Store) (tx : TxId) (e : Entry) : (st.setEnt tx e).chan = st.chan := rfl
@[simp] theorem setEnt_processed (st : Store) (tx : TxId) (e : Entry) : (st.setEnt tx e).processed = st.processed := rfl
@[simp] theorem setEnt_saved (st : Store) (tx : TxId) (e : Entry) : (st.setEnt tx e).saved = st.saved := rfl
@[simp] theorem setEnt_runAlive (st : Store) (tx : TxId) (e : Entry) : (st.setEnt tx e).runAlive = st.runAlive := rfl
@[simp] theorem setEnt_clock (st : Store) (tx : TxId) (e : Entry) : (st.setEnt tx e).clock = st.clock := rfl
@[simp] theorem setEnt_grants (st : Store) (tx : TxId) (e : Entry) : (st.setEnt tx e).grants = st.grants := rfl
@[simp] theorem setEnt_dropped (st : Store) (tx : TxId) (e : Entry) : (st.setEnt tx e).dropped = st.dropped := rfl

@[simp] theorem grant_ent (st : Store) (tx : TxId) (n : NodeId) (s : Nat) : (st.grant tx n s).ent = st.ent := rfl
@[simp] theorem grant_keys (st : Store) (tx : TxId) (n : NodeId) (s : Nat) : (st.grant tx n s).keys = st.keys := rfl
@[simp] theorem grant_chan (st : Store) (tx : TxId) (n : NodeId) (s : Nat) : (st.grant tx n s).chan = st.chan := rfl
@[simp] theorem grant_processed (st : Store) (tx : TxId) (n : NodeId) (s : Nat) : (st.grant tx n s).processed = st.processed := rfl
@[simp] theorem grant_saved (st : Store) (tx : TxId) (n : NodeId) (s : Nat) : (st.grant tx n s).saved = st.saved := rfl
@[simp] theorem grant_runAlive (st : Store) (tx : TxId) (n : NodeId) (s : Nat) : (st.grant tx n s).runAlive = st.runAlive := rfl
@[simp] theorem grant_clock (st : Store) (tx : TxId) (n : NodeId) (s : Nat) : (st.grant tx n s).clock = st.clock := rfl
@[simp] theorem grant_grants (st : Store) (tx : TxId) (n : NodeId) (s : Nat) :
    (st.grant tx n s).grants = ⟨tx, n, st.clock, s⟩ :: st.grants := rfl
@[simp] theorem grant_dropped (st : Store) (tx : TxId) (n : NodeId) (s : Nat) : (st.grant tx n s).dropped = st.dropped := rfl

/-- the txid has been received (`Received != nil`). -/
def recvdB (st : Store) (tx : TxId) : Bool :=
  match st.ent tx with
  | some e => e.received.isSome
  | none => false

/-- how often the tx has left `sendTx`: handed to the processor, still queued, or dropped. -/
def fwd (st : Store) (tx : TxId) : Nat :=
  st.processed.count tx + st.chan.count tx + st.dropped.count tx

/-! ### the six entry transitions -/

/-- `Trans env st tx st'`: `st'` is `st` after one lock section that touches only the entry of `tx`. -/
inductive Trans (env : Env) (st : Store) (tx : TxId) : Store → Prop
  | same : Trans env st tx st
  | create (node : NodeId) : st.ent tx = none →
      Trans env st tx
        ((({ st with keys := st.keys ++ [tx] } : Store).setEnt tx ⟨st.clock, none, []⟩).grant tx node st.clock)
  | regrant (e : Entry) (node : NodeId) (stamp : Nat) : st.ent tx = some e → e.received = none →
      e.lastRequested + env.timeout ≤ st.clock → stamp ≤ st.clock →
      Trans env st tx
        ((st.setEnt tx { e with lastRequested := stamp, nodeIDs := removeID e.nodeIDs node }).grant tx node stamp)
  | defer (e : Entry) (node : NodeId) : st.ent tx = some e → e.received = none →
      st.clock < e.lastRequested + env.timeout →
      Trans env st tx (st.setEnt tx { e with nodeIDs := appendID e.nodeIDs node })
  | createRecv (now : Nat) : st.ent tx = none →
      Trans env st tx (({ st with keys := st.keys ++ [tx] } : Store).setEnt tx ⟨now, some now, []⟩)
  | markRecv (e : Entry) (now : Nat) : st.ent tx = some e → e.received = none →
      Trans env st tx (st.setEnt tx { e with received := some now })

theorem isSome_false_iff {α : Type} (o : Option α) : (o.isSome = true → False) ↔ o = none := by
  cases o <;> simp

theorem annBucketSec_trans (env : Env) (st : Store) (node : NodeId) (tx : TxId) :
    Trans env st tx (annBucketSec st node tx).1 := by
  unfold annBucketSec
  split
  · exact .same
  · rename_i h; exact .create node h

theorem annEntrySec_trans (env : Env) (st : Store) (node : NodeId) (tx : TxId) :
    Trans env st tx (annEntrySec env st node tx).1 := by
  unfold annEntrySec
  split
  · exact .same
  · rename_i e h
    split
    · exact .same
    · rename_i hr
      have hr' : e.received = none := by cases hx : e.received <;> simp_all
      split
      · rename_i hlt; exact .defer e node h hr' hlt
      · rename_i hge; exact .regrant e node st.clock h hr' (by omega) (Nat.le_refl _)

theorem dlvBucketSec_trans (env : Env) (st : Store) (tx : TxId) (now : Nat) :
    Trans env st tx (dlvBucketSec st tx now).1 := by
  unfold dlvBucketSec
  split
  · exact .same
  · rename_i h; exact .createRecv now h

theorem dlvEntrySec_trans (env : Env) (st : Store) (tx : TxId) (now : Nat) :
    Trans env st tx (dlvEntrySec st tx now).1 := by
  unfold dlvEntrySec
  split
  · exact .same
  · rename_i e h
    split
    · exact .same
    · rename_i hr; exact .markRecv e now h hr

theorem pollEntrySec_trans (env : Env) (st : Store) (node : NodeId) (tx : TxId) : Trans env st tx (pollEntrySec env st node tx).1 := by
  unfold pollEntrySec
  split
  · exact .same
  · rename_i e h
    split
    · exact .same
    · rename_i hr
      have hr' : e.received = none := by cases hx : e.received <;> simp_all
      split
      · exact .same
      · split
        · exact .same
        · rename_i hge; exact .regrant e node st.clock h hr' (by omega) (Nat.le_refl _)

/-! ### the store invariant (thread independent part) -/

def relevantB (env : Env) (t : TxId) : Bool := env.proc t == .ok true

structure InvS (env : Env) (st : Store) : Prop where
  saved : st.saved = st.processed.filter (relevantB env)
  absent : ∀ tx, st.ent tx = none → ∀ g ∈ st.grants, g.tx ≠ tx
  last : ∀ tx e, st.ent tx = some e → e.received = none → ∀ g ∈ st.grants, g.tx = tx →
    g.stamp = e.lastRequested ∨ g.stamp + env.timeout ≤ st.clock
  times : ∀ g ∈ st.grants, g.stamp ≤ g.time ∧ g.time ≤ st.clock
  spaced : st.grants.Pairwise (fun a b => a.tx = b.tx → b.stamp + env.timeout ≤ a.time)
  mono : st.grants.Pairwise (fun a b => b.time ≤ a.time)
  keys : ∀ tx e, st.ent tx = some e → tx ∈ st.keys
  ids : ∀ tx e, st.ent tx = some e → e.nodeIDs.Nodup
  lastEx : ∀ tx e, st.ent tx = some e → e.received = none →
    ∃ g ∈ st.grants, g.tx = tx ∧ g.stamp = e.lastRequested

theorem invS_init (env : Env) : InvS env {} :=
  ⟨rfl, (by intro tx _ g hg; cases hg), (by intro tx e h; cases h), (by intro g hg; cases hg),
   List.Pairwise.nil, List.Pairwise.nil, (by intro tx e h; cases h), (by intro tx e h; cases h),
   (by intro tx e h; cases h)⟩

theorem appendID_nodup (ids : List NodeId) (n : NodeId) (h : ids.Nodup) : (appendID ids n).Nodup := by
  unfold appendID
  split
  · exact h
  · rename_i hn
    rw [List.nodup_append]
    refine ⟨h, by simp, ?_⟩
    intro a ha b hb
    simp only [List.mem_singleton] at hb
    subst hb
    intro hab; subst hab; exact hn ha

theorem removeID_nodup (ids : List NodeId) (n : NodeId) (h : ids.Nodup) : (removeID ids n).Nodup :=
  List.Nodup.erase n h

theorem Trans.inv {env : Env} {st st' : Store} {tx : TxId} (hi : InvS env st) (h : Trans env st tx st') :
    InvS env st' := by
  cases h with
  | same => exact hi
  | create node hnone =>
    refine ⟨hi.saved, ?_, ?_, ?_, ?_, ?_, ?_, ?_, ?_⟩
    · intro k hk g hg
      simp only [grant_ent, setEnt_ent] at hk
      simp only [grant_grants, setEnt_grants, setEnt_clock, List.mem_cons] at hg
      by_cases hkt : k = tx
      · simp [hkt] at hk
      · simp only [hkt, if_false] at hk
        rcases hg with rfl | hg
        · exact fun h => hkt h.symm
        · exact hi.absent k hk g hg
    · intro k e hk hr g hg hgk
      simp only [grant_ent, setEnt_ent] at hk
      simp only [grant_grants, setEnt_grants, setEnt_clock, List.mem_cons] at hg
      simp only [grant_clock, setEnt_clock]
      by_cases hkt : k = tx
      · subst hkt
        simp only [if_true, Option.some.injEq] at hk
        subst hk
        rcases hg with rfl | hg
        · exact Or.inl rfl
        · exact absurd hgk (hi.absent k hnone g hg)
      · simp only [hkt, if_false] at hk
        rcases hg with rfl | hg
        · exact absurd hgk.symm hkt
        · exact hi.last k e hk hr g hg hgk
    · intro g hg
      simp only [grant_grants, setEnt_grants, setEnt_clock, List.mem_cons] at hg
      simp only [grant_clock, setEnt_clock]
      rcases hg with rfl | hg
      · exact ⟨Nat.le_refl _, Nat.le_refl _⟩
      · exact hi.times g hg
    · simp only [grant_grants, setEnt_grants, setEnt_clock]
      refine List.Pairwise.cons ?_ hi.spaced
      intro b hb hbt
      exact absurd hbt.symm (hi.absent tx hnone b hb)
    · simp only [grant_grants, setEnt_grants, setEnt_clock]
      refine List.Pairwise.cons ?_ hi.mono
      intro b hb
      exact (hi.times b hb).2
    · intro k e hk
      simp only [grant_ent, setEnt_ent] at hk
      simp only [grant_keys, setEnt_keys, List.mem_append, List.mem_singleton]
      by_cases hkt : k = tx
      · exact Or.inr hkt
      · simp only [hkt, if_false] at hk
        exact Or.inl (hi.keys k e hk)
    · intro k e hk
      simp only [grant_ent, setEnt_ent] at hk
      by_cases hkt : k = tx
      · simp only [hkt, if_true, Option.some.injEq] at hk
        subst hk; exact List.nodup_nil
      · simp only [hkt, if_false] at hk
        exact hi.ids k e hk
    · intro k e hk hr
      simp only [grant_ent, setEnt_ent] at hk
      simp only [grant_grants, setEnt_grants, setEnt_clock]
      by_cases hkt : k = tx
      · simp only [hkt, if_true, Option.some.injEq] at hk
        subst hk
        exact ⟨_, List.mem_cons_self .., hkt.symm, rfl⟩
      · simp only [hkt, if_false] at hk
        obtain ⟨g, hg, h1, h2⟩ := hi.lastEx k e hk hr
        exact ⟨g, List.mem_cons_of_mem _ hg, h1, h2⟩
  | regrant e node stamp he hr hge hst =>
    have hold : ∀ b ∈ st.grants, b.tx = tx → b.stamp + env.timeout ≤ st.clock := by
      intro b hb hbt
      rcases hi.last tx e he hr b hb hbt with h1 | h1
      · omega
      · exact h1
    refine ⟨hi.saved, ?_, ?_, ?_, ?_, ?_, ?_, ?_, ?_⟩
    · intro k hk g hg
      simp only [grant_ent, setEnt_ent] at hk
      simp only [grant_grants, setEnt_grants, setEnt_clock, List.mem_cons] at hg
      by_cases hkt : k = tx
      · simp [hkt] at hk
      · simp only [hkt, if_false] at hk
        rcases hg with rfl | hg
        · exact fun h => hkt h.symm
        · exact hi.absent k hk g hg
    · intro k e' hk hr' g hg hgk
      simp only [grant_ent, setEnt_ent] at hk
      simp only [grant_grants, setEnt_grants, setEnt_clock, List.mem_cons] at hg
      simp only [grant_clock, setEnt_clock]
      by_cases hkt : k = tx
      · subst hkt
        simp only [if_true, Option.some.injEq] at hk
        subst hk
        rcases hg with rfl | hg
        · exact Or.inl rfl
        · exact Or.inr (hold g hg hgk)
      · simp only [hkt, if_false] at hk
        rcases hg with rfl | hg
        · exact absurd hgk.symm hkt
        · exact hi.last k e' hk hr' g hg hgk
    · intro g hg
      simp only [grant_grants, setEnt_grants, setEnt_clock, List.mem_cons] at hg
      simp only [grant_clock, setEnt_clock]
      rcases hg with rfl | hg
      · exact ⟨hst, Nat.le_refl _⟩
      · exact hi.times g hg
    · simp only [grant_grants, setEnt_grants, setEnt_clock]
      refine List.Pairwise.cons ?_ hi.spaced
      intro b hb hbt
      exact hold b hb hbt.symm
    · simp only [grant_grants, setEnt_grants, setEnt_clock]
      refine List.Pairwise.cons ?_ hi.mono
      intro b hb
      exact (hi.times b hb).2
    · intro k e' hk
      simp only [grant_ent, setEnt_ent] at hk
      simp only [grant_keys, setEnt_keys]
      by_cases hkt : k = tx
      · subst hkt; exact hi.keys k e he
      · simp only [hkt, if_false] at hk
        exact hi.keys k e' hk
    · intro k e' hk
      simp only [grant_ent, setEnt_ent] at hk
      by_cases hkt : k = tx
      · simp only [hkt, if_true, Option.some.injEq] at hk
        subst hk; exact removeID_nodup _ _ (hi.ids tx e he)
      · simp only [hkt, if_false] at hk
        exact hi.ids k e' hk
    · intro k e' hk hr'
      simp only [grant_ent, setEnt_ent] at hk
      simp only [grant_grants, setEnt_grants, setEnt_clock]
      by_cases hkt : k = tx
      · simp only [hkt, if_true, Option.some.injEq] at hk
        subst hk
        exact ⟨_, List.mem_cons_self .., hkt.symm, rfl⟩
      · simp only [hkt, if_false] at hk
        obtain ⟨g, hg, h1, h2⟩ := hi.lastEx k e' hk hr'
        exact ⟨g, List.mem_cons_of_mem _ hg, h1, h2⟩
  | defer e node he hr hlt =>
    refine ⟨hi.saved, ?_, ?_, hi.times, hi.spaced, hi.mono, ?_, ?_, ?_⟩
    · intro k hk g hg
      simp only [setEnt_ent] at hk
      by_cases hkt : k = tx
      · simp [hkt] at hk
      · simp only [hkt, if_false] at hk
        exact hi.absent k hk g hg
    · intro k e' hk hr' g hg hgk
      simp only [setEnt_ent] at hk
      by_cases hkt : k = tx
      · subst hkt
        simp only [if_true, Option.some.injEq] at hk
        subst hk
        exact hi.last k e he hr g hg hgk
      · simp only [hkt, if_false] at hk
        exact hi.last k e' hk hr' g hg hgk
    · intro k e' hk
      simp only [setEnt_ent] at hk
      by_cases hkt : k = tx
      · subst hkt; exact hi.keys k e he
      · simp only [hkt, if_false] at hk
        exact hi.keys k e' hk
    · intro k e' hk
      simp only [setEnt_ent] at hk
      by_cases hkt : k = tx
      · simp only [hkt, if_true, Option.some.injEq] at hk
        subst hk; exact appendID_nodup _ _ (hi.ids tx e he)
      · simp only [hkt, if_false] at hk
        exact hi.ids k e' hk
    · intro k e' hk hr'
      simp only [setEnt_ent] at hk
      simp only [setEnt_grants]
      by_cases hkt : k = tx
      · simp only [hkt, if_true, Option.some.injEq] at hk
        subst hk
        obtain ⟨g, hg, h1, h2⟩ := hi.lastEx tx e he hr
        exact ⟨g, hg, hkt ▸ h1, h2⟩
      · simp only [hkt, if_false] at hk
        exact hi.lastEx k e' hk hr'
  | createRecv now hnone =>
    refine ⟨hi.saved, ?_, ?_, hi.times, hi.spaced, hi.mono, ?_, ?_, ?_⟩
    · intro k hk g hg
      simp only [setEnt_ent] at hk
      by_cases hkt : k = tx
      · simp [hkt] at hk
      · simp only [hkt, if_false] at hk
        exact hi.absent k hk g hg
    · intro k e' hk hr' g hg hgk
      simp only [setEnt_ent] at hk
      by_cases hkt : k = tx
      · simp only [hkt, if_true, Option.some.injEq] at hk
        subst hk; cases hr'
      · simp only [hkt, if_false] at hk
        exact hi.last k e' hk hr' g hg hgk
    · intro k e hk
      simp only [setEnt_ent] at hk
      simp only [setEnt_keys, List.mem_append, List.mem_singleton]
      by_cases hkt : k = tx
      · exact Or.inr hkt
      · simp only [hkt, if_false] at hk
        exact Or.inl (hi.keys k e hk)
    · intro k e hk
      simp only [setEnt_ent] at hk
      by_cases hkt : k = tx
      · simp only [hkt, if_true, Option.some.injEq] at hk
        subst hk; exact List.nodup_nil
      · simp only [hkt, if_false] at hk
        exact hi.ids k e hk
    · intro k e' hk hr'
      simp only [setEnt_ent] at hk
      simp only [setEnt_grants]
      by_cases hkt : k = tx
      · simp only [hkt, if_true, Option.some.injEq] at hk
        subst hk; cases hr'
      · simp only [hkt, if_false] at hk
        exact hi.lastEx k e' hk hr'
  | markRecv e now he hr =>
    refine ⟨hi.saved, ?_, ?_, hi.times, hi.spaced, hi.mono, ?_, ?_, ?_⟩
    · intro k hk g hg
      simp only [setEnt_ent] at hk
      by_cases hkt : k = tx
      · simp [hkt] at hk
      · simp only [hkt, if_false] at hk
        exact hi.absent k hk g hg
    · intro k e' hk hr' g hg hgk
      simp only [setEnt_ent] at hk
      by_cases hkt : k = tx
      · simp only [hkt, if_true, Option.some.injEq] at hk
        subst hk; cases hr'
      · simp only [hkt, if_false] at hk
        exact hi.last k e' hk hr' g hg hgk
    · intro k e' hk
      simp only [setEnt_ent] at hk
      by_cases hkt : k = tx
      · subst hkt; exact hi.keys k e he
      · simp only [hkt, if_false] at hk
        exact hi.keys k e' hk
    · intro k e' hk
      simp only [setEnt_ent] at hk
      by_cases hkt : k = tx
      · simp only [hkt, if_true, Option.some.injEq] at hk
        subst hk; exact hi.ids tx e he
      · simp only [hkt, if_false] at hk
        exact hi.ids k e' hk
    · intro k e' hk hr'
      simp only [setEnt_ent] at hk
      simp only [setEnt_grants]
      by_cases hkt : k = tx
      · simp only [hkt, if_true, Option.some.injEq] at hk
        subst hk; cases hr'
      · simp only [hkt, if_false] at hk
        exact hi.lastEx k e' hk hr'

/-! ### clock, channel and Run steps keep the store invariant -/

theorem InvS.setClock {env : Env} {st : Store} (hi : InvS env st) (c : Nat) (hc : st.clock ≤ c) :
    InvS env { st with clock := c } := by
  refine ⟨hi.saved, hi.absent, ?_, ?_, hi.spaced, hi.mono, hi.keys, hi.ids, hi.lastEx⟩
  · intro k e hk hr g hg hgk
    rcases hi.last k e hk hr g hg hgk with h | h
    · exact Or.inl h
    · exact Or.inr (by simp only; omega)
  · intro g hg
    have := hi.times g hg
    exact ⟨this.1, by simp only; omega⟩

theorem InvS.send {env : Env} {st st' : Store} {tx : TxId} (hi : InvS env st) (h : sendSec st tx = some st') :
    InvS env st' := by
  unfold sendSec at h
  split at h
  · simp only [Option.some.injEq] at h; subst h
    exact ⟨hi.saved, hi.absent, hi.last, hi.times, hi.spaced, hi.mono, hi.keys, hi.ids, hi.lastEx⟩
  · cases h

theorem InvS.drop {env : Env} {st : Store} (hi : InvS env st) (tx : TxId) : InvS env (dropSec st tx) :=
  ⟨hi.saved, hi.absent, hi.last, hi.times, hi.spaced, hi.mono, hi.keys, hi.ids, hi.lastEx⟩

theorem InvS.run {env : Env} {st st' : Store} (hi : InvS env st) (h : runSec env st = some st') :
    InvS env st' := by
  unfold runSec at h
  split at h
  · cases h
  · split at h
    · cases h
    · rename_i tx rest hch
      split at h
      · rename_i hp
        simp only [Option.some.injEq] at h; subst h
        refine ⟨?_, hi.absent, hi.last, hi.times, hi.spaced, hi.mono, hi.keys, hi.ids, hi.lastEx⟩
        simp only [List.filter_append, List.filter_cons, List.filter_nil, relevantB, hp]
        simpa [relevantB] using hi.saved
      · rename_i hp
        simp only [Option.some.injEq] at h; subst h
        refine ⟨?_, hi.absent, hi.last, hi.times, hi.spaced, hi.mono, hi.keys, hi.ids, hi.lastEx⟩
        simp only [List.filter_append, List.filter_cons, List.filter_nil, relevantB, hp]
        simpa [relevantB] using hi.saved
      · rename_i hp
        simp only [Option.some.injEq] at h; subst h
        refine ⟨?_, hi.absent, hi.last, hi.times, hi.spaced, hi.mono, hi.keys, hi.ids, hi.lastEx⟩
        simp only [List.filter_append, List.filter_cons, List.filter_nil, relevantB, hp]
        simpa [relevantB] using hi.saved

/-! ### forwarding count -/

/-- `p tx` = number of goroutines inside `sendTx` for `tx`. -/
def InvF (st : Store) (p : TxId → Nat) : Prop :=
  ∀ tx, fwd st tx + p tx = if recvdB st tx then 1 else 0

theorem Trans.fwd_eq {env : Env} {st st' : Store} {tx : TxId} (h : Trans env st tx st') (k : TxId) :
    fwd st' k = fwd st k := by
  cases h <;> rfl

theorem Trans.recvd_other {env : Env} {st st' : Store} {tx : TxId} (h : Trans env st tx st') (k : TxId)
    (hk : k ≠ tx) : recvdB st' k = recvdB st k := by
  cases h <;> simp [recvdB, hk]

theorem Trans.recvd_mono {env : Env} {st st' : Store} {tx : TxId} (h : Trans env st tx st') (k : TxId)
    (hr : recvdB st k = true) : recvdB st' k = true := by
  by_cases hk : k = tx
  · subst hk
    cases h with
    | same => exact hr
    | create node hn => simp [recvdB, hn] at hr
    | regrant e node stamp he hrn _ _ => simp [recvdB, he, hrn] at hr
    | defer e node he hrn _ => simp [recvdB, he, hrn] at hr
    | createRecv now hn => simp [recvdB]
    | markRecv e now he hrn => simp [recvdB]
  · rw [h.recvd_other k hk]; exact hr

theorem annBucketSec_recvd (st : Store) (node : NodeId) (tx k : TxId) :
    recvdB (annBucketSec st node tx).1 k = recvdB st k := by
  unfold annBucketSec
  split
  · rfl
  · rename_i hn
    by_cases hk : k = tx
    · subst hk; simp [recvdB, hn]
    · simp [recvdB, hk]

theorem annEntrySec_recvd (env : Env) (st : Store) (node : NodeId) (tx k : TxId) :
    recvdB (annEntrySec env st node tx).1 k = recvdB st k := by
  unfold annEntrySec
  split
  · rfl
  · rename_i e he
    by_cases hk : k = tx
    · subst hk
      split
      · rfl
      · split <;> simp [recvdB, he]
    · split
      · rfl
      · split <;> simp [recvdB, hk]

theorem pollEntrySec_recvd (env : Env) (st : Store) (node : NodeId) (tx k : TxId) :
    recvdB (pollEntrySec env st node tx).1 k = recvdB st k := by
  unfold pollEntrySec
  split
  · rfl
  · rename_i e he
    by_cases hk : k = tx
    · subst hk
      split
      · rfl
      · split
        · rfl
        · split
          · rfl
          · simp [recvdB, he]
    · split
      · rfl
      · split
        · rfl
        · split
          · rfl
          · simp [recvdB, hk]

theorem dlvBucketSec_true (st : Store) (tx : TxId) (now : Nat) (h : (dlvBucketSec st tx now).2 = true) :
    recvdB st tx = false ∧ recvdB (dlvBucketSec st tx now).1 tx = true := by
  unfold dlvBucketSec at h ⊢
  split
  · rename_i e he; simp [he] at h
  · rename_i hn; simp [recvdB, hn]

theorem dlvBucketSec_false (st : Store) (tx : TxId) (now : Nat) (h : (dlvBucketSec st tx now).2 = false) :
    (dlvBucketSec st tx now).1 = st := by
  unfold dlvBucketSec at h ⊢
  split
  · rfl
  · rename_i hn; simp [hn] at h

theorem dlvEntrySec_true (st : Store) (tx : TxId) (now : Nat) (h : (dlvEntrySec st tx now).2 = true) :
    recvdB st tx = false ∧ recvdB (dlvEntrySec st tx now).1 tx = true := by
  unfold dlvEntrySec at h ⊢
  split
  · rename_i hn; simp [hn] at h
  · rename_i e he
    split
    · rename_i t ht; simp [he, ht] at h
    · rename_i hr; simp [recvdB, he, hr]

theorem dlvEntrySec_false (st : Store) (tx : TxId) (now : Nat) (h : (dlvEntrySec st tx now).2 = false) :
    (dlvEntrySec st tx now).1 = st := by
  unfold dlvEntrySec at h ⊢
  split
  · rfl
  · rename_i e he
    split
    · rfl
    · rename_i hr; simp [he, hr] at h

theorem InvF.of_eq {st st' : Store} {p p' : TxId → Nat} (hf : InvF st p)
    (h1 : ∀ k, fwd st' k = fwd st k) (h2 : ∀ k, recvdB st' k = recvdB st k) (h3 : ∀ k, p' k = p k) :
    InvF st' p' := by
  intro k; rw [h1, h2, h3]; exact hf k

/-- an entry becomes received and one more goroutine enters `sendTx` for it. -/
theorem InvF.recv {st st' : Store} {p p' : TxId → Nat} {tx : TxId} (hf : InvF st p)
    (h1 : ∀ k, fwd st' k = fwd st k) (hb : recvdB st tx = false) (ha : recvdB st' tx = true)
    (ho : ∀ k, k ≠ tx → recvdB st' k = recvdB st k)
    (hp : p' tx = p tx + 1) (hpo : ∀ k, k ≠ tx → p' k = p k) : InvF st' p' := by
  intro k
  by_cases hk : k = tx
  · subst hk
    have := hf k
    rw [hb] at this
    rw [h1, ha, hp]
    simp at this ⊢
    omega
  · rw [h1, ho k hk, hpo k hk]; exact hf k

/-- a goroutine leaves `sendTx` (sent or dropped): `fwd` takes over its unit. -/
theorem InvF.leave {st st' : Store} {p p' : TxId → Nat} {tx : TxId} (hf : InvF st p)
    (h1 : ∀ k, fwd st' k = fwd st k + (if k = tx then 1 else 0)) (h2 : ∀ k, recvdB st' k = recvdB st k)
    (hp : ∀ k, p' k + (if k = tx then 1 else 0) = p k) : InvF st' p' := by
  intro k
  have a := hf k
  have b := h1 k
  have c := hp k
  rw [h2]
  omega

theorem sendSec_fwd {st st' : Store} {tx : TxId} (h : sendSec st tx = some st') (k : TxId) :
    fwd st' k = fwd st k + (if k = tx then 1 else 0) := by
  unfold sendSec at h
  split at h
  · simp only [Option.some.injEq] at h; subst h
    simp only [fwd, List.count_append, List.count_cons, List.count_nil]
    by_cases hk : k = tx
    · subst hk; simp; omega
    · have : (tx == k) = false := by simp; exact fun h => hk h.symm
      simp [hk, this]
  · cases h

theorem sendSec_ent {st st' : Store} {tx : TxId} (h : sendSec st tx = some st') : st'.ent = st.ent := by
  unfold sendSec at h
  split at h
  · simp only [Option.some.injEq] at h; subst h; rfl
  · cases h

theorem dropSec_fwd (st : Store) (tx k : TxId) :
    fwd (dropSec st tx) k = fwd st k + (if k = tx then 1 else 0) := by
  simp only [fwd, dropSec, List.count_append, List.count_cons, List.count_nil]
  by_cases hk : k = tx
  · subst hk; simp; omega
  · have : (tx == k) = false := by simp; exact fun h => hk h.symm
    simp [hk, this]

theorem runSec_fwd {env : Env} {st st' : Store} (h : runSec env st = some st') (k : TxId) :
    fwd st' k = fwd st k := by
  unfold runSec at h
  split at h
  · cases h
  · split at h
    · cases h
    · rename_i tx rest hch
      split at h <;>
      · simp only [Option.some.injEq] at h; subst h
        simp only [fwd, hch, List.count_append, List.count_cons, List.count_nil]
        omega

theorem runSec_ent {env : Env} {st st' : Store} (h : runSec env st = some st') :
    st'.ent = st.ent ∧ st'.grants = st.grants ∧ st'.clock = st.clock ∧ st'.keys = st.keys := by
  unfold runSec at h
  split at h
  · cases h
  · split at h
    · cases h
    · split at h <;>
      · simp only [Option.some.injEq] at h; subst h; exact ⟨rfl, rfl, rfl, rfl⟩

theorem recvdB_congr {st st' : Store} (h : st'.ent = st.ent) (k : TxId) : recvdB st' k = recvdB st k := by
  unfold recvdB; rw [h]

end BRV.TxMgr
