/-
Clean (saveMainBranch + prune + saveInvalidHashes) on a repository reached by submissions whose
best branch is the root branch: what is reported does not change.
-/
import BRV.Proofs.RepoStreamStep

namespace BRV.Repo

/-! ### every held header has its height in the long-lived map -/

def HeightsComplete (r : Repo) : Prop :=
  ∀ (bj id : Nat) (x : Int), HeldAt r.arena bj id x → r.heights.get? id = some x

theorem heldAt_append_inv (ar : Arena) (nb : Branch) (bj id : Nat) (x : Int)
    (hh : HeldAt (ar ++ [nb]) bj id x) :
    HeldAt ar bj id x ∨ (bj = ar.length ∧ ∃ (k : Nat) (d : HData), nb.headers[k]? = some d ∧ d.hdr.id = id ∧
      x = nb.parentHeight + 1 + (k : Int)) := by
  obtain ⟨b, k, d, hb, hk, hid, hx⟩ := hh
  by_cases hlt : bj < ar.length
  · left
    rw [List.getElem?_append_left hlt] at hb
    exact ⟨b, k, d, hb, hk, hid, hx⟩
  · right
    have hlen := getElem?_lt _ _ _ hb
    simp only [List.length_append, List.length_cons, List.length_nil] at hlen
    have he : bj = ar.length := by omega
    subst he
    simp only [List.getElem?_concat_length, Option.some.injEq] at hb
    subst hb
    exact ⟨rfl, k, d, hk, hid, hx⟩

theorem heightsComplete_processHeader (r : Repo) (h : Hdr) (ok : Bool) (hr : RepoWF r) (hc : HeightsComplete r)
    (hnc : ∀ pb ph lst, precheck r h ok = .inr (pb, ph, lst) →
      Int.tmod ((r.br pb).height + 1) (Facts.autoCleanModulus : Int) ≠ 0) :
    HeightsComplete (processHeader r h ok).1 := by
  cases processHeader_shape r h ok hnc with
  | same ha hb hh => intro bj id x hheld; rw [hh]; rw [ha] at hheld; exact hc bj id x hheld
  | fork pb ph lst nb hp hne hn ha hb hh =>
    intro bj id x hheld
    rw [hh, HMap.get?_set]
    rw [ha] at hheld
    obtain ⟨l2, w, _, _, hnb⟩ := newBranch_ok_shape r pb ph h nb hn
    rcases heldAt_append_inv r.arena nb bj id x hheld with hold | ⟨_, k, d, hk, hid, hx⟩
    · have hne' : id ≠ h.id := by
        obtain ⟨b, k, d, hb', hk, hid, _⟩ := hold
        intro he
        exact fresh_not_held r hr.ids h.id hp.fresh bj b k d hb' hk (by rw [hid, he])
      simp only [hne', ↓reduceIte]
      exact hc bj id x hold
    · rw [hnb] at hk hx
      cases k with
      | zero =>
        simp only [List.getElem?_cons_zero, Option.some.injEq] at hk
        subst hk
        simp only at hid hx
        simp only [← hid, ↓reduceIte, hx]
        simp
      | succ k => simp at hk
  | extend pb ph lst w hp hprev hlen hbw ha hb hh =>
    intro bj id x hheld
    rw [hh, HMap.get?_set]
    rw [ha] at hheld
    have hbr : r.arena[pb]? = some (r.br pb) := by
      unfold Repo.br; rw [List.getElem?_eq_getElem hlen]; rfl
    obtain ⟨b, k, d, hb', hk, hid, hx⟩ := hheld
    -- `ph` is the height of the branch
    have hown := branchesFind_owner r hr.link hr.ids hr.list h.prev pb ph hp.parent
    have hlast : (r.br pb).headers[(r.br pb).headers.length - 1]? = some lst := getLast?_getElem? _ _ hp.lastIs
    have hne0 : (r.br pb).headers.length ≠ 0 := by
      intro h0; rw [List.getElem?_eq_none (by omega)] at hlast; cases hlast
    have hheld2 : HeldAt r.arena pb h.prev ((r.br pb).parentHeight + 1 + (((r.br pb).headers.length - 1 : Nat) : Int)) :=
      ⟨r.br pb, _, lst, hbr, hlast, hprev, rfl⟩
    obtain ⟨_, hph⟩ := heldAt_unique r.arena r.branches hr.ids pb pb h.prev _ _ hown hheld2
    by_cases he : bj = pb
    · subst he
      rw [List.getElem?_set_self hlen] at hb'
      simp only [Option.some.injEq] at hb'
      subst hb'
      simp only [Branch.pushed] at hk hx
      by_cases hkl : k < (r.br bj).headers.length
      · rw [List.getElem?_append_left hkl] at hk
        have hne' : id ≠ h.id := by
          intro he
          exact fresh_not_held r hr.ids h.id hp.fresh bj _ k d hbr hk (by rw [hid, he])
        simp only [hne', ↓reduceIte]
        exact hc bj id x ⟨r.br bj, k, d, hbr, hk, hid, hx⟩
      · have hklt := getElem?_lt _ _ _ hk
        simp only [List.length_append, List.length_cons, List.length_nil] at hklt
        have hke : k = (r.br bj).headers.length := by omega
        subst hke
        simp only [List.getElem?_concat_length, Option.some.injEq] at hk
        subst hk
        simp only at hid
        simp only [← hid, ↓reduceIte, Option.some.injEq]
        rw [hx, hph]; omega
    · rw [List.getElem?_set_ne (Ne.symm he)] at hb'
      have hne' : id ≠ h.id := by
        intro he'
        exact fresh_not_held r hr.ids h.id hp.fresh bj b k d hb' hk (by rw [hid, he'])
      simp only [hne', ↓reduceIte]
      exact hc bj id x ⟨b, k, d, hb', hk, hid, hx⟩

theorem heightsComplete_submitAll (r : Repo) (hs : List (Hdr × Bool)) (hr : RepoWF r) (hc : HeightsComplete r)
    (hq : NoAutoClean r hs) : HeightsComplete (submitAll r hs) := by
  induction hs generalizing r with
  | nil => exact hc
  | cons x xs ih =>
    obtain ⟨h1, h2⟩ := hq
    simp only [submitAll, List.foldl_cons]
    exact ih _ (repoWF_processHeader r x.1 x.2 hr h1) (heightsComplete_processHeader r x.1 x.2 hr hc h1) h2

/-! ### what `prune` does to the forest -/

/-- `Branch.Prune` up to the prune height (when the branch reaches below it). -/
def prunedBranch (P : Int) (b : Branch) : Branch :=
  if b.prunedLowest < P then pruneBranch b (P - b.prunedLowest) else b

theorem branchSave_frame (r r1 : Repo) (b : Branch) (h : branchSave r b = .ok r1) :
    r1.arena = r.arena ∧ r1.branches = r.branches ∧ r1.longest = r.longest ∧ r1.heights = r.heights ∧
    r1.invalid = r.invalid ∧ r1.store.main = r.store.main ∧ r1.cfg = r.cfg := by
  unfold branchSave at h
  split at h
  · simp only [Except.ok.injEq] at h
    subst h
    exact ⟨rfl, rfl, rfl, rfl, rfl, rfl, rfl⟩
  · split at h
    · cases h
    · simp only [Except.ok.injEq] at h
      subst h
      exact ⟨rfl, rfl, rfl, rfl, rfl, rfl, rfl⟩

theorem pruneGo_spec (P : Int) : ∀ (l : List Nat) (r : Repo) (nbs : List Nat) (r' : Repo) (nbs' : List Nat),
    l.Nodup → prune.go P l r nbs = .ok (r', nbs') →
    (∀ x, r'.arena[x]? = (r.arena[x]?).map (fun b => if x ∈ l ∧ ¬ (b.height < P) then prunedBranch P b else b)) ∧
    nbs' = nbs ++ l.filter (fun bi => decide (¬ ((r.br bi).height < P))) ∧
    r'.longest = r.longest ∧ r'.heights = r.heights ∧ r'.invalid = r.invalid ∧ r'.store.main = r.store.main ∧
    r'.cfg = r.cfg := by
  intro l
  induction l with
  | nil =>
    intro r nbs r' nbs' _ h
    simp only [prune.go, Except.ok.injEq, Prod.mk.injEq] at h
    obtain ⟨rfl, rfl⟩ := h
    refine ⟨?_, by simp, rfl, rfl, rfl, rfl, rfl⟩
    intro x
    cases r.arena[x]? <;> simp
  | cons bi rest ih =>
    intro r nbs r' nbs' hnd h
    rw [List.nodup_cons] at hnd
    obtain ⟨hbi, hnd'⟩ := hnd
    simp only [prune.go] at h
    cases hbs : branchSave r (r.br bi) with
    | error e => rw [hbs] at h; cases h
    | ok r1 =>
      rw [hbs] at h
      simp only at h
      obtain ⟨ha, _, hl, hh, hinv, hm, hcfg⟩ := branchSave_frame r r1 _ hbs
      have hbr1 : ∀ y, r1.br y = r.br y := by intro y; unfold Repo.br; rw [ha]
      rw [hbr1] at h
      by_cases hlow : (r.br bi).height < P
      · simp only [hlow, ↓reduceIte] at h
        obtain ⟨h1, h2, h3, h4, h5, h6, h7⟩ := ih r1 nbs r' nbs' hnd' h
        refine ⟨?_, ?_, by rw [h3, hl], by rw [h4, hh], by rw [h5, hinv], by rw [h6, hm], by rw [h7, hcfg]⟩
        · intro x
          rw [h1 x, ha]
          cases hx : r.arena[x]? with
          | none => rfl
          | some b =>
            simp only [Option.map_some, Option.some.injEq]
            by_cases hxe : x = bi
            · subst hxe
              have hbx : r.br x = b := by unfold Repo.br; rw [hx]; rfl
              rw [hbx] at hlow
              simp [hbi, hlow]
            · simp [hxe]
        · rw [h2]
          simp only [List.filter_cons, hlow, not_true_eq_false, decide_false, Bool.false_eq_true, ↓reduceIte]
          congr 1
          apply List.filter_congr
          intro y _
          rw [hbr1]
      · simp only [hlow, ↓reduceIte] at h
        have hlen : ∀ b', (r1.setBranch bi b').br = fun y => if y = bi ∧ bi < r.arena.length then b' else r.br y := by
          intro b'
          funext y
          unfold Repo.br Repo.setBranch
          simp only [ha]
          by_cases hy : y = bi
          · subst hy
            by_cases hlt : y < r.arena.length
            · simp [List.getElem?_set_self hlt, hlt]
            · simp only [hlt, and_false, ↓reduceIte]
              rw [List.getElem?_eq_none (by simp; omega), List.getElem?_eq_none (by omega)]
          · simp only [hy, false_and, ↓reduceIte]
            rw [List.getElem?_set_ne (Ne.symm hy)]
        -- the state handed to the rest of the loop
        obtain ⟨r2, hr2, hr2a⟩ : ∃ r2 : Repo, prune.go P rest r2 (nbs ++ [bi]) = .ok (r', nbs') ∧
            r2.arena = (if (r.br bi).prunedLowest < P then r.arena.set bi (pruneBranch (r.br bi) (P - (r.br bi).prunedLowest))
              else r.arena) ∧ r2.longest = r.longest ∧ r2.heights = r.heights ∧ r2.invalid = r.invalid ∧
            r2.store.main = r.store.main ∧ r2.cfg = r.cfg := by
          by_cases hp : (r.br bi).prunedLowest < P
          · simp only [hp, ↓reduceIte] at h ⊢
            exact ⟨_, h, by unfold Repo.setBranch; simp only [ha], hl, hh, hinv, hm, hcfg⟩
          · simp only [hp, ↓reduceIte] at h ⊢
            exact ⟨_, h, ha, hl, hh, hinv, hm, hcfg⟩
        obtain ⟨hr2arena, hr2l, hr2h, hr2i, hr2m, hr2c⟩ := hr2a
        obtain ⟨h1, h2, h3, h4, h5, h6, h7⟩ := ih r2 (nbs ++ [bi]) r' nbs' hnd' hr2
        have hget2 : ∀ x, r2.arena[x]? = (r.arena[x]?).map (fun b => if x = bi then prunedBranch P b else b) := by
          intro x
          rw [hr2arena]
          by_cases hp : (r.br bi).prunedLowest < P
          · simp only [hp, ↓reduceIte]
            by_cases hxe : x = bi
            · subst hxe
              cases hx : r.arena[x]? with
              | none => rw [List.getElem?_eq_none (by have := List.getElem?_eq_none_iff.mp hx; simp; omega)]; rfl
              | some b =>
                have hbx : r.br x = b := by unfold Repo.br; rw [hx]; rfl
                rw [List.getElem?_set_self (getElem?_lt _ _ _ hx)]
                simp [prunedBranch, hbx ▸ hp, hbx]
            · rw [List.getElem?_set_ne (Ne.symm hxe)]
              cases r.arena[x]? <;> simp [hxe]
          · simp only [hp, ↓reduceIte]
            cases hx : r.arena[x]? with
            | none => rfl
            | some b =>
              simp only [Option.map_some, Option.some.injEq]
              by_cases hxe : x = bi
              · subst hxe
                have hbx : r.br x = b := by unfold Repo.br; rw [hx]; rfl
                simp [prunedBranch, hbx ▸ hp]
              · simp [hxe]
        have hbr2 : ∀ y, y ≠ bi → r2.br y = r.br y := by
          intro y hy
          unfold Repo.br
          rw [hget2 y]
          cases r.arena[y]? <;> simp [hy]
        refine ⟨?_, ?_, by rw [h3, hr2l], by rw [h4, hr2h], by rw [h5, hr2i], by rw [h6, hr2m], by rw [h7, hr2c]⟩
        · intro x
          rw [h1 x, hget2 x]
          cases hx : r.arena[x]? with
          | none => rfl
          | some b =>
            simp only [Option.map_some, Option.some.injEq]
            by_cases hxe : x = bi
            · subst hxe
              have hbx : r.br x = b := by unfold Repo.br; rw [hx]; rfl
              rw [hbx] at hlow
              simp [hbi, hlow]
            · simp [hxe]
        · rw [h2]
          simp only [List.filter_cons, hlow, not_false_eq_true, decide_true, ↓reduceIte, List.append_assoc,
            List.cons_append, List.nil_append]
          congr 2
          apply List.filter_congr
          intro y hy
          have : y ≠ bi := by intro he; subst he; exact hbi hy
          rw [hbr2 y this]

theorem C10_consolidate_noop_aux (r : Repo)
    (h : r.branches.find? (fun bi => (r.br bi).parentHeight == -1) = some r.longest) :
    consolidate r = .ok r := by
  unfold consolidate
  simp only [h, ↓reduceIte]

/-! ### `saveMainBranch` only touches storage -/

theorem saveMainGo_frame : ∀ (hs : List HData) (r : Repo) (file height : Int) (buf : List HData),
    (saveMainBranch.go hs r file height buf).1.arena = r.arena ∧
    (saveMainBranch.go hs r file height buf).1.branches = r.branches ∧
    (saveMainBranch.go hs r file height buf).1.longest = r.longest ∧
    (saveMainBranch.go hs r file height buf).1.heights = r.heights ∧
    (saveMainBranch.go hs r file height buf).1.invalid = r.invalid ∧
    (saveMainBranch.go hs r file height buf).1.cfg = r.cfg := by
  intro hs
  induction hs with
  | nil => intro r file height buf; exact ⟨rfl, rfl, rfl, rfl, rfl, rfl⟩
  | cons d rest ih =>
    intro r file height buf
    simp only [saveMainBranch.go]
    split
    · exact ih _ _ _ _
    · exact ih _ _ _ _

theorem saveMain_frame (r r2 : Repo) (h : saveMainBranch r = .ok r2) :
    r2.arena = r.arena ∧ r2.branches = r.branches ∧ r2.longest = r.longest ∧ r2.heights = r.heights ∧
    r2.invalid = r.invalid ∧ r2.cfg = r.cfg := by
  unfold saveMainBranch saveMainStart at h
  simp only at h
  split at h
  · cases h
  · rename_i buf0 _
    simp only [Except.ok.injEq] at h
    subst h
    obtain ⟨h1, h2, h3, h4, h5, h6⟩ := saveMainGo_frame (r.br r.longest).headers r
      (Int.tdiv (r.br r.longest).prunedLowest hpf) (r.br r.longest).prunedLowest buf0
    exact ⟨h1, h2, h3, h4, h5, h6⟩

/-! ### the prune height -/

theorem pruneHeight_spec (f : Nat → Int) (l : List Nat) (init : Int) :
    l.foldl (fun ph bi => if f bi < ph then f bi else ph) init ≤ init ∧
    ∀ bi ∈ l, l.foldl (fun ph bi => if f bi < ph then f bi else ph) init ≤ f bi := by
  induction l generalizing init with
  | nil => exact ⟨Int.le_refl _, by intro bi h; cases h⟩
  | cons x rest ih =>
    simp only [List.foldl_cons]
    obtain ⟨h1, h2⟩ := ih (if f x < init then f x else init)
    by_cases hlt : f x < init
    · simp only [hlt, ↓reduceIte] at h1 h2 ⊢
      refine ⟨by omega, ?_⟩
      intro bi hbi
      rcases List.mem_cons.mp hbi with rfl | hm
      · exact h1
      · exact h2 bi hm
    · simp only [hlt, ↓reduceIte] at h1 h2 ⊢
      refine ⟨h1, ?_⟩
      intro bi hbi
      rcases List.mem_cons.mp hbi with rfl | hm
      · omega
      · exact h2 bi hm

theorem sorted_head_zero (l : List Nat) (hs : l.Pairwise (· < ·)) (h0 : 0 ∈ l) : ∃ t, l = 0 :: t := by
  cases l with
  | nil => cases h0
  | cons x t =>
    rw [List.pairwise_cons] at hs
    rcases List.mem_cons.mp h0 with he | hm
    · exact ⟨t, by rw [← he]⟩
    · have := hs.1 0 hm; omega

/-! ### Clean when the best branch is the root -/

/-- **what Clean does** to a repository reached by submissions from genesis whose best branch is
    the root branch (no reorganisation pending), when it succeeds: storage writes aside, only the
    root branch is pruned, up to a height `P` that is at most `tip − depth` and at most every fork
    point; every branch is kept. -/
theorem clean_root_effect (r : Repo) (hs : StreamWF r) (hroot : r.longest = 0) (hlen : 0 < r.arena.length)
    (depth : Int) (hd : 0 ≤ depth) (r' : Repo) (hc : cleanWith r depth = (r', none)) :
    ∃ P : Int, P ≤ (r.br 0).height - depth ∧
      (∀ (bi : Nat) (b : Branch), bi ≠ 0 → r.arena[bi]? = some b → P ≤ b.parentHeight) ∧
      (∀ x, r'.arena[x]? = (r.arena[x]?).map (fun b => if x = 0 then prunedBranch P b else b)) ∧
      r'.branches = r.branches ∧ r'.longest = r.longest ∧ r'.heights = r.heights ∧ r'.cfg = r.cfg ∧
      (∃ r2, saveMainBranch r = .ok r2 ∧ r'.store.main = r2.store.main) := by
  have hw := hs.chain.wf.link
  have hlist := hs.chain.wf.list
  have hb0 : r.arena[0]? = some (r.br 0) := by
    unfold Repo.br; rw [List.getElem?_eq_getElem hlen]; rfl
  have hl0 := hw.each 0 _ hb0
  -- branch 0 is the root and heads the list
  have hpar0 : (r.br 0).parent = none := by
    cases hp : (r.br 0).parent with
    | none => rfl
    | some p => have := hw.dec 0 _ hb0 p hp; omega
  have hph0 : (r.br 0).parentHeight = -1 := hs.chain.root 0 _ hb0 hpar0
  obtain ⟨others, hbl⟩ := sorted_head_zero r.branches hlist.sorted (hs.chain.wf.ids.listed 0 hlen)
  have hcons : consolidate r = .ok r := by
    apply C10_consolidate_noop_aux
    rw [hbl, hroot]
    simp [List.find?_cons, hph0]
  unfold cleanWith at hc
  rw [hcons] at hc
  simp only at hc
  cases hsm : saveMainBranch r with
  | error e => rw [hsm] at hc; simp at hc
  | ok r2 =>
    rw [hsm] at hc
    simp only at hc
    obtain ⟨h2a, h2b, h2l, h2h, h2i, h2c⟩ := saveMain_frame r r2 hsm
    cases hpr : prune r2 depth with
    | error e => rw [hpr] at hc; simp at hc
    | ok r3 =>
      rw [hpr] at hc
      simp only [Prod.mk.injEq, and_true] at hc
      subst hc
      unfold prune at hpr
      rw [h2b, hbl] at hpr
      dsimp only at hpr
      have hbr2 : ∀ y, r2.br y = r.br y := by intro y; unfold Repo.br; rw [h2a]
      cases hgo : prune.go (others.foldl (fun ph bi => if (r2.br bi).parentHeightFn < ph then (r2.br bi).parentHeightFn else ph)
          ((r2.br r2.longest).height - depth)) (0 :: others) r2 [] with
      | error e => rw [hgo] at hpr; cases hpr
      | ok res =>
        obtain ⟨r1', nbs⟩ := res
        rw [hgo] at hpr
        simp only [Except.ok.injEq] at hpr
        subst hpr
        obtain ⟨hPle, hPall⟩ := pruneHeight_spec (fun bi => (r2.br bi).parentHeightFn) others ((r2.br r2.longest).height - depth)
        generalize hP : others.foldl (fun ph bi => if (r2.br bi).parentHeightFn < ph then (r2.br bi).parentHeightFn else ph)
          ((r2.br r2.longest).height - depth) = P at hgo hPle hPall
        rw [h2l, hroot, hbr2] at hPle
        have hnd : (0 :: others).Nodup := by
          rw [← hbl]
          exact hlist.sorted.imp (fun hab => by omega)
        obtain ⟨g1, g2, g3, g4, g5, g6, g7⟩ := pruneGo_spec P (0 :: others) r2 [] r1' nbs hnd hgo
        -- every side branch forks at or above P
        have hside : ∀ (bi : Nat) (b : Branch), bi ≠ 0 → r.arena[bi]? = some b → P ≤ b.parentHeight := by
          intro bi b hne hb
          have hmem : bi ∈ others := by
            have := hs.chain.wf.ids.listed bi (getElem?_lt _ _ _ hb)
            rw [hbl] at this
            rcases List.mem_cons.mp this with he | hm
            · exact absurd he hne
            · exact hm
          have := hPall bi hmem
          rw [hbr2] at this
          have hbb : r.br bi = b := by unfold Repo.br; rw [hb]; rfl
          rw [hbb] at this
          unfold Branch.parentHeightFn at this
          have := (hw.each bi b hb).off
          omega
        -- nothing is dropped
        have hkept : ∀ (bi : Nat) (b : Branch), r.arena[bi]? = some b → ¬ (b.height < P) := by
          intro bi b hb
          have hl := hw.each bi b hb
          have hhe := branch_height_eq b hl.off
          have hne0 : b.headers.length ≠ 0 := by
            intro h0; exact hl.nonempty (List.length_eq_zero_iff.mp h0)
          by_cases he : bi = 0
          · subst he
            rw [hb0] at hb; simp only [Option.some.injEq] at hb; subst hb
            omega
          · have := hside bi b he hb
            omega
        refine ⟨P, hPle, hside, ?_, ?_, by simp only [saveInvalid, Repo.emit]; rw [g3, h2l],
          by simp only [saveInvalid, Repo.emit]; rw [g4, h2h], by simp only [saveInvalid, Repo.emit]; rw [g7, h2c],
          r2, rfl, ?_⟩
        · intro x
          show r1'.arena[x]? = _
          rw [g1 x, h2a]
          cases hx : r.arena[x]? with
          | none => rfl
          | some b =>
            simp only [Option.map_some, Option.some.injEq]
            have hk := hkept x b hx
            have hxm : x ∈ (0 :: others) := by rw [← hbl]; exact hs.chain.wf.ids.listed x (getElem?_lt _ _ _ hx)
            by_cases he : x = 0
            · simp [he, hk, hxm] at hk ⊢
            · have hsp := hside x b he hx
              have hoff := (hw.each x b hx).off
              have : ¬ (b.prunedLowest < P) := by unfold Branch.prunedLowest; omega
              simp [he, hxm, hk, prunedBranch, this]
        · show nbs = r.branches
          rw [g2, hbl]
          simp only [List.nil_append]
          apply List.filter_eq_self.mpr
          intro bi hbi
          have hlt : bi < r.arena.length := hlist.valid bi (by rw [hbl]; exact hbi)
          have hbb : r.arena[bi]? = some (r.br bi) := by
            unfold Repo.br; rw [List.getElem?_eq_getElem hlt]; rfl
          have := hkept bi _ hbb
          rw [hbr2]
          simpa using this
        · simp only [saveInvalid, Repo.emit, Store.apply]
          rw [g6]

/-! ### the pruned root branch -/

theorem lookup_filter_self (m : HMap) (k : Nat) : List.lookup k (m.filter (fun e => e.1 != k)) = none := by
  induction m with
  | nil => rfl
  | cons e rest ih =>
    obtain ⟨a, b⟩ := e
    by_cases hak : a = k
    · subst hak; simp [List.filter, ih]
    · have hf : ((a, b).1 != k) = true := by simpa using hak
      have : (k == a) = false := by simpa using (Ne.symm hak)
      simp only [List.filter, hf, List.lookup, this]
      exact ih

theorem HMap.get?_del (m : HMap) (k k' : Nat) : (HMap.del m k).get? k' = if k' = k then none else m.get? k' := by
  unfold HMap.del HMap.get?
  by_cases h : k' = k
  · subst h; simp only [↓reduceIte]; exact lookup_filter_self m k'
  · simp only [h, ↓reduceIte]; exact lookup_filter_ne m k k' h

theorem get?_foldl_del (ds : List HData) (m : HMap) (id : Nat) :
    (ds.foldl (fun m d => HMap.del m d.hdr.id) m).get? id = if (∃ d ∈ ds, d.hdr.id = id) then none else m.get? id := by
  induction ds generalizing m with
  | nil => simp
  | cons d rest ih =>
    simp only [List.foldl_cons]
    rw [ih, HMap.get?_del]
    by_cases h1 : ∃ x ∈ rest, x.hdr.id = id
    · have : ∃ x ∈ d :: rest, x.hdr.id = id := by obtain ⟨x, hx, hi⟩ := h1; exact ⟨x, List.mem_cons_of_mem _ hx, hi⟩
      simp [h1, this]
    · by_cases h2 : id = d.hdr.id
      · have : ∃ x ∈ d :: rest, x.hdr.id = id := ⟨d, List.mem_cons_self .., h2.symm⟩
        simp [h1, h2, this]
      · have : ¬ ∃ x ∈ d :: rest, x.hdr.id = id := by
          rintro ⟨x, hx, hi⟩
          rcases List.mem_cons.mp hx with rfl | hm
          · exact h2 hi.symm
          · exact h1 ⟨x, hm, hi⟩
        rw [if_neg h1, if_neg h2, if_neg this]

theorem prunedBranch_root_pos (b0 : Branch) (hph : b0.parentHeight = -1) (hoff : b0.offset = 1) (P : Int)
    (h0 : 0 < P) (hP : P < b0.headers.length) :
    prunedBranch P b0 = { b0 with headers := b0.headers.drop P.toNat, offset := 1 + P,
                                  hmap := (b0.headers.take P.toNat).foldl (fun m d => HMap.del m d.hdr.id) b0.hmap } := by
  unfold prunedBranch Branch.prunedLowest pruneBranch
  rw [hoff, hph]
  have h1 : (-1 + 1 : Int) < P := by omega
  have hc : ¬ (P - (-1 + 1) < 0 ∨ P - (-1 + 1) ≥ (b0.headers.length : Int)) := by omega
  have e : P - (-1 + 1) = P := by omega
  simp only [h1, ↓reduceIte, e]
  have hc' : ¬ (P < 0 ∨ P ≥ (b0.headers.length : Int)) := by omega
  simp only [hc', ↓reduceIte]

theorem prunedBranch_root_nonpos (b0 : Branch) (hph : b0.parentHeight = -1) (hoff : b0.offset = 1) (P : Int)
    (h0 : P ≤ 0) : prunedBranch P b0 = b0 := by
  unfold prunedBranch Branch.prunedLowest
  have h1 : ¬ (b0.parentHeight + b0.offset < P) := by omega
  simp only [h1, ↓reduceIte]

/-- the root branch after `Prune` up to `P`. -/
theorem root_pruned (b0 : Branch) (hph : b0.parentHeight = -1) (hoff : b0.offset = 1) (P : Int)
    (hP : P < b0.headers.length) :
    (prunedBranch P b0).parent = b0.parent ∧ (prunedBranch P b0).parentHeight = -1 ∧
    (prunedBranch P b0).height = b0.height ∧ (prunedBranch P b0).last? = b0.last? ∧
    (∀ k : Int, P ≤ k → getI (prunedBranch P b0).headers (k - (prunedBranch P b0).parentHeight - (prunedBranch P b0).offset)
      = getI b0.headers (k - b0.parentHeight - b0.offset)) ∧
    (∀ k : Int, k < P → getI (prunedBranch P b0).headers (k - (prunedBranch P b0).parentHeight - (prunedBranch P b0).offset) = none) ∧
    (∀ id, (prunedBranch P b0).hmap.get? id =
      if (∃ d ∈ b0.headers.take P.toNat, d.hdr.id = id) then none else b0.hmap.get? id) := by
  by_cases h0 : 0 < P
  · rw [prunedBranch_root_pos b0 hph hoff P h0 hP]
    refine ⟨rfl, hph, ?_, ?_, ?_, ?_, ?_⟩
    · unfold Branch.height
      simp only [List.length_drop, hph, hoff]
      omega
    · unfold Branch.last?
      simp only
      rw [List.getLast?_drop]
      have : ¬ (b0.headers.length ≤ P.toNat) := by omega
      simp [this]
    · intro k hk
      simp only [hph, hoff]
      unfold getI
      have n1 : ¬ (k - -1 - (1 + P) < 0) := by omega
      have n2 : ¬ (k - -1 - 1 < 0) := by omega
      simp only [n1, n2, ↓reduceIte, List.getElem?_drop]
      congr 1
      omega
    · intro k hk
      simp only [hph]
      unfold getI
      by_cases hn : k - -1 - (1 + P) < 0
      · simp only [hn, ↓reduceIte]
      · omega
    · intro id
      exact get?_foldl_del _ _ id
  · rw [prunedBranch_root_nonpos b0 hph hoff P (by omega)]
    refine ⟨rfl, hph, rfl, rfl, fun k _ => rfl, ?_, ?_⟩
    · intro k hk
      unfold getI
      have : k - b0.parentHeight - b0.offset < 0 := by omega
      simp only [this, ↓reduceIte]
    · intro id
      have : P.toNat = 0 := by omega
      simp [this]

/-! ### lookups by hash after Clean -/

theorem bfind_congr (ar ar' : Arena) (id : Nat)
    (hsome : ∀ (x : Nat) (b : Branch), ar[x]? = some b →
      ∃ b', ar'[x]? = some b' ∧ b'.parent = b.parent ∧ b'.hmap.get? id = b.hmap.get? id)
    (hnone : ∀ x : Nat, ar[x]? = none → ar'[x]? = none) :
    ∀ (f bi : Nat), bfind ar' f bi id = bfind ar f bi id := by
  intro f
  induction f with
  | zero => intro bi; rfl
  | succ f ih =>
    intro bi
    simp only [bfind]
    cases hb : ar[bi]? with
    | none => rw [hnone bi hb]
    | some b =>
      obtain ⟨b', hb', hp, hg⟩ := hsome bi b hb
      rw [hb']
      simp only [hg, hp]
      cases b.hmap.get? id with
      | some x => rfl
      | none =>
        simp only
        cases b.parent with
        | none => rfl
        | some p => exact ih p

theorem bfind_none_of_maps (ar : Arena) (id : Nat)
    (h : ∀ (x : Nat) (b : Branch), ar[x]? = some b → b.hmap.get? id = none) :
    ∀ (f bi : Nat), bfind ar f bi id = none := by
  intro f
  induction f with
  | zero => intro bi; rfl
  | succ f ih =>
    intro bi
    simp only [bfind]
    cases hb : ar[bi]? with
    | none => rfl
    | some b =>
      simp only [h bi b hb]
      cases b.parent with
      | none => rfl
      | some p => exact ih p

theorem length_eq_of_getElem?_map {α : Type} (l l' : List α) (g : Nat → α → α)
    (h : ∀ x : Nat, l'[x]? = (l[x]?).map (g x)) : l'.length = l.length := by
  have h1 := h l.length
  have h2 := h l'.length
  rw [List.getElem?_eq_none (Nat.le_refl _)] at h1
  rw [List.getElem?_eq_none (Nat.le_refl _)] at h2
  simp only [Option.map_none] at h1
  have a := List.getElem?_eq_none_iff.mp h1
  have b : l.length ≤ l'.length := by
    cases hx : l[l'.length]? with
    | none => exact List.getElem?_eq_none_iff.mp hx
    | some v => rw [hx] at h2; cases h2
  omega

/-- **Clean does not change what the repository reports** (root best branch, in-memory part and
    lookups by hash): tip height, hash and work; the best-chain header at every height that stays
    in memory; the height reported for EVERY hash, pruned or not. -/
theorem clean_root_reads (r : Repo) (hs : StreamWF r) (hcm : HeightsComplete r) (hroot : r.longest = 0)
    (hlen : 0 < r.arena.length) (depth : Int) (hd : 0 ≤ depth) (r' : Repo) (hc : cleanWith r depth = (r', none)) :
    tipHeight r' = tipHeight r ∧ tipId r' = tipId r ∧ tipWork r' = tipWork r ∧
    (∃ P : Int, P ≤ tipHeight r - depth ∧ (∀ k : Int, P ≤ k → r'.at r'.longest k = r.at r.longest k) ∧
      (∀ k : Int, k < P → r'.at r'.longest k = none)) ∧
    (∀ id, hashHeight r' id = hashHeight r id) := by
  have hw := hs.chain.wf.link
  have hids := hs.chain.wf.ids
  obtain ⟨P, hPle, hside, harena, hbr, hlg, hhe, hcfg, _⟩ := clean_root_effect r hs hroot hlen depth hd r' hc
  have hb0 : r.arena[0]? = some (r.br 0) := by
    unfold Repo.br; rw [List.getElem?_eq_getElem hlen]; rfl
  have hl0 := hw.each 0 _ hb0
  have hpar0 : (r.br 0).parent = none := by
    cases hp : (r.br 0).parent with
    | none => rfl
    | some p => have := hw.dec 0 _ hb0 p hp; omega
  have hph0 : (r.br 0).parentHeight = -1 := hs.chain.root 0 _ hb0 hpar0
  have hhe0 := branch_height_eq _ hl0.off
  have hPlt : P < ((r.br 0).headers.length : Int) := by omega
  obtain ⟨q1, q2, q3, q4, q5, q6, q7⟩ := root_pruned (r.br 0) hph0 hl0.off P hPlt
  have hb0' : r'.arena[0]? = some (prunedBranch P (r.br 0)) := by rw [harena 0, hb0]; simp
  have hbr0' : r'.br 0 = prunedBranch P (r.br 0) := by unfold Repo.br; rw [hb0']; rfl
  have hlen' : r'.arena.length = r.arena.length :=
    length_eq_of_getElem?_map r.arena r'.arena (fun x b => if x = 0 then prunedBranch P b else b) harena
  have hat : ∀ (rr : Repo) (b : Branch), rr.arena[0]? = some b → b.parent = none → ∀ k : Int,
      rr.at 0 k = if k > b.parentHeight then getI b.headers (k - b.parentHeight - b.offset) else none := by
    intro rr b hb hp k
    unfold Repo.at Repo.fuel
    simp only [atHeight, hb, hp]
  refine ⟨?_, ?_, ?_, ⟨P, ?_, ?_, ?_⟩, ?_⟩
  · unfold tipHeight; rw [hlg, hroot, hbr0', q3]
  · unfold tipId Repo.lastOf; rw [hlg, hroot, hbr0', q4]
  · unfold tipWork Repo.lastOf; rw [hlg, hroot, hbr0', q4]
  · unfold tipHeight; rw [hroot]; exact hPle
  · intro k hk
    rw [hlg, hroot, hat r' _ hb0' (by rw [q1]; exact hpar0) k, hat r _ hb0 hpar0 k, q2, hph0]
    by_cases hk1 : k > -1
    · simp only [hk1, ↓reduceIte]
      have := q5 k hk
      rw [q2, hph0] at this
      exact this
    · simp only [hk1, ↓reduceIte]
  · intro k hk
    rw [hlg, hroot, hat r' _ hb0' (by rw [q1]; exact hpar0) k, q2]
    by_cases hk1 : k > -1
    · simp only [hk1, ↓reduceIte]
      have := q6 k hk
      rw [q2] at this
      exact this
    · simp only [hk1, ↓reduceIte]
  · intro id
    have hfuel : r'.fuel = r.fuel := by unfold Repo.fuel; rw [hlen']
    -- is the hash one of the pruned best-chain headers?
    by_cases hdrop : ∃ d ∈ (r.br 0).headers.take P.toNat, d.hdr.id = id
    · -- yes: no branch map has it any more; the long-lived map answers
      obtain ⟨d, hdm, hdid⟩ := hdrop
      obtain ⟨j, hj⟩ := List.getElem?_of_mem hdm
      rw [List.getElem?_take] at hj
      split at hj
      · rename_i hjlt
        have hheld : HeldAt r.arena 0 id ((r.br 0).parentHeight + 1 + (j : Int)) := ⟨r.br 0, j, d, hb0, hj, hdid, rfl⟩
        have hnone' : ∀ (x : Nat) (b : Branch), r'.arena[x]? = some b → b.hmap.get? id = none := by
          intro x b hb
          rw [harena x] at hb
          cases hx : r.arena[x]? with
          | none => rw [hx] at hb; cases hb
          | some bo =>
            rw [hx] at hb
            simp only [Option.map_some, Option.some.injEq] at hb
            by_cases hx0 : x = 0
            · subst hx0
              rw [hb0] at hx; simp only [Option.some.injEq] at hx; subst hx
              simp only [↓reduceIte] at hb
              rw [← hb, q7 id]
              simp only [show (∃ d ∈ (r.br 0).headers.take P.toNat, d.hdr.id = id) from ⟨d, hdm, hdid⟩, ↓reduceIte]
            · simp only [hx0, ↓reduceIte] at hb
              rw [← hb]
              cases hg : bo.hmap.get? id with
              | none => rfl
              | some v =>
                obtain ⟨k, d2, hk, hid2, hv⟩ := ((hids.exact x bo hx) id v).mp hg
                have := (heldAt_unique r.arena r.branches hids x 0 id _ _ ⟨bo, k, d2, hx, hk, hid2, hv⟩ hheld).1
                exact absurd this hx0
        have hbf' : r'.branchesFind id = none := by
          unfold Repo.branchesFind
          rw [List.findSome?_eq_none_iff]
          intro bi _
          unfold Repo.find
          rw [bfind_none_of_maps r'.arena id hnone']
          rfl
        have hsome := branchesFind_of_held r hids 0 id _ hheld
        obtain ⟨y, hy⟩ := Option.isSome_iff_exists.mp hsome
        obtain ⟨bi, hh⟩ := y
        have hown := branchesFind_owner r hw hids hs.chain.wf.list id bi hh hy
        have hheq := (heldAt_unique r.arena r.branches hids bi 0 id _ _ hown hheld).2
        unfold hashHeight
        rw [hbf', hy, hhe]
        simp only
        rw [hcm 0 id _ hheld, hheq]
      · cases hj
    · -- no: every branch map answers as before
      have hcong : ∀ (f bi : Nat), bfind r'.arena f bi id = bfind r.arena f bi id := by
        apply bfind_congr
        · intro x b hb
          refine ⟨if x = 0 then prunedBranch P b else b, by rw [harena x, hb]; rfl, ?_, ?_⟩
          · by_cases hx0 : x = 0
            · subst hx0
              rw [hb0] at hb; simp only [Option.some.injEq] at hb; subst hb
              simp only [↓reduceIte]; exact q1
            · simp only [hx0, ↓reduceIte]
          · by_cases hx0 : x = 0
            · subst hx0
              rw [hb0] at hb; simp only [Option.some.injEq] at hb; subst hb
              simp only [↓reduceIte]
              rw [q7 id]
              simp only [hdrop, ↓reduceIte]
            · simp only [hx0, ↓reduceIte]
        · intro x hx; rw [harena x, hx]; rfl
      have hbf : r'.branchesFind id = r.branchesFind id := by
        unfold Repo.branchesFind Repo.find
        rw [hbr, hfuel]
        congr 1
        funext bi
        rw [hcong]
      unfold hashHeight
      rw [hbf, hhe]

/-! ### the main-chain files written by `saveMainBranch` -/

theorem lookup_filter_ne' {β : Type} (m : List (Nat × β)) (k k' : Nat) (h : k' ≠ k) :
    List.lookup k' (m.filter (fun e => e.1 != k)) = List.lookup k' m := by
  induction m with
  | nil => rfl
  | cons e rest ih =>
    obtain ⟨a, b⟩ := e
    by_cases hak : a = k
    · subst hak
      have : (k' == a) = false := by simpa using h
      simp [List.filter, List.lookup, this, ih]
    · have hf : ((a, b).1 != k) = true := by simpa using hak
      simp only [List.filter, hf, List.lookup]
      by_cases hk : k' = a
      · subst hk; simp
      · have : (k' == a) = false := by simpa using hk
        simp only [this]; exact ih

theorem lookup_assocSet {β : Type} (m : List (Nat × β)) (k k' : Nat) (v : β) :
    List.lookup k' (assocSet m k v) = if k' = k then some v else List.lookup k' m := by
  unfold assocSet
  by_cases h : k' = k
  · subst h; simp [List.lookup]
  · have : (k' == k) = false := by simpa using h
    simp only [List.lookup, this, h, ↓reduceIte]
    exact lookup_filter_ne' m k k' h

/-- headers per file, as a natural number. -/
abbrev H : Nat := Facts.headersPerFile

theorem hpf_eq : hpf = (H : Int) := rfl
theorem H_pos : 0 < H := by decide

/-- the files hold `done[k]` for every `k < upto`, at record `k % H` of file `k / H`. -/
def FilesOK (main : List (Nat × List HData)) (done : List HData) (upto : Nat) : Prop :=
  ∀ k < upto, ∃ recs, List.lookup (k / H) main = some recs ∧ recs[k % H]? = done[k]?

theorem saveMainGo_spec : ∀ (hs : List HData) (r : Repo) (fn : Nat) (buf done : List HData),
    done.length = fn * H + buf.length → buf.length < H → buf = done.drop (fn * H) →
    FilesOK r.store.main done (fn * H) →
    ∃ fn1 : Nat, (saveMainBranch.go hs r (fn : Int) (done.length : Int) buf).2.1 = (fn1 : Int) ∧
      (done ++ hs).length = fn1 * H + (saveMainBranch.go hs r (fn : Int) (done.length : Int) buf).2.2.length ∧
      (saveMainBranch.go hs r (fn : Int) (done.length : Int) buf).2.2.length < H ∧
      (saveMainBranch.go hs r (fn : Int) (done.length : Int) buf).2.2 = (done ++ hs).drop (fn1 * H) ∧
      FilesOK (saveMainBranch.go hs r (fn : Int) (done.length : Int) buf).1.store.main (done ++ hs) (fn1 * H) := by
  intro hs
  induction hs with
  | nil =>
    intro r fn buf done hlen hbuf hdrop hfiles
    simp only [saveMainBranch.go, List.append_nil]
    exact ⟨fn, rfl, hlen, hbuf, hdrop, hfiles⟩
  | cons d rest ih =>
    intro r fn buf done hlen hbuf hdrop hfiles
    simp only [saveMainBranch.go]
    have hdone' : (done ++ [d]).length = done.length + 1 := by simp
    have hcast : ((done.length : Int) + 1) = ((done ++ [d]).length : Int) := by rw [hdone']; omega
    by_cases hfull : (done.length : Int) + 1 = ((fn : Int) + 1) * hpf
    · -- the file is complete: written, next file starts empty
      rw [if_pos hfull]
      have hfullN : done.length + 1 = (fn + 1) * H := by
        rw [hpf_eq] at hfull
        have : ((done.length + 1 : Nat) : Int) = (((fn + 1) * H : Nat) : Int) := by push_cast; omega
        exact_mod_cast this
      have hres := ih (r.emit (.mainWrite (fn : Int).toNat (buf ++ [d]))) (fn + 1) [] (done ++ [d])
        (by simp [hfullN]) H_pos
        (by rw [List.drop_eq_nil_of_le]; simp; omega)
        (by
          intro k hk
          have hfn : (fn : Int).toNat = fn := by omega
          simp only [Repo.emit, Store.apply, hfn, lookup_assocSet]
          by_cases hkf : k / H = fn
          · simp only [hkf, ↓reduceIte]
            refine ⟨buf ++ [d], rfl, ?_⟩
            have hkge : fn * H ≤ k := by
              have := Nat.div_mul_le_self k H; rw [hkf] at this; exact this
            have hmod : k % H = k - fn * H := by
              have := Nat.div_add_mod k H; rw [hkf] at this
              rw [Nat.mul_comm] at this; omega
            rw [hmod, hdrop]
            rw [← List.drop_append_of_le_length (by omega)]
            rw [List.getElem?_drop]
            congr 1; omega
          · simp only [hkf, ↓reduceIte]
            have hklt : k < fn * H := by
              have h1 : k / H < fn + 1 := (Nat.div_lt_iff_lt_mul H_pos).mpr hk
              have h2 : k / H < fn := by omega
              exact (Nat.div_lt_iff_lt_mul H_pos).mp h2
            obtain ⟨recs, hr1, hr2⟩ := hfiles k hklt
            refine ⟨recs, hr1, ?_⟩
            rw [hr2, List.getElem?_append_left (by omega)])
      have hcast2 : ((fn : Int) + 1) = ((fn + 1 : Nat) : Int) := by push_cast; rfl
      rw [hcast, hcast2]
      simpa [List.append_assoc] using hres
    · rw [if_neg hfull]
      have hnotfull : done.length + 1 ≠ (fn + 1) * H := by
        intro he
        apply hfull
        rw [hpf_eq]
        have : ((done.length + 1 : Nat) : Int) = (((fn + 1) * H : Nat) : Int) := by rw [he]
        push_cast at this; omega
      have hres := ih r fn (buf ++ [d]) (done ++ [d])
        (by simp; omega)
        (by simp; have : (fn + 1) * H = fn * H + H := by rw [Nat.add_mul]; omega
            omega)
        (by rw [hdrop, List.drop_append_of_le_length (by omega)])
        (by
          intro k hk
          obtain ⟨recs, hr1, hr2⟩ := hfiles k hk
          exact ⟨recs, hr1, by rw [hr2, List.getElem?_append_left (by omega)]⟩)
      rw [hcast]
      simpa [List.append_assoc] using hres

/-- **the main-chain files after `saveMainBranch`** (unpruned root branch): header `k` of the best
    chain is record `k % 1000` of file `k / 1000`, for every height. -/
theorem saveMain_files (r r2 : Repo) (hph : (r.br r.longest).parentHeight = -1) (hoff : (r.br r.longest).offset = 1)
    (h : saveMainBranch r = .ok r2) :
    FilesOK r2.store.main (r.br r.longest).headers (r.br r.longest).headers.length := by
  unfold saveMainBranch saveMainStart at h
  simp only at h
  have hpl : (r.br r.longest).prunedLowest = 0 := by unfold Branch.prunedLowest; omega
  have hno : ¬ ((r.br r.longest).offset ≠ 1 ∧
      (r.br r.longest).prunedLowest - Int.tdiv (r.br r.longest).prunedLowest hpf * hpf > 0) := by
    intro hh; exact hh.1 hoff
  simp only [hno, ↓reduceIte, Except.ok.injEq] at h
  subst h
  rw [hpl]
  have ht0 : Int.tdiv 0 hpf = ((0 : Nat) : Int) := by simp
  rw [ht0]
  obtain ⟨fn1, hf1, hlen1, hbuf1, hdrop1, hfiles1⟩ := saveMainGo_spec (r.br r.longest).headers r 0 [] []
    (by simp) H_pos (by simp) (by intro k hk; omega)
  simp only [List.length_nil, Int.natCast_zero, List.nil_append] at hf1 hlen1 hbuf1 hdrop1 hfiles1
  generalize hgo : saveMainBranch.go (r.br r.longest).headers r ((0 : Nat) : Int) 0 [] = res at hf1 hlen1 hbuf1 hdrop1 hfiles1
  obtain ⟨r1, file1, buf⟩ := res
  simp only at hf1 hlen1 hbuf1 hdrop1 hfiles1 ⊢
  subst hf1
  intro k hk
  have hfn : ((fn1 : Int)).toNat = fn1 := by omega
  have hfn2 : ((fn1 : Int) + 1).toNat = fn1 + 1 := by omega
  simp only [Repo.emit, Store.apply, hfn, hfn2]
  have hkdiv : k / H ≤ fn1 := by
    have : k < (fn1 + 1) * H := by rw [Nat.add_mul]; omega
    have := (Nat.div_lt_iff_lt_mul H_pos).mpr this
    omega
  rw [lookup_filter_ne' _ _ _ (by omega), lookup_assocSet]
  by_cases hkf : k / H = fn1
  · simp only [hkf, ↓reduceIte]
    refine ⟨buf, rfl, ?_⟩
    have hkge : fn1 * H ≤ k := by
      have := Nat.div_mul_le_self k H; rw [hkf] at this; exact this
    have hmod : k % H = k - fn1 * H := by
      have := Nat.div_add_mod k H; rw [hkf] at this
      rw [Nat.mul_comm] at this; omega
    rw [hmod, hdrop1, List.getElem?_drop]
    congr 1; omega
  · simp only [hkf, ↓reduceIte]
    have hklt : k < fn1 * H := by
      have h2 : k / H < fn1 := by omega
      exact (Nat.div_lt_iff_lt_mul H_pos).mp h2
    exact hfiles1 k hklt

/-- **Clean keeps every best-chain height readable, unchanged** (root best branch): for every height
    `k ≥ 0`, `Header(k)` / `Hash(k)` — served from memory or, below the prune height, from the
    1000-header files Clean just wrote — returns what it returned before. -/
theorem clean_root_headerAt (r : Repo) (hs : StreamWF r) (hroot : r.longest = 0) (hlen : 0 < r.arena.length)
    (depth : Int) (hd : 0 ≤ depth) (r' : Repo) (hc : cleanWith r depth = (r', none)) (k : Int) (hk : 0 ≤ k) :
    headerAt r' k = headerAt r k := by
  have hw := hs.chain.wf.link
  obtain ⟨P, _, _, harena, _, hlg, _, _, r2, hsm, hmain⟩ := clean_root_effect r hs hroot hlen depth hd r' hc
  -- the same P as in `clean_root_reads`? we only need its own consequences, re-derived here
  have hb0 : r.arena[0]? = some (r.br 0) := by
    unfold Repo.br; rw [List.getElem?_eq_getElem hlen]; rfl
  have hl0 := hw.each 0 _ hb0
  have hpar0 : (r.br 0).parent = none := by
    cases hp : (r.br 0).parent with
    | none => rfl
    | some p => have := hw.dec 0 _ hb0 p hp; omega
  have hph0 : (r.br 0).parentHeight = -1 := hs.chain.root 0 _ hb0 hpar0
  have hhe0 := branch_height_eq _ hl0.off
  have hfiles := saveMain_files r r2 (by rw [hroot]; exact hph0) (by rw [hroot]; exact hl0.off) hsm
  rw [hroot] at hfiles
  have hb0' : r'.arena[0]? = some (prunedBranch P (r.br 0)) := by rw [harena 0, hb0]; simp
  have hbr0' : r'.br 0 = prunedBranch P (r.br 0) := by unfold Repo.br; rw [hb0']; rfl
  have hat : ∀ (rr : Repo) (b : Branch), rr.arena[0]? = some b → b.parent = none → ∀ k : Int,
      rr.at 0 k = if k > b.parentHeight then getI b.headers (k - b.parentHeight - b.offset) else none := by
    intro rr b hb hp k
    unfold Repo.at Repo.fuel
    simp only [atHeight, hb, hp]
  by_cases hP : P < ((r.br 0).headers.length : Int)
  · obtain ⟨q1, q2, q3, q4, q5, q6, q7⟩ := root_pruned (r.br 0) hph0 hl0.off P hP
    unfold headerAt
    rw [hlg, hroot, hbr0', q3]
    by_cases hbeyond : k > (r.br 0).height
    · simp only [hbeyond, ↓reduceIte]
    · simp only [hbeyond, ↓reduceIte]
      -- before Clean the height is in memory
      have hklt : k.toNat < (r.br 0).headers.length := by omega
      have hold : r.at 0 k = some ((r.br 0).headers[k.toNat]) := by
        rw [hat r _ hb0 hpar0 k, hph0]
        have : k > -1 := by omega
        simp only [this, ↓reduceIte]
        unfold getI
        have hoff := hl0.off
        have n : ¬ (k - -1 - (r.br 0).offset < 0) := by omega
        simp only [n, ↓reduceIte]
        have e : (k - -1 - (r.br 0).offset).toNat = k.toNat := by omega
        rw [e, List.getElem?_eq_getElem hklt]
      rw [hold]
      by_cases hkP : P ≤ k
      · have hnew : r'.at 0 k = r.at 0 k := by
          rw [hat r' _ hb0' (by rw [q1]; exact hpar0) k, hat r _ hb0 hpar0 k, q2, hph0]
          by_cases hk1 : k > -1
          · simp only [hk1, ↓reduceIte]
            have := q5 k hkP
            rw [q2, hph0] at this
            exact this
          · simp only [hk1, ↓reduceIte]
        rw [hnew, hold]
      · have hnew : r'.at 0 k = none := by
          rw [hat r' _ hb0' (by rw [q1]; exact hpar0) k, q2]
          have hk1 : k > -1 := by omega
          simp only [hk1, ↓reduceIte]
          have := q6 k (by omega)
          rw [q2] at this
          exact this
        rw [hnew]
        simp only
        -- served from the files
        obtain ⟨recs, hr1, hr2⟩ := hfiles k.toNat hklt
        have hkn : k = ((k.toNat : Nat) : Int) := by omega
        have hfile : Int.tdiv k hpf = ((k.toNat / H : Nat) : Int) := by
          rw [hpf_eq]
          conv => lhs; rw [hkn]
          rfl
        unfold getData
        rw [hfile, hmain]
        rw [Int.toNat_natCast, hr1]
        simp only
        have hH : H = 1000 := rfl
        have hidx : k - ((k.toNat / H : Nat) : Int) * hpf = ((k.toNat % H : Nat) : Int) := by
          rw [hpf_eq, hH]
          omega
        rw [hidx]
        unfold getI
        have hnn : ¬ (((k.toNat % H : Nat) : Int) < 0) := by omega
        simp only [hnn, ↓reduceIte, Int.toNat_natCast]
        rw [hr2, List.getElem?_eq_getElem hklt]
  · -- cannot happen: P ≤ tip − depth < length
    exfalso
    obtain ⟨P', hP', _⟩ := clean_root_effect r hs hroot hlen depth hd r' hc
    omega

end BRV.Repo
