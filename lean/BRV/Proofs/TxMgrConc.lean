/-
C06 helper lemmas, part 7 (interleaving semantics): the shape of a thread step, and
"received ⇔ some AddTx call for the txid has passed its lock sections".
-/
import BRV.Proofs.TxMgrHist
import BRV.Proofs.TxMgrPoll
import BRV.Proofs.TxMgrDeliver

namespace BRV.TxMgr

/-- one program-counter transition together with its effect on the store. -/
inductive TStep (env : Env) (st : Store) : Thread → Store → Thread → Prop
  | annBucket (node : NodeId) (tx : TxId) :
      TStep env st (.annBucket node tx) (annBucketSec st node tx).1
        (if (annBucketSec st node tx).2 = true then .annDone node tx true else .annEntry node tx)
  | annEntry (node : NodeId) (tx : TxId) :
      TStep env st (.annEntry node tx) (annEntrySec env st node tx).1 (.annDone node tx (annEntrySec env st node tx).2)
  | dlvBucket (node : NodeId) (tx : TxId) (now : Nat) (intr : Bool) :
      TStep env st (.dlvBucket node tx now intr) (dlvBucketSec st tx now).1
        (if (dlvBucketSec st tx now).2 = true then .dlvSend tx intr else .dlvEntry node tx now intr)
  | dlvEntry (node : NodeId) (tx : TxId) (now : Nat) (intr : Bool) :
      TStep env st (.dlvEntry node tx now intr) (dlvEntrySec st tx now).1
        (if (dlvEntrySec st tx now).2 = true then .dlvSend tx intr else .dlvDone tx false false)
  | send (tx : TxId) (intr : Bool) (st' : Store) : sendSec st tx = some st' →
      TStep env st (.dlvSend tx intr) st' (.dlvDone tx true true)
  | drop (tx : TxId) : TStep env st (.dlvSend tx true) (dropSec st tx) (.dlvDone tx true false)
  | pollNextNil (node : NodeId) (max : Int) (acc : List TxId) :
      TStep env st (.pollNext node max [] acc) st (.pollDone node acc)
  | pollNextCons (node : NodeId) (max : Int) (b : Nat) (bs : List Nat) (acc : List TxId) :
      TStep env st (.pollNext node max (b :: bs) acc) st (.pollIn node max b bs (bucketKeys st b) acc)
  | pollInNil (node : NodeId) (max : Int) (b : Nat) (order : List Nat) (acc : List TxId) :
      TStep env st (.pollIn node max b order [] acc) st
        (if max ≤ (acc.length : Int) then .pollDone node acc else .pollNext node max order acc)
  | pollInEntry (node : NodeId) (max : Int) (b : Nat) (order : List Nat) (todo acc : List TxId)
      (choice : Nat) (k : TxId) : todo[choice]? = some k →
      TStep env st (.pollIn node max b order todo acc) (pollEntrySec env st node k).1
        (.pollIn node max b order (todo.eraseIdx choice)
          (if (pollEntrySec env st node k).2 = true then acc ++ [k] else acc))

theorem stepThread_shape {env : Env} {c c' : Config} {i choice : Nat}
    (h : stepThread env c i choice = some c') :
    ∃ t t', c.threads[i]? = some t ∧ c'.threads = c.threads.set i t' ∧ TStep env c.st t c'.st t' := by
  unfold BRV.TxMgr.stepThread at h
  split at h
  · cases h
  · rename_i t ht
    refine ⟨t, ?_⟩
    split at h
    · rename_i node tx
      split at h
      · cases h
      · simp only [Option.some.injEq] at h; subst h
        exact ⟨_, ht, rfl, .annBucket node tx⟩
    · rename_i node tx
      simp only [Option.some.injEq] at h; subst h
      exact ⟨_, ht, rfl, .annEntry node tx⟩
    · cases h
    · rename_i node tx now intr
      split at h
      · cases h
      · simp only [Option.some.injEq] at h; subst h
        exact ⟨_, ht, rfl, .dlvBucket node tx now intr⟩
    · rename_i node tx now intr
      simp only [Option.some.injEq] at h; subst h
      exact ⟨_, ht, rfl, .dlvEntry node tx now intr⟩
    · rename_i tx intr
      split at h
      · split at h
        · rename_i st' hs
          simp only [Option.some.injEq] at h; subst h
          exact ⟨_, ht, rfl, .send tx intr st' hs⟩
        · cases h
      · split at h
        · rename_i hintr
          simp only [Option.some.injEq] at h; subst h
          subst hintr
          exact ⟨_, ht, rfl, .drop tx⟩
        · cases h
    · cases h
    · rename_i node max order acc
      split at h
      · simp only [Option.some.injEq] at h; subst h
        exact ⟨_, ht, rfl, .pollNextNil node max acc⟩
      · rename_i b bs
        simp only [Option.some.injEq] at h; subst h
        exact ⟨_, ht, rfl, .pollNextCons node max b bs acc⟩
    · rename_i node max b order todo acc
      split at h
      · simp only [Option.some.injEq] at h; subst h
        exact ⟨_, ht, rfl, .pollInNil node max b order acc⟩
      · rename_i x xs
        split at h
        · cases h
        · rename_i k hk
          simp only [Option.some.injEq] at h; subst h
          exact ⟨_, ht, rfl, .pollInEntry node max b order (x :: xs) acc choice k hk⟩
    · cases h

/-! ### received ⇔ an AddTx call passed its lock sections -/

/-- the goroutine is an AddTx call for `tx` that has finished its lock sections. -/
def passedDlv (tx : TxId) : Thread → Bool
  | .dlvSend t _ => t == tx
  | .dlvDone t _ _ => t == tx
  | _ => false

def atEntry (tx : TxId) : Thread → Bool
  | .dlvEntry _ t _ _ => t == tx
  | _ => false

structure InvD (c : Config) : Prop where
  passed : ∀ tx, recvdB c.st tx = true ↔ 0 < c.threads.countP (passedDlv tx)
  entry : ∀ tx, ∀ t ∈ c.threads, atEntry tx t = true → (c.st.ent tx).isSome = true

theorem Trans.ent_mono {env : Env} {st st' : Store} {tx : TxId} (h : Trans env st tx st') (k : TxId)
    (hk : (st.ent k).isSome = true) : (st'.ent k).isSome = true := by
  by_cases hkt : k = tx
  · subst hkt
    cases h <;> simp_all
  · cases h <;> simp_all

theorem dlvEntrySec_false_recvd (st : Store) (tx : TxId) (now : Nat) (hs : (st.ent tx).isSome = true)
    (h : (dlvEntrySec st tx now).2 = false) : recvdB st tx = true := by
  unfold dlvEntrySec at h
  split at h
  · rename_i hn; simp [hn] at hs
  · rename_i e he
    split at h
    · rename_i t ht; simp [recvdB, he, ht]
    · simp at h

theorem dlvBucketSec_false_some (st : Store) (tx : TxId) (now : Nat) (h : (dlvBucketSec st tx now).2 = false) :
    (st.ent tx).isSome = true := by
  unfold dlvBucketSec at h
  split at h
  · rename_i e he; simp [he]
  · simp at h

/-- facts about one thread step used by `InvD`. -/
theorem TStep.facts {env : Env} {st st' : Store} {t t' : Thread} (h : TStep env st t st' t')
    (hent : ∀ tx, atEntry tx t = true → (st.ent tx).isSome = true) :
    (∀ k, recvdB st k = true → recvdB st' k = true) ∧
    (∀ k, (st.ent k).isSome = true → (st'.ent k).isSome = true) ∧
    (∀ k, passedDlv k t = true → passedDlv k t' = true) ∧
    (∀ k, passedDlv k t' = true → passedDlv k t = false → recvdB st' k = true) ∧
    (∀ k, recvdB st' k = true → recvdB st k = false → passedDlv k t' = true) ∧
    (∀ k, atEntry k t' = true → (st'.ent k).isSome = true) := by
  cases h with
  | annBucket node tx =>
    have htr := annBucketSec_trans env st node tx
    refine ⟨fun k => htr.recvd_mono k, fun k => htr.ent_mono k, ?_, ?_, ?_, ?_⟩
    · intro k hk; simp [passedDlv] at hk
    · intro k hk; split at hk <;> simp [passedDlv] at hk
    · intro k h1 h2; rw [annBucketSec_recvd] at h1; rw [h1] at h2; cases h2
    · intro k hk; split at hk <;> simp [atEntry] at hk
  | annEntry node tx =>
    have htr := annEntrySec_trans env st node tx
    refine ⟨fun k => htr.recvd_mono k, fun k => htr.ent_mono k, ?_, ?_, ?_, ?_⟩
    · intro k hk; simp [passedDlv] at hk
    · intro k hk; simp [passedDlv] at hk
    · intro k h1 h2; rw [annEntrySec_recvd] at h1; rw [h1] at h2; cases h2
    · intro k hk; simp [atEntry] at hk
  | dlvBucket node tx now intr =>
    have htr := dlvBucketSec_trans env st tx now
    refine ⟨fun k => htr.recvd_mono k, fun k => htr.ent_mono k, ?_, ?_, ?_, ?_⟩
    · intro k hk; simp [passedDlv] at hk
    · intro k hk _
      cases hcr : (dlvBucketSec st tx now).2
      · rw [hcr] at hk; simp [passedDlv] at hk
      · rw [hcr] at hk
        simp only [if_true, passedDlv, beq_iff_eq] at hk
        subst hk
        exact (dlvBucketSec_true _ _ _ hcr).2
    · intro k h1 h2
      by_cases hk : k = tx
      · subst hk
        cases hcr : (dlvBucketSec st k now).2
        · rw [dlvBucketSec_false _ _ _ hcr] at h1; rw [h1] at h2; cases h2
        · simp [passedDlv]
      · rw [htr.recvd_other k hk] at h1; rw [h1] at h2; cases h2
    · intro k hk
      cases hcr : (dlvBucketSec st tx now).2
      · rw [hcr] at hk
        simp only [Bool.false_eq_true, if_false, atEntry, beq_iff_eq] at hk
        subst hk
        exact htr.ent_mono _ (dlvBucketSec_false_some _ _ _ hcr)
      · rw [hcr] at hk; simp [atEntry] at hk
  | dlvEntry node tx now intr =>
    have htr := dlvEntrySec_trans env st tx now
    have hsome : (st.ent tx).isSome = true := hent tx (by simp [atEntry])
    refine ⟨fun k => htr.recvd_mono k, fun k => htr.ent_mono k, ?_, ?_, ?_, ?_⟩
    · intro k hk; simp [passedDlv] at hk
    · intro k hk _
      cases hcr : (dlvEntrySec st tx now).2
      · rw [hcr] at hk
        simp only [Bool.false_eq_true, if_false, passedDlv, beq_iff_eq] at hk
        subst hk
        exact htr.recvd_mono _ (dlvEntrySec_false_recvd _ _ _ hsome hcr)
      · rw [hcr] at hk
        simp only [if_true, passedDlv, beq_iff_eq] at hk
        subst hk
        exact (dlvEntrySec_true _ _ _ hcr).2
    · intro k h1 h2
      by_cases hk : k = tx
      · subst hk
        cases hcr : (dlvEntrySec st k now).2
        · rw [dlvEntrySec_false _ _ _ hcr] at h1; rw [h1] at h2; cases h2
        · simp [passedDlv]
      · rw [htr.recvd_other k hk] at h1; rw [h1] at h2; cases h2
    · intro k hk; split at hk <;> simp [atEntry] at hk
  | send tx intr st' hs =>
    have he := sendSec_ent hs
    refine ⟨fun k hk => by rw [recvdB_congr he]; exact hk, fun k hk => by rw [he]; exact hk, ?_, ?_, ?_, ?_⟩
    · intro k hk; simpa [passedDlv] using hk
    · intro k hk hn; simp [passedDlv] at hk hn; exact absurd hk hn
    · intro k h1 h2; rw [recvdB_congr he] at h1; rw [h1] at h2; cases h2
    · intro k hk; simp [atEntry] at hk
  | drop tx =>
    refine ⟨fun k hk => hk, fun k hk => hk, ?_, ?_, ?_, ?_⟩
    · intro k hk; simpa [passedDlv] using hk
    · intro k hk hn; simp [passedDlv] at hk hn; exact absurd hk hn
    · intro k h1 h2; rw [show recvdB (dropSec st tx) k = recvdB st k from rfl] at h1; rw [h1] at h2; cases h2
    · intro k hk; simp [atEntry] at hk
  | pollNextNil node max acc =>
    refine ⟨fun k hk => hk, fun k hk => hk, ?_, ?_, ?_, ?_⟩
    · intro k hk; simp [passedDlv] at hk
    · intro k hk; simp [passedDlv] at hk
    · intro k h1 h2; rw [h1] at h2; cases h2
    · intro k hk; simp [atEntry] at hk
  | pollNextCons node max b bs acc =>
    refine ⟨fun k hk => hk, fun k hk => hk, ?_, ?_, ?_, ?_⟩
    · intro k hk; simp [passedDlv] at hk
    · intro k hk; simp [passedDlv] at hk
    · intro k h1 h2; rw [h1] at h2; cases h2
    · intro k hk; simp [atEntry] at hk
  | pollInNil node max b order acc =>
    refine ⟨fun k hk => hk, fun k hk => hk, ?_, ?_, ?_, ?_⟩
    · intro k hk; simp [passedDlv] at hk
    · intro k hk; split at hk <;> simp [passedDlv] at hk
    · intro k h1 h2; rw [h1] at h2; cases h2
    · intro k hk; split at hk <;> simp [atEntry] at hk
  | pollInEntry node max b order todo acc choice k' hk' =>
    refine ⟨fun k hk => by rw [pollEntrySec_recvd]; exact hk, ?_, ?_, ?_, ?_, ?_⟩
    · intro k hk
      rcases pollEntrySec_cases env st node k' with ⟨_, heq⟩ | ⟨e, he, _, _, _, heq⟩
      · rw [heq]; exact hk
      · rw [heq]
        by_cases hkk : k = k'
        · simp [hkk]
        · simp [hkk]; exact hk
    · intro k hk; simp [passedDlv] at hk
    · intro k hk; simp [passedDlv] at hk
    · intro k h1 h2; rw [pollEntrySec_recvd] at h1; rw [h1] at h2; cases h2
    · intro k hk; simp [atEntry] at hk

theorem InvD.stepThread {env : Env} {c c' : Config} {i choice : Nat} (hd : InvD c)
    (h : stepThread env c i choice = some c') : InvD c' := by
  obtain ⟨t, t', ht, hth, hts⟩ := stepThread_shape h
  have htm := mem_of_getElem? _ _ _ ht
  obtain ⟨f1, f2, f3, f4, f5, f6⟩ := hts.facts (fun tx hx => hd.entry tx t htm hx)
  refine ⟨?_, ?_⟩
  · intro tx
    rw [hth]
    have hcnt := countP_set_add (passedDlv tx) c.threads i t t' ht
    have hold := hd.passed tx
    constructor
    · intro hr'
      cases hr : recvdB c.st tx
      · have := f5 tx hr' hr
        simp only [this, if_true] at hcnt
        cases hpt : passedDlv tx t
        · simp only [hpt, Bool.false_eq_true, if_false] at hcnt; omega
        · have : 0 < c.threads.countP (passedDlv tx) := List.countP_pos_iff.mpr ⟨t, htm, hpt⟩
          simp only [hpt, if_true] at hcnt; omega
      · have hpos := hold.mp hr
        cases hpt : passedDlv tx t
        · simp only [hpt, Bool.false_eq_true, if_false] at hcnt; omega
        · have := f3 tx hpt
          simp only [hpt, this, if_true] at hcnt; omega
    · intro hpos
      cases hr : recvdB c.st tx
      · have hz : c.threads.countP (passedDlv tx) = 0 := by
          cases hc : c.threads.countP (passedDlv tx)
          · rfl
          · have := hold.mpr (by omega); rw [this] at hr; cases hr
        have hpt : passedDlv tx t = false := by
          cases hx : passedDlv tx t
          · rfl
          · have : 0 < c.threads.countP (passedDlv tx) := List.countP_pos_iff.mpr ⟨t, htm, hx⟩
            omega
        have hpt' : passedDlv tx t' = true := by
          cases hx : passedDlv tx t'
          · simp only [hpt, hx, Bool.false_eq_true, if_false, hz] at hcnt; omega
          · rfl
        exact f4 tx hpt' hpt
      · exact f1 tx hr
  · intro tx x hx hax
    rw [hth] at hx
    rcases List.mem_or_eq_of_mem_set hx with h1 | h1
    · exact f2 tx (hd.entry tx x h1 hax)
    · subst h1; exact f6 tx hax

theorem InvD.step {env : Env} {c c' : Config} {a : Action} (hd : InvD c)
    (h : step env c a = some c') : InvD c' := by
  cases a with
  | tick d =>
    simp only [BRV.TxMgr.step, Option.some.injEq] at h; subst h
    exact ⟨hd.passed, hd.entry⟩
  | callAnn node tx =>
    simp only [BRV.TxMgr.step, Option.some.injEq] at h; subst h
    refine ⟨?_, ?_⟩
    · intro k
      simp only [List.countP_append, List.countP_cons, List.countP_nil, passedDlv]
      exact hd.passed k
    · intro k x hx hax
      simp only [List.mem_append, List.mem_singleton] at hx
      rcases hx with hx | rfl
      · exact hd.entry k x hx hax
      · simp [atEntry] at hax
  | callDlv node tx intr =>
    simp only [BRV.TxMgr.step, Option.some.injEq] at h; subst h
    refine ⟨?_, ?_⟩
    · intro k
      simp only [List.countP_append, List.countP_cons, List.countP_nil, passedDlv]
      exact hd.passed k
    · intro k x hx hax
      simp only [List.mem_append, List.mem_singleton] at hx
      rcases hx with hx | rfl
      · exact hd.entry k x hx hax
      · simp [atEntry] at hax
  | callPoll node max order =>
    simp only [BRV.TxMgr.step, Option.some.injEq] at h; subst h
    refine ⟨?_, ?_⟩
    · intro k
      simp only [List.countP_append, List.countP_cons, List.countP_nil, passedDlv]
      exact hd.passed k
    · intro k x hx hax
      simp only [List.mem_append, List.mem_singleton] at hx
      rcases hx with hx | rfl
      · exact hd.entry k x hx hax
      · simp [atEntry] at hax
  | thread i choice => exact hd.stepThread h
  | run =>
    simp only [BRV.TxMgr.step] at h
    split at h
    · cases h
    · rename_i st' hr
      simp only [Option.some.injEq] at h; subst h
      have he := (runSec_ent hr).1
      refine ⟨?_, ?_⟩
      · intro k; rw [recvdB_congr he]; exact hd.passed k
      · intro k x hx hax; simp only [he]; exact hd.entry k x hx hax

theorem invD_init : InvD {} :=
  ⟨(by intro tx; simp [recvdB]), (by intro tx t ht; cases ht)⟩

theorem InvD.reach {env : Env} {c : Config} (h : Reach env c) : InvD c := by
  induction h with
  | init => exact invD_init
  | step c c' a _ hs ih => exact ih.step hs

/-! ### every grant's stamp is the clock at the grant, in every interleaving -/

theorem TStep.grantNow {env : Env} {st st' : Store} {t t' : Thread} (h : TStep env st t st' t') : GrantNow st st' := by
  cases h with
  | annBucket node tx => exact annBucketSec_grantNow st node tx
  | annEntry node tx => exact annEntrySec_grantNow env st node tx
  | dlvBucket node tx now intr =>
    refine ⟨dlvBucketSec_clock st tx now, Or.inl ?_⟩
    unfold dlvBucketSec; split <;> rfl
  | dlvEntry node tx now intr =>
    refine ⟨dlvEntrySec_clock st tx now, Or.inl ?_⟩
    unfold dlvEntrySec; split
    · rfl
    · split <;> rfl
  | send tx intr st' hs =>
    unfold sendSec at hs; split at hs
    · simp only [Option.some.injEq] at hs; subst hs; exact ⟨rfl, Or.inl rfl⟩
    · cases hs
  | drop tx => exact ⟨rfl, Or.inl rfl⟩
  | pollNextNil node max acc => exact ⟨rfl, Or.inl rfl⟩
  | pollNextCons node max b bs acc => exact ⟨rfl, Or.inl rfl⟩
  | pollInNil node max b order acc => exact ⟨rfl, Or.inl rfl⟩
  | pollInEntry node max b order todo acc choice k hk => exact pollEntrySec_grantNow env st node k

theorem StampEq.step {env : Env} {c c' : Config} {a : Action} (hs : StampEq c.st)
    (h : step env c a = some c') : StampEq c'.st := by
  cases a with
  | tick d => simp only [BRV.TxMgr.step, Option.some.injEq] at h; subst h; exact hs
  | callAnn node tx => simp only [BRV.TxMgr.step, Option.some.injEq] at h; subst h; exact hs
  | callDlv node tx intr => simp only [BRV.TxMgr.step, Option.some.injEq] at h; subst h; exact hs
  | callPoll node max order => simp only [BRV.TxMgr.step, Option.some.injEq] at h; subst h; exact hs
  | thread i choice =>
    obtain ⟨t, t', _, _, hts⟩ := stepThread_shape h
    exact hts.grantNow.stampEq hs
  | run =>
    simp only [BRV.TxMgr.step] at h
    split at h
    · cases h
    · rename_i st' hr
      simp only [Option.some.injEq] at h; subst h
      intro g; rw [(runSec_ent hr).2.1]; exact hs g

theorem StampEq.reach {env : Env} {c : Config} (h : Reach env c) : StampEq c.st := by
  induction h with
  | init => intro g hg; cases hg
  | step c c' a _ hs ih => exact ih.step hs

end BRV.TxMgr
