/-
Consequences of the identity invariant: what the hash lookups return.
-/
import BRV.Proofs.RepoIds

namespace BRV.Repo

/-- header `id` sits in branch `bj` itself at height `h`. -/
def HeldAt (ar : Arena) (bj : Nat) (id : Nat) (h : Int) : Prop :=
  ∃ (b : Branch) (k : Nat) (d : HData), ar[bj]? = some b ∧ b.headers[k]? = some d ∧ d.hdr.id = id ∧
    h = b.parentHeight + 1 + (k : Int)

/-- `Branch.Find` answers from the own map of the branch or of one of its ancestors. -/
theorem bfind_owner (ar : Arena) (hp : ParentsDecrease ar) (f bi id : Nat) (h : Int)
    (hf : bfind ar f bi id = some h) : ∃ (a : Nat) (b : Branch), a ≤ bi ∧ ar[a]? = some b ∧ b.hmap.get? id = some h := by
  induction f generalizing bi with
  | zero => simp [bfind] at hf
  | succ f ih =>
    unfold bfind at hf
    cases hb : ar[bi]? with
    | none => rw [hb] at hf; cases hf
    | some b =>
      rw [hb] at hf
      simp only at hf
      cases hg : b.hmap.get? id with
      | some x =>
        rw [hg] at hf
        simp only [Option.some.injEq] at hf
        exact ⟨bi, b, Nat.le_refl _, hb, by rw [hg, hf]⟩
      | none =>
        rw [hg] at hf
        simp only at hf
        cases hpar : b.parent with
        | none => rw [hpar] at hf; cases hf
        | some p =>
          rw [hpar] at hf
          obtain ⟨a, b', hle, hb', hg'⟩ := ih p hf
          have := hp bi b hb p hpar
          exact ⟨a, b', by omega, hb', hg'⟩

theorem heldAt_unique (ar : Arena) (bs : List Nat) (hi : IdWF ar bs) (bi bj id : Nat) (h h' : Int)
    (h1 : HeldAt ar bi id h) (h2 : HeldAt ar bj id h') : bi = bj ∧ h = h' := by
  obtain ⟨b, k, d, hb, hk, hid, hh⟩ := h1
  obtain ⟨c, l, e, hc, hl, hid', hh'⟩ := h2
  obtain ⟨rfl, rfl⟩ := hi.uniq bi bj b c k l d e hb hc hk hl (by rw [hid, hid'])
  rw [hb] at hc
  simp only [Option.some.injEq] at hc
  subst hc
  exact ⟨rfl, by rw [hh, hh']⟩

/-- a held header is what `AtHeight` of its branch returns at its height. -/
theorem heldAt_atH (ar : Arena) (hw : LinkWF ar) (bj id : Nat) (h : Int) (hh : HeldAt ar bj id h) :
    ∃ d, atH ar bj h = some d ∧ d.hdr.id = id := by
  obtain ⟨b, k, d, hb, hk, hid, rfl⟩ := hh
  refine ⟨d, ?_, hid⟩
  rw [atH_unfold ar hw.dec bj b hb]
  have hoff := (hw.each bj b hb).off
  have : b.parentHeight + 1 + (k : Int) > b.parentHeight := by omega
  simp only [this, ↓reduceIte]
  unfold getI
  have h2 : ¬ (b.parentHeight + 1 + (k : Int) - b.parentHeight - b.offset < 0) := by omega
  simp only [h2, ↓reduceIte]
  have h3 : (b.parentHeight + 1 + (k : Int) - b.parentHeight - b.offset).toNat = k := by omega
  rw [h3]; exact hk

/-- the list of tracked branches: ascending arena indices (parents before children), all valid. -/
structure ListWF (ar : Arena) (bs : List Nat) : Prop where
  sorted : bs.Pairwise (· < ·)
  valid : ∀ bi ∈ bs, bi < ar.length

/-- **`Branches.Find` answers with the branch that holds the header itself, and its position there.** -/
theorem branchesFind_owner (r : Repo) (hw : LinkWF r.arena) (hi : IdWF r.arena r.branches)
    (hl : ListWF r.arena r.branches) (id bi : Nat) (h : Int) (hf : r.branchesFind id = some (bi, h)) :
    HeldAt r.arena bi id h := by
  unfold Repo.branchesFind at hf
  rw [List.findSome?_eq_some_iff] at hf
  obtain ⟨l₁, a, l₂, hsplit, hfa, hnone⟩ := hf
  cases hfind : r.find a id with
  | none => rw [hfind] at hfa; cases hfa
  | some h' =>
    rw [hfind] at hfa
    simp only [Option.map_some, Option.some.injEq, Prod.mk.injEq] at hfa
    obtain ⟨rfl, rfl⟩ := hfa
    obtain ⟨own, b, hle, hb, hg⟩ := bfind_owner r.arena hw.dec _ a id h' hfind
    obtain ⟨k, d, hk, hid, hh⟩ := ((hi.exact own b hb) id h').mp hg
    have hheld : HeldAt r.arena own id h' := ⟨b, k, d, hb, hk, hid, hh⟩
    have hlt : own < r.arena.length := by
      by_cases hc : own < r.arena.length
      · exact hc
      · rw [List.getElem?_eq_none (by omega)] at hb; cases hb
    have hmem := hi.listed own hlt
    rw [hsplit] at hmem
    have hsorted := hl.sorted
    rw [hsplit, List.pairwise_append] at hsorted
    obtain ⟨_, hs2, _⟩ := hsorted
    rw [List.pairwise_cons] at hs2
    rcases List.mem_append.mp hmem with hm | hm
    · have := hnone own hm
      simp only [Option.map_eq_none_iff] at this
      unfold Repo.find Repo.fuel at this
      have hn := bfind_own_none r.arena _ own id b hb this
      rw [hn] at hg; cases hg
    · rcases List.mem_cons.mp hm with he | hm2
      · rw [← he]; exact hheld
      · have := hs2.1 own hm2
        omega

/-! ### preservation of the list shape -/

theorem listWF_processHeader (r : Repo) (h : Hdr) (ok : Bool) (hl : ListWF r.arena r.branches)
    (hnc : ∀ pb ph lst, precheck r h ok = .inr (pb, ph, lst) →
      Int.tmod ((r.br pb).height + 1) (Facts.autoCleanModulus : Int) ≠ 0) :
    ListWF (processHeader r h ok).1.arena (processHeader r h ok).1.branches := by
  cases processHeader_shape r h ok hnc with
  | same ha hb _ => rw [ha, hb]; exact hl
  | fork pb ph lst nb hp hne hn ha hb _ =>
    rw [ha, hb]
    constructor
    · rw [List.pairwise_append]
      refine ⟨hl.sorted, by simp, ?_⟩
      intro a hma b hmb
      simp only [List.mem_cons, List.not_mem_nil, or_false] at hmb
      rw [hmb]; exact hl.valid a hma
    · intro bi hm
      simp only [List.length_append, List.length_cons, List.length_nil]
      rcases List.mem_append.mp hm with hm | hm
      · have := hl.valid bi hm; omega
      · simp only [List.mem_cons, List.not_mem_nil, or_false] at hm; omega
  | extend pb ph lst w hp hprev hlen hbw ha hb _ =>
    rw [ha, hb]
    exact ⟨hl.sorted, by intro bi hm; rw [List.length_set]; exact hl.valid bi hm⟩

theorem listWF_submitAll (r : Repo) (hs : List (Hdr × Bool)) (hl : ListWF r.arena r.branches)
    (hq : NoAutoClean r hs) : ListWF (submitAll r hs).arena (submitAll r hs).branches := by
  induction hs generalizing r with
  | nil => exact hl
  | cons x xs ih =>
    obtain ⟨h1, h2⟩ := hq
    simp only [submitAll, List.foldl_cons]
    exact ih _ (listWF_processHeader r x.1 x.2 hl h1) h2

/-! ### the session-wide heights map -/

/-- every entry of `repo.heights` names a height at which that header is held. -/
def HeightsSound (r : Repo) : Prop :=
  ∀ id h, r.heights.get? id = some h → ∃ bj, HeldAt r.arena bj id h

theorem heldAt_append (ar : Arena) (nb : Branch) (bj id : Nat) (h : Int) (hh : HeldAt ar bj id h) :
    HeldAt (ar ++ [nb]) bj id h := by
  obtain ⟨b, k, d, hb, hk, hid, hx⟩ := hh
  have hlt : bj < ar.length := by
    by_cases hc : bj < ar.length
    · exact hc
    · rw [List.getElem?_eq_none (by omega)] at hb; cases hb
  exact ⟨b, k, d, by rw [List.getElem?_append_left hlt]; exact hb, hk, hid, hx⟩

theorem heldAt_set (ar : Arena) (pb : Nat) (b b2 : Branch) (x : HData) (hb : ar[pb]? = some b)
    (h1 : b2.headers = b.headers ++ [x]) (h2 : b2.parentHeight = b.parentHeight)
    (bj id : Nat) (h : Int) (hh : HeldAt ar bj id h) : HeldAt (ar.set pb b2) bj id h := by
  obtain ⟨c, k, d, hc, hk, hid, hx⟩ := hh
  have hlt : pb < ar.length := by
    by_cases hc : pb < ar.length
    · exact hc
    · rw [List.getElem?_eq_none (by omega)] at hb; cases hb
  by_cases he : bj = pb
  · subst he
    rw [hb] at hc
    simp only [Option.some.injEq] at hc
    subst hc
    have hklt : k < b.headers.length := (List.getElem?_eq_some_iff.mp hk).1
    exact ⟨b2, k, d, by rw [List.getElem?_set_self hlt], by rw [h1, List.getElem?_append_left hklt]; exact hk, hid,
      by rw [h2]; exact hx⟩
  · exact ⟨c, k, d, by rw [List.getElem?_set_ne (Ne.symm he)]; exact hc, hk, hid, hx⟩

theorem heldAt_new (ar : Arena) (nb : Branch) (d : HData) (h0 : nb.headers[0]? = some d) :
    HeldAt (ar ++ [nb]) ar.length d.hdr.id (nb.parentHeight + 1) :=
  ⟨nb, 0, d, by simp, h0, rfl, by simp⟩

/-- the invariants of a repository reached by submissions. -/
structure RepoWF (r : Repo) : Prop where
  link : LinkWF r.arena
  ids : IdWF r.arena r.branches
  list : ListWF r.arena r.branches
  heights : HeightsSound r

theorem getLast?_getElem? {α : Type} (l : List α) (x : α) (h : l.getLast? = some x) :
    l[l.length - 1]? = some x := by
  rw [List.getLast?_eq_getElem?] at h; exact h

theorem heightsSound_processHeader (r : Repo) (h : Hdr) (ok : Bool) (hr : RepoWF r)
    (hnc : ∀ pb ph lst, precheck r h ok = .inr (pb, ph, lst) →
      Int.tmod ((r.br pb).height + 1) (Facts.autoCleanModulus : Int) ≠ 0) :
    HeightsSound (processHeader r h ok).1 := by
  cases processHeader_shape r h ok hnc with
  | same ha hb hh => intro id x hg; rw [hh] at hg; rw [ha]; exact hr.heights id x hg
  | fork pb ph lst nb hp hne hn ha hb hh =>
    intro id x hg
    rw [hh, HMap.get?_set] at hg
    rw [ha]
    obtain ⟨l2, w, _, _, rfl⟩ := newBranch_ok_shape r pb ph h nb hn
    by_cases hid : id = h.id
    · simp only [hid, ↓reduceIte, Option.some.injEq] at hg
      rw [hid, ← hg]
      exact ⟨r.arena.length, heldAt_new r.arena _ { hdr := h, work := l2.work + w } rfl⟩
    · simp only [hid, ↓reduceIte] at hg
      obtain ⟨bj, hheld⟩ := hr.heights id x hg
      exact ⟨bj, heldAt_append _ _ _ _ _ hheld⟩
  | extend pb ph lst w hp hprev hlen hbw ha hb hh =>
    intro id x hg
    rw [hh, HMap.get?_set] at hg
    rw [ha]
    have hbr : r.arena[pb]? = some (r.br pb) := by
      unfold Repo.br; rw [List.getElem?_eq_getElem hlen]; rfl
    by_cases hid : id = h.id
    · simp only [hid, ↓reduceIte, Option.some.injEq] at hg
      -- the parent header is the last of `pb`, so `ph` is that branch's height
      have hown := branchesFind_owner r hr.link hr.ids hr.list h.prev pb ph hp.parent
      have hlast : (r.br pb).headers[(r.br pb).headers.length - 1]? = some lst := getLast?_getElem? _ _ hp.lastIs
      have hne : (r.br pb).headers.length ≠ 0 := by
        intro h0
        rw [List.getElem?_eq_none (by omega)] at hlast; cases hlast
      have hheld2 : HeldAt r.arena pb h.prev ((r.br pb).parentHeight + 1 + (((r.br pb).headers.length - 1 : Nat) : Int)) :=
        ⟨r.br pb, _, lst, hbr, hlast, hprev, rfl⟩
      obtain ⟨_, hph⟩ := heldAt_unique r.arena r.branches hr.ids pb pb h.prev _ _ hown hheld2
      refine ⟨pb, _, (r.br pb).headers.length, { hdr := h, work := lst.work + w },
        by rw [List.getElem?_set_self hlen], by simp [Branch.pushed], hid.symm, ?_⟩
      simp only [Branch.pushed]
      rw [← hg, hph]
      omega
    · simp only [hid, ↓reduceIte] at hg
      obtain ⟨bj, hheld⟩ := hr.heights id x hg
      exact ⟨bj, heldAt_set r.arena pb (r.br pb)
        { (r.br pb) with headers := (r.br pb).headers ++ [{ hdr := h, work := lst.work + w }],
                         hmap := (r.br pb).hmap.set h.id ((r.br pb).height + 1) }
        { hdr := h, work := lst.work + w } hbr rfl rfl bj id x hheld⟩

/-- **`ProcessHeader` keeps every invariant** (automatic clean not due). -/
theorem repoWF_processHeader (r : Repo) (h : Hdr) (ok : Bool) (hr : RepoWF r)
    (hnc : ∀ pb ph lst, precheck r h ok = .inr (pb, ph, lst) →
      Int.tmod ((r.br pb).height + 1) (Facts.autoCleanModulus : Int) ≠ 0) :
    RepoWF (processHeader r h ok).1 :=
  ⟨linkWF_processHeader r h ok hr.link hnc, idWF_processHeader r h ok hr.link hr.ids hnc,
   listWF_processHeader r h ok hr.list hnc, heightsSound_processHeader r h ok hr hnc⟩

theorem repoWF_submitAll (r : Repo) (hs : List (Hdr × Bool)) (hr : RepoWF r) (hq : NoAutoClean r hs) :
    RepoWF (submitAll r hs) := by
  induction hs generalizing r with
  | nil => exact hr
  | cons x xs ih =>
    obtain ⟨h1, h2⟩ := hq
    simp only [submitAll, List.foldl_cons]
    exact ih _ (repoWF_processHeader r x.1 x.2 hr h1) h2

end BRV.Repo
