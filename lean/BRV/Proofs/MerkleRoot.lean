/-
The streaming merkle tree is a binary counter over the textbook levels.

`pairs` is the truncating pair-up (complete pairs only); `canon m` is the layer list the streaming
tree holds after the level list `m` was fed into its bottom layer: the layer for level `d` has
count `|pairs^d m|` and holds the last element of `pairs^d m` exactly when that count is odd.
* `addLoop_canon`  : feeding one more hash turns `canon m` into `canon (m ++ [v])`;
* `finLoop_canon`  : the finalize loop on `canon m` with running hash `carry` returns the textbook
                     root of `m ++ carry.toList`.
Both hold whatever proofs are attached (the proofs never influence layers or root).
-/
import BRV.Model.Merkle

namespace BRV.Merkle

/-- complete pairs only (what has been pushed to the layer above so far). -/
def pairs : List H → List H
  | a :: b :: rest => H.node a b :: pairs rest
  | _ => []

theorem pairs_length (l : List H) : (pairs l).length = l.length / 2 := by
  induction l using pairs.induct with
  | case1 a b rest ih => simp only [pairs, List.length_cons, ih]; omega
  | case2 l h =>
    match l, h with
    | [], _ => rfl
    | [a], _ => simp [pairs]
    | a :: b :: rest, h => exact absurd rfl (h a b rest)

theorem pairs_append_even (l : List H) (v : H) (h : l.length % 2 = 0) : pairs (l ++ [v]) = pairs l := by
  induction l using pairs.induct with
  | case1 a b rest ih =>
    simp only [List.length_cons] at h
    simp only [List.cons_append, pairs, ih (by omega)]
  | case2 l hl =>
    match l, hl with
    | [], _ => rfl
    | [a], _ => simp at h
    | a :: b :: rest, hl => exact absurd rfl (hl a b rest)

theorem pairs_append_odd (l : List H) (x v : H) (h : l.length % 2 = 1) (hx : l.getLast? = some x) :
    pairs (l ++ [v]) = pairs l ++ [H.node x v] := by
  induction l using pairs.induct with
  | case1 a b rest ih =>
    simp only [List.length_cons] at h
    have hr : rest ≠ [] := by intro hc; subst hc; simp at h
    have hx' : rest.getLast? = some x := by
      rw [← hx]
      cases rest with
      | nil => exact absurd rfl hr
      | cons c cs => simp [List.getLast?_cons_cons]
    simp only [List.cons_append, pairs, ih (by omega) hx']
  | case2 l hl =>
    match l, hl with
    | [], _ => simp at h
    | [a], _ =>
      simp only [List.getLast?_singleton, Option.some.injEq] at hx
      subst hx; rfl
    | a :: b :: rest, hl => exact absurd rfl (hl a b rest)

theorem pairUp_even (l : List H) (h : l.length % 2 = 0) : pairUp l = pairs l := by
  induction l using pairUp.induct with
  | case1 => rfl
  | case2 a => simp at h
  | case3 a b rest ih =>
    simp only [List.length_cons] at h
    simp only [pairUp, pairs, ih (by omega)]

theorem pairUp_odd (l : List H) (x : H) (h : l.length % 2 = 1) (hx : l.getLast? = some x) :
    pairUp l = pairs l ++ [H.node x x] := by
  induction l using pairUp.induct with
  | case1 => simp at h
  | case2 a =>
    simp only [List.getLast?_singleton, Option.some.injEq] at hx
    subst hx; rfl
  | case3 a b rest ih =>
    simp only [List.length_cons] at h
    have hx' : rest.getLast? = some x := by
      cases rest with
      | nil => simp at h
      | cons c cs => rw [← hx]; simp [List.getLast?_cons_cons]
    simp only [pairUp, pairs, ih (by omega) hx', List.cons_append]

theorem merkleRoot_step (l : List H) (h : 2 ≤ l.length) : merkleRoot l = merkleRoot (pairUp l) := by
  match l, h with
  | a :: b :: rest, _ => rw [merkleRoot]

/-- the layers of the pruning streaming tree after the level list `m` was fed to the bottom. -/
def canon (m : List H) : List Layer :=
  match m with
  | [] => []
  | a :: rest =>
    { hashes := if (a :: rest).length % 2 = 1 then (a :: rest).getLast?.toList else [],
      count := (a :: rest).length } :: canon (pairs (a :: rest))
termination_by m.length
decreasing_by simp only [pairs_length, List.length_cons]; omega

theorem canon_nil : canon [] = [] := by rw [canon]

theorem canon_cons (a : H) (rest : List H) :
    canon (a :: rest) =
      { hashes := if (a :: rest).length % 2 = 1 then (a :: rest).getLast?.toList else [],
        count := (a :: rest).length } :: canon (pairs (a :: rest)) := by
  rw [canon]

theorem canon_ne (m : List H) (h : m ≠ []) :
    canon m = { hashes := if m.length % 2 = 1 then m.getLast?.toList else [], count := m.length }
      :: canon (pairs m) := by
  cases m with
  | nil => exact absurd rfl h
  | cons a rest => exact canon_cons a rest

theorem getLast?_ne (m : List H) (h : m ≠ []) : ∃ x, m.getLast? = some x := by
  cases hx : m.getLast? with
  | none => exact absurd (List.getLast?_eq_none_iff.mp hx) h
  | some x => exact ⟨x, rfl⟩

/-- **AddHash on the layers**: one more hash at the bottom is the canonical state of the longer list. -/
theorem addLoop_canon (m : List H) (v : H) (ps : List Proof) :
    ∃ ps', addLoop true (canon m) v ps = some (canon (m ++ [v]), ps') := by
  generalize hn : m.length = n
  induction n using Nat.strongRecOn generalizing m v ps with
  | ind n ih =>
    by_cases hm : m = []
    · subst hm
      refine ⟨ps, ?_⟩
      simp only [canon_nil, addLoop, List.nil_append]
      rw [canon_cons]
      simp [newLayer, pairs, canon_nil]
    · obtain ⟨x, hx⟩ := getLast?_ne m hm
      have hmv : m ++ [v] ≠ [] := by simp
      rw [canon_ne m hm, canon_ne (m ++ [v]) hmv]
      by_cases hpar : m.length % 2 = 0
      · -- the layer becomes odd: the hash stays pending here
        refine ⟨ps, ?_⟩
        have h1 : ¬ (m.length % 2 = 1) := by omega
        have h2 : (m.length + 1) % 2 = 1 := by omega
        simp only [addLoop, Layer.addHash, h1, ↓reduceIte, List.length_append, List.length_cons,
          List.length_nil, Nat.zero_add, h2, ne_eq, not_false_eq_true, Nat.one_ne_zero,
          List.getLast?_append, List.getLast?_singleton, Option.some_or, Option.toList_some,
          pairs_append_even m v hpar]
      · -- the layer becomes even: pair the pending hash with the new one and carry upward
        have h1 : m.length % 2 = 1 := by omega
        have h2 : ¬ ((m.length + 1) % 2 = 1) := by omega
        have h3 : (m.length + 1) % 2 = 0 := by omega
        have hlt : (pairs m).length < n := by rw [pairs_length]; omega
        obtain ⟨ps2, hps2⟩ := ih _ hlt (pairs m) (H.node x v)
          (processProofsLayer x v false ps).2 rfl
        refine ⟨ps2, ?_⟩
        simp only [addLoop, Layer.addHash, h1, ↓reduceIte, hx, Option.toList_some, h3, ne_eq,
          not_true_eq_false, Layer.nextLastHash, List.tail_cons, List.head?_cons, Layer.clear,
          List.length_append, List.length_cons, List.length_nil, Nat.zero_add, h2,
          pairs_append_odd m x v h1 hx]
        simp only [processProofsLayer] at hps2 ⊢
        rw [hps2]
        simp

/-- **FinalizeMerkleProofs on the layers**: the loop returns the textbook root of the level list
    completed by the running hash. -/
theorem finLoop_canon (m : List H) (carry : Option H) (ps : List Proof) (hne : m ++ carry.toList ≠ []) :
    ∃ ps', finLoop (canon m) carry ps = some (merkleRoot (m ++ carry.toList), ps') := by
  generalize hn : m.length = n
  induction n using Nat.strongRecOn generalizing m carry ps with
  | ind n ih =>
    by_cases hm : m = []
    · subst hm
      cases carry with
      | none => simp at hne
      | some v =>
        refine ⟨ps, ?_⟩
        simp only [canon_nil, finLoop, Option.toList_some, List.nil_append]
        rw [merkleRoot]
    · obtain ⟨x, hx⟩ := getLast?_ne m hm
      have hlt : (pairs m).length < n := by
        rw [pairs_length]
        have : 0 < m.length := List.length_pos_iff.mpr hm
        omega
      have hpos : 0 < m.length := List.length_pos_iff.mpr hm
      rw [canon_ne m hm]
      cases carry with
      | some v =>
        have hlen : 2 ≤ (m ++ [v]).length := by simp; omega
        simp only [Option.toList_some]
        rw [merkleRoot_step _ hlen]
        by_cases hpar : m.length % 2 = 0
        · -- even layer: the running hash is paired with itself
          have hup : pairUp (m ++ [v]) = pairs m ++ [H.node v v] := by
            rw [pairUp_odd (m ++ [v]) v (by simp; omega) (by simp), pairs_append_even m v hpar]
          obtain ⟨ps2, hps2⟩ := ih _ hlt (pairs m) (some (H.node v v))
            (processProofsLayer v v true ps).2 (by simp) rfl
          refine ⟨ps2, ?_⟩
          simp only [finLoop, hpar, ↓reduceIte, hup]
          simp only [processProofsLayer, Option.toList_some] at hps2 ⊢
          exact hps2
        · have h1 : m.length % 2 = 1 := by omega
          have hup : pairUp (m ++ [v]) = pairs m ++ [H.node x v] := by
            rw [pairUp_even (m ++ [v]) (by simp; omega), pairs_append_odd m x v h1 hx]
          obtain ⟨ps2, hps2⟩ := ih _ hlt (pairs m) (some (H.node x v))
            (processProofsLayer x v false ps).2 (by simp) rfl
          refine ⟨ps2, ?_⟩
          simp only [finLoop, hpar, ↓reduceIte, h1, hx, Option.toList_some, Layer.lastHash,
            List.head?_cons, hup]
          simp only [processProofsLayer, Option.toList_some] at hps2 ⊢
          exact hps2
      | none =>
        simp only [Option.toList_none, List.append_nil]
        by_cases hpar : m.length % 2 = 0
        · -- even layer, nothing running yet: skip
          have hlen : 2 ≤ m.length := by omega
          have hpne : pairs m ≠ [] := by
            intro hc
            have := congrArg List.length hc
            rw [pairs_length] at this; simp at this; omega
          obtain ⟨ps2, hps2⟩ := ih _ hlt (pairs m) none ps (by simpa using hpne) rfl
          refine ⟨ps2, ?_⟩
          have h1 : ¬ (m.length % 2 = 1) := by omega
          simp only [finLoop, hpar, ne_eq, not_true_eq_false, ↓reduceIte]
          rw [merkleRoot_step _ hlen, pairUp_even m hpar]
          simpa using hps2
        · have h1 : m.length % 2 = 1 := by omega
          by_cases hone : m.length = 1
          · -- the top layer holds the root
            refine ⟨ps, ?_⟩
            have hp : pairs m = [] := by
              apply List.eq_nil_of_length_eq_zero; rw [pairs_length]; omega
            have hmx : m = [x] := by
              match m, hone with
              | [a], _ => simp at hx; rw [hx]
            simp only [finLoop, h1, ne_eq, Nat.one_ne_zero, not_false_eq_true, ↓reduceIte, hx,
              Option.toList_some, Layer.lastHash, List.head?_cons, hone, hp, canon_nil, and_self]
            rw [hmx, merkleRoot]
            simp
          · have hlen : 2 ≤ m.length := by omega
            have hup : pairUp m = pairs m ++ [H.node x x] := pairUp_odd m x h1 hx
            obtain ⟨ps2, hps2⟩ := ih _ hlt (pairs m) (some (H.node x x))
              (processProofsLayer x x true ps).2 (by simp) rfl
            refine ⟨ps2, ?_⟩
            simp only [finLoop, h1, ne_eq, Nat.one_ne_zero, not_false_eq_true, ↓reduceIte, hx,
              Option.toList_some, Layer.lastHash, List.head?_cons, hone, false_and]
            rw [merkleRoot_step _ hlen, hup]
            simp only [processProofsLayer, Option.toList_some] at hps2 ⊢
            exact hps2

end BRV.Merkle
