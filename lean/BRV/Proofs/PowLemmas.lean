/-
Helper lemmas for C02 (Props/C02.lean): closed forms of the compact decoder and of ConvertToWork,
the median of three, time span clamping.
-/
import BRV.Model.Pow
import BRV.Spec.DAA

namespace BRV.Pow

set_option linter.unusedSimpArgs false

/-! ### big-endian bytes -/

theorem foldl_be_zeros (a k : Nat) :
    (List.replicate k 0).foldl (fun acc x => acc * 256 + x) a = a * 256 ^ k := by
  induction k generalizing a with
  | zero => simp
  | succ k ih =>
    simp only [List.replicate_succ, List.foldl_cons, Nat.add_zero]
    rw [ih, Nat.pow_succ, Nat.mul_assoc, Nat.mul_comm 256]

theorem beNat_append_zeros (l : List Nat) (k : Nat) :
    beNat (l ++ List.replicate k 0) = beNat l * 256 ^ k := by
  unfold beNat
  rw [List.foldl_append, foldl_be_zeros]

/-! ### closed form of ConvertToDifficulty -/

/-- what `convertToDifficulty` computes, by exponent byte `e` and 24-bit mantissa `m`. -/
def decodeClosed (bits : Nat) : Option Nat :=
  let e := bits % 2 ^ 32 / 2 ^ 24
  let m := bits % 2 ^ 32 % 2 ^ 24
  if m / 2 ^ 16 = 0 then
    let len := (e + 255) % 256
    if len = 0 then some 0 else if len = 1 then none else if len = 2 then some m
    else some (m * 256 * 256 ^ (len - 3))
  else
    if e = 0 then some 0 else if e = 1 then none else if e = 2 then some (m / 256)
    else some (m * 256 ^ (e - 3))

theorem decode_len (len b0 b1 b2 : Nat) :
    ((if len > 0 then setIdx (List.replicate len 0) 0 b0 else some (List.replicate len 0)).bind fun b =>
     (if len ≥ 1 then setIdx b 1 b1 else some b).bind fun b =>
     (if len > 2 then setIdx b 2 b2 else some b).bind fun b => some (beNat b))
    = if len = 0 then some 0 else if len = 1 then none else if len = 2 then some (b0 * 256 + b1)
      else some ((b0 * 65536 + b1 * 256 + b2) * 256 ^ (len - 3)) := by
  match len with
  | 0 => simp [beNat]
  | 1 => simp [setIdx, List.replicate_succ]
  | 2 => simp [setIdx, List.replicate_succ, beNat]
  | k + 3 =>
    have h1 : (0 < k + 3) := by omega
    have h2 : (1 ≤ k + 3) := by omega
    have h3 : (2 < k + 3) := by omega
    have h4 : ¬ (k + 3 = 0) := by omega
    have h5 : ¬ (k + 3 = 1) := by omega
    have h6 : ¬ (k + 3 = 2) := by omega
    simp only [gt_iff_lt, ge_iff_le, h1, h2, h3, h4, h5, h6, ↓reduceIte, Nat.add_sub_cancel]
    have hr : List.replicate (k + 3) 0 = 0 :: 0 :: 0 :: List.replicate k 0 := by
      simp [List.replicate_succ]
    rw [hr]
    simp only [setIdx, List.length_cons, List.set_cons_zero, List.set_cons_succ, Option.bind_some,
      Nat.zero_lt_succ, ↓reduceIte, Nat.lt_add_left_iff_pos, Nat.succ_lt_succ_iff]
    have : b0 :: b1 :: b2 :: List.replicate k 0 = [b0, b1, b2] ++ List.replicate k 0 := rfl
    have hb : beNat [b0, b1, b2] = b0 * 65536 + b1 * 256 + b2 := by
      simp only [beNat, List.foldl_cons, List.foldl_nil]; omega
    rw [this, beNat_append_zeros, hb]

set_option maxRecDepth 8000 in
theorem convertToDifficulty_closed (bits : Nat) : convertToDifficulty bits = decodeClosed bits := by
  unfold convertToDifficulty
  simp only []
  rw [decode_len]
  unfold decodeClosed
  simp only []
  have hb : bits % 2 ^ 32 < 2 ^ 32 := Nat.mod_lt _ (by decide)
  generalize bits % 2 ^ 32 = w at *
  have he : w / 2 ^ 24 % 256 = w / 2 ^ 24 := by omega
  rw [he]
  by_cases hz : w / 2 ^ 16 % 256 = 0
  · have hm : w % 2 ^ 24 / 2 ^ 16 = 0 := by omega
    simp only [hz, hm, beq_self_eq_true, ↓reduceIte]
    have e1 : w * 256 % 2 ^ 32 / 2 ^ 16 % 256 * 256 + w * 256 % 2 ^ 32 / 2 ^ 8 % 256 = w % 2 ^ 24 := by omega
    have e2 : w * 256 % 2 ^ 32 / 2 ^ 16 % 256 * 65536 + w * 256 % 2 ^ 32 / 2 ^ 8 % 256 * 256 + w * 256 % 2 ^ 32 % 256
        = w % 2 ^ 24 * 256 := by omega
    rw [e1, e2]
  · have hm : ¬ (w % 2 ^ 24 / 2 ^ 16 = 0) := by omega
    have hzb : (w / 2 ^ 16 % 256 == 0) = false := by simpa using hz
    simp only [hzb, hm, Bool.false_eq_true, ↓reduceIte]
    have e1 : w / 2 ^ 16 % 256 * 256 + w / 2 ^ 8 % 256 = w % 2 ^ 24 / 256 := by omega
    have e2 : w / 2 ^ 16 % 256 * 65536 + w / 2 ^ 8 % 256 * 256 + w % 256 = w % 2 ^ 24 := by omega
    rw [e1, e2]

/-- `convertToDifficulty` fails exactly on the words of effective byte length 1. -/
theorem decode_none_iff (bits : Nat) : convertToDifficulty bits = none ↔ bitsPanics bits = true := by
  rw [convertToDifficulty_closed]
  unfold decodeClosed bitsPanics
  simp only []
  have hb : bits % 2 ^ 32 < 2 ^ 32 := Nat.mod_lt _ (by decide)
  generalize bits % 2 ^ 32 = w at *
  have he : w / 2 ^ 24 < 256 := by omega
  by_cases hz : w / 2 ^ 16 % 256 = 0
  · have hm : w % 2 ^ 24 / 2 ^ 16 = 0 := by omega
    simp only [hm, ↓reduceIte, hz, bne_self_eq_false, Bool.and_false, beq_self_eq_true, Bool.and_true,
      Bool.false_or, beq_iff_eq]
    split
    · simp; omega
    · split
      · simp; omega
      · split
        · simp; omega
        · simp; omega
  · have hm : ¬ (w % 2 ^ 24 / 2 ^ 16 = 0) := by omega
    have hzb : (w / 2 ^ 16 % 256 == 0) = false := by simpa using hz
    have hzn : (w / 2 ^ 16 % 256 != 0) = true := by simpa using hz
    simp only [hm, ↓reduceIte, hzb, hzn, Bool.and_true, Bool.and_false, Bool.or_false, beq_iff_eq]
    split
    · simp; omega
    · split
      · simp; assumption
      · split
        · simp; omega
        · simp; omega

/-! ### ConvertToWork -/

theorem xor_all_ones (n d : Nat) (h : d < 2 ^ n) : (2 ^ n - 1) ^^^ d = 2 ^ n - 1 - d := by
  apply Nat.eq_of_testBit_eq
  intro i
  have h2 : 2 ^ n - 1 - d = 2 ^ n - (d + 1) := by omega
  rw [h2, Nat.testBit_xor, Nat.testBit_two_pow_sub_one, Nat.testBit_two_pow_sub_succ h]
  by_cases hi : i < n
  · simp [hi]
  · have : d.testBit i = false :=
      Nat.testBit_lt_two_pow (Nat.lt_of_lt_of_le h (Nat.pow_le_pow_right (by decide) (by omega)))
    simp [hi, this]

/-- for a 256-bit `d`, `ConvertToWork d = ⌊2^256 / (d+1)⌋` (the reference node's GetBlockProof). -/
theorem convertToWork_eq (d : Nat) (h : d < 2 ^ 256) : convertToWork d = 2 ^ 256 / (d + 1) := by
  unfold convertToWork all256Bits
  rw [xor_all_ones 256 d h]
  have : 2 ^ 256 = (2 ^ 256 - 1 - d) + (d + 1) := by omega
  conv => rhs; rw [this]
  rw [Nat.add_div_right _ (by omega)]

theorem convertToWork_pos (d : Nat) : 1 ≤ convertToWork d := by
  unfold convertToWork; exact Nat.le_add_left 1 _

/-- on non-negative values the big.Int version is the natural-number version and does not panic. -/
theorem convertToWorkInt_ofNat (d : Nat) : convertToWorkInt (d : Int) = some ((convertToWork d : Nat) : Int) := by
  unfold convertToWorkInt convertToWork xorBig
  have h1 : ¬ ((d : Int) + 1 = 0) := by omega
  have h2 : (0 : Int) ≤ (d : Int) := by omega
  simp only [h1, h2, ↓reduceIte, Int.toNat_natCast]
  congr 1

/-! ### decode vs the network's SetCompact -/

theorem mul_pow_lt (m e a k : Nat) (hm : m < 2 ^ a) (he : e ≤ k) : m * 256 ^ e < 2 ^ a * 256 ^ k := by
  have h1 : 256 ^ e ≤ 256 ^ k := Nat.pow_le_pow_right (by decide) he
  have h2 : 0 < 256 ^ e := Nat.pow_pos (by decide)
  calc m * 256 ^ e < 2 ^ a * 256 ^ e := Nat.mul_lt_mul_of_pos_right hm h2
    _ ≤ 2 ^ a * 256 ^ k := Nat.mul_le_mul_left _ h1

set_option maxRecDepth 8000 in
/-- on words with a clear sign bit that do not overflow 256 bits, do not panic, and are not
    "exponent 0 with a non-zero low mantissa", the code decodes the target the network decodes. -/
theorem decode_eq_setCompact (bits : Nat) (hb : bits < 2 ^ 32)
    (hsign : bits / 2 ^ 23 % 2 = 0)
    (hov : (Spec.setCompact bits).overflow = false)
    (hp : bitsPanics bits = false)
    (h0 : ¬ (bits / 2 ^ 24 = 0 ∧ bits / 2 ^ 16 % 256 = 0 ∧ bits % 2 ^ 16 ≠ 0)) :
    convertToDifficulty bits = some (Spec.setCompact bits).value := by
  have hnone : convertToDifficulty bits ≠ none := by
    intro hc; rw [decode_none_iff] at hc; rw [hc] at hp; cases hp
  rw [convertToDifficulty_closed] at hnone ⊢
  unfold decodeClosed at hnone ⊢
  unfold Spec.setCompact at hov ⊢
  simp only [] at hnone hov ⊢
  have hmod : bits % 2 ^ 32 = bits := Nat.mod_eq_of_lt hb
  rw [hmod] at hnone ⊢
  have hw : bits % 2 ^ 23 = bits % 2 ^ 24 := by omega
  have he : bits / 2 ^ 24 % 256 = bits / 2 ^ 24 := by omega
  rw [hw, he] at hov ⊢
  generalize hm : bits % 2 ^ 24 = m at *
  generalize hee : bits / 2 ^ 24 = e at *
  have hm24 : m < 2 ^ 23 := by omega
  have he256 : e < 256 := by omega
  by_cases hz : m / 2 ^ 16 = 0
  · simp only [hz, ↓reduceIte] at hnone ⊢
    have hm16 : m < 2 ^ 16 := by omega
    by_cases e0 : e = 0
    · have : m = 0 := by
        have : bits % 2 ^ 16 = m := by omega
        have h1 : bits / 2 ^ 16 % 256 = 0 := by omega
        have := h0
        omega
      subst this; subst e0; simp
    · by_cases e1 : e = 1
      · subst e1
        have : m / 256 ^ 2 = 0 := by omega
        simp [this]
      · by_cases e2 : e = 2
        · subst e2; simp at hnone
        · by_cases e3 : e = 3
          · subst e3; simp
          · have hl : (e + 255) % 256 = e - 1 := by omega
            have c0 : ¬ (e - 1 = 0) := by omega
            have c1 : ¬ (e - 1 = 1) := by omega
            have c2 : ¬ (e - 1 = 2) := by omega
            have c3 : ¬ (e ≤ 3) := by omega
            simp only [hl, c0, c1, c2, c3, ↓reduceIte, Option.some.injEq]
            have hpw : 256 * 256 ^ (e - 1 - 3) = 256 ^ (e - 3) := by
              have : e - 3 = (e - 1 - 3) + 1 := by omega
              rw [this, Nat.pow_succ, Nat.mul_comm]
            rw [Nat.mul_assoc, hpw]
            -- no overflow ⇒ below 2^256
            have hlt : m * 256 ^ (e - 3) < 2 ^ 256 := by
              by_cases hm0 : m = 0
              · subst hm0; simp
              · have hmb : (m != 0) = true := by simpa using hm0
                simp only [hmb, Bool.true_and, Bool.or_eq_false_iff, decide_eq_false_iff_not,
                  Bool.and_eq_false_imp, decide_eq_true_eq] at hov
                by_cases hs : m ≤ 0xff
                · have : e - 3 ≤ 31 := by omega
                  have := mul_pow_lt m (e - 3) 8 31 (by omega) this
                  have h2 : (2 : Nat) ^ 8 * 256 ^ 31 = 2 ^ 256 := by decide
                  omega
                · have : e - 3 ≤ 30 := by
                    have := hov.1.2 (by omega)
                    omega
                  have := mul_pow_lt m (e - 3) 16 30 hm16 this
                  have h2 : (2 : Nat) ^ 16 * 256 ^ 30 = 2 ^ 256 := by decide
                  omega
            rw [Nat.mod_eq_of_lt hlt]
  · simp only [hz, ↓reduceIte] at hnone ⊢
    have hm16 : 2 ^ 16 ≤ m := by omega
    by_cases e0 : e = 0
    · subst e0
      have : m / 256 ^ 3 = 0 := by omega
      simp [this]
    · by_cases e1 : e = 1
      · subst e1; simp at hnone
      · by_cases e2 : e = 2
        · subst e2; simp
        · by_cases e3 : e = 3
          · subst e3; simp
          · have c3 : ¬ (e ≤ 3) := by omega
            simp only [e0, e1, e2, c3, ↓reduceIte, Option.some.injEq]
            have hlt : m * 256 ^ (e - 3) < 2 ^ 256 := by
              have hm0 : (m != 0) = true := by
                have : m ≠ 0 := by omega
                simpa using this
              simp only [hm0, Bool.true_and, Bool.or_eq_false_iff, decide_eq_false_iff_not,
                Bool.and_eq_false_imp, decide_eq_true_eq] at hov
              have : e - 3 ≤ 29 := by
                have := hov.2 (by omega)
                omega
              have := mul_pow_lt m (e - 3) 23 29 hm24 this
              have h2 : (2 : Nat) ^ 23 * 256 ^ 29 < 2 ^ 256 := by decide
              omega
            rw [Nat.mod_eq_of_lt hlt]

/-! ### median of three (repaired code: the network's three compare-and-swap steps) -/

/-- a model sample seen as a block index entry of the specification. -/
def toBlock (s : Sample) : Spec.Block := { time := s.time, chainWork := s.work }

theorem medianCount_is_3 : (Facts.daaMedianCountLast == 3) = true ∧ Facts.daaMedianCountLast / 2 = 1 := by decide

/-- the median the code takes IS the network's suitable block, ties included. -/
theorem median3_eq_suitable (a b c : Sample) :
    toBlock (median3 a b c) = Spec.suitableBlock (toBlock a) (toBlock b) (toBlock c) := by
  unfold median3
  rw [medianCount_is_3.1, medianCount_is_3.2]
  unfold swapNet3 Spec.suitableBlock
  simp only [toBlock, ↓reduceIte]
  by_cases h1 : a.time > c.time <;> simp only [h1, ↓reduceIte]
  · by_cases h2 : c.time > b.time <;> simp only [h2, ↓reduceIte]
    · by_cases h3 : c.time > a.time <;> simp [h3]
    · by_cases h3 : b.time > a.time <;> simp [h3]
  · by_cases h2 : a.time > b.time <;> simp only [h2, ↓reduceIte]
    · by_cases h3 : a.time > c.time <;> simp [h3]
    · by_cases h3 : b.time > c.time <;> simp [h3]

/-- the median is one of the three samples. -/
theorem median3_mem (a b c : Sample) : median3 a b c = a ∨ median3 a b c = b ∨ median3 a b c = c := by
  unfold median3
  rw [medianCount_is_3.1, medianCount_is_3.2]
  unfold swapNet3
  simp only [↓reduceIte]
  by_cases h1 : a.time > c.time <;> simp only [h1, ↓reduceIte]
  · by_cases h2 : c.time > b.time <;> simp only [h2, ↓reduceIte]
    · by_cases h3 : c.time > a.time <;> simp [h3]
    · by_cases h3 : b.time > a.time <;> simp [h3]
  · by_cases h2 : a.time > b.time <;> simp only [h2, ↓reduceIte]
    · by_cases h3 : a.time > c.time <;> simp [h3]
    · by_cases h3 : b.time > c.time <;> simp [h3]

/-! ### time span (repaired code: signed) -/

theorem spanIsUint32_false : spanIsUint32 = false := by decide

theorem timeSpan_eq (l f : Nat) : timeSpan l f = (l : Int) - (f : Int) := by
  unfold timeSpan
  rw [spanIsUint32_false]
  simp

/-- the clamped span is the network's, for every pair of timestamps. -/
theorem clampSpan_eq_spec (l f : Nat) : clampSpan (timeSpan l f) = Spec.clampedSpan l f := by
  rw [timeSpan_eq]
  unfold clampSpan Spec.clampedSpan Spec.minSpan Spec.maxSpan Facts.daaMinSpan Facts.daaMaxSpan
  simp only []
  split <;> split <;> split <;> (try split) <;> omega

theorem clampSpan_bounds (ts : Int) : 43200 ≤ clampSpan ts ∧ clampSpan ts ≤ 172800 := by
  unfold clampSpan Facts.daaMinSpan Facts.daaMaxSpan
  simp only []
  split <;> split <;> omega

/-! ### Branch.Target on samples -/

/-- the projected work `W` of the window, as the network computes it (in ℕ). -/
def projected (last first : Sample) : Nat :=
  (last.work - first.work) * 600 / (Spec.clampedSpan last.time first.time).toNat

/-- with `last.work ≥ first.work` (always so on a branch) the big.Int `projected` is `W`. -/
theorem projected_int (last first : Sample) (hw : first.work ≤ last.work) :
    ((last.work : Int) - (first.work : Int)) * (Facts.daaTargetSpacing : Int) / clampSpan (timeSpan last.time first.time)
      = ((projected last first : Nat) : Int) := by
  rw [clampSpan_eq_spec]
  have hb := clampSpan_bounds (timeSpan last.time first.time)
  rw [clampSpan_eq_spec] at hb
  unfold projected
  generalize Spec.clampedSpan last.time first.time = s at *
  have hs : s = ((s.toNat : Nat) : Int) := by omega
  have hwk : (last.work : Int) - (first.work : Int) = ((last.work - first.work : Nat) : Int) := by omega
  rw [hwk]
  conv => lhs; rw [hs]
  have h6 : (Facts.daaTargetSpacing : Int) = ((600 : Nat) : Int) := rfl
  rw [h6, ← Int.natCast_mul, ← Int.natCast_ediv]

/-- closed form of the code's target in ℕ. -/
theorem targetOfSamples_closed (last first : Sample) (hw : first.work ≤ last.work)
    (hle : projected last first ≤ 2 ^ 256) :
    targetOfSamples last first =
      ((if projected last first = 0 then maxWork
        else min ((2 ^ 256 - projected last first) / projected last first) maxWork : Nat) : Int) := by
  unfold targetOfSamples
  simp only []
  rw [projected_int last first hw]
  generalize projected last first = W at *
  by_cases h0 : W = 0
  · subst h0; simp
  · have hpos : ¬ ((W : Int) ≤ 0) := by omega
    simp only [hpos, h0, ↓reduceIte]
    have hsub : ((2 : Int) ^ 256 - (W : Int)) = ((2 ^ 256 - W : Nat) : Int) := by
      have : ((2 ^ 256 : Nat) : Int) = (2 : Int) ^ 256 := by norm_cast
      omega
    rw [hsub, ← Int.natCast_ediv]
    rw [Nat.min_def]
    split <;> split <;> first | rfl | omega


/-! ### the guard `bitsAreValid` (repository fixes 192cc38, 04c364b) -/

/-- what the guard accepts, spelled out on the 32-bit word `w`. -/
theorem bitsAreValid_iff (bits : Nat) :
    bitsAreValid bits = true ↔
      (bits % 2 ^ 32 / 2 ^ 23 % 2 = 0 ∧ bits % 2 ^ 32 % 2 ^ 23 ≠ 0 ∧
       1 ≤ bits % 2 ^ 32 / 2 ^ 24 ∧ bits % 2 ^ 32 / 2 ^ 24 ≤ 32 ∧ bitsPanics bits = false) := by
  unfold bitsAreValid bitsPanics
  simp only []
  have hb : bits % 2 ^ 32 < 2 ^ 32 := Nat.mod_lt _ (by decide)
  generalize bits % 2 ^ 32 = w at *
  have he : w / 2 ^ 24 % 256 = w / 2 ^ 24 := by omega
  rw [he]
  by_cases hs : w / 2 ^ 23 % 2 = 0
  · by_cases hm : w % 2 ^ 23 = 0
    · simp [hs, hm]
    · by_cases h0 : w / 2 ^ 24 = 0
      · simp [hs, hm, h0]
      · by_cases h32 : w / 2 ^ 24 > 32
        · have : ¬ (w / 2 ^ 24 ≤ 32) := by omega
          simp [hs, hm, h0, h32, this]
        · have h32' : w / 2 ^ 24 ≤ 32 := by omega
          have h1' : 1 ≤ w / 2 ^ 24 := by omega
          by_cases hz : w / 2 ^ 16 % 256 = 0
          · by_cases h2 : w / 2 ^ 24 = 2
            · simp [hs, hm, hz, h2]
            · have : ¬ ((w / 2 ^ 24 + 255) % 256 = 1) := by omega
              simp [hs, hm, h0, h32, hz, h2, this, h32', h1']
          · by_cases h1 : w / 2 ^ 24 = 1
            · simp [hs, hm, hz, h1]
            · simp [hs, hm, h0, h32, hz, h1, h32', h1']
  · simp [hs]

/-- the dependency's panic set is refused by the guard. -/
theorem panics_invalid (bits : Nat) (h : convertToDifficulty bits = none) : bitsAreValid bits = false := by
  cases hv : bitsAreValid bits with
  | false => rfl
  | true =>
    have := ((bitsAreValid_iff bits).mp hv).2.2.2.2
    rw [decode_none_iff] at h
    rw [h] at this; cases this

set_option maxRecDepth 8000 in
/-- on every word the guard accepts, the code's decoding is the network's `SetCompact`, which
    flags it neither negative nor overflowing. -/
theorem valid_decode (bits : Nat) (hb : bits < 2 ^ 32) (hv : bitsAreValid bits = true) :
    convertToDifficulty bits = some (Spec.setCompact bits).value ∧
      (Spec.setCompact bits).negative = false ∧ (Spec.setCompact bits).overflow = false := by
  obtain ⟨hs, hm, h1, h32, hp⟩ := (bitsAreValid_iff bits).mp hv
  rw [Nat.mod_eq_of_lt hb] at hs hm h1 h32
  have hneg : (Spec.setCompact bits).negative = false := by
    unfold Spec.setCompact; simp only []; simp [hs]
  have hov : (Spec.setCompact bits).overflow = false := by
    unfold Spec.setCompact; simp only []
    have he : bits / 2 ^ 24 % 256 = bits / 2 ^ 24 := by omega
    rw [he]
    have a1 : decide (bits / 2 ^ 24 > 34) = false := by simp; omega
    have a2 : decide (bits / 2 ^ 24 > 33) = false := by simp; omega
    have a3 : decide (bits / 2 ^ 24 > 32) = false := by simp; omega
    rw [a1, a2, a3]; simp
  refine ⟨decode_eq_setCompact bits hb hs hov hp ?_, hneg, hov⟩
  intro hc; omega
