/-
C06 helper lemmas, part 3: the sequential API functions (`addTxID`, `addTx`, `getTxRequests`) as
compositions of the critical sections, and the exact characterisation of a poll's result.
-/
import BRV.Proofs.TxMgrLemmas

namespace BRV.TxMgr

/-! ### clocks of the sections -/

theorem annBucketSec_clock (st : Store) (node : NodeId) (tx : TxId) :
    (annBucketSec st node tx).1.clock = st.clock := by
  unfold annBucketSec; split <;> rfl

theorem annEntrySec_clock (env : Env) (st : Store) (node : NodeId) (tx : TxId) :
    (annEntrySec env st node tx).1.clock = st.clock := by
  unfold annEntrySec; split
  · rfl
  · split
    · rfl
    · split <;> rfl

theorem dlvBucketSec_clock (st : Store) (tx : TxId) (now : Nat) :
    (dlvBucketSec st tx now).1.clock = st.clock := by
  unfold dlvBucketSec; split <;> rfl

theorem dlvEntrySec_clock (st : Store) (tx : TxId) (now : Nat) :
    (dlvEntrySec st tx now).1.clock = st.clock := by
  unfold dlvEntrySec; split
  · rfl
  · split <;> rfl

theorem pollEntrySec_clock (env : Env) (st : Store) (node : NodeId) (tx : TxId) :
    (pollEntrySec env st node tx).1.clock = st.clock := by
  unfold pollEntrySec; split
  · rfl
  · split
    · rfl
    · split
      · rfl
      · split <;> rfl

theorem pollEntrySec_keys (env : Env) (st : Store) (node : NodeId) (tx : TxId) :
    (pollEntrySec env st node tx).1.keys = st.keys := by
  unfold pollEntrySec; split
  · rfl
  · split
    · rfl
    · split
      · rfl
      · split <;> rfl

/-! ### Run to exhaustion -/

theorem runAll_invS {env : Env} (n : Nat) {st : Store} (hi : InvS env st) : InvS env (runAll env n st) := by
  induction n generalizing st with
  | zero => exact hi
  | succ n ih =>
    simp only [runAll]
    split
    · exact hi
    · rename_i st' h; exact ih (hi.run h)

theorem runAll_invF {env : Env} (n : Nat) {st : Store} {p : TxId → Nat} (hf : InvF st p) :
    InvF (runAll env n st) p := by
  induction n generalizing st with
  | zero => exact hf
  | succ n ih =>
    simp only [runAll]
    split
    · exact hf
    · rename_i st' h
      exact ih (hf.of_eq (runSec_fwd h) (recvdB_congr (runSec_ent h).1) (fun _ => rfl))

theorem runAll_frame {env : Env} (n : Nat) (st : Store) :
    (runAll env n st).ent = st.ent ∧ (runAll env n st).grants = st.grants ∧
    (runAll env n st).clock = st.clock ∧ (runAll env n st).keys = st.keys := by
  induction n generalizing st with
  | zero => exact ⟨rfl, rfl, rfl, rfl⟩
  | succ n ih =>
    simp only [runAll]
    split
    · exact ⟨rfl, rfl, rfl, rfl⟩
    · rename_i st' h
      obtain ⟨a, b, c, d⟩ := runSec_ent h
      obtain ⟨a', b', c', d'⟩ := ih st'
      exact ⟨a'.trans a, b'.trans b, c'.trans c, d'.trans d⟩

/-! ### AddTxID -/

theorem addTxID_invS {env : Env} {st : Store} (node : NodeId) (tx : TxId) (now : Nat)
    (hi : InvS env st) (hc : st.clock ≤ now) : InvS env (addTxID env st node tx now).1 := by
  unfold addTxID
  have h0 := hi.setClock now hc
  simp only
  split
  · exact (annBucketSec_trans env _ node tx).inv h0
  · exact (annEntrySec_trans env _ node tx).inv ((annBucketSec_trans env _ node tx).inv h0)

theorem addTxID_clock (env : Env) (st : Store) (node : NodeId) (tx : TxId) (now : Nat) :
    (addTxID env st node tx now).1.clock = now := by
  unfold addTxID
  simp only
  split
  · rw [annBucketSec_clock]
  · rw [annEntrySec_clock, annBucketSec_clock]

theorem setClock_invF {st : Store} {p : TxId → Nat} (hf : InvF st p) (c : Nat) :
    InvF { st with clock := c } p := hf

theorem addTxID_invF {env : Env} {st : Store} {p : TxId → Nat} (node : NodeId) (tx : TxId) (now : Nat)
    (hf : InvF st p) : InvF (addTxID env st node tx now).1 p := by
  unfold addTxID
  have h0 : InvF { st with clock := now } p := hf
  have h1 : InvF (annBucketSec { st with clock := now } node tx).1 p :=
    h0.of_eq (annBucketSec_trans env _ node tx).fwd_eq (annBucketSec_recvd _ _ _) (fun _ => rfl)
  simp only
  split
  · exact h1
  · exact h1.of_eq (annEntrySec_trans env _ node tx).fwd_eq (annEntrySec_recvd _ _ _ _) (fun _ => rfl)

/-! ### AddTx -/

theorem sendOrDrop_invS {env : Env} {st : Store} (hi : InvS env st) (tx : TxId) :
    InvS env (sendOrDrop st tx) := by
  unfold sendOrDrop
  split
  · rename_i st' h; exact hi.send h
  · exact hi.drop tx

theorem sendOrDrop_frame (st : Store) (tx : TxId) :
    (sendOrDrop st tx).ent = st.ent ∧ (sendOrDrop st tx).grants = st.grants ∧
    (sendOrDrop st tx).clock = st.clock ∧ (sendOrDrop st tx).keys = st.keys := by
  unfold sendOrDrop
  split
  · rename_i st' h
    unfold sendSec at h
    split at h
    · simp only [Option.some.injEq] at h; subst h; exact ⟨rfl, rfl, rfl, rfl⟩
    · cases h
  · exact ⟨rfl, rfl, rfl, rfl⟩

theorem sendOrDrop_fwd (st : Store) (tx k : TxId) :
    fwd (sendOrDrop st tx) k = fwd st k + (if k = tx then 1 else 0) := by
  unfold sendOrDrop
  split
  · rename_i st' h; exact sendSec_fwd h k
  · exact dropSec_fwd st tx k

theorem addTx_invS {env : Env} {st : Store} (node : NodeId) (tx : TxId) (now : Nat)
    (hi : InvS env st) (hc : st.clock ≤ now) : InvS env (addTx env st node tx now) := by
  unfold addTx
  have h0 := hi.setClock now hc
  have h1 := (dlvBucketSec_trans env _ tx now).inv h0
  simp only
  split
  · split
    · exact runAll_invS _ (sendOrDrop_invS h1 tx)
    · exact h1
  · have h2 := (dlvEntrySec_trans env _ tx now).inv h1
    split
    · exact runAll_invS _ (sendOrDrop_invS h2 tx)
    · exact h2

theorem addTx_clock (env : Env) (st : Store) (node : NodeId) (tx : TxId) (now : Nat) :
    (addTx env st node tx now).clock = now := by
  unfold addTx
  simp only
  split
  · split
    · rw [drain, (runAll_frame _ _).2.2.1, (sendOrDrop_frame _ _).2.2.1, dlvBucketSec_clock]
    · rw [dlvBucketSec_clock]
  · split
    · rw [drain, (runAll_frame _ _).2.2.1, (sendOrDrop_frame _ _).2.2.1, dlvEntrySec_clock, dlvBucketSec_clock]
    · rw [dlvEntrySec_clock, dlvBucketSec_clock]

/-- a first delivery: the entry becomes received, one unit is sent (or dropped) and Run drains. -/
theorem invF_deliver {env : Env} {st st1 : Store} {p : TxId → Nat} {tx : TxId} (hf : InvF st p)
    (h1 : ∀ k, fwd st1 k = fwd st k) (hb : recvdB st tx = false) (ha : recvdB st1 tx = true)
    (ho : ∀ k, k ≠ tx → recvdB st1 k = recvdB st k) :
    InvF (drain env (sendOrDrop st1 tx)) p := by
  have hmid : InvF st1 (fun k => p k + (if k = tx then 1 else 0)) :=
    hf.recv h1 hb ha ho (by simp) (by intro k hk; simp [hk])
  have hsend : InvF (sendOrDrop st1 tx) p :=
    hmid.leave (sendOrDrop_fwd st1 tx) (recvdB_congr (sendOrDrop_frame st1 tx).1) (fun _ => rfl)
  exact runAll_invF _ hsend

theorem addTx_invF {env : Env} {st : Store} {p : TxId → Nat} (node : NodeId) (tx : TxId) (now : Nat)
    (hf : InvF st p) : InvF (addTx env st node tx now) p := by
  unfold addTx
  have h0 : InvF { st with clock := now } p := hf
  have htr := dlvBucketSec_trans env { st with clock := now } tx now
  simp only
  cases hcr : (dlvBucketSec { st with clock := now } tx now).2
  · have heq := dlvBucketSec_false _ _ _ hcr
    simp only [Bool.false_eq_true, if_false]
    rw [heq]
    have htr2 := dlvEntrySec_trans env { st with clock := now } tx now
    cases hcr2 : (dlvEntrySec { st with clock := now } tx now).2
    · simp only [Bool.false_eq_true, if_false]
      rw [dlvEntrySec_false _ _ _ hcr2]; exact h0
    · have hsp := dlvEntrySec_true _ _ _ hcr2
      simp only [if_true]
      exact invF_deliver h0 htr2.fwd_eq hsp.1 hsp.2 (fun k hk => htr2.recvd_other k hk)
  · have hsp := dlvBucketSec_true _ _ _ hcr
    simp only [if_true]
    exact invF_deliver h0 htr.fwd_eq hsp.1 hsp.2 (fun k hk => htr.recvd_other k hk)

/-! ### GetTxRequests -/

theorem pollKeys_invS {env : Env} (node : NodeId) (ks : List TxId) {st : Store} (acc : List TxId)
    (hi : InvS env st) : InvS env (pollKeys env node st ks acc).1 := by
  induction ks generalizing st acc with
  | nil => exact hi
  | cons k ks ih =>
    simp only [pollKeys]
    exact ih _ ((pollEntrySec_trans env st node k).inv hi)

theorem pollKeys_clock (env : Env) (node : NodeId) (ks : List TxId) (st : Store) (acc : List TxId) :
    (pollKeys env node st ks acc).1.clock = st.clock := by
  induction ks generalizing st acc with
  | nil => rfl
  | cons k ks ih => simp only [pollKeys]; rw [ih, pollEntrySec_clock]

theorem pollKeys_keys (env : Env) (node : NodeId) (ks : List TxId) (st : Store) (acc : List TxId) :
    (pollKeys env node st ks acc).1.keys = st.keys := by
  induction ks generalizing st acc with
  | nil => rfl
  | cons k ks ih => simp only [pollKeys]; rw [ih, pollEntrySec_keys]

theorem pollKeys_invF {env : Env} (node : NodeId) (ks : List TxId) {st : Store} (acc : List TxId)
    {p : TxId → Nat} (hf : InvF st p) :
    InvF (pollKeys env node st ks acc).1 p := by
  induction ks generalizing st acc with
  | nil => exact hf
  | cons k ks ih =>
    simp only [pollKeys]
    exact ih _ (hf.of_eq (pollEntrySec_trans env st node k).fwd_eq (pollEntrySec_recvd _ _ _ _) (fun _ => rfl))

theorem pollBuckets_invS {env : Env} (node : NodeId) (max : Int) (order : List Nat) {st : Store}
    (acc : List TxId) (hi : InvS env st) :
    InvS env (pollBuckets env node max st order acc).1 := by
  induction order generalizing st acc with
  | nil => exact hi
  | cons b bs ih =>
    simp only [pollBuckets]
    split
    · exact pollKeys_invS node _ acc hi
    · exact ih _ (pollKeys_invS node _ acc hi)

theorem pollBuckets_clock (env : Env) (node : NodeId) (max : Int) (order : List Nat) (st : Store)
    (acc : List TxId) : (pollBuckets env node max st order acc).1.clock = st.clock := by
  induction order generalizing st acc with
  | nil => rfl
  | cons b bs ih =>
    simp only [pollBuckets]
    split
    · exact pollKeys_clock ..
    · rw [ih, pollKeys_clock]

theorem pollBuckets_invF {env : Env} (node : NodeId) (max : Int) (order : List Nat) {st : Store}
    (acc : List TxId) {p : TxId → Nat} (hf : InvF st p) :
    InvF (pollBuckets env node max st order acc).1 p := by
  induction order generalizing st acc with
  | nil => exact hf
  | cons b bs ih =>
    simp only [pollBuckets]
    split
    · exact pollKeys_invF node _ acc hf
    · exact ih _ (pollKeys_invF node _ acc hf)

theorem getTxRequests_invS {env : Env} {st : Store} (node : NodeId) (max : Int) (now : Nat) (order : List Nat)
    (hi : InvS env st) (hc : st.clock ≤ now) : InvS env (getTxRequests env st node max now order).1 :=
  pollBuckets_invS node max order [] (hi.setClock now hc)

theorem getTxRequests_invF {env : Env} {st : Store} {p : TxId → Nat} (node : NodeId) (max : Int) (now : Nat)
    (order : List Nat) (hf : InvF st p) : InvF (getTxRequests env st node max now order).1 p :=
  pollBuckets_invF node max order [] (setClock_invF hf now)

theorem getTxRequests_clock (env : Env) (st : Store) (node : NodeId) (max : Int) (now : Nat) (order : List Nat) :
    (getTxRequests env st node max now order).1.clock = now := by
  unfold getTxRequests; rw [pollBuckets_clock]

/-! ### sequential runs -/

def Op.time : Op → Nat
  | .ann _ _ t => t
  | .dlv _ _ t => t
  | .poll _ _ t _ => t
  | .clean _ => 0

/-- clock readings never go backwards, starting from `c`. -/
def timed (c : Nat) : List Op → Prop
  | [] => True
  | op :: ops => c ≤ op.time ∧ timed op.time ops

def noClean (ops : List Op) : Prop := ∀ op ∈ ops, op.isClean = false

theorem seqStep_invF {env : Env} {st : Store} {p : TxId → Nat} (op : Op) (hop : op.isClean = false)
    (hf : InvF st p) : InvF (seqStep env st op) p := by
  cases op with
  | ann node tx now => exact addTxID_invF node tx now hf
  | dlv node tx now => exact addTx_invF node tx now hf
  | poll node max now order => exact getTxRequests_invF node max now order hf
  | clean o => simp [Op.isClean] at hop

theorem seqStep_invS {env : Env} {st : Store} (op : Op) (hop : op.isClean = false)
    (hi : InvS env st) (hc : st.clock ≤ op.time) :
    InvS env (seqStep env st op) ∧ (seqStep env st op).clock = op.time := by
  cases op with
  | ann node tx now => exact ⟨addTxID_invS node tx now hi hc, addTxID_clock ..⟩
  | dlv node tx now => exact ⟨addTx_invS node tx now hi hc, addTx_clock env st node tx now⟩
  | poll node max now order => exact ⟨getTxRequests_invS node max now order hi hc, getTxRequests_clock ..⟩
  | clean o => simp [Op.isClean] at hop

theorem seqRun_invF {env : Env} (ops : List Op) {st : Store} {p : TxId → Nat} (hops : noClean ops)
    (hf : InvF st p) : InvF (seqRun env st ops) p := by
  induction ops generalizing st with
  | nil => exact hf
  | cons op ops ih =>
    simp only [seqRun, List.foldl_cons]
    exact ih (fun o ho => hops o (List.mem_cons_of_mem _ ho)) (seqStep_invF op (hops op (List.mem_cons_self ..)) hf)

theorem seqRun_invS {env : Env} (ops : List Op) {st : Store} (hops : noClean ops)
    (hi : InvS env st) (ht : timed st.clock ops) : InvS env (seqRun env st ops) := by
  induction ops generalizing st with
  | nil => exact hi
  | cons op ops ih =>
    simp only [seqRun, List.foldl_cons]
    obtain ⟨h1, h2⟩ := seqStep_invS op (hops op (List.mem_cons_self ..)) hi ht.1
    exact ih (fun o ho => hops o (List.mem_cons_of_mem _ ho)) h1 (by rw [h2]; exact ht.2)

theorem invF_init : InvF {} (fun _ => 0) := by intro k; rfl

end BRV.TxMgr
