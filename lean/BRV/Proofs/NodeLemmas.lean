/-
Helper lemmas for C13 (and the shared parts of C14/C15): what every handler of Model/Wire.lean can
do to the connection state and which effects it can emit.
-/
import BRV.Model.Wire

namespace BRV.Wire
open BRV BRV.Node

/-- effects that neither touch a repository nor mark acceptance. -/
def quiet (fx : List Effect) : Prop := ∀ x ∈ fx, x.touches = false ∧ x ≠ .accepted

theorem quiet_nil : quiet [] := by intro x hx; cases hx

theorem quiet_append {a b : List Effect} (ha : quiet a) (hb : quiet b) : quiet (a ++ b) := by
  intro x hx
  rcases List.mem_append.mp hx with h | h
  · exact ha x h
  · exact hb x h

/-- consistency of the block-request fields: `onStop` armed, a handler or a reader only with an
    outstanding request. -/
structure BlkInv (s : State) : Prop where
  armed : s.onStopArmed = true → s.blockReq.isSome = true ∧ s.blockHandler = true
  reader : s.blockReader = true → s.blockReq.isSome = true
  handler : s.blockHandler = true → s.blockReq.isSome = true
  started : s.blockStarted = true → s.blockReader = true ∧ s.bh.called = true ∧ s.bh.done = none

theorem BlkInv.same {s s' : State} (h1 : s'.blockReq = s.blockReq) (h2 : s'.blockHandler = s.blockHandler)
    (h3 : s'.blockReader = s.blockReader) (h4 : s'.onStopArmed = s.onStopArmed)
    (h5 : s'.blockStarted = s.blockStarted) (h6 : s'.bh = s.bh) (h : BlkInv s) : BlkInv s' :=
  ⟨fun h' => by rw [h1, h2]; exact h.armed (h4 ▸ h'), fun h' => by rw [h1]; exact h.reader (h3 ▸ h'),
   fun h' => by rw [h1]; exact h.handler (h2 ▸ h'), fun h' => by rw [h3, h6]; exact h.started (h5 ▸ h')⟩

/-- what a handler that does not go through `accept` may change. -/
structure Frame (s s' : State) : Prop where
  table : s.verified = false → s'.table = s.table ∧ s'.blockReq = s.blockReq
  ready : s'.ready = s.ready
  verified : s'.verified = s.verified
  vo : s'.verifyOnly = s.verifyOnly
  hh : s'.hasHH = s.hasHH
  hasTx : s'.hasTx = s.hasTx
  hs : s.hsComplete = true → s'.hsComplete = true
  stopped : s.stopped = true → s'.stopped = true
  keep : ∀ cmd, cmd ≠ ascii "block" → lookupCmd s'.table cmd = lookupCmd s.table cmd
  blk : BlkInv s → BlkInv s'

theorem Frame.refl (s : State) : Frame s s := ⟨fun _ => ⟨rfl, rfl⟩, rfl, rfl, rfl, rfl, rfl, id, id, fun _ _ => rfl, id⟩

theorem Frame.trans {a b c : State} (h1 : Frame a b) (h2 : Frame b c) : Frame a c :=
  ⟨fun h => ⟨(h2.table (h1.verified ▸ h)).1.trans (h1.table h).1, (h2.table (h1.verified ▸ h)).2.trans (h1.table h).2⟩, h2.ready.trans h1.ready,
   h2.verified.trans h1.verified, h2.vo.trans h1.vo, h2.hh.trans h1.hh, h2.hasTx.trans h1.hasTx,
   fun h => h2.hs (h1.hs h), fun h => h2.stopped (h1.stopped h),
   fun c hc => (h2.keep c hc).trans (h1.keep c hc), fun h => h2.blk (h1.blk h)⟩

/-- the connection invariant. -/
structure Inv (s : State) : Prop where
  pre : s.verified = false → s.table = preTable ∧ s.ready = false ∧ s.blockReq = none
  rdy : s.ready = true → s.verified = true
  hs : s.verified = true → s.hsComplete = true
  vo : s.verifyOnly = true → s.verified = true → s.stopped = true
  ping : lookupCmd s.table (ascii "ping") = some .ping

theorem pingCmd_ne_block : ascii "ping" ≠ ascii "block" := by decide

theorem Inv.frame {s s' : State} (hI : Inv s) (hF : Frame s s') : Inv s' := by
  refine ⟨?_, ?_, ?_, ?_, (hF.keep _ pingCmd_ne_block).trans hI.ping⟩
  · intro hv
    have hv0 : s.verified = false := by rw [← hF.verified]; exact hv
    exact ⟨(hF.table hv0).1.trans (hI.pre hv0).1, hF.ready.trans (hI.pre hv0).2.1,
      (hF.table hv0).2.trans (hI.pre hv0).2.2⟩
  · intro hr
    rw [hF.verified]; exact hI.rdy (hF.ready ▸ hr)
  · intro hv
    exact hF.hs (hI.hs (hF.verified ▸ hv))
  · intro h1 h2
    exact hF.stopped (hI.vo (hF.vo ▸ h1) (hF.verified ▸ h2))

/-! ### combinators keep state and effects -/

@[simp] theorem finish_st (L a : Nat) (o : HOut) : (finish L a o).st = o.st := rfl

@[simp] theorem finish_fx (L a : Nat) (o : HOut) : (finish L a o).fx = o.fx := rfl

theorem finish_res_stop_iff (L a : Nat) (o : HOut) : (finish L a o).res = .stop ↔ o.res = .stop := by
  show (match o.res with
      | .ok => if a - o.used < discardLen L o.used then Res.need else Res.ok
      | .err => if a - o.used < discardLen L o.used then Res.need else Res.err
      | r => r) = Res.stop ↔ o.res = .stop
  cases o.res <;> simp <;> split <;> simp

/-- property of the (state, effects) of an output, insensitive to byte accounting. -/
def HP (P : State → List Effect → Prop) (o : HOut) : Prop := P o.st o.fx

theorem viaReadMessage_P (P : State → List Effect → Prop) (s : State) (rm : RM) (L : Nat)
    (k : Bytes → HOut) (h0 : P s []) (hk : ∀ p, HP P (k p)) : HP P (viaReadMessage s rm L k) := by
  unfold viaReadMessage
  split
  · exact hk _
  all_goals exact h0

/-! ### the handshake goroutine -/

def quietB (fx : List Effect) : Bool := fx.all fun x => !x.touches && x != .accepted

theorem quiet_of_quietB {fx : List Effect} (h : quietB fx = true) : quiet fx := by
  intro x hx
  have := List.all_eq_true.mp h x hx
  simp only [Bool.and_eq_true, Bool.not_eq_true', bne_iff_ne, ne_eq] at this
  exact this

theorem hsConsume_spec (s : State) (v : Bool) : Frame s (hsConsume s v).1 ∧ quiet (hsConsume s v).2 := by
  unfold hsConsume verifyInitiation
  cases v
  · simp only [Bool.false_eq_true, ↓reduceIte]
    split
    · exact ⟨⟨fun _ => ⟨rfl, rfl⟩, rfl, rfl, rfl, rfl, rfl, fun _ => rfl, id, fun _ _ => rfl, BlkInv.same rfl rfl rfl rfl rfl rfl⟩, quiet_of_quietB rfl⟩
    · exact ⟨⟨fun _ => ⟨rfl, rfl⟩, rfl, rfl, rfl, rfl, rfl, id, id, fun _ _ => rfl, BlkInv.same rfl rfl rfl rfl rfl rfl⟩, quiet_nil⟩
  · simp only [↓reduceIte]
    by_cases h1 : s.verAckSent = true <;> by_cases h2 : s.verAckReceived = true <;>
      simp only [h1, h2, Bool.not_true, Bool.not_false, Bool.false_eq_true, ↓reduceIte, List.nil_append,
        List.cons_append]
    · exact ⟨⟨fun _ => ⟨rfl, rfl⟩, rfl, rfl, rfl, rfl, rfl, fun _ => rfl, id, fun _ _ => rfl, BlkInv.same rfl rfl rfl rfl rfl rfl⟩, quiet_of_quietB rfl⟩
    · exact ⟨⟨fun _ => ⟨rfl, rfl⟩, rfl, rfl, rfl, rfl, rfl, id, id, fun _ _ => rfl, BlkInv.same rfl rfl rfl rfl rfl rfl⟩, quiet_nil⟩
    · exact ⟨⟨fun _ => ⟨rfl, rfl⟩, rfl, rfl, rfl, rfl, rfl, fun _ => rfl, id, fun _ _ => rfl, BlkInv.same rfl rfl rfl rfl rfl rfl⟩, quiet_of_quietB rfl⟩
    · exact ⟨⟨fun _ => ⟨rfl, rfl⟩, rfl, rfl, rfl, rfl, rfl, id, id, fun _ _ => rfl, BlkInv.same rfl rfl rfl rfl rfl rfl⟩, quiet_of_quietB rfl⟩

theorem hsPush_spec (s : State) (v : Bool) : Frame s (hsPush s v).1 ∧ quiet (hsPush s v).2 := by
  unfold hsPush
  split
  · split
    · exact ⟨⟨fun _ => ⟨rfl, rfl⟩, rfl, rfl, rfl, rfl, rfl, id, id, fun _ _ => rfl, BlkInv.same rfl rfl rfl rfl rfl rfl⟩, quiet_nil⟩
    · exact ⟨Frame.refl s, quiet_nil⟩
  · exact hsConsume_spec s v

/-! ### every handler: what it can do to the state -/

/-- outputs whose state is a frame of `s` and whose effects are quiet. -/
def Harmless (s : State) : State → List Effect → Prop := fun st fx => Frame s st ∧ quiet fx

/-- outputs whose state is a frame of `s` (effects unconstrained). -/
def Framed (s : State) : State → List Effect → Prop := fun st _ => Frame s st

theorem harmless_refl (s : State) : Harmless s s [] := ⟨Frame.refl s, quiet_nil⟩

theorem Harmless.framed {s st : State} {fx : List Effect} (h : Harmless s st fx) : Framed s st fx := h.1

theorem hVersion_harmless (e : Env) (s : State) (L : Nat) (ck inp : Bytes) :
    HP (Harmless s) (hVersion e s L ck inp) := by
  unfold hVersion
  apply viaReadMessage_P _ _ _ _ _ (harmless_refl s)
  intro p
  split
  · exact harmless_refl s
  · exact harmless_refl s
  · exact hsPush_spec s true

theorem hVerack_harmless (e : Env) (s : State) (L : Nat) (ck inp : Bytes) :
    HP (Harmless s) (hVerack e s L ck inp) := by
  unfold hVerack
  apply viaReadMessage_P _ _ _ _ _ (harmless_refl s)
  intro p
  exact hsPush_spec s false

theorem hProtoconf_harmless (e : Env) (s : State) (L : Nat) (ck inp : Bytes) :
    HP (Harmless s) (hProtoconf e s L ck inp) := by
  unfold hProtoconf
  show Harmless s (finish _ _ _).st (finish _ _ _).fx
  rw [finish_st, finish_fx]
  apply viaReadMessage_P _ _ _ _ _ (harmless_refl s)
  intro p
  split
  · exact harmless_refl s
  · exact harmless_refl s
  · simp only []
    split <;> exact ⟨⟨fun _ => ⟨rfl, rfl⟩, rfl, rfl, rfl, rfl, rfl, id, id, fun _ _ => rfl, BlkInv.same rfl rfl rfl rfl rfl rfl⟩, quiet_nil⟩

theorem hPing_harmless (e : Env) (s : State) (L : Nat) (ck inp : Bytes) :
    HP (Harmless s) (hPing e s L ck inp) := by
  unfold hPing
  apply viaReadMessage_P _ _ _ _ _ (harmless_refl s)
  intro p
  split
  · exact harmless_refl s
  · refine ⟨Frame.refl s, ?_⟩
    intro x hx
    simp only [List.mem_cons, List.not_mem_nil, or_false] at hx
    subst hx
    simp [Effect.touches]

theorem hPong_harmless (e : Env) (s : State) (L : Nat) (ck inp : Bytes) :
    HP (Harmless s) (hPong e s L ck inp) := by
  unfold hPong
  apply viaReadMessage_P _ _ _ _ _ (harmless_refl s)
  intro p
  split
  · exact harmless_refl s
  · split <;> exact harmless_refl s

theorem hReject_harmless (e : Env) (s : State) (L : Nat) (ck inp : Bytes) :
    HP (Harmless s) (hReject e s L ck inp) := by
  unfold hReject
  apply viaReadMessage_P _ _ _ _ _ (harmless_refl s)
  intro p
  split <;> exact harmless_refl s

theorem hAddress_framed (e : Env) (s : State) (L : Nat) (ck inp : Bytes) :
    HP (Framed s) (hAddress e s L ck inp) := by
  unfold hAddress
  apply viaReadMessage_P _ _ _ _ _ (Frame.refl s)
  intro p
  split <;> exact Frame.refl s

theorem withAlt_st (e : Env) (s : State) (inp : Bytes) (o : HOut) : (withAlt e s inp o).st = o.st := by
  unfold withAlt
  split
  · split <;> rfl
  · rfl

theorem trackLoop_framed (e : Env) (s : State) (k : Nat) (b : Bytes) (used : Nat) (fx : List Effect) :
    Frame s (trackLoop e s k b used fx).st := by
  induction k generalizing b used fx with
  | zero => exact Frame.refl s
  | succ k ih =>
    unfold trackLoop
    split
    · exact Frame.refl s
    · exact Frame.refl s
    · simp only []
      split
      · exact Frame.refl s
      · split
        · exact ih _ _ _
        · exact ⟨fun _ => ⟨rfl, rfl⟩, rfl, rfl, rfl, rfl, rfl, id, fun _ => rfl, fun _ _ => rfl, BlkInv.same rfl rfl rfl rfl rfl rfl⟩

theorem hHeadersTrack_framed (e : Env) (s : State) (L : Nat) (inp : Bytes) :
    Frame s (hHeadersTrack e s L inp).st := by
  unfold hHeadersTrack
  split
  · exact Frame.refl s
  · rw [withAlt_st, finish_st]
    unfold hHeadersTrackBody
    split
    · exact Frame.refl s
    · exact Frame.refl s
    · exact trackLoop_framed _ _ _ _ _ _

theorem txs_frame (s : State) (l : List TxEntry) : Frame s { s with txs := l } :=
  ⟨fun _ => ⟨rfl, rfl⟩, rfl, rfl, rfl, rfl, rfl, id, id, fun _ _ => rfl, BlkInv.same rfl rfl rfl rfl rfl rfl⟩

theorem txAnnounce_frame (s : State) (h : Bytes) : Frame s (txAnnounce s h).1 := by
  unfold txAnnounce
  split
  · exact txs_frame s _
  · split
    · exact Frame.refl s
    · split <;> exact txs_frame s _

theorem txDeliver_frame (s : State) (h : Bytes) : Frame s (txDeliver s h) := by
  unfold txDeliver
  split <;> exact txs_frame s _

theorem txPoll_frame (s : State) : Frame s (txPoll s).1 := by
  unfold txPoll; exact txs_frame s _

theorem invLoop_framed (s : State) (k : Nat) (b : Bytes) (used : Nat) (fx : List Effect) (pending : Nat) :
    ∀ s0, Frame s0 s → Frame s0 (invLoop s k b used fx pending).st := by
  induction k generalizing s b used fx pending with
  | zero => intro s0 h; exact h
  | succ k ih =>
    intro s0 h
    unfold invLoop
    split
    · exact h
    · exact h
    · simp only []
      split
      · exact ih _ _ _ _ _ s0 h
      · have h' := fun x => Frame.trans h (txAnnounce_frame s x)
        split
        · exact ih _ _ _ _ _ s0 (h' _)
        · split
          · exact ih _ _ _ _ _ s0 (h' _)
          · exact ih _ _ _ _ _ s0 (h' _)

theorem hInventory_framed (s : State) (inp : Bytes) : Frame s (hInventory s inp).st := by
  unfold hInventory
  split
  · exact Frame.refl s
  · exact Frame.refl s
  · exact invLoop_framed _ _ _ _ _ _ s (Frame.refl s)

theorem hTx_framed (e : Env) (s : State) (L : Nat) (c : Bool) (ck inp : Bytes) :
    Frame s (hTx e s L c ck inp).st := by
  unfold hTx
  split
  · split <;> exact Frame.refl s
  · apply viaReadMessage_P (Framed s) _ _ _ _ (Frame.refl s)
    intro p
    split
    · exact Frame.refl s
    · exact Frame.refl s
    · exact txDeliver_frame s _

theorem lookupCmd_filter_ne (t : Table) (c : String) (cmd : Bytes) (hne : ascii c ≠ cmd) :
    lookupCmd (t.filter (fun en => en.1 != c)) cmd = lookupCmd t cmd := by
  unfold lookupCmd
  congr 1
  induction t with
  | nil => rfl
  | cons a r ih =>
    by_cases hac : a.1 = c
    · have hq : (ascii c == cmd) = false := by simpa using hne
      have hq' : (ascii a.1 == cmd) = false := by rw [hac]; exact hq
      simp [hac, List.find?_cons, hq, ih]
    · by_cases hq : (ascii a.1 == cmd) = true
      · simp [List.filter_cons, hac, List.find?_cons, hq]
      · simp [List.filter_cons, hac, List.find?_cons, hq, ih]

theorem lookupCmd_del_ne (t : Table) (c : String) (cmd : Bytes) (hne : ascii c ≠ cmd) :
    lookupCmd (t.del c) cmd = lookupCmd t cmd := lookupCmd_filter_ne t c cmd hne

theorem lookupCmd_set_ne (t : Table) (c : String) (h : Handler) (cmd : Bytes) (hne : ascii c ≠ cmd) :
    lookupCmd (t.set c h) cmd = lookupCmd t cmd := by
  have h1 : lookupCmd (t.set c h) cmd = lookupCmd (t.filter (fun en => en.1 != c)) cmd := by
    unfold lookupCmd Table.set
    have : (ascii c == cmd) = false := by simpa using hne
    simp [this]
  rw [h1, lookupCmd_filter_ne t c cmd hne]

theorem completeBlock_frame (s : State) (h : Bytes) (hb : s.verified = false → s.blockReq = none) :
    Frame s (completeBlock s h) := by
  unfold completeBlock
  split
  · rename_i heq
    refine ⟨fun hv => ?_, rfl, rfl, rfl, rfl, rfl, id, id,
      fun c hc => lookupCmd_del_ne _ _ _ (fun hh => hc hh.symm), fun _ => ?_⟩
    · rw [hb hv] at heq; cases heq
    · exact ⟨fun h => (by cases h), fun h => (by cases h), fun h => (by cases h), fun h => (by cases h)⟩
  · exact Frame.refl s

/-- `handleBlock` marking the request as streaming, and the handler's record. -/
theorem streaming_frame (s : State) (r : BlockRec) (hq : s.blockReq.isSome = true) :
    Frame s { s with blockReader := true, blockStarted := false, bh := r } :=
  ⟨fun _ => ⟨rfl, rfl⟩, rfl, rfl, rfl, rfl, rfl, id, id, fun _ _ => rfl,
   fun h => ⟨h.armed, fun _ => hq, h.handler, fun h' => (by cases h')⟩⟩

theorem streaming_frame' (s : State) (hq : s.blockReq.isSome = true) :
    Frame s { s with blockReader := true, blockStarted := false } :=
  ⟨fun _ => ⟨rfl, rfl⟩, rfl, rfl, rfl, rfl, rfl, id, id, fun _ _ => rfl,
   fun h => ⟨h.armed, fun _ => hq, h.handler, fun h' => (by cases h')⟩⟩

/-- the handler thread has been started and is being fed. -/
theorem started_frame (s : State) (c g : Nat) (hq : s.blockReq.isSome = true) :
    Frame s { s with blockReader := true, blockStarted := true, bh := { called := true, count := c, got := g, done := none } } :=
  ⟨fun _ => ⟨rfl, rfl⟩, rfl, rfl, rfl, rfl, rfl, id, id, fun _ _ => rfl,
   fun h => ⟨h.armed, fun _ => hq, h.handler, fun _ => ⟨rfl, rfl, rfl⟩⟩⟩

theorem hBlock_framed (e : Env) (s : State) (L : Nat) (inp : Bytes)
    (hb : s.verified = false → s.blockReq = none) : Frame s (hBlock e s L inp).st := by
  unfold hBlock
  rw [finish_st]
  split
  · exact Frame.refl s
  · exact Frame.refl s
  · simp only []
    split
    · exact Frame.refl s
    · rename_i want hq
      have hsome : s.blockReq.isSome = true := by rw [hq]; rfl
      have hc : ∀ (t : State) (x : Bytes), Frame s t → t.verified = s.verified → t.blockReq = s.blockReq →
          Frame s (completeBlock t x) := by
        intro t x ht hv hr
        exact Frame.trans ht (completeBlock_frame t x (fun hv' => by rw [hr]; exact hb (hv ▸ hv')))
      split
      · exact Frame.refl s
      · split
        · exact hc s _ (Frame.refl s) rfl rfl
        · split
          · exact streaming_frame' s hsome
          · exact streaming_frame' s hsome
          · split
            · exact started_frame s _ _ hsome
            · exact hc _ _ (streaming_frame s _ hsome) rfl rfl
            · exact hc _ _ (streaming_frame s _ hsome) rfl rfl
            · exact Frame.refl s
            · exact hc _ _ (streaming_frame s _ hsome) rfl rfl

/-- `handleExtended` before the node is ready: the payload is only discarded. -/
theorem hExtended_notReady (e : Env) (s : State) (inp : Bytes) (hr : s.ready = false) :
    HP (Harmless s) (hExtended e s inp) := by
  unfold hExtended
  split
  · exact harmless_refl s
  · exact harmless_refl s
  · split
    · exact harmless_refl s
    · exact harmless_refl s
    · simp only [hr, Bool.not_false, ↓reduceIte]
      exact harmless_refl s

theorem hExtended_framed (e : Env) (s : State) (inp : Bytes)
    (hb : s.verified = false → s.blockReq = none) : Frame s (hExtended e s inp).st := by
  unfold hExtended
  split
  · exact Frame.refl s
  · exact Frame.refl s
  · split
    · exact Frame.refl s
    · exact Frame.refl s
    · simp only [finish_st]
      split
      · exact Frame.refl s
      · split
        · split
          · exact hBlock_framed e s _ _ hb
          · exact Frame.refl s
        · split
          · split
            · exact hTx_framed e s _ _ _ _
            · exact Frame.refl s
          · exact Frame.refl s

/-- the two ways `handleHeadersVerify` can end. -/
def VerifySpec (s : State) (o : HOut) : Prop :=
  Harmless s o.st o.fx ∨
  (s.hsComplete = true ∧ o.st = (accept s).1 ∧ (∃ n, o.fx = .verifyHeader n :: (accept s).2.1) ∧
    (s.verifyOnly = true → o.res = .stop))

theorem accept_verifyOnly (s : State) (h : s.verifyOnly = true) : (accept s).2.2 = true := by
  unfold accept; simp [h]

theorem hHeadersVerifyBody_spec (e : Env) (s : State) (inp : Bytes) (hc : s.hsComplete = true) :
    VerifySpec s (hHeadersVerifyBody e s inp) := by
  unfold hHeadersVerifyBody
  split
  · exact Or.inl (harmless_refl s)
  · exact Or.inl (harmless_refl s)
  · simp only []
    split
    · exact Or.inl ⟨⟨fun _ => ⟨rfl, rfl⟩, rfl, rfl, rfl, rfl, rfl, id, fun _ => rfl, fun _ _ => rfl, BlkInv.same rfl rfl rfl rfl rfl rfl⟩, quiet_of_quietB rfl⟩
    · split
      · exact Or.inl (harmless_refl s)
      · exact Or.inl (harmless_refl s)
      · split
        · exact Or.inl (harmless_refl s)
        · split
          · refine Or.inr ⟨hc, rfl, ⟨_, rfl⟩, ?_⟩
            intro hvo
            simp only [accept_verifyOnly s hvo, ↓reduceIte]
          · refine Or.inl ⟨⟨fun _ => ⟨rfl, rfl⟩, rfl, rfl, rfl, rfl, rfl, id, fun _ => rfl, fun _ _ => rfl, BlkInv.same rfl rfl rfl rfl rfl rfl⟩, ?_⟩
            intro x hx
            simp only [List.mem_cons, List.not_mem_nil, or_false] at hx
            rcases hx with rfl | rfl <;> simp [Effect.touches]

theorem hHeadersVerify_spec (e : Env) (s : State) (L : Nat) (inp : Bytes) :
    VerifySpec s (hHeadersVerify e s L inp) := by
  unfold hHeadersVerify
  split
  · exact Or.inl (harmless_refl s)
  · rename_i hc
    have hc' : s.hsComplete = true := by simpa using hc
    rcases hHeadersVerifyBody_spec e s inp hc' with h | ⟨h1, h2, h3, h4⟩
    · exact Or.inl h
    · refine Or.inr ⟨h1, h2, h3, fun hvo => ?_⟩
      exact (finish_res_stop_iff _ _ _).mpr (h4 hvo)

end BRV.Wire
