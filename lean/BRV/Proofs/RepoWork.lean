/-
Accumulated work: every header's recorded work is its predecessor's recorded work plus its own
block work, so the recorded work IS the cumulative work of the chain, strictly increasing along
every branch; nothing a branch holds carries more work than the branch's tip.
-/
import BRV.Proofs.RepoStreamStep

namespace BRV.Repo

structure BranchWork (ar : Arena) (b : Branch) : Prop where
  inner : ∀ (k : Nat) (d e : HData), b.headers[k]? = some d → b.headers[k + 1]? = some e →
    ∃ w, Work.blockWork e.hdr.bits = some w ∧ e.work = d.work + w
  first : ∀ (p : Nat) (d : HData), b.parent = some p → b.headers[0]? = some d →
    ∃ pd w, atH ar p b.parentHeight = some pd ∧ Work.blockWork d.hdr.bits = some w ∧ d.work = pd.work + w
  root : ∀ (d : HData), b.parent = none → b.headers[0]? = some d → Work.blockWork d.hdr.bits = some d.work

def WorkWF (ar : Arena) : Prop := ∀ (bi : Nat) (b : Branch), ar[bi]? = some b → BranchWork ar b

theorem newBranch_ok_work (r : Repo) (pb : Nat) (ph : Int) (h : Hdr) (nb : Branch)
    (hn : newBranch r (some pb) ph h = .ok nb) :
    ∃ lst w, r.at pb ph = some lst ∧ Work.blockWork h.bits = some w ∧
      nb = { parent := some pb, parentHeight := ph, first := h, offset := 1,
             headers := [{ hdr := h, work := lst.work + w }], hmap := [(h.id, ph + 1)] } := by
  unfold newBranch at hn
  simp only at hn
  cases hat : r.at pb ph with
  | none => rw [hat] at hn; cases hn
  | some l =>
    rw [hat] at hn
    simp only at hn
    by_cases hne : l.hdr.id = h.prev
    · simp only [hne, ne_eq, not_true_eq_false, ↓reduceIte] at hn
      cases hw : Work.blockWork h.bits with
      | none => rw [hw] at hn; cases hn
      | some w =>
        rw [hw] at hn
        simp only [Except.ok.injEq] at hn
        exact ⟨l, w, rfl, rfl, hn.symm⟩
    · simp only [ne_eq, hne, not_false_eq_true, ↓reduceIte] at hn; cases hn

/-- `ProcessHeader` keeps the work bookkeeping exact (automatic clean not due). -/
theorem workWF_processHeader (r : Repo) (h : Hdr) (ok : Bool) (hw : LinkWF r.arena) (hwk : WorkWF r.arena)
    (hnc : ∀ pb ph lst, precheck r h ok = .inr (pb, ph, lst) →
      Int.tmod ((r.br pb).height + 1) (Facts.autoCleanModulus : Int) ≠ 0) :
    WorkWF (processHeader r h ok).1.arena := by
  cases processHeader_shape r h ok hnc with
  | same ha hb _ => rw [ha]; exact hwk
  | fork pb ph lst nb hp hne hn ha hb _ =>
    rw [ha]
    obtain ⟨l2, w, hat, hbw, hnb⟩ := newBranch_ok_work r pb ph h nb hn
    have hpb : pb < r.arena.length := atHeight_some_lt _ _ _ _ _ hat
    rw [Repo.at_eq_atH r hw.dec pb hpb] at hat
    intro bi b hbi
    by_cases hlt : bi < r.arena.length
    · rw [List.getElem?_append_left hlt] at hbi
      have hold := hwk bi b hbi
      refine ⟨hold.inner, ?_, hold.root⟩
      intro p d hpar h0
      obtain ⟨pd, w', hpd, hbw', hwork⟩ := hold.first p d hpar h0
      have hplt : p < r.arena.length := by have := hw.dec bi b hbi p hpar; omega
      exact ⟨pd, w', by rw [atH_append r.arena hw.dec nb p hplt]; exact hpd, hbw', hwork⟩
    · have hlen := getElem?_lt _ _ _ hbi
      simp only [List.length_append, List.length_cons, List.length_nil] at hlen
      have he : bi = r.arena.length := by omega
      subst he
      simp only [List.getElem?_concat_length, Option.some.injEq] at hbi
      subst hbi
      rw [hnb]
      refine ⟨?_, ?_, ?_⟩
      · intro k d e hk hk1
        simp at hk1
      · intro p d hpar h0
        simp only [Option.some.injEq] at hpar
        subst hpar
        simp only [List.getElem?_cons_zero, Option.some.injEq] at h0
        subst h0
        exact ⟨l2, w, by rw [atH_append r.arena hw.dec _ pb hpb]; exact hat, hbw, rfl⟩
      · intro d hpar; cases hpar
  | extend pb ph lst w hp hprev hlen hbw ha hb _ =>
    rw [ha]
    have hbr : r.arena[pb]? = some (r.br pb) := by
      unfold Repo.br; rw [List.getElem?_eq_getElem hlen]; rfl
    have hlast : (r.br pb).headers[(r.br pb).headers.length - 1]? = some lst := getLast?_getElem? _ _ hp.lastIs
    have hne0 : (r.br pb).headers.length ≠ 0 := by
      intro h0; rw [List.getElem?_eq_none (by omega)] at hlast; cases hlast
    intro bi b hbi
    -- lookups through parents are preserved
    have hat : ∀ (p : Nat) (x : Int) (d : HData), atH r.arena p x = some d →
        atH (r.arena.set pb ((r.br pb).pushed { hdr := h, work := lst.work + w })) p x = some d := by
      intro p x d hd
      refine atH_set_extend r.arena hw.dec pb (r.br pb) _ { hdr := h, work := lst.work + w } hbr ?_ ?_ ?_ ?_ p x d hd <;> rfl
    by_cases he : bi = pb
    · subst he
      rw [List.getElem?_set_self hlen] at hbi
      simp only [Option.some.injEq] at hbi
      subst hbi
      have hold := hwk bi (r.br bi) hbr
      refine ⟨?_, ?_, ?_⟩
      · intro k d e hk hk1
        simp only [Branch.pushed] at hk hk1
        by_cases hk2 : k + 1 < (r.br bi).headers.length
        · rw [List.getElem?_append_left (by omega)] at hk
          rw [List.getElem?_append_left hk2] at hk1
          exact hold.inner k d e hk hk1
        · have hklt : k + 1 < ((r.br bi).headers ++ [({ hdr := h, work := lst.work + w } : HData)]).length := getElem?_lt _ _ _ hk1
          simp only [List.length_append, List.length_cons, List.length_nil] at hklt
          have hke : k = (r.br bi).headers.length - 1 := by omega
          subst hke
          rw [List.getElem?_append_left (by omega), hlast] at hk
          simp only [Option.some.injEq] at hk
          subst hk
          have e1 : (r.br bi).headers.length - 1 + 1 = (r.br bi).headers.length := by omega
          rw [e1, List.getElem?_concat_length] at hk1
          simp only [Option.some.injEq] at hk1
          subst hk1
          exact ⟨w, hbw, rfl⟩
      · intro p d hpar h0
        simp only [Branch.pushed] at hpar h0
        rw [List.getElem?_append_left (by omega)] at h0
        obtain ⟨pd, w', hpd, hbw', hwork⟩ := hold.first p d hpar h0
        exact ⟨pd, w', hat p _ pd hpd, hbw', hwork⟩
      · intro d hpar h0
        simp only [Branch.pushed] at hpar h0
        rw [List.getElem?_append_left (by omega)] at h0
        exact hold.root d hpar h0
    · rw [List.getElem?_set_ne (Ne.symm he)] at hbi
      have hold := hwk bi b hbi
      refine ⟨hold.inner, ?_, hold.root⟩
      intro p d hpar h0
      obtain ⟨pd, w', hpd, hbw', hwork⟩ := hold.first p d hpar h0
      exact ⟨pd, w', hat p _ pd hpd, hbw', hwork⟩

theorem workWF_submitAll (r : Repo) (hs : List (Hdr × Bool)) (hw : LinkWF r.arena) (hwk : WorkWF r.arena)
    (hq : NoAutoClean r hs) : WorkWF (submitAll r hs).arena := by
  induction hs generalizing r with
  | nil => exact hwk
  | cons x xs ih =>
    obtain ⟨h1, h2⟩ := hq
    simp only [submitAll, List.foldl_cons]
    exact ih _ (linkWF_processHeader r x.1 x.2 hw h1) (workWF_processHeader r x.1 x.2 hw hwk h1) h2

/-! ### consequences -/

/-- **the recorded work is cumulative**: along the ancestry of any branch, the work recorded at
    height `k` is the work recorded at `k − 1` plus the block work of the header at `k` (≥ 1). -/
theorem atH_work_step (ar : Arena) (hw : LinkWF ar) (hwk : WorkWF ar) (bi : Nat) (k : Int) (a b : HData)
    (ha : atH ar bi k = some a) (hb : atH ar bi (k - 1) = some b) :
    ∃ w, Work.blockWork a.hdr.bits = some w ∧ a.work = b.work + w ∧ 1 ≤ w := by
  induction bi using Nat.strongRecOn generalizing k a b with
  | _ bi ih =>
    cases hbr : ar[bi]? with
    | none => unfold atH at ha; simp [atHeight, hbr] at ha
    | some br =>
      have hl := hw.each bi br hbr
      have hwb := hwk bi br hbr
      rw [atH_unfold ar hw.dec bi br hbr] at ha hb
      by_cases h1 : k > br.parentHeight
      · simp only [h1, ↓reduceIte] at ha
        by_cases h2 : k - 1 > br.parentHeight
        · simp only [h2, ↓reduceIte] at hb
          unfold getI at ha hb
          have hoff := hl.off
          have n1 : ¬ (k - br.parentHeight - br.offset < 0) := by omega
          have n2 : ¬ (k - 1 - br.parentHeight - br.offset < 0) := by omega
          simp only [n1, n2, ↓reduceIte] at ha hb
          have e : (k - br.parentHeight - br.offset).toNat = (k - 1 - br.parentHeight - br.offset).toNat + 1 := by omega
          rw [e] at ha
          obtain ⟨w, hbw, hwork⟩ := hwb.inner _ b a hb ha
          exact ⟨w, hbw, hwork, Work.blockWork_pos _ _ hbw⟩
        · simp only [h2, ↓reduceIte] at hb
          have hh : k = br.parentHeight + 1 := by omega
          cases hpar : br.parent with
          | none => rw [hpar] at hb; cases hb
          | some p =>
            rw [hpar] at hb
            simp only at hb
            have hoff := hl.off
            unfold getI at ha
            have n1 : ¬ (k - br.parentHeight - br.offset < 0) := by omega
            simp only [n1, ↓reduceIte] at ha
            have e0 : (k - br.parentHeight - br.offset).toNat = 0 := by omega
            rw [e0] at ha
            obtain ⟨pd, w, hpd, hbw, hwork⟩ := hwb.first p a hpar ha
            have : k - 1 = br.parentHeight := by omega
            rw [this, hpd] at hb
            simp only [Option.some.injEq] at hb
            subst hb
            exact ⟨w, hbw, hwork, Work.blockWork_pos _ _ hbw⟩
      · simp only [h1, ↓reduceIte] at ha
        have h2 : ¬ (k - 1 > br.parentHeight) := by omega
        simp only [h2, ↓reduceIte] at hb
        cases hpar : br.parent with
        | none => rw [hpar] at ha; cases ha
        | some p =>
          rw [hpar] at ha hb
          simp only at ha hb
          exact ih p (hw.dec bi br hbr p hpar) k a b ha hb

/-- within a branch, work grows with the position. -/
theorem work_le_of_le (ar : Arena) (hwk : WorkWF ar) (bi : Nat) (b : Branch) (hb : ar[bi]? = some b)
    (k l : Nat) (d e : HData) (hk : b.headers[k]? = some d) (hl : b.headers[l]? = some e) (hkl : k ≤ l) :
    d.work ≤ e.work := by
  induction l generalizing e with
  | zero =>
    have : k = 0 := by omega
    subst this; rw [hk] at hl; simp only [Option.some.injEq] at hl; rw [hl]; exact Nat.le_refl _
  | succ l ih =>
    by_cases he : k = l + 1
    · subst he; rw [hk] at hl; simp only [Option.some.injEq] at hl; rw [hl]; exact Nat.le_refl _
    · have hlt : l < b.headers.length := by have := getElem?_lt _ _ _ hl; omega
      have hm := ih b.headers[l] (List.getElem?_eq_getElem hlt) (by omega)
      obtain ⟨w, _, hwork⟩ := (hwk bi b hb).inner l _ e (List.getElem?_eq_getElem hlt) hl
      omega

/-- **nothing a branch holds carries more work than its tip.** -/
theorem work_le_tip (ar : Arena) (hwk : WorkWF ar) (bi : Nat) (b : Branch) (hb : ar[bi]? = some b)
    (k : Nat) (d l : HData) (hk : b.headers[k]? = some d) (hl : b.last? = some l) : d.work ≤ l.work := by
  unfold Branch.last? at hl
  rw [List.getLast?_eq_getElem?] at hl
  have := getElem?_lt _ _ _ hk
  exact work_le_of_le ar hwk bi b hb k (b.headers.length - 1) d l hk hl (by omega)

end BRV.Repo
