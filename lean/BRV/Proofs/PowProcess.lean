/-
Lemmas for C02 about the decision sequence of `ProcessHeader` in Model/Pow.lean: no step after the
bits guard can panic.
-/
import BRV.Proofs.PowLemmas

namespace BRV.Pow

theorem branchesFind_lt (bs : Branches) (x : Nat) (i : Nat) (h : Int)
    (hf : branchesFind bs x = some (i, h)) : i < bs.length := by
  unfold branchesFind at hf
  obtain ⟨j, hj, hsome⟩ := List.exists_of_findSome?_eq_some hf
  cases hbf : branchFind bs j x with
  | none => rw [hbf] at hsome; cases hsome
  | some h' =>
    rw [hbf] at hsome
    simp only [Option.map_some, Option.some.injEq, Prod.mk.injEq] at hsome
    rw [← hsome.1]; exact List.mem_range.mp hj

theorem newBranch_ne_panic (bs : Branches) (p : Option Nat) (ph : Int) (hash prev time bits w : Nat)
    (hw : blockWork bits = some w) : (newBranch bs p ph hash prev time bits).2 ≠ .panic := by
  unfold newBranch
  simp only [hw]
  split
  · rename_i e he
    split at he
    · cases he
    · split at he
      · cases he; simp
      · split at he <;> cases he; simp
  · simp

theorem addHeader_ne_panic (bs : Branches) (i : Nat) (hash prev time bits w : Nat)
    (hw : blockWork bits = some w) : (addHeader bs i hash prev time bits).2 ≠ .panic := by
  unfold addHeader
  simp only [hw]
  split
  · simp
  · split
    · simp
    · split <;> simp

theorem daaCheck_ne_panic (r : Repo) (pb : Nat) (height : Int) (bits : Nat) :
    daaCheck r pb height bits ≠ .panic := by
  unfold daaCheck
  split
  · split
    · split <;> simp
    · simp
  · simp

theorem linkHeader_no_panic (r : Repo) (pb : Nat) (ph : Int) (hash prev time bits w : Nat)
    (hpb : pb < r.bs.length) (hne : ∀ b ∈ r.bs, b.hdrs ≠ []) (hw : blockWork bits = some w) :
    (linkHeader r pb ph hash prev time bits).2 ≠ .panic := by
  unfold linkHeader
  have hget : r.bs[pb]? = some r.bs[pb] := List.getElem?_eq_getElem hpb
  have hnonempty := hne r.bs[pb] (List.getElem_mem hpb)
  rw [hget]
  simp only
  cases hl : (r.bs[pb]).hdrs.getLast? with
  | none => rw [List.getLast?_eq_none_iff] at hl; exact absurd hl hnonempty
  | some last =>
    simp only
    split
    · split
      · simp
      · have hnb := newBranch_ne_panic r.bs (some pb) ph hash prev time bits w hw
        split
        · split <;> (try split) <;> simp
        · rename_i heq; rw [heq] at hnb; exact absurd rfl hnb
        · simp
    · have hah := addHeader_ne_panic r.bs pb hash prev time bits w hw
      split
      · split <;> (try split) <;> (try split) <;> simp
      · rename_i heq; rw [heq] at hah; exact absurd rfl hah
      · simp

/-- after the proof-of-work statements nothing in `ProcessHeader` can panic, provided every branch
    holds at least one header and the header's own bits convert. -/
theorem processLinked_no_panic (r : Repo) (hash prev time bits w : Nat)
    (hne : ∀ b ∈ r.bs, b.hdrs ≠ []) (hw : blockWork bits = some w) :
    (processLinked r hash prev time bits).2 ≠ .panic := by
  unfold processLinked
  cases hf : branchesFind r.bs prev with
  | none => simp only; split <;> (try split) <;> simp
  | some p =>
    obtain ⟨pb, ph⟩ := p
    have hpb := branchesFind_lt r.bs prev pb ph hf
    simp only
    cases hh : branchesFind r.bs hash with
    | some _ => simp
    | none =>
      simp only
      split
      · simp
      · split
        · simp
        · split
          · exact daaCheck_ne_panic r pb (ph + 1) bits
          · exact linkHeader_no_panic r pb ph hash prev time bits w hpb hne hw

/-! ### every branch keeps at least one header -/

def NonEmpty (bs : Branches) : Prop := ∀ b ∈ bs, b.hdrs ≠ []

theorem nonEmpty_newBranch (bs : Branches) (p : Option Nat) (ph : Int) (hash prev time bits : Nat)
    (h : NonEmpty bs) : NonEmpty (newBranch bs p ph hash prev time bits).1 := by
  unfold newBranch
  simp only
  split
  · exact h
  · split
    · exact h
    · intro b hb
      simp only [List.mem_append, List.mem_singleton] at hb
      rcases hb with hb | rfl
      · exact h b hb
      · simp

theorem nonEmpty_addHeader (bs : Branches) (i : Nat) (hash prev time bits : Nat)
    (h : NonEmpty bs) : NonEmpty (addHeader bs i hash prev time bits).1 := by
  unfold addHeader
  split
  · exact h
  · split
    · exact h
    · split
      · exact h
      · split
        · exact h
        · intro b hb
          simp only at hb
          rcases List.mem_or_eq_of_mem_set hb with hb | rfl
          · exact h b hb
          · simp

theorem nonEmpty_ite (c : Prop) [Decidable c] (a b : Branches) (ha : NonEmpty a) (hb : NonEmpty b) :
    NonEmpty (if c then a else b) := by
  split <;> assumption

theorem nonEmpty_linkHeader (r : Repo) (pb : Nat) (ph : Int) (hash prev time bits : Nat)
    (h : NonEmpty r.bs) : NonEmpty (linkHeader r pb ph hash prev time bits).1.bs := by
  unfold linkHeader
  have hn := nonEmpty_newBranch r.bs (some pb) ph hash prev time bits h
  have ha := nonEmpty_addHeader r.bs pb hash prev time bits h
  repeat' split
  all_goals first | exact h | (simp_all; done) |
    (simp_all; simp only [apply_ite Prod.fst, apply_ite Repo.bs];
     repeat (first | exact h | assumption | apply nonEmpty_ite))

theorem nonEmpty_processLinked (r : Repo) (hash prev time bits : Nat)
    (h : NonEmpty r.bs) : NonEmpty (processLinked r hash prev time bits).1.bs := by
  unfold processLinked
  split
  · simp only [apply_ite Prod.fst, apply_ite Repo.bs]
    repeat (first | exact h | apply nonEmpty_ite)
  · split
    · exact h
    · have hl := nonEmpty_linkHeader r
      simp only [apply_ite Prod.fst, apply_ite Repo.bs]
      repeat (first | exact h | exact hl _ _ _ _ _ _ h | apply nonEmpty_ite)

theorem nonEmpty_processHeader (r : Repo) (hash prev time bits : Nat)
    (h : NonEmpty r.bs) : NonEmpty (processHeader r hash prev time bits).1.bs := by
  unfold processHeader
  split
  · exact h
  · simp only
    split
    · exact h
    · exact h
    · exact nonEmpty_processLinked r hash prev time bits h

end BRV.Pow
