/-
Invariants of the block-manager model (Model/BlockMgr.lean), each proved per transition.
(C16 helper file, imported by Props/C16.lean only.)
-/
import BRV.Model.BlockMgr

namespace BRV.BlockMgr

/-! ### where a request is: signalled, current, or queued -/

def curIds : MPc → List Nat
  | .initial r => [r.id] | .loop r _ => [r.id] | _ => []

def sigIds (s : MSt) : List Nat := s.sigs.map (·.1)
def queueIds (s : MSt) : List Nat := s.queue.map (·.id)

/-- every request id, in the order signalled ++ current ++ queued. -/
def allIds (s : MSt) : List Nat := sigIds s ++ curIds s.pc ++ queueIds s

def alive (s : MSt) : Prop := ∀ b, s.pc ≠ .dead b

structure IdInv (s : MSt) : Prop where
  nodup : (allIds s).Nodup
  bound : ∀ i ∈ allIds s, i < s.nextReq
  full : alive s → ∀ i, i < s.nextReq → i ∈ allIds s

theorem setAbort_id (rid : Nat) (r : Req) : (setAbort rid r).id = r.id := by
  unfold setAbort; split <;> rfl

theorem map_setAbort_ids (rid : Nat) (q : List Req) : (q.map (setAbort rid)).map (·.id) = q.map (·.id) := by
  induction q with
  | nil => rfl
  | cons r rs ih => simp [setAbort_id, ih]

theorem addDl_ids (s : MSt) (h : Nat) : (addDl s h).sigs = s.sigs ∧ (addDl s h).pc = s.pc ∧
    (addDl s h).queue = s.queue ∧ (addDl s h).nextReq = s.nextReq := by simp [addDl]

theorem tick_cases (s : MSt) (ok : Bool) (r : Req) (n : Nat) (hpc : s.pc = .loop r n) :
    ∃ s1, ((s1 = s) ∨ (s1 = addDl s r.hash ∧ countHash s.dls r.hash < s.conc)) ∧
      (step s (.tick ok) = some { s1 with pc := .dead true, queue := [], closed := true, dls := cancelAll s1.dls } ∨
       ∃ n', step s (.tick ok) = some { s1 with pc := .loop r n' }) := by
  simp only [step, hpc]
  generalize (if countHash s.dls r.hash > 0 then 0 else n + 1) = n'
  by_cases hc : countHash s.dls r.hash < s.conc ∧ ok = true
  · refine ⟨addDl s r.hash, Or.inr ⟨rfl, hc.1⟩, ?_⟩
    simp only [hc, and_self, if_true]
    by_cases hd : n' > Facts.noDownloadLimit
    · left; simp only [hd, if_true]
    · right; exact ⟨n', by simp only [hd, if_false]⟩
  · refine ⟨s, Or.inl rfl, ?_⟩
    simp only [hc, if_false]
    by_cases hd : n' > Facts.noDownloadLimit
    · left; simp only [hd, if_true]
    · right; exact ⟨n', by simp only [hd, if_false]⟩

theorem idInv_init (c : Nat) : IdInv (init c) := by
  constructor <;> simp [init, allIds, sigIds, curIds, queueIds]

/-- the ids and the counter are all the invariant looks at. -/
theorem idInv_congr (s s' : MSt) (h1 : allIds s' = allIds s) (h2 : s'.nextReq = s.nextReq)
    (h3 : alive s' → alive s) (hi : IdInv s) : IdInv s' :=
  ⟨h1 ▸ hi.nodup, by rw [h1, h2]; exact hi.bound, by intro ha i hi'; rw [h1]; rw [h2] at hi'; exact hi.full (h3 ha) i hi'⟩

/-- the manager stopped: ids may only disappear. -/
theorem idInv_dead (s s' : MSt) (b : Bool) (hpc : s'.pc = .dead b) (h1 : (allIds s').Sublist (allIds s))
    (h2 : s'.nextReq = s.nextReq) (hi : IdInv s) : IdInv s' :=
  ⟨h1.nodup hi.nodup, by intro i hi'; rw [h2]; exact hi.bound i (h1.subset hi'),
   by intro ha; exact absurd hpc (ha b)⟩

theorem idInv_step (s s' : MSt) (l : MLabel) (h : step s l = some s') (hi : IdInv s) : IdInv s' := by
  cases l with
  | add hh =>
    simp only [step] at h
    split at h
    · cases h; exact hi
    · split at h
      · cases h
        obtain ⟨h1, h2, h3⟩ := hi
        refine ⟨?_, ?_, ?_⟩
        · simp only [allIds, sigIds, queueIds, List.map_append, List.map_cons, List.map_nil] at h1 ⊢
          rw [← List.append_assoc, List.nodup_append]
          refine ⟨by simpa [List.append_assoc] using h1, by simp, ?_⟩
          intro a ha b hb hab
          rw [List.mem_singleton] at hb
          rw [hab, hb] at ha
          have := h2 s.nextReq (by simpa [allIds, sigIds, queueIds, List.append_assoc] using ha)
          omega
        · intro i hi'
          simp only [allIds, sigIds, queueIds, List.map_append, List.map_cons, List.map_nil, List.mem_append,
            List.mem_singleton] at hi'
          have : i ∈ allIds s ∨ i = s.nextReq := by
            simp only [allIds, sigIds, queueIds, List.mem_append]
            rcases hi' with (h | h) | (h | h)
            · exact Or.inl (Or.inl (Or.inl h))
            · exact Or.inl (Or.inl (Or.inr h))
            · exact Or.inl (Or.inr h)
            · exact Or.inr h
          rcases this with h | h
          · have := h2 i h; simp only; omega
          · simp only; omega
        · intro ha i hi'
          have ha' : alive s := ha
          simp only at hi'
          by_cases hlt : i < s.nextReq
          · have := h3 ha' i hlt
            simp only [allIds, sigIds, queueIds, List.map_append, List.mem_append] at this ⊢
            rcases this with (h | h) | h
            · exact Or.inl (Or.inl h)
            · exact Or.inl (Or.inr h)
            · exact Or.inr (Or.inl h)
          · have : i = s.nextReq := by omega
            subst this
            simp [allIds, queueIds]
      · cases h
  | abortEnv rid =>
    simp only [step, Option.some.injEq] at h
    subst h
    refine idInv_congr s _ ?_ rfl ?_ hi
    · simp only [allIds, sigIds, queueIds, map_setAbort_ids]
      cases s.pc <;> simp [curIds, setAbort_id]
    · intro ha b hb
      apply ha b
      simp only
      rw [hb]
  | interrupt =>
    simp only [step, Option.some.injEq] at h
    subst h
    exact idInv_congr s _ rfl rfl (fun ha => ha) hi
  | take =>
    simp only [step] at h
    split at h
    · rename_i r rest hpc hq
      cases h
      refine idInv_congr s _ ?_ rfl ?_ hi
      · simp [allIds, sigIds, queueIds, curIds, hpc, hq]
      · intro _ b hb; rw [hpc] at hb; cases hb
    · cases h
  | reqInitial ok =>
    simp only [step] at h
    split at h
    · rename_i r hpc
      cases h
      refine idInv_congr s _ ?_ ?_ ?_ hi
      · cases ok <;> simp [allIds, sigIds, queueIds, curIds, hpc, addDl]
      · cases ok <;> simp [addDl]
      · intro _ b hb; rw [hpc] at hb; cases hb
    · cases h
  | tick ok =>
    cases hpc : s.pc with
    | loop r n =>
      obtain ⟨s1, hs1, hst⟩ := tick_cases s ok r n hpc
      have e1 : s1.sigs = s.sigs ∧ s1.queue = s.queue ∧ s1.nextReq = s.nextReq := by
        rcases hs1 with h1 | ⟨h1, _⟩ <;> subst h1 <;> simp [addDl]
      rcases hst with hst | ⟨n', hst⟩
      · rw [hst] at h; cases h
        refine idInv_dead s _ true rfl ?_ e1.2.2 hi
        simp only [allIds, sigIds, queueIds, curIds, hpc, e1.1, List.map_nil, List.append_nil]
        exact (List.sublist_append_left _ _).trans (List.sublist_append_left _ _)
      · rw [hst] at h; cases h
        refine idInv_congr s _ ?_ e1.2.2 ?_ hi
        · simp [allIds, sigIds, queueIds, curIds, hpc, e1.1, e1.2.1]
        · intro _ b hb; rw [hpc] at hb; cases hb
    | idle => simp [step, hpc] at h
    | initial r => simp [step, hpc] at h
    | dead b => simp [step, hpc] at h
  | mgrAbort =>
    simp only [step] at h
    split at h
    · rename_i r n hpc
      split at h
      · cases h
        refine idInv_congr s _ ?_ rfl ?_ hi
        · simp [allIds, sigIds, queueIds, curIds, hpc]
        · intro _ b hb; rw [hpc] at hb; cases hb
      · cases h
    · cases h
  | mgrComplete =>
    simp only [step] at h
    split at h
    · rename_i r n hpc
      split at h
      · cases h
        refine idInv_congr s _ ?_ rfl ?_ hi
        · simp [allIds, sigIds, queueIds, curIds, hpc]
        · intro _ b hb; rw [hpc] at hb; cases hb
      · cases h
    · cases h
  | mgrIntr =>
    simp only [step] at h
    split at h
    · split at h
      · cases h
        refine idInv_dead s _ false rfl ?_ rfl hi
        simp only [allIds, sigIds, queueIds, curIds, List.map_nil, List.append_nil]
        exact (List.sublist_append_left _ _).trans (List.sublist_append_left _ _)
      · cases h
    · cases h
  | mgrEnd =>
    simp only [step] at h
    split at h
    · split at h
      · cases h
        refine idInv_dead s _ false rfl ?_ rfl hi
        rename_i hpc hq _
        simp [allIds, sigIds, queueIds, curIds, hpc, hq]
      · cases h
    · cases h
  | dlReturn i ok =>
    simp only [step] at h
    split at h
    · split at h
      · cases h
        exact idInv_congr s _ rfl rfl (fun ha => ha) hi
      · cases h
    · cases h
  | dlFinish i =>
    simp only [step] at h
    split at h
    · split at h
      · cases h
      · split at h <;> (cases h; exact idInv_congr s _ rfl rfl (fun ha => ha) hi)
    · cases h

theorem idInv_reach (s : MSt) (h : Reach s) : IdInv s := by
  induction h with
  | init c => exact idInv_init c
  | step l _ hst ih => exact idInv_step _ _ l hst ih

/-! ### marks, nil results and `closed` signals -/

structure MarkInv (s : MSt) : Prop where
  cur : ∀ r, (s.pc = .initial r ∨ ∃ n, s.pc = .loop r n) → s.curHash = some r.hash
  retOk : ∀ d ∈ s.dls, d.ret = some true → (d.id, d.hash) ∈ s.okRets
  markOk : ∀ h d, (h, d) ∈ s.marks → (d, h) ∈ s.okRets
  doneMark : s.curDone = true → ∃ h d, s.curHash = some h ∧ (h, d) ∈ s.marks
  closedMark : ∀ i h, (i, h, Sig.closed) ∈ s.sigs → ∃ d, (h, d) ∈ s.marks

theorem setAbort_hash (rid : Nat) (r : Req) : (setAbort rid r).hash = r.hash := by
  unfold setAbort; split <;> rfl

theorem mem_cancelHash (dls : List Dl) (h : Nat) (x : Dl) (hx : x ∈ cancelHash dls h) :
    ∃ y ∈ dls, y.id = x.id ∧ y.hash = x.hash ∧ y.ret = x.ret := by
  simp only [cancelHash, List.mem_map] at hx
  obtain ⟨y, hy, rfl⟩ := hx
  exact ⟨y, hy, by split <;> simp⟩

theorem mem_cancelAll (dls : List Dl) (x : Dl) (hx : x ∈ cancelAll dls) :
    ∃ y ∈ dls, y.id = x.id ∧ y.hash = x.hash ∧ y.ret = x.ret := by
  simp only [cancelAll, List.mem_map] at hx
  obtain ⟨y, hy, rfl⟩ := hx
  exact ⟨y, hy, by simp⟩

theorem retOk_cancelHash (dls : List Dl) (h : Nat) (ok : List (Nat × Nat))
    (hr : ∀ d ∈ dls, d.ret = some true → (d.id, d.hash) ∈ ok) :
    ∀ d ∈ cancelHash dls h, d.ret = some true → (d.id, d.hash) ∈ ok := by
  intro d hd hret
  obtain ⟨y, hy, h1, h2, h3⟩ := mem_cancelHash dls h d hd
  rw [← h1, ← h2]; exact hr y hy (h3 ▸ hret)

theorem retOk_cancelAll (dls : List Dl) (ok : List (Nat × Nat))
    (hr : ∀ d ∈ dls, d.ret = some true → (d.id, d.hash) ∈ ok) :
    ∀ d ∈ cancelAll dls, d.ret = some true → (d.id, d.hash) ∈ ok := by
  intro d hd hret
  obtain ⟨y, hy, h1, h2, h3⟩ := mem_cancelAll dls d hd
  rw [← h1, ← h2]; exact hr y hy (h3 ▸ hret)

theorem retOk_addDl (s : MSt) (h : Nat)
    (hr : ∀ d ∈ s.dls, d.ret = some true → (d.id, d.hash) ∈ s.okRets) :
    ∀ d ∈ (addDl s h).dls, d.ret = some true → (d.id, d.hash) ∈ (addDl s h).okRets := by
  intro d hd hret
  simp only [addDl, List.mem_append, List.mem_singleton] at hd ⊢
  rcases hd with hd | rfl
  · exact hr d hd hret
  · simp at hret

theorem markInv_init (c : Nat) : MarkInv (init c) := by
  constructor <;> simp [init]

theorem markInv_step (s s' : MSt) (l : MLabel) (h : step s l = some s') (hi : MarkInv s) : MarkInv s' := by
  obtain ⟨c1, c2, c3, c4, c5⟩ := hi
  cases l with
  | add hh =>
    simp only [step] at h
    split at h
    · cases h; exact ⟨c1, c2, c3, c4, c5⟩
    · split at h
      · cases h; exact ⟨c1, c2, c3, c4, c5⟩
      · cases h
  | abortEnv rid =>
    simp only [step, Option.some.injEq] at h
    subst h
    refine ⟨?_, c2, c3, c4, c5⟩
    intro r hr
    simp only at hr ⊢
    cases hpc : s.pc with
    | idle => simp [hpc] at hr
    | dead b => simp [hpc] at hr
    | initial q =>
      simp only [hpc] at hr
      rcases hr with hr | ⟨n, hr⟩
      · cases hr; rw [setAbort_hash]; exact c1 q (Or.inl hpc)
      · cases hr
    | loop q m =>
      simp only [hpc] at hr
      rcases hr with hr | ⟨n, hr⟩
      · cases hr
      · cases hr; rw [setAbort_hash]; exact c1 q (Or.inr ⟨m, hpc⟩)
  | interrupt =>
    simp only [step, Option.some.injEq] at h
    subst h
    exact ⟨c1, c2, c3, c4, c5⟩
  | take =>
    simp only [step] at h
    split at h
    · cases h
      refine ⟨?_, c2, c3, by simp, c5⟩
      intro r hr
      simp only at hr ⊢
      rcases hr with hr | ⟨n, hr⟩
      · cases hr; rfl
      · cases hr
    · cases h
  | reqInitial ok =>
    simp only [step] at h
    split at h
    · rename_i r hpc
      cases h
      have hc := c1 r (Or.inl hpc)
      cases ok
      · refine ⟨?_, c2, c3, c4, c5⟩
        intro q hq
        simp only [Bool.false_eq_true, if_false] at hq ⊢
        rcases hq with hq | ⟨n, hq⟩
        · cases hq
        · cases hq; exact hc
      · refine ⟨?_, by simpa using retOk_addDl s r.hash c2, by simpa [addDl] using c3, by simpa [addDl] using c4, by simpa [addDl] using c5⟩
        intro q hq
        simp only [if_true] at hq ⊢
        rcases hq with hq | ⟨n, hq⟩
        · cases hq
        · cases hq; simpa [addDl] using hc
    · cases h
  | tick ok =>
    cases hpc : s.pc with
    | loop r n =>
      obtain ⟨s1, hs1, hst⟩ := tick_cases s ok r n hpc
      have hc := c1 r (Or.inr ⟨n, hpc⟩)
      have e : s1.curHash = s.curHash ∧ s1.curDone = s.curDone ∧ s1.marks = s.marks ∧ s1.okRets = s.okRets ∧ s1.sigs = s.sigs ∧
          (∀ d ∈ s1.dls, d.ret = some true → (d.id, d.hash) ∈ s.okRets) := by
        rcases hs1 with h1 | ⟨h1, _⟩ <;> subst h1
        · exact ⟨rfl, rfl, rfl, rfl, rfl, c2⟩
        · exact ⟨rfl, rfl, rfl, rfl, rfl, by simpa [addDl] using retOk_addDl s r.hash c2⟩
      obtain ⟨e1, e2, e3, e4, e5, e6⟩ := e
      rcases hst with hst | ⟨n', hst⟩
      · rw [hst] at h; cases h
        refine ⟨?_, ?_, ?_, ?_, ?_⟩
        · intro q hq; simp at hq
        · simp only [e4]; exact retOk_cancelAll _ _ e6
        · simp only [e3, e4]; exact c3
        · simp only [e1, e2, e3]; exact c4
        · simp only [e3, e5]; exact c5
      · rw [hst] at h; cases h
        refine ⟨?_, ?_, ?_, ?_, ?_⟩
        · intro q hq
          simp only at hq ⊢
          rcases hq with hq | ⟨m, hq⟩
          · cases hq
          · cases hq; rw [e1]; exact hc
        · simp only [e4]; exact e6
        · simp only [e3, e4]; exact c3
        · simp only [e1, e2, e3]; exact c4
        · simp only [e3, e5]; exact c5
    | idle => simp [step, hpc] at h
    | initial r => simp [step, hpc] at h
    | dead b => simp [step, hpc] at h
  | mgrAbort =>
    simp only [step] at h
    split at h
    · rename_i r n hpc
      split at h
      · cases h
        refine ⟨by intro q hq; simp at hq, retOk_cancelHash _ _ _ c2, c3, c4, ?_⟩
        intro i hh hm
        simp only [List.mem_append, List.mem_singleton, Prod.mk.injEq, reduceCtorEq, and_false, or_false] at hm
        exact c5 i hh hm
      · cases h
    · cases h
  | mgrComplete =>
    simp only [step] at h
    split at h
    · rename_i r n hpc
      split at h
      · rename_i hdone
        cases h
        refine ⟨by intro q hq; simp at hq, retOk_cancelHash _ _ _ c2, c3, c4, ?_⟩
        intro i hh hm
        simp only [List.mem_append, List.mem_singleton, Prod.mk.injEq, and_true] at hm
        rcases hm with hm | ⟨_, hm⟩
        · exact c5 i hh hm
        · obtain ⟨h0, d, hcur, hmk⟩ := c4 hdone
          have := c1 r (Or.inr ⟨n, hpc⟩)
          rw [this] at hcur
          cases hcur
          exact ⟨d, hm ▸ hmk⟩
      · cases h
    · cases h
  | mgrIntr =>
    simp only [step] at h
    split at h
    · split at h
      · cases h
        exact ⟨by intro q hq; simp at hq, retOk_cancelAll _ _ c2, c3, c4, c5⟩
      · cases h
    · cases h
  | mgrEnd =>
    simp only [step] at h
    split at h
    · split at h
      · cases h
        exact ⟨by intro q hq; simp at hq, retOk_cancelAll _ _ c2, c3, c4, c5⟩
      · cases h
    · cases h
  | dlReturn i ok =>
    simp only [step] at h
    split at h
    · rename_i d hd
      split at h
      · cases h
        refine ⟨c1, ?_, ?_, c4, c5⟩
        · intro x hx hret
          simp only at hx ⊢
          rcases List.mem_or_eq_of_mem_set hx with hx | rfl
          · have := c2 x hx hret
            cases ok <;> simp [this]
          · simp only [Option.some.injEq] at hret
            subst hret
            simp
        · intro hh dd hm
          have := c3 hh dd hm
          simp only
          cases ok <;> simp [this]
      · cases h
    · cases h
  | dlFinish i =>
    simp only [step] at h
    split at h
    · rename_i d hd
      have hmem : d ∈ s.dls := List.mem_of_getElem? hd
      have hsub : ∀ x ∈ s.dls.eraseIdx i, x ∈ s.dls := fun x hx => (List.eraseIdx_sublist _ _).subset hx
      split at h
      · cases h
      · rename_i ok hret
        split at h
        · rename_i hcond
          cases h
          simp only [Bool.and_eq_true, beq_iff_eq, Bool.not_eq_eq_eq_not, Bool.not_true] at hcond
          obtain ⟨⟨hok, hcur⟩, _⟩ := hcond
          subst hok
          have hd_ok := c2 d hmem hret
          refine ⟨c1, fun x hx => c2 x (hsub x hx), ?_, ?_, ?_⟩
          · intro hh dd hm
            simp only [List.mem_append, List.mem_singleton, Prod.mk.injEq] at hm
            rcases hm with hm | ⟨rfl, rfl⟩
            · exact c3 hh dd hm
            · exact hd_ok
          · intro _
            exact ⟨d.hash, d.id, hcur, by simp⟩
          · intro i' hh hm
            obtain ⟨dd, hdd⟩ := c5 i' hh hm
            exact ⟨dd, by simp [hdd]⟩
        · cases h
          exact ⟨c1, fun x hx => c2 x (hsub x hx), c3, c4, c5⟩
    · cases h

theorem markInv_reach (s : MSt) (h : Reach s) : MarkInv s := by
  induction h with
  | init c => exact markInv_init c
  | step l _ hst ih => exact markInv_step _ _ l hst ih

/-! ### concurrent downloads of one block -/

/-- downloads the manager has not cancelled. -/
def liveCount : List Dl → Nat
  | [] => 0
  | d :: ds => (if d.cancelled then 0 else 1) + liveCount ds

structure ConcInv (s : MSt) : Prop where
  /-- outside the select loop of `processRequest` every registered download has been cancelled. -/
  idleNone : (∀ r n, s.pc ≠ .loop r n) → liveCount s.dls = 0
  loopHash : ∀ r n, s.pc = .loop r n → ∀ d ∈ s.dls, d.cancelled = false → d.hash = r.hash
  loopCount : ∀ r n, s.pc = .loop r n → liveCount s.dls ≤ max s.conc 1

theorem liveCount_append (a b : List Dl) : liveCount (a ++ b) = liveCount a + liveCount b := by
  induction a with
  | nil => simp [liveCount]
  | cons d ds ih => simp [liveCount, ih]; omega

theorem liveCount_cancelAll (l : List Dl) : liveCount (cancelAll l) = 0 := by
  induction l with
  | nil => rfl
  | cons d ds ih => simp only [cancelAll, List.map_cons, liveCount] at ih ⊢; simp [ih]

theorem liveCount_zero_iff (l : List Dl) : liveCount l = 0 ↔ ∀ d ∈ l, d.cancelled = true := by
  induction l with
  | nil => simp [liveCount]
  | cons d ds ih =>
    simp only [liveCount, List.mem_cons, forall_eq_or_imp]
    cases hd : d.cancelled <;> simp [ih]

theorem liveCount_cancelHash (l : List Dl) (h : Nat) (hh : ∀ d ∈ l, d.cancelled = false → d.hash = h) :
    liveCount (cancelHash l h) = 0 := by
  rw [liveCount_zero_iff]
  intro x hx
  simp only [cancelHash, List.mem_map] at hx
  obtain ⟨y, hy, rfl⟩ := hx
  split
  · rfl
  · rename_i hne
    cases hc : y.cancelled
    · have := hh y hy hc; exact absurd (by simp [this]) hne
    · rfl

theorem liveCount_le_countHash (l : List Dl) (h : Nat) (hh : ∀ d ∈ l, d.cancelled = false → d.hash = h) :
    liveCount l ≤ countHash l h := by
  induction l with
  | nil => simp [liveCount, countHash]
  | cons d ds ih =>
    have ih' := ih (fun x hx => hh x (List.mem_cons_of_mem _ hx))
    simp only [countHash] at ih' ⊢
    simp only [liveCount, List.filter_cons]
    cases hc : d.cancelled
    · have := hh d (List.mem_cons_self ..) hc
      simp [this]; omega
    · by_cases hh' : (d.hash == h) = true
      · simp [hh']; omega
      · simp [hh']; omega

theorem liveCount_set (l : List Dl) (i : Nat) (d : Dl) (r : Option Bool) (h : l[i]? = some d) :
    liveCount (l.set i { d with ret := r }) = liveCount l := by
  induction l generalizing i with
  | nil => simp at h
  | cons q qs ih =>
    cases i with
    | zero => simp at h; subst h; simp [liveCount]
    | succ i => simp at h; simp [liveCount, ih i h]

theorem liveCount_eraseIdx (l : List Dl) (i : Nat) : liveCount (l.eraseIdx i) ≤ liveCount l := by
  induction l generalizing i with
  | nil => simp [liveCount]
  | cons q qs ih =>
    cases i with
    | zero => simp [liveCount]
    | succ i => simp only [List.eraseIdx_cons_succ, liveCount]; have := ih i; omega

theorem mem_set_ret (l : List Dl) (i : Nat) (d : Dl) (r : Option Bool) (h : l[i]? = some d) (x : Dl)
    (hx : x ∈ l.set i { d with ret := r }) : ∃ y ∈ l, y.cancelled = x.cancelled ∧ y.hash = x.hash := by
  rcases List.mem_or_eq_of_mem_set hx with hx | rfl
  · exact ⟨x, hx, rfl, rfl⟩
  · exact ⟨d, List.mem_of_getElem? h, rfl, rfl⟩

theorem concInv_init (c : Nat) : ConcInv (init c) := by
  constructor <;> simp [init, liveCount]

/-- a state that is not in the select loop and has every download cancelled. -/
theorem concInv_quiet (s' : MSt) (h1 : ∀ r n, s'.pc ≠ .loop r n) (h2 : liveCount s'.dls = 0) : ConcInv s' :=
  ⟨fun _ => h2, fun r n hp => absurd hp (h1 r n), fun r n hp => absurd hp (h1 r n)⟩

theorem concInv_step (s s' : MSt) (l : MLabel) (h : step s l = some s') (hi : ConcInv s) : ConcInv s' := by
  obtain ⟨c1, c2, c3⟩ := hi
  cases l with
  | add hh =>
    simp only [step] at h
    split at h
    · cases h; exact ⟨c1, c2, c3⟩
    · split at h
      · cases h; exact ⟨c1, c2, c3⟩
      · cases h
  | abortEnv rid =>
    simp only [step, Option.some.injEq] at h
    subst h
    cases hpc : s.pc with
    | idle => exact concInv_quiet _ (by simp [hpc]) (c1 (by simp [hpc]))
    | dead b => exact concInv_quiet _ (by simp [hpc]) (c1 (by simp [hpc]))
    | initial q => exact concInv_quiet _ (by simp [hpc]) (c1 (by simp [hpc]))
    | loop q m =>
      refine ⟨?_, ?_, ?_⟩
      · intro hn; exact (hn (setAbort rid q) m rfl).elim
      · intro r n hr d hd hc
        simp only [hpc, MPc.loop.injEq] at hr
        rw [← hr.1, setAbort_hash]
        exact c2 q m hpc d hd hc
      · intro r n _; exact c3 q m hpc
  | interrupt =>
    simp only [step, Option.some.injEq] at h
    subst h
    exact ⟨c1, c2, c3⟩
  | take =>
    simp only [step] at h
    split at h
    · rename_i hpc _
      cases h
      exact concInv_quiet _ (by simp) (c1 (by simp [hpc]))
    · cases h
  | reqInitial ok =>
    simp only [step] at h
    split at h
    · rename_i r hpc
      cases h
      have h0 := c1 (by simp [hpc])
      have hall := (liveCount_zero_iff _).mp h0
      cases ok
      · refine ⟨by intro hn; exact absurd rfl (hn r 0), ?_, ?_⟩
        · intro q n _ d hd hc
          simp only [Bool.false_eq_true, if_false] at hd
          have := hall d hd; simp [this] at hc
        · intro q n _; simp only [Bool.false_eq_true, if_false, h0]; omega
      · refine ⟨by intro hn; exact absurd rfl (hn r 0), ?_, ?_⟩
        · intro q n hq d hd hc
          simp only [if_true, MPc.loop.injEq] at hq hd
          simp only [addDl, List.mem_append, List.mem_singleton] at hd
          rcases hd with hd | rfl
          · have := hall d hd; simp [this] at hc
          · rw [← hq.1]
        · intro q n _
          simp only [if_true, addDl, liveCount_append, h0, liveCount]
          simp; omega
    · cases h
  | tick ok =>
    cases hpc : s.pc with
    | loop r n =>
      obtain ⟨s1, hs1, hst⟩ := tick_cases s ok r n hpc
      rcases hst with hst | ⟨n', hst⟩
      · rw [hst] at h; cases h
        exact concInv_quiet _ (by simp) (liveCount_cancelAll _)
      · rw [hst] at h; cases h
        rcases hs1 with h1 | ⟨h1, hlt⟩ <;> subst h1
        · exact ⟨by intro hn; exact absurd rfl (hn r n'),
            by intro q m hq; simp only [MPc.loop.injEq] at hq; rw [← hq.1]; exact c2 r n hpc,
            by intro q m _; exact c3 r n hpc⟩
        · have hle := liveCount_le_countHash s.dls r.hash (c2 r n hpc)
          refine ⟨by intro hn; exact absurd rfl (hn r n'), ?_, ?_⟩
          · intro q m hq d hd hc
            simp only [MPc.loop.injEq] at hq
            simp only [addDl, List.mem_append, List.mem_singleton] at hd
            rw [← hq.1]
            rcases hd with hd | rfl
            · exact c2 r n hpc d hd hc
            · rfl
          · intro q m _
            simp only [addDl, liveCount_append, liveCount]
            simp; omega
    | idle => simp [step, hpc] at h
    | initial r => simp [step, hpc] at h
    | dead b => simp [step, hpc] at h
  | mgrAbort =>
    simp only [step] at h
    split at h
    · rename_i r n hpc
      split at h
      · cases h
        exact concInv_quiet _ (by simp) (liveCount_cancelHash _ _ (c2 r n hpc))
      · cases h
    · cases h
  | mgrComplete =>
    simp only [step] at h
    split at h
    · rename_i r n hpc
      split at h
      · cases h
        exact concInv_quiet _ (by simp) (liveCount_cancelHash _ _ (c2 r n hpc))
      · cases h
    · cases h
  | mgrIntr =>
    simp only [step] at h
    split at h
    · split at h
      · cases h; exact concInv_quiet _ (by simp) (liveCount_cancelAll _)
      · cases h
    · cases h
  | mgrEnd =>
    simp only [step] at h
    split at h
    · split at h
      · cases h; exact concInv_quiet _ (by simp) (liveCount_cancelAll _)
      · cases h
    · cases h
  | dlReturn i ok =>
    simp only [step] at h
    split at h
    · rename_i d hd
      split at h
      · cases h
        refine ⟨?_, ?_, ?_⟩
        · intro hn; simp only [liveCount_set _ _ _ _ hd]; exact c1 hn
        · intro r n hp x hx hc
          obtain ⟨y, hy, e1, e2⟩ := mem_set_ret _ _ _ _ hd x hx
          rw [← e2]; exact c2 r n hp y hy (e1 ▸ hc)
        · intro r n hp; simp only [liveCount_set _ _ _ _ hd]; exact c3 r n hp
      · cases h
    · cases h
  | dlFinish i =>
    simp only [step] at h
    split at h
    · rename_i d hd
      have hsub : ∀ x ∈ s.dls.eraseIdx i, x ∈ s.dls := fun x hx => (List.eraseIdx_sublist _ _).subset hx
      have hle := liveCount_eraseIdx s.dls i
      split at h
      · cases h
      · split at h <;> cases h
        · refine ⟨?_, ?_, ?_⟩
          · intro hn; have := c1 hn; simp only; omega
          · intro r n hp x hx hc; exact c2 r n hp x (hsub x hx) hc
          · intro r n hp; have := c3 r n hp; simp only at this ⊢; omega
        · refine ⟨?_, ?_, ?_⟩
          · intro hn; have := c1 hn; simp only; omega
          · intro r n hp x hx hc; exact c2 r n hp x (hsub x hx) hc
          · intro r n hp; have := c3 r n hp; simp only at this ⊢; omega
    · cases h

theorem concInv_reach (s : MSt) (h : Reach s) : ConcInv s := by
  induction h with
  | init c => exact concInv_init c
  | step l _ hst ih => exact concInv_step _ _ l hst ih

/-! ### running a list of labels (for the non-vacuity examples) -/

def runL (s : MSt) : List MLabel → Option MSt
  | [] => some s
  | l :: ls => match step s l with
    | some s' => runL s' ls
    | none => none

theorem reach_runL (s : MSt) (ls : List MLabel) (s' : MSt) (hs : Reach s) (h : runL s ls = some s') : Reach s' := by
  induction ls generalizing s with
  | nil => simp only [runL, Option.some.injEq] at h; exact h ▸ hs
  | cons l ls ih =>
    simp only [runL] at h
    split at h
    · rename_i s1 h1; exact ih s1 (Reach.step l hs h1) h
    · cases h

end BRV.BlockMgr
