/- Helper lemmas for C20 (peer address book): codec round trip, prefix decoding, list invariants. -/
import BRV.Model.Peers

namespace BRV.Peers

/-- what the API can produce: int32 score, uint32 time, address shorter than 2^31 bytes. -/
def Peer.wf (p : Peer) : Prop := inI32 p.score ∧ p.time < 2 ^ 32 ∧ p.addr.length < 2 ^ 31

def wfList (l : List Peer) : Prop := ∀ p ∈ l, p.wf

theorem readPeers_eq (b : Bytes) :
    readPeers b = match readPeer b with
      | none => []
      | some (p, r) => p :: readPeers r := by
  rw [readPeers]
  split <;> simp_all

theorem toSigned_small (n : Nat) (h : n < 2 ^ 31) : toSigned 32 n = (n : Int) := by
  unfold toSigned; simp; omega

theorem toUnsigned_nat (n : Nat) (h : n < 2 ^ 32) : toUnsigned 32 (n : Int) = n := by
  unfold toUnsigned
  have : ((n : Int) % (2 ^ 32 : Int)) = n := Int.emod_eq_of_lt (by omega) (by omega)
  rw [this]; simp

theorem encodePeer_length (p : Peer) : (encodePeer p).length = 12 + p.addr.length := by
  simp [encodePeer, leN_length]; omega

theorem readPeer_encodePeer (p : Peer) (rest : Bytes) (h : p.wf) :
    readPeer (encodePeer p ++ rest) = some (p, rest) := by
  obtain ⟨hs, ht, ha⟩ := h
  have hlen : toUnsigned 32 (p.addr.length : Int) = p.addr.length := toUnsigned_nat _ (by omega)
  unfold readPeer encodePeer
  simp only [List.append_assoc]
  rw [readLeN_leN 4 _ _ (by rw [hlen]; omega)]
  simp only [hlen, toSigned_small _ ha]
  have hnn : ¬ ((p.addr.length : Int) < 0) := by omega
  simp only [hnn, ↓reduceIte, Int.toNat_natCast]
  have hle : ¬ ((p.addr ++ (leN 4 (toUnsigned 32 p.score) ++ (leN 4 p.time ++ rest))).length < p.addr.length) := by
    simp only [List.length_append]; omega
  simp only [hle, ↓reduceIte, List.take_left', List.drop_left']
  rw [readLeN_leN 4 _ _ (by have := toUnsigned32_lt p.score; omega)]
  simp only
  rw [readLeN_leN 4 _ _ (by omega)]
  simp only [toSigned_toUnsigned32 _ hs]

theorem readPeers_nil : readPeers [] = [] := by
  rw [readPeers_eq]; rfl

theorem readPeers_encodePeers (l : List Peer) (h : wfList l) : readPeers (encodePeers l) = l := by
  induction l with
  | nil => exact readPeers_nil
  | cons p ps ih =>
    rw [encodePeers, readPeers_eq, readPeer_encodePeer p _ (h p (by simp))]
    simp only
    rw [ih (fun q hq => h q (by simp [hq]))]

theorem decode_encode (l : List Peer) (h : wfList l) : decode (encode l) = (.ok, l) := by
  have hv : Facts.peersVersion = 0 := rfl
  unfold decode encode
  simp only [hv, List.cons_append, List.nil_append, ne_eq, not_true_eq_false, ↓reduceIte]
  rw [readLeN_leN 4 _ _ (by have := toUnsigned32_lt (l.length : Int); omega)]
  simp only [readPeers_encodePeers l h]

/-! ### decoding a file cut short -/

/-- a record cut anywhere before its end cannot be read. -/
theorem readPeer_cut (p : Peer) (m : Nat) (h : p.wf) (hm : m < (encodePeer p).length) (rest : Bytes) :
    readPeer ((encodePeer p ++ rest).take m) = none := by
  obtain ⟨hs, ht, ha⟩ := h
  rw [encodePeer_length] at hm
  have hlen : toUnsigned 32 (p.addr.length : Int) = p.addr.length := toUnsigned_nat _ (by omega)
  by_cases h4 : m < 4
  · unfold readPeer
    rw [readLeN_short 4 _ (by simp only [List.length_take]; omega)]
  · -- the size field is intact
    have e1 : (encodePeer p ++ rest).take m
        = leN 4 (toUnsigned 32 (p.addr.length : Int)) ++ ((p.addr ++ (leN 4 (toUnsigned 32 p.score) ++ (leN 4 p.time ++ rest))).take (m - 4)) := by
      unfold encodePeer
      simp only [List.append_assoc]
      rw [List.take_append]
      simp only [leN_length]
      rw [List.take_of_length_le (by simp [leN_length]; omega)]
    unfold readPeer
    rw [e1, readLeN_leN 4 _ _ (by rw [hlen]; omega)]
    simp only [hlen, toSigned_small _ ha]
    have hnn : ¬ ((p.addr.length : Int) < 0) := by omega
    simp only [hnn, ↓reduceIte, Int.toNat_natCast]
    by_cases ha2 : m - 4 < p.addr.length
    · have : ((p.addr ++ (leN 4 (toUnsigned 32 p.score) ++ (leN 4 p.time ++ rest))).take (m - 4)).length < p.addr.length := by
        simp only [List.length_take]; omega
      simp only [this, ↓reduceIte]
    · have hnot : ¬ ((p.addr ++ (leN 4 (toUnsigned 32 p.score) ++ (leN 4 p.time ++ rest))).take (m - 4)).length < p.addr.length := by
        simp only [List.length_take, List.length_append, leN_length]; omega
      simp only [hnot, ↓reduceIte]
      -- after the address
      have e2 : ((p.addr ++ (leN 4 (toUnsigned 32 p.score) ++ (leN 4 p.time ++ rest))).take (m - 4)).drop p.addr.length
          = (leN 4 (toUnsigned 32 p.score) ++ (leN 4 p.time ++ rest)).take (m - 4 - p.addr.length) := by
        rw [List.take_append, List.drop_append]
        simp only [List.length_take]
        rw [List.drop_of_length_le (by simp only [List.length_take]; omega)]
        simp only [List.nil_append]
        have : p.addr.length - min (m - 4) p.addr.length = 0 := by omega
        rw [this, List.drop_zero]
      rw [e2]
      by_cases h8 : m - 4 - p.addr.length < 4
      · rw [readLeN_short 4 _ (by simp only [List.length_take]; omega)]
      · have e3 : (leN 4 (toUnsigned 32 p.score) ++ (leN 4 p.time ++ rest)).take (m - 4 - p.addr.length)
            = leN 4 (toUnsigned 32 p.score) ++ (leN 4 p.time ++ rest).take (m - 4 - p.addr.length - 4) := by
          rw [List.take_append]
          simp only [leN_length]
          rw [List.take_of_length_le (by simp [leN_length]; omega)]
        rw [e3, readLeN_leN 4 _ _ (by have := toUnsigned32_lt p.score; omega)]
        simp only
        rw [readLeN_short 4 _ (by simp only [List.length_take]; omega)]

/-- how many leading records of `l` are fully contained in the first `m` bytes of their encoding. -/
def fullCount : List Peer → Nat → Nat
  | [], _ => 0
  | p :: ps, m => if (encodePeer p).length ≤ m then 1 + fullCount ps (m - (encodePeer p).length) else 0

theorem readPeers_take (l : List Peer) (m : Nat) (h : wfList l) :
    readPeers ((encodePeers l).take m) = l.take (fullCount l m) := by
  induction l generalizing m with
  | nil => simp [encodePeers, fullCount, readPeers_nil]
  | cons p ps ih =>
    have hp : p.wf := h p (by simp)
    have hps : wfList ps := fun q hq => h q (by simp [hq])
    unfold fullCount
    by_cases hfit : (encodePeer p).length ≤ m
    · simp only [hfit, ↓reduceIte]
      have e : (encodePeers (p :: ps)).take m = encodePeer p ++ (encodePeers ps).take (m - (encodePeer p).length) := by
        rw [encodePeers, List.take_append]
        rw [List.take_of_length_le hfit]
      rw [e, readPeers_eq, readPeer_encodePeer p _ hp]
      simp only
      rw [ih _ hps]
      have : 1 + fullCount ps (m - (encodePeer p).length) = fullCount ps (m - (encodePeer p).length) + 1 := by omega
      rw [this, List.take_succ_cons]
    · simp only [hfit, ↓reduceIte, List.take_zero]
      rw [encodePeers, readPeers_eq, readPeer_cut p m hp (by omega)]

/-! ### list lemmas -/

theorem updLast_map_addr (l l' : List Peer) (a : Bytes) (f : Peer → Peer)
    (hf : ∀ p, (f p).addr = p.addr) (h : updLast l a f = some l') :
    l'.map (·.addr) = l.map (·.addr) := by
  induction l generalizing l' with
  | nil => simp [updLast] at h
  | cons p ps ih =>
    simp only [updLast] at h
    split at h
    · rename_i ps' hps
      simp only [Option.some.injEq] at h
      rw [← h]; simp [ih ps' hps]
    · split at h
      · simp only [Option.some.injEq] at h
        rw [← h]; simp [hf]
      · cases h

theorem updLast_none_iff (l : List Peer) (a : Bytes) (f : Peer → Peer) :
    updLast l a f = none ↔ hasAddr l a = false := by
  induction l with
  | nil => simp [updLast, hasAddr]
  | cons p ps ih =>
    simp only [updLast, hasAddr, List.any_cons, Bool.or_eq_false_iff, beq_eq_false_iff_ne, ne_eq]
    unfold hasAddr at ih
    constructor
    · intro h
      split at h
      · cases h
      · rename_i hn
        split at h
        · cases h
        · rename_i hne
          exact ⟨hne, ih.mp hn⟩
    · intro ⟨hne, hn⟩
      rw [ih.mpr hn]
      simp [hne]

theorem hasAddr_false_iff (l : List Peer) (a : Bytes) :
    hasAddr l a = false ↔ a ∉ l.map (·.addr) := by
  unfold hasAddr
  rw [Bool.eq_false_iff]
  simp only [ne_eq, List.any_eq_true, beq_iff_eq, not_exists, not_and, List.mem_map]

theorem updLast_wf (l l' : List Peer) (a : Bytes) (f : Peer → Peer)
    (hf : ∀ p, p.wf → (f p).wf) (hl : wfList l) (h : updLast l a f = some l') : wfList l' := by
  induction l generalizing l' with
  | nil => simp [updLast] at h
  | cons p ps ih =>
    have hp : p.wf := hl p (by simp)
    have hps : wfList ps := fun q hq => hl q (by simp [hq])
    simp only [updLast] at h
    split at h
    · rename_i ps' hps'
      simp only [Option.some.injEq] at h
      rw [← h]
      intro q hq
      simp only [List.mem_cons] at hq
      rcases hq with rfl | hq
      · exact hp
      · exact ih ps' hps hps' q hq
    · split at h
      · simp only [Option.some.injEq] at h
        rw [← h]
        intro q hq
        simp only [List.mem_cons] at hq
        rcases hq with rfl | hq
        · exact hf p hp
        · exact hps q hq
      · cases h

end BRV.Peers

namespace BRV.Peers

theorem decode_take (l : List Peer) (k : Nat) (h : wfList l) (hk : 5 ≤ k) :
    decode ((encode l).take k) = (.ok, l.take (fullCount l (k - 5))) := by
  have hv : Facts.peersVersion = 0 := rfl
  unfold encode
  obtain ⟨k', rfl⟩ : ∃ k', k = k' + 1 := ⟨k - 1, by omega⟩
  simp only [hv, List.cons_append, List.nil_append, List.take_succ_cons]
  unfold decode
  simp only [ne_eq, not_true_eq_false, ↓reduceIte]
  rw [List.take_append, List.take_of_length_le (by simp [leN_length]; omega)]
  rw [readLeN_leN 4 _ _ (by have := toUnsigned32_lt (l.length : Int); omega)]
  simp only [leN_length]
  rw [readPeers_take l _ h]
  have : k' - 4 = k' + 1 - 5 := by omega
  rw [this]

theorem decode_take_short (l : List Peer) (k : Nat) (hk : k < 5) :
    decode ((encode l).take k) = (if k = 0 then .errVersionRead else .errCountRead, []) := by
  have hv : Facts.peersVersion = 0 := rfl
  unfold encode
  cases k with
  | zero => simp [decode]
  | succ k' =>
    simp only [hv, List.cons_append, List.nil_append, List.take_succ_cons]
    unfold decode
    simp only [ne_eq, not_true_eq_false, ↓reduceIte]
    rw [readLeN_short 4 _ (by simp only [List.length_take]; omega)]
    simp

end BRV.Peers
