/-
In every state reached by submissions from genesis the branch update cannot fail: `IntersectHash`
finds a common branch (all branches descend from the root), `Find` finds the intersect, and every
height above it is readable.
-/
import BRV.Proofs.RepoStream
import BRV.Proofs.Longest

namespace BRV.Repo

/-! ### `Find` with any sufficient fuel, and its completeness -/

theorem bfind_fuel (ar : Arena) (hp : ParentsDecrease ar) (bi : Nat) (f : Nat) (hf : bi + 1 ≤ f) (id : Nat) :
    bfind ar f bi id = bfind ar (bi + 1) bi id := by
  induction bi using Nat.strongRecOn generalizing f with
  | _ bi ih =>
    obtain ⟨f', rfl⟩ : ∃ f', f = f' + 1 := ⟨f - 1, by omega⟩
    simp only [bfind]
    cases hb : ar[bi]? with
    | none => rfl
    | some b =>
      simp only
      cases b.hmap.get? id with
      | some x => rfl
      | none =>
        simp only
        cases hpar : b.parent with
        | none => rfl
        | some p =>
          simp only
          have hlt := hp bi b hb p hpar
          rw [ih p hlt f' (by omega), ih p hlt bi (by omega)]

/-- whatever `AtHeight` of a branch returns, `Find` of that branch finds. -/
theorem bfind_complete (ar : Arena) (hw : LinkWF ar) (bs : List Nat) (hi : IdWF ar bs) (bi : Nat) (m : Int) (d : HData)
    (h : atH ar bi m = some d) : ∃ x, bfind ar (bi + 1) bi d.hdr.id = some x := by
  induction bi using Nat.strongRecOn with
  | _ bi ih =>
    cases hb : ar[bi]? with
    | none => unfold atH at h; simp [atHeight, hb] at h
    | some b =>
      have hl := hw.each bi b hb
      rw [atH_unfold ar hw.dec bi b hb] at h
      simp only [bfind, hb]
      cases hg : b.hmap.get? d.hdr.id with
      | some x => exact ⟨x, rfl⟩
      | none =>
        simp only
        by_cases h1 : m > b.parentHeight
        · simp only [h1, ↓reduceIte] at h
          unfold getI at h
          split at h
          · cases h
          · have := ((hi.exact bi b hb) d.hdr.id (b.parentHeight + 1 + ((m - b.parentHeight - b.offset).toNat : Int))).mpr
              ⟨_, d, h, rfl, rfl⟩
            rw [hg] at this; cases this
        · simp only [h1, ↓reduceIte] at h
          cases hpar : b.parent with
          | none => rw [hpar] at h; cases h
          | some p =>
            rw [hpar] at h
            simp only at h ⊢
            have hlt := hw.dec bi b hb p hpar
            obtain ⟨x, hx⟩ := ih p hlt h
            exact ⟨x, by rw [bfind_fuel ar hw.dec p bi (by omega)]; exact hx⟩

/-! ### the ancestry list reaches the root -/

theorem chainLinks_reaches_root (ar : Arena) (hw : LinkWF ar) (hsr : SingleRoot ar) :
    ∀ (start f : Nat) (h0 : Int) (hash0 : Nat) (c : Branch), ar[start]? = some c → start + 1 ≤ f →
      ∃ e ∈ chainLinks ar f start h0 hash0, e.1 = 0 := by
  intro start
  induction start using Nat.strongRecOn with
  | _ start ih =>
    intro f h0 hash0 c hc hf
    obtain ⟨f', rfl⟩ : ∃ f', f = f' + 1 := ⟨f - 1, by omega⟩
    unfold chainLinks
    rw [hc]
    cases hpar : c.parent with
    | none =>
      have := hsr start c hc hpar
      exact ⟨(start, h0, hash0), by simp, this⟩
    | some p =>
      simp only [hpar]
      have hlt := hw.dec start c hc p hpar
      obtain ⟨d, hd, _⟩ := (hw.each start c hc).parentLink p hpar
      have hplt : p < ar.length := atHeight_some_lt _ _ _ _ _ hd
      obtain ⟨e, he, h0'⟩ := ih p hlt f' c.parentHeight c.first.prev ar[p] (List.getElem?_eq_getElem hplt) (by omega)
      exact ⟨e, List.mem_cons_of_mem _ he, h0'⟩

/-- **`IntersectHash` always finds an intersect** in a rooted, linked forest. -/
theorem intersectHash_some (ar : Arena) (hw : LinkWF ar) (hsr : SingleRoot ar) (f b other : Nat) (bb ob : Branch)
    (hb : ar[b]? = some bb) (hob : ar[other]? = some ob) (hfb : b + 1 ≤ f) (hfo : other + 1 ≤ f) :
    ∃ ih, intersectHash ar f b other = some ih := by
  have keyb := fun h0 hash0 => chainLinks_reaches_root ar hw hsr b f h0 hash0 bb hb hfb
  have keyo := fun h0 hash0 => chainLinks_reaches_root ar hw hsr other f h0 hash0 ob hob hfo
  unfold intersectHash
  simp only [hb, hob]
  rw [← Option.isSome_iff_exists, List.findSome?_isSome_iff]
  refine Exists.elim (keyb _ _) (fun eb hx => ⟨eb, hx.1, ?_⟩)
  obtain ⟨cur, hh, hash⟩ := eb
  have heb : cur = 0 := hx.2
  subst heb
  simp only
  split
  · rfl
  · rename_i hnone
    have hall := List.find?_eq_none.mp hnone
    exact Exists.elim (keyo _ _) (fun eo ho => absurd (by simp [ho.2]) (hall eo ho.1))

/-! ### the collection of the announced headers cannot fail -/

theorem collect_total (r : Repo) (branch : Nat) (n : Nat) (from_ : Int) (acc : List Hdr)
    (h : ∀ j : Nat, j < n → ∃ d, r.at branch (from_ + (j : Int)) = some d) :
    ∃ evs, sendBranchUpdate.collect r branch n from_ acc = (evs, none) := by
  induction n generalizing from_ acc with
  | zero => exact ⟨acc.reverse, rfl⟩
  | succ k ih =>
    obtain ⟨d, hd⟩ := h 0 (by omega)
    simp only [Int.natCast_zero, Int.add_zero] at hd
    simp only [sendBranchUpdate.collect, hd]
    apply ih
    intro j hj
    obtain ⟨dj, hdj⟩ := h (j + 1) (by omega)
    have : from_ + ((j + 1 : Nat) : Int) = from_ + 1 + (j : Int) := by omega
    rw [this] at hdj
    exact ⟨dj, hdj⟩

/-- **the branch update cannot fail** in a repository reached by submissions from genesis. -/
theorem sendBranchUpdate_ok (r : Repo) (hs : StreamWF r) (lg old : Nat)
    (hlg : lg < r.arena.length) (hold : old < r.arena.length) :
    (sendBranchUpdate r lg old).2 = none := by
  have hw := hs.chain.wf.link
  have hsr := hs.single
  have hbb : r.arena[lg]? = some r.arena[lg] := List.getElem?_eq_getElem hlg
  have hob : r.arena[old]? = some r.arena[old] := List.getElem?_eq_getElem hold
  obtain ⟨ih, hih⟩ := intersectHash_some r.arena hw hsr r.fuel lg old _ _ hbb hob
    (by unfold Repo.fuel; omega) (by unfold Repo.fuel; omega)
  obtain ⟨cur, m, d, hd, hid, hb1, _⟩ := intersect_common r.arena hw hs.chain.owns r.fuel lg old ih _ _ hbb hob hih
  have hlgm : atH r.arena lg m = some d := by rw [← hb1 m (Int.le_refl _)]; exact hd
  obtain ⟨x, hx⟩ := bfind_complete r.arena hw r.branches hs.chain.wf.ids lg m d hlgm
  have hfind : r.find lg ih = some x := by
    unfold Repo.find Repo.fuel
    rw [bfind_fuel r.arena hw.dec lg _ (by omega), ← hid]; exact hx
  unfold sendBranchUpdate
  rw [hih]
  simp only [hfind]
  -- the height `Find` reports is the height of the common header
  obtain ⟨bj, _, hheld⟩ := atH_heldAt r.arena hw lg m d hlgm
  obtain ⟨own, bo, _, hbo, hg⟩ := bfind_owner r.arena hw.dec _ lg ih x hfind
  obtain ⟨k0, d0, hk0, hid0, hh0⟩ := ((hs.chain.wf.ids.exact own bo hbo) ih x).mp hg
  rw [hid] at hheld
  have hxm : x = m := (heldAt_unique r.arena r.branches hs.chain.wf.ids own bj ih x m ⟨bo, k0, d0, hbo, hk0, hid0, hh0⟩ hheld).2
  subst hxm
  have hm0 : 0 ≤ x := by
    have := parentHeight_ge r.arena hw hs.chain.root hs.chain.owns own bo hbo
    omega
  have hbrlg : r.br lg = r.arena[lg] := by unfold Repo.br; rw [hbb]; rfl
  obtain ⟨evs, hevs⟩ := collect_total r lg ((r.br lg).height - x).toNat (x + 1) [] (by
    intro j hj
    obtain ⟨dj, hdj⟩ := atH_complete r.arena hw hs.chain.root lg _ hbb (x + 1 + (j : Int)) (by omega)
      (by rw [hbrlg] at hj; omega)
    exact ⟨dj, by rw [Repo.at_eq_atH r hw.dec lg hlg]; exact hdj⟩)
  rw [hevs]

/-! ### `Longest()` and the reselection cannot fail -/

theorem longestGo_some (ar : Arena) (bs : List Nat) (acc : Option (Nat × Nat))
    (hall : ∀ bi ∈ bs, ∃ l, ar[bi]?.bind Branch.last? = some l) (hne : bs ≠ [] ∨ acc.isSome) :
    (longestOf.go ar bs acc).isSome := by
  induction bs generalizing acc with
  | nil =>
    simp only [longestOf.go]
    rcases hne with h | h
    · exact absurd rfl h
    · exact h
  | cons bi rest ih =>
    obtain ⟨l, hl⟩ := hall bi (List.mem_cons_self ..)
    have hrest : ∀ x ∈ rest, ∃ l, ar[x]?.bind Branch.last? = some l := fun x hx => hall x (List.mem_cons_of_mem _ hx)
    simp only [longestOf.go, hl]
    cases acc with
    | none => exact ih _ hrest (Or.inr rfl)
    | some a =>
      obtain ⟨rb, rw⟩ := a
      simp only
      split
      · exact ih _ hrest (Or.inr rfl)
      · exact ih _ hrest (Or.inr rfl)

theorem longestOf_some (r : Repo) (hs : StreamWF r) (hlv : r.longest < r.arena.length) :
    ∃ lg, longestOf r.arena r.branches = some lg := by
  have hw := hs.chain.wf.link
  have hall : ∀ bi ∈ r.branches, ∃ l, r.arena[bi]?.bind Branch.last? = some l := by
    intro bi hm
    have hlt := hs.chain.wf.list.valid bi hm
    rw [List.getElem?_eq_getElem hlt]
    simp only [Option.bind_some]
    have hl := hw.each bi _ (List.getElem?_eq_getElem hlt)
    unfold Branch.last?
    cases hg : (r.arena[bi]).headers.getLast? with
    | none => rw [List.getLast?_eq_none_iff] at hg; exact absurd hg hl.nonempty
    | some l => exact ⟨l, rfl⟩
  have hne : r.branches ≠ [] := by
    intro h0
    have := hs.chain.wf.ids.listed r.longest hlv
    rw [h0] at this; cases this
  have := longestGo_some r.arena r.branches none hall (Or.inl hne)
  unfold longestOf
  obtain ⟨x, hx⟩ := Option.isSome_iff_exists.mp this
  exact ⟨x.1, by rw [hx]; rfl⟩

/-- **reselecting the most-work branch cannot fail** in a repository reached by submissions. -/
theorem reselect_never_fails (r : Repo) (hs : StreamWF r) (hlv : r.longest < r.arena.length)
    (x : Repo × StepOut) : reselect r ≠ .error x := by
  obtain ⟨lg, hlg⟩ := longestOf_some r hs hlv
  have hmem := (longestOf_spec _ _ _ hlg).1
  have hlt := hs.chain.wf.list.valid lg hmem
  unfold reselect
  rw [hlg]
  simp only
  by_cases hne : lg ≠ r.longest
  · simp only [hne, ne_eq, not_false_eq_true, ↓reduceIte]
    have hok := sendBranchUpdate_ok r hs lg r.longest hlt hlv
    cases hsb : sendBranchUpdate r lg r.longest with
    | mk evs err =>
      rw [hsb] at hok
      simp only at hok
      subst hok
      simp
  · simp only [hne, ↓reduceIte]
    simp

end BRV.Repo
