/-
C06 helper lemmas, part 2: the interleaving semantics. `InvC` is an inductive invariant of `step`
for every action (so it holds in every reachable configuration, for any number of goroutines).
-/
import BRV.Proofs.TxMgrLemmas

namespace BRV.TxMgr

/-- the goroutine is inside `sendTx` for `tx`. -/
def isSend (tx : TxId) : Thread → Bool
  | .dlvSend t _ => t == tx
  | _ => false

def pending (ts : List Thread) (tx : TxId) : Nat := ts.countP (isSend tx)

structure InvC (env : Env) (c : Config) : Prop where
  s : InvS env c.st
  f : InvF c.st (pending c.threads)

theorem countP_set_add {α : Type} (p : α → Bool) (l : List α) (i : Nat) (t t' : α) (h : l[i]? = some t) :
    (l.set i t').countP p + (if p t then 1 else 0) = l.countP p + (if p t' then 1 else 0) := by
  induction l generalizing i with
  | nil => simp at h
  | cons a as ih =>
    cases i with
    | zero =>
      simp only [List.getElem?_cons_zero, Option.some.injEq] at h
      subst h
      simp only [List.set_cons_zero, List.countP_cons]
      omega
    | succ j =>
      simp only [List.getElem?_cons_succ] at h
      have := ih j h
      simp only [List.set_cons_succ, List.countP_cons]
      omega

theorem pending_set (ts : List Thread) (i : Nat) (t t' : Thread) (h : ts[i]? = some t) (k : TxId) :
    pending (ts.set i t') k + (if isSend k t then 1 else 0) = pending ts k + (if isSend k t' then 1 else 0) :=
  countP_set_add (isSend k) ts i t t' h

theorem pending_set_same (ts : List Thread) (i : Nat) (t t' : Thread) (h : ts[i]? = some t)
    (h1 : ∀ k, isSend k t = false) (h2 : ∀ k, isSend k t' = false) (k : TxId) :
    pending (ts.set i t') k = pending ts k := by
  have := pending_set ts i t t' h k
  simp [h1, h2] at this
  exact this

theorem mem_of_getElem? {α : Type} (l : List α) (i : Nat) (t : α) (h : l[i]? = some t) : t ∈ l := by
  rw [List.getElem?_eq_some_iff] at h
  obtain ⟨hi, rfl⟩ := h
  exact List.getElem_mem hi

theorem InvC.stepThread {env : Env} {c c' : Config} {i choice : Nat} (hi : InvC env c)
    (h : stepThread env c i choice = some c') : InvC env c' := by
  unfold BRV.TxMgr.stepThread at h
  split at h
  · cases h
  · rename_i t ht
    split at h
    · -- annBucket
      rename_i node tx
      split at h
      · cases h
      · simp only [Option.some.injEq] at h; subst h
        have htr := annBucketSec_trans env c.st node tx
        refine ⟨htr.inv hi.s, ?_⟩
        refine hi.f.of_eq htr.fwd_eq (annBucketSec_recvd _ _ _) ?_
        intro k
        exact pending_set_same _ _ _ _ ht (fun _ => rfl) (by intro k; split <;> rfl) k
    · -- annEntry
      rename_i node tx
      simp only [Option.some.injEq] at h; subst h
      have htr := annEntrySec_trans env c.st node tx
      refine ⟨htr.inv hi.s, ?_⟩
      refine hi.f.of_eq htr.fwd_eq (annEntrySec_recvd _ _ _ _) ?_
      intro k
      exact pending_set_same _ _ _ _ ht (fun _ => rfl) (fun _ => rfl) k
    · cases h
    · -- dlvBucket
      rename_i node tx now intr
      split at h
      · cases h
      · simp only [Option.some.injEq] at h; subst h
        have htr := dlvBucketSec_trans env c.st tx now
        refine ⟨htr.inv hi.s, ?_⟩
        cases hcr : (dlvBucketSec c.st tx now).2
        · have heq := dlvBucketSec_false _ _ _ hcr
          simp only [Bool.false_eq_true, if_false]
          rw [heq]
          intro k
          rw [pending_set_same _ _ _ _ ht (fun _ => rfl) (fun _ => rfl) k]
          exact hi.f k
        · have hsp := dlvBucketSec_true _ _ _ hcr
          simp only [if_true]
          refine hi.f.recv htr.fwd_eq hsp.1 hsp.2 (fun k hk => htr.recvd_other k hk) ?_ ?_
          · have := pending_set c.threads i _ (.dlvSend tx intr) ht tx
            simp [isSend] at this
            exact this
          · intro k hk
            have := pending_set c.threads i _ (.dlvSend tx intr) ht k
            have hne : (tx == k) = false := by simp; exact fun h => hk h.symm
            simp [isSend, hne] at this
            exact this
    · -- dlvEntry
      rename_i node tx now intr
      simp only [Option.some.injEq] at h; subst h
      have htr := dlvEntrySec_trans env c.st tx now
      refine ⟨htr.inv hi.s, ?_⟩
      cases hcr : (dlvEntrySec c.st tx now).2
      · have heq := dlvEntrySec_false _ _ _ hcr
        simp only [Bool.false_eq_true, if_false]
        rw [heq]
        intro k
        rw [pending_set_same _ _ _ _ ht (fun _ => rfl) (fun _ => rfl) k]
        exact hi.f k
      · have hsp := dlvEntrySec_true _ _ _ hcr
        simp only [if_true]
        refine hi.f.recv htr.fwd_eq hsp.1 hsp.2 (fun k hk => htr.recvd_other k hk) ?_ ?_
        · have := pending_set c.threads i _ (.dlvSend tx intr) ht tx
          simp [isSend] at this
          exact this
        · intro k hk
          have := pending_set c.threads i _ (.dlvSend tx intr) ht k
          have hne : (tx == k) = false := by simp; exact fun h => hk h.symm
          simp [isSend, hne] at this
          exact this
    · -- dlvSend
      rename_i tx intr
      split at h
      · split at h
        · rename_i st' hs
          simp only [Option.some.injEq] at h; subst h
          have hent := sendSec_ent hs
          refine ⟨hi.s.send hs, ?_⟩
          refine hi.f.leave (sendSec_fwd hs) (recvdB_congr hent) ?_
          intro k
          have := pending_set c.threads i _ (.dlvDone tx true true) ht k
          by_cases hk : k = tx
          · subst hk; simp [isSend] at this ⊢; omega
          · have hne : (tx == k) = false := by simp; exact fun h => hk h.symm
            simp [isSend, hne, hk] at this ⊢; exact this
        · cases h
      · split at h
        · simp only [Option.some.injEq] at h; subst h
          refine ⟨hi.s.drop tx, ?_⟩
          refine hi.f.leave (dropSec_fwd c.st tx) (fun _ => rfl) ?_
          intro k
          have := pending_set c.threads i _ (.dlvDone tx true false) ht k
          by_cases hk : k = tx
          · subst hk; simp [isSend] at this ⊢; omega
          · have hne : (tx == k) = false := by simp; exact fun h => hk h.symm
            simp [isSend, hne, hk] at this ⊢; exact this
        · cases h
    · cases h
    · -- pollNext
      rename_i node max order acc
      split at h <;>
      · simp only [Option.some.injEq] at h; subst h
        refine ⟨hi.s, ?_⟩
        intro k
        rw [pending_set_same _ _ _ _ ht (fun _ => rfl) (fun _ => rfl) k]
        exact hi.f k
    · -- pollIn
      rename_i node max b order todo acc
      split at h
      · simp only [Option.some.injEq] at h; subst h
        refine ⟨hi.s, ?_⟩
        intro k
        rw [pending_set_same _ _ _ _ ht (fun _ => rfl) (by intro k; split <;> rfl) k]
        exact hi.f k
      · split at h
        · cases h
        · rename_i k hk
          simp only [Option.some.injEq] at h; subst h
          have htr := pollEntrySec_trans env c.st node k
          refine ⟨htr.inv hi.s, ?_⟩
          refine hi.f.of_eq htr.fwd_eq (pollEntrySec_recvd _ _ _ _) ?_
          intro k'
          exact pending_set_same _ _ _ _ ht (fun _ => rfl) (fun _ => rfl) k'
    · cases h

theorem InvC.step {env : Env} {c c' : Config} {a : Action} (hi : InvC env c)
    (h : step env c a = some c') : InvC env c' := by
  cases a with
  | tick d =>
    simp only [BRV.TxMgr.step, Option.some.injEq] at h; subst h
    exact ⟨hi.s.setClock _ (by omega), hi.f⟩
  | callAnn node tx =>
    simp only [BRV.TxMgr.step, Option.some.injEq] at h; subst h
    refine ⟨hi.s, ?_⟩
    intro k
    simp only [pending, List.countP_append, List.countP_cons, List.countP_nil, isSend]
    exact hi.f k
  | callDlv node tx intr =>
    simp only [BRV.TxMgr.step, Option.some.injEq] at h; subst h
    refine ⟨hi.s, ?_⟩
    intro k
    simp only [pending, List.countP_append, List.countP_cons, List.countP_nil, isSend]
    exact hi.f k
  | callPoll node max order =>
    simp only [BRV.TxMgr.step, Option.some.injEq] at h; subst h
    refine ⟨hi.s, ?_⟩
    intro k
    simp only [pending, List.countP_append, List.countP_cons, List.countP_nil, isSend]
    exact hi.f k
  | thread i choice => exact hi.stepThread h
  | run =>
    simp only [BRV.TxMgr.step] at h
    split at h
    · cases h
    · rename_i st' hr
      simp only [Option.some.injEq] at h; subst h
      obtain ⟨hent, _, _, _⟩ := runSec_ent hr
      exact ⟨hi.s.run hr, hi.f.of_eq (runSec_fwd hr) (recvdB_congr hent) (fun _ => rfl)⟩

theorem invC_init (env : Env) : InvC env {} :=
  ⟨invS_init env, (by intro k; rfl)⟩

theorem InvC.reach {env : Env} {c : Config} (h : Reach env c) : InvC env c := by
  induction h with
  | init => exact invC_init env
  | step c c' a _ hs ih => exact ih.step hs

end BRV.TxMgr
