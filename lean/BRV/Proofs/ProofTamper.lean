/- Tamper lemmas for `MerkleProof.CalculateRoot` over the free hash algebra (used by C18). -/
import BRV.Model.ProofVerify

namespace BRV.Merkle

def isLeftOf : Option Nat → Bool
  | some i => i % 2 == 0
  | none => false

def nextOf : Option Nat → Option Nat
  | some i => some (i / 2)
  | none => some 0

/-- one level of `CalculateRoot`: `none` = ErrBadIndex, `some (inl h)` = finished with `h`,
    `some (inr (h, path, dups))` = continue with the parent hash. -/
def calcStep (index : Option Nat) (layer : Nat) (hash : H) (path : List H) (dups : List Nat) :
    Option (H ⊕ (H × List H × List Nat)) :=
  match dups, path with
  | d :: drest, path =>
    if layer = d then
      if isLeftOf index = false then none else some (.inr (H.node hash hash, path, drest))
    else
      match path with
      | [] => some (.inl hash)
      | o :: prest =>
        if isLeftOf index = false ∧ o = hash then none
        else some (.inr (if isLeftOf index then H.node hash o else H.node o hash, prest, d :: drest))
  | [], [] => some (.inl hash)
  | [], o :: prest =>
    if isLeftOf index = false ∧ o = hash then none
    else some (.inr (if isLeftOf index then H.node hash o else H.node o hash, prest, []))

theorem calcGo_succ (fuel : Nat) (index : Option Nat) (layer : Nat) (hash : H) (path : List H) (dups : List Nat) :
    calcGo (fuel + 1) index layer hash path dups =
      match calcStep index layer hash path dups with
      | none => none
      | some (.inl h) => some h
      | some (.inr (h, p, d)) => calcGo fuel (nextOf index) (layer + 1) h p d := by
  cases index <;> cases dups <;> cases path <;> simp only [calcGo, calcStep, isLeftOf, nextOf] <;>
    (repeat' split) <;> simp_all

/-- one level is injective in the hash (for a fixed index, sibling and duplicate marker). -/
theorem calcStep_hash (index : Option Nat) (layer : Nat) (h h' : H) (path : List H) (dups : List Nat) (hne : h ≠ h') :
    match calcStep index layer h path dups, calcStep index layer h' path dups with
    | some (.inl a), some (.inl b) => a ≠ b
    | some (.inr (a, p, d)), some (.inr (b, p', d')) => a ≠ b ∧ p = p' ∧ d = d'
    | some (.inl _), some (.inr _) => False
    | some (.inr _), some (.inl _) => False
    | _, _ => True := by
  unfold calcStep
  cases dups with
  | cons d drest =>
    simp only
    by_cases hl : layer = d
    · simp only [hl, ↓reduceIte]
      by_cases hleft : isLeftOf index = false
      · simp [hleft]
      · simp only [hleft, ↓reduceIte]
        exact ⟨by intro hc; injection hc with a _; exact hne a, rfl, rfl⟩
    · simp only [hl, ↓reduceIte]
      cases path with
      | nil => simpa using hne
      | cons o prest =>
        simp only
        by_cases c1 : isLeftOf index = false ∧ o = h
        · simp [c1]
        · by_cases c2 : isLeftOf index = false ∧ o = h'
          · simp [c1, c2]
          · simp only [c1, ↓reduceIte, c2, and_self, and_true, ne_eq]
            split
            · intro hc; injection hc with a _; exact hne a
            · intro hc; injection hc with _ a; exact hne a
  | nil =>
    cases path with
    | nil => simpa using hne
    | cons o prest =>
      simp only
      by_cases c1 : isLeftOf index = false ∧ o = h
      · simp [c1]
      · by_cases c2 : isLeftOf index = false ∧ o = h'
        · simp [c1, c2]
        · simp only [c1, ↓reduceIte, c2, and_self, and_true, ne_eq]
          split
          · intro hc; injection hc with a _; exact hne a
          · intro hc; injection hc with _ a; exact hne a

/-- **different transaction ids give different roots** (when both are computed). -/
theorem calcGo_hash_inj (fuel : Nat) (index : Option Nat) (layer : Nat) (h h' : H) (path : List H) (dups : List Nat)
    (r r' : H) (hne : h ≠ h')
    (h1 : calcGo fuel index layer h path dups = some r) (h2 : calcGo fuel index layer h' path dups = some r') :
    r ≠ r' := by
  induction fuel generalizing index layer h h' path dups with
  | zero =>
    simp only [calcGo, Option.some.injEq] at h1 h2
    subst h1; subst h2; exact hne
  | succ fuel ih =>
    rw [calcGo_succ] at h1 h2
    have hs := calcStep_hash index layer h h' path dups hne
    cases c1 : calcStep index layer h path dups with
    | none => rw [c1] at h1; cases h1
    | some x =>
      cases c2 : calcStep index layer h' path dups with
      | none => rw [c2] at h2; cases h2
      | some y =>
        rw [c1] at h1 hs; rw [c2] at h2 hs
        cases x with
        | inl a =>
          cases y with
          | inl b =>
            simp only [Option.some.injEq] at h1 h2 hs
            subst h1; subst h2; exact hs
          | inr _ => exact absurd hs (by simp)
        | inr xa =>
          obtain ⟨a, p, d⟩ := xa
          cases y with
          | inl _ => exact absurd hs (by simp)
          | inr yb =>
            obtain ⟨b, p', d'⟩ := yb
            simp only at h1 h2 hs
            obtain ⟨hab, rfl, rfl⟩ := hs
            exact ih _ _ _ _ _ _ hab h1 h2

/-- number of tree levels `CalculateRoot` climbs for a path / duplicate-marker list. -/
def nLevels : Nat → Nat → List H → List Nat → Nat
  | 0, _, _, _ => 0
  | fuel + 1, layer, path, dups =>
    match dups, path with
    | d :: drest, path =>
      if layer = d then 1 + nLevels fuel (layer + 1) path drest
      else
        match path with
        | [] => 0
        | _ :: prest => 1 + nLevels fuel (layer + 1) prest (d :: drest)
    | [], [] => 0
    | [], _ :: prest => 1 + nLevels fuel (layer + 1) prest []

/-- **the root determines the transaction id and the index** (modulo 2^levels): if two runs of
    `CalculateRoot` over the same path and duplicate markers give the same root, they started from
    the same hash and their indices agree on every bit the climb looked at. -/
theorem calcGo_root_determines (fuel : Nat) (i j : Nat) (layer : Nat) (h h' : H) (path : List H) (dups : List Nat) (r : H)
    (h1 : calcGo fuel (some i) layer h path dups = some r) (h2 : calcGo fuel (some j) layer h' path dups = some r) :
    h = h' ∧ i % 2 ^ nLevels fuel layer path dups = j % 2 ^ nLevels fuel layer path dups := by
  induction fuel generalizing i j layer h h' path dups with
  | zero =>
    simp only [calcGo, Option.some.injEq] at h1 h2
    subst h1
    exact ⟨h2.symm, by simp [nLevels, Nat.mod_one]⟩
  | succ fuel ih =>
    rw [calcGo_succ] at h1 h2
    unfold calcStep at h1 h2
    unfold nLevels
    cases dups with
    | cons d drest =>
      simp only at h1 h2 ⊢
      by_cases hl : layer = d
      · simp only [hl, ↓reduceIte] at h1 h2 ⊢
        by_cases li : isLeftOf (some i) = false
        · simp [li] at h1
        · by_cases lj : isLeftOf (some j) = false
          · simp [lj] at h2
          · simp only [li, lj, ↓reduceIte, nextOf] at h1 h2
            obtain ⟨hh, hm⟩ := ih _ _ _ _ _ _ _ h1 h2
            injection hh with hh _
            refine ⟨hh, ?_⟩
            simp only [isLeftOf, beq_eq_false_iff_ne, ne_eq, Classical.not_not] at li lj
            rw [Nat.pow_add, Nat.pow_one, Nat.mod_mul, Nat.mod_mul, li, lj, hm]
      · simp only [hl, ↓reduceIte] at h1 h2 ⊢
        cases path with
        | nil =>
          simp only [Option.some.injEq] at h1 h2
          subst h1
          exact ⟨h2.symm, by simp [Nat.mod_one]⟩
        | cons o prest =>
          simp only at h1 h2 ⊢
          by_cases c1 : isLeftOf (some i) = false ∧ o = h
          · simp [c1] at h1
          · by_cases c2 : isLeftOf (some j) = false ∧ o = h'
            · simp [c2] at h2
            · simp only [c1, c2, ↓reduceIte, nextOf] at h1 h2
              obtain ⟨hh, hm⟩ := ih _ _ _ _ _ _ _ h1 h2
              have key := step_eq i j h h' o c1 c2 hh
              refine ⟨key.1, ?_⟩
              rw [Nat.pow_add, Nat.pow_one, Nat.mod_mul, Nat.mod_mul, key.2, hm]
    | nil =>
      cases path with
      | nil =>
        simp only [Option.some.injEq] at h1 h2
        subst h1
        exact ⟨h2.symm, by simp [Nat.mod_one]⟩
      | cons o prest =>
        simp only at h1 h2 ⊢
        by_cases c1 : isLeftOf (some i) = false ∧ o = h
        · simp [c1] at h1
        · by_cases c2 : isLeftOf (some j) = false ∧ o = h'
          · simp [c2] at h2
          · simp only [c1, c2, ↓reduceIte, nextOf] at h1 h2
            obtain ⟨hh, hm⟩ := ih _ _ _ _ _ _ _ h1 h2
            have key := step_eq i j h h' o c1 c2 hh
            refine ⟨key.1, ?_⟩
            rw [Nat.pow_add, Nat.pow_one, Nat.mod_mul, Nat.mod_mul, key.2, hm]
where
  /-- equal parents at one level force equal children and equal orientation. -/
  step_eq (i j : Nat) (h h' o : H)
      (c1 : ¬ (isLeftOf (some i) = false ∧ o = h)) (c2 : ¬ (isLeftOf (some j) = false ∧ o = h'))
      (hh : (if isLeftOf (some i) then H.node h o else H.node o h) = (if isLeftOf (some j) then H.node h' o else H.node o h')) :
      h = h' ∧ i % 2 = j % 2 := by
    simp only [isLeftOf] at c1 c2 hh
    by_cases bi : i % 2 = 0 <;> by_cases bj : j % 2 = 0
    · simp only [bi, bj, beq_self_eq_true, ↓reduceIte] at hh
      injection hh with a _
      exact ⟨a, by omega⟩
    · have bj' : (j % 2 == 0) = false := by simpa using bj
      simp only [bi, bj', beq_self_eq_true, ↓reduceIte, Bool.false_eq_true] at hh
      injection hh with a b
      exact absurd ⟨bj', b⟩ c2
    · have bi' : (i % 2 == 0) = false := by simpa using bi
      simp only [bi', bj, beq_self_eq_true, ↓reduceIte, Bool.false_eq_true] at hh
      injection hh with a b
      exact absurd ⟨bi', b.symm⟩ c1
    · have bi' : (i % 2 == 0) = false := by simpa using bi
      have bj' : (j % 2 == 0) = false := by simpa using bj
      simp only [bi', bj', ↓reduceIte, Bool.false_eq_true] at hh
      injection hh with _ b
      exact ⟨b, by omega⟩

/-- **the root determines the whole path**: two climbs with the same index and duplicate markers,
    paths of the same length and the same result started from the same hash along the same path. -/
theorem calcGo_root_determines_path (fuel : Nat) (i : Nat) (layer : Nat) (h h' : H) (path path' : List H)
    (dups : List Nat) (r : H) (hlen : path.length = path'.length) (hf : path.length + dups.length < fuel)
    (h1 : calcGo fuel (some i) layer h path dups = some r) (h2 : calcGo fuel (some i) layer h' path' dups = some r) :
    h = h' ∧ path = path' := by
  induction fuel generalizing i layer h h' path path' dups with
  | zero => omega
  | succ fuel ih =>
    rw [calcGo_succ] at h1 h2
    unfold calcStep at h1 h2
    cases dups with
    | cons d drest =>
      simp only at h1 h2
      by_cases hl : layer = d
      · simp only [hl, ↓reduceIte] at h1 h2
        by_cases li : isLeftOf (some i) = false
        · simp [li] at h1
        · simp only [li, ↓reduceIte, nextOf] at h1 h2
          obtain ⟨hh, hp⟩ := ih _ _ _ _ _ _ _ hlen (by simp only [List.length_cons] at hf; omega) h1 h2
          injection hh with hh _
          exact ⟨hh, hp⟩
      · simp only [hl, ↓reduceIte] at h1 h2
        cases path with
        | nil =>
          cases path' with
          | nil =>
            simp only [Option.some.injEq] at h1 h2
            subst h1; exact ⟨h2.symm, rfl⟩
          | cons _ _ => simp at hlen
        | cons o prest =>
          cases path' with
          | nil => simp at hlen
          | cons o' prest' =>
            simp only at h1 h2
            by_cases c1 : isLeftOf (some i) = false ∧ o = h
            · simp [c1] at h1
            · by_cases c2 : isLeftOf (some i) = false ∧ o' = h'
              · simp [c2] at h2
              · simp only [c1, c2, ↓reduceIte, nextOf] at h1 h2
                obtain ⟨hh, hp⟩ := ih _ _ _ _ _ _ _ (by simpa using hlen)
                  (by simp only [List.length_cons] at hf ⊢; omega) h1 h2
                subst hp
                by_cases bl : isLeftOf (some i) = true
                · simp only [bl, ↓reduceIte] at hh
                  injection hh with a b
                  exact ⟨a, by rw [b]⟩
                · simp only [bl, Bool.false_eq_true, ↓reduceIte] at hh
                  injection hh with a b
                  exact ⟨b, by rw [a]⟩
    | nil =>
      cases path with
      | nil =>
        cases path' with
        | nil =>
          simp only [Option.some.injEq] at h1 h2
          subst h1; exact ⟨h2.symm, rfl⟩
        | cons _ _ => simp at hlen
      | cons o prest =>
        cases path' with
        | nil => simp at hlen
        | cons o' prest' =>
          simp only at h1 h2
          by_cases c1 : isLeftOf (some i) = false ∧ o = h
          · simp [c1] at h1
          · by_cases c2 : isLeftOf (some i) = false ∧ o' = h'
            · simp [c2] at h2
            · simp only [c1, c2, ↓reduceIte, nextOf] at h1 h2
              obtain ⟨hh, hp⟩ := ih _ _ _ _ _ _ _ (by simpa using hlen)
                (by simp only [List.length_cons, List.length_nil] at hf ⊢; omega) h1 h2
              subst hp
              by_cases bl : isLeftOf (some i) = true
              · simp only [bl, ↓reduceIte] at hh
                injection hh with a b
                exact ⟨a, by rw [b]⟩
              · simp only [bl, Bool.false_eq_true, ↓reduceIte] at hh
                injection hh with a b
                exact ⟨b, by rw [a]⟩

end BRV.Merkle
