/-
Lemmas about the model of `handleBlock` (Model/BlockHandle.lean): what the receive loop leaves
behind (`txLoop_spec`), that the merkle tree never panics and always holds the canonical layers,
and that proofs keep their txid and get the position of their transaction as index.
-/
import BRV.Model.BlockHandle
import BRV.Proofs.MerkleRoot

namespace BRV.Merkle

/-- calls that report a block as verified: coinbase processing, a confirmation, recording txids. -/
def Call.isIssue : Call → Bool
  | .processTx _ => false
  | _ => true

/-- what identifies a proof to its receiver. -/
def Proof.key (p : Proof) : H × Option Nat := (p.txid, p.index)

theorem stepProof_key (l r n : H) (d : Bool) (mp : Proof) : (stepProof l r n d mp).key = mp.key := by
  unfold stepProof Proof.key Proof.addHash Proof.addDuplicate
  split
  · rfl
  · split
    · split <;> rfl
    · split
      · rfl
      · split <;> rfl

theorem processProofsLayer_keys (l r : H) (d : Bool) (ps : List Proof) :
    (processProofsLayer l r d ps).2.map Proof.key = ps.map Proof.key := by
  simp only [processProofsLayer, List.map_map]
  apply List.map_congr_left
  intro mp _
  exact stepProof_key l r _ d mp

theorem addLoop_keys (prune : Bool) (ls : List Layer) (v : H) (ps : List Proof) (ls' : List Layer)
    (ps' : List Proof) (h : addLoop prune ls v ps = some (ls', ps')) :
    ps'.map Proof.key = ps.map Proof.key := by
  induction ls generalizing v ps ls' ps' with
  | nil =>
    simp only [addLoop, Option.some.injEq, Prod.mk.injEq] at h
    rw [← h.2]
  | cons L rest ih =>
    simp only [addLoop] at h
    split at h
    · simp only [Option.some.injEq, Prod.mk.injEq] at h
      rw [← h.2]
    · split at h
      · cases h
      · rename_i nl hnl
        split at h
        · cases h
        · rename_i rest' ps2 hrec
          simp only [Option.some.injEq, Prod.mk.injEq] at h
          rw [← h.2, ih _ _ _ _ hrec]
          exact processProofsLayer_keys _ _ _ _

theorem finLoop_keys (ls : List Layer) (carry : Option H) (ps : List Proof) (r : Option H)
    (ps' : List Proof) (h : finLoop ls carry ps = some (r, ps')) :
    ps'.map Proof.key = ps.map Proof.key ∨ (r = none ∧ ps' = []) := by
  induction ls generalizing carry ps with
  | nil =>
    cases carry with
    | none =>
      simp only [finLoop, Option.some.injEq, Prod.mk.injEq] at h
      exact Or.inr ⟨h.1.symm, h.2.symm⟩
    | some v =>
      simp only [finLoop, Option.some.injEq, Prod.mk.injEq] at h
      rw [← h.2]; exact Or.inl rfl
  | cons L rest ih =>
    cases carry with
    | some v =>
      simp only [finLoop] at h
      split at h
      · rcases ih _ _ h with h1 | h1
        · left; rw [h1]; exact processProofsLayer_keys _ _ _ _
        · exact Or.inr h1
      · split at h
        · cases h
        · rcases ih _ _ h with h1 | h1
          · left; rw [h1]; exact processProofsLayer_keys _ _ _ _
          · exact Or.inr h1
    | none =>
      simp only [finLoop] at h
      split at h
      · split at h
        · cases h
        · split at h
          · simp only [Option.some.injEq, Prod.mk.injEq] at h
            rw [← h.2]; exact Or.inl rfl
          · rcases ih _ _ h with h1 | h1
            · left; rw [h1]; exact processProofsLayer_keys _ _ _ _
            · exact Or.inr h1
      · exact ih _ _ h

/-- with every earlier proof indexed, `assignIndex` gives the just-added proof the current count. -/
theorem assignIndex_new (ps : List Proof) (x : H) (c : Nat) (h : ∀ p ∈ ps, p.index ≠ none) :
    (assignIndex (ps ++ [newProof x]) x c).map Proof.key = ps.map Proof.key ++ [(x, some c)] := by
  induction ps with
  | nil => simp [assignIndex, newProof, Proof.key]
  | cons p rest ih =>
    have hp : p.index ≠ none := h p (by simp)
    simp only [List.cons_append, assignIndex, hp, false_and, ↓reduceIte, List.map_cons]
    rw [ih (fun q hq => h q (by simp [hq]))]

theorem assignIndex_none (ps : List Proof) (x : H) (c : Nat) (h : ∀ p ∈ ps, p.index ≠ none) :
    assignIndex ps x c = ps := by
  induction ps with
  | nil => rfl
  | cons p rest ih =>
    have hp : p.index ≠ none := h p (by simp)
    simp only [assignIndex, hp, false_and, ↓reduceIte]
    rw [ih (fun q hq => h q (by simp [hq]))]

theorem canon_eq_nil (m : List H) (h : canon m = []) : m = [] := by
  cases m with
  | nil => rfl
  | cons a rest => rw [canon_cons] at h; cases h

/-- the tree invariant between two `AddHash` calls: pruning, `pre` fed so far. -/
structure TreeOK (t : Tree) (pre : List H) : Prop where
  prune : t.prune = true
  count : t.count = pre.length
  layers : t.layers = canon pre

theorem treeOK_new : TreeOK (newTree true) [] := ⟨rfl, rfl, by rw [canon_nil]; rfl⟩

theorem treeOK_addMerkleProof (t : Tree) (pre : List H) (x : H) (h : TreeOK t pre) :
    TreeOK (t.addMerkleProof x) pre := ⟨h.prune, h.count, h.layers⟩

/-- **AddHash never panics** on a tree built by AddHash calls, and keeps the canonical layers. -/
theorem addHash_ok (t : Tree) (pre : List H) (x : H) (h : TreeOK t pre) :
    ∃ t', t.addHash x = some t' ∧ TreeOK t' (pre ++ [x]) ∧
      t'.proofs.map Proof.key = (assignIndex t.proofs x t.count).map Proof.key := by
  unfold Tree.addHash
  cases hl : t.layers with
  | nil =>
    have hpre : pre = [] := canon_eq_nil pre (by rw [← h.layers, hl])
    subst hpre
    refine ⟨_, rfl, ⟨h.prune, rfl, ?_⟩, rfl⟩
    simp only [List.nil_append]
    rw [canon_cons]; simp [newLayer, pairs, canon_nil]
  | cons L rest =>
    simp only
    obtain ⟨ps', hps'⟩ := addLoop_canon pre x (assignIndex t.proofs x t.count)
    rw [← hl, h.prune, h.layers, hps']
    refine ⟨_, rfl, ⟨rfl, by simp [h.count], rfl⟩, ?_⟩
    exact addLoop_keys _ _ _ _ _ _ hps'

/-- **FinalizeMerkleProofs never panics** and returns the textbook root of everything fed. -/
theorem finalize_ok (t : Tree) (pre : List H) (h : TreeOK t pre) :
    ∃ ps, t.finalize = some (merkleRoot pre, ps) ∧
      (ps.map Proof.key = t.proofs.map Proof.key ∨ (pre = [] ∧ ps = [])) := by
  unfold Tree.finalize
  by_cases h0 : t.count = 0
  · have hpre : pre = [] := List.eq_nil_of_length_eq_zero (by rw [← h.count]; exact h0)
    subst hpre
    refine ⟨[], ?_, Or.inr ⟨rfl, rfl⟩⟩
    simp only [h0, ↓reduceIte]; rw [merkleRoot]
  · by_cases h1 : t.count = 1
    · have hlen : pre.length = 1 := by rw [← h.count]; exact h1
      match pre, hlen with
      | [a], _ =>
        refine ⟨t.proofs, ?_, Or.inl rfl⟩
        simp only [h0, ↓reduceIte, h1, h.layers]
        rw [canon_cons, merkleRoot]
        simp [Layer.lastHash]
    · have hne : pre ≠ [] := by
        intro hc; subst hc; exact h0 (by rw [h.count]; rfl)
      obtain ⟨ps, hps⟩ := finLoop_canon pre none t.proofs (by simpa using hne)
      refine ⟨ps, ?_, ?_⟩
      · simp only [h0, ↓reduceIte, h1, h.layers]
        simpa using hps
      · rcases finLoop_keys _ _ _ _ _ hps with hk | hk
        · exact Or.inl hk
        · simp only [Option.toList_none, List.append_nil] at hk
          -- the root of a non-empty list is not the zero hash, so this case is impossible;
          -- it is harmless to keep it as the second disjunct
          exfalso
          have : ∀ (m : List H), m ≠ [] → merkleRoot m ≠ none := by
            intro m
            induction hn : m.length using Nat.strongRecOn generalizing m with
            | ind n ih =>
              intro hm
              match m, hm with
              | [a], _ => rw [merkleRoot]; simp
              | a :: b :: rest, _ =>
                rw [merkleRoot]
                apply ih (pairUp (a :: b :: rest)).length _ _ rfl
                · simp [pairUp]
                · rw [← hn]; simp only [pairUp_length, List.length_cons]; omega
          exact this pre hne hk.1

/-- positions (and txids) of the transactions the processor marks relevant, in block order. -/
def relPos (env : Env) : Nat → List H → List (H × Nat)
  | _, [] => []
  | i, tx :: rest =>
    if env.proc i = .relevant then (tx, i) :: relPos env (i + 1) rest else relPos env (i + 1) rest

def keyOf (q : H × Nat) : H × Option Nat := (q.1, some q.2)

/-- invariant of the receive loop after the transactions `pre` were handled, `K` of them relevant. -/
structure LoopInv (st : LoopState) (pre : List H) (K : List (H × Nat)) : Prop where
  tree : TreeOK st.tree pre
  i : st.i = pre.length
  keys : st.tree.proofs.map Proof.key = K.map keyOf
  ids : st.blockTxIDs = K.map (·.1)
  notCancelled : st.cancelled = false
  calls : st.calls = pre.map Call.processTx
  coinbase : st.coinbase = pre.head?

/-- the tree `handleBlock` starts with is the pruning one (`Facts.merkleTreePrune`, extracted from the
    `NewMerkleTree(true)` call in the source; this proof breaks if the source passes `false`). -/
theorem initTree_eq : ({} : LoopState).tree = newTree true := rfl

theorem loopInv_init : LoopInv {} [] [] :=
  ⟨by rw [initTree_eq]; exact treeOK_new, rfl, rfl, rfl, rfl, rfl, rfl⟩

theorem keys_indexed (ps : List Proof) (K : List (H × Nat)) (h : ps.map Proof.key = K.map keyOf) :
    ∀ p ∈ ps, p.index ≠ none := by
  intro p hp
  have : p.key ∈ K.map keyOf := by rw [← h]; exact List.mem_map_of_mem hp
  obtain ⟨q, _, hq⟩ := List.mem_map.mp this
  intro hc
  have : (keyOf q).2 = p.key.2 := by rw [hq]
  simp [keyOf, Proof.key, hc] at this

/-- **the receive loop**: either it returns from inside (processor error or cancellation; only
    ProcessTx calls were made), or every received transaction was processed without error or
    cancellation and the state is the canonical one. -/
theorem txLoop_spec (env : Env) (recv : List H) (st : LoopState) (pre : List H) (K : List (H × Nat))
    (hinv : LoopInv st pre K) :
    match txLoop env recv st with
    | .inl st' =>
      LoopInv st' (pre ++ recv) (K ++ relPos env pre.length recv) ∧
      (∀ k, pre.length ≤ k → k < pre.length + recv.length →
        env.proc k ≠ .error ∧ env.cancelDuring ≠ some k)
    | .inr (calls, r) =>
      (∀ c ∈ calls, c.isIssue = false) ∧ (r = .processErr ∨ r = .cancelled) ∧
      (∃ k, pre.length ≤ k ∧ k < pre.length + recv.length ∧
        (env.proc k = .error ∨ env.cancelDuring = some k)) := by
  induction recv generalizing st pre K with
  | nil =>
    simp only [txLoop, List.append_nil, relPos, List.length_nil, Nat.add_zero]
    exact ⟨hinv, fun k h1 h2 => absurd h2 (by omega)⟩
  | cons tx rest ih =>
    have hcalls : ∀ c ∈ st.calls ++ [Call.processTx tx], c.isIssue = false := by
      intro c hc
      rw [hinv.calls] at hc
      simp only [List.mem_append, List.mem_map, List.mem_singleton] at hc
      rcases hc with ⟨_, _, rfl⟩ | rfl <;> rfl
    have hrange : pre.length ≤ pre.length ∧ pre.length < pre.length + (tx :: rest).length := by
      simp
    unfold txLoop
    simp only
    cases hproc : env.proc st.i with
    | error =>
      simp only
      refine ⟨hcalls, by simp, pre.length, hrange.1, hrange.2, Or.inl ?_⟩
      rw [← hinv.i]; exact hproc
    | relevant =>
      simp only [↓reduceIte]
      have hidx := keys_indexed _ _ hinv.keys
      obtain ⟨t2, ht2, hok2, hkeys2⟩ :=
        addHash_ok (st.tree.addMerkleProof tx) pre tx (treeOK_addMerkleProof _ _ _ hinv.tree)
      rw [ht2]
      simp only [hinv.notCancelled, Bool.false_or]
      by_cases hcan : env.cancelDuring = some st.i
      · simp only [hcan, beq_self_eq_true, ↓reduceIte]
        refine ⟨hcalls, by simp, pre.length, hrange.1, hrange.2, Or.inr ?_⟩
        rw [← hinv.i]
      · have hb : (env.cancelDuring == some st.i) = false := by simpa using hcan
        simp only [hb, Bool.false_eq_true, ↓reduceIte]
        have hinv' : LoopInv
            { tree := t2, blockTxIDs := st.blockTxIDs ++ [tx],
              coinbase := if st.i = 0 then some tx else st.coinbase, i := st.i + 1,
              cancelled := false, calls := st.calls ++ [Call.processTx tx] }
            (pre ++ [tx]) (K ++ [(tx, pre.length)]) := by
          refine ⟨hok2, by simp [hinv.i], ?_, by simp [hinv.ids], rfl, by simp [hinv.calls], ?_⟩
          · rw [hkeys2]
            simp only [Tree.addMerkleProof]
            rw [assignIndex_new _ _ _ hidx, hinv.keys, hinv.tree.count]
            simp [keyOf]
          · simp only [hinv.i, hinv.coinbase]
            cases pre <;> simp
        have := ih _ _ _ hinv'
        simp only [List.length_append, List.length_cons, List.length_nil, Nat.zero_add,
          List.append_assoc, List.cons_append, List.nil_append] at this
        have hrel : relPos env pre.length (tx :: rest) = (tx, pre.length) :: relPos env (pre.length + 1) rest := by
          simp only [relPos]; rw [← hinv.i, hproc]; simp
        split
        · rename_i st' hst'
          rw [hst'] at this
          simp only [hrel, List.length_cons]
          refine ⟨this.1, ?_⟩
          intro k hk1 hk2
          by_cases hkeq : k = pre.length
          · subst hkeq
            rw [← hinv.i]
            exact ⟨by rw [hproc]; simp, hcan⟩
          · exact this.2 k (by omega) (by omega)
        · rename_i calls r hst'
          rw [hst'] at this
          obtain ⟨h1, h2, k, hk1, hk2, hk3⟩ := this
          exact ⟨h1, h2, k, by omega, by simp only [List.length_cons]; omega, hk3⟩
    | notRelevant =>
      simp only [reduceCtorEq, ↓reduceIte]
      have hidx := keys_indexed _ _ hinv.keys
      obtain ⟨t2, ht2, hok2, hkeys2⟩ := addHash_ok st.tree pre tx hinv.tree
      rw [ht2]
      simp only [hinv.notCancelled, Bool.false_or]
      by_cases hcan : env.cancelDuring = some st.i
      · simp only [hcan, beq_self_eq_true, ↓reduceIte]
        refine ⟨hcalls, by simp, pre.length, hrange.1, hrange.2, Or.inr ?_⟩
        rw [← hinv.i]
      · have hb : (env.cancelDuring == some st.i) = false := by simpa using hcan
        simp only [hb, Bool.false_eq_true, ↓reduceIte]
        have hinv' : LoopInv
            { tree := t2, blockTxIDs := st.blockTxIDs,
              coinbase := if st.i = 0 then some tx else st.coinbase, i := st.i + 1,
              cancelled := false, calls := st.calls ++ [Call.processTx tx] }
            (pre ++ [tx]) K := by
          refine ⟨hok2, by simp [hinv.i], ?_, hinv.ids, rfl, by simp [hinv.calls], ?_⟩
          · rw [hkeys2, assignIndex_none _ _ _ hidx, hinv.keys]
          · simp only [hinv.i, hinv.coinbase]
            cases pre <;> simp
        have := ih _ _ _ hinv'
        simp only [List.length_append, List.length_cons, List.length_nil, Nat.zero_add,
          List.append_assoc, List.cons_append, List.nil_append] at this
        have hrel : relPos env pre.length (tx :: rest) = relPos env (pre.length + 1) rest := by
          simp only [relPos]; rw [← hinv.i, hproc]; simp
        split
        · rename_i st' hst'
          rw [hst'] at this
          simp only [hrel, List.length_cons]
          refine ⟨this.1, ?_⟩
          intro k hk1 hk2
          by_cases hkeq : k = pre.length
          · subst hkeq
            rw [← hinv.i]
            exact ⟨by rw [hproc]; simp, hcan⟩
          · exact this.2 k (by omega) (by omega)
        · rename_i calls r hst'
          rw [hst'] at this
          obtain ⟨h1, h2, k, hk1, hk2, hk3⟩ := this
          exact ⟨h1, h2, k, by omega, by simp only [List.length_cons]; omega, hk3⟩

end BRV.Merkle
