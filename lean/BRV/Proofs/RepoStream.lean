/-
The new-header stream over whole submission histories: every submission's announcement, applied
to the previous best chain, gives the new best chain.
-/
import BRV.Proofs.RepoReorg
import BRV.Proofs.RepoLastCommon

namespace BRV.Repo

/-! ### forks hang below the tip of their parent -/

def BelowTip (ar : Arena) : Prop :=
  ∀ (bi : Nat) (b : Branch) (p : Nat) (pbr : Branch), ar[bi]? = some b → b.parent = some p → ar[p]? = some pbr →
    b.parentHeight < pbr.height

theorem belowTip_processHeader (r : Repo) (h : Hdr) (ok : Bool) (hr : RepoWF r) (hbt : BelowTip r.arena)
    (hnc : ∀ pb ph lst, precheck r h ok = .inr (pb, ph, lst) →
      Int.tmod ((r.br pb).height + 1) (Facts.autoCleanModulus : Int) ≠ 0) :
    BelowTip (processHeader r h ok).1.arena := by
  cases processHeader_shape r h ok hnc with
  | same ha hb _ => rw [ha]; exact hbt
  | fork pb ph lst nb hp hne hn ha hb _ =>
    rw [ha]
    obtain ⟨l2, w, _, _, hnb⟩ := newBranch_ok_shape r pb ph h nb hn
    intro bi b p pbr hbi hpar hpbr
    by_cases hlt : bi < r.arena.length
    · rw [List.getElem?_append_left hlt] at hbi
      have hplt : p < bi := hr.link.dec bi b hbi p hpar
      rw [List.getElem?_append_left (by omega)] at hpbr
      exact hbt bi b p pbr hbi hpar hpbr
    · have hlen := getElem?_lt _ _ _ hbi
      simp only [List.length_append, List.length_cons, List.length_nil] at hlen
      have he : bi = r.arena.length := by omega
      subst he
      simp only [List.getElem?_concat_length, Option.some.injEq] at hbi
      subst hbi
      rw [hnb] at hpar
      simp only [Option.some.injEq] at hpar
      subst hpar
      obtain ⟨pb0, k, d, hpb, hk, hid, hph⟩ := branchesFind_owner r hr.link hr.ids hr.list h.prev pb ph hp.parent
      rw [List.getElem?_append_left (getElem?_lt _ _ _ hpb), hpb] at hpbr
      simp only [Option.some.injEq] at hpbr
      subst hpbr
      have hbr : r.br pb = pb0 := by unfold Repo.br; rw [hpb]; rfl
      have hlast : pb0.headers[pb0.headers.length - 1]? = some lst := by
        have := getLast?_getElem? _ _ hp.lastIs
        rw [hbr] at this; exact this
      have hoff := (hr.link.each pb pb0 hpb).off
      have hklt : k < pb0.headers.length := getElem?_lt _ _ _ hk
      rw [hnb]; simp only
      rw [branch_height_eq pb0 hoff]
      by_cases hkl : k = pb0.headers.length - 1
      · subst hkl
        rw [hk] at hlast
        simp only [Option.some.injEq] at hlast
        rw [hlast] at hid
        exact absurd hid hne
      · omega
  | extend pb ph lst w hp hprev hlen hbw ha hb _ =>
    rw [ha]
    have hbr : r.arena[pb]? = some (r.br pb) := by
      unfold Repo.br; rw [List.getElem?_eq_getElem hlen]; rfl
    intro bi b p pbr hbi hpar hpbr
    have hold : ∃ b0, r.arena[bi]? = some b0 ∧ b0.parent = b.parent ∧ b0.parentHeight = b.parentHeight := by
      by_cases he : bi = pb
      · subst he
        rw [List.getElem?_set_self hlen] at hbi
        simp only [Option.some.injEq] at hbi
        exact ⟨r.br bi, hbr, by rw [← hbi], by rw [← hbi]⟩
      · rw [List.getElem?_set_ne (Ne.symm he)] at hbi
        exact ⟨b, hbi, rfl, rfl⟩
    obtain ⟨b0, hb0, hp0, hh0⟩ := hold
    rw [← hh0]
    by_cases he : p = pb
    · subst he
      rw [List.getElem?_set_self hlen] at hpbr
      simp only [Option.some.injEq] at hpbr
      have := hbt bi b0 p (r.br p) hb0 (by rw [hp0]; exact hpar) hbr
      rw [← hpbr]
      unfold Branch.height at this ⊢
      simp only [List.length_append, List.length_cons, List.length_nil]
      omega
    · rw [List.getElem?_set_ne (Ne.symm he)] at hpbr
      exact hbt bi b0 p pbr hb0 (by rw [hp0]; exact hpar) hpbr

/-- every header `AtHeight` returns is held by the branch itself, or by an ancestor below the
    point where the path to the branch leaves that ancestor. -/
theorem atH_heldAt' (ar : Arena) (hw : LinkWF ar) (bi : Nat) (m : Int) (d : HData)
    (h : atH ar bi m = some d) : ∃ bj, HeldAt ar bj d.hdr.id m ∧
      (bj = bi ∨ ∃ (c : Nat) (cb : Branch), ar[c]? = some cb ∧ cb.parent = some bj ∧ m ≤ cb.parentHeight) := by
  induction bi using Nat.strongRecOn with
  | _ bi ih =>
    cases hb : ar[bi]? with
    | none => unfold atH at h; simp [atHeight, hb] at h
    | some b =>
      have hl := hw.each bi b hb
      rw [atH_unfold ar hw.dec bi b hb] at h
      by_cases h1 : m > b.parentHeight
      · simp only [h1, ↓reduceIte] at h
        unfold getI at h
        split at h
        · cases h
        · rename_i hn
          have hoff := hl.off
          exact ⟨bi, ⟨b, (m - b.parentHeight - b.offset).toNat, d, hb, h, rfl, by omega⟩, Or.inl rfl⟩
      · simp only [h1, ↓reduceIte] at h
        cases hpar : b.parent with
        | none => rw [hpar] at h; cases h
        | some p =>
          rw [hpar] at h
          simp only at h
          have hlt := hw.dec bi b hb p hpar
          obtain ⟨bj, hheld, hcase⟩ := ih p hlt h
          refine ⟨bj, hheld, Or.inr ?_⟩
          rcases hcase with rfl | hc
          · exact ⟨bi, b, hb, hpar, by omega⟩
          · exact hc

/-- the tip of one branch is not on the chain of another. -/
theorem tip_not_shared (ar : Arena) (hw : LinkWF ar) (bs : List Nat) (hi : IdWF ar bs) (hbt : BelowTip ar)
    (lg old : Nat) (hne : lg ≠ old) (bb : Branch) (hbb : ar[lg]? = some bb) (d : HData)
    (h1 : atH ar lg bb.height = some d) (h2 : atH ar old bb.height = some d) : False := by
  have hl := hw.each lg bb hbb
  have hlen : bb.headers.length ≠ 0 := by
    intro h0; exact hl.nonempty (List.length_eq_zero_iff.mp h0)
  -- the tip is held by `lg` itself
  have hown : HeldAt ar lg d.hdr.id bb.height := by
    rw [atH_unfold ar hw.dec lg bb hbb] at h1
    have hh := branch_height_eq bb hl.off
    have : bb.height > bb.parentHeight := by omega
    simp only [this, ↓reduceIte] at h1
    unfold getI at h1
    split at h1
    · cases h1
    · have hoff := hl.off
      exact ⟨bb, _, d, hbb, h1, rfl, by omega⟩
  obtain ⟨bj, hheld, hcase⟩ := atH_heldAt' ar hw old bb.height d h2
  obtain ⟨hbj, _⟩ := heldAt_unique ar bs hi bj lg _ _ _ hheld hown
  subst hbj
  rcases hcase with rfl | ⟨c, cb, hc, hpar, hle⟩
  · exact hne rfl
  · have := hbt c cb bj bb hc hpar hbb
    omega

/-! ### the reorganisation theorem -/

/-- the shape of a reorganisation: the old and the new best chain share `pre ++ [p]` (up to the
    fork point `p`), the new chain continues with exactly the announced headers, which form a
    non-empty linked chain hanging off `p`, and no two headers of the new chain share an id. -/
theorem reselect_reorg_shape (r : Repo) (hc : ChainWF r) (r2 : Repo) (evs : List Hdr)
    (hbt : BelowTip r.arena) (h : reselect r = .ok (r2, true, evs))
    (cOld cNew : List Hdr) (hold : IsChain r.arena r.longest cOld) (hnew : IsChain r.arena r2.longest cNew) :
    ∃ (pre : List Hdr) (p : Hdr) (rest : List Hdr), cOld = pre ++ [p] ++ rest ∧ cNew = pre ++ [p] ++ evs ∧
      Spec.Linked p evs ∧ ((pre ++ [p] ++ evs).map (·.id)).Nodup ∧ evs ≠ [] ∧ (∀ e ∈ evs, e ∉ cOld) := by
  have hw := hc.wf.link
  -- what reselect did
  unfold reselect at h
  cases hlg : longestOf r.arena r.branches with
  | none => rw [hlg] at h; cases h
  | some lg =>
    rw [hlg] at h
    simp only at h
    by_cases hneq : lg ≠ r.longest
    · simp only [hneq, ne_eq, not_false_eq_true, ↓reduceIte] at h
      cases hsb : sendBranchUpdate r lg r.longest with
      | mk evs' err =>
        rw [hsb] at h
        cases err with
        | some e => cases h
        | none =>
          simp only [Except.ok.injEq, Prod.mk.injEq, true_and] at h
          obtain ⟨hr2, hevs⟩ := h
          subst hevs
          have hl2 : r2.longest = lg := by rw [← hr2]
          rw [hl2] at hnew
          obtain ⟨bb, hbb, hlenN, hidxN⟩ := hnew
          obtain ⟨ob, hob, hlenO, hidxO⟩ := hold
          -- what sendBranchUpdate did
          unfold sendBranchUpdate at hsb
          cases hih : intersectHash r.arena r.fuel lg r.longest with
          | none => rw [hih] at hsb; cases hsb
          | some ih =>
            rw [hih] at hsb
            simp only at hsb
            cases hfind : r.find lg ih with
            | none => rw [hfind] at hsb; cases hsb
            | some bh =>
              rw [hfind] at hsb
              simp only at hsb
              -- the intersect is a common header at height m
              obtain ⟨cur, m, d, hd, hid, hb1, ho1⟩ := intersect_common r.arena hw hc.owns r.fuel lg r.longest ih bb ob hbb hob hih
              have hlgm : atH r.arena lg m = some d := by rw [← hb1 m (Int.le_refl _)]; exact hd
              have holdm : atH r.arena r.longest m = some d := by rw [← ho1 m (Int.le_refl _)]; exact hd
              obtain ⟨bj, _, hheld⟩ := atH_heldAt r.arena hw lg m d hlgm
              rw [hid] at hheld
              -- the height `Find` reports for it is m
              obtain ⟨own, bo, _, hbo, hg⟩ := bfind_owner r.arena hw.dec _ lg ih bh hfind
              obtain ⟨k0, d0, hk0, hid0, hh0⟩ := ((hc.wf.ids.exact own bo hbo) ih bh).mp hg
              have hbm : bh = m := (heldAt_unique r.arena r.branches hc.wf.ids own bj ih bh m ⟨bo, k0, d0, hbo, hk0, hid0, hh0⟩ hheld).2
              subst hbm
              -- 0 ≤ bh ≤ both tips
              have hm0 : 0 ≤ bh := by
                have := parentHeight_ge r.arena hw hc.root hc.owns own bo hbo
                omega
              obtain ⟨bb', hbb', hmN⟩ := atH_some_le_height r.arena hw lg bh d hlgm
              rw [hbb] at hbb'; simp only [Option.some.injEq] at hbb'; subst hbb'
              obtain ⟨ob', hob', hmO⟩ := atH_some_le_height r.arena hw r.longest bh d holdm
              rw [hob] at hob'; simp only [Option.some.injEq] at hob'; subst hob'
              -- the collected headers
              obtain ⟨l, hl, hllen, hlidx⟩ := collect_spec r lg _ _ [] evs' hsb
              simp only [List.reverse_nil, List.nil_append] at hl
              subst hl
              have hbrlg : r.br lg = bb := by unfold Repo.br; rw [hbb]; rfl
              rw [hbrlg] at hllen hlidx
              have hlgl : lg < r.arena.length := getElem?_lt _ _ _ hbb
              have hevidx : ∀ j : Nat, j < evs'.length →
                  ∃ dj, atH r.arena lg (bh + 1 + (j : Int)) = some dj ∧ evs'[j]? = some dj.hdr := by
                intro j hj
                obtain ⟨dj, hdj, hej⟩ := hlidx j (by rw [← hllen]; exact hj)
                rw [Repo.at_eq_atH r hw.dec lg hlgl] at hdj
                exact ⟨dj, hdj, hej⟩
              have hM : ((bh.toNat : Nat) : Int) = bh := by omega
              -- shape of the old chain
              have hMO : bh.toNat < cOld.length := by omega
              obtain ⟨dO, hdO, hcO⟩ := hidxO bh.toNat hMO
              rw [hM, holdm] at hdO
              simp only [Option.some.injEq] at hdO
              subst hdO
              have hsplitO := split_at cOld bh.toNat d.hdr hcO
              -- shape of the new chain
              have hMN : bh.toNat < cNew.length := by omega
              obtain ⟨dN, hdN, hcN⟩ := hidxN bh.toNat hMN
              rw [hM, hlgm] at hdN
              simp only [Option.some.injEq] at hdN
              subst hdN
              have hsplitN := split_at cNew bh.toNat d.hdr hcN
              have htake : cNew.take bh.toNat = cOld.take bh.toNat := by
                apply List.ext_getElem?
                intro i
                rw [List.getElem?_take, List.getElem?_take]
                by_cases hi : i < bh.toNat
                · simp only [hi, ↓reduceIte]
                  obtain ⟨a, ha, hca⟩ := hidxN i (by omega)
                  obtain ⟨b, hb, hcb⟩ := hidxO i (by omega)
                  rw [← hb1 (i : Int) (by omega)] at ha
                  rw [← ho1 (i : Int) (by omega), ha] at hb
                  simp only [Option.some.injEq] at hb
                  rw [hca, hcb, hb]
                · simp only [hi, ↓reduceIte]
              have hlenE : (evs'.length : Int) = bb.height - bh := by rw [hllen]; omega
              have hdrop : cNew.drop (bh.toNat + 1) = evs' := by
                apply List.ext_getElem?
                intro j
                rw [List.getElem?_drop]
                by_cases hj : j < evs'.length
                · obtain ⟨dj, hdj, hej⟩ := hevidx j hj
                  obtain ⟨a, ha, hca⟩ := hidxN (bh.toNat + 1 + j) (by omega)
                  have e1 : (((bh.toNat + 1 + j : Nat)) : Int) = bh + 1 + (j : Int) := by omega
                  rw [e1, hdj] at ha
                  simp only [Option.some.injEq] at ha
                  rw [hca, hej, ha]
                · rw [List.getElem?_eq_none (by omega), List.getElem?_eq_none (by omega)]
              rw [htake, hdrop] at hsplitN
              -- the stream is a linked chain hanging off the common header
              have hlink : Spec.Linked d.hdr evs' := by
                apply linked_of_idx
                · intro e he
                  have hpos : 0 < evs'.length := getElem?_lt _ _ _ he
                  obtain ⟨d1, hd1, he1⟩ := hevidx 0 hpos
                  rw [he] at he1
                  simp only [Option.some.injEq] at he1
                  rw [he1]
                  have e0 : bh + 1 + ((0 : Nat) : Int) - 1 = bh := by omega
                  exact atH_linked r.arena hw lg _ d1 d hd1 (by rw [e0]; exact hlgm)
                · intro j a b ha hb
                  obtain ⟨da, hda, hea⟩ := hevidx j (getElem?_lt _ _ _ ha)
                  obtain ⟨db, hdb, heb⟩ := hevidx (j + 1) (getElem?_lt _ _ _ hb)
                  rw [ha] at hea; rw [hb] at heb
                  simp only [Option.some.injEq] at hea heb
                  rw [hea, heb]
                  have e0 : bh + 1 + ((j + 1 : Nat) : Int) - 1 = bh + 1 + (j : Int) := by omega
                  exact atH_linked r.arena hw lg _ db da hdb (by rw [e0]; exact hda)
              -- no two headers of the new chain share an id
              have hnodup : (cNew.map (·.id)).Nodup := by
                apply nodup_of_idx_inj
                intro i j a b ha hb heq
                obtain ⟨da, hda, hca⟩ := hidxN i (getElem?_lt _ _ _ ha)
                obtain ⟨db, hdb, hcb⟩ := hidxN j (getElem?_lt _ _ _ hb)
                rw [ha] at hca; rw [hb] at hcb
                simp only [Option.some.injEq] at hca hcb
                obtain ⟨b1, _, hh1⟩ := atH_heldAt r.arena hw lg _ da hda
                obtain ⟨b2, _, hh2⟩ := atH_heldAt r.arena hw lg _ db hdb
                have e : da.hdr.id = db.hdr.id := by rw [← hca, ← hcb]; exact heq
                rw [e] at hh1
                have := (heldAt_unique r.arena r.branches hc.wf.ids b1 b2 _ _ _ hh1 hh2).2
                omega
              -- the new tip is not on the old chain, so something is announced
              have hne : evs' ≠ [] := by
                intro he
                rw [he] at hlenE
                simp only [List.length_nil] at hlenE
                have hbh : bh = bb.height := by omega
                rw [hbh] at hlgm holdm
                exact tip_not_shared r.arena hw r.branches hc.wf.ids hbt lg r.longest hneq bb hbb d hlgm holdm
              -- the intersect is the LAST common header: no announced header is on the old chain
              have hfresh : ∀ e ∈ evs', e ∉ cOld := by
                obtain ⟨m', d', hb', _, hid', hlast⟩ := intersect_last r.arena hw hc.owns r.branches hc.wf.ids r.fuel lg
                  r.longest ih bb ob hbb hob hneq hih
                have hm' : m' = bh := by
                  have := atH_same_id r.arena hw r.branches hc.wf.ids lg lg m' bh d' d hb' hlgm (by rw [hid', hid])
                  exact this.2
                subst hm'
                have key : ∀ (i : Nat) (x y : HData), atH r.arena lg (m' + 1 + (i : Int)) = some x →
                    atH r.arena r.longest (m' + 1 + (i : Int)) = some y → x.hdr.id ≠ y.hdr.id := by
                  intro i
                  induction i with
                  | zero =>
                    intro x y hx hy
                    simp only [Int.natCast_zero, Int.add_zero] at hx hy
                    exact hlast x y hx hy
                  | succ i ihi =>
                    intro x y hx hy heq
                    obtain ⟨hxy, _⟩ := atH_same_id r.arena hw r.branches hc.wf.ids _ _ _ _ x y hx hy heq
                    obtain ⟨_, _, hleN⟩ := atH_some_le_height r.arena hw lg _ x hx
                    obtain ⟨obx, hobx, hleO⟩ := atH_some_le_height r.arena hw r.longest _ y hy
                    rw [hob] at hobx; simp only [Option.some.injEq] at hobx; subst hobx
                    have e1 : m' + 1 + ((i + 1 : Nat) : Int) - 1 = m' + 1 + (i : Int) := by omega
                    obtain ⟨x', hx'⟩ := atH_complete r.arena hw hc.root lg bb hbb (m' + 1 + (i : Int)) (by omega) (by
                      obtain ⟨bbx, hbbx, hle⟩ := atH_some_le_height r.arena hw lg _ x hx
                      rw [hbb] at hbbx; simp only [Option.some.injEq] at hbbx; subst hbbx; omega)
                    obtain ⟨y', hy'⟩ := atH_complete r.arena hw hc.root r.longest ob hob (m' + 1 + (i : Int)) (by omega) (by omega)
                    have l1 := atH_linked r.arena hw lg _ x x' hx (by rw [e1]; exact hx')
                    have l2 := atH_linked r.arena hw r.longest _ y y' hy (by rw [e1]; exact hy')
                    exact ihi x' y' hx' hy' (by rw [← l1, ← l2, hxy])
                intro e he hmem
                obtain ⟨j, hj⟩ := List.getElem?_of_mem he
                obtain ⟨dj, hdj, hej⟩ := hevidx j (getElem?_lt _ _ _ hj)
                rw [hj] at hej
                simp only [Option.some.injEq] at hej
                obtain ⟨t, ht⟩ := List.getElem?_of_mem hmem
                obtain ⟨y, hy, hcy⟩ := hidxO t (getElem?_lt _ _ _ ht)
                rw [ht] at hcy
                simp only [Option.some.injEq] at hcy
                have hids : dj.hdr.id = y.hdr.id := by rw [← hej, hcy]
                obtain ⟨_, hkk⟩ := atH_same_id r.arena hw r.branches hc.wf.ids _ _ _ _ dj y hdj hy hids
                rw [← hkk] at hy
                exact key j dj y hdj hy hids
              rw [hsplitN] at hnodup
              exact ⟨cOld.take bh.toNat, d.hdr, cOld.drop (bh.toNat + 1), hsplitO, hsplitN, hlink, hnodup, hne, hfresh⟩
    · simp only [hneq, ↓reduceIte, Except.ok.injEq, Prod.mk.injEq, Bool.false_eq_true, false_and, and_false] at h

/-- **a reorganisation announcement rebuilds the new best chain.** In a repository reached by
    submissions from genesis: when `reselect` switches the most-work branch and announces `evs`,
    a subscriber holding the previous best chain `cOld` that applies `evs` (attach each header to
    its previous-block hash, discarding what was above it) holds exactly the new best chain `cNew`. -/
theorem reselect_reorg_stream (r : Repo) (hc : ChainWF r) (r2 : Repo) (evs : List Hdr)
    (hbt : BelowTip r.arena) (h : reselect r = .ok (r2, true, evs))
    (cOld cNew : List Hdr) (hold : IsChain r.arena r.longest cOld) (hnew : IsChain r.arena r2.longest cNew) :
    Spec.applyStream cOld evs = cNew := by
  obtain ⟨pre, p, rest, ho, hn, hlink, hnd, hne, _⟩ := reselect_reorg_shape r hc r2 evs hbt h cOld cNew hold hnew
  rw [ho, hn]
  exact Spec.applyStream_reorg pre p rest evs hlink hnd hne

/-! ### a single root -/

/-- only branch 0 has no parent. -/
def SingleRoot (ar : Arena) : Prop :=
  ∀ (bi : Nat) (b : Branch), ar[bi]? = some b → b.parent = none → bi = 0

theorem singleRoot_processHeader (r : Repo) (h : Hdr) (ok : Bool) (hsr : SingleRoot r.arena)
    (hnc : ∀ pb ph lst, precheck r h ok = .inr (pb, ph, lst) →
      Int.tmod ((r.br pb).height + 1) (Facts.autoCleanModulus : Int) ≠ 0) :
    SingleRoot (processHeader r h ok).1.arena := by
  cases processHeader_shape r h ok hnc with
  | same ha hb _ => rw [ha]; exact hsr
  | fork pb ph lst nb hp hne hn ha hb _ =>
    rw [ha]
    obtain ⟨l2, w, _, _, hnb⟩ := newBranch_ok_shape r pb ph h nb hn
    intro bi b hbi hpar
    by_cases hlt : bi < r.arena.length
    · rw [List.getElem?_append_left hlt] at hbi
      exact hsr bi b hbi hpar
    · have hlen := getElem?_lt _ _ _ hbi
      simp only [List.length_append, List.length_cons, List.length_nil] at hlen
      have he : bi = r.arena.length := by omega
      subst he
      simp only [List.getElem?_concat_length, Option.some.injEq] at hbi
      subst hbi
      rw [hnb] at hpar
      cases hpar
  | extend pb ph lst w hp hprev hlen hbw ha hb _ =>
    rw [ha]
    have hbr : r.arena[pb]? = some (r.br pb) := by
      unfold Repo.br; rw [List.getElem?_eq_getElem hlen]; rfl
    intro bi b hbi hpar
    by_cases he : bi = pb
    · subst he
      rw [List.getElem?_set_self hlen] at hbi
      simp only [Option.some.injEq] at hbi
      rw [← hbi] at hpar
      exact hsr bi (r.br bi) hbr hpar
    · rw [List.getElem?_set_ne (Ne.symm he)] at hbi
      exact hsr bi b hbi hpar

/-! ### all invariants together -/

structure StreamWF (r : Repo) : Prop where
  chain : ChainWF r
  below : BelowTip r.arena
  single : SingleRoot r.arena

theorem streamWF_processHeader (r : Repo) (h : Hdr) (ok : Bool) (hs : StreamWF r)
    (hnc : ∀ pb ph lst, precheck r h ok = .inr (pb, ph, lst) →
      Int.tmod ((r.br pb).height + 1) (Facts.autoCleanModulus : Int) ≠ 0) :
    StreamWF (processHeader r h ok).1 :=
  ⟨chainWF_processHeader r h ok hs.chain hnc, belowTip_processHeader r h ok hs.chain.wf hs.below hnc,
   singleRoot_processHeader r h ok hs.single hnc⟩

theorem streamWF_submitAll (r : Repo) (hs : List (Hdr × Bool)) (hc : StreamWF r) (hq : NoAutoClean r hs) :
    StreamWF (submitAll r hs) := by
  induction hs generalizing r with
  | nil => exact hc
  | cons x xs ih =>
    obtain ⟨h1, h2⟩ := hq
    simp only [submitAll, List.foldl_cons]
    exact ih _ (streamWF_processHeader r x.1 x.2 hc h1) h2

/-- the invariants only read the forest, the branch list and the heights map. -/
theorem streamWF_congr (r r' : Repo) (ha : r'.arena = r.arena) (hb : r'.branches = r.branches)
    (hh : r'.heights = r.heights) (hs : StreamWF r) : StreamWF r' := by
  obtain ⟨⟨⟨h1, h2, h3, h4⟩, h5, h6⟩, h7, h8⟩ := hs
  refine ⟨⟨⟨by rw [ha]; exact h1, by rw [ha, hb]; exact h2, by rw [ha, hb]; exact h3, ?_⟩,
    by rw [ha]; exact h5, by rw [ha]; exact h6⟩, by rw [ha]; exact h7, by rw [ha]; exact h8⟩
  intro id x hg
  rw [hh] at hg
  rw [ha]
  exact h4 id x hg

/-! ### chains -/

theorem isChain_unique (ar : Arena) (bi : Nat) (c1 c2 : List Hdr) (h1 : IsChain ar bi c1) (h2 : IsChain ar bi c2) :
    c1 = c2 := by
  obtain ⟨b1, hb1, hl1, hi1⟩ := h1
  obtain ⟨b2, hb2, hl2, hi2⟩ := h2
  rw [hb1] at hb2
  simp only [Option.some.injEq] at hb2
  subst hb2
  have hlen : c1.length = c2.length := by omega
  apply List.ext_getElem?
  intro k
  by_cases hk : k < c1.length
  · obtain ⟨d1, hd1, hc1⟩ := hi1 k hk
    obtain ⟨d2, hd2, hc2⟩ := hi2 k (by omega)
    rw [hd1] at hd2
    simp only [Option.some.injEq] at hd2
    rw [hc1, hc2, hd2]
  · rw [List.getElem?_eq_none (by omega), List.getElem?_eq_none (by omega)]

/-- a chain stays the chain of its branch when the forest changes without disturbing its lookups. -/
theorem isChain_transfer (ar ar' : Arena) (bi : Nat) (c : List Hdr) (h : IsChain ar bi c)
    (hb' : ∀ b, ar[bi]? = some b → ∃ b', ar'[bi]? = some b' ∧ b'.height = b.height)
    (hat : ∀ (k : Int) (d : HData), atH ar bi k = some d → atH ar' bi k = some d) : IsChain ar' bi c := by
  obtain ⟨b, hb, hl, hi⟩ := h
  obtain ⟨b', hb'', hh⟩ := hb' b hb
  refine ⟨b', hb'', by rw [hh]; exact hl, ?_⟩
  intro k hk
  obtain ⟨d, hd, hc⟩ := hi k hk
  exact ⟨d, hat _ d hd, hc⟩

theorem isChain_nodup (ar : Arena) (hw : LinkWF ar) (bs : List Nat) (hi : IdWF ar bs) (bi : Nat) (c : List Hdr)
    (h : IsChain ar bi c) : (c.map (·.id)).Nodup := by
  obtain ⟨b, hb, hl, hidx⟩ := h
  apply nodup_of_idx_inj
  intro i j a b' ha hb' heq
  obtain ⟨da, hda, hca⟩ := hidx i (getElem?_lt _ _ _ ha)
  obtain ⟨db, hdb, hcb⟩ := hidx j (getElem?_lt _ _ _ hb')
  rw [ha] at hca; rw [hb'] at hcb
  simp only [Option.some.injEq] at hca hcb
  obtain ⟨b1, _, hh1⟩ := atH_heldAt ar hw bi _ da hda
  obtain ⟨b2, _, hh2⟩ := atH_heldAt ar hw bi _ db hdb
  have e : da.hdr.id = db.hdr.id := by rw [← hca, ← hcb]; exact heq
  rw [e] at hh1
  have := (heldAt_unique ar bs hi b1 b2 _ _ _ hh1 hh2).2
  omega

/-! ### what `reselect` can do -/

inductive ReselectCase (r1 : Repo) : Except (Repo × StepOut) (Repo × Bool × List Hdr) → Prop
  | crash (m : String) : ReselectCase r1 (.error (r1, { verdict := .panic m }))
  | sendErr (evs : List Hdr) (e : String) : ReselectCase r1 (.error (r1, { verdict := .err e, events := evs }))
  | stay : ReselectCase r1 (.ok (r1, false, []))
  | switch (lg : Nat) (evs : List Hdr) (hne : lg ≠ r1.longest) (hlg : longestOf r1.arena r1.branches = some lg) :
      ReselectCase r1 (.ok ({ r1 with longest := lg }, true, evs))

theorem reselect_cases (r1 : Repo) : ReselectCase r1 (reselect r1) := by
  unfold reselect
  split
  · exact .crash _
  · rename_i lg hlg
    by_cases hne : lg ≠ r1.longest
    · simp only [hne, ne_eq, not_false_eq_true, ↓reduceIte]
      split
      · exact .sendErr _ _
      · exact .switch lg _ hne hlg
    · simp only [hne, ↓reduceIte]
      exact .stay

end BRV.Repo
