/-
Helper lemmas for C05 under a header repository that changes BETWEEN the round's own reads
(`walkE` / `planResE`, Model/Sync.lean). All views are views of one block tree `G` (a block's parent
and height never change); what the walk-back computes is then a parent-linked chain ending at the
hash read by `LastHash`, labelled with the true heights.
-/
import BRV.Proofs.SyncMachine

namespace BRV.Sync

/-- the block tree: immutable parent link and height of every block id. -/
structure Tree where
  parent : Id → Option Id
  height : Id → Nat

def Tree.WF (G : Tree) : Prop := ∀ x p, G.parent x = some p → G.height x = G.height p + 1

/-- `v` is a view of the tree `G`: the best chain is a path of `G` indexed by height, side records
    carry the true height and parent. -/
structure View.Cons (G : Tree) (v : View) : Prop where
  chainHeight : ∀ h x, v.chain[h]? = some x → G.height x = h
  chainLink : ∀ h x y, v.chain[h]? = some x → v.chain[h + 1]? = some y → G.parent y = some x
  side : ∀ x h p, (x, h, p) ∈ v.side → G.height x = h ∧ G.parent x = some p

theorem sideRec_mem (v : View) (x : Id) (h : Nat) (p : Id) (hs : v.sideRec x = some (h, p)) :
    (x, h, p) ∈ v.side := by
  unfold View.sideRec at hs
  cases hf : v.side.find? (fun r => r.1 == x) with
  | none => rw [hf] at hs; cases hs
  | some r =>
    rw [hf] at hs
    simp only [Option.map_some, Option.some.injEq] at hs
    have hm := List.mem_of_find?_eq_some hf
    have hp := List.find?_some hf
    simp only [beq_iff_eq] at hp
    obtain ⟨a, b, c⟩ := r
    simp only at hp hs
    cases hs
    subst hp
    exact hm

theorem hashHeight_cons (G : Tree) (v : View) (hc : v.Cons G) (x : Id) (h : Nat)
    (hh : v.hashHeight x = some h) : G.height x = h := by
  unfold View.hashHeight at hh
  split at hh
  · rename_i hlt
    cases hh
    have := List.getElem_idxOf hlt
    exact hc.chainHeight _ _ (by rw [List.getElem?_eq_getElem hlt, this])
  · cases hs : v.sideRec x with
    | none => rw [hs] at hh; cases hh
    | some r =>
      obtain ⟨a, b⟩ := r
      rw [hs] at hh
      simp only [Option.map_some, Option.some.injEq] at hh
      subst hh
      exact (hc.side x a b (sideRec_mem v x a b hs)).1

theorem previousHash_cons (G : Tree) (v : View) (hc : v.Cons G) (x p : Id)
    (hh : v.previousHash x = some p) : G.parent x = some p := by
  unfold View.previousHash at hh
  split at hh
  · rename_i hlt
    have hx := List.getElem_idxOf hlt
    split at hh
    · cases hh
    · rename_i h hidx
      split at hh
      · cases hh
      · apply hc.chainLink h p x hh
        have : h + 1 = List.idxOf x v.chain := hidx.symm
        rw [this, List.getElem?_eq_getElem hlt, hx]
  · cases hs : v.sideRec x with
    | none => rw [hs] at hh; cases hh
    | some r =>
      obtain ⟨a, b⟩ := r
      rw [hs] at hh
      simp only [Option.map_some, Option.some.injEq] at hh
      subst hh
      exact (hc.side x a b (sideRec_mem v x a b hs)).2

/-- a list of blocks in which each element is the parent of the next. -/
def Linked (G : Tree) : List Id → Prop
  | [] => True
  | [_] => True
  | a :: b :: r => G.parent b = some a ∧ Linked G (b :: r)

theorem linked_cons (G : Tree) (p x : Id) (r : List Id) (hp : G.parent x = some p)
    (hl : Linked G (x :: r)) : Linked G (p :: x :: r) := ⟨hp, hl⟩

/-- in a linked list the i-th element is i above the head. -/
theorem linked_heights (G : Tree) (hG : G.WF) :
    ∀ (l : List Id) (hd : Id), l.head? = some hd → Linked G l →
      ∀ i x, l[i]? = some x → G.height x = G.height hd + i := by
  intro l
  induction l with
  | nil => intro hd h; cases h
  | cons a r ih =>
    intro hd hh hl i x hx
    simp only [List.head?_cons, Option.some.injEq] at hh
    subst hh
    cases i with
    | zero => simp at hx; subst hx; rfl
    | succ i =>
      simp only [List.getElem?_cons_succ] at hx
      cases r with
      | nil => simp at hx
      | cons b r' =>
        have hb := hG b a hl.1
        have := ih b rfl hl.2 i x hx
        omega

/-- the repository guarantee used by the by-height fallback: a block whose predecessor is not in
    memory sits at or below the prune boundary, where no fork can attach (`ProcessHeader` only
    accepts a header whose predecessor is in memory), so if it is the best-chain block at its
    height for one read it still is for the next. -/
def PrunedFinal (E : Env) : Prop :=
  ∀ hist x h, (E hist).previousHash x = none →
    (E (hist ++ [.previousHash])).hashAt h = some x →
    (E (hist ++ [.previousHash] ++ [.hash])).hashAt h = some x

/-- loop invariant of the walk-back. -/
structure WalkInv (G : Tree) (proc : Id → Bool) (start : Nat) (last hash : Id) (height : Nat)
    (acc : List Id) : Prop where
  hgt : G.height hash = height
  head : acc.head? = some hash
  linked : Linked G acc
  last : acc.getLast? = some last
  fresh : ∀ x ∈ acc, proc x = false
  ge : start ≤ height

/-- what a plan computed under any interleaving satisfies. -/
structure PlanOK (G : Tree) (proc : Id → Bool) (start : Nat) (last : Id) (l : List Id) (f : Nat) : Prop where
  linked : Linked G l
  last : l.getLast? = some last
  fresh : ∀ x ∈ l, proc x = false
  head : ∃ hd, l.head? = some hd ∧ G.height hd = f ∧
    (f ≤ start ∨ ∃ p, G.parent hd = some p ∧ proc p = true)
  ge : start ≤ f

theorem walkInv_step (G : Tree) (hG : G.WF) (proc : Id → Bool) (start : Nat) (last hash prev : Id)
    (height : Nat) (acc : List Id) (hi : WalkInv G proc start last hash height acc)
    (hp : G.parent hash = some prev) (hpr : proc prev = false) (hst : start < height) :
    WalkInv G proc start last prev (height - 1) (prev :: acc) := by
  have hh := hG hash prev hp
  obtain ⟨tl, htl⟩ : ∃ tl, acc = hash :: tl := by
    cases acc with
    | nil => have := hi.head; simp at this
    | cons a tl => have := hi.head; simp at this; exact ⟨tl, by rw [this]⟩
  refine ⟨by have := hi.hgt; omega, rfl, ?_, ?_, ?_, by omega⟩
  · rw [htl]; exact linked_cons G prev hash tl hp (htl ▸ hi.linked)
  · rw [htl, List.getLast?_cons_cons]; exact htl ▸ hi.last
  · intro x hx
    simp only [List.mem_cons] at hx
    rcases hx with rfl | hx
    · exact hpr
    · exact hi.fresh x hx

theorem walkE_ok (G : Tree) (hG : G.WF) (E : Env) (hE : ∀ hist, (E hist).Cons G)
    (hF : PrunedFinal E) (proc : Id → Bool) (start : Nat) (last : Id) :
    ∀ (fuel : Nat) (hist : List Call) (hash : Id) (height : Nat) (acc l : List Id) (f : Nat)
      (hist' : List Call),
      WalkInv G proc start last hash height acc →
      walkE E proc start fuel hist hash height acc = (.plan l f, hist') →
      PlanOK G proc start last l f := by
  intro fuel
  induction fuel with
  | zero => intro hist hash height acc l f hist' _ hw; simp [walkE] at hw
  | succ fuel ih =>
    intro hist hash height acc l f hist' hi hw
    unfold walkE at hw
    simp only [cmpOp_stop, decide_eq_true_eq] at hw
    have stopOK : ∀ (q : Option Id), (height ≤ start ∨ ∃ p, q = some p ∧ G.parent hash = some p ∧ proc p = true) →
        PlanOK G proc start last acc height := by
      intro q hq
      refine ⟨hi.linked, hi.last, hi.fresh, ⟨hash, hi.head, hi.hgt, ?_⟩, hi.ge⟩
      rcases hq with hq | ⟨p, _, h1, h2⟩
      · exact Or.inl hq
      · exact Or.inr ⟨p, h1, h2⟩
    by_cases hst : height ≤ start
    · simp only [hst, ↓reduceIte, Prod.mk.injEq, PlanRes.plan.injEq] at hw
      obtain ⟨⟨rfl, rfl⟩, _⟩ := hw
      exact stopOK none (Or.inl hst)
    · simp only [hst, ↓reduceIte] at hw
      cases hph : (E hist).previousHash hash with
      | some prev =>
        rw [hph] at hw
        simp only at hw
        have hp := previousHash_cons G _ (hE hist) hash prev hph
        by_cases hpr : proc prev = true
        · simp only [hpr, ↓reduceIte, Prod.mk.injEq, PlanRes.plan.injEq] at hw
          obtain ⟨⟨rfl, rfl⟩, _⟩ := hw
          exact stopOK (some prev) (Or.inr ⟨prev, rfl, hp, hpr⟩)
        · have hpr' : proc prev = false := by simpa using hpr
          simp only [hpr', Bool.false_eq_true, ↓reduceIte] at hw
          exact ih _ _ _ _ _ _ _ (walkInv_step G hG proc start last hash prev height acc hi hp hpr' (by omega)) hw
      | none =>
        rw [hph] at hw
        simp only at hw
        cases hc : (E (hist ++ [Call.previousHash])).hashAt height with
        | none => rw [hc] at hw; simp at hw
        | some cur =>
          rw [hc] at hw
          simp only at hw
          by_cases hcur : cur = hash
          · subst hcur
            simp only [ne_eq, not_true_eq_false, ↓reduceIte] at hw
            cases hq : (E (hist ++ [Call.previousHash] ++ [Call.hash])).hashAt (height - 1) with
            | none => rw [hq] at hw; simp at hw
            | some prev =>
              rw [hq] at hw
              simp only at hw
              -- the block is still the best-chain block at its height for the second by-height read
              have hstill := hF hist cur height hph hc
              have hp : G.parent cur = some prev := by
                have hc3 := hE (hist ++ [Call.previousHash] ++ [Call.hash])
                apply hc3.chainLink (height - 1) prev cur hq
                have : height - 1 + 1 = height := by omega
                rw [this]; exact hstill
              by_cases hpr : proc prev = true
              · simp only [hpr, ↓reduceIte, Prod.mk.injEq, PlanRes.plan.injEq] at hw
                obtain ⟨⟨rfl, rfl⟩, _⟩ := hw
                exact stopOK (some prev) (Or.inr ⟨prev, rfl, hp, hpr⟩)
              · have hpr' : proc prev = false := by simpa using hpr
                simp only [hpr', Bool.false_eq_true, ↓reduceIte] at hw
                exact ih _ _ _ _ _ _ _ (walkInv_step G hG proc start last cur prev height acc hi hp hpr' (by omega)) hw
          · simp [hcur] at hw

theorem planResE_ok (G : Tree) (hG : G.WF) (E : Env) (hE : ∀ hist, (E hist).Cons G)
    (hF : PrunedFinal E) (proc : Id → Bool) (start : Nat) (l : List Id) (f : Nat) (hist' : List Call)
    (h : planResE E proc start = (.plan l f, hist')) :
    ∃ last, (E []).lastHash = some last ∧ PlanOK G proc start last l f := by
  unfold planResE at h
  cases hl : (E []).lastHash with
  | none => rw [hl] at h; simp at h
  | some last =>
    rw [hl] at h
    simp only at h
    cases hh : (E [Call.lastHash]).hashHeight last with
    | none => rw [hh] at h; simp at h
    | some lastHeight =>
      rw [hh] at h
      simp only [cmpOp_guard, decide_eq_true_eq] at h
      by_cases h1 : lastHeight < start
      · simp [h1] at h
      · simp only [h1, ↓reduceIte] at h
        by_cases h2 : proc last = true
        · simp [h2] at h
        · have h2' : proc last = false := by simpa using h2
          simp only [h2', Bool.false_eq_true, ↓reduceIte] at h
          refine ⟨last, rfl, walkE_ok G hG E hE hF proc start last _ _ _ _ _ _ _ _ ?_ h⟩
          refine ⟨hashHeight_cons G _ (hE _) last lastHeight hh, rfl, trivial, rfl, ?_, by omega⟩
          intro x hx
          simp only [List.mem_singleton] at hx
          subst hx; exact h2'

/-- with a repository that does not change during the walk-back the per-call semantics is the
    atomic one. -/
theorem walkE_const (v : View) (proc : Id → Bool) (start : Nat) :
    ∀ (fuel : Nat) (hist : List Call) (hash : Id) (height : Nat) (acc : List Id),
      (walkE (fun _ => v) proc start fuel hist hash height acc).1 = walk v proc start fuel hash height acc := by
  intro fuel
  induction fuel with
  | zero => intro hist hash height acc; rfl
  | succ fuel ih =>
    intro hist hash height acc
    unfold walkE walk prevOf
    split
    · rfl
    · cases v.previousHash hash with
      | some prev =>
        simp only
        split
        · rfl
        · exact ih _ _ _ _
      | none =>
        simp only
        cases v.hashAt height with
        | none => rfl
        | some cur =>
          simp only
          split
          · rfl
          · cases v.hashAt (height - 1) with
            | none => rfl
            | some prev =>
              simp only
              split
              · rfl
              · exact ih _ _ _ _

theorem planResE_const (v : View) (proc : Id → Bool) (start : Nat) :
    (planResE (fun _ => v) proc start).1 = planRes v proc start := by
  unfold planResE planRes
  cases v.lastHash with
  | none => rfl
  | some last =>
    simp only
    cases v.hashHeight last with
    | none => rfl
    | some lastHeight =>
      simp only
      split
      · rfl
      · split
        · rfl
        · exact walkE_const v proc start _ _ _ _ _

/-! ### the request-loop invariants for a round started from ANY plan outcome -/

/-- the (hash, height) requests a plan outcome stands for. -/
def PlanRes.reqList : PlanRes → List (Id × Nat)
  | .plan l f => withHeights l f
  | _ => []

theorem reqInv_startRoundWith (s : S) (r : PlanRes) : ReqInv r.reqList (startRoundWith s r) := by
  cases r with
  | plan l h0 =>
    cases l with
    | nil => simp [ReqInv, withHeights, startRoundWith, PlanRes.reqList]
    | cons x xs =>
      simp only [startRoundWith, PlanRes.reqList]
      apply reqInv_addRequest
      simp
  | noTip => simp [ReqInv, startRoundWith, PlanRes.reqList]
  | belowStart => simp [ReqInv, startRoundWith, PlanRes.reqList]
  | inSync => simp [ReqInv, startRoundWith, PlanRes.reqList]
  | lost => simp [ReqInv, startRoundWith, PlanRes.reqList]
  | errPrevHash => simp [ReqInv, startRoundWith, PlanRes.reqList]
  | fuelOut => simp [ReqInv, startRoundWith, PlanRes.reqList]

theorem noPanic_startRoundWith (s : S) (r : PlanRes) : NoPanic (startRoundWith s r) := by
  cases r with
  | plan l h0 =>
    cases l with
    | nil => simp [NoPanic, startRoundWith]
    | cons x xs => exact noPanic_addRequest _ _ _ _
  | noTip => simp [NoPanic, startRoundWith]
  | belowStart => simp [NoPanic, startRoundWith]
  | inSync => simp [NoPanic, startRoundWith]
  | lost => simp [NoPanic, startRoundWith]
  | errPrevHash => simp [NoPanic, startRoundWith]
  | fuelOut => simp [NoPanic, startRoundWith]

theorem procInv_startRoundWith (s : S) (r : PlanRes) : ProcInv s.processed (startRoundWith s r) := by
  cases r with
  | plan l h0 =>
    cases l with
    | nil => simp [ProcInv, startRoundWith]
    | cons x xs =>
      simp only [startRoundWith]
      apply procInv_addRequest
      simp
  | noTip => simp [ProcInv, startRoundWith]
  | belowStart => simp [ProcInv, startRoundWith]
  | inSync => simp [ProcInv, startRoundWith]
  | lost => simp [ProcInv, startRoundWith]
  | errPrevHash => simp [ProcInv, startRoundWith]
  | fuelOut => simp [ProcInv, startRoundWith]

end BRV.Sync
