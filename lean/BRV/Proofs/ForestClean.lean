/-
Clean (explicit or automatic) of a forest whose best branch is the root branch at the head of the list — no
reorganisation pending, so consolidation has nothing to do — keeps the tracked forest well linked
(`ForestOK`) and the tip maximal, whether the Clean succeeds or stops at any of its stages.  With this the
forest theorems that start from a Load hold across the automatic clean as well.
-/
import BRV.Proofs.ForestStep
import BRV.Proofs.RepoFiles

namespace BRV.Repo

theorem Linked.nodup (ar : Arena) (bs : List Nat) (h : Linked ar bs) : bs.Nodup := by
  induction h with
  | nil => exact List.nodup_nil
  | root bs bi b _ hn _ _ _ ih =>
    rw [List.nodup_append]
    exact ⟨ih, by simp, by intro a ha b hb; simp at hb; subst hb; intro e; subst e; exact hn ha⟩
  | child bs bi b p pb d _ hn _ _ _ _ _ _ _ ih =>
    rw [List.nodup_append]
    exact ⟨ih, by simp, by intro a ha b hb; simp at hb; subst hb; intro e; subst e; exact hn ha⟩

/-- the head of an accepted order is a root. -/
theorem Linked.head_root (ar : Arena) (x : Nat) (rest : List Nat) (h : Linked ar (x :: rest)) :
    ∃ b, ar[x]? = some b ∧ b.parent = none ∧ b.parentHeight = -1 := by
  have hpre := Linked.prefix ar (x :: rest) h [x] rest rfl
  generalize hl : [x] = l at hpre
  cases hpre with
  | nil => cases hl
  | root bs bi b _ _ hb hp hr =>
    have : bs = [] ∧ bi = x := by
      cases bs with
      | nil => simp at hl; exact ⟨rfl, hl.symm⟩
      | cons a t => simp at hl
    obtain ⟨rfl, rfl⟩ := this
    exact ⟨b, hb, hp, hr⟩
  | child bs bi b p pb d _ _ _ _ _ hpm _ _ _ =>
    have : bs = [] := by
      cases bs with
      | nil => rfl
      | cons a t => simp at hl
    subst this
    cases hpm

/-- what `Prune(P)` does to one branch: `c` headers gone from the front, the rest as it was. -/
theorem prunedBranch_form (P : Int) (b : Branch) (hne : b.headers ≠ []) :
    ∃ c : Nat, c < b.headers.length ∧ (prunedBranch P b).headers = b.headers.drop c ∧
      (prunedBranch P b).offset = b.offset + (c : Int) ∧ (prunedBranch P b).parent = b.parent ∧
      (prunedBranch P b).parentHeight = b.parentHeight ∧ (prunedBranch P b).first = b.first ∧
      (prunedBranch P b).hmap = (b.headers.take c).foldl (fun m d => HMap.del m d.hdr.id) b.hmap ∧
      (c = 0 ∨ (b.prunedLowest < P ∧ (c : Int) = P - b.prunedLowest)) := by
  have hL : 0 < b.headers.length := List.length_pos_iff.mpr hne
  unfold prunedBranch
  by_cases hp : b.prunedLowest < P
  · rw [if_pos hp]
    unfold pruneBranch
    by_cases hc : P - b.prunedLowest < 0 ∨ P - b.prunedLowest ≥ (b.headers.length : Int)
    · rw [if_pos hc]
      exact ⟨0, hL, by simp, by simp, rfl, rfl, rfl, by simp, Or.inl rfl⟩
    · rw [if_neg hc]
      obtain ⟨c, hcc⟩ : ∃ c : Nat, P - b.prunedLowest = (c : Int) := ⟨(P - b.prunedLowest).toNat, by omega⟩
      have htn : (P - b.prunedLowest).toNat = c := by omega
      refine ⟨c, by omega, ?_, ?_, rfl, rfl, rfl, ?_, Or.inr ⟨hp, hcc.symm⟩⟩
      · simp only [htn]
      · simp only; rw [hcc]
      · simp only [htn]
  · rw [if_neg hp]
    exact ⟨0, hL, by simp, by simp, rfl, rfl, rfl, by simp, Or.inl rfl⟩

/-- pruning a root branch keeps it sound. -/
theorem brCore_pruned (P : Int) (b : Branch) (hb : BrCore b) (hroot : b.parentHeight = -1) : BrCore (prunedBranch P b) := by
  obtain ⟨c, hc, h1, h2, h3, h4, h5, h6, _⟩ := prunedBranch_form P b hb.nonempty
  refine ⟨?_, ?_, by rw [h4]; exact hb.ph, by rw [h2]; have := hb.off; omega, ?_, ?_⟩
  · rw [h1]; intro hnil
    have := List.drop_eq_nil_iff.mp hnil
    omega
  · rw [h1]; exact internallyLinked_drop _ hb.linked c
  · intro hne; rw [h4] at hne; exact absurd hroot hne
  · intro id h hg
    rw [h6, get?_foldl_del] at hg
    split at hg
    · cases hg
    · rename_i hnot
      obtain ⟨d, hd, hid⟩ := hb.mapSound id h hg
      refine ⟨d, ?_, hid⟩
      rw [h1, h2, h4]
      unfold getI at hd ⊢
      split at hd
      · cases hd
      · rename_i hge
        have hidx : c ≤ (h - b.parentHeight - b.offset).toNat := by
          rcases Nat.lt_or_ge (h - b.parentHeight - b.offset).toNat c with hlt' | hge'
          · exfalso
            apply hnot
            refine ⟨d, ?_, hid⟩
            rw [List.mem_take_iff_getElem]
            have hlen : (h - b.parentHeight - b.offset).toNat < b.headers.length := by
              have := (List.getElem?_eq_some_iff.mp hd).1; exact this
            refine ⟨(h - b.parentHeight - b.offset).toNat, by omega, ?_⟩
            rw [List.getElem?_eq_getElem hlen] at hd
            exact Option.some.inj hd
          · exact hge'
        have hnn : ¬ (h - b.parentHeight - (b.offset + (c : Int)) < 0) := by omega
        simp only [hnn, ↓reduceIte]
        rw [List.getElem?_drop]
        have : c + (h - b.parentHeight - (b.offset + (c : Int))).toNat = (h - b.parentHeight - b.offset).toNat := by omega
        rw [this]; exact hd

/-- pruning the front of a tracked branch below every fork point on it keeps the acceptance order. -/
theorem Linked.prune_front (ar ar' : Arena) (bs : List Nat) (hl : Linked ar bs) (lg : Nat) (b b' : Branch) (c : Nat)
    (hb : ar[lg]? = some b) (hb' : ar'[lg]? = some b') (hoth : ∀ x, x ≠ lg → ar'[x]? = ar[x]?)
    (h1 : b'.parent = b.parent) (h2 : b'.parentHeight = b.parentHeight) (h3 : b'.first = b.first)
    (h4 : b'.offset = b.offset + (c : Int)) (h5 : b'.headers = b.headers.drop c)
    (hfork : ∀ x ∈ bs, ∀ xb, ar[x]? = some xb → xb.parent = some lg → b.parentHeight + b.offset + (c : Int) ≤ xb.parentHeight) :
    Linked ar' bs := by
  induction hl with
  | nil => exact .nil
  | root bs bi x _ hn hx hp hr ih =>
    have ih' := ih (fun y hy => hfork y (by simp [hy]))
    by_cases he : bi = lg
    · subst he
      rw [hb] at hx; cases hx
      exact .root bs bi b' ih' hn hb' (by rw [h1]; exact hp) (by rw [h2]; exact hr)
    · exact .root bs bi x ih' hn (by rw [hoth bi he]; exact hx) hp hr
  | child bs bi x p px d _ hn hx hne hp hpm hpx hd hid ih =>
    have ih' := ih (fun y hy => hfork y (by simp [hy]))
    have hparent : ∃ px', ar'[p]? = some px' ∧
        getI px'.headers (x.parentHeight - px'.parentHeight - px'.offset) = some d := by
      by_cases hpe : p = lg
      · have hpxb : px = b := by rw [hpe, hb] at hpx; exact (Option.some.inj hpx).symm
        rw [hpxb] at hd
        have hfk := hfork bi (by simp) x hx (by rw [hp, hpe])
        refine ⟨b', by rw [hpe]; exact hb', ?_⟩
        rw [h2, h4, h5]
        unfold getI at hd ⊢
        split at hd
        · cases hd
        · have hnn : ¬ (x.parentHeight - b.parentHeight - (b.offset + (c : Int)) < 0) := by omega
          simp only [hnn, ↓reduceIte]
          rw [List.getElem?_drop]
          have : c + (x.parentHeight - b.parentHeight - (b.offset + (c : Int))).toNat
              = (x.parentHeight - b.parentHeight - b.offset).toNat := by omega
          rw [this]; exact hd
      · exact ⟨px, by rw [hoth p hpe]; exact hpx, hd⟩
    obtain ⟨px', hpx', hd'⟩ := hparent
    by_cases he : bi = lg
    · subst he
      rw [hb] at hx; cases hx
      exact .child bs bi b' p px' d ih' hn hb' (by rw [h2]; exact hne) (by rw [h1]; exact hp) hpm hpx'
        (by rw [h2]; exact hd') (by rw [h3]; exact hid)
    · exact .child bs bi x p px' d ih' hn (by rw [hoth bi he]; exact hx) hne hp hpm hpx' hd' hid

/-- the best branch is the root branch that heads the list (no reorganisation is pending). -/
def RootFirst (r : Repo) : Prop :=
  ∃ others, r.branches = r.longest :: others ∧ (r.br r.longest).parentHeight = -1

theorem lastWork_pruned (ar ar' : Arena) (x : Nat) (P : Int) (b : Branch) (hb : ar[x]? = some b) (hne : b.headers ≠ [])
    (hb' : ar'[x]? = some (prunedBranch P b)) : lastWork ar' x = lastWork ar x := by
  obtain ⟨c, hc, h1, _⟩ := prunedBranch_form P b hne
  unfold lastWork
  rw [hb, hb']
  simp only [Option.bind_some, Branch.last?]
  rw [h1, List.getLast?_drop]
  have : ¬ (b.headers.length ≤ c) := by omega
  simp only [this, ↓reduceIte]

/-- **Clean of a root-best forest** — complete or stopped at any stage — keeps the forest well linked, the
    tracked list and the tip pointer, and the last accumulated work of every tracked branch. -/
theorem forestOK_cleanWith (r : Repo) (hf : ForestOK r) (hrf : RootFirst r) (depth : Int) (hd : 0 ≤ depth) :
    ForestOK (cleanWith r depth).1 ∧ (cleanWith r depth).1.branches = r.branches ∧
    (cleanWith r depth).1.longest = r.longest ∧
    (∀ x ∈ r.branches, lastWork (cleanWith r depth).1.arena x = lastWork r.arena x) ∧
    (∀ x, x ≠ r.longest → (cleanWith r depth).1.arena[x]? = r.arena[x]?) ∧
    (∃ (c : Nat) (b' : Branch), c < (r.br r.longest).headers.length ∧ (cleanWith r depth).1.arena[r.longest]? = some b' ∧
      b'.headers = (r.br r.longest).headers.drop c ∧ b'.offset = (r.br r.longest).offset + (c : Int) ∧
      b'.parentHeight = (r.br r.longest).parentHeight ∧
      b'.hmap = ((r.br r.longest).headers.take c).foldl (fun m d => HMap.del m d.hdr.id) (r.br r.longest).hmap) := by
  obtain ⟨others, hbl, hroot⟩ := hrf
  have hlgm0 : r.longest ∈ r.branches := by rw [hbl]; simp
  have hblg0 := br_of_lt r r.longest (hf.valid r.longest hlgm0)
  have hL0 : 0 < (r.br r.longest).headers.length := List.length_pos_iff.mpr (hf.ok r.longest hlgm0).nonempty
  have hcons : consolidate r = .ok r := by
    apply C10_consolidate_noop_aux
    rw [hbl]
    simp [List.find?_cons, hroot]
  have hsame : ∀ r' : Repo, r'.arena = r.arena → r'.branches = r.branches → r'.longest = r.longest →
      ForestOK r' ∧ r'.branches = r.branches ∧ r'.longest = r.longest ∧
      (∀ x ∈ r.branches, lastWork r'.arena x = lastWork r.arena x) ∧
      (∀ x, x ≠ r.longest → r'.arena[x]? = r.arena[x]?) ∧
      (∃ (c : Nat) (b' : Branch), c < (r.br r.longest).headers.length ∧ r'.arena[r.longest]? = some b' ∧
        b'.headers = (r.br r.longest).headers.drop c ∧ b'.offset = (r.br r.longest).offset + (c : Int) ∧
        b'.parentHeight = (r.br r.longest).parentHeight ∧
        b'.hmap = ((r.br r.longest).headers.take c).foldl (fun m d => HMap.del m d.hdr.id) (r.br r.longest).hmap) := by
    intro r' ha hb hl
    refine ⟨⟨?_, by rw [ha, hb]; exact hf.linked, by rw [ha, hb]; exact hf.valid, by rw [ha, hb]; exact hf.len⟩, hb, hl,
      fun x _ => by rw [ha], fun x _ => by rw [ha],
      ⟨0, r.br r.longest, hL0, by rw [ha]; exact hblg0, by simp, by simp, rfl, by simp⟩⟩
    intro bi hbi
    have : r'.br bi = r.br bi := by unfold Repo.br; rw [ha]
    rw [this]; exact hf.ok bi (hb ▸ hbi)
  unfold cleanWith
  rw [hcons]
  simp only
  cases hsm : saveMainBranch r with
  | error e => exact hsame r rfl rfl rfl
  | ok r2 =>
    simp only
    obtain ⟨f1, f2, f3, _, _, _⟩ := saveMain_frame r r2 hsm
    cases hpr : prune r2 depth with
    | error e => exact hsame r2 f1 f2 f3
    | ok r3 =>
      simp only
      -- the successful prune
      unfold prune at hpr
      rw [f2, hbl] at hpr
      simp only at hpr
      generalize hP : others.foldl (fun ph bi => if (r2.br bi).parentHeightFn < ph then (r2.br bi).parentHeightFn else ph)
        ((r2.br r2.longest).height - depth) = P at hpr
      cases hgo : prune.go P (r.longest :: others) r2 [] with
      | error e => rw [hgo] at hpr; cases hpr
      | ok res =>
        obtain ⟨r', nbs⟩ := res
        rw [hgo] at hpr
        simp only [Except.ok.injEq] at hpr
        have hnd : (r.longest :: others).Nodup := by rw [← hbl]; exact Linked.nodup _ _ hf.linked
        obtain ⟨g1, g2, g3, _, _, _, _⟩ := pruneGo_spec P (r.longest :: others) r2 [] r' nbs hnd hgo
        have hbr2 : ∀ y, r2.br y = r.br y := by intro y; unfold Repo.br; rw [f1]
        obtain ⟨hPle, hPoth⟩ := pruneHeight_spec (fun bi => (r2.br bi).parentHeightFn) others ((r2.br r2.longest).height - depth)
        rw [hP] at hPle hPoth
        rw [f3, hbr2] at hPle
        have hlgm : r.longest ∈ r.branches := by rw [hbl]; simp
        have hothm : ∀ x ∈ others, x ∈ r.branches := by intro x hx; rw [hbl]; simp [hx]
        have hothne : ∀ x ∈ others, x ≠ r.longest := by
          intro x hx e; subst e
          exact (List.nodup_cons.mp hnd).1 hx
        -- side branches are above the prune height
        have hside : ∀ x ∈ others, P < (r.br x).prunedLowest ∧ ¬ ((r.br x).height < P) := by
          intro x hx
          have h1 := hPoth x hx
          rw [hbr2] at h1
          have hne := (hf.ok x (hothm x hx)).nonempty
          have hL : 0 < (r.br x).headers.length := List.length_pos_iff.mpr hne
          unfold Branch.parentHeightFn at h1
          unfold Branch.prunedLowest Branch.height
          omega
        have hlgkeep : ¬ ((r.br r.longest).height < P) := by omega
        -- the tracked list is unchanged
        have hnbs : nbs = r.longest :: others := by
          rw [g2]
          simp only [List.nil_append]
          apply List.filter_eq_self.mpr
          intro x hx
          rw [hbr2]
          rcases List.mem_cons.mp hx with rfl | hx
          · simpa using hlgkeep
          · simpa using (hside x hx).2
        -- the arena: only the root may have lost headers
        have harena : ∀ x, x ≠ r.longest → r'.arena[x]? = r.arena[x]? := by
          intro x hx
          rw [g1 x, f1]
          cases hax : r.arena[x]? with
          | none => rfl
          | some b =>
            simp only [Option.map_some, Option.some.injEq]
            by_cases hxm : x ∈ r.longest :: others
            · have hxo : x ∈ others := by
                rcases List.mem_cons.mp hxm with h | h
                · exact absurd h hx
                · exact h
              have hbx : r.br x = b := by unfold Repo.br; rw [hax]; rfl
              have := (hside x hxo).1
              rw [hbx] at this
              have hkeep := (hside x hxo).2
              rw [hbx] at hkeep
              simp only [hxm, hkeep, not_false_eq_true, and_self, ↓reduceIte]
              unfold prunedBranch
              have : ¬ (b.prunedLowest < P) := by omega
              simp only [this, ↓reduceIte]
            · simp only [hxm, false_and, ↓reduceIte]
        have hlglt := hf.valid r.longest hlgm
        have hblg := br_of_lt r r.longest hlglt
        have harlg : r'.arena[r.longest]? = some (prunedBranch P (r.br r.longest)) := by
          rw [g1 r.longest, f1, hblg]
          simp only [Option.map_some, Option.some.injEq, List.mem_cons, true_or, hlgkeep, not_false_eq_true, and_self,
            ↓reduceIte]
        have hcore := hf.ok r.longest hlgm
        obtain ⟨c, hc, p1, p2, p3, p4, p5, p6, p7⟩ := prunedBranch_form P (r.br r.longest) hcore.nonempty
        have hlen' : r'.arena.length = r.arena.length := by
          -- same domain
          have : ∀ x : Nat, (r'.arena[x]?).isSome = (r.arena[x]?).isSome := by
            intro x
            by_cases hx : x = r.longest
            · rw [hx, harlg, hblg]; rfl
            · rw [harena x hx]
          apply Nat.le_antisymm
          · rcases Nat.lt_or_ge r.arena.length r'.arena.length with h | h
            · have h1 := this r.arena.length
              rw [List.getElem?_eq_getElem h, List.getElem?_eq_none (Nat.le_refl _)] at h1
              cases h1
            · exact h
          · rcases Nat.lt_or_ge r'.arena.length r.arena.length with h | h
            · have h1 := this r'.arena.length
              rw [List.getElem?_eq_getElem h, List.getElem?_eq_none (Nat.le_refl _)] at h1
              cases h1
            · exact h
        subst hpr
        refine ⟨⟨?_, ?_, ?_, ?_⟩, ?_, ?_, ?_, harena, ⟨c, _, hc, harlg, p1, p2, p4, p6⟩⟩
        · intro bi hbi
          show BrCore ((r'.arena[bi]?).getD default)
          have hbi' : bi ∈ r.branches := by rw [hbl, ← hnbs]; exact hbi
          by_cases he : bi = r.longest
          · subst he
            rw [harlg]
            exact brCore_pruned P _ hcore hroot
          · rw [harena bi he]
            exact hf.ok bi hbi'
        · show Linked r'.arena nbs
          rw [hnbs, ← hbl]
          apply Linked.prune_front r.arena r'.arena r.branches hf.linked r.longest (r.br r.longest)
            (prunedBranch P (r.br r.longest)) c hblg harlg harena p3 p4 p5 p2 p1
          intro x hx xb hxb hxp
          -- a child of the root is a side branch
          have hxo : x ∈ others := by
            rw [hbl] at hx
            rcases List.mem_cons.mp hx with h | h
            · subst h
              rw [hblg] at hxb; cases hxb
              -- the root has no parent
              obtain ⟨b0, hb0, hp0, _⟩ := Linked.head_root r.arena r.longest others (hbl ▸ hf.linked)
              rw [hblg] at hb0; cases hb0
              rw [hp0] at hxp; cases hxp
            · exact h
          have hbx : r.br x = xb := by unfold Repo.br; rw [hxb]; rfl
          have hs := (hside x hxo).1
          rw [hbx] at hs
          have hxcore := hf.ok x (hothm x hxo)
          rw [hbx] at hxcore
          have hxne : xb.parentHeight ≠ -1 := by
            intro h1
            -- a child's parent height is at least the parent's lowest height: not −1
            have hlk := hf.linked
            have : ∀ l, Linked r.arena l → x ∈ l → False := by
              intro l hl
              induction hl with
              | nil => intro h; cases h
              | root bs bi b _ _ hb' hp' _ ih =>
                intro hm
                simp only [List.mem_append, List.mem_singleton] at hm
                rcases hm with hm | rfl
                · exact ih hm
                · rw [hxb] at hb'; cases hb'; rw [hxp] at hp'; cases hp'
              | child bs bi b p pb d _ _ hb' hne' _ _ _ _ _ ih =>
                intro hm
                simp only [List.mem_append, List.mem_singleton] at hm
                rcases hm with hm | rfl
                · exact ih hm
                · rw [hxb] at hb'; cases hb'; exact hne' h1
            exact this r.branches hlk hx
          have hxoff := (hxcore.side hxne).1
          unfold Branch.prunedLowest at hs
          rcases p7 with h0 | ⟨_, hcP⟩
          · subst h0
            -- nothing pruned: the fork header is held, so it is not below the lowest height
            have hlk := hf.linked
            have : ∀ l, Linked r.arena l → x ∈ l →
                (r.br r.longest).parentHeight + (r.br r.longest).offset ≤ xb.parentHeight := by
              intro l hl
              induction hl with
              | nil => intro h; cases h
              | root bs bi b _ _ hb' hp' _ ih =>
                intro hm
                simp only [List.mem_append, List.mem_singleton] at hm
                rcases hm with hm | rfl
                · exact ih hm
                · rw [hxb] at hb'; cases hb'; rw [hxp] at hp'; cases hp'
              | child bs bi b p pb d _ _ hb' _ hp' _ hpb hd' _ ih =>
                intro hm
                simp only [List.mem_append, List.mem_singleton] at hm
                rcases hm with hm | rfl
                · exact ih hm
                · rw [hxb] at hb'; cases hb'
                  rw [hxp] at hp'; cases hp'
                  rw [hblg] at hpb; cases hpb
                  obtain ⟨h0, _⟩ := getI_some_range _ _ _ hd'
                  omega
            have := this r.branches hlk hx
            simpa using this
          · unfold Branch.prunedLowest at hcP
            omega
        · intro bi hbi
          show bi < r'.arena.length
          rw [hlen']
          exact hf.valid bi (by rw [hbl, ← hnbs]; exact hbi)
        · show nbs.length ≤ r'.arena.length
          rw [hnbs, ← hbl, hlen']; exact hf.len
        · show nbs = r.branches
          rw [hnbs, hbl]
        · show r'.longest = r.longest
          rw [g3, f3]
        · intro x hx
          show lastWork r'.arena x = lastWork r.arena x
          by_cases he : x = r.longest
          · rw [he]
            exact lastWork_pruned r.arena r'.arena r.longest P _ hblg hcore.nonempty harlg
          · unfold lastWork; rw [harena x he]

/-! ### submissions, with the automatic clean -/

/-- the state a submission produces BEFORE the automatic clean (if one is due) runs. -/
def midState (r : Repo) (h : Hdr) (ok : Bool) : Repo :=
  match precheck r h ok with
  | .inl _ => r
  | .inr (pb, ph, lst) =>
    if lst.hdr.id ≠ h.prev then (forkHeader r h pb ph).1
    else
      match Work.blockWork h.bits with
      | none => r
      | some w =>
        match (if pb ≠ (addToBranch r h pb ph lst w).longest then reselect (addToBranch r h pb ph lst w)
               else .ok (addToBranch r h pb ph lst w, false, [])) with
        | .error x => x.1
        | .ok (r2, _, _) => r2

/-- a submission ends in its pre-clean state, or in what Clean (with the production depth) makes of it. -/
theorem processHeader_mid (r : Repo) (h : Hdr) (ok : Bool) :
    (processHeader r h ok).1 = midState r h ok ∨
    (processHeader r h ok).1 = (cleanWith (midState r h ok) (Facts.pruneDepth : Int)).1 := by
  unfold midState
  cases hpc : precheck r h ok with
  | inl v => left; rw [processHeader_of_inl r h ok v hpc]
  | inr x =>
    obtain ⟨pb, ph, lst⟩ := x
    rw [processHeader_of_inr r h ok pb ph lst hpc]
    simp only
    unfold applyHeader
    by_cases hf : lst.hdr.id ≠ h.prev
    · simp only [hf, ne_eq, not_false_eq_true, ↓reduceIte]; left; trivial
    · simp only [hf, ↓reduceIte]
      unfold extendHeader
      cases hw : Work.blockWork h.bits with
      | none => left; rfl
      | some w =>
        simp only
        generalize (if pb ≠ (addToBranch r h pb ph lst w).longest then reselect (addToBranch r h pb ph lst w)
          else Except.ok (addToBranch r h pb ph lst w, false, [])) = sw
        cases sw with
        | error x => left; rfl
        | ok y =>
          obtain ⟨r2, sent, evs⟩ := y
          simp only
          split
          · split
            · right; rfl
            · left; rfl
          · left; rfl

/-- the pre-clean state is one of the three shapes — with no hypothesis about the automatic clean. -/
theorem midState_shape (r : Repo) (h : Hdr) (ok : Bool) : Shape r h ok (midState r h ok) := by
  unfold midState
  cases hpc : precheck r h ok with
  | inl v => exact .same rfl rfl rfl
  | inr x =>
    obtain ⟨pb, ph, lst⟩ := x
    have hpass := precheck_inr r h ok pb ph lst hpc
    simp only
    by_cases hf : lst.hdr.id ≠ h.prev
    · rw [if_pos hf]
      exact forkHeader_shape r h ok pb ph lst hpass hf
    · rw [if_neg hf]
      have hprev : lst.hdr.id = h.prev := Decidable.not_not.mp hf
      cases hbw : Work.blockWork h.bits with
      | none => exact .same rfl rfl rfl
      | some w =>
        simp only
        have hlast := hpass.lastIs
        have hlen : pb < r.arena.length := by
          unfold Repo.lastOf Repo.br Branch.last? at hlast
          by_cases hc : pb < r.arena.length
          · exact hc
          · rw [List.getElem?_eq_none (by omega)] at hlast
            simp only [Option.getD_none] at hlast
            cases hlast
        have harena := addToBranch_arena r h pb ph lst w
        have hbranches : (addToBranch r h pb ph lst w).branches = r.branches := rfl
        have hheights : (addToBranch r h pb ph lst w).heights = r.heights.set h.id (ph + 1) := rfl
        by_cases hpl : pb ≠ (addToBranch r h pb ph lst w).longest
        · rw [if_pos hpl]
          generalize hr : reselect (addToBranch r h pb ph lst w) = res
          cases res with
          | error x =>
            obtain ⟨r2, o⟩ := x
            exact .extend pb ph lst w hpass hprev hlen hbw (by simp only; rw [reselect_error_arena _ _ _ hr]; exact harena)
              (by simp only; rw [reselect_error_branches _ _ _ hr]; exact hbranches)
              (by simp only; rw [reselect_error_heights _ _ _ hr]; exact hheights)
          | ok y =>
            obtain ⟨r2, s, evs⟩ := y
            exact .extend pb ph lst w hpass hprev hlen hbw (by simp only; rw [reselect_ok_arena _ _ _ _ hr]; exact harena)
              (by simp only; rw [reselect_ok_branches _ _ _ _ hr]; exact hbranches)
              (by simp only; rw [reselect_ok_heights _ _ _ _ hr]; exact hheights)
        · rw [if_neg hpl]
          exact .extend pb ph lst w hpass hprev hlen hbw harena hbranches hheights

/-- one submission keeps the forest well linked — `forestOK_processHeader` without the no-clean hypothesis:
    the shape argument applies to the pre-clean state. -/
theorem forestOK_midState (r : Repo) (h : Hdr) (ok : Bool) (hf : ForestOK r) : ForestOK (midState r h ok) := by
  have hshape := midState_shape r h ok
  -- same argument as `forestOK_processHeader`, which only uses the shape
  exact forestOK_of_shape r h ok hf (midState r h ok) hshape

/-- whenever the automatic clean runs, the best branch is the root branch heading the list. -/
def CleanRootFirst (r : Repo) (h : Hdr) (ok : Bool) : Prop :=
  (processHeader r h ok).1 ≠ midState r h ok → RootFirst (midState r h ok)

/-- **one submission, automatic clean included, keeps the forest well linked.** -/
theorem forestOK_processHeader_clean (r : Repo) (h : Hdr) (ok : Bool) (hf : ForestOK r) (hc : CleanRootFirst r h ok) :
    ForestOK (processHeader r h ok).1 := by
  have hm := forestOK_midState r h ok hf
  rcases processHeader_mid r h ok with he | he
  · rw [he]; exact hm
  · by_cases hne : (processHeader r h ok).1 = midState r h ok
    · rw [hne]; exact hm
    · rw [he]
      exact (forestOK_cleanWith _ hm (hc hne) _ (by decide)).1

/-! ### Save of a root-best forest -/

theorem saveBranchesGo_frame : ∀ (bs : List Nat) (r r' : Repo), saveBranches.go bs r = .ok r' →
    r'.arena = r.arena ∧ r'.branches = r.branches ∧ r'.longest = r.longest := by
  intro bs
  induction bs with
  | nil => intro r r' h; simp only [saveBranches.go, Except.ok.injEq] at h; subst h; exact ⟨rfl, rfl, rfl⟩
  | cons bi rest ih =>
    intro r r' h
    simp only [saveBranches.go] at h
    cases hbs : branchSave r (r.br bi) with
    | error e => rw [hbs] at h; cases h
    | ok r1 =>
      rw [hbs] at h
      obtain ⟨a1, a2, a3, _⟩ := branchSave_frame r r1 _ hbs
      obtain ⟨b1, b2, b3⟩ := ih r1 r' h
      exact ⟨by rw [b1, a1], by rw [b2, a2], by rw [b3, a3]⟩

/-- **Save of a forest with no reorganisation pending** — complete or failed at any stage — touches storage
    only: arena, tracked list and tip pointer are unchanged. -/
theorem save_frame_rootFirst (r : Repo) (hrf : RootFirst r) :
    (save r).1.arena = r.arena ∧ (save r).1.branches = r.branches ∧ (save r).1.longest = r.longest := by
  obtain ⟨others, hbl, hroot⟩ := hrf
  have hcons : consolidate r = .ok r := by
    apply C10_consolidate_noop_aux
    rw [hbl]
    simp [hroot]
  unfold save
  rw [hcons]
  simp only
  cases hsm : saveMainBranch r with
  | error e => exact ⟨rfl, rfl, rfl⟩
  | ok r1 =>
    simp only
    obtain ⟨f1, f2, f3, _⟩ := saveMain_frame r r1 hsm
    unfold saveBranches
    cases hgo : saveBranches.go r1.branches r1 with
    | error e => simp only; exact ⟨f1, f2, f3⟩
    | ok r2 =>
      simp only
      obtain ⟨g1, g2, g3⟩ := saveBranchesGo_frame _ _ _ hgo
      exact ⟨by show r2.arena = _; rw [g1, f1], by show r2.branches = _; rw [g2, f2], by show r2.longest = _; rw [g3, f3]⟩

theorem forestOK_of_frame (r r' : Repo) (hf : ForestOK r) (ha : r'.arena = r.arena) (hb : r'.branches = r.branches) :
    ForestOK r' := by
  refine ⟨?_, by rw [ha, hb]; exact hf.linked, by rw [ha, hb]; exact hf.valid, by rw [ha, hb]; exact hf.len⟩
  intro bi hbi
  have : r'.br bi = r.br bi := by unfold Repo.br; rw [ha]
  rw [this]; exact hf.ok bi (hb ▸ hbi)

end BRV.Repo
