/-
Count-driven handlers (inv, headers): a payload whose list is as long as its count announces is
consumed item by item to exactly its end.
-/
import BRV.Proofs.NodeFrame

namespace BRV.Wire
open BRV BRV.Node BRV.Spec

theorem readN_append' (k : Nat) (a b : Bytes) (h : a.length = k) : readN k (a ++ b) = .ok a b := by
  unfold readN
  have : ¬ (a ++ b).length < k := by simp [h]
  simp only [this, ↓reduceIte, List.take_left' h, List.drop_left' h]

theorem readLE_leN' (k n : Nat) (b : Bytes) (h : n < 256 ^ k) : readLE k (leN k n ++ b) = .ok n b := by
  unfold readLE
  rw [readN_append' k _ _ (leN_length k n)]
  simp only [leVal_leN k n h]

/-- `ReadVarInt` reads back what `WriteVarInt` wrote (canonical encodings are accepted). -/
theorem readVarInt_enc (k : Nat) (x : Bytes) (hk : k < 2 ^ 64) : readVarInt (varIntEnc k ++ x) = .ok k x := by
  unfold varIntEnc
  by_cases h1 : k < 0xfd
  · simp only [h1, ↓reduceIte, List.cons_append, List.nil_append, readVarInt]
    have : k % 256 = k := Nat.mod_eq_of_lt (by omega)
    simp only [this, h1, ↓reduceIte]
  · by_cases h2 : k < 0x10000
    · simp only [h1, h2, ↓reduceIte, List.cons_append, readVarInt]
      have e1 : ¬ (0xfd % 256 < 0xfd) := by decide
      have e2 : (0xfd % 256 = 0xfd) := by decide
      simp only [e1, e2, ↓reduceIte]
      rw [readLE_leN' 2 k x (by simpa using h2)]
      simp only [h1, ↓reduceIte]
    · by_cases h3 : k < 0x100000000
      · simp only [h1, h2, h3, ↓reduceIte, List.cons_append, readVarInt]
        have e1 : ¬ (0xfe % 256 < 0xfd) := by decide
        have e2 : ¬ (0xfe % 256 = 0xfd) := by decide
        have e3 : (0xfe % 256 = 0xfe) := by decide
        simp only [e1, e2, e3, ↓reduceIte]
        rw [readLE_leN' 4 k x (by simpa using h3)]
        simp only [h2, ↓reduceIte]
      · simp only [h1, h2, h3, ↓reduceIte, List.cons_append, readVarInt]
        have e1 : ¬ (0xff % 256 < 0xfd) := by decide
        have e2 : ¬ (0xff % 256 = 0xfd) := by decide
        have e3 : ¬ (0xff % 256 = 0xfe) := by decide
        simp only [e1, e2, e3, ↓reduceIte]
        have h8 : k < 256 ^ 8 := by simp only [Nat.reducePow] at hk ⊢; exact hk
        rw [readLE_leN' 8 k x h8]
        simp only [h3, ↓reduceIte]

theorem items_flatten_length (size k : Nat) (l : List Bytes) (h : items size k l) : l.flatten.length = size * k := by
  induction k generalizing l with
  | zero => simp only [items] at h; subst h; simp
  | succ k ih =>
    simp only [items] at h
    obtain ⟨x, r, rfl, hx, hr⟩ := h
    simp only [List.flatten_cons, List.length_append, hx, ih r hr]
    rw [Nat.mul_succ]; omega

/-- the inventory loop over `k` whole items ends normally having read `36·k` bytes. -/
theorem invLoop_exact (k : Nat) (its : List Bytes) (hit : items 36 k its) (rest : Bytes) :
    ∀ (s : State) (used : Nat) (fx : List Effect) (pending : Nat),
      (invLoop s k (its.flatten ++ rest) used fx pending).res = .ok ∧
      (invLoop s k (its.flatten ++ rest) used fx pending).used = used + 36 * k := by
  induction k generalizing its with
  | zero => intro s used fx pending; unfold invLoop; exact ⟨rfl, rfl⟩
  | succ k ih =>
    intro s used fx pending
    simp only [items] at hit
    obtain ⟨x, r, rfl, hx, hr⟩ := hit
    unfold invLoop
    simp only [List.flatten_cons, List.append_assoc]
    rw [readN_append' 36 x _ hx]
    simp only []
    have hk : used + 36 + 36 * k = used + 36 * (k + 1) := by omega
    split
    · rw [← hk]; exact ih r hr _ _ _ _
    · split
      · rw [← hk]; exact ih r hr _ _ _ _
      · split <;> (rw [← hk]; exact ih r hr _ _ _ _)

/-- `handleInventory` on a well-formed inventory payload followed by anything. -/
theorem hInventory_exact (s : State) (p rest : Bytes) (hp : wfInv p) :
    (hInventory s (p ++ rest)).res = .ok ∧ (hInventory s (p ++ rest)).used = p.length := by
  obtain ⟨k, its, hk, hit, rfl⟩ := hp
  unfold hInventory
  rw [List.append_assoc, readVarInt_enc k _ hk]
  simp only []
  have hlen : (its.flatten ++ rest).length = 36 * k + rest.length := by
    rw [List.length_append, items_flatten_length 36 k its hit]
  have hmin : min k ((its.flatten ++ rest).length / 36 + 1) = k := by
    rw [hlen]
    apply Nat.min_eq_left
    have : k ≤ (36 * k + rest.length) / 36 := by
      rw [Nat.le_div_iff_mul_le (by decide)]; omega
    omega
  rw [hmin]
  have := invLoop_exact k its hit rest s
    ((varIntEnc k ++ (its.flatten ++ rest)).length - (its.flatten ++ rest).length) [] 0
  refine ⟨this.1, ?_⟩
  rw [this.2]
  simp only [List.length_append, items_flatten_length 36 k its hit]
  omega

/-- 81-byte header records. -/
theorem readHeaderItem_append (h x : Bytes) (hh : h.length = 80) :
    readHeaderItem (h ++ [0] ++ x) = .ok (h, 0) x := by
  unfold readHeaderItem
  rw [List.append_assoc, readN_append' 80 h _ hh]
  simp only [List.cons_append, List.nil_append, readVarInt]
  simp

/-- the header loop over `k` whole records ends normally after `81·k` bytes, or stops the node
    (a header the repository rejects). -/
theorem trackLoop_exact (e : Env) (s : State) (k : Nat) (hs : List Bytes) (hit : items 80 k hs) (rest : Bytes) :
    ∀ (used : Nat) (fx : List Effect),
      let o := trackLoop e s k ((hs.map (· ++ [0])).flatten ++ rest) used fx
      (o.res = .ok ∨ o.res = .stop) ∧ o.used ≤ used + 81 * k ∧ (o.res = .ok → o.used = used + 81 * k) := by
  induction k generalizing hs with
  | zero =>
    intro used fx
    unfold trackLoop
    exact ⟨Or.inl rfl, Nat.le_refl _, fun _ => rfl⟩
  | succ k ih =>
    intro used fx
    simp only [items] at hit
    obtain ⟨x, r, rfl, hx, hr⟩ := hit
    unfold trackLoop
    simp only [List.map_cons, List.flatten_cons, List.append_assoc]
    have hrd := readHeaderItem_append x ((r.map (· ++ [0])).flatten ++ rest) hx
    simp only [List.append_assoc] at hrd
    rw [hrd]
    simp only [ne_eq, not_true_eq_false, ↓reduceIte]
    have hlen : (x ++ ([0] ++ ((r.map (· ++ [0])).flatten ++ rest))).length -
        ((r.map (· ++ [0])).flatten ++ rest).length = 81 := by
      simp only [List.length_append, hx, List.length_cons, List.length_nil]; omega
    rw [hlen]
    split
    · have := ih r hr (used + 81) (fx ++ [Effect.processHeader (hdrNonce x)])
      simp only [] at this
      refine ⟨this.1, by omega, fun h => by have := this.2.2 h; omega⟩
    · exact ⟨Or.inr rfl, by simp only []; omega, fun h => by cases h⟩

end BRV.Wire
