/-
The order-of-acceptance invariant (`Linked`, Proofs/LoadSound.lean) is preserved by `ProcessHeader`:
from ANY state in which the tracked branches are well linked in that sense — in particular any state
Load builds from a consistent storage image, with a pruned root, stale arena entries and parents that
come later in the arena than their children — every history of submissions leaves the best chain a
linked chain (automatic clean not due).  This lifts the best-chain theorems from "histories from
genesis" to "histories from any loaded state".
-/
import BRV.Proofs.LoadSound
import BRV.Proofs.RepoShape

namespace BRV.Repo

/-- the tracked part of the forest is well linked in acceptance order. -/
structure ForestOK (r : Repo) : Prop where
  ok : ∀ bi ∈ r.branches, BrCore (r.br bi)
  linked : Linked r.arena r.branches
  valid : ∀ bi ∈ r.branches, bi < r.arena.length
  len : r.branches.length ≤ r.arena.length

theorem LoadedOK.forest {st : Store} {r : Repo} (h : LoadedOK st r) : ForestOK r :=
  ⟨fun bi hbi => (h.ok bi _ (br_of_lt r bi (h.valid bi hbi))).core, h.linked, h.valid, h.len⟩

theorem getI_append_left {α : Type} (l t : List α) (i : Int) (a : α) (h : getI l i = some a) : getI (l ++ t) i = some a := by
  unfold getI at h ⊢
  split at h
  · cases h
  · rename_i hi
    simp only [hi, ↓reduceIte]
    have := (List.getElem?_eq_some_iff.mp h).1
    rw [List.getElem?_append_left this]; exact h

/-- appending headers to the tip of a tracked branch keeps the acceptance order. -/
theorem Linked.extend_tip (ar : Arena) (bs : List Nat) (hl : Linked ar bs) (pb : Nat) (b b' : Branch)
    (hb : ar[pb]? = some b) (h1 : b'.parent = b.parent) (h2 : b'.parentHeight = b.parentHeight) (h3 : b'.first = b.first)
    (h4 : b'.offset = b.offset) (t : List HData) (h5 : b'.headers = b.headers ++ t) : Linked (ar.set pb b') bs := by
  have hlt : pb < ar.length := by
    by_cases hc : pb < ar.length
    · exact hc
    · rw [List.getElem?_eq_none (by omega)] at hb; cases hb
  induction hl with
  | nil => exact .nil
  | root bs bi x _ hn hx hp hr ih =>
    by_cases he : bi = pb
    · subst he
      rw [hb] at hx; cases hx
      exact .root bs bi b' ih hn (List.getElem?_set_self hlt) (by rw [h1]; exact hp) (by rw [h2]; exact hr)
    · exact .root bs bi x ih hn (by rw [List.getElem?_set_ne (Ne.symm he)]; exact hx) hp hr
  | child bs bi x p px d _ hn hx hne hp hpm hpx hd hid ih =>
    -- the parent entry after the update
    have hparent : ∃ px', (ar.set pb b')[p]? = some px' ∧ px'.parentHeight = px.parentHeight ∧ px'.offset = px.offset ∧
        ∀ i a, getI px.headers i = some a → getI px'.headers i = some a := by
      by_cases hpe : p = pb
      · subst hpe
        rw [hb] at hpx; cases hpx
        exact ⟨b', List.getElem?_set_self hlt, h2, h4, fun i a hia => by rw [h5]; exact getI_append_left _ _ _ _ hia⟩
      · exact ⟨px, by rw [List.getElem?_set_ne (Ne.symm hpe)]; exact hpx, rfl, rfl, fun i a hia => hia⟩
    obtain ⟨px', hpx', e1, e2, hget⟩ := hparent
    by_cases he : bi = pb
    · subst he
      rw [hb] at hx; cases hx
      refine .child bs bi b' p px' d ih hn (List.getElem?_set_self hlt) (by rw [h2]; exact hne) (by rw [h1]; exact hp)
        hpm hpx' ?_ (by rw [h3]; exact hid)
      rw [h2, e1, e2]; exact hget _ _ hd
    · refine .child bs bi x p px' d ih hn (by rw [List.getElem?_set_ne (Ne.symm he)]; exact hx) hne hp hpm hpx' ?_ hid
      rw [e1, e2]; exact hget _ _ hd

theorem branchesFind_owner' (r : Repo) (hf : ForestOK r) (id : Nat) (pb : Nat) (ph : Int)
    (h : r.branchesFind id = some (pb, ph)) :
    pb ∈ r.branches ∧ ∃ d, getI (r.br pb).headers (ph - (r.br pb).parentHeight - (r.br pb).offset) = some d ∧ d.hdr.id = id := by
  obtain ⟨hm, cb, hcb, hget⟩ := find_owner r hf.linked hf.valid id pb ph h
  have hbr : cb = r.br pb := by
    have := br_of_lt r pb (hf.valid pb hm)
    rw [hcb] at this; exact Option.some.inj this
  subst hbr
  exact ⟨hm, (hf.ok pb hm).mapSound id ph hget⟩

theorem br_set_self (r : Repo) (ar : Arena) (pb : Nat) (b : Branch) (hlt : pb < r.arena.length) (ha : ar = r.arena.set pb b) :
    (ar[pb]?.getD default) = b := by
  rw [ha, List.getElem?_set_self hlt]; rfl

/-- a state of one of the three shapes a submission can produce is well linked again. -/
theorem forestOK_of_shape (r : Repo) (h : Hdr) (ok : Bool) (hf : ForestOK r) (r' : Repo) (hshape : Shape r h ok r') :
    ForestOK r' := by
  cases hshape with
  | same ha hb hh =>
    refine ⟨?_, by rw [ha, hb]; exact hf.linked, by rw [ha, hb]; exact hf.valid, by rw [ha, hb]; exact hf.len⟩
    intro bi hbi
    have : r'.br bi = r.br bi := by unfold Repo.br; rw [ha]
    rw [this]; exact hf.ok bi (hb ▸ hbi)
  | fork pb ph lst nb hp hne hn ha hb hh =>
    obtain ⟨lst', w, hat, hlid, hnb⟩ := newBranch_ok_shape r pb ph h nb hn
    obtain ⟨hpm, d, hd, hdid⟩ := branchesFind_owner' r hf h.prev pb ph hp.parent
    have hplt := hf.valid pb hpm
    obtain ⟨hi0, _⟩ := getI_some_range _ _ _ hd
    have hpo := hf.ok pb hpm
    have hph0 : ph ≠ -1 := by have := hpo.ph; have := hpo.off; omega
    have hnew : r.arena.length ∉ r.branches := fun hm => by have := hf.valid _ hm; omega
    have hold : ∀ x, x < r.arena.length → (r.arena ++ [nb])[x]? = r.arena[x]? := fun x hx => List.getElem?_append_left hx
    have hnbi : (r.arena ++ [nb])[r.arena.length]? = some nb := by simp
    have hbr_old : ∀ x, x < r.arena.length → r'.br x = r.br x := by
      intro x hx; unfold Repo.br; rw [ha, hold x hx]
    have hbr_new : r'.br r.arena.length = nb := by unfold Repo.br; rw [ha, hnbi]; rfl
    refine ⟨?_, ?_, ?_, ?_⟩
    · intro bi hbi
      rw [hb] at hbi
      simp only [List.mem_append, List.mem_singleton] at hbi
      rcases hbi with hbi | rfl
      · rw [hbr_old bi (hf.valid bi hbi)]; exact hf.ok bi hbi
      · rw [hbr_new, hnb]
        refine ⟨by simp, trivial, (by simp only; have := hpo.ph; have := hpo.off; omega), by simp, ?_, ?_⟩
        · intro _; exact ⟨rfl, by intro d hd; simp only [List.head?_cons, Option.some.injEq] at hd; rw [← hd]⟩
        · intro id hh hg
          simp only [HMap.get?, List.lookup] at hg
          split at hg
          · rename_i heq
            simp only [Option.some.injEq] at hg
            subst hg
            refine ⟨{ hdr := h, work := lst'.work + w }, ?_, ?_⟩
            · have : ph + 1 - ph - 1 = 0 := by omega
              simp only [this]; rfl
            · have e : id = h.id := by simpa using heq
              exact e.symm
          · cases hg
    · rw [ha, hb]
      refine Linked.child r.branches r.arena.length nb pb (r.br pb) d ?_ hnew hnbi ?_ ?_ hpm ?_ ?_ ?_
      · exact Linked.congr r.arena _ r.branches hf.linked (fun x hx => hold x (hf.valid x hx))
      · rw [hnb]; exact hph0
      · rw [hnb]
      · rw [hold pb hplt]; exact br_of_lt r pb hplt
      · rw [hnb]; exact hd
      · rw [hnb]; exact hdid
    · intro bi hbi
      rw [hb] at hbi
      rw [ha]
      simp only [List.mem_append, List.mem_singleton, List.length_append, List.length_singleton] at hbi ⊢
      rcases hbi with hbi | rfl
      · have := hf.valid bi hbi; omega
      · omega
    · rw [ha, hb]
      simp only [List.length_append, List.length_singleton]
      have := hf.len; omega
  | extend pb ph lst w hp hprev hlen hbw ha hb hh =>
    obtain ⟨hpm, _, _, _⟩ := branchesFind_owner' r hf h.prev pb ph hp.parent
    have hpo := hf.ok pb hpm
    have hbpb := br_of_lt r pb hlen
    have hlast : (r.br pb).headers.getLast? = some lst := hp.lastIs
    have hbr_old : ∀ x, x ≠ pb → r'.br x = r.br x := by
      intro x hx; unfold Repo.br; rw [ha, List.getElem?_set_ne (Ne.symm hx)]
    have hbr_new : r'.br pb = (r.br pb).pushed { hdr := h, work := lst.work + w } := by
      unfold Repo.br; rw [ha, List.getElem?_set_self hlen]; rfl
    refine ⟨?_, ?_, ?_, ?_⟩
    · intro bi hbi
      rw [hb] at hbi
      by_cases he : bi = pb
      · subst he
        rw [hbr_new]
        refine ⟨by simp [Branch.pushed], ?_, hpo.ph, hpo.off, ?_, ?_⟩
        · exact internallyLinked_append _ _ lst hpo.linked hlast hprev.symm
        · intro hne
          obtain ⟨s1, s2⟩ := hpo.side hne
          refine ⟨s1, ?_⟩
          intro d hd
          apply s2 d
          simp only [Branch.pushed] at hd
          cases hhs : (r.br bi).headers with
          | nil => exact absurd hhs hpo.nonempty
          | cons a rest => rw [hhs] at hd; simpa using hd
        · intro id hh hg
          simp only [Branch.pushed] at hg ⊢
          rw [HMap.get?_set] at hg
          split at hg
          · rename_i heq
            simp only [Option.some.injEq] at hg
            refine ⟨{ hdr := h, work := lst.work + w }, ?_, heq.symm⟩
            unfold getI
            have hidx : hh - (r.br bi).parentHeight - (r.br bi).offset = ((r.br bi).headers.length : Int) := by
              rw [← hg]; unfold Branch.height; omega
            rw [hidx]
            simp
          · obtain ⟨d, hd, hdid⟩ := hpo.mapSound id hh hg
            exact ⟨d, getI_append_left _ _ _ _ hd, hdid⟩
      · rw [hbr_old bi he]; exact hf.ok bi hbi
    · rw [ha, hb]
      exact Linked.extend_tip r.arena r.branches hf.linked pb (r.br pb) _ hbpb rfl rfl rfl rfl
        [{ hdr := h, work := lst.work + w }] rfl
    · intro bi hbi
      rw [hb] at hbi
      rw [ha, List.length_set]; exact hf.valid bi hbi
    · rw [ha, hb, List.length_set]; exact hf.len

/-- **one submission keeps the forest well linked** (automatic clean not due). -/
theorem forestOK_processHeader (r : Repo) (h : Hdr) (ok : Bool) (hf : ForestOK r)
    (hnc : ∀ pb ph lst, precheck r h ok = .inr (pb, ph, lst) →
      Int.tmod ((r.br pb).height + 1) (Facts.autoCleanModulus : Int) ≠ 0) :
    ForestOK (processHeader r h ok).1 :=
  forestOK_of_shape r h ok hf _ (processHeader_shape r h ok hnc)

/-- every history of submissions from a well-linked state stays well linked. -/
theorem forestOK_submitAll (hs : List (Hdr × Bool)) : ∀ (r : Repo), ForestOK r → NoAutoClean r hs → ForestOK (submitAll r hs) := by
  induction hs with
  | nil => intro r hf _; exact hf
  | cons x xs ih =>
    intro r hf hn
    exact ih _ (forestOK_processHeader r x.1 x.2 hf hn.1) hn.2

/-- the best chain of a well-linked state, as the read API serves it from memory. -/
theorem forest_best_chain (r : Repo) (hf : ForestOK r) (htip : r.longest ∈ r.branches) :
    ∃ lo : Int, 0 ≤ lo ∧
      (∃ (ri : Nat) (rb : Branch), r.arena[ri]? = some rb ∧ rb.parentHeight = -1 ∧ lo = rb.prunedLowest) ∧
      (∀ x, lo ≤ x → x ≤ tipHeight r → ∃ d, r.at r.longest x = some d) ∧
      (∀ x d d', r.at r.longest x = some d → r.at r.longest (x - 1) = some d' → d.hdr.prev = d'.hdr.id) := by
  have hlt := hf.valid r.longest htip
  have hc := linked_chain (fun _ => True) r.arena r.branches hf.linked
    (fun bi hbi b hb => by
      have : b = r.br bi := by
        have h2 := br_of_lt r bi (hf.valid bi hbi)
        rw [hb] at h2; exact Option.some.inj h2
      subst this
      exact ⟨hf.ok bi hbi, fun _ _ => trivial⟩)
    r.longest htip r.fuel
    (by unfold Repo.fuel; have := hf.len; omega) (r.br r.longest) (br_of_lt r _ hlt)
  obtain ⟨⟨lo, h0, _, hroot, hcov⟩, hlk⟩ := hc
  exact ⟨lo, h0, hroot, fun x h1 h2 => by obtain ⟨d, hd, _⟩ := hcov x h1 h2; exact ⟨d, hd⟩, hlk⟩

end BRV.Repo
