/-
A crash at any storage write of the first Save of a linear chain: what Load makes of every prefix
of the write sequence.
-/
import BRV.Proofs.RepoSaveLoad

namespace BRV.Repo

def StoreEv.isMain : StoreEv → Bool
  | .mainWrite _ _ => true
  | .mainRemove _ => true
  | _ => false

theorem emit_events (r : Repo) (e : StoreEv) : (r.emit e).events = r.events ++ [e] ∧ (r.emit e).store = r.store.apply e :=
  ⟨rfl, rfl⟩

/-- the events `saveMainBranch`'s loop logs are main-file writes, and the store is their replay. -/
theorem saveMainGo_events : ∀ (hs : List HData) (r : Repo) (file height : Int) (buf : List HData),
    ∃ M : List StoreEv, (∀ e ∈ M, e.isMain = true) ∧
      (saveMainBranch.go hs r file height buf).1.events = r.events ++ M ∧
      (saveMainBranch.go hs r file height buf).1.store = M.foldl Store.apply r.store := by
  intro hs
  induction hs with
  | nil => intro r file height buf; exact ⟨[], by simp, by simp [saveMainBranch.go], rfl⟩
  | cons d rest ih =>
    intro r file height buf
    simp only [saveMainBranch.go]
    split
    · obtain ⟨M, hM, he, hs'⟩ := ih (r.emit (.mainWrite file.toNat (buf ++ [d]))) (file + 1) (height + 1) []
      refine ⟨.mainWrite file.toNat (buf ++ [d]) :: M, ?_, ?_, ?_⟩
      · intro e hmem
        rcases List.mem_cons.mp hmem with rfl | hm
        · rfl
        · exact hM e hm
      · rw [he]; simp [Repo.emit]
      · rw [hs']; rfl
    · exact ih r file (height + 1) (buf ++ [d])

/-- replaying main-file events never creates an index, a branch file or a legacy file. -/
theorem foldl_main_frame (M : List StoreEv) (hM : ∀ e ∈ M, e.isMain = true) (s : Store) :
    (M.foldl Store.apply s).index = s.index ∧ (M.foldl Store.apply s).branches = s.branches ∧
    (M.foldl Store.apply s).invalid = s.invalid ∧ (s.mainV0 = [] → (M.foldl Store.apply s).mainV0 = []) := by
  induction M generalizing s with
  | nil => exact ⟨rfl, rfl, rfl, id⟩
  | cons e rest ih =>
    simp only [List.foldl_cons]
    obtain ⟨h1, h2, h3, h4⟩ := ih (fun x hx => hM x (List.mem_cons_of_mem _ hx)) (s.apply e)
    have he := hM e (List.mem_cons_self ..)
    cases e with
    | mainWrite f recs =>
      refine ⟨h1, h2, h3, fun hv => h4 ?_⟩
      simp [Store.apply, hv]
    | mainRemove f =>
      refine ⟨h1, h2, h3, fun hv => h4 ?_⟩
      simp [Store.apply, hv]
    | branchWrite k bf => cases he
    | indexWrite l => cases he
    | invalidWrite l => cases he

/-- the last three writes of a Save of a one-branch repository. -/
def saveTail (r : Repo) : List StoreEv :=
  [StoreEv.branchWrite (r.br 0).first.id (rootFile (r.br 0)), StoreEv.indexWrite [(r.br 0).first.id],
   StoreEv.invalidWrite r.invalid]

/-- **the write sequence of the first Save of a linear chain**: main-file writes/removals, then the
    branch file, then the index, then the invalid list — and the store is the replay of that sequence. -/
theorem save_linear_events (r : Repo) (hl : Linear r) :
    ∃ (rs : Repo) (M : List StoreEv), save r = (rs, none) ∧ (∀ e ∈ M, e.isMain = true) ∧
      rs.events = r.events ++ (M ++ saveTail r) ∧
      rs.store = (M ++ saveTail r).foldl Store.apply r.store := by
  obtain ⟨har, hbr, hpar, hph, hoff, hne, hfirst⟩ := linear_facts r hl
  have hcons : consolidate r = .ok r := by
    apply C10_consolidate_noop_aux
    rw [hbr, hl.root]
    simp [hph]
  have hno : ¬ ((r.br r.longest).offset ≠ 1 ∧
      (r.br r.longest).prunedLowest - Int.tdiv (r.br r.longest).prunedLowest hpf * hpf > 0) := by
    intro hh; rw [hl.root] at hh; exact hh.1 hoff
  -- saveMainBranch, with its log
  obtain ⟨M0, hM0, hev0, hst0⟩ := saveMainGo_events (r.br r.longest).headers r
    (Int.tdiv (r.br r.longest).prunedLowest hpf) (r.br r.longest).prunedLowest []
  obtain ⟨f1, f2, f3, f4, f5, f6⟩ := saveMainGo_frame (r.br r.longest).headers r
    (Int.tdiv (r.br r.longest).prunedLowest hpf) (r.br r.longest).prunedLowest []
  generalize hgo : saveMainBranch.go (r.br r.longest).headers r (Int.tdiv (r.br r.longest).prunedLowest hpf)
    (r.br r.longest).prunedLowest [] = res at hev0 hst0 f1 f2 f3 f4 f5 f6
  obtain ⟨r1, file1, buf⟩ := res
  simp only at hev0 hst0 f1 f2 f3 f4 f5 f6
  have hsm : saveMainBranch r = .ok ((r1.emit (StoreEv.mainWrite file1.toNat buf)).emit (StoreEv.mainRemove (file1 + 1).toNat)) := by
    unfold saveMainBranch saveMainStart
    simp only [hno, ↓reduceIte, hgo]
  have hbr2 : ((r1.emit (StoreEv.mainWrite file1.toNat buf)).emit (StoreEv.mainRemove (file1 + 1).toNat)).br 0 = r.br 0 := by
    unfold Repo.br; simp only [Repo.emit, f1]
  have hstore0 : r.store.branches = [] := by rw [hl.store]
  have hM0frame := foldl_main_frame (M0 ++ [StoreEv.mainWrite file1.toNat buf, StoreEv.mainRemove (file1 + 1).toNat])
    (by intro e he
        rcases List.mem_append.mp he with h | h
        · exact hM0 e h
        · simp only [List.mem_cons, List.not_mem_nil, or_false] at h
          rcases h with rfl | rfl <;> rfl) r.store
  have hst2 : ((r1.emit (StoreEv.mainWrite file1.toNat buf)).emit (StoreEv.mainRemove (file1 + 1).toNat)).store =
      (M0 ++ [StoreEv.mainWrite file1.toNat buf, StoreEv.mainRemove (file1 + 1).toNat]).foldl Store.apply r.store := by
    simp only [Repo.emit, hst0, List.foldl_append, List.foldl_cons, List.foldl_nil]
  obtain ⟨R2, hR2⟩ : ∃ R2 : Repo, R2 = (r1.emit (StoreEv.mainWrite file1.toNat buf)).emit (StoreEv.mainRemove (file1 + 1).toNat) :=
    ⟨_, rfl⟩
  rw [← hR2] at hsm hbr2 hst2
  have hb2 : R2.branches = [0] := by rw [hR2]; simp only [Repo.emit, f2, hbr]
  have hi2 : R2.invalid = r.invalid := by rw [hR2]; simp only [Repo.emit, f5]
  have he2 : R2.events = r.events ++ (M0 ++ [StoreEv.mainWrite file1.toNat buf, StoreEv.mainRemove (file1 + 1).toNat]) := by
    rw [hR2]; simp only [Repo.emit, hev0, List.append_assoc, List.cons_append, List.nil_append]
  have hsave : save r = (saveInvalid ((R2.emit (StoreEv.branchWrite (r.br 0).first.id (rootFile (r.br 0)))).emit
      (StoreEv.indexWrite [(r.br 0).first.id])), none) := by
    unfold save
    rw [hcons]
    simp only [hsm]
    unfold saveBranches
    rw [hb2]
    simp only [saveBranches.go, hbr2]
    unfold branchSave
    rw [hst2, hM0frame.2.1, hstore0]
    simp only [List.lookup, List.map_cons, List.map_nil, hbr2]
    rfl
  refine ⟨_, M0 ++ [StoreEv.mainWrite file1.toNat buf, StoreEv.mainRemove (file1 + 1).toNat], hsave, ?_, ?_, ?_⟩
  · intro e he
    rcases List.mem_append.mp he with h | h
    · exact hM0 e h
    · simp only [List.mem_cons, List.not_mem_nil, or_false] at h
      rcases h with rfl | rfl <;> rfl
  · simp only [saveInvalid, Repo.emit, he2, hi2, List.append_assoc, List.cons_append, List.nil_append, saveTail]
  · simp only [saveInvalid, Repo.emit, hst2, hi2, List.foldl_append, List.foldl_cons, List.foldl_nil, saveTail]

/-! ### every prefix of the write sequence loads -/

def StoreEv.isIndex : StoreEv → Bool
  | .indexWrite _ => true
  | _ => false

theorem foldl_noindex_frame (E : List StoreEv) (hE : ∀ e ∈ E, e.isIndex = false) (s : Store) :
    (E.foldl Store.apply s).index = s.index := by
  induction E generalizing s with
  | nil => rfl
  | cons e rest ih =>
    simp only [List.foldl_cons]
    rw [ih (fun x hx => hE x (List.mem_cons_of_mem _ hx))]
    have := hE e (List.mem_cons_self ..)
    cases e <;> first | rfl | cases this

theorem foldl_nov0 (E : List StoreEv) (s : Store) (hv : s.mainV0 = []) : (E.foldl Store.apply s).mainV0 = [] := by
  induction E generalizing s with
  | nil => exact hv
  | cons e rest ih =>
    simp only [List.foldl_cons]
    apply ih
    cases e <;> simp [Store.apply, hv]

/-- loading a store without a branch index starts from the genesis header. -/
theorem load_noindex (r0 : Repo) (depth : Int) (g : Hdr) (w : Nat) (hi : r0.store.index = none)
    (hv : r0.store.mainV0 = []) (hg : Work.blockWork g.bits = some w) :
    ∃ rl, load r0 depth g = (rl, none) ∧ rl.arena.length = 1 ∧ rl.longest = 0 ∧ tipHeight rl = 0 ∧
      tipId rl = g.id ∧ tipWork rl = w := by
  unfold load
  simp only [freshRepo, hi, hv, List.isEmpty_nil, ↓reduceIte, newBranch, hg]
  refine ⟨_, rfl, rfl, rfl, ?_, ?_, ?_⟩
  · unfold tipHeight Repo.br Branch.height; simp
  · unfold tipId Repo.lastOf Repo.br Branch.last?; simp
  · unfold tipWork Repo.lastOf Repo.br Branch.last?; simp

/-- **a crash at any storage write of the first Save of a linear chain leaves a loadable, sound
    state.** For EVERY prefix of the sequence of writes/removals `Save` issues (main-chain files
    ascending, removal of the next file, the branch file, the index, the invalid list), `Load` of the
    storage as it is after that prefix succeeds without error or panic, and reports either the
    genesis-only chain (as long as the index was not written: nothing was saved before) or exactly
    the chain that was being saved — tip, and the header at every height. -/
theorem first_save_crash_linear (r : Repo) (hl : Linear r) (depth : Int) (hd : 0 ≤ depth) (g : Hdr) (w : Nat)
    (hg : Work.blockWork g.bits = some w) :
    ∃ (rs : Repo) (E : List StoreEv), save r = (rs, none) ∧ rs.events = r.events ++ E ∧
      ∀ n, n ≤ E.length →
        ∃ rl, load { r with store := (E.take n).foldl Store.apply r.store } depth g = (rl, none) ∧
          ((tipHeight rl = 0 ∧ tipId rl = g.id ∧ tipWork rl = w) ∨
           (tipHeight rl = tipHeight r ∧ tipId rl = tipId r ∧ tipWork rl = tipWork r ∧
            (∀ k : Int, 0 ≤ k → headerAt rl k = headerAt r k) ∧ (∀ id, hashHeight rl id = hashHeight r id))) := by
  obtain ⟨rs, M, hsave, hM, hev, hst⟩ := save_linear_events r hl
  obtain ⟨rs', hsave', hfiles, hsb, hsi, hsv, hscfg, _, _⟩ := save_linear r hl
  rw [hsave] at hsave'
  simp only [Prod.mk.injEq, and_true] at hsave'
  subst hsave'
  have hstore : r.store = {} := hl.store
  refine ⟨rs, M ++ saveTail r, hsave, hev, ?_⟩
  intro n hn
  simp only [List.length_append, saveTail, List.length_cons, List.length_nil] at hn
  by_cases hlow : n ≤ M.length + 1
  · -- the index is not written yet
    have hnoidx : ∀ e ∈ (M ++ saveTail r).take n, e.isIndex = false := by
      intro e he
      have hsub : (M ++ saveTail r).take n = (M ++ [StoreEv.branchWrite (r.br 0).first.id (rootFile (r.br 0))]).take n := by
        unfold saveTail
        have : M ++ [StoreEv.branchWrite (r.br 0).first.id (rootFile (r.br 0)), StoreEv.indexWrite [(r.br 0).first.id],
            StoreEv.invalidWrite r.invalid] = (M ++ [StoreEv.branchWrite (r.br 0).first.id (rootFile (r.br 0))]) ++
            [StoreEv.indexWrite [(r.br 0).first.id], StoreEv.invalidWrite r.invalid] := by simp
        rw [this, List.take_append_of_le_length (by simp; omega)]
      rw [hsub] at he
      have hm := List.mem_of_mem_take he
      rcases List.mem_append.mp hm with h | h
      · have := hM e h
        cases e <;> first | rfl | cases this
      · simp only [List.mem_cons, List.not_mem_nil, or_false] at h
        subst h; rfl
    have hidx := foldl_noindex_frame _ hnoidx r.store
    have hv0 := foldl_nov0 ((M ++ saveTail r).take n) r.store (by rw [hstore])
    obtain ⟨rl, hload, _, _, h1, h2, h3⟩ := load_noindex { r with store := ((M ++ saveTail r).take n).foldl Store.apply r.store }
      depth g w (by simp only; rw [hidx, hstore]) (by simpa using hv0) hg
    exact ⟨rl, hload, Or.inl ⟨h1, h2, h3⟩⟩
  · -- the index is written: main files and the branch file are complete
    have hn2 : n = M.length + 2 ∨ n = M.length + 3 := by omega
    have hsame : (((M ++ saveTail r).take n).foldl Store.apply r.store).main = rs.store.main ∧
        (((M ++ saveTail r).take n).foldl Store.apply r.store).branches = rs.store.branches ∧
        (((M ++ saveTail r).take n).foldl Store.apply r.store).index = rs.store.index := by
      rw [hst]
      rcases hn2 with h | h
      · subst h
        have : (M ++ saveTail r).take (M.length + 2) = M ++ [StoreEv.branchWrite (r.br 0).first.id (rootFile (r.br 0)),
            StoreEv.indexWrite [(r.br 0).first.id]] := by
          unfold saveTail
          have e : M ++ [StoreEv.branchWrite (r.br 0).first.id (rootFile (r.br 0)), StoreEv.indexWrite [(r.br 0).first.id],
              StoreEv.invalidWrite r.invalid] = (M ++ [StoreEv.branchWrite (r.br 0).first.id (rootFile (r.br 0)),
              StoreEv.indexWrite [(r.br 0).first.id]]) ++ [StoreEv.invalidWrite r.invalid] := by simp
          rw [e, List.take_left' (by simp)]
        rw [this]
        unfold saveTail
        simp only [List.foldl_append, List.foldl_cons, List.foldl_nil, Store.apply]
        exact ⟨trivial, trivial, trivial⟩
      · subst h
        have : (M ++ saveTail r).take (M.length + 3) = M ++ saveTail r := by
          apply List.take_of_length_le
          simp [saveTail]
        rw [this]
        exact ⟨rfl, rfl, rfl⟩
    obtain ⟨rl, hload, h1, h2, h3, h4, h5, _⟩ := load_obs_linear r hl depth hd g
      { r with store := ((M ++ saveTail r).take n).foldl Store.apply r.store }
      (by simp only; rw [hsame.1]; exact hfiles) (by simp only; rw [hsame.2.1]; exact hsb)
      (by simp only; rw [hsame.2.2]; exact hsi) rfl
    exact ⟨rl, hload, Or.inr ⟨h1, h2, h3, h4, h5⟩⟩

end BRV.Repo
