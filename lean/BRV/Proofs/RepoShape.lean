/-
What `ProcessHeader` does to the branch forest, as three cases (automatic clean not due):
nothing; a new one-header branch appended; one header appended to an existing branch.
-/
import BRV.Proofs.RepoWF

namespace BRV.Repo

theorem reselect_ok_branches (r1 r2 : Repo) (sent : Bool) (evs : List Hdr) (h : reselect r1 = .ok (r2, sent, evs)) :
    r2.branches = r1.branches := by
  unfold reselect at h
  split at h
  · cases h
  · split at h
    · split at h
      · cases h
      · simp only [Except.ok.injEq, Prod.mk.injEq] at h; rw [← h.1]
    · simp only [Except.ok.injEq, Prod.mk.injEq] at h; rw [← h.1]

theorem reselect_error_branches (r1 r2 : Repo) (o : StepOut) (h : reselect r1 = .error (r2, o)) :
    r2.branches = r1.branches := by
  unfold reselect at h
  split at h
  · simp only [Except.error.injEq, Prod.mk.injEq] at h; rw [← h.1]
  · split at h
    · split at h
      · simp only [Except.error.injEq, Prod.mk.injEq] at h; rw [← h.1]
      · cases h
    · cases h

theorem reselect_ok_heights (r1 r2 : Repo) (sent : Bool) (evs : List Hdr) (h : reselect r1 = .ok (r2, sent, evs)) :
    r2.heights = r1.heights := by
  unfold reselect at h
  split at h
  · cases h
  · split at h
    · split at h
      · cases h
      · simp only [Except.ok.injEq, Prod.mk.injEq] at h; rw [← h.1]
    · simp only [Except.ok.injEq, Prod.mk.injEq] at h; rw [← h.1]

theorem reselect_error_heights (r1 r2 : Repo) (o : StepOut) (h : reselect r1 = .error (r2, o)) :
    r2.heights = r1.heights := by
  unfold reselect at h
  split at h
  · simp only [Except.error.injEq, Prod.mk.injEq] at h; rw [← h.1]
  · split at h
    · split at h
      · simp only [Except.error.injEq, Prod.mk.injEq] at h; rw [← h.1]
      · cases h
    · cases h

/-- a branch with one more header at its tip (what `Branch.Add` produces). -/
abbrev Branch.pushed (b : Branch) (x : HData) : Branch :=
  { b with headers := b.headers ++ [x], hmap := b.hmap.set x.hdr.id (b.height + 1) }

/-- the three things a submission can do to the forest. -/
inductive Shape (r : Repo) (h : Hdr) (ok : Bool) (r' : Repo) : Prop
  | same (ha : r'.arena = r.arena) (hb : r'.branches = r.branches) (hh : r'.heights = r.heights)
  | fork (pb : Nat) (ph : Int) (lst : HData) (nb : Branch) (hp : Passed r h ok pb ph lst)
      (hne : lst.hdr.id ≠ h.prev) (hn : newBranch r (some pb) ph h = .ok nb)
      (ha : r'.arena = r.arena ++ [nb]) (hb : r'.branches = r.branches ++ [r.arena.length])
      (hh : r'.heights = r.heights.set h.id (ph + 1))
  | extend (pb : Nat) (ph : Int) (lst : HData) (w : Nat) (hp : Passed r h ok pb ph lst)
      (hprev : lst.hdr.id = h.prev) (hlen : pb < r.arena.length) (hbw : Work.blockWork h.bits = some w)
      (ha : r'.arena = r.arena.set pb ((r.br pb).pushed { hdr := h, work := lst.work + w }))
      (hb : r'.branches = r.branches) (hh : r'.heights = r.heights.set h.id (ph + 1))

theorem addToBranch_arena (r : Repo) (h : Hdr) (pb : Nat) (ph : Int) (lst : HData) (w : Nat) :
    (addToBranch r h pb ph lst w).arena = r.arena.set pb ((r.br pb).pushed { hdr := h, work := lst.work + w }) := by
  have e : ({ (r.br pb) with headers := (r.br pb).headers ++ [{ hdr := h, work := lst.work + w }] } : Branch).height
      = (r.br pb).height + 1 := by
    unfold Branch.height
    simp only [List.length_append, List.length_cons, List.length_nil]
    omega
  unfold Branch.pushed addToBranch Repo.setBranch
  simp only [e]

theorem forkHeader_shape (r : Repo) (h : Hdr) (ok : Bool) (pb : Nat) (ph : Int) (lst : HData)
    (hp : Passed r h ok pb ph lst) (hne : lst.hdr.id ≠ h.prev) : Shape r h ok (forkHeader r h pb ph).1 := by
  unfold forkHeader
  cases hn : newBranch r (some pb) ph h with
  | error v => exact .same rfl rfl rfl
  | ok nb =>
    simp only
    generalize hr : reselect _ = res
    cases res with
    | error x =>
      obtain ⟨r2, o⟩ := x
      exact .fork pb ph lst nb hp hne hn (by simp only; rw [reselect_error_arena _ _ _ hr])
        (by simp only; rw [reselect_error_branches _ _ _ hr]) (by simp only; rw [reselect_error_heights _ _ _ hr])
    | ok y =>
      obtain ⟨r2, s, evs⟩ := y
      exact .fork pb ph lst nb hp hne hn (by simp only; rw [reselect_ok_arena _ _ _ _ hr])
        (by simp only; rw [reselect_ok_branches _ _ _ _ hr]) (by simp only; rw [reselect_ok_heights _ _ _ _ hr])

theorem extendHeader_shape (r : Repo) (h : Hdr) (ok : Bool) (pb : Nat) (ph : Int) (lst : HData)
    (hp : Passed r h ok pb ph lst) (hprev : lst.hdr.id = h.prev)
    (hnc : Int.tmod ((r.br pb).height + 1) (Facts.autoCleanModulus : Int) ≠ 0) :
    Shape r h ok (extendHeader r h pb ph lst).1 := by
  unfold extendHeader
  cases hbw : Work.blockWork h.bits with
  | none => exact .same rfl rfl rfl
  | some w =>
    simp only
    have hlast := hp.lastIs
    have hlen : pb < r.arena.length := by
      unfold Repo.lastOf Repo.br Branch.last? at hlast
      by_cases hc : pb < r.arena.length
      · exact hc
      · rw [List.getElem?_eq_none (by omega)] at hlast
        simp only [Option.getD_none] at hlast
        cases hlast
    have harena : (addToBranch r h pb ph lst w).arena = r.arena.set pb
        ((r.br pb).pushed { hdr := h, work := lst.work + w }) := by
      unfold Branch.pushed
      have e : ({ (r.br pb) with headers := (r.br pb).headers ++ [{ hdr := h, work := lst.work + w }] } : Branch).height
          = (r.br pb).height + 1 := by
        unfold Branch.height
        simp only [List.length_append, List.length_cons, List.length_nil]
        omega
      unfold addToBranch Repo.setBranch
      simp only [e]
    have hbranches : (addToBranch r h pb ph lst w).branches = r.branches := rfl
    have hheights : (addToBranch r h pb ph lst w).heights = r.heights.set h.id (ph + 1) := rfl
    have hheight : ((addToBranch r h pb ph lst w).br pb).height = (r.br pb).height + 1 := by
      unfold addToBranch Repo.br Repo.setBranch Branch.height
      simp only [List.getElem?_set_self hlen, Option.getD_some, List.length_append, List.length_cons, List.length_nil]
      rw [List.getElem?_eq_getElem hlen]
      simp only [Option.getD_some]
      omega
    have hl : (addToBranch r h pb ph lst w).longest = r.longest := rfl
    by_cases hpl : pb = r.longest
    · subst hpl
      have e : (addToBranch r h r.longest ph lst w).longest = r.longest := rfl
      simp only [e, ne_eq, not_true_eq_false, ↓reduceIte, hheight, hnc]
      exact .extend r.longest ph lst w hp hprev hlen hbw harena hbranches hheights
    · simp only [hl, hpl, ne_eq, not_false_eq_true, ↓reduceIte]
      generalize hr : reselect _ = res
      cases res with
      | error x =>
        obtain ⟨r2, o⟩ := x
        exact .extend pb ph lst w hp hprev hlen hbw (by simp only; rw [reselect_error_arena _ _ _ hr]; exact harena)
          (by simp only; rw [reselect_error_branches _ _ _ hr]; exact hbranches)
          (by simp only; rw [reselect_error_heights _ _ _ hr]; exact hheights)
      | ok y =>
        obtain ⟨r2, s, evs⟩ := y
        have hk := reselect_ok_arena _ _ _ _ hr
        have hkb := reselect_ok_branches _ _ _ _ hr
        have hkh := reselect_ok_heights _ _ _ _ hr
        simp only
        have hbr : r2.br pb = (addToBranch r h pb ph lst w).br pb := by unfold Repo.br; rw [hk]
        split
        · rw [hbr, hheight]
          simp only [hnc, ↓reduceIte]
          exact .extend pb ph lst w hp hprev hlen hbw (by rw [hk]; exact harena) (by rw [hkb]; exact hbranches) (by rw [hkh]; exact hheights)
        · exact .extend pb ph lst w hp hprev hlen hbw (by rw [hk]; exact harena) (by rw [hkb]; exact hbranches) (by rw [hkh]; exact hheights)

/-- **every submission is one of the three shapes** (automatic clean not due). -/
theorem processHeader_shape (r : Repo) (h : Hdr) (ok : Bool)
    (hnc : ∀ pb ph lst, precheck r h ok = .inr (pb, ph, lst) →
      Int.tmod ((r.br pb).height + 1) (Facts.autoCleanModulus : Int) ≠ 0) :
    Shape r h ok (processHeader r h ok).1 := by
  cases hpc : precheck r h ok with
  | inl v => rw [processHeader_of_inl r h ok v hpc]; exact .same rfl rfl rfl
  | inr x =>
    obtain ⟨pb, ph, lst⟩ := x
    rw [processHeader_of_inr r h ok pb ph lst hpc]
    have hpass := precheck_inr r h ok pb ph lst hpc
    unfold applyHeader
    by_cases hf : lst.hdr.id ≠ h.prev
    · simp only [hf, ne_eq, not_false_eq_true, ↓reduceIte]
      exact forkHeader_shape r h ok pb ph lst hpass hf
    · simp only [hf, ↓reduceIte]
      exact extendHeader_shape r h ok pb ph lst hpass (by simpa using hf) (hnc pb ph lst hpc)

end BRV.Repo
