/-
Load from ANY storage image whose branch files are each internally consistent: Load succeeds and the
repository it builds is a well-linked forest — whatever the history that produced the image, with any
number of side branches, in any index order, with branches that cannot be linked.
(The pointer structure Load builds does not satisfy `ParentsDecrease`: a parent may come later in the
index than its child.  The order here is the order in which `Link` accepted the branches.)
-/
import BRV.Proofs.RepoSaveLoad
import BRV.Proofs.Longest
import BRV.Proofs.RepoNoError
import BRV.Model.StoreCheck

namespace BRV.Repo

/-! ### small facts -/

theorem bfind_mono (ar : Arena) : ∀ (f f' : Nat) (bi id : Nat) (h : Int),
    bfind ar f bi id = some h → f ≤ f' → bfind ar f' bi id = some h := by
  intro f
  induction f with
  | zero => intro f' bi id h hb; simp [bfind] at hb
  | succ f ih =>
    intro f' bi id h hb hle
    obtain ⟨g, rfl⟩ : ∃ g, f' = g + 1 := ⟨f' - 1, by omega⟩
    simp only [bfind] at hb ⊢
    cases hbi : ar[bi]? with
    | none => rw [hbi] at hb; cases hb
    | some b =>
      rw [hbi] at hb
      simp only at hb ⊢
      cases hg : b.hmap.get? id with
      | some v => rw [hg] at hb; exact hb
      | none =>
        rw [hg] at hb
        simp only at hb ⊢
        cases hp : b.parent with
        | none => rw [hp] at hb; cases hb
        | some p =>
          rw [hp] at hb
          simp only at hb ⊢
          exact ih g p id h hb (by omega)

theorem internallyLinked_tail (a : HData) (l : List HData) (h : InternallyLinked (a :: l)) : InternallyLinked l := by
  cases l with
  | nil => trivial
  | cons b rest => exact h.2

theorem internallyLinked_drop (l : List HData) (h : InternallyLinked l) (n : Nat) : InternallyLinked (l.drop n) := by
  induction n generalizing l with
  | zero => simpa using h
  | succ n ih =>
    cases l with
    | nil => simpa using h
    | cons a rest =>
      simp only [List.drop_succ_cons]
      exact ih rest (internallyLinked_tail a rest h)

/-- soundness of a height map built by the `zipIdx` fold: every entry it adds points at a header with
    that id (no uniqueness of ids needed). -/
theorem foldl_set_sound (hs : List HData) (base : Int) : ∀ (n : Nat) (m0 : HMap) (id : Nat) (h : Int),
    ((hs.zipIdx n).foldl (fun m (x : HData × Nat) => HMap.set m x.1.hdr.id (base + (x.2 : Int))) m0).get? id = some h →
      m0.get? id = some h ∨ ∃ k d, hs[k]? = some d ∧ d.hdr.id = id ∧ h = base + ((n + k : Nat) : Int) := by
  induction hs with
  | nil => intro n m0 id h hg; left; simpa using hg
  | cons a rest ih =>
    intro n m0 id h hg
    simp only [List.zipIdx_cons, List.foldl_cons] at hg
    rcases ih (n + 1) _ id h hg with h1 | ⟨k, d, hk, hid, hh⟩
    · rw [HMap.get?_set] at h1
      split at h1
      · rename_i heq
        right
        refine ⟨0, a, by simp, heq.symm, ?_⟩
        simp only [Option.some.injEq] at h1
        rw [← h1]; simp
      · left; exact h1
    · right
      refine ⟨k + 1, d, by simpa using hk, hid, ?_⟩
      rw [hh]; congr 1; omega

/-! ### what Load needs of a branch file, and what it makes of it -/

structure FileOK (bf : BranchFile) : Prop where
  nonempty : bf.headers ≠ []
  linked : InternallyLinked bf.headers
  ph : -1 ≤ bf.parentHeight
  off : 1 ≤ bf.offset
  firstIs : bf.offset = 1 → ∀ d, bf.headers.head? = some d → d.hdr = bf.first
  side : bf.parentHeight ≠ -1 → bf.offset = 1

/-- what the read API needs of a tracked branch, whatever its parent pointer and wherever it came from. -/
structure BrCore (b : Branch) : Prop where
  nonempty : b.headers ≠ []
  linked : InternallyLinked b.headers
  ph : -1 ≤ b.parentHeight
  off : 1 ≤ b.offset
  side : b.parentHeight ≠ -1 → b.offset = 1 ∧ ∀ d, b.headers.head? = some d → d.hdr = b.first
  mapSound : ∀ id h, b.hmap.get? id = some h →
    ∃ d, getI b.headers (h - b.parentHeight - b.offset) = some d ∧ d.hdr.id = id

/-- a loaded branch, whatever its parent pointer. -/
structure BrOK (st : Store) (b : Branch) : Prop where
  nonempty : b.headers ≠ []
  linked : InternallyLinked b.headers
  ph : -1 ≤ b.parentHeight
  off : 1 ≤ b.offset
  side : b.parentHeight ≠ -1 → b.offset = 1 ∧ ∀ d, b.headers.head? = some d → d.hdr = b.first
  mapSound : ∀ id h, b.hmap.get? id = some h →
    ∃ d, getI b.headers (h - b.parentHeight - b.offset) = some d ∧ d.hdr.id = id
  fromFile : ∃ k bf n, List.lookup k st.branches = some bf ∧ b.headers = bf.headers.drop n ∧
    b.parentHeight = bf.parentHeight ∧ b.offset = bf.offset + (n : Int) ∧ ∀ l, st.index = some l → k ∈ l

theorem BrOK.core {st : Store} {b : Branch} (h : BrOK st b) : BrCore b :=
  ⟨h.nonempty, h.linked, h.ph, h.off, h.side, h.mapSound⟩

theorem brOK_of_file (st : Store) (k : Nat) (bf : BranchFile) (hk : List.lookup k st.branches = some bf)
    (hf : FileOK bf) (hki : ∀ l, st.index = some l → k ∈ l) : BrOK st (branchOfFile bf) := by
  refine ⟨hf.nonempty, hf.linked, hf.ph, hf.off, fun hne => ⟨hf.side hne, hf.firstIs (hf.side hne)⟩, ?_, ?_⟩
  · intro id h hg
    unfold branchOfFile at hg
    simp only at hg
    rcases foldl_set_sound bf.headers (bf.parentHeight + bf.offset) 0 [] id h hg with h1 | ⟨i, d, hi, hid, hh⟩
    · simp [HMap.get?] at h1
    · refine ⟨d, ?_, hid⟩
      show getI bf.headers (h - bf.parentHeight - bf.offset) = some d
      unfold getI
      have : h - bf.parentHeight - bf.offset = (i : Int) := by rw [hh]; simp; omega
      rw [this]
      simp [hi]
  · exact ⟨k, bf, 0, hk, by simp [branchOfFile], rfl, by simp [branchOfFile], hki⟩

/-- `Prune(count)` keeps a loaded branch sound (a root branch: side branches are never pruned here). -/
theorem brOK_prune (st : Store) (b : Branch) (hb : BrOK st b) (count : Int) (hroot : b.parentHeight = -1) :
    BrOK st (pruneBranch b count) := by
  unfold pruneBranch
  split
  · exact hb
  · rename_i hc
    have hc0 : 0 ≤ count := by omega
    have hcl : count < b.headers.length := by omega
    obtain ⟨c, rfl⟩ : ∃ c : Nat, count = (c : Int) := ⟨count.toNat, by omega⟩
    have hcl' : c < b.headers.length := by omega
    refine ⟨?_, ?_, hb.ph, ?_, ?_, ?_, ?_⟩
    · simp only [Int.toNat_natCast]
      intro hnil
      have := List.drop_eq_nil_iff.mp hnil
      omega
    · simp only [Int.toNat_natCast]; exact internallyLinked_drop _ hb.linked c
    · simp only; have := hb.off; omega
    · intro hne; exact absurd hroot hne
    · intro id h hg
      simp only [Int.toNat_natCast] at hg ⊢
      rw [get?_foldl_del] at hg
      split at hg
      · cases hg
      · rename_i hnot
        obtain ⟨d, hd, hid⟩ := hb.mapSound id h hg
        refine ⟨d, ?_, hid⟩
        unfold getI at hd ⊢
        split at hd
        · cases hd
        · rename_i hge
          -- the index is not among the dropped ones
          have hidx : c ≤ (h - b.parentHeight - b.offset).toNat := by
            rcases Nat.lt_or_ge (h - b.parentHeight - b.offset).toNat c with hlt' | hge'
            · exfalso
              apply hnot
              refine ⟨d, ?_, hid⟩
              rw [List.mem_take_iff_getElem]
              have hlen : (h - b.parentHeight - b.offset).toNat < b.headers.length := by omega
              refine ⟨(h - b.parentHeight - b.offset).toNat, by omega, ?_⟩
              rw [List.getElem?_eq_getElem hlen] at hd
              exact Option.some.inj hd
            · exact hge'
          have hnn : ¬ (h - b.parentHeight - (b.offset + (c : Int)) < 0) := by omega
          simp only [hnn, ↓reduceIte]
          rw [List.getElem?_drop]
          have : c + (h - b.parentHeight - (b.offset + (c : Int))).toNat = (h - b.parentHeight - b.offset).toNat := by omega
          rw [this]; exact hd
    · obtain ⟨k, bf, n, hk, hh, hp, ho, hki⟩ := hb.fromFile
      refine ⟨k, bf, n + c, hk, ?_, hp, ?_, hki⟩
      · simp only [Int.toNat_natCast]; rw [hh, List.drop_drop]
      · simp only; rw [ho]; push_cast; omega

/-! ### reading the indexed files, the keep flags, the prune height -/

theorem loadRead_ok (st : Store) : ∀ (idx : List Nat) (acc : List Branch),
    (∀ k ∈ idx, ∃ bf, List.lookup k st.branches = some bf ∧ FileOK bf ∧ ∀ l, st.index = some l → k ∈ l) →
    ∃ bs, loadRead st idx acc = .ok (acc ++ bs) ∧ bs.length = idx.length ∧ (∀ b ∈ bs, BrOK st b ∧ b.parent = none) ∧
      (∀ k0 rest bf0, idx = k0 :: rest → List.lookup k0 st.branches = some bf0 → bs.head? = some (branchOfFile bf0)) := by
  intro idx
  induction idx with
  | nil => intro acc _; exact ⟨[], by simp [loadRead], rfl, by simp, by intro k0 rest bf0 h; cases h⟩
  | cons k rest ih =>
    intro acc hall
    obtain ⟨bf, hk, hf, hki⟩ := hall k (List.mem_cons_self ..)
    obtain ⟨bs, hbs, hlen, hok, _⟩ := ih (acc ++ [branchOfFile bf]) (fun x hx => hall x (List.mem_cons_of_mem _ hx))
    refine ⟨branchOfFile bf :: bs, ?_, by simp [hlen], ?_, ?_⟩
    · simp only [loadRead, hk]; rw [hbs]; simp
    · intro b hb
      rcases List.mem_cons.mp hb with rfl | hb
      · exact ⟨brOK_of_file st k bf hk hf hki, rfl⟩
      · exact hok b hb
    · intro k0 rest' bf0 he hl0
      cases he
      rw [hk] at hl0; cases hl0; rfl

theorem loadKeepStep_length (bs : List Branch) (keep : List Bool) (h : keep.length = bs.length) :
    (loadKeepStep bs keep).length = bs.length := by
  unfold loadKeepStep; simp [h]

theorem loadKeepStep_head (b0 : Branch) (bs : List Branch) (keep : List Bool) :
    (loadKeepStep (b0 :: bs) (true :: keep)).head? = some true := by
  unfold loadKeepStep; simp

theorem loadKeepFix_spec (b0 : Branch) (bs : List Branch) : ∀ (n : Nat) (keep : List Bool),
    keep.length = bs.length →
    ∃ keep', loadKeepFix n (b0 :: bs) (true :: keep) = true :: keep' ∧ keep'.length = bs.length := by
  intro n
  induction n with
  | zero => intro keep hl; exact ⟨keep, rfl, hl⟩
  | succ n ih =>
    intro keep hl
    simp only [loadKeepFix]
    have h1 := loadKeepStep_length (b0 :: bs) (true :: keep) (by simp [hl])
    have h2 := loadKeepStep_head b0 bs keep
    cases hk : loadKeepStep (b0 :: bs) (true :: keep) with
    | nil => rw [hk] at h1; simp at h1
    | cons x xs =>
      rw [hk] at h1 h2
      simp only [List.head?_cons, Option.some.injEq] at h2
      subst h2
      exact ih xs (by simpa using h1)

/-- the prune height never exceeds the fork height of a kept side branch. -/
theorem loadPruneHeight_le (l : List (Branch × Bool)) : ∀ (kh : Int),
    (l.foldl (fun (ph : Int) (x : Branch × Bool) =>
        if x.2 && x.1.parentHeight != -1 && x.1.parentHeight < ph then x.1.parentHeight else ph) kh) ≤ kh ∧
    ∀ x ∈ l, x.2 = true → x.1.parentHeight ≠ -1 →
      (l.foldl (fun (ph : Int) (x : Branch × Bool) =>
        if x.2 && x.1.parentHeight != -1 && x.1.parentHeight < ph then x.1.parentHeight else ph) kh) ≤ x.1.parentHeight := by
  induction l with
  | nil => intro kh; exact ⟨Int.le_refl _, by simp⟩
  | cons a rest ih =>
    intro kh
    simp only [List.foldl_cons]
    obtain ⟨h1, h2⟩ := ih (if a.2 && a.1.parentHeight != -1 && a.1.parentHeight < kh then a.1.parentHeight else kh)
    refine ⟨?_, ?_⟩
    · refine Int.le_trans h1 ?_
      split
      · rename_i hc; simp only [Bool.and_eq_true, decide_eq_true_eq] at hc; omega
      · exact Int.le_refl _
    · intro x hx hk hne
      rcases List.mem_cons.mp hx with rfl | hx
      · refine Int.le_trans h1 ?_
        split
        · exact Int.le_refl _
        · rename_i hc
          simp only [Bool.and_eq_true, decide_eq_true_eq, bne_iff_ne, ne_eq, hk, true_and, not_and, Int.not_lt] at hc
          exact hc hne
      · exact h2 x hx hk hne

/-! ### placing the kept branches -/

structure PlaceInv (st : Store) (acc : Repo × List Nat) : Prop where
  store : acc.1.store = st
  ok : ∀ b ∈ acc.1.arena, BrOK st b ∧ b.parent = none
  rng : acc.2 = List.range acc.1.arena.length

/-- the branch `load` puts into the arena for a kept file. -/
def placedBranch (pruneHeight : Int) (b : Branch) : Branch :=
  if b.prunedLowest ≤ pruneHeight then pruneBranch b (pruneHeight - b.prunedLowest) else b

theorem pruneBranch_parentHeight (b : Branch) (c : Int) : (pruneBranch b c).parentHeight = b.parentHeight := by
  unfold pruneBranch; split <;> rfl

theorem pruneBranch_parent (b : Branch) (c : Int) : (pruneBranch b c).parent = b.parent := by
  unfold pruneBranch; split <;> rfl

theorem placedBranch_parentHeight (ph : Int) (b : Branch) : (placedBranch ph b).parentHeight = b.parentHeight := by
  unfold placedBranch; split
  · exact pruneBranch_parentHeight _ _
  · rfl

theorem placedBranch_ok (st : Store) (ph : Int) (b : Branch) (hb : BrOK st b) (hpar : b.parent = none)
    (hph : b.parentHeight ≠ -1 → ph ≤ b.parentHeight) :
    BrOK st (placedBranch ph b) ∧ (placedBranch ph b).parent = none := by
  unfold placedBranch
  split
  · rename_i hle
    by_cases hroot : b.parentHeight = -1
    · exact ⟨brOK_prune st b hb _ hroot, by rw [pruneBranch_parent]; exact hpar⟩
    · exfalso
      have := hph hroot
      have ho := (hb.side hroot).1
      unfold Branch.prunedLowest at hle
      omega
  · exact ⟨hb, hpar⟩

theorem loadPlaceStep_eq (ph : Int) (acc : Repo × List Nat) (x : Branch × Bool) :
    loadPlaceStep ph acc x =
      if x.2 = true then
        ({ acc.1 with arena := acc.1.arena ++ [placedBranch ph x.1],
                      heights := ((placedBranch ph x.1).headers.zipIdx).foldl
                        (fun m (y : HData × Nat) => HMap.set m y.1.hdr.id ((placedBranch ph x.1).prunedLowest + (y.2 : Int))) acc.1.heights },
         acc.2 ++ [acc.1.arena.length])
      else acc := by
  unfold loadPlaceStep placedBranch
  cases x.2 <;> simp

theorem loadPlace_spec (st : Store) (ph : Int) : ∀ (l : List (Branch × Bool)) (acc : Repo × List Nat),
    (∀ x ∈ l, BrOK st x.1 ∧ x.1.parent = none) →
    (∀ x ∈ l, x.2 = true → x.1.parentHeight ≠ -1 → ph ≤ x.1.parentHeight) →
    PlaceInv st acc →
    PlaceInv st (l.foldl (loadPlaceStep ph) acc) ∧
    (∀ b ∈ acc.1.arena, b ∈ (l.foldl (loadPlaceStep ph) acc).1.arena) ∧
    (∀ x ∈ l, x.2 = true → ∃ b ∈ (l.foldl (loadPlaceStep ph) acc).1.arena, b.parentHeight = x.1.parentHeight) := by
  intro l
  induction l with
  | nil => intro acc _ _ hi; exact ⟨hi, fun b hb => hb, by simp⟩
  | cons x rest ih =>
    intro acc hall hph hi
    simp only [List.foldl_cons]
    have hstep : PlaceInv st (loadPlaceStep ph acc x) ∧ (∀ b ∈ acc.1.arena, b ∈ (loadPlaceStep ph acc x).1.arena) ∧
        (x.2 = true → ∃ b ∈ (loadPlaceStep ph acc x).1.arena, b.parentHeight = x.1.parentHeight) := by
      rw [loadPlaceStep_eq]
      by_cases hk : x.2 = true
      · rw [if_pos hk]
        obtain ⟨hbo, hbp⟩ := hall x (List.mem_cons_self ..)
        have hpb := placedBranch_ok st ph x.1 hbo hbp (hph x (List.mem_cons_self ..) hk)
        refine ⟨⟨hi.store, ?_, ?_⟩, ?_, ?_⟩
        · intro b hb
          simp only [List.mem_append, List.mem_singleton] at hb
          rcases hb with hb | rfl
          · exact hi.ok b hb
          · exact hpb
        · simp only [List.length_append, List.length_singleton, List.range_succ]
          rw [hi.rng]
        · intro b hb; simp only [List.mem_append]; exact Or.inl hb
        · intro _
          exact ⟨placedBranch ph x.1, by simp, placedBranch_parentHeight _ _⟩
      · rw [if_neg hk]
        exact ⟨hi, fun b hb => hb, fun h => absurd h hk⟩
    obtain ⟨hi1, hmono1, hroot1⟩ := hstep
    obtain ⟨hi2, hmono2, hroot2⟩ := ih (loadPlaceStep ph acc x) (fun y hy => hall y (List.mem_cons_of_mem _ hy))
      (fun y hy => hph y (List.mem_cons_of_mem _ hy)) hi1
    refine ⟨hi2, fun b hb => hmono2 b (hmono1 b hb), ?_⟩
    intro y hy hk
    rcases List.mem_cons.mp hy with rfl | hy
    · obtain ⟨b, hb, hbp⟩ := hroot1 hk
      exact ⟨b, hmono2 b hb, hbp⟩
    · exact hroot2 y hy hk

/-! ### the sort is a permutation -/

theorem insertByPH_perm (ar : Arena) (x : Nat) : ∀ l : List Nat, (insertByPH ar x l).Perm (x :: l) := by
  intro l
  induction l with
  | nil => exact List.Perm.refl _
  | cons y ys ih =>
    simp only [insertByPH]
    split
    · exact List.Perm.refl _
    · exact (List.Perm.cons y ih).trans (List.Perm.swap x y ys)

theorem sortByPH_perm (ar : Arena) (l : List Nat) : (sortByPH ar l).Perm l := by
  unfold sortByPH
  have : ∀ (l acc : List Nat), (l.foldl (fun acc x => insertByPH ar x acc) acc).Perm (l.reverse ++ acc) := by
    intro l
    induction l with
    | nil => intro acc; exact List.Perm.refl _
    | cons x rest ih =>
      intro acc
      simp only [List.foldl_cons, List.reverse_cons, List.append_assoc, List.singleton_append]
      exact (ih _).trans (List.Perm.append_left _ (insertByPH_perm ar x acc))
  have h := this l []
  simp only [List.append_nil] at h
  exact h.trans (List.reverse_perm l)

/-! ### linking -/

/-- the branches in the order `Link` accepted them: a root, or a branch whose parent was accepted
    before it and holds, itself, the header the branch is built on, at the recorded height. -/
inductive Linked (ar : Arena) : List Nat → Prop
  | nil : Linked ar []
  | root (bs : List Nat) (bi : Nat) (b : Branch) : Linked ar bs → bi ∉ bs → ar[bi]? = some b → b.parent = none →
      b.parentHeight = -1 → Linked ar (bs ++ [bi])
  | child (bs : List Nat) (bi : Nat) (b : Branch) (p : Nat) (pb : Branch) (d : HData) : Linked ar bs → bi ∉ bs →
      ar[bi]? = some b → b.parentHeight ≠ -1 → b.parent = some p → p ∈ bs → ar[p]? = some pb →
      getI pb.headers (b.parentHeight - pb.parentHeight - pb.offset) = some d → d.hdr.id = b.first.prev →
      Linked ar (bs ++ [bi])

theorem Linked.congr (ar ar' : Arena) (bs : List Nat) (h : Linked ar bs) (he : ∀ x ∈ bs, ar'[x]? = ar[x]?) :
    Linked ar' bs := by
  induction h with
  | nil => exact .nil
  | root bs bi b _ hn hb hp hr ih =>
    refine .root bs bi b (ih (fun x hx => he x (by simp [hx]))) hn ?_ hp hr
    rw [he bi (by simp)]; exact hb
  | child bs bi b p pb d _ hn hb hne hp hpm hpb hd hid ih =>
    refine .child bs bi b p pb d (ih (fun x hx => he x (by simp [hx]))) hn ?_ hne hp hpm ?_ hd hid
    · rw [he bi (by simp)]; exact hb
    · rw [he p (by simp [hpm])]; exact hpb

theorem snoc_inj {α : Type} (l1 l2 : List α) (a b : α) (h : l1 ++ [a] = l2 ++ [b]) : l1 = l2 ∧ a = b := by
  have := List.append_inj' h rfl
  exact ⟨this.1, by simpa using this.2⟩

/-- prefixes of an accepted order are accepted orders. -/
theorem Linked.prefix (ar : Arena) (l : List Nat) (h : Linked ar l) : ∀ l1 l2, l = l1 ++ l2 → Linked ar l1 := by
  induction h with
  | nil => intro l1 l2 he; have : l1 = [] := by cases l1 <;> simp_all
           subst this; exact .nil
  | root bs bi b hl hn hb hp hr ih =>
    intro l1 l2 he
    rcases List.eq_nil_or_concat l2 with rfl | ⟨l2', x, rfl⟩
    · simp only [List.append_nil] at he; subst he; exact .root bs bi b hl hn hb hp hr
    · rw [List.concat_eq_append, ← List.append_assoc] at he
      exact ih l1 l2' (snoc_inj _ _ _ _ he).1
  | child bs bi b p pb d hl hn hb hne hp hpm hpb hd hid ih =>
    intro l1 l2 he
    rcases List.eq_nil_or_concat l2 with rfl | ⟨l2', x, rfl⟩
    · simp only [List.append_nil] at he; subst he; exact .child bs bi b p pb d hl hn hb hne hp hpm hpb hd hid
    · rw [List.concat_eq_append, ← List.append_assoc] at he
      exact ih l1 l2' (snoc_inj _ _ _ _ he).1

/-- the parent of an accepted branch was accepted before it. -/
theorem Linked.parent_before (ar : Arena) (l1 : List Nat) (c : Nat) (h : Linked ar (l1 ++ [c])) (cb : Branch)
    (hc : ar[c]? = some cb) (p : Nat) (hp : cb.parent = some p) : p ∈ l1 := by
  generalize hl : l1 ++ [c] = l at h
  cases h with
  | nil => simp at hl
  | root bs bi b _ _ hb hpar _ =>
    obtain ⟨_, rfl⟩ := snoc_inj _ _ _ _ hl
    rw [hc] at hb; cases hb
    rw [hp] at hpar; cases hpar
  | child bs bi b p' pb d _ _ hb _ hpar hpm _ _ _ =>
    obtain ⟨rfl, rfl⟩ := snoc_inj _ _ _ _ hl
    rw [hc] at hb; cases hb
    rw [hp] at hpar; cases hpar
    exact hpm

structure LinkInv (st : Store) (r : Repo) (todo : List Nat) : Prop where
  store : r.store = st
  ok : ∀ (bi : Nat) (b : Branch), r.arena[bi]? = some b → BrOK st b
  linked : Linked r.arena r.branches
  valid : ∀ bi ∈ r.branches, bi < r.arena.length
  tvalid : ∀ bi ∈ todo, bi < r.arena.length
  tnew : ∀ bi ∈ todo, bi ∉ r.branches
  tnodup : todo.Nodup
  tpar : ∀ bi ∈ todo, ∀ b : Branch, r.arena[bi]? = some b → b.parent = none
  len : r.branches.length + todo.length ≤ r.arena.length

theorem br_of_lt (r : Repo) (bi : Nat) (h : bi < r.arena.length) : r.arena[bi]? = some (r.br bi) := by
  unfold Repo.br; rw [List.getElem?_eq_getElem h]; rfl

/-- the first listed branch whose ancestry "finds" a hash holds that hash itself: its parent precedes it
    in the list and would have answered first. -/
theorem find_owner (r : Repo) (hlk : Linked r.arena r.branches) (hv : ∀ bi ∈ r.branches, bi < r.arena.length)
    (id : Nat) (c : Nat) (h : Int)
    (hf : r.branches.findSome? (fun c => (r.find c id).map (fun h => (c, h))) = some (c, h)) :
    c ∈ r.branches ∧ ∃ cb, r.arena[c]? = some cb ∧ cb.hmap.get? id = some h := by
  obtain ⟨l1, a, l2, hl, hfa, hnone⟩ := List.findSome?_eq_some_iff.mp hf
  cases hfind : r.find a id with
  | none => rw [hfind] at hfa; cases hfa
  | some h' =>
    rw [hfind] at hfa
    simp only [Option.map_some, Option.some.injEq, Prod.mk.injEq] at hfa
    obtain ⟨rfl, rfl⟩ := hfa
    have hmem : a ∈ r.branches := by rw [hl]; simp
    refine ⟨hmem, ?_⟩
    have hlt := hv a hmem
    refine ⟨r.br a, br_of_lt r a hlt, ?_⟩
    unfold Repo.find Repo.fuel at hfind
    simp only [bfind, br_of_lt r a hlt] at hfind
    cases hg : (r.br a).hmap.get? id with
    | some v => rw [hg] at hfind; simpa using hfind
    | none =>
      exfalso
      rw [hg] at hfind
      simp only at hfind
      cases hp : (r.br a).parent with
      | none => rw [hp] at hfind; cases hfind
      | some p =>
        rw [hp] at hfind
        simp only at hfind
        have hpre : Linked r.arena (l1 ++ [a]) :=
          Linked.prefix r.arena r.branches hlk (l1 ++ [a]) l2 (by rw [hl]; simp)
        have hpm := Linked.parent_before r.arena l1 a hpre (r.br a) (br_of_lt r a hlt) p hp
        have hn := hnone p hpm
        have : r.find p id = some h' := by
          unfold Repo.find Repo.fuel
          exact bfind_mono r.arena _ _ p id h' hfind (by omega)
        rw [this] at hn
        cases hn

theorem link_owner (st : Store) (r : Repo) (todo : List Nat) (hi : LinkInv st r todo) (id : Nat) (c : Nat) (h : Int)
    (hf : r.branches.findSome? (fun c => (r.find c id).map (fun h => (c, h))) = some (c, h)) :
    c ∈ r.branches ∧ ∃ cb, r.arena[c]? = some cb ∧ cb.hmap.get? id = some h :=
  find_owner r hi.linked hi.valid id c h hf

theorem loadLinkStep_inv (st : Store) (r : Repo) (bi : Nat) (rest : List Nat) (hi : LinkInv st r (bi :: rest)) :
    LinkInv st (loadLinkStep r bi) rest ∧
    (∀ x, ((loadLinkStep r bi).br x).parentHeight = (r.br x).parentHeight) ∧
    (∀ x ∈ r.branches, x ∈ (loadLinkStep r bi).branches) ∧
    ((r.br bi).parentHeight = -1 → bi ∈ (loadLinkStep r bi).branches) := by
  have hbi := hi.tvalid bi (List.mem_cons_self ..)
  have hb := br_of_lt r bi hbi
  have hnew := hi.tnew bi (List.mem_cons_self ..)
  have hnd := List.nodup_cons.mp hi.tnodup
  have hlen : r.branches.length + rest.length + 1 ≤ r.arena.length := by have := hi.len; simp at this; omega
  -- the unchanged case
  have hsame : LinkInv st r rest := by
    refine ⟨hi.store, hi.ok, hi.linked, hi.valid, fun x hx => hi.tvalid x (List.mem_cons_of_mem _ hx),
      fun x hx => hi.tnew x (List.mem_cons_of_mem _ hx), hnd.2, fun x hx => hi.tpar x (List.mem_cons_of_mem _ hx), by omega⟩
  unfold loadLinkStep
  simp only
  by_cases hroot : (r.br bi).parentHeight = -1
  · rw [if_pos hroot]
    refine ⟨⟨hi.store, hi.ok, ?_, ?_, ?_, ?_, hnd.2, ?_, ?_⟩, fun x => rfl, fun x hx => by simp [hx], fun _ => by simp⟩
    · exact Linked.root r.branches bi (r.br bi) hi.linked hnew hb (hi.tpar bi (List.mem_cons_self ..) _ hb) hroot
    · intro x hx
      simp only [List.mem_append, List.mem_singleton] at hx
      rcases hx with hx | rfl
      · exact hi.valid x hx
      · exact hbi
    · exact fun x hx => hi.tvalid x (List.mem_cons_of_mem _ hx)
    · intro x hx hmem
      simp only [List.mem_append, List.mem_singleton] at hmem
      rcases hmem with hmem | rfl
      · exact hi.tnew x (List.mem_cons_of_mem _ hx) hmem
      · exact hnd.1 hx
    · exact fun x hx => hi.tpar x (List.mem_cons_of_mem _ hx)
    · simp only [List.length_append, List.length_singleton]; omega
  · rw [if_neg hroot]
    cases hf : r.branches.findSome? (fun c => (r.find c (r.br bi).first.prev).map (fun h => (c, h))) with
    | none => exact ⟨hsame, fun x => rfl, fun x hx => hx, fun h => absurd h hroot⟩
    | some ch =>
      obtain ⟨c, h⟩ := ch
      simp only
      by_cases hh : h ≠ (r.br bi).parentHeight
      · rw [if_pos hh]; exact ⟨hsame, fun x => rfl, fun x hx => hx, fun h => absurd h hroot⟩
      · rw [if_neg hh]
        have hh' : h = (r.br bi).parentHeight := Decidable.not_not.mp hh
        obtain ⟨hcm, cb, hcb, hget⟩ := link_owner st r (bi :: rest) hi _ c h hf
        obtain ⟨d, hd, hid⟩ := (hi.ok c cb hcb).mapSound _ _ hget
        have hcne : c ≠ bi := fun e => hnew (e ▸ hcm)
        have hset : ∀ x, x ≠ bi → (r.arena.set bi { r.br bi with parent := some c })[x]? = r.arena[x]? := by
          intro x hx; rw [List.getElem?_set_ne (Ne.symm hx)]
        have hself : (r.arena.set bi { r.br bi with parent := some c })[bi]? = some { r.br bi with parent := some c } := by
          rw [List.getElem?_set_self hbi]
        refine ⟨⟨hi.store, ?_, ?_, ?_, ?_, ?_, hnd.2, ?_, ?_⟩, ?_, fun x hx => by simp [hx], fun h => absurd h hroot⟩
        · intro x b hx
          simp only [Repo.setBranch] at hx
          by_cases hxb : x = bi
          · subst hxb
            rw [hself] at hx; cases hx
            have ho := hi.ok x _ hb
            exact ⟨ho.nonempty, ho.linked, ho.ph, ho.off, ho.side, ho.mapSound, ho.fromFile⟩
          · rw [hset x hxb] at hx; exact hi.ok x b hx
        · simp only [Repo.setBranch]
          refine Linked.child r.branches bi { r.br bi with parent := some c } c cb d ?_ hnew hself hroot rfl hcm ?_ ?_ hid
          · exact Linked.congr r.arena _ r.branches hi.linked (fun x hx => hset x (fun e => hnew (e ▸ hx)))
          · rw [hset c hcne]; exact hcb
          · rw [← hh']; exact hd
        · intro x hx
          simp only [Repo.setBranch, List.length_set]
          simp only [List.mem_append, List.mem_singleton] at hx
          rcases hx with hx | rfl
          · exact hi.valid x hx
          · exact hbi
        · intro x hx
          simp only [Repo.setBranch, List.length_set]
          exact hi.tvalid x (List.mem_cons_of_mem _ hx)
        · intro x hx hmem
          simp only [List.mem_append, List.mem_singleton] at hmem
          rcases hmem with hmem | rfl
          · exact hi.tnew x (List.mem_cons_of_mem _ hx) hmem
          · exact hnd.1 hx
        · intro x hx b hxb
          simp only [Repo.setBranch] at hxb
          have hxne : x ≠ bi := fun e => hnd.1 (e ▸ hx)
          rw [hset x hxne] at hxb
          exact hi.tpar x (List.mem_cons_of_mem _ hx) b hxb
        · simp only [Repo.setBranch, List.length_set, List.length_append, List.length_singleton]; omega
        · intro x
          by_cases hxb : x = bi
          · subst hxb
            show ((r.arena.set x _)[x]?.getD default).parentHeight = _
            rw [List.getElem?_set_self hbi]; rfl
          · show ((r.arena.set bi _)[x]?.getD default).parentHeight = (r.arena[x]?.getD default).parentHeight
            rw [List.getElem?_set_ne (Ne.symm hxb)]

theorem loadLink_fold (st : Store) : ∀ (todo : List Nat) (r : Repo), LinkInv st r todo →
    LinkInv st (todo.foldl loadLinkStep r) [] ∧
    (∀ x, ((todo.foldl loadLinkStep r).br x).parentHeight = (r.br x).parentHeight) ∧
    (∀ x ∈ r.branches, x ∈ (todo.foldl loadLinkStep r).branches) ∧
    (∀ x ∈ todo, (r.br x).parentHeight = -1 → x ∈ (todo.foldl loadLinkStep r).branches) := by
  intro todo
  induction todo with
  | nil => intro r hi; exact ⟨hi, fun x => rfl, fun x hx => hx, by simp⟩
  | cons bi rest ih =>
    intro r hi
    simp only [List.foldl_cons]
    obtain ⟨h1, h2, h3, h4⟩ := loadLinkStep_inv st r bi rest hi
    obtain ⟨g1, g2, g3, g4⟩ := ih (loadLinkStep r bi) h1
    refine ⟨g1, fun x => by rw [g2 x, h2 x], fun x hx => g3 x (h3 x hx), ?_⟩
    intro x hx hroot
    rcases List.mem_cons.mp hx with rfl | hx
    · exact g3 x (h4 hroot)
    · exact g4 x hx (by rw [h2 x]; exact hroot)

/-! ### the chain `AtHeight` serves through an accepted branch -/

/-- a header record read from one of the stored branch files. -/
def FromStore (st : Store) (d : HData) : Prop :=
  ∃ k bf, List.lookup k st.branches = some bf ∧ d ∈ bf.headers

structure ChainFacts (P : HData → Prop) (ar : Arena) (fuel : Nat) (bi : Nat) (b : Branch) : Prop where
  cover : ∃ lo : Int, 0 ≤ lo ∧ lo ≤ b.parentHeight + b.offset ∧
    (∃ (ri : Nat) (rb : Branch), ar[ri]? = some rb ∧ rb.parentHeight = -1 ∧ lo = rb.parentHeight + rb.offset) ∧
    ∀ h, lo ≤ h → h ≤ b.height → ∃ d, atHeight ar fuel bi h = some d ∧ P d
  linked : ∀ h d d', atHeight ar fuel bi h = some d → atHeight ar fuel bi (h - 1) = some d' → d.hdr.prev = d'.hdr.id

theorem getI_some_range {α : Type} (l : List α) (i : Int) (a : α) (h : getI l i = some a) : 0 ≤ i ∧ i < l.length := by
  unfold getI at h
  split at h
  · cases h
  · have := (List.getElem?_eq_some_iff.mp h).1
    omega

theorem getI_defined {α : Type} (l : List α) (i : Int) (h0 : 0 ≤ i) (h1 : i < l.length) : ∃ a, getI l i = some a ∧ a ∈ l := by
  unfold getI
  have : ¬ i < 0 := by omega
  simp only [this, ↓reduceIte]
  have hlt : i.toNat < l.length := by omega
  exact ⟨l[i.toNat], List.getElem?_eq_getElem hlt, List.getElem_mem hlt⟩

theorem own_fromStore (st : Store) (b : Branch) (hb : BrOK st b) (d : HData) (hd : d ∈ b.headers) : FromStore st d := by
  obtain ⟨k, bf, n, hk, hh, _, _, _⟩ := hb.fromFile
  exact ⟨k, bf, hk, List.mem_of_mem_drop (hh ▸ hd)⟩

theorem atHeight_own (ar : Arena) (fuel bi : Nat) (b : Branch) (hb : ar[bi]? = some b) (h : Int) (hh : h > b.parentHeight) :
    atHeight ar (fuel + 1) bi h = getI b.headers (h - b.parentHeight - b.offset) := by
  simp only [atHeight, hb, hh, ↓reduceIte]

theorem atHeight_parent_none (ar : Arena) (fuel bi : Nat) (b : Branch) (hb : ar[bi]? = some b) (h : Int)
    (hh : ¬ h > b.parentHeight) (hp : b.parent = none) : atHeight ar (fuel + 1) bi h = none := by
  simp only [atHeight, hb, hh, ↓reduceIte, hp]

theorem atHeight_parent_some (ar : Arena) (fuel bi : Nat) (b : Branch) (hb : ar[bi]? = some b) (h : Int)
    (hh : ¬ h > b.parentHeight) (p : Nat) (hp : b.parent = some p) : atHeight ar (fuel + 1) bi h = atHeight ar fuel p h := by
  simp only [atHeight, hb, hh, ↓reduceIte, hp]

theorem linked_chain (P : HData → Prop) (ar : Arena) (bs : List Nat) (hl : Linked ar bs) :
    (∀ bi ∈ bs, ∀ b, ar[bi]? = some b → BrCore b ∧ ∀ d ∈ b.headers, P d) →
    ∀ bi ∈ bs, ∀ fuel, bs.length ≤ fuel → ∀ b, ar[bi]? = some b → ChainFacts P ar fuel bi b := by
  induction hl with
  | nil => intro _ bi hbi; cases hbi
  | root bs bi b _ hn hb hp hr ih =>
    intro hok x hx fuel hfuel xb hxb
    have ih := ih (fun y hy => hok y (by simp [hy]))
    simp only [List.mem_append, List.mem_singleton] at hx
    simp only [List.length_append, List.length_singleton] at hfuel
    rcases hx with hx | rfl
    · exact ih x hx fuel (by omega) xb hxb
    · rw [hb] at hxb; cases hxb
      obtain ⟨g, rfl⟩ : ∃ g, fuel = g + 1 := ⟨fuel - 1, by omega⟩
      obtain ⟨ho, hPo⟩ := hok x (by simp) b hb
      refine ⟨⟨b.parentHeight + b.offset, by have := ho.off; omega, Int.le_refl _, ⟨x, b, hb, hr, rfl⟩, ?_⟩, ?_⟩
      · intro h h1 h2
        have hgt : h > b.parentHeight := by have := ho.off; omega
        rw [atHeight_own ar g x b hb h hgt]
        unfold Branch.height at h2
        obtain ⟨a, ha, hm⟩ := getI_defined b.headers (h - b.parentHeight - b.offset) (by omega) (by omega)
        exact ⟨a, ha, hPo a hm⟩
      · intro h d d' h1 h2
        by_cases hgt : h - 1 > b.parentHeight
        · rw [atHeight_own ar g x b hb h (by omega)] at h1
          rw [atHeight_own ar g x b hb (h - 1) hgt] at h2
          have e : h - 1 - b.parentHeight - b.offset = h - b.parentHeight - b.offset - 1 := by omega
          rw [e] at h2
          exact internallyLinked_getI b.headers ho.linked _ d d' h1 h2
        · rw [atHeight_parent_none ar g x b hb (h - 1) hgt hp] at h2
          cases h2
  | child bs bi b p pb d0 _ hn hb hne hp hpm hpb hd hid ih =>
    intro hok x hx fuel hfuel xb hxb
    have ih := ih (fun y hy => hok y (by simp [hy]))
    simp only [List.mem_append, List.mem_singleton] at hx
    simp only [List.length_append, List.length_singleton] at hfuel
    rcases hx with hx | rfl
    · exact ih x hx fuel (by omega) xb hxb
    · rw [hb] at hxb; cases hxb
      obtain ⟨g, rfl⟩ : ∃ g, fuel = g + 1 := ⟨fuel - 1, by omega⟩
      obtain ⟨ho, hPo⟩ := hok x (by simp) b hb
      have hpo := (hok p (by simp [hpm]) pb hpb).1
      have hoff := (ho.side hne).1
      have hfirst := (ho.side hne).2
      obtain ⟨⟨lo, hlo0, hlop, hrootw, hcov⟩, hlk⟩ := ih p hpm g (by omega) pb hpb
      obtain ⟨hr0, hr1⟩ := getI_some_range _ _ _ hd
      have hpgt : b.parentHeight > pb.parentHeight := by have := hpo.off; omega
      -- the parent's header at the fork height, as the chain serves it
      have hfork : atHeight ar g p b.parentHeight = some d0 := by
        obtain ⟨g', rfl⟩ : ∃ g', g = g' + 1 := ⟨g - 1, by
          have : 1 ≤ bs.length := List.length_pos_of_mem hpm
          omega⟩
        rw [atHeight_own ar g' p pb hpb _ hpgt]; exact hd
      refine ⟨⟨lo, hlo0, by omega, hrootw, ?_⟩, ?_⟩
      · intro h h1 h2
        by_cases hgt : h > b.parentHeight
        · rw [atHeight_own ar g x b hb h hgt]
          unfold Branch.height at h2
          obtain ⟨a, ha, hm⟩ := getI_defined b.headers (h - b.parentHeight - b.offset) (by omega) (by omega)
          exact ⟨a, ha, hPo a hm⟩
        · rw [atHeight_parent_some ar g x b hb h hgt p hp]
          apply hcov h h1
          unfold Branch.height; omega
      · intro h d d' h1 h2
        by_cases hgt : h - 1 > b.parentHeight
        · rw [atHeight_own ar g x b hb h (by omega)] at h1
          rw [atHeight_own ar g x b hb (h - 1) hgt] at h2
          have e : h - 1 - b.parentHeight - b.offset = h - b.parentHeight - b.offset - 1 := by omega
          rw [e] at h2
          exact internallyLinked_getI b.headers ho.linked _ d d' h1 h2
        · by_cases hgt' : h > b.parentHeight
          · -- the seam: h = parentHeight + 1
            have hh : h = b.parentHeight + 1 := by omega
            rw [atHeight_own ar g x b hb h hgt'] at h1
            rw [atHeight_parent_some ar g x b hb (h - 1) hgt p hp] at h2
            have e : h - 1 = b.parentHeight := by omega
            rw [e, hfork] at h2
            cases h2
            have e0 : h - b.parentHeight - b.offset = 0 := by omega
            rw [e0] at h1
            have hhead : b.headers.head? = some d := by
              unfold getI at h1
              simp only [Int.lt_irrefl, ↓reduceIte, Int.toNat_zero] at h1
              rw [List.head?_eq_getElem?]; exact h1
            rw [hfirst d hhead]; exact hid.symm
          · rw [atHeight_parent_some ar g x b hb h hgt' p hp] at h1
            rw [atHeight_parent_some ar g x b hb (h - 1) hgt p hp] at h2
            exact hlk h d d' h1 h2

/-! ### the historical heights -/

theorem loadHistGo_ok : ∀ (f fuel : Nat) (r : Repo), f + 1 ≤ fuel →
    (∀ g : Nat, g ≤ f → (List.lookup g r.store.main).isSome = true) →
    ∃ hm, loadHistorical.go fuel f r = .ok (withHeights r hm) := by
  intro f
  induction f with
  | zero =>
    intro fuel r hfuel hfiles
    obtain ⟨k, rfl⟩ : ∃ k, fuel = k + 1 := ⟨fuel - 1, by omega⟩
    have h0 := hfiles 0 (Nat.le_refl _)
    cases hl : List.lookup 0 r.store.main with
    | none => rw [hl] at h0; cases h0
    | some recs =>
      simp only [loadHistorical.go, hl, ↓reduceIte]
      exact ⟨_, rfl⟩
  | succ f ih =>
    intro fuel r hfuel hfiles
    obtain ⟨k, rfl⟩ : ∃ k, fuel = k + 1 := ⟨fuel - 1, by omega⟩
    have h0 := hfiles (f + 1) (Nat.le_refl _)
    cases hl : List.lookup (f + 1) r.store.main with
    | none => rw [hl] at h0; cases h0
    | some recs =>
      simp only [loadHistorical.go, hl]
      have hne : ¬ (f + 1 = 0) := by omega
      simp only [hne, ↓reduceIte, Nat.add_sub_cancel]
      obtain ⟨hm, hgo⟩ := ih k (withHeights r ((recs.zipIdx).foldl
          (fun m (x : HData × Nat) => HMap.set m x.1.hdr.id ((((f + 1 : Nat) : Int)) * hpf + (x.2 : Int))) r.heights))
        (by omega) (fun g hg => hfiles g (by omega))
      exact ⟨hm, hgo⟩

theorem loadHistorical_ok (r : Repo) (lo : Nat) (hlo : (r.br r.longest).prunedLowest = (lo : Int))
    (hfiles : ∀ g : Nat, g * H ≤ lo → (List.lookup g r.store.main).isSome = true) :
    ∃ hm, loadHistorical r = .ok (withHeights r hm) := by
  unfold loadHistorical
  dsimp only
  rw [hlo]
  have hH : H = 1000 := rfl
  have hfile : Int.tdiv (lo : Int) hpf = ((lo / H : Nat) : Int) := by rw [hpf_eq]; rfl
  rw [hfile]
  split
  · exact ⟨r.heights, rfl⟩
  · rename_i hcond
    obtain ⟨sf, hsf, hsfle⟩ : ∃ sf : Nat,
        (if (lo : Int) - ((lo / H : Nat) : Int) * hpf = 0 then ((lo / H : Nat) : Int) - 1 else ((lo / H : Nat) : Int)) = (sf : Int) ∧
        sf * H ≤ lo := by
      split
      · rename_i hz
        have hpos : 0 < lo / H := by
          rcases Nat.eq_zero_or_pos (lo / H) with h0 | hp
          · exfalso; apply hcond; refine ⟨hz, ?_⟩; rw [h0]; rfl
          · exact hp
        refine ⟨lo / H - 1, by omega, ?_⟩
        have := Nat.div_mul_le_self lo H
        have : (lo / H - 1) * H ≤ lo / H * H := Nat.mul_le_mul_right _ (by omega)
        omega
      · exact ⟨lo / H, rfl, Nat.div_mul_le_self lo H⟩
    rw [hsf]
    simp only [Int.toNat_natCast]
    apply loadHistGo_ok sf (sf + 1) r (Nat.le_refl _)
    intro g hg
    apply hfiles g
    have : g * H ≤ sf * H := Nat.mul_le_mul_right _ hg
    omega

/-! ### Load from any consistent image -/

/-- what Load needs of a storage image: an index whose first entry is a root branch file, every indexed
    file consistent in itself, and main-chain files up to the height the branch files reach. -/
structure StoreOK (s : Store) : Prop where
  idx : ∃ k0 rest bf0, s.index = some (k0 :: rest) ∧ List.lookup k0 s.branches = some bf0 ∧ bf0.parentHeight = -1
  files : ∀ l, s.index = some l → ∀ k ∈ l, ∃ bf, List.lookup k s.branches = some bf ∧ FileOK bf
  main : ∀ k bf, (∀ l, s.index = some l → k ∈ l) → List.lookup k s.branches = some bf → ∀ g : Nat,
    (g : Int) * hpf ≤ bf.parentHeight + bf.offset + bf.headers.length → (List.lookup g s.main).isSome = true

/-- what Load builds. -/
structure LoadedOK (st : Store) (r : Repo) : Prop where
  store : r.store = st
  ok : ∀ (bi : Nat) (b : Branch), r.arena[bi]? = some b → BrOK st b
  linked : Linked r.arena r.branches
  valid : ∀ bi ∈ r.branches, bi < r.arena.length
  len : r.branches.length ≤ r.arena.length
  tip : r.longest ∈ r.branches
  heaviest : ∃ wl, lastWork r.arena r.longest = some wl ∧ ∀ b ∈ r.branches, ∃ w, lastWork r.arena b = some w ∧ w ≤ wl
  rooted : ∃ bi ∈ r.branches, (r.br bi).parentHeight = -1

theorem loadFinish_sound (st : Store) (r1 : Repo) (loaded : List Nat) (hP : PlaceInv st (r1, loaded))
    (hroot : ∃ b ∈ r1.arena, b.parentHeight = -1)
    (hmain : ∀ k bf, (∀ l, st.index = some l → k ∈ l) → List.lookup k st.branches = some bf → ∀ g : Nat,
      (g : Int) * hpf ≤ bf.parentHeight + bf.offset + bf.headers.length → (List.lookup g st.main).isSome = true) :
    ∃ r, loadFinish r1 loaded = (r, none) ∧ LoadedOK st r := by
  have hrng : loaded = List.range r1.arena.length := hP.rng
  have hst : r1.store = st := hP.store
  obtain ⟨rb, hrbm, hrbp⟩ := hroot
  obtain ⟨ri, hri, hrie⟩ := List.getElem_of_mem hrbm
  have hne : loaded.isEmpty = false := by
    rw [hrng]
    cases hl : r1.arena.length with
    | zero => omega
    | succ n => simp [List.range_succ]
  have hperm := sortByPH_perm r1.arena loaded
  have hmemS : ∀ x, x ∈ sortByPH r1.arena loaded ↔ x < r1.arena.length := by
    intro x; rw [hperm.mem_iff, hrng, List.mem_range]
  have hokA : ∀ (bi : Nat) (b : Branch), r1.arena[bi]? = some b → BrOK st b ∧ b.parent = none := by
    intro bi b hb
    exact hP.ok b (List.mem_of_getElem? hb)
  have hinv : LinkInv st { r1 with branches := [] } (sortByPH r1.arena loaded) := by
    refine ⟨hst, fun bi b hb => (hokA bi b hb).1, .nil, (by intro bi hbi; cases hbi), fun x hx => (hmemS x).mp hx,
      (by intro x _ hm; cases hm), ?_, fun x _ b hb => (hokA x b hb).2, ?_⟩
    · rw [hperm.nodup_iff, hrng]; exact List.nodup_range
    · simp only [List.length_nil, Nat.zero_add]
      rw [hperm.length_eq, hrng, List.length_range]; exact Nat.le_refl _
  obtain ⟨g1, g2, _, g4⟩ := loadLink_fold st _ _ hinv
  -- the root was accepted
  have hriS : ri ∈ sortByPH r1.arena loaded := (hmemS ri).mpr hri
  have hribr : (({ r1 with branches := [] } : Repo).br ri).parentHeight = -1 := by
    show (r1.arena[ri]?.getD default).parentHeight = -1
    rw [List.getElem?_eq_getElem hri, hrie]; exact hrbp
  have hrin := g4 ri hriS hribr
  unfold loadFinish
  simp only [hne, Bool.false_eq_true, ↓reduceIte]
  generalize hr2 : (sortByPH r1.arena loaded).foldl loadLinkStep { r1 with branches := [] } = r2 at g1 g2 hrin
  have hbne : r2.branches.isEmpty = false := by
    cases hb : r2.branches with
    | nil => rw [hb] at hrin; cases hrin
    | cons x xs => rfl
  simp only [hbne, Bool.false_eq_true, ↓reduceIte]
  -- Longest()
  have hall : ∀ bi ∈ r2.branches, ∃ l, r2.arena[bi]?.bind Branch.last? = some l := by
    intro bi hbi
    have hlt := g1.valid bi hbi
    rw [br_of_lt r2 bi hlt]
    have ho := g1.ok bi _ (br_of_lt r2 bi hlt)
    simp only [Option.bind_some, Branch.last?]
    cases hg : (r2.br bi).headers.getLast? with
    | none => rw [List.getLast?_eq_none_iff] at hg; exact absurd hg ho.nonempty
    | some l => exact ⟨l, rfl⟩
  have hsome := longestGo_some r2.arena r2.branches none hall (Or.inl (by
    intro hnil; rw [hnil] at hbne; cases hbne))
  obtain ⟨lg, hlg⟩ : ∃ lg, longestOf r2.arena r2.branches = some lg := by
    unfold longestOf
    cases hgo : longestOf.go r2.arena r2.branches none with
    | none => rw [hgo] at hsome; cases hsome
    | some res => exact ⟨res.1, rfl⟩
  rw [hlg]
  simp only
  obtain ⟨hlgm, hheavy⟩ := longestOf_spec _ _ _ hlg
  -- the historical heights
  have hlglt := g1.valid lg hlgm
  have hlgo := g1.ok lg _ (br_of_lt r2 lg hlglt)
  obtain ⟨lo, hlo⟩ : ∃ lo : Nat, (r2.br lg).prunedLowest = (lo : Int) :=
    ⟨(r2.br lg).prunedLowest.toNat, by unfold Branch.prunedLowest; have := hlgo.ph; have := hlgo.off; omega⟩
  have hhist := loadHistorical_ok { r2 with longest := lg } lo hlo (by
    intro f hf
    show (List.lookup f r2.store.main).isSome = true
    rw [g1.store]
    obtain ⟨k, bf, n, hk, hh, hp, ho, hki⟩ := hlgo.fromFile
    apply hmain k bf hki hk f
    have hnlt : n < bf.headers.length := by
      have hn := hlgo.nonempty
      rw [hh] at hn
      rcases Nat.lt_or_ge n bf.headers.length with h1 | h1
      · exact h1
      · exact absurd (List.drop_eq_nil_iff.mpr h1) hn
    unfold Branch.prunedLowest at hlo
    have hH : H = 1000 := rfl
    rw [hpf_eq, hH]
    rw [hH] at hf
    omega)
  obtain ⟨hm, hhm⟩ := hhist
  rw [hhm]
  refine ⟨_, rfl, ⟨g1.store, g1.ok, g1.linked, g1.valid, by have := g1.len; simpa using this, hlgm, hheavy, ri, hrin, ?_⟩⟩
  show (r2.br ri).parentHeight = -1
  rw [g2 ri]; exact hribr

theorem loadPruneHeight_eq (bs : List Branch) (keep : List Bool) (kh : Int) :
    loadPruneHeight bs keep kh = (bs.zip keep).foldl (fun (ph : Int) (x : Branch × Bool) =>
        if x.2 && x.1.parentHeight != -1 && x.1.parentHeight < ph then x.1.parentHeight else ph) kh := by
  unfold loadPruneHeight
  congr 1

/-- **Load from any consistent storage image succeeds and builds a well-linked forest.** -/
theorem load_sound (r0 : Repo) (depth : Int) (hd : 0 ≤ depth) (g : Hdr) (hs : StoreOK r0.store) :
    ∃ r, load r0 depth g = (r, none) ∧ LoadedOK r0.store r := by
  obtain ⟨k0, rest, bf0, hidx, hk0, hroot0⟩ := hs.idx
  have hfiles : ∀ k ∈ k0 :: rest, ∃ bf, List.lookup k r0.store.branches = some bf ∧ FileOK bf ∧
      ∀ l, r0.store.index = some l → k ∈ l := by
    intro k hk
    obtain ⟨bf, h1, h2⟩ := hs.files _ hidx k hk
    exact ⟨bf, h1, h2, fun l hl => by rw [hidx] at hl; cases hl; exact hk⟩
  obtain ⟨bs, hread, hlen, hbsok, hhead⟩ := loadRead_ok r0.store (k0 :: rest) [] hfiles
  simp only [List.nil_append] at hread
  have hhead0 := hhead k0 rest bf0 rfl hk0
  obtain ⟨bs', rfl⟩ : ∃ bs', bs = branchOfFile bf0 :: bs' := by
    cases bs with
    | nil => simp at hhead0
    | cons x xs => simp only [List.head?_cons, Option.some.injEq] at hhead0; exact ⟨xs, by rw [hhead0]⟩
  have hk0true : decide ((branchOfFile bf0).height ≥ (branchOfFile bf0).height - depth) = true := by
    simp only [decide_eq_true_eq]; omega
  obtain ⟨keep', hkeep, hklen⟩ := loadKeepFix_spec (branchOfFile bf0) bs' (branchOfFile bf0 :: bs').length
    (bs'.map fun b => decide (b.height ≥ (branchOfFile bf0).height - depth)) (by simp)
  unfold load
  simp only [freshRepo, hidx, List.isEmpty_cons, Bool.false_eq_true, ↓reduceIte, hread, List.head?_cons, List.map_cons,
    hk0true, hkeep]
  apply loadFinish_sound r0.store
  · -- placing
    have hle := loadPruneHeight_le ((branchOfFile bf0 :: bs').zip (true :: keep')) ((branchOfFile bf0).height - depth)
    rw [← loadPruneHeight_eq] at hle
    have hsp := loadPlace_spec r0.store
      (loadPruneHeight (branchOfFile bf0 :: bs') (true :: keep') ((branchOfFile bf0).height - depth))
      ((branchOfFile bf0 :: bs').zip (true :: keep'))
      ({ heights := [(r0.cfg.genesisId, 0)], invalid := mergedInvalid r0.store r0.cfg, store := r0.store,
         cfg := r0.cfg, disableDifficulty := r0.disableDifficulty, disableSplit := r0.disableSplit }, [])
      (fun x hx => hbsok x.1 (List.of_mem_zip hx).1) hle.2
      ⟨rfl, (by intro b hb; cases hb), rfl⟩
    exact hsp.1
  · have hle := loadPruneHeight_le ((branchOfFile bf0 :: bs').zip (true :: keep')) ((branchOfFile bf0).height - depth)
    rw [← loadPruneHeight_eq] at hle
    have hsp := loadPlace_spec r0.store
      (loadPruneHeight (branchOfFile bf0 :: bs') (true :: keep') ((branchOfFile bf0).height - depth))
      ((branchOfFile bf0 :: bs').zip (true :: keep'))
      ({ heights := [(r0.cfg.genesisId, 0)], invalid := mergedInvalid r0.store r0.cfg, store := r0.store,
         cfg := r0.cfg, disableDifficulty := r0.disableDifficulty, disableSplit := r0.disableSplit }, [])
      (fun x hx => hbsok x.1 (List.of_mem_zip hx).1) hle.2
      ⟨rfl, (by intro b hb; cases hb), rfl⟩
    obtain ⟨b, hb, hbp⟩ := hsp.2.2 (branchOfFile bf0, true) (by simp) rfl
    exact ⟨b, hb, by rw [hbp]; exact hroot0⟩
  · exact hs.main

/-- **the best chain of a loaded repository**, as the read API serves it from memory: defined at every
    height from the lowest height the root branch retains up to the tip, every header read from a stored
    branch file, each linked to the one below it. -/
theorem loaded_best_chain (st : Store) (r : Repo) (h : LoadedOK st r) :
    ∃ lo : Int, 0 ≤ lo ∧
      (∃ (ri : Nat) (rb : Branch), r.arena[ri]? = some rb ∧ rb.parentHeight = -1 ∧ lo = rb.prunedLowest) ∧
      (∀ x, lo ≤ x → x ≤ tipHeight r → ∃ d, r.at r.longest x = some d ∧ FromStore st d) ∧
      (∀ x d d', r.at r.longest x = some d → r.at r.longest (x - 1) = some d' → d.hdr.prev = d'.hdr.id) := by
  have hlt := h.valid r.longest h.tip
  have hc := linked_chain (FromStore st) r.arena r.branches h.linked
    (fun bi _ b hb => ⟨(h.ok bi b hb).core, fun d hd => own_fromStore st b (h.ok bi b hb) d hd⟩)
    r.longest h.tip r.fuel
    (by unfold Repo.fuel; have := h.len; omega) (r.br r.longest) (br_of_lt r _ hlt)
  obtain ⟨⟨lo, h0, _, hroot, hcov⟩, hlk⟩ := hc
  exact ⟨lo, h0, hroot, hcov, hlk⟩

/-! ### the executable test of `StoreOK` is sound -/

theorem linkedb_sound : ∀ l : List HData, linkedb l = true → InternallyLinked l
  | [], _ => trivial
  | [_], _ => trivial
  | a :: b :: rest, h => by
    simp only [linkedb, Bool.and_eq_true, beq_iff_eq] at h
    exact ⟨h.1, linkedb_sound (b :: rest) h.2⟩

theorem fileOKb_sound (bf : BranchFile) (h : fileOKb bf = true) : FileOK bf := by
  unfold fileOKb at h
  simp only [Bool.and_eq_true, Bool.not_eq_true', decide_eq_true_eq, Bool.or_eq_true, bne_iff_ne, ne_eq,
    beq_iff_eq] at h
  obtain ⟨⟨⟨⟨⟨h1, h2⟩, h3⟩, h4⟩, h5⟩, h6⟩ := h
  refine ⟨?_, linkedb_sound _ h2, h3, h4, ?_, ?_⟩
  · intro hnil; rw [hnil] at h1; simp at h1
  · intro ho d hd
    rcases h5 with h5 | h5
    · exact absurd ho h5
    · rw [hd] at h5; simpa using h5
  · intro hne
    rcases h6 with h6 | h6
    · exact absurd h6 hne
    · exact h6

theorem storeOKb_sound (s : Store) (h : storeOKb s = true) : StoreOK s := by
  unfold storeOKb at h
  cases hi : s.index with
  | none => rw [hi] at h; cases h
  | some idx =>
    cases idx with
    | nil => rw [hi] at h; cases h
    | cons k0 rest =>
      rw [hi] at h
      simp only [Bool.and_eq_true, List.all_eq_true] at h
      obtain ⟨h0, hall⟩ := h
      have hfile : ∀ k ∈ k0 :: rest, ∃ bf, List.lookup k s.branches = some bf ∧ fileOKb bf = true ∧ mainCoverb s bf = true := by
        intro k hk
        have := hall k hk
        cases hl : List.lookup k s.branches with
        | none => rw [hl] at this; cases this
        | some bf =>
          rw [hl] at this
          simp only [Bool.and_eq_true] at this
          exact ⟨bf, rfl, this.1, this.2⟩
      refine ⟨?_, ?_, ?_⟩
      · cases hl : List.lookup k0 s.branches with
        | none => rw [hl] at h0; cases h0
        | some bf0 =>
          rw [hl] at h0
          exact ⟨k0, rest, bf0, hi, hl, by simpa using h0⟩
      · intro l hl k hk
        rw [hi] at hl
        cases hl
        obtain ⟨bf, h1, h2, _⟩ := hfile k hk
        exact ⟨bf, h1, fileOKb_sound bf h2⟩
      · intro k bf hki hk g hg
        obtain ⟨bf', h1, _, h3⟩ := hfile k (hki _ hi)
        rw [hk] at h1; cases h1
        unfold mainCoverb at h3
        simp only [List.all_eq_true, List.mem_range] at h3
        apply h3 g
        have hH : (Facts.headersPerFile : Nat) = 1000 := rfl
        have hh : hpf = 1000 := rfl
        rw [hH]
        rw [hh] at hg
        omega

end BRV.Repo
