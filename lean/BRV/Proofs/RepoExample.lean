/-
The genesis-only repository (the state every history starts from) satisfies every invariant.
-/
import BRV.Proofs.RepoStreamStep

namespace BRV.Repo

def genesisRepo : Repo :=
  { arena := [{ parent := none, parentHeight := -1, first := { id := 0, prev := 99, bits := 0x1d00ffff, time := 1 },
                offset := 1, headers := [{ hdr := { id := 0, prev := 99, bits := 0x1d00ffff, time := 1 }, work := 4295032833 }],
                hmap := [(0, 0)] }],
    branches := [0], longest := 0, heights := [(0, 0)], disableDifficulty := true }

theorem genesisRepo_get (bi : Nat) (b : Branch) (hb : genesisRepo.arena[bi]? = some b) :
    bi = 0 ∧ b = genesisRepo.arena[0] := by
  cases bi with
  | zero => simp [genesisRepo] at hb ⊢; exact hb.symm
  | succ n => simp [genesisRepo] at hb

/-- the genesis-only repository satisfies the lookup invariants. -/
theorem genesisRepo_wf : RepoWF genesisRepo := by
  have hget : ∀ (bi : Nat) (b : Branch), genesisRepo.arena[bi]? = some b → bi = 0 ∧ b = genesisRepo.arena[0] := by
    intro bi b hb
    cases bi with
    | zero => simp [genesisRepo] at hb ⊢; exact hb.symm
    | succ n => simp [genesisRepo] at hb
  have hk : ∀ (k : Nat) (d : HData), (genesisRepo.arena[0]).headers[k]? = some d → k = 0 := by
    intro k d hk
    cases k with
    | zero => rfl
    | succ n => simp [genesisRepo] at hk
  refine ⟨linkWF_single _ rfl rfl _ rfl rfl, ⟨?_, ?_, ?_⟩, ⟨by simp [genesisRepo], by simp [genesisRepo]⟩, ?_⟩
  · intro bi hlt; simp [genesisRepo] at hlt ⊢; omega
  · intro bi b hb
    obtain ⟨rfl, rfl⟩ := hget bi b hb
    intro id x
    constructor
    · intro hg
      simp only [genesisRepo, List.getElem_cons_zero, HMap.get?, List.lookup] at hg
      by_cases hid : id = 0
      · subst hid
        simp only [BEq.rfl, Option.some.injEq] at hg
        exact ⟨0, _, rfl, rfl, by rw [← hg]; rfl⟩
      · have : (id == 0) = false := by simpa using hid
        simp only [this] at hg; cases hg
    · rintro ⟨k, d, hk', hid, hx⟩
      have := hk k d hk'
      subst this
      simp only [genesisRepo, List.getElem_cons_zero, List.getElem?_cons_zero, Option.some.injEq] at hk'
      subst hk'; subst hid; subst hx
      rfl
  · intro bi bj b c k l d e hb hc hk1 hl1 _
    obtain ⟨rfl, rfl⟩ := hget bi b hb
    obtain ⟨rfl, rfl⟩ := hget bj c hc
    exact ⟨rfl, by rw [hk k d hk1, hk l e hl1]⟩
  · intro id x hg
    simp only [genesisRepo, HMap.get?, List.lookup] at hg
    by_cases hid : id = 0
    · subst hid
      simp only [BEq.rfl, Option.some.injEq] at hg
      exact ⟨0, _, 0, _, rfl, rfl, rfl, by rw [← hg]; rfl⟩
    · have : (id == 0) = false := by simpa using hid
      simp only [this] at hg; cases hg


theorem genesisRepo_streamWF : StreamWF genesisRepo := by
  refine ⟨⟨genesisRepo_wf, ?_, ?_⟩, ?_, ?_⟩
  · intro bi b p hb hpar
    obtain ⟨rfl, rfl⟩ := genesisRepo_get bi b hb
    simp [genesisRepo] at hpar
  · intro bi b hb hpar
    obtain ⟨rfl, rfl⟩ := genesisRepo_get bi b hb
    rfl
  · intro bi b p pbr hb hpar _
    obtain ⟨rfl, rfl⟩ := genesisRepo_get bi b hb
    simp [genesisRepo] at hpar
  · intro bi b hb _
    exact (genesisRepo_get bi b hb).1

theorem genesisRepo_chain : IsChain genesisRepo.arena genesisRepo.longest [{ id := 0, prev := 99, bits := 0x1d00ffff, time := 1 }] := by
  refine ⟨genesisRepo.arena[0], rfl, by decide, ?_⟩
  intro k hk
  simp only [List.length_cons, List.length_nil] at hk
  have : k = 0 := by omega
  subst this
  exact ⟨{ hdr := { id := 0, prev := 99, bits := 0x1d00ffff, time := 1 }, work := 4295032833 }, by decide, rfl⟩

end BRV.Repo
